#!/usr/bin/env python3
"""Rewrites lean/Cqos/Facts/Glue*.lean from the CURRENT lean/Cqos/Facts/Generated.lean: to be run
by hand (and the result reviewed) when a change of a glue function has been accepted.  The checks
never run it."""
import re
g=open('/verif/lean/Cqos/Facts/Generated.lean').read()
blk=g[g.index("def callseq"):]
blk=blk[:blk.index("\n]")]
rows=re.findall(r'^\s*\((".*?"), (".*?"), (".*?"), (\[.*\])\),?$', blk, re.M)
def sel(pkgs): return [r for r in rows if r[0].strip('"') in pkgs]
hdr='''/-
  Glue skeletons.  The functions listed here are executed only by the disciplines' own
  goroutines or called by the user (`main`, `loop`, `loopUntimeouted`, `transfer`, the handlers
  of the simplified disciplines, `Stop`, `GracefulStop`, `Release`, `AddInput`, `RemoveInput`):
  the steppers call the functions *inside* them one at a time and the step machines of
  Cqos/Sched.lean, Join.lean, Limit.lean, Simple.lean, SimpleV1.lean encode how these glue
  functions compose them.  The table `callseq` (regenerated from /repo on every run) holds, for
  each of them, the calls made through the receiver (with their argument text), channel
  operations, `time.*` calls and the control skeleton, in source order, with local variables
  renamed `$1, $2, …` in order of first appearance; the theorems below pin it to the
  composition the machines assume.  A change of the glue (a reordered call, another argument,
  an extra branch) breaks the obligation of the properties that rely on that composition; the
  black-box scenarios then look for a failing input.
-/
'''
def mod(name, pkgs, doc):
    rs=sel(pkgs)
    body="import Cqos.Facts.Defs\n"+hdr+"namespace Cqos.Facts\n\n"
    body+="def %sExpected : List (String × String × String × List String) := [\n"%name
    body+=",\n".join("  (%s, %s, %s, %s)"%r for r in rs)+"\n]\n\n"
    body+="/-- %s -/\n"%doc
    pk=" || ".join('r.1 == "%s"'%p for p in pkgs)
    body+="theorem %s : callseq.filter (fun r => %s) = %sExpected := by decide\n\nend Cqos.Facts\n"%(name,pk,name)
    open('/verif/lean/Cqos/Facts/%s.lean'%(name[0].upper()+name[1:]),'w').write(body)
mod('glueLimit',['v2/limit'],'limit: `main` = `loop` then close (deferred); `loop` = transfer, stop test, `delay(duration)`; `transfer` = clock reading, `pass`, elapsed time')
mod('glueJoin',['v2/join','v2/join/unite','join'],'join / unite: `main` picks `loopUntimeouted` iff the interrupt interval is zero; both loops end with the deferred `pass`; the timed loop passes on a tick only when `isTimeouted`')
mod('gluePrioV2',['v2/priority','v2/priority/simple'],'v2 priority: `loop` = deferred `waitZeroActual`; repeat `base`, error exit, exit test `processed == 0 && isDrainedInputs`, `getLimitedFeedback`; simplified handler: `Handle` then `Release`')
mod('gluePrioV1',['priority'],'v1 priority and Simple: the loop-top select, `base`, graceful exit test, `getLimitedFeedback`; Stop / GracefulStop = breaker; AddInput / RemoveInput = one send on the command channel; Simple main / handler / gracefulStop')
# constructor skeletons
cb=g[g.index("def ctors"):]
cb=cb[:cb.index("\n]")]
crows=re.findall(r'^\s*\((".*?"), (".*?"), (\[.*\])\),?$', cb, re.M)
chdr="""/-
  Constructor skeletons: the top-level statements of every `New*` (kind and target), regenerated
  from /repo on every run.  What the machines assume about creation — the Inputs map is read
  (v1 `updateInputs`, v2 `prepare`) before the constructor returns, `passAt` is initialised at
  creation (`resetPassAt`), the rate is used as given, the goroutine is started last — is pinned
  here.
-/
"""
def cmod(name, pkgs, doc):
    rs=[r for r in crows if r[0].strip('"') in pkgs]
    body="import Cqos.Facts.Defs\n"+chdr+"namespace Cqos.Facts\n\n"
    body+="def %sExpected : List (String × String × List (String × String)) := [\n"%name
    body+=",\n".join("  (%s, %s, %s)"%r for r in rs)+"\n]\n\n"
    body+="/-- %s -/\n"%doc
    pk=" || ".join('r.1 == "%s"'%p for p in pkgs)
    body+="theorem %s : ctors.filter (fun r => %s) = %sExpected := by decide\n\nend Cqos.Facts\n"%(name,pk,name)
    open('/verif/lean/Cqos/Facts/%s.lean'%(name[0].upper()+name[1:]),'w').write(body)
cmod('ctorsPrio',['v2/priority','v2/priority/simple','priority'],'priority disciplines: validation, capacities, `prepare` / `updateInputs` (the caller\'s Inputs map is read here, before the constructor returns), struct, goroutine last')
cmod('ctorsJoin',['v2/join','v2/join/unite','join'],'join / unite: validation, interrupt interval, struct, `resetPassAt()` (the timeout runs from creation), goroutine last')
cmod('ctorsLimit',['v2/limit'],'limit: validation, struct (the rate is used as given), goroutine last')
print(len(rows), len(crows))
