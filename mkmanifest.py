#!/usr/bin/env python3
"""Regenerates MANIFEST.json from props.py (checks) — keeps the manifest valid at all times."""
import json, os, subprocess
import props
ROOT = os.path.dirname(os.path.abspath(__file__))
ids = [json.loads(l)['id'] for l in open(os.path.join(ROOT, 'properties.jsonl'))]
hooks_commits = subprocess.run(['git', '-C', '/repo', 'log', '--format=%h %s'], capture_output=True, text=True).stdout.splitlines()
hook_commits = [l.split()[0] for l in hooks_commits if l.split(' ', 1)[1].startswith('verif hook')]
checks = []
for pid in ids:
    if pid not in props.PROPS:
        continue
    s = props.PROPS[pid]
    checks.append({
        'property_id': pid,
        'quick_cmd': f'./check {pid} --tier quick',
        'thorough_cmd': f'./check {pid} --tier thorough',
        'evidence_file': f'/verif/evidence/{pid}.json',
        'replay_cmd_template': f'./check {pid} --replay {{path}}',
        'engine': 'lean4-proof+correspondence',
        'level_claimed': {'category': s.get('level', 'proof'), 'text': s['level_text'], 'design_ref': s.get('design_ref', 'DESIGN.md section 5, ' + pid)},
        'level_note': s['level_note'],
        'technique': s.get('technique', 'Lean 4 theorems about a hand-written executable model + differential correspondence check against the Go code'),
    })
na = [{'property_id': p, 'reason': props.NOT_APPLICABLE.get(p, 'check not built yet (work in progress)')} for p in ids if p not in props.PROPS]
m = {
    'version': 1,
    'setup_cmd': './setup.sh',
    'hooks': {'guard': 'verif', 'enable': 'go build -tags verif (harness module /verif/harness replaces both cqos modules by /repo and /repo/v2)',
              'baseline_off_cmd': './baseline.sh', 'source_commits': hook_commits, 'add_only': True},
    'engines': [{'name': 'lean4-proof+correspondence', 'path': '/verif/check',
                 'serves_properties': [c['property_id'] for c in checks],
                 'kind_free_text': 'Lean 4 project /verif/lean (model + theorems, kernel-checked, axiom audit), Go harness /verif/harness (differential correspondence against /repo with -tags verif hooks, property monitors as failing-input search), python driver'}],
    'checks': checks,
    'not_applicable': na,
    'notes': 'See DESIGN.md. Fix commits in /repo are listed in known_findings.json (fixed entries).',
}
json.dump(m, open(os.path.join(ROOT, 'MANIFEST.json'), 'w'), indent=1)
print('checks:', [c['property_id'] for c in checks], 'not_applicable:', len(na))
