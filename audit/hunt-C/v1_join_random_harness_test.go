// PASSES on unchanged code (supporting harness, no defect). Copy to join/ (v1) and run: go test -race -run TestAuditRandom -count=2 ./join/
package join_test

import (
	"math/rand"
	"testing"
	"time"
	"unsafe"

	"github.com/akramarenkov/cqos/join"
)

type rec struct {
	data []int
	at   time.Time
	ptr  uintptr
	capa int
}

// runs a scenario and checks C03/C08/C09/C10
func scenario(t *testing.T, rnd *rand.Rand, joinSize uint, inCap int, noCopy bool, timeout time.Duration, inacc uint, total int, maxPause time.Duration, scribble bool) {
	t.Helper()

	input := make(chan int, inCap)

	var released chan struct{}
	var releasedR <-chan struct{}
	if noCopy {
		released = make(chan struct{}, rnd.Intn(2))
		releasedR = released
	}
	dsc, err := join.New(join.Opts[int]{Input: input, JoinSize: joinSize, Released: releasedR, Timeout: timeout, TimeoutInaccuracy: inacc})
	if err != nil {
		t.Fatalf("new: %v", err)
	}

	created := time.Now()

	accepted := make([]time.Time, total)

	pauses := make([]time.Duration, total)
	for i := range pauses {
		if maxPause > 0 && rnd.Intn(4) == 0 {
			pauses[i] = time.Duration(rnd.Int63n(int64(maxPause)))
		}
	}

	go func() {
		defer close(input)

		for i := 0; i < total; i++ {
			if pauses[i] > 0 {
				time.Sleep(pauses[i])
			}
			input <- i
			accepted[i] = time.Now()
		}
	}()

	var recs []rec

	deadline := time.After(60 * time.Second)

	held := [][]int{}
	heldCopies := [][]int{}

loop:
	for {
		select {
		case <-deadline:
			t.Fatalf("hang")
		case s, ok := <-dsc.Output():
			if !ok {
				break loop
			}

			now := time.Now()

			cp := append([]int(nil), s...)
			recs = append(recs, rec{data: cp, at: now, ptr: uintptr(unsafe.Pointer(unsafe.SliceData(s))), capa: cap(s)})

			if noCopy {
				// hold for a while, verify unchanged, then release
				if rnd.Intn(3) == 0 {
					time.Sleep(time.Duration(rnd.Int63n(int64(2 * time.Millisecond))))
				}
				for i := range s {
					if s[i] != cp[i] {
						t.Fatalf("nocopy slice changed before release")
					}
				}
				select {
				case x, ok := <-dsc.Output():
					t.Fatalf("output before release: %v %v", x, ok)
				default:
				}
				released <- struct{}{}
			} else {
				if scribble {
					full := s[:cap(s)]
					for i := range full {
						full[i] = -1000 - i
					}
					held = append(held, full)
					heldCopies = append(heldCopies, append([]int(nil), full...))
				} else {
					held = append(held, s)
					heldCopies = append(heldCopies, cp)
				}
			}
		}
	}

	// C08 copy mode
	for i := range held {
		for j := range held[i] {
			if held[i][j] != heldCopies[i][j] {
				t.Fatalf("copy-mode slice %d modified after delivery", i)
			}
		}
	}
	if !noCopy {
		for i := range recs {
			for j := i + 1; j < len(recs); j++ {
				a0, a1 := recs[i].ptr, recs[i].ptr+uintptr(recs[i].capa)*8
				b0, b1 := recs[j].ptr, recs[j].ptr+uintptr(recs[j].capa)*8
				if a0 < b1 && b0 < a1 {
					t.Fatalf("outputs %d and %d share memory", i, j)
				}
			}
		}
	}

	// C03
	next := 0
	for i, r := range recs {
		if len(r.data) == 0 {
			t.Fatalf("empty slice %d", i)
		}
		if uint(len(r.data)) > joinSize {
			t.Fatalf("slice %d too long %d", i, len(r.data))
		}
		for _, v := range r.data {
			if v != next {
				t.Fatalf("slice %d: expected %d got %d", i, next, v)
			}
			next++
		}
	}
	if next != total {
		t.Fatalf("lost: got %d of %d", next, total)
	}

	// C09
	prev := created
	for i, r := range recs {
		if i != len(recs)-1 && uint(len(r.data)) != joinSize {
			if timeout <= 0 {
				t.Fatalf("non-full non-last slice %d without timeout: len %d", i, len(r.data))
			}
			if d := r.at.Sub(prev); d < timeout-500*time.Microsecond {
				t.Fatalf("non-full slice %d delivered %v after previous (timeout %v)", i, d, timeout)
			}
		}
		prev = r.at
	}

	// C10
	if timeout > 0 {
		div := 100 / inaccOrDefault(inacc)
		bound := timeout + timeout/time.Duration(div) + 15*time.Millisecond
		if noCopy {
			bound += 3 * time.Millisecond
		}
		for _, r := range recs {
			for _, v := range r.data {
				if age := r.at.Sub(accepted[v]); age > bound {
					t.Fatalf("element %d stayed %v > %v (timeout %v)", v, age, bound, timeout)
				}
			}
		}
	}
}

func inaccOrDefault(i uint) uint {
	if i == 0 {
		return 25
	}
	return i
}

func TestAuditRandom(t *testing.T) {
	seed := time.Now().UnixNano()
	t.Logf("seed %d", seed)
	rnd := rand.New(rand.NewSource(seed))

	for it := 0; it < 12; it++ {
		joinSize := uint(1 + rnd.Intn(12))
		inCap := rnd.Intn(3) * int(joinSize)
		noCopy := rnd.Intn(2) == 0
		var timeout time.Duration
		var maxPause time.Duration
		inacc := uint(0)
		inCapT := inCap
		if rnd.Intn(3) != 0 {
			timeout = time.Duration(1000+rnd.Intn(400)) * time.Millisecond
			maxPause = timeout * 3 / 2
			inacc = []uint{0, 1, 5, 25, 33, 50, 51, 100}[rnd.Intn(8)]; if inacc==1 {timeout*=1}
			inCapT = 0 // accepted time measurable only with unbuffered input
		} else if rnd.Intn(2) == 0 {
			timeout = -time.Duration(rnd.Intn(5)) * time.Millisecond
			maxPause = 2 * time.Millisecond
		}
		total := rnd.Intn(12)
		scenario(t, rnd, joinSize, inCapT, noCopy, timeout, inacc, total, maxPause, rnd.Intn(2) == 0)
	}
}
