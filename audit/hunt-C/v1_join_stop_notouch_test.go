// PASSES on unchanged code (supporting harness, no defect). Copy to join/ (v1) and run: go test -race -run TestAuditStopNoTouch -count=2 ./join/
package join_test

import (
	"context"
	"testing"
	"time"

	"github.com/akramarenkov/cqos/join"
)

func TestAuditStopNoTouch(t *testing.T) {
	for it := 0; it < 300; it++ {
		ctx, cancel := context.WithCancel(context.Background())
		input := make(chan int, it%4)
		released := make(chan struct{}, it%2)
		var timeout time.Duration
		if it%3 == 0 {
			timeout = 40 * time.Millisecond
		}
		dsc, err := join.New(join.Opts[int]{Ctx: ctx, Input: input, JoinSize: 3, Released: released, Timeout: timeout})
		if err != nil {
			t.Fatal(err)
		}
		for i := 1; i <= 3; i++ {
			input <- i
		}
		s := <-dsc.Output()
		if len(s) != 3 || s[0] != 1 || s[2] != 3 {
			t.Fatalf("bad %v", s)
		}
		if it%5 == 0 {
			go dsc.Stop()
		} else {
			cancel()
		}
		// keep feeding
		stop := time.After(5 * time.Millisecond)
	feed:
		for i := 100; ; i++ {
			select {
			case input <- i:
			case <-stop:
				break feed
			}
		}
		if it%7 == 0 {
			// late release attempt
			select {
			case released <- struct{}{}:
			default:
			}
		}
		deadline := time.After(5 * time.Second)
	drain:
		for {
			select {
			case x, ok := <-dsc.Output():
				if !ok {
					break drain
				}
				t.Fatalf("it %d: output after stop before release: %v", it, x)
			case <-deadline:
				t.Fatalf("hang")
			}
		}
		if s[0] != 1 || s[1] != 2 || s[2] != 3 || len(s[:cap(s)]) != 3 {
			t.Fatalf("touched %v", s)
		}
		cancel()
	}
}
