// PASSES on unchanged code (supporting harness, no defect). Copy to v2/join/ and run: cd v2 && go test -run "TestAuditTiny|TestAuditHuge" -v ./join/
package join_test

import (
	"math"
	"testing"
	"time"

	"github.com/akramarenkov/cqos/v2/join"
)

func TestAuditTiny(t *testing.T) {
	for _, to := range []time.Duration{1, 3, 4, 100, 1000, math.MaxInt64} {
		for _, inacc := range []uint{0, 1, 100, 101, math.MaxUint} {
			input := make(chan int, 5)
			dsc, err := join.New(join.Opts[int]{Input: input, JoinSize: 7, Timeout: to, TimeoutInaccuracy: inacc})
			if err != nil {
				t.Logf("to=%d inacc=%d: %v", to, inacc, err)
				continue
			}
			go func() {
				for i := 0; i < 20000; i++ {
					input <- i
				}
				close(input)
			}()
			next := 0
			dl := time.After(20 * time.Second)
		l:
			for {
				select {
				case s, ok := <-dsc.Output():
					if !ok {
						break l
					}
					if len(s) == 0 || len(s) > 7 {
						t.Fatalf("len %d", len(s))
					}
					for _, v := range s {
						if v != next {
							t.Fatalf("order")
						}
						next++
					}
				case <-dl:
					t.Fatalf("hang to=%d inacc=%d next=%d", to, inacc, next)
				}
			}
			if next != 20000 {
				t.Fatalf("lost")
			}
		}
	}
}

func TestAuditHugeJoinSize(t *testing.T) {
	for _, js := range []uint{math.MaxInt, math.MaxInt + 1, math.MaxUint} {
		func() {
			defer func() {
				if r := recover(); r != nil {
					t.Logf("JoinSize %d: panic %v", js, r)
				}
			}()
			input := make(chan struct{}, 5)
			dsc, err := join.New(join.Opts[struct{}]{Input: input, JoinSize: js})
			if err != nil {
				t.Logf("err %v", err)
				return
			}
			input <- struct{}{}
			input <- struct{}{}
			close(input)
			for s := range dsc.Output() {
				t.Logf("JoinSize %d: got len %d", js, len(s))
			}
		}()
	}
}
