// PASSES on unchanged code (supporting harness, no defect). Copy to v2/join/unite/ and run: cd v2 && go test -race -run TestAuditRandom -count=3 ./join/unite/
package unite_test

import (
	"math/rand"
	"testing"
	"time"
	"unsafe"

	"github.com/akramarenkov/cqos/v2/join/unite"
)

type rec struct {
	data []int
	at   time.Time
	ptr  uintptr
	capa int
}

func scenario(t *testing.T, rnd *rand.Rand, joinSize uint, inCap int, noCopy bool, timeout time.Duration, inacc uint, total int, maxPause time.Duration, scribble bool) {
	t.Helper()

	input := make(chan []int, inCap)

	dsc, err := unite.New(unite.Opts[int]{Input: input, JoinSize: joinSize, NoCopy: noCopy, Timeout: timeout, TimeoutInaccuracy: inacc})
	if err != nil {
		t.Fatalf("new: %v", err)
	}

	created := time.Now()

	// build input slices
	var inputs [][]int
	n := 0
	for i := 0; i < total; i++ {
		var l int
		switch rnd.Intn(6) {
		case 0:
			l = 0
		case 1:
			l = int(joinSize)
		case 2:
			l = int(joinSize) + rnd.Intn(5)
		default:
			l = rnd.Intn(int(joinSize) + 1)
		}
		var s []int
		if l == 0 && rnd.Intn(2) == 0 {
			s = nil
		} else {
			s = make([]int, l, l+rnd.Intn(3))
		}
		for j := range s {
			s[j] = n
			n++
		}
		inputs = append(inputs, s)
	}

	acceptedAt := make([]time.Time, n)
	owner := make([]int, n) // element -> input slice index
	for i, s := range inputs {
		for _, v := range s {
			owner[v] = i
		}
	}

	pauses := make([]time.Duration, total)
	for i := range pauses {
		if maxPause > 0 && rnd.Intn(4) == 0 {
			pauses[i] = time.Duration(rnd.Int63n(int64(maxPause)))
		}
	}

	go func() {
		defer close(input)

		for i, s := range inputs {
			if pauses[i] > 0 {
				time.Sleep(pauses[i])
			}
			var cp []int
			if s != nil {
				cp = append(make([]int, 0, cap(s)), s...)
			}
			input <- cp
			now := time.Now()
			for _, v := range s {
				acceptedAt[v] = now
			}
		}
	}()

	var recs []rec

	deadline := time.After(60 * time.Second)

	held := [][]int{}
	heldCopies := [][]int{}

loop:
	for {
		select {
		case <-deadline:
			t.Fatalf("hang")
		case s, ok := <-dsc.Output():
			if !ok {
				break loop
			}

			now := time.Now()

			cp := append([]int(nil), s...)
			recs = append(recs, rec{data: cp, at: now, ptr: uintptr(unsafe.Pointer(unsafe.SliceData(s))), capa: cap(s)})

			if noCopy {
				if rnd.Intn(3) == 0 {
					time.Sleep(time.Duration(rnd.Int63n(int64(2 * time.Millisecond))))
				}
				for i := range s {
					if s[i] != cp[i] {
						t.Fatalf("nocopy slice changed before release")
					}
				}
				select {
				case x, ok := <-dsc.Output():
					t.Fatalf("output before release: %v %v", x, ok)
				default:
				}
				dsc.Release()
			} else {
				if scribble {
					full := s[:cap(s)]
					for i := range full {
						full[i] = -1000 - i
					}
					held = append(held, full)
					heldCopies = append(heldCopies, append([]int(nil), full...))
				} else {
					held = append(held, s)
					heldCopies = append(heldCopies, cp)
				}
			}
		}
	}

	for i := range held {
		for j := range held[i] {
			if held[i][j] != heldCopies[i][j] {
				t.Fatalf("copy-mode slice %d modified after delivery", i)
			}
		}
	}
	if !noCopy {
		for i := range recs {
			for j := i + 1; j < len(recs); j++ {
				a0, a1 := recs[i].ptr, recs[i].ptr+uintptr(recs[i].capa)*8
				b0, b1 := recs[j].ptr, recs[j].ptr+uintptr(recs[j].capa)*8
				if a0 < b1 && b0 < a1 {
					t.Fatalf("outputs %d and %d share memory", i, j)
				}
			}
		}
	}

	// C03 / C11
	next := 0
	for i, r := range recs {
		if len(r.data) == 0 {
			t.Fatalf("empty slice %d", i)
		}
		for _, v := range r.data {
			if v != next {
				t.Fatalf("slice %d: expected %d got %d", i, next, v)
			}
			next++
		}
		first, last := r.data[0], r.data[len(r.data)-1]
		// whole input slices only
		if first != inputs[owner[first]][0] {
			t.Fatalf("slice %d starts in the middle of input slice", i)
		}
		if s := inputs[owner[last]]; last != s[len(s)-1] {
			t.Fatalf("slice %d ends in the middle of input slice", i)
		}
		if uint(len(r.data)) > joinSize && owner[first] != owner[last] {
			t.Fatalf("slice %d too long %d and not a single input", i, len(r.data))
		}
		if owner[first] != owner[last] {
			for _, v := range r.data {
				if uint(len(inputs[owner[v]])) >= joinSize {
					t.Fatalf("big input slice was merged")
				}
			}
		}
	}
	if next != n {
		t.Fatalf("lost: got %d of %d", next, n)
	}

	// C09
	prev := created
	for i, r := range recs {
		if i != len(recs)-1 {
			last := r.data[len(r.data)-1]
			// next non-empty input slice
			nextLen := len(inputs[owner[last+1]])
			maximal := uint(len(r.data)) >= joinSize || uint(len(r.data)+nextLen) > joinSize
			if !maximal {
				if timeout <= 0 {
					t.Fatalf("non-maximal non-last slice %d without timeout: len %d", i, len(r.data))
				}
				if d := r.at.Sub(prev); d < timeout-500*time.Microsecond {
					t.Fatalf("non-maximal slice %d delivered %v after previous (timeout %v)", i, d, timeout)
				}
			}
		}
		prev = r.at
	}

	// C10
	if timeout > 0 {
		div := 100 / inaccOrDefault(inacc)
		bound := timeout + timeout/time.Duration(div) + 15*time.Millisecond
		if noCopy {
			bound += 5 * time.Millisecond
		}
		for _, r := range recs {
			for _, v := range r.data {
				if age := r.at.Sub(acceptedAt[v]); age > bound {
					t.Fatalf("element %d stayed %v > %v (timeout %v)", v, age, bound, timeout)
				}
			}
		}
	}
}

func inaccOrDefault(i uint) uint {
	if i == 0 {
		return 25
	}
	return i
}

func TestAuditRandom(t *testing.T) {
	seed := time.Now().UnixNano()
	t.Logf("seed %d", seed)
	rnd := rand.New(rand.NewSource(seed))

	for it := 0; it < 60; it++ {
		joinSize := uint(1 + rnd.Intn(12))
		inCap := rnd.Intn(3) * int(joinSize)
		noCopy := rnd.Intn(2) == 0
		var timeout time.Duration
		var maxPause time.Duration
		inacc := uint(0)
		inCapT := inCap
		if rnd.Intn(3) != 0 {
			timeout = time.Duration(20+rnd.Intn(40)) * time.Millisecond
			maxPause = timeout * 3
			inacc = []uint{0, 1, 5, 25, 33, 50, 51, 100}[rnd.Intn(8)]
			inCapT = 0
		} else if rnd.Intn(2) == 0 {
			timeout = -time.Duration(rnd.Intn(5)) * time.Millisecond
			maxPause = 2 * time.Millisecond
		}
		total := rnd.Intn(40)
		scenario(t, rnd, joinSize, inCapT, noCopy, timeout, inacc, total, maxPause, rnd.Intn(2) == 0)
	}
}
