// SUPPORTING (passes, timing logged with -v): copy into v2/limit/ and run: cd v2 && go test ./limit -run 'TestAuditC12Upfront|TestAuditC04Continuous' -count=1 -v
package limit

import (
	"math/rand"
	"testing"
	"time"
)

func runUpfront(t *testing.T, n int, rt Rate) (first, last, closed time.Duration) {
	input := make(chan int, n)
	for i := 0; i < n; i++ {
		input <- i
	}
	close(input)
	start := time.Now()
	dsc, err := New(Opts[int]{Input: input, Limit: rt})
	if err != nil {
		t.Fatal(err)
	}
	want := 0
	for item := range dsc.Output() {
		if item != want {
			t.Fatalf("order")
		}
		if want == 0 {
			first = time.Since(start)
		}
		want++
		last = time.Since(start)
	}
	if want != n {
		t.Fatalf("lost %d", n-want)
	}
	closed = time.Since(start)
	return
}

func TestAuditC12Upfront(t *testing.T) {
	for _, c := range []struct {
		n  int
		rt Rate
	}{
		{6, Rate{50 * time.Millisecond, 7}},
		{50, Rate{50 * time.Millisecond, 7}},
		{49, Rate{50 * time.Millisecond, 7}},
		{300, Rate{10 * time.Millisecond, 1}},
		{3000, Rate{time.Millisecond, 1}},
		{3000, Rate{100 * time.Microsecond, 1}},
		{100000, Rate{time.Second, 1 << 62}},
		{5, Rate{1<<63 - 1, 6}},
	} {
		f, l, cl := runUpfront(t, c.n, c.rt)
		batches := (c.n + int(c.rt.Quantity) - 1) / int(c.rt.Quantity)
		if c.rt.Quantity > 1<<40 {
			batches = 1
		}
		t.Logf("n=%d rate=%v: first %v last %v closed %v; ideal last %v", c.n, c.rt, f, l, cl, time.Duration(batches-1)*c.rt.Interval)
	}
}

// send-side/continuous consumer: irregular input, check both C04 clauses on consumer timestamps
func TestAuditC04Continuous(t *testing.T) {
	const interval = 20 * time.Millisecond
	const quantity = 5
	for _, inCap := range []int{0, 3, 100} {
		input := make(chan int, inCap)
		before := time.Now()
		dsc, err := New(Opts[int]{Input: input, Limit: Rate{interval, quantity}})
		if err != nil {
			t.Fatal(err)
		}
		go func() {
			defer close(input)
			rnd := rand.New(rand.NewSource(int64(inCap)))
			for i := 0; i < 1500; i++ {
				switch rnd.Intn(40) {
				case 0:
					time.Sleep(time.Duration(rnd.Intn(int(3 * interval))))
				case 1:
					time.Sleep(interval - time.Duration(rnd.Intn(2000))*time.Microsecond/10)
				}
				input <- i
			}
		}()
		var stamps []time.Duration
		for range dsc.Output() {
			stamps = append(stamps, time.Since(before))
		}
		for k, s := range stamps {
			if k+1 > quantity*(int(s/interval)+1) {
				t.Fatalf("cap %d: clause 1: %d elements by %v", inCap, k+1, s)
			}
		}
		worst := 0
		for a := range stamps {
			for b := a; b < len(stamps); b++ {
				w := stamps[b] - stamps[a]
				cnt := b - a + 1
				if cnt > quantity*(int(w/interval)+2) {
					t.Fatalf("cap %d: clause 2: %d elements within %v", inCap, cnt, w)
				}
				if w < interval && cnt > worst {
					worst = cnt
				}
			}
		}
		t.Logf("cap %d: total time %v, max elements in sub-interval window %d", inCap, stamps[len(stamps)-1], worst)
	}
}
