// SUPPORTING (passes): copy into v2/limit/ and run: cd v2 && go test ./limit -run TestAuditRecalculate -count=1
package limit

import (
	"errors"
	"math"
	"math/big"
	"math/rand"
	"testing"
	"time"
)

func checkRecalc(t *testing.T, rt Rate, minimum time.Duration) {
	got, err := rt.Recalculate(minimum)
	if err != nil {
		if got != (Rate{}) {
			t.Fatalf("%v %v: error with non-zero rate %v", rt, minimum, got)
		}
		switch {
		case rt.IsValid() != nil:
			if !errors.Is(err, rt.IsValid()) {
				t.Fatalf("%v %v: wrong error %v", rt, minimum, err)
			}
		case minimum < 0:
			if !errors.Is(err, ErrMinimumIntervalNegative) {
				t.Fatalf("%v %v: wrong error %v", rt, minimum, err)
			}
		case errors.Is(err, ErrConvertedIntervalZero):
			if minimum != 0 || uint64(rt.Interval)/rt.Quantity != 0 {
				t.Fatalf("%v %v: unjustified %v", rt, minimum, err)
			}
		case errors.Is(err, ErrConvertedQuantityUnrepresentable):
			q := new(big.Int).Mul(new(big.Int).SetUint64(rt.Quantity), big.NewInt(int64(minimum)))
			q.Quo(q, big.NewInt(int64(rt.Interval)))
			if q.IsUint64() {
				t.Fatalf("%v %v: unjustified %v (q=%v)", rt, minimum, err, q)
			}
			if uint64(rt.Interval)/rt.Quantity >= uint64(minimum) {
				t.Fatalf("%v %v: unjustified %v, flatten would do", rt, minimum, err)
			}
		default:
			t.Fatalf("%v %v: unexpected error %v", rt, minimum, err)
		}
		return
	}
	if rt.IsValid() != nil || minimum < 0 {
		t.Fatalf("%v %v: no error", rt, minimum)
	}
	if got.IsValid() != nil {
		t.Fatalf("%v %v: invalid result %v", rt, minimum, got)
	}
	if got.Interval < minimum {
		t.Fatalf("%v %v: interval below minimum %v", rt, minimum, got)
	}
	if got.Quantity != 1 && got.Interval != minimum {
		t.Fatalf("%v %v: quantity not 1 %v", rt, minimum, got)
	}
	// speed: orig Q/I, new q/i
	Q := new(big.Int).SetUint64(rt.Quantity)
	I := big.NewInt(int64(rt.Interval))
	q := new(big.Int).SetUint64(got.Quantity)
	i := big.NewInt(int64(got.Interval))
	orig := new(big.Rat).SetFrac(Q, I)
	nw := new(big.Rat).SetFrac(q, i)
	switch nw.Cmp(orig) {
	case 1: // faster: exact interval for q elements is q*I/Q ; i > that - 1
		exact := new(big.Rat).SetFrac(new(big.Int).Mul(q, I), Q)
		diff := new(big.Rat).Sub(exact, new(big.Rat).SetInt(i))
		if diff.Cmp(big.NewRat(1, 1)) >= 0 || diff.Sign() <= 0 {
			t.Fatalf("%v %v: too fast %v diff %v", rt, minimum, got, diff)
		}
	case -1: // slower: exact quantity for i is Q*i/I ; q > that - 1
		exact := new(big.Rat).SetFrac(new(big.Int).Mul(Q, i), I)
		diff := new(big.Rat).Sub(exact, new(big.Rat).SetInt(q))
		if diff.Cmp(big.NewRat(1, 1)) >= 0 || diff.Sign() <= 0 {
			t.Fatalf("%v %v: too slow %v diff %v", rt, minimum, got, diff)
		}
	}
}

func TestAuditRecalculate(t *testing.T) {
	ivs := []time.Duration{math.MinInt64, -1, 0, 1, 2, 3, 7, 10, 999, 1000, 1e6, 1e7, 1e7 + 1, 1e9, math.MaxInt64 - 1, math.MaxInt64, math.MaxInt64 / 2, math.MaxInt64/2 + 1, 1 << 32, 1<<32 - 1}
	qs := []uint64{0, 1, 2, 3, 7, 10, 999, 1000, 1e6, 1e7, 1e9, math.MaxInt64 - 1, math.MaxInt64, math.MaxInt64 + 1, math.MaxUint64 - 1, math.MaxUint64, 1 << 32, 1<<32 - 1, 1 << 63}
	for _, iv := range ivs {
		for _, q := range qs {
			for _, m := range ivs {
				checkRecalc(t, Rate{iv, q}, m)
			}
		}
	}
	for iv := time.Duration(-1); iv < 40; iv++ {
		for q := uint64(0); q < 40; q++ {
			for m := time.Duration(-1); m < 40; m++ {
				checkRecalc(t, Rate{iv, q}, m)
			}
		}
	}
	rnd := rand.New(rand.NewSource(1))
	r := func() uint64 {
		return rnd.Uint64() >> uint(rnd.Intn(64))
	}
	for n := 0; n < 2000000; n++ {
		checkRecalc(t, Rate{time.Duration(r() >> 1), r()}, time.Duration(r()>>1))
	}
}
