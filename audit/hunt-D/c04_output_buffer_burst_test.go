// Copy into v2/limit/ and run: cd v2 && go test ./limit -run 'TestAuditC04' -count=5 -timeout 120s -v
package limit

import (
	"testing"
	"time"
)

// Property C04 (window clause): any time window of length W contains at most
// Quantity*(floor(W/Interval)+2) elements that left the output, however the
// consumer reads.
//
// The output channel is created with capacity 1+cap(Input) (limit.go, New). While
// the consumer does not read, the discipline keeps filling that buffer at the
// configured rate, one more element sits in the blocked send(), and because the
// blocked transfer lasted longer than Interval no delay follows it, so yet another
// batch is passed at once. When the consumer resumes it receives
// cap(output) + 1 + Quantity elements back to back.
func auditBurst(t *testing.T, inputCap int, pause time.Duration) {
	const interval = 200 * time.Millisecond

	input := make(chan int, inputCap)

	dsc, err := New(Opts[int]{Input: input, Limit: Rate{Interval: interval, Quantity: 1}})
	if err != nil {
		t.Fatal(err)
	}

	done := make(chan struct{})
	defer close(done)

	go func() {
		defer close(input)

		for item := 0; ; item++ {
			select {
			case <-done:
				return
			case input <- item:
			}
		}
	}()

	// consumer is busy with something else for a while
	time.Sleep(pause)

	// capacity of output + element in blocked send + next batch passed without delay
	burst := cap(dsc.Output()) + 2

	stamps := make([]time.Time, 0, burst)

	deadline := time.After(interval / 2)

	for len(stamps) < burst {
		select {
		case item, opened := <-dsc.Output():
			if !opened {
				t.Fatal("unexpected close")
			}

			if item != len(stamps) {
				t.Fatalf("order broken: got %d want %d", item, len(stamps))
			}

			stamps = append(stamps, time.Now())
		case <-deadline:
			t.Logf("only %d elements within half an interval, no burst", len(stamps))
			return
		}
	}

	window := stamps[len(stamps)-1].Sub(stamps[0])
	allowed := 1 * (int(window/interval) + 2)

	t.Logf("received %d elements within %s, allowed %d", len(stamps), window, allowed)

	if len(stamps) > allowed {
		t.Fatalf(
			"C04 violated: %d elements left the output within %s (Quantity 1 per %s allows %d)",
			len(stamps), window, interval, allowed,
		)
	}
}

// Unbuffered input: output capacity is 1, three elements are received at once,
// two are allowed.
func TestAuditC04BurstUnbufferedInput(t *testing.T) {
	auditBurst(t, 0, 1*time.Second)
}

// Input of capacity 8 (README recommends 1e2..1e6): eleven elements at once.
func TestAuditC04BurstBufferedInput(t *testing.T) {
	auditBurst(t, 8, 3*time.Second)
}
