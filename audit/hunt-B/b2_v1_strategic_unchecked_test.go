// Copy into <repo>/priority/ and run: go test -count=5 -run TestAuditB2 ./priority/
//
// BORDERLINE (C15 speaks only about divisions "made for a round"): in v1 the strategic
// division (New / AddInput / RemoveInput, distribution == nil) is never validated
// (v2 validates it in New). calcTacticByAddUpToStrategic() then sums the tactic with
// plain wrapping arithmetic, so a strategic distribution whose total wraps around to
// HandlersQuantity is accepted as a tactic: HandlersQuantity is exceeded and no error
// is ever reported.
package priority_test

import (
	"math"
	"testing"
	"time"

	"github.com/akramarenkov/cqos/priority"
)

func TestAuditB2StrategicUnchecked(t *testing.T) {
	const hq = 4

	// faulty only in the strategic division; divisions made for a round are correct
	faulty := func(prs []uint, dividend uint, dist map[uint]uint) map[uint]uint {
		if dist == nil && len(prs) == 2 {
			// total is MaxUint + 5 == 4 (mod 2^64) == HandlersQuantity
			return map[uint]uint{prs[0]: math.MaxUint, prs[1]: 5}
		}

		return priority.FairDivider(prs, dividend, dist)
	}

	in2 := make(chan int, 64)
	in1 := make(chan int, 64)

	for i := 0; i < 64; i++ {
		in2 <- i
		in1 <- i
	}

	output := make(chan priority.Prioritized[int])
	feedback := make(chan uint)

	dsc, err := priority.New(priority.Opts[int]{
		Divider:          faulty,
		Feedback:         feedback,
		HandlersQuantity: hq,
		Inputs:           map[uint]<-chan int{2: in2, 1: in1},
		Output:           output,
	})
	if err != nil {
		t.Fatal(err)
	}

	defer dsc.Stop()

	// handlers never release anything
	inflight := 0

	for {
		select {
		case <-output:
			inflight++

			if inflight > hq {
				t.Fatalf("%d items are in flight, HandlersQuantity is %d, no error reported", inflight, hq)
			}
		case err := <-dsc.Err():
			t.Logf("terminated with %v, in flight %d", err, inflight)
			return
		case <-time.After(500 * time.Millisecond):
			t.Logf("stalled, in flight %d", inflight)
			return
		}
	}
}
