// Copy into <repo>/v2/priority/ and run (from <repo>/v2): go test -count=5 -run TestAuditF1 ./priority/
//
// C15 (v2): New must return ErrDividerBad when the divider is faulty at creation, and a
// fault in a division made for a round must be reported as ErrDividerBad on Err().
// If the faulty total does not fit into uint both places report
// safe.ErrValueOverflow ("value overflow") instead; errors.Is(err, ErrDividerBad) is false.
package priority_test

import (
	"errors"
	"math"
	"testing"
	"time"

	"github.com/akramarenkov/cqos/v2/priority"
	"github.com/akramarenkov/cqos/v2/priority/divider"
)

func TestAuditF1V2NewOverflowIsNotDividerBad(t *testing.T) {
	faulty := func(prs []uint, dividend uint, dist map[uint]uint) {
		divider.Fair(prs, dividend, dist)

		if len(prs) >= 2 && dividend >= 2 {
			dist[prs[0]] = math.MaxUint
		}
	}

	_, err := priority.New(priority.Opts[int]{
		Divider:          faulty,
		HandlersQuantity: 4,
		Inputs:           map[uint]<-chan int{2: make(chan int), 1: make(chan int)},
	})
	if err == nil {
		t.Fatal("New accepted a faulty divider")
	}

	if !errors.Is(err, priority.ErrDividerBad) {
		t.Fatalf("New() error = %q, expected ErrDividerBad", err)
	}
}

func TestAuditF1V2RoundOverflowIsNotDividerBad(t *testing.T) {
	calls := 0

	// correct at creation (first call), faulty afterwards
	faulty := func(prs []uint, dividend uint, dist map[uint]uint) {
		divider.Fair(prs, dividend, dist)

		calls++

		if calls > 1 && len(prs) >= 2 && dividend >= 2 {
			dist[prs[0]] = math.MaxUint
		}
	}

	in2 := make(chan int, 16)
	in1 := make(chan int, 16)

	for i := 0; i < 16; i++ {
		in2 <- i
		in1 <- i
	}

	dsc, err := priority.New(priority.Opts[int]{
		Divider:          faulty,
		HandlersQuantity: 4,
		Inputs:           map[uint]<-chan int{2: in2, 1: in1},
	})
	if err != nil {
		t.Fatal(err)
	}

	go func() {
		for item := range dsc.Output() {
			dsc.Release(item.Priority)
		}
	}()

	select {
	case err := <-dsc.Err():
		if err == nil {
			t.Fatal("no error reported at all")
		}

		if !errors.Is(err, priority.ErrDividerBad) {
			t.Fatalf("Err() = %q, expected ErrDividerBad", err)
		}
	case <-time.After(5 * time.Second):
		t.Fatal("discipline did not terminate")
	}
}
