// Auxiliary randomized harness (passes on the unchanged code). Copy into <repo>/priority/ and run: go test -count=1 -run TestZZ ./priority/  (FZ_N=<seeds>, FZ_START=<first seed>; with -race set FZ_NOFAULTOPS=1)
package priority_test

import (
	"context"
	"testing"
	"time"

	"github.com/akramarenkov/cqos/priority"
)

func TestZZStates(t *testing.T) {
	for _, useCtx := range []bool{false, true} {
		for _, buffered := range []int{0, 5} {
			for _, state := range []string{"noread", "busy", "busy-graceful", "noread-graceful", "idle-graceful"} {
				for _, hq := range []uint{1, 3, 7} {
					ctx, cancel := context.WithCancel(context.Background())
					in1 := make(chan int, buffered)
					in2 := make(chan int, buffered)
					out := make(chan priority.Prioritized[int])
					fb := make(chan uint)
					d, err := priority.New(priority.Opts[int]{Ctx: ctx, Divider: priority.FairDivider, Feedback: fb,
						HandlersQuantity: hq, Inputs: map[uint]<-chan int{2: in1, 1: in2}, Output: out})
					if err != nil {
						t.Fatal(err)
					}
					quit := make(chan struct{})
					for _, c := range []chan int{in1, in2} {
						go func() {
							for i := 0; ; i++ {
								select {
								case c <- i:
								case <-quit:
									return
								}
							}
						}()
					}
					delivered := 0
					switch state {
					case "busy", "busy-graceful":
						for i := uint(0); i < hq; i++ {
							select {
							case <-out:
								delivered++
							case <-time.After(2 * time.Second):
								if hq > 1 {
									// with 1 handler and 2 priorities one of them is starved; fine
								}
							}
						}
					case "idle-graceful":
						close(quit)
						quit = make(chan struct{})
					}
					time.Sleep(5 * time.Millisecond)
					if state == "busy-graceful" || state == "noread-graceful" || state == "idle-graceful" {
						go d.GracefulStop()
						time.Sleep(5 * time.Millisecond)
					}
					fin := make(chan struct{})
					go func() {
						defer close(fin)
						if useCtx {
							cancel()
							<-d.Err()
						} else {
							d.Stop()
						}
					}()
					select {
					case <-fin:
					case <-time.After(2 * time.Second):
						t.Fatalf("hang ctx=%v buf=%d state=%s hq=%d", useCtx, buffered, state, hq)
					}
					select {
					case <-out:
						t.Errorf("write after termination ctx=%v buf=%d state=%s hq=%d", useCtx, buffered, state, hq)
					case <-time.After(3 * time.Millisecond):
					}
					d.Stop()
					d.GracefulStop()
					cancel()
					close(quit)
				}
			}
		}
	}
}
