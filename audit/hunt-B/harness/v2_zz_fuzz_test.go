// Auxiliary randomized harness (passes on the unchanged code). Copy into <repo>/v2/priority/ and run from <repo>/v2: go test -count=1 -run TestZZFuzz2 ./priority/  (FZ_N=<seeds>)
package priority_test

import (
	"math/rand"
	"os"
	"runtime"
	"strconv"
	"sync"
	"sync/atomic"
	"testing"
	"time"

	"github.com/akramarenkov/cqos/v2/priority"
	"github.com/akramarenkov/cqos/v2/priority/divider"
)

func fz2One(t *testing.T, seed int64) {
	rnd := rand.New(rand.NewSource(seed))
	base := runtime.NumGoroutine()

	hq := uint(4 + rnd.Intn(9))
	var bd divider.Divider = divider.Fair
	if hq >= 10 && rnd.Intn(2) == 0 {
		bd = divider.Rate
	}
	faultAt := 2 + rnd.Intn(40)
	faultKind := rnd.Intn(3)
	calls := 0
	var faulted atomic.Bool
	var viol []string
	var cmu sync.Mutex
	count := 0
	sAtFault := 0
	var dscp *priority.Discipline[int]
	configured := map[uint]bool{}

	dv := func(prs []uint, dividend uint, dist map[uint]uint) {
		for i, p := range prs {
			if i > 0 && prs[i-1] <= p {
				viol = append(viol, "unsorted")
			}
			if !configured[p] {
				viol = append(viol, "unconfigured")
			}
		}
		if dividend > hq {
			viol = append(viol, "dividend>hq")
		}
		if dist == nil {
			viol = append(viol, "nil dist")
		}
		bd(prs, dividend, dist)
		calls++
		if calls == faultAt && len(prs) > 0 {
			switch faultKind {
			case 0:
				dist[prs[0]]++
			case 1:
				dist[prs[len(prs)-1]] += 3
			case 2:
				if dist[prs[0]] > 0 {
					dist[prs[0]]--
					if dividend == 1 {
						// total becomes zero - not a detectable fault
						dist[prs[0]] += 2
					}
				} else {
					dist[prs[0]]++
				}
			}
			cmu.Lock()
			sAtFault = count + len(dscp.Output())
			cmu.Unlock()
			faulted.Store(true)
		}
	}

	inputs := map[uint]<-chan int{}
	type prod struct {
		ch    chan int
		total int
	}
	var prods []prod
	for p := uint(1); p <= 4; p++ {
		if rnd.Intn(4) != 0 || (p == 4 && len(prods) == 0) {
			c := make(chan int, rnd.Intn(3)*rnd.Intn(4))
			inputs[p] = c
			configured[p] = true
			prods = append(prods, prod{c, 20 + rnd.Intn(100)})
		}
	}

	dsc, err := priority.New(priority.Opts[int]{Divider: dv, HandlersQuantity: hq, Inputs: inputs})
	if err != nil {
		t.Fatalf("seed %d: %v", seed, err)
	}
	dscp = dsc

	stopAll := make(chan struct{})
	var pwg sync.WaitGroup
	for _, pr := range prods {
		pwg.Add(1)
		go func() {
			defer pwg.Done()
			defer close(pr.ch)
			for i := 0; i < pr.total; i++ {
				select {
				case pr.ch <- i:
				case <-stopAll:
					return
				}
			}
		}()
	}

	var inflight, maxIn atomic.Int64
	var hwg sync.WaitGroup
	slow := rnd.Intn(2) == 0
	for i := uint(0); i < hq; i++ {
		hwg.Add(1)
		hr := rand.New(rand.NewSource(seed*1000 + int64(i)))
		go func() {
			defer hwg.Done()
			for {
				cmu.Lock()
				var it struct {
					p  uint
					ok bool
					cl bool
				}
				select {
				case v, opened := <-dsc.Output():
					if !opened {
						it.cl = true
					} else {
						count++
						it.p = v.Priority
						it.ok = true
					}
				default:
				}
				cmu.Unlock()
				if it.cl {
					return
				}
				if !it.ok {
					time.Sleep(10 * time.Microsecond)
					continue
				}
				n := inflight.Add(1)
				for {
					m := maxIn.Load()
					if n <= m || maxIn.CompareAndSwap(m, n) {
						break
					}
				}
				if slow {
					time.Sleep(time.Duration(hr.Intn(300)) * time.Microsecond)
				}
				inflight.Add(-1)
				dsc.Release(it.p)
			}
		}()
	}

	done := make(chan struct{})
	var gotErr error
	go func() {
		defer close(done)
		hwg.Wait()
		gotErr = <-dsc.Err()
	}()
	select {
	case <-done:
	case <-time.After(10 * time.Second):
		buf := make([]byte, 1<<16)
		n := runtime.Stack(buf, true)
		t.Fatalf("seed %d: hang faulted=%v\n%s", seed, faulted.Load(), buf[:n])
	}
	close(stopAll)
	pwg.Wait()

	if len(viol) != 0 {
		t.Errorf("seed %d: %v", seed, viol)
	}
	if uint(maxIn.Load()) > hq {
		t.Errorf("seed %d: capacity %d > %d", seed, maxIn.Load(), hq)
	}
	if faulted.Load() {
		if gotErr != priority.ErrDividerBad {
			t.Errorf("seed %d: err = %v (kind %d)", seed, gotErr, faultKind)
		}
		if count != sAtFault {
			t.Errorf("seed %d: delivered after fault %d -> %d", seed, sAtFault, count)
		}
	} else if gotErr != nil {
		t.Errorf("seed %d: unexpected %v", seed, gotErr)
	}
	deadline := time.Now().Add(2 * time.Second)
	for runtime.NumGoroutine() > base && time.Now().Before(deadline) {
		time.Sleep(time.Millisecond)
	}
	if n := runtime.NumGoroutine(); n > base {
		t.Errorf("seed %d: goroutine leak %d > %d", seed, n, base)
	}
}

func TestZZFuzz2(t *testing.T) {
	n := 300
	if s := os.Getenv("FZ_N"); s != "" {
		n, _ = strconv.Atoi(s)
	}
	for s := int64(1); s <= int64(n); s++ {
		fz2One(t, s)
		if t.Failed() {
			return
		}
	}
}
