// Auxiliary randomized harness (passes on the unchanged code). Copy into <repo>/priority/ and run: go test -count=1 -run TestZZ ./priority/  (FZ_N=<seeds>, FZ_START=<first seed>; with -race set FZ_NOFAULTOPS=1)
package priority_test

import (
	"fmt"
	"math/rand"
	"os"
	"runtime"
	"strconv"
	"sync"
	"sync/atomic"
	"testing"
	"time"

	"github.com/akramarenkov/cqos/priority"
)

type fzItem struct {
	ch  int
	seq int
}

type fzChan struct {
	id       int
	ch       chan fzItem
	prio     uint
	sent     atomic.Int64
	stop     chan struct{}
	done     chan struct{}
	total    int
	closeIt  bool
	detached bool  // removed or replaced
	started  atomic.Bool
	consT    int64 // consumed at detaching time
}

func (c *fzChan) run() {
	defer close(c.done)
	for i := 0; i < c.total; i++ {
		select {
		case <-c.stop:
			return
		case c.ch <- fzItem{c.id, i}:
			c.sent.Add(1)
		}
	}
	if c.closeIt {
		close(c.ch)
	}
}

func (c *fzChan) start() {
	c.started.Store(true)
	go c.run()
}

func (c *fzChan) halt() {
	if !c.started.Load() {
		return
	}
	select {
	case <-c.stop:
	default:
		close(c.stop)
	}
	<-c.done
}

type fzEnv struct {
	t  *testing.T
	hq uint

	mu         sync.Mutex
	configured map[uint]bool
	viol       []string

	base    priority.Divider
	faultAt int
	calls   int
	faulted atomic.Bool

	forwarded    atomic.Int64
	fwdAtFault   int64
	inflight     atomic.Int64
	maxInflight  atomic.Int64
}

func (e *fzEnv) violate(f string, a ...any) {
	e.viol = append(e.viol, fmt.Sprintf(f, a...))
}

func (e *fzEnv) divider(prs []uint, dividend uint, dist map[uint]uint) map[uint]uint {
	e.mu.Lock()
	for i, p := range prs {
		if i > 0 && prs[i-1] <= p {
			e.violate("unsorted/dup %v", prs)
		}
		if !e.configured[p] {
			e.violate("not configured %d in %v", p, prs)
		}
	}
	if dividend > e.hq {
		e.violate("dividend %d > hq %d", dividend, e.hq)
	}
	e.mu.Unlock()

	out := e.base(prs, dividend, dist)

	if dist != nil && len(prs) > 0 {
		e.calls++
		if e.calls == e.faultAt {
			out[prs[0]]++
			time.Sleep(2 * time.Millisecond)
			e.fwdAtFault = e.forwarded.Load()
			e.faulted.Store(true)
		}
	}
	return out
}

func fzOne(t *testing.T, seed int64) {
	rnd := rand.New(rand.NewSource(seed))
	base := runtime.NumGoroutine()

	hq := uint(4 + rnd.Intn(9))
	e := &fzEnv{t: t, hq: hq, configured: map[uint]bool{}}
	if hq >= 10 && rnd.Intn(2) == 0 {
		e.base = priority.RateDivider
	} else {
		e.base = priority.FairDivider
	}
	mode := rnd.Intn(3) // 0 graceful, 1 stop, 2 fault
	if mode == 2 {
		e.faultAt = 1 + rnd.Intn(30)
	}

	var chans []*fzChan
	cur := map[uint]*fzChan{}
	newChan := func(p uint) *fzChan {
		c := &fzChan{id: len(chans), prio: p, stop: make(chan struct{}), done: make(chan struct{})}
		c.ch = make(chan fzItem, rnd.Intn(3)*rnd.Intn(4))
		c.total = 5 + rnd.Intn(60)
		c.closeIt = true
		chans = append(chans, c)
		return c
	}

	inputs := map[uint]<-chan fzItem{}
	for p := uint(1); p <= 4; p++ {
		if rnd.Intn(3) != 0 {
			c := newChan(p)
			cur[p] = c
			inputs[p] = c.ch
			e.configured[p] = true
		}
	}

	outCap := rnd.Intn(3)
	output := make(chan priority.Prioritized[fzItem], outCap)
	feedback := make(chan uint, rnd.Intn(3))
	mid := make(chan priority.Prioritized[fzItem])

	dsc, err := priority.New(priority.Opts[fzItem]{
		Divider: e.divider, Feedback: feedback, HandlersQuantity: hq, Inputs: inputs, Output: output,
	})
	if err != nil {
		t.Fatal(err)
	}

	stopAll := make(chan struct{})
	var hwg sync.WaitGroup
	var dmu sync.Mutex
	delivered := map[int][]int{}
	tags := map[int]uint{}
	stopReturned := atomic.Bool{}
	lateWrites := atomic.Int64{}

	hwg.Add(1)
	go func() {
		defer hwg.Done()
		for {
			select {
			case <-stopAll:
				return
			case it := <-output:
				if stopReturned.Load() && outCap == 0 {
					lateWrites.Add(1)
				}
				e.forwarded.Add(1)
				n := e.inflight.Add(1)
				for {
					m := e.maxInflight.Load()
					if n <= m || e.maxInflight.CompareAndSwap(m, n) {
						break
					}
				}
				dmu.Lock()
				delivered[it.Item.ch] = append(delivered[it.Item.ch], it.Item.seq)
				tags[it.Item.ch] = it.Priority
				dmu.Unlock()
				select {
				case <-stopAll:
					return
				case mid <- it:
				}
			}
		}
	}()
	slow := rnd.Intn(2) == 0
	for i := uint(0); i < hq; i++ {
		hwg.Add(1)
		hr := rand.New(rand.NewSource(seed*1000 + int64(i)))
		go func() {
			defer hwg.Done()
			for {
				select {
				case <-stopAll:
					return
				case it := <-mid:
					if slow {
						time.Sleep(time.Duration(hr.Intn(300)) * time.Microsecond)
					}
					e.inflight.Add(-1)
					select {
					case <-stopAll:
						return
					case feedback <- it.Priority:
					}
				}
			}
		}()
	}

	for _, c := range cur {
		c.start()
	}

	detach := func(c *fzChan) {
		c.halt()
		c.detached = true
		c.consT = c.sent.Load() - int64(len(c.ch))
	}

	nops := rnd.Intn(8)
	if mode == 2 && os.Getenv("FZ_NOFAULTOPS") != "" {
		nops = 0
	}
	opsOK := true
	for i := 0; i < nops && opsOK; i++ {
		time.Sleep(time.Duration(rnd.Intn(500)) * time.Microsecond)
		if e.faulted.Load() {
			break
		}
		p := uint(1 + rnd.Intn(4))
		opDone := make(chan struct{})
		switch rnd.Intn(3) {
		case 0, 1:
			c := newChan(p)
			old := cur[p]
			e.mu.Lock()
			e.configured[p] = true
			e.mu.Unlock()
			go func() {
				defer func() { recover(); close(opDone) }()
				dsc.AddInput(c.ch, p)
			}()
			select {
			case <-opDone:
			case <-time.After(3 * time.Second):
				if !e.faulted.Load() {
					t.Errorf("seed %d: AddInput hang", seed)
				}
				opsOK = false
				continue
			}
			if e.faulted.Load() {
				opsOK = false
				continue
			}
			cur[p] = c
			c.start()
			if old != nil {
				detach(old)
			}
		case 2:
			go func() {
				defer func() { recover(); close(opDone) }()
				dsc.RemoveInput(p)
			}()
			select {
			case <-opDone:
			case <-time.After(3 * time.Second):
				if !e.faulted.Load() {
					t.Errorf("seed %d: RemoveInput hang", seed)
				}
				opsOK = false
				continue
			}
			if e.faulted.Load() {
				opsOK = false
				continue
			}
			e.mu.Lock()
			delete(e.configured, p)
			e.mu.Unlock()
			if old := cur[p]; old != nil {
				detach(old)
				delete(cur, p)
			}
		}
	}

	finish := make(chan struct{})
	var gotErr error
	switch mode {
	case 0, 2:
		go func() {
			defer close(finish)
			if mode == 0 {
				for _, c := range cur {
					<-c.done
				}
				dsc.GracefulStop()
			}
			gotErr = <-dsc.Err()
		}()
	case 1:
		time.Sleep(time.Duration(rnd.Intn(2000)) * time.Microsecond)
		if rnd.Intn(2) == 0 {
			// freeze handlers: nobody reads anymore? keep simple: just stop
		}
		go func() {
			defer close(finish)
			dsc.Stop()
			time.Sleep(5 * time.Millisecond)
			stopReturned.Store(true)
		}()
	}
	select {
	case <-finish:
	case <-time.After(5 * time.Second):
		if mode == 2 && !e.faulted.Load() {
			// fault was never reached and nobody gracefully stops: do it
			dsc.Stop()
		} else {
			buf := make([]byte, 1<<16)
			n := runtime.Stack(buf, true)
			t.Fatalf("seed %d mode %d: termination hang (faulted=%v)\n%s", seed, mode, e.faulted.Load(), buf[:n])
		}
	}
	time.Sleep(5 * time.Millisecond)
	for _, c := range chans {
		c.halt()
	}
	close(stopAll)
	hwg.Wait()

	if lateWrites.Load() != 0 {
		t.Errorf("seed %d: write to output after Stop returned", seed)
	}
	if len(e.viol) != 0 {
		t.Errorf("seed %d: divider arg violations: %v", seed, e.viol)
	}
	if uint(e.maxInflight.Load()) > hq {
		t.Errorf("seed %d: capacity exceeded %d > %d", seed, e.maxInflight.Load(), hq)
	}
	if mode == 2 && e.faulted.Load() {
		if gotErr != priority.ErrDividerBad {
			t.Errorf("seed %d: expected ErrDividerBad, got %v", seed, gotErr)
		}
		if e.forwarded.Load() != e.fwdAtFault {
			t.Errorf("seed %d: delivered after fault: %d -> %d", seed, e.fwdAtFault, e.forwarded.Load())
		}
	}
	if mode == 0 && gotErr != nil {
		t.Errorf("seed %d: unexpected err %v", seed, gotErr)
	}
	for _, c := range chans {
		d := delivered[c.id]
		for i := range d {
			if i > 0 && d[i] <= d[i-1] {
				t.Errorf("seed %d: chan %d out of order/dup: %v", seed, c.id, d)
				break
			}
		}
		if len(d) > 0 && tags[c.id] != c.prio {
			t.Errorf("seed %d: chan %d wrong tag %d want %d", seed, c.id, tags[c.id], c.prio)
		}
		if c.detached {
			consEnd := c.sent.Load() - int64(len(c.ch))
			if consEnd != c.consT {
				t.Errorf("seed %d: chan %d read after detach: %d -> %d", seed, c.id, c.consT, consEnd)
			}
			if mode == 0 && int64(len(d)) != consEnd {
				t.Errorf("seed %d: chan %d detached: consumed %d delivered %d", seed, c.id, consEnd, len(d))
			}
		} else if mode == 0 {
			if len(d) != c.total {
				t.Errorf("seed %d: chan %d (prio %d): delivered %d of %d", seed, c.id, c.prio, len(d), c.total)
			}
		}
	}
	// goroutine leak
	deadline := time.Now().Add(2 * time.Second)
	for runtime.NumGoroutine() > base && time.Now().Before(deadline) {
		time.Sleep(time.Millisecond)
	}
	if n := runtime.NumGoroutine(); n > base {
		buf := make([]byte, 1<<16)
		k := runtime.Stack(buf, true)
		t.Errorf("seed %d: goroutine leak %d > %d\n%s", seed, n, base, buf[:k])
	}
}

func TestZZFuzz(t *testing.T) {
	n := 300
	if s := os.Getenv("FZ_N"); s != "" {
		n, _ = strconv.Atoi(s)
	}
	start := int64(1)
	if s := os.Getenv("FZ_START"); s != "" {
		v, _ := strconv.Atoi(s)
		start = int64(v)
	}
	for s := start; s < start+int64(n); s++ {
		fzOne(t, s)
		if t.Failed() {
			return
		}
	}
}
