// Auxiliary randomized harness (passes on the unchanged code). Copy into <repo>/priority/ and run: go test -count=1 -run TestZZ ./priority/  (FZ_N=<seeds>, FZ_START=<first seed>; with -race set FZ_NOFAULTOPS=1)
package priority_test

import (
	"context"
	"math/rand"
	"os"
	"runtime"
	"strconv"
	"sync"
	"sync/atomic"
	"testing"
	"time"

	"github.com/akramarenkov/cqos/priority"
)

func fzSimpleOne(t *testing.T, seed int64) {
	rnd := rand.New(rand.NewSource(seed))
	base := runtime.NumGoroutine()

	hq := uint(3 + rnd.Intn(10))
	bd := priority.FairDivider
	if hq >= 10 && rnd.Intn(2) == 0 {
		bd = priority.RateDivider
	}
	mode := rnd.Intn(6) // 0 graceful, 1 stop, 2 ctx, 3 fault, 4 graceful then stop, 5 graceful + fault
	faultAt := 0
	if mode == 3 || mode == 5 {
		faultAt = 1 + rnd.Intn(20)
	}
	calls := 0
	var faulted atomic.Bool
	dv := func(prs []uint, dividend uint, dist map[uint]uint) map[uint]uint {
		out := bd(prs, dividend, dist)
		if dist != nil && len(prs) > 0 {
			calls++
			if calls == faultAt {
				out[prs[0]]++
				faulted.Store(true)
			}
		}
		return out
	}

	handleMode := rnd.Intn(3) // 0 quick, 1 sleep, 2 block until ctx (only for non graceful)
	if (mode == 0 || mode == 5 || mode == 3) && handleMode == 2 {
		handleMode = 1
	}
	var running, maxRun atomic.Int64
	var hmu sync.Mutex
	handled := map[int]int{}
	handle := func(ctx context.Context, item int) {
		n := running.Add(1)
		defer running.Add(-1)
		for {
			m := maxRun.Load()
			if n <= m || maxRun.CompareAndSwap(m, n) {
				break
			}
		}
		hmu.Lock()
		handled[item]++
		hmu.Unlock()
		switch handleMode {
		case 1:
			select {
			case <-ctx.Done():
			case <-time.After(time.Duration(50+item%100) * time.Microsecond):
			}
		case 2:
			if item%3 == 0 {
				<-ctx.Done()
			}
		}
	}

	inputs := map[uint]<-chan int{}
	type prod struct {
		ch    chan int
		base  int
		total int
	}
	var prods []prod
	totalItems := 0
	for p := uint(1); p <= 3; p++ {
		if rnd.Intn(4) != 0 || (p == 3 && len(prods) == 0) {
			c := make(chan int, rnd.Intn(3)*rnd.Intn(4))
			inputs[p] = c
			n := 10 + rnd.Intn(80)
			prods = append(prods, prod{c, int(p) * 100000, n})
			totalItems += n
		}
	}

	ctx, cancel := context.WithCancel(context.Background())
	defer cancel()

	smpl, err := priority.NewSimple(priority.SimpleOpts[int]{
		Ctx: ctx, Divider: dv, Handle: handle, HandlersQuantity: hq, Inputs: inputs,
	})
	if err != nil {
		t.Fatal(err)
	}

	stopAll := make(chan struct{})
	var pwg sync.WaitGroup
	for _, pr := range prods {
		pwg.Add(1)
		go func() {
			defer pwg.Done()
			defer close(pr.ch)
			for i := 0; i < pr.total; i++ {
				select {
				case pr.ch <- pr.base + i:
				case <-stopAll:
					return
				}
			}
		}()
	}

	fin := make(chan struct{})
	var gotErr error
	go func() {
		defer close(fin)
		switch mode {
		case 0:
			smpl.GracefulStop()
		case 1:
			time.Sleep(time.Duration(rnd.Intn(3000)) * time.Microsecond)
			smpl.Stop()
		case 2:
			time.Sleep(time.Duration(rnd.Intn(3000)) * time.Microsecond)
			cancel()
		case 3:
		case 4, 5:
			go smpl.GracefulStop()
			if mode == 4 {
				time.Sleep(time.Duration(rnd.Intn(3000)) * time.Microsecond)
				smpl.Stop()
			}
		}
		for e := range smpl.Err() {
			if e != nil {
				gotErr = e
			}
		}
		if running.Load() != 0 {
			t.Errorf("seed %d mode %d: Handle running after termination", seed, mode)
		}
	}()
	select {
	case <-fin:
	case <-time.After(5 * time.Second):
		if (mode == 3 || (mode == 5 && handleMode == 2)) && !faulted.Load() {
			smpl.Stop()
			<-fin
		} else if mode == 5 && handleMode == 2 {
			// graceful with blocking handle and a fault: the priority discipline waits in-flight forever; allowed
			smpl.Stop()
			<-fin
			gotErr = priority.ErrDividerBad
		} else {
			buf := make([]byte, 1<<16)
			n := runtime.Stack(buf, true)
			t.Fatalf("seed %d mode %d hm %d: hang faulted=%v\n%s", seed, mode, handleMode, faulted.Load(), buf[:n])
		}
	}
	close(stopAll)
	pwg.Wait()

	if uint(maxRun.Load()) > hq {
		t.Errorf("seed %d: capacity %d > %d", seed, maxRun.Load(), hq)
	}
	for it, n := range handled {
		if n != 1 {
			t.Errorf("seed %d: item %d handled %d times", seed, it, n)
		}
	}
	if mode == 0 && len(handled) != totalItems {
		t.Errorf("seed %d: handled %d of %d", seed, len(handled), totalItems)
	}
	if (mode == 3 || mode == 5) && faulted.Load() && handleMode != 2 && gotErr != priority.ErrDividerBad {
		t.Errorf("seed %d mode %d hm %d: err %v", seed, mode, handleMode, gotErr)
	}
	if mode == 5 && !faulted.Load() && len(handled) != totalItems {
		t.Errorf("seed %d: handled %d of %d (mode 5, no fault)", seed, len(handled), totalItems)
	}
	deadline := time.Now().Add(2 * time.Second)
	for runtime.NumGoroutine() > base && time.Now().Before(deadline) {
		time.Sleep(time.Millisecond)
	}
	if n := runtime.NumGoroutine(); n > base {
		buf := make([]byte, 1<<16)
		k := runtime.Stack(buf, true)
		t.Errorf("seed %d mode %d: goroutine leak %d > %d\n%s", seed, mode, n, base, buf[:k])
	}
}

func TestZZSimpleFuzz(t *testing.T) {
	n := 300
	if s := os.Getenv("FZ_N"); s != "" {
		n, _ = strconv.Atoi(s)
	}
	for s := int64(1); s <= int64(n); s++ {
		fzSimpleOne(t, s)
		if t.Failed() {
			return
		}
	}
}
