// Copy into <repo>/priority/ and run: go test -count=5 -run TestAuditB1 ./priority/
//
// BORDERLINE (same root cause as the known "AddInput/RemoveInput after termination
// panic", but here the call is made on a LIVE discipline): AddInput()/RemoveInput()
// which is waiting to be served (the discipline is blocked: consumer is not reading /
// handlers are not releasing) panics with "send on closed channel" when the discipline
// is terminated concurrently - by Stop(), by context cancellation or by its own
// ErrDividerBad error, which the caller cannot foresee.
package priority_test

import (
	"context"
	"fmt"
	"testing"
	"time"

	"github.com/akramarenkov/cqos/priority"
)

func auditB1(t *testing.T, remove bool, terminate func(dsc *priority.Discipline[int], cancel context.CancelFunc)) {
	ctx, cancel := context.WithCancel(context.Background())
	defer cancel()

	input := make(chan int, 4)
	input <- 1
	input <- 2

	// nobody reads the output: the discipline blocks in send()
	output := make(chan priority.Prioritized[int])
	feedback := make(chan uint)

	dsc, err := priority.New(priority.Opts[int]{
		Ctx:              ctx,
		Divider:          priority.FairDivider,
		Feedback:         feedback,
		HandlersQuantity: 2,
		Inputs:           map[uint]<-chan int{1: input},
		Output:           output,
	})
	if err != nil {
		t.Fatal(err)
	}

	time.Sleep(10 * time.Millisecond)

	result := make(chan string, 1)

	// called while the discipline is alive, nothing has been stopped yet
	go func() {
		defer func() {
			if r := recover(); r != nil {
				result <- fmt.Sprint(r)
				return
			}

			result <- ""
		}()

		if remove {
			dsc.RemoveInput(1)
		} else {
			dsc.AddInput(make(chan int), 2)
		}
	}()

	time.Sleep(10 * time.Millisecond)

	terminate(dsc, cancel)

	select {
	case r := <-result:
		if r != "" {
			t.Fatalf("call made on a live discipline panicked: %s", r)
		}
	case <-time.After(2 * time.Second):
		t.Fatal("call never returned")
	}
}

func TestAuditB1AddInputVsStop(t *testing.T) {
	auditB1(t, false, func(dsc *priority.Discipline[int], _ context.CancelFunc) { dsc.Stop() })
}

func TestAuditB1RemoveInputVsStop(t *testing.T) {
	auditB1(t, true, func(dsc *priority.Discipline[int], _ context.CancelFunc) { dsc.Stop() })
}

func TestAuditB1AddInputVsCtx(t *testing.T) {
	auditB1(t, false, func(dsc *priority.Discipline[int], cancel context.CancelFunc) {
		cancel()
		<-dsc.Err()
	})
}
