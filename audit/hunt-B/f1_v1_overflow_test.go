// Copy into <repo>/priority/ and run: go test -count=5 -run TestAuditF1 ./priority/
//
// C15: a division made for a round returns a non-zero added total that differs from
// the dividend (here: so large that the total does not fit into uint) -> Err() must
// report ErrDividerBad. Actual: Err() reports safe.ErrValueOverflow ("value overflow"),
// errors.Is(err, ErrDividerBad) is false.
package priority_test

import (
	"context"
	"errors"
	"math"
	"testing"
	"time"

	"github.com/akramarenkov/cqos/priority"
)

// Fair divider which, in divisions made for a round (distribution != nil), gives the
// highest priority an absurdly large quantity (typical result of an unsigned underflow
// inside a custom divider).
func auditF1Divider(prs []uint, dividend uint, dist map[uint]uint) map[uint]uint {
	out := priority.FairDivider(prs, dividend, dist)

	if dist != nil && len(prs) >= 2 && dividend >= 2 {
		out[prs[0]] = math.MaxUint
	}

	return out
}

func auditF1Run(t *testing.T, check func(err error)) {
	in2 := make(chan int, 16)
	in1 := make(chan int, 16)

	for i := 0; i < 16; i++ {
		in2 <- i
		in1 <- i
	}

	output := make(chan priority.Prioritized[int], 4)
	feedback := make(chan uint, 4)

	dsc, err := priority.New(priority.Opts[int]{
		Divider:          auditF1Divider,
		Feedback:         feedback,
		HandlersQuantity: 4,
		Inputs:           map[uint]<-chan int{2: in2, 1: in1},
		Output:           output,
	})
	if err != nil {
		t.Fatal(err)
	}

	defer dsc.Stop()

	quit := make(chan struct{})
	defer close(quit)

	go func() {
		for {
			select {
			case <-quit:
				return
			case item := <-output:
				select {
				case <-quit:
					return
				case feedback <- item.Priority:
				}
			}
		}
	}()

	select {
	case err := <-dsc.Err():
		check(err)
	case <-time.After(5 * time.Second):
		t.Fatal("discipline did not terminate")
	}
}

func TestAuditF1V1OverflowIsNotDividerBad(t *testing.T) {
	auditF1Run(t, func(err error) {
		if err == nil {
			t.Fatal("no error reported at all")
		}

		if !errors.Is(err, priority.ErrDividerBad) {
			t.Fatalf("Err() = %q, expected ErrDividerBad", err)
		}
	})
}

func TestAuditF1V1Simple(t *testing.T) {
	in2 := make(chan int, 16)
	in1 := make(chan int, 16)

	for i := 0; i < 16; i++ {
		in2 <- i
		in1 <- i
	}

	smpl, err := priority.NewSimple(priority.SimpleOpts[int]{
		Divider:          auditF1Divider,
		Handle:           func(ctx context.Context, item int) {},
		HandlersQuantity: 4,
		Inputs:           map[uint]<-chan int{2: in2, 1: in1},
	})
	if err != nil {
		t.Fatal(err)
	}

	defer smpl.Stop()

	select {
	case err := <-smpl.Err():
		if !errors.Is(err, priority.ErrDividerBad) {
			t.Fatalf("Err() = %v, expected ErrDividerBad", err)
		}
	case <-time.After(5 * time.Second):
		t.Fatal("discipline did not terminate")
	}
}
