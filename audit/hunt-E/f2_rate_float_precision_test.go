// Copy into v2/priority/divider/ and run: cd v2 && go test ./priority/divider -run TestAuditF2 -count=1 -v
package divider

import (
	"math/big"
	"testing"
)

func TestAuditF2RateFloatPrecision(t *testing.T) {
	cases := []struct {
		prios    []uint
		dividend uint
	}{
		{[]uint{7, 3}, 1<<53 + 19}, // smallest found: just above 2^53
		{[]uint{70, 20, 10}, 1<<53 + 19},
		{[]uint{2, 1}, 1<<54 + 3},
		{[]uint{2, 1}, 1 << 60},  // off by ~1e2
		{[]uint{2, 1}, ^uint(0)}, // off by ~1e3
	}

	for _, c := range cases {
		dist := map[uint]uint{}
		Rate(c.prios, c.dividend, dist)

		psum := uint(0)
		for _, p := range c.prios {
			psum += p
		}

		for _, p := range c.prios {
			// deviation*psum = |got*psum - dividend*p| must be <= n/2*psum
			a := new(big.Int).Mul(new(big.Int).SetUint64(uint64(dist[p])), new(big.Int).SetUint64(uint64(psum)))
			b := new(big.Int).Mul(new(big.Int).SetUint64(uint64(c.dividend)), new(big.Int).SetUint64(uint64(p)))
			a.Sub(a, b).Abs(a)

			lim := new(big.Int).Mul(big.NewInt(int64(len(c.prios))), new(big.Int).SetUint64(uint64(psum)))

			if new(big.Int).Mul(a, big.NewInt(2)).Cmp(lim) > 0 {
				dev := new(big.Float).Quo(new(big.Float).SetInt(a), new(big.Float).SetUint64(uint64(psum)))
				t.Errorf("priorities=%v dividend=%d: priority %d got %d, deviates from exact share by %v (> n/2 = %v)",
					c.prios, c.dividend, p, dist[p], dev, float64(len(c.prios))/2)
			}
		}
	}
}
