// Copy into v2/priority/ and run: cd v2 && go test ./priority -run TestAuditF3 -count=1 -v
package priority_test

import (
	"math"
	"testing"

	"github.com/akramarenkov/cqos/v2/priority"
	"github.com/akramarenkov/cqos/v2/priority/divider"
	"github.com/akramarenkov/cqos/v2/priority/utils"
)

func auditF3New(prios []uint, dv divider.Divider, quantity uint) (err error, panicked any) {
	defer func() { panicked = recover() }()

	inputs := map[uint]<-chan int{}

	for _, p := range prios {
		c := make(chan int)
		close(c)
		inputs[p] = c
	}

	dsc, err := priority.New(priority.Opts[int]{Divider: dv, HandlersQuantity: quantity, Inputs: inputs})
	if err == nil {
		<-dsc.Err()
	}

	return err, nil
}

func TestAuditF3NonFatalQuantityPanicsConstructor(t *testing.T) {
	prios := []uint{3, 2, 1}

	// the quantity is obtained only through the documented API
	picked := utils.PickUpMaxNonFatalQuantity(prios, divider.Fair, math.MaxUint)

	for _, quantity := range []uint{picked, 1 << 62, 1 << 50} {
		if !utils.IsNonFatalConfig(prios, divider.Fair, quantity) {
			t.Fatalf("quantity %d is expected to be non-fatal", quantity)
		}

		err, panicked := auditF3New(prios, divider.Fair, quantity)
		if err != nil || panicked != nil {
			t.Errorf("quantity %d is judged non-fatal, but the constructor: err=%v panic=%v", quantity, err, panicked)
		}
	}
}
