// Copy into v2/priority/ and run: cd v2 && go test ./priority -run TestAuditF4 -count=1 -v
package priority_test

import (
	"testing"

	"github.com/akramarenkov/cqos/v2/priority"
	"github.com/akramarenkov/cqos/v2/priority/divider"
	"github.com/akramarenkov/cqos/v2/priority/utils"
)

func TestAuditF4EmptyPrioritiesNonFatalButRejected(t *testing.T) {
	for _, prios := range [][]uint{nil, {}} {
		if !utils.IsNonFatalConfig(prios, divider.Fair, 5) {
			continue // consistent
		}

		_, err := priority.New(priority.Opts[int]{
			Divider:          divider.Fair,
			HandlersQuantity: 5,
			Inputs:           map[uint]<-chan int{},
		})
		if err != nil {
			t.Errorf("priorities=%v quantity=5 judged non-fatal, but the constructor rejects it: %v", prios, err)
		}
	}

	if got := utils.PickUpMinNonFatalQuantity(nil, divider.Rate, 10); got != 0 {
		t.Logf("PickUpMinNonFatalQuantity(nil, Rate, 10) = %d (no priorities at all)", got)
	}
}
