// Copy into v2/priority/divider/ and run: cd v2 && go test ./priority/divider -run TestAuditF1 -count=1 -v
// (v1 variant: f1_rate_sum_overflow_v1_test.go)
package divider

import (
	"math/big"
	"testing"
)

// Checks C14 for Rate with exact arithmetic: total, non-increasing, |got-exact| <= n/2.
func auditF1Check(t *testing.T, prios []uint, dividend uint) {
	t.Helper()

	dist := map[uint]uint{}
	Rate(prios, dividend, dist)

	psum := new(big.Int)
	for _, p := range prios {
		psum.Add(psum, new(big.Int).SetUint64(uint64(p)))
	}

	total := new(big.Int)
	prev := ^uint(0)

	for _, p := range prios {
		got := dist[p]
		total.Add(total, new(big.Int).SetUint64(uint64(got)))

		if got > prev {
			t.Errorf("not non-increasing: priorities=%v dividend=%d distribution=%v", prios, dividend, dist)
		}

		prev = got

		// 2*|got*psum - dividend*p| <= n*psum
		a := new(big.Int).Mul(new(big.Int).SetUint64(uint64(got)), psum)
		b := new(big.Int).Mul(new(big.Int).SetUint64(uint64(dividend)), new(big.Int).SetUint64(uint64(p)))
		a.Sub(a, b).Abs(a).Mul(a, big.NewInt(2))

		if a.Cmp(new(big.Int).Mul(big.NewInt(int64(len(prios))), psum)) > 0 {
			t.Errorf("priority %d got %d, farther than n/2 from proportional share: priorities=%v dividend=%d distribution=%v",
				p, got, prios, dividend, dist)
		}
	}

	if total.Cmp(new(big.Int).SetUint64(uint64(dividend))) != 0 {
		t.Errorf("total %v != dividend %d", total, dividend)
	}
}

func TestAuditF1RateSumOverflow(t *testing.T) {
	// sum of priorities is 2^64+1 -> wraps to 1: the two almost equal priorities get 100 and 0
	auditF1Check(t, []uint{1 << 63, 1<<63 - 1, 2}, 100)
	// sum of priorities is exactly 2^64 -> wraps to 0 -> base = +Inf
	auditF1Check(t, []uint{1<<63 + 1, 1<<63 - 1}, 100)
}
