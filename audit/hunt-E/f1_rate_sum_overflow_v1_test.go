// Copy into priority/ (v1 module root package "priority") and run: go test ./priority -run TestAuditF1 -count=1 -v
package priority

import "testing"

func TestAuditF1RateSumOverflowV1(t *testing.T) {
	// 2^63 and 2^63-1 are almost equal, the exact proportional shares of 100 are
	// ~50, ~50 and ~0, the allowed deviation is n/2 = 1.5
	dist := RateDivider([]uint{1 << 63, 1<<63 - 1, 2}, 100, nil)
	if dist[1<<63-1] < 48 {
		t.Errorf("priority 2^63-1 got %d of 100, expected ~50: %v", dist[1<<63-1], dist)
	}

	dist = RateDivider([]uint{1<<63 + 1, 1<<63 - 1}, 100, nil)
	if dist[1<<63-1] < 49 {
		t.Errorf("priority 2^63-1 got %d of 100, expected ~50: %v", dist[1<<63-1], dist)
	}
}
