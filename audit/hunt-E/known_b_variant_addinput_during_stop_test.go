// NOT a new finding: concurrent variant of the known issue (b). Kept only for reference.
// Copy into priority/ (v1) and run: go test ./priority -race -run TestAuditKnownB -count=5 -v
package priority

import (
	"testing"
	"time"
)

func TestAuditKnownBAddRemoveInputDuringStop(t *testing.T) {
	for round := 0; round < 50; round++ {
		feedback := make(chan uint, 1)
		output := make(chan Prioritized[int], 1)
		input := make(chan int)

		dsc, err := New(Opts[int]{
			Divider:          FairDivider,
			Feedback:         feedback,
			HandlersQuantity: 1,
			Inputs:           map[uint]<-chan int{1: input},
			Output:           output,
		})
		if err != nil {
			t.Fatal(err)
		}

		done := make(chan any, 1)

		go func() {
			defer func() { done <- recover() }()

			for i := 0; i < 1000; i++ {
				dsc.AddInput(input, 2)
				dsc.RemoveInput(2)
			}
		}()

		time.Sleep(time.Millisecond)
		dsc.Stop()

		if p := <-done; p != nil {
			t.Fatalf("round %d: AddInput/RemoveInput concurrent with Stop panicked: %v", round, p)
		}
	}
}
