// Supporting material (passes): copy into v2/priority/ and run: go test -run TestAuditStressV2 -count=1 .
package priority_test

import (
	"math/rand"
	"sync"
	"sync/atomic"
	"testing"
	"time"

	"github.com/akramarenkov/cqos/v2/priority"
	"github.com/akramarenkov/cqos/v2/priority/divider"
	"github.com/akramarenkov/cqos/v2/priority/types"
)

type auditItem struct {
	prio uint
	seq  int
}

// sum-preserving divider giving random shares (each at least... nothing guaranteed)
func auditRandomDivider(seed int64) divider.Divider {
	mu := sync.Mutex{}
	rnd := rand.New(rand.NewSource(seed))

	return func(priorities []uint, dividend uint, distribution map[uint]uint) {
		if len(priorities) == 0 {
			return
		}

		mu.Lock()
		defer mu.Unlock()

		// base fair part then random scatter of the rest
		base := dividend / uint(len(priorities)) / 2
		rest := dividend - base*uint(len(priorities))

		for _, prio := range priorities {
			distribution[prio] += base
		}

		for ; rest != 0; rest-- {
			distribution[priorities[rnd.Intn(len(priorities))]]++
		}
	}
}

func TestAuditStressV2(t *testing.T) {
	for seed := int64(0); seed < 1500; seed++ {
		auditStressV2(t, seed)
	}
}

func auditStressV2(t *testing.T, seed int64) {
	rnd := rand.New(rand.NewSource(seed))

	var div divider.Divider

	hq := uint(0)

	switch rnd.Intn(3) {
	case 0:
		div = divider.Fair
		hq = uint(5 + rnd.Intn(8))
	case 1:
		div = divider.Rate
		hq = uint(15 + rnd.Intn(20))
	case 2:
		// deterministic for full set is needed only by New (non-zero shares)
		div = auditRandomDivider(seed)
		hq = uint(10 + rnd.Intn(10))
	}

	inputs := map[uint]chan auditItem{}
	opts := priority.Opts[auditItem]{Divider: div, HandlersQuantity: hq, Inputs: map[uint]<-chan auditItem{}}
	quantities := map[uint]int{}

	for prio := uint(1); prio <= 5; prio++ {
		if rnd.Intn(3) == 0 && len(inputs) != 0 {
			continue
		}

		capacity := 0
		if rnd.Intn(2) == 0 {
			capacity = 1 + rnd.Intn(5)
		}

		inputs[prio] = make(chan auditItem, capacity)
		opts.Inputs[prio] = inputs[prio]
		quantities[prio] = rnd.Intn(60)
	}

	dsc, err := priority.New(opts)
	if err != nil {
		// random divider may give a zero share
		return
	}

	writersDone := atomic.Int64{}

	for prio, channel := range inputs {
		pause := rnd.Intn(3)
		wseed := rnd.Int63()

		go func() {
			defer writersDone.Add(1)
			defer close(channel)

			wr := rand.New(rand.NewSource(wseed))

			for seq := range quantities[prio] {
				if pause != 0 && wr.Intn(4) == 0 {
					time.Sleep(time.Duration(wr.Intn(100*pause)) * time.Microsecond)
				}

				channel <- auditItem{prio: prio, seq: seq}
			}
		}()
	}

	inflight := atomic.Int64{}
	maxInflight := int64(0)
	got := map[uint][]int{}
	work := make(chan types.Prioritized[auditItem], hq+100)
	released := atomic.Int64{}
	total := 0

	for _, quantity := range quantities {
		total += quantity
	}

	wg := sync.WaitGroup{}

	for range hq {
		wg.Add(1)

		wseed := rnd.Int63()

		go func() {
			defer wg.Done()

			wr := rand.New(rand.NewSource(wseed))

			for item := range work {
				if wr.Intn(3) == 0 {
					time.Sleep(time.Duration(wr.Intn(200)) * time.Microsecond)
				}

				inflight.Add(-1)
				released.Add(1)
				dsc.Release(item.Priority)
			}
		}()
	}

	timeout := time.After(20 * time.Second)

loop:
	for {
		select {
		case item, opened := <-dsc.Output():
			if !opened {
				break loop
			}

			if value := inflight.Add(1); value > maxInflight {
				maxInflight = value
			}

			if item.Priority != item.Item.prio {
				t.Fatalf("seed %d: priority mismatch", seed)
			}

			got[item.Priority] = append(got[item.Priority], item.Item.seq)
			work <- item
		case <-timeout:
			t.Fatalf("seed %d: hang; hq %d got %v of %v inflight %d", seed, hq, got, quantities, inflight.Load())
		}
	}

	// output closed: everything must be written, closed, released
	if released.Load() != int64(total) || writersDone.Load() != int64(len(inputs)) {
		t.Fatalf("seed %d: early termination: released %d of %d", seed, released.Load(), total)
	}

	close(work)
	wg.Wait()

	select {
	case err, opened := <-dsc.Err():
		if opened || err != nil {
			// closed channel gives nil, false; a value would be an error
			t.Fatalf("seed %d: err %v", seed, err)
		}
	case <-time.After(time.Second):
		t.Fatalf("seed %d: err not closed", seed)
	}

	if uint(maxInflight) > hq {
		t.Fatalf("seed %d: inflight %d > %d", seed, maxInflight, hq)
	}

	for prio, quantity := range quantities {
		if len(got[prio]) != quantity {
			t.Fatalf("seed %d: prio %d got %d of %d", seed, prio, len(got[prio]), quantity)
		}

		for id, seq := range got[prio] {
			if id != seq {
				t.Fatalf("seed %d: order", seed)
			}
		}
	}
}
