// Copy into priority/ (v1 module, repository root) and run: go test -run TestAuditF2V1 -count=1 .
package priority_test

import (
	"testing"
	"time"

	"github.com/akramarenkov/cqos/priority"
)

// v1 twin of f2_v2_alone_priority_test.go: the only priority having data receives its
// items one at a time, nothing is written to the feedback channel.
func auditAloneV1(t *testing.T, div priority.Divider, handlers uint, prios []uint, lone uint) {
	inputs := map[uint]chan int{}
	output := make(chan priority.Prioritized[int])
	feedback := make(chan uint)

	opts := priority.Opts[int]{
		Divider:          div,
		Feedback:         feedback,
		HandlersQuantity: handlers,
		Inputs:           map[uint]<-chan int{},
		Output:           output,
	}

	for _, prio := range prios {
		inputs[prio] = make(chan int, handlers)
		opts.Inputs[prio] = inputs[prio]
	}

	dsc, err := priority.New(opts)
	if err != nil {
		t.Fatal(err)
	}

	defer dsc.Stop()

	delivered := uint(0)

	for id := range handlers {
		inputs[lone] <- int(id)

		select {
		case item := <-output:
			if item.Priority != lone || item.Item != int(id) {
				t.Fatalf("unexpected item %+v", item)
			}

			delivered++
		case <-time.After(2 * time.Second):
			t.Errorf(
				"item %d of the only priority having data is not delivered: "+
					"%d of %d handlers occupied, %d vacant",
				id, delivered, handlers, handlers-delivered,
			)

			feedback <- lone

			select {
			case <-output:
				t.Logf("item %d delivered only after a feedback write", id)
			case <-time.After(2 * time.Second):
				t.Logf("item %d not delivered even after a feedback write", id)
			}

			return
		}
	}
}

func TestAuditF2V1AlonePriorityFair(t *testing.T) {
	auditAloneV1(t, priority.FairDivider, 5, []uint{5, 4, 3, 2, 1}, 5)
}

func TestAuditF2V1AlonePriorityRate(t *testing.T) {
	auditAloneV1(t, priority.RateDivider, 100, []uint{70, 20, 10}, 70)
}
