// Supporting material (passes): copy into priority/ (v1, internal test package) and run: go test -run TestAuditStressV1 -count=1 .
package priority

import (
	"math/rand"
	"sync"
	"sync/atomic"
	"testing"
	"time"
)

type auditItem struct {
	ch  int
	seq int
}

func TestAuditStressV1(t *testing.T) {
	for round := 0; round < 3000; round++ {
		auditStressV1(t, int64(round))
	}
}

func auditStressV1(t *testing.T, seed int64) {
	rnd := rand.New(rand.NewSource(seed))

	hq := uint(5 + rnd.Intn(6))
	div := FairDivider
	if rnd.Intn(2) == 0 {
		div = RateDivider
		hq = uint(15 + rnd.Intn(10))
	}

	output := make(chan Prioritized[auditItem], rnd.Intn(3))
	feedback := make(chan uint, rnd.Intn(3))

	type reg struct {
		id     int
		ch     chan auditItem
		closed bool
		sent   int
	}

	var mu sync.Mutex
	current := map[uint]*reg{}
	all := []*reg{}
	removed := map[int]bool{}
	nextID := 0

	newReg := func() *reg {
		capacity := 0
		if rnd.Intn(2) == 0 {
			capacity = 1 + rnd.Intn(4)
		}
		r := &reg{id: nextID, ch: make(chan auditItem, capacity)}
		nextID++
		all = append(all, r)
		return r
	}

	inputs := map[uint]<-chan auditItem{}
	for p := uint(1); p <= 5; p++ {
		if rnd.Intn(2) == 0 {
			r := newReg()
			current[p] = r
			inputs[p] = r.ch
		}
	}

	dsc, err := New(Opts[auditItem]{Divider: div, Feedback: feedback, HandlersQuantity: hq, Inputs: inputs, Output: output})
	if err != nil {
		t.Fatal(err)
	}

	var inflight atomic.Int64
	var maxInflight atomic.Int64
	got := map[int][]int{}
	gotPrio := map[int]map[uint]bool{}

	wg := sync.WaitGroup{}
	work := make(chan Prioritized[auditItem], int(hq)+100)
	wg.Add(1)
	go func() {
		defer wg.Done()
		defer close(work)
		for item := range output {
			v := inflight.Add(1)
			if v > maxInflight.Load() {
				maxInflight.Store(v)
			}
			mu.Lock()
			got[item.Item.ch] = append(got[item.Item.ch], item.Item.seq)
			if gotPrio[item.Item.ch] == nil {
				gotPrio[item.Item.ch] = map[uint]bool{}
			}
			gotPrio[item.Item.ch][item.Priority] = true
			mu.Unlock()
			work <- item
		}
	}()
	for range hq {
		wg.Add(1)
		go func() {
			defer wg.Done()
			lr := rand.New(rand.NewSource(seed + int64(rand.Int())))
			for item := range work {
				if lr.Intn(3) == 0 {
					time.Sleep(time.Duration(lr.Intn(200)) * time.Microsecond)
				}
				inflight.Add(-1)
				feedback <- item.Priority
			}
		}()
	}

	// writers
	wwg := sync.WaitGroup{}
	startWriter := func(r *reg, n int) {
		wwg.Add(1)
		go func() {
			defer wwg.Done()
			r.sent = n
			for i := 0; i < n; i++ {
				r.ch <- auditItem{ch: r.id, seq: i}
			}
			close(r.ch)
		}()
	}
	_ = startWriter

	// Channels that may be removed are written with non-blocking giving up; simpler:
	// each channel has a writer that writes n items then closes; if the channel gets
	// removed/replaced, a drainer reads the rest.
	drain := func(r *reg) {
		go func() {
			for range r.ch {
			}
		}()
	}

	for _, r := range current {
		startWriter(r, 20+rnd.Intn(50))
	}

	regPrio := map[int]uint{}
	for p, r := range current {
		regPrio[r.id] = p
	}

	ops := rnd.Intn(8)
	for range ops {
		time.Sleep(time.Duration(rnd.Intn(300)) * time.Microsecond)
		p := uint(1 + rnd.Intn(5))
		switch rnd.Intn(2) {
		case 0:
			r := newReg()
			done := make(chan struct{})
			go func() { dsc.AddInput(r.ch, p); close(done) }()
			select {
			case <-done:
			case <-time.After(5 * time.Second):
				t.Fatalf("seed %d: AddInput hang", seed)
			}
			if old, ok := current[p]; ok {
				removed[old.id] = true
				drain(old)
			}
			current[p] = r
			regPrio[r.id] = p
			startWriter(r, 20+rnd.Intn(50))
		case 1:
			done := make(chan struct{})
			go func() { dsc.RemoveInput(p); close(done) }()
			select {
			case <-done:
			case <-time.After(5 * time.Second):
				t.Fatalf("seed %d: RemoveInput hang", seed)
			}
			if old, ok := current[p]; ok {
				removed[old.id] = true
				drain(old)
				delete(current, p)
			}
		}
	}

	// Rate divider could give a zero share (known) -> skip check of liveness then
	zeroShare := false
	{
		prios := []uint{}
		for p := uint(5); p >= 1; p-- {
			if _, ok := current[p]; ok {
				prios = append(prios, p)
			}
		}
		dist := div(prios, hq, nil)
		for _, p := range prios {
			if dist[p] == 0 {
				zeroShare = true
			}
		}
	}

	if zeroShare {
		dsc.Stop()
		for _, r := range current {
			drain(r)
		}
		close(output)
		go func() {
			for range feedback {
			}
		}()
		wg.Wait()
		close(feedback)
		return
	}

	wdone := make(chan struct{})
	go func() { wwg.Wait(); close(wdone) }()
	select {
	case <-wdone:
	case <-time.After(10 * time.Second):
		t.Fatalf("seed %d: writers hang (items not consumed); inflight %d", seed, inflight.Load())
	}

	gdone := make(chan struct{})
	go func() { dsc.GracefulStop(); close(gdone) }()
	select {
	case <-gdone:
	case <-time.After(10 * time.Second):
		t.Fatalf("seed %d: GracefulStop hang", seed)
	}

	if err := <-dsc.Err(); err != nil {
		t.Fatalf("seed %d: err %v", seed, err)
	}

	if inflight.Load() != 0 {
		t.Fatalf("seed %d: GracefulStop returned with %d in flight", seed, inflight.Load())
	}

	close(output)
	wg.Wait()

	if uint(maxInflight.Load()) > hq {
		t.Fatalf("seed %d: max inflight %d > %d", seed, maxInflight.Load(), hq)
	}

	mu.Lock()
	defer mu.Unlock()
	for _, r := range current {
		seqs := got[r.id]
		for i, s := range seqs {
			if s != i {
				t.Fatalf("seed %d: channel %d order/dup violation at %d: %v", seed, r.id, i, seqs)
			}
		}
		if len(seqs) != r.sent {
			t.Fatalf("seed %d: channel %d delivered %d of %d", seed, r.id, len(seqs), r.sent)
		}
		if len(gotPrio[r.id]) > 1 {
			t.Fatalf("seed %d: channel %d delivered under several priorities %v", seed, r.id, gotPrio[r.id])
		}
		for p := range gotPrio[r.id] {
			if p != regPrio[r.id] {
				t.Fatalf("seed %d: wrong priority", seed)
			}
		}
	}
}
