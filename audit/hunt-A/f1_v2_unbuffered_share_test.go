// Copy into v2/priority/ and run: go test -run TestAuditF1 -count=1 .
// (much more frequent with: GODEBUG=asynctimerchan=0 go test -run TestAuditF1 -count=1 . ,
// which is the default timer mode of applications whose go.mod says go >= 1.23)
package priority_test

import (
	"sync"
	"testing"
	"time"

	"github.com/akramarenkov/cqos/v2/priority"
	"github.com/akramarenkov/cqos/v2/priority/divider"
)

// F1 (C05, also C06 "alone"/work conservation): unbuffered inputs.
//
// Every input is unbuffered and has, from before the discipline is created until the
// end of the attempt, many more blocked senders than items will be taken from it:
// data is waiting continuously on every input. No Release is issued. Property C05:
// no priority may exceed its share (2/2/2) and, as no release is outstanding, all 6
// handlers must be occupied, every priority holding exactly its share.
func TestAuditF1UnbufferedShare(t *testing.T) {
	const (
		attempts = 300
		handlers = 6
		senders  = 40
	)

	exceeded := 0
	stalled := 0

	for attempt := 0; attempt < attempts; attempt++ {
		inputs := map[uint]chan int{3: make(chan int), 2: make(chan int), 1: make(chan int)}
		stop := make(chan struct{})
		wg := &sync.WaitGroup{}

		for _, channel := range inputs {
			for range senders {
				wg.Add(1)

				go func() {
					defer wg.Done()

					select {
					case channel <- 1:
					case <-stop:
					}
				}()
			}
		}

		// let all senders block
		time.Sleep(5 * time.Millisecond)

		opts := priority.Opts[int]{
			Divider:          divider.Fair,
			HandlersQuantity: handlers,
			Inputs:           map[uint]<-chan int{3: inputs[3], 2: inputs[2], 1: inputs[1]},
		}

		dsc, err := priority.New(opts)
		if err != nil {
			t.Fatal(err)
		}

		got := map[uint]int{}
		total := 0

	receive:
		for range handlers {
			select {
			case item := <-dsc.Output():
				got[item.Priority]++
				total++
			case <-time.After(time.Second):
				break receive
			}
		}

		switch {
		case total != handlers:
			stalled++

			if stalled <= 3 {
				t.Logf("attempt %d: only %d of %d handlers occupied for 1s although "+
					"every input has data and nothing is released: %v", attempt, total, handlers, got)
			}
		case got[3] != 2 || got[2] != 2 || got[1] != 2:
			exceeded++

			if exceeded <= 5 {
				t.Logf("attempt %d: in-flight per priority %v, shares are 2/2/2", attempt, got)
			}
		}

		// cleanup
		for prio, quantity := range got {
			for range quantity {
				dsc.Release(prio)
			}
		}

		go func() {
			for item := range dsc.Output() {
				dsc.Release(item.Priority)
			}
		}()

		close(stop)
		wg.Wait()

		for _, channel := range inputs {
			close(channel)
		}

		select {
		case <-dsc.Err():
		case <-time.After(5 * time.Second):
			t.Fatal("cleanup: discipline does not terminate")
		}
	}

	if exceeded != 0 || stalled != 0 {
		t.Fatalf("C05 violated in %d of %d attempts (share exceeded: %d, handlers left vacant: %d)",
			exceeded+stalled, attempts, exceeded, stalled)
	}
}
