// Copy into priority/ (v1 module, repository root) and run: go test -run TestAuditF3V1 -count=1 .
package priority_test

import (
	"sync/atomic"
	"testing"
	"time"

	"github.com/akramarenkov/cqos/priority"
)

// v1 twin of f3_v2_fewer_consumers_deadlock_test.go: channels as in the README
// (unbuffered output and feedback), HandlersQuantity 3 but only 2 handler goroutines,
// each of which writes the feedback at once.
func TestAuditF3V1FewerConsumers(t *testing.T) {
	const items = 100

	input := make(chan int, items)
	for id := range items {
		input <- id
	}
	close(input)

	output := make(chan priority.Prioritized[int])
	feedback := make(chan uint)

	opts := priority.Opts[int]{
		Divider:          priority.FairDivider,
		Feedback:         feedback,
		HandlersQuantity: 3,
		Inputs:           map[uint]<-chan int{1: input},
		Output:           output,
	}

	dsc, err := priority.New(opts)
	if err != nil {
		t.Fatal(err)
	}

	received := atomic.Int64{}

	for range 2 {
		go func() {
			for item := range output {
				received.Add(1)
				feedback <- item.Priority
			}
		}()
	}

	done := make(chan struct{})

	go func() {
		defer close(done)
		dsc.GracefulStop()
	}()

	select {
	case <-done:
		if received.Load() != items {
			t.Fatalf("received %d of %d", received.Load(), items)
		}
	case <-time.After(3 * time.Second):
		t.Errorf("deadlock: handlers stuck writing feedback after receiving %d of %d items, "+
			"GracefulStop does not return", received.Load(), items)

		go dsc.Stop()
	}
}
