// Copy into v2/priority/ and run: go test -run TestAuditF2 -count=1 .
package priority_test

import (
	"testing"
	"time"

	"github.com/akramarenkov/cqos/v2/priority"
	"github.com/akramarenkov/cqos/v2/priority/divider"
)

// Priority 5 is the only one that ever has data; its items arrive one at a time
// (each is written after the previous one has been delivered). Handlers are
// long-running: nothing is released during the test. Property C06: a priority that is
// alone in having data is granted all HandlersQuantity handlers, so all 5 items must
// be delivered without any release.
func auditAlone(t *testing.T, div divider.Divider, handlers uint, prios []uint, lone uint) {
	inputs := map[uint]chan int{}
	opts := priority.Opts[int]{
		Divider:          div,
		HandlersQuantity: handlers,
		Inputs:           map[uint]<-chan int{},
	}

	for _, prio := range prios {
		inputs[prio] = make(chan int, handlers)
		opts.Inputs[prio] = inputs[prio]
	}

	dsc, err := priority.New(opts)
	if err != nil {
		t.Fatal(err)
	}

	delivered := uint(0)

	for id := range handlers {
		inputs[lone] <- int(id)

		select {
		case item := <-dsc.Output():
			if item.Priority != lone || item.Item != int(id) {
				t.Fatalf("unexpected item %+v", item)
			}

			delivered++
		case <-time.After(2 * time.Second):
			t.Errorf(
				"item %d of the only priority having data is not delivered: "+
					"%d of %d handlers occupied, %d vacant, no release needed by the property",
				id, delivered, handlers, handlers-delivered,
			)

			// show that the discipline is merely waiting for a release
			dsc.Release(lone)

			select {
			case <-dsc.Output():
				t.Logf("item %d delivered only after a release", id)
			case <-time.After(2 * time.Second):
				t.Logf("item %d not delivered even after a release", id)
			}

			return
		}
	}
}

func TestAuditF2AlonePriorityFair(t *testing.T) {
	auditAlone(t, divider.Fair, 5, []uint{5, 4, 3, 2, 1}, 5)
}

func TestAuditF2AlonePriorityRate(t *testing.T) {
	auditAlone(t, divider.Rate, 100, []uint{70, 20, 10}, 70)
}

// Second scenario: priority 5 is alone in having data and has it all the time (the
// input is pre-filled). It is granted all 5 handlers at first, but after a release
// the vacated handler is not given back to it: the discipline waits until 4 of the 5
// handlers have been released.
func TestAuditF2AlonePrioritySteady(t *testing.T) {
	const handlers = 5

	inputs := map[uint]chan int{}
	opts := priority.Opts[int]{
		Divider:          divider.Fair,
		HandlersQuantity: handlers,
		Inputs:           map[uint]<-chan int{},
	}

	for prio := uint(1); prio <= 5; prio++ {
		inputs[prio] = make(chan int, 100)
		opts.Inputs[prio] = inputs[prio]
	}

	for id := range 100 {
		inputs[5] <- id
	}

	dsc, err := priority.New(opts)
	if err != nil {
		t.Fatal(err)
	}

	for range handlers {
		select {
		case <-dsc.Output():
		case <-time.After(2 * time.Second):
			t.Fatal("initial batch is not delivered")
		}
	}

	for released := 1; released <= handlers; released++ {
		dsc.Release(5)

		select {
		case <-dsc.Output():
			if released != 1 {
				t.Fatalf("a vacated handler was given back to the only priority having data "+
					"only after %d releases", released)
			}

			return
		case <-time.After(time.Second):
			t.Logf("%d handlers vacant, the only priority having data gets none of them", released)
		}
	}

	t.Fatal("nothing delivered")
}
