// Copy into priority/ (v1 module, repository root) and run: go test -run TestAuditF1V1 -count=1 .
// (much more frequent with GODEBUG=asynctimerchan=0)
package priority_test

import (
	"sync"
	"testing"
	"time"

	"github.com/akramarenkov/cqos/priority"
)

// v1 twin of f1_v2_unbuffered_share_test.go.
func TestAuditF1V1UnbufferedShare(t *testing.T) {
	const (
		attempts = 300
		handlers = 6
		senders  = 40
	)

	exceeded := 0
	stalled := 0

	for attempt := 0; attempt < attempts; attempt++ {
		inputs := map[uint]chan int{3: make(chan int), 2: make(chan int), 1: make(chan int)}
		stop := make(chan struct{})
		wg := &sync.WaitGroup{}

		for _, channel := range inputs {
			for range senders {
				wg.Add(1)

				go func() {
					defer wg.Done()

					select {
					case channel <- 1:
					case <-stop:
					}
				}()
			}
		}

		time.Sleep(5 * time.Millisecond)

		output := make(chan priority.Prioritized[int])
		feedback := make(chan uint)

		opts := priority.Opts[int]{
			Divider:          priority.FairDivider,
			Feedback:         feedback,
			HandlersQuantity: handlers,
			Inputs:           map[uint]<-chan int{3: inputs[3], 2: inputs[2], 1: inputs[1]},
			Output:           output,
		}

		dsc, err := priority.New(opts)
		if err != nil {
			t.Fatal(err)
		}

		got := map[uint]int{}
		total := 0

	receive:
		for range handlers {
			select {
			case item := <-output:
				got[item.Priority]++
				total++
			case <-time.After(time.Second):
				break receive
			}
		}

		switch {
		case total != handlers:
			stalled++

			if stalled <= 3 {
				t.Logf("attempt %d: only %d of %d handlers occupied for 1s: %v", attempt, total, handlers, got)
			}
		case got[3] != 2 || got[2] != 2 || got[1] != 2:
			exceeded++

			if exceeded <= 5 {
				t.Logf("attempt %d: in-flight per priority %v, shares are 2/2/2", attempt, got)
			}
		}

		dsc.Stop()
		close(stop)
		wg.Wait()
	}

	if exceeded != 0 || stalled != 0 {
		t.Fatalf("C05 violated in %d of %d attempts (share exceeded: %d, handlers left vacant: %d)",
			exceeded+stalled, attempts, exceeded, stalled)
	}
}
