// Copy into v2/priority/ and run: go test -run TestAuditF3 -count=1 .
package priority_test

import (
	"testing"
	"time"

	"github.com/akramarenkov/cqos/v2/priority"
	"github.com/akramarenkov/cqos/v2/priority/divider"
)

// One consumer goroutine takes an item and releases it at once (so at most one item
// is ever "received and not yet released" - far below HandlersQuantity).
func TestAuditF3SequentialConsumer(t *testing.T) {
	const (
		handlers = 100
		items    = 1000
	)

	input := make(chan int, items)
	for id := range items {
		input <- id
	}
	close(input)

	opts := priority.Opts[int]{
		Divider:          divider.Fair,
		HandlersQuantity: handlers,
		Inputs:           map[uint]<-chan int{1: input},
	}

	dsc, err := priority.New(opts)
	if err != nil {
		t.Fatal(err)
	}

	progress := make(chan int, items)
	done := make(chan struct{})

	go func() {
		defer close(done)
		n := 0
		for item := range dsc.Output() {
			n++
			progress <- n
			dsc.Release(item.Priority)
		}
	}()

	last := 0
	for {
		select {
		case <-done:
			if last != items {
				t.Fatalf("terminated after %d items", last)
			}
			return
		case last = <-progress:
		case <-time.After(3 * time.Second):
			t.Fatalf("deadlock: consumer stuck in Release after receiving %d of %d items", last, items)
		}
	}
}
