// Package px: line-protocol helpers shared by the harness commands.
//
// Every case is one request line (written to ops.txt) and one reply line computed from
// the real implementation (written to impl.out).  The Lean driver answers ops.txt and
// the check diffs the two reply streams.
package px

import (
	"bufio"
	"encoding/json"
	"fmt"
	"math/rand"
	"os"
	"path/filepath"
	"sort"
	"strconv"
	"strings"
)

type Writer struct {
	dir      string
	ops      *bufio.Writer
	out      *bufio.Writer
	fops     *os.File
	fout     *os.File
	N        int
	Stats    map[string]int
	Samples  []string
	Monitor  []string // property-predicate failures observed on the implementation
	seen     map[string]struct{}
	Distinct int
	lastReq  string
	kinds    map[string]int
}

func NewWriter(dir string) *Writer {
	if err := os.MkdirAll(dir, 0o755); err != nil {
		panic(err)
	}
	fops, err := os.Create(filepath.Join(dir, "ops.txt"))
	if err != nil {
		panic(err)
	}
	fout, err := os.Create(filepath.Join(dir, "impl.out"))
	if err != nil {
		panic(err)
	}
	return &Writer{
		dir: dir, fops: fops, fout: fout,
		ops: bufio.NewWriterSize(fops, 1<<20), out: bufio.NewWriterSize(fout, 1<<20),
		Stats: map[string]int{}, seen: map[string]struct{}{}, Monitor: []string{}, Samples: []string{},
	}
}

// Case records one request and the implementation's reply.  class is a label used for
// the input-distribution statistics; nontrivial says whether the case counts as
// non-trivial by the family's rule.
func (w *Writer) Case(class string, nontrivial bool, req string, reply string) {
	w.N++
	w.lastReq = req
	w.Stats[class]++
	fmt.Fprintln(w.ops, req)
	fmt.Fprintln(w.out, reply)
	if nontrivial {
		if _, ok := w.seen[req]; !ok {
			w.seen[req] = struct{}{}
			w.Distinct++
		}
	}
	if len(w.Samples) < 12 && (w.N%9973 == 1 || w.N < 4) {
		w.Samples = append(w.Samples, req+" => "+reply)
	}
}

func (w *Writer) Fail(format string, args ...any) {
	// at most 60 reports are kept per kind of failure (the text before the replay, digits
	// ignored), so that many reports of one kind - a known finding, say - never crowd out a
	// report of another kind
	msg := fmt.Sprintf(format, args...)
	kind := msg
	if i := strings.Index(kind, "[replay: "); i >= 0 {
		kind = kind[:i]
	}
	kind = strings.Map(func(r rune) rune {
		if r >= '0' && r <= '9' {
			return -1
		}
		return r
	}, kind)
	if len(kind) > 80 {
		kind = kind[:80]
	}
	if w.kinds == nil {
		w.kinds = map[string]int{}
	}
	if w.kinds[kind] < 60 && len(w.Monitor) < 3000 {
		w.kinds[kind]++
		if !strings.Contains(msg, "[replay: ") {
			msg += " [replay: " + w.lastReq + "]"
		}
		w.Monitor = append(w.Monitor, msg)
	}
	w.Stats["monitor_fail"]++
}

func (w *Writer) Count(key string) { w.Stats[key]++ }

func (w *Writer) Close(extra map[string]any) {
	w.ops.Flush()
	w.out.Flush()
	w.fops.Close()
	w.fout.Close()
	st := map[string]any{
		"evaluations":         w.N,
		"distinct_nontrivial": w.Distinct,
		"distribution":        w.Stats,
		"samples":             w.Samples,
		"monitor_failures":    w.Monitor,
	}
	for k, v := range extra {
		st[k] = v
	}
	b, _ := json.MarshalIndent(st, "", " ")
	if err := os.WriteFile(filepath.Join(w.dir, "stats.json"), b, 0o644); err != nil {
		panic(err)
	}
}

func List(l []uint) string {
	if len(l) == 0 {
		return "-"
	}
	s := make([]string, len(l))
	for i, v := range l {
		s[i] = strconv.FormatUint(uint64(v), 10)
	}
	return strings.Join(s, ",")
}

func Lists(l [][]uint) string {
	if len(l) == 0 {
		return "-"
	}
	s := make([]string, len(l))
	for i, v := range l {
		s[i] = List(v)
	}
	return strings.Join(s, ";")
}

// Map prints a map sorted by key, with every present key.
func Map(m map[uint]uint) string {
	if m == nil {
		return "nil"
	}
	return mapf(m, false)
}

// MapNZ prints only the non-zero entries (nil stays nil).
func MapNZ(m map[uint]uint) string {
	if m == nil {
		return "nil"
	}
	return mapf(m, true)
}

func mapf(m map[uint]uint, nz bool) string {
	keys := make([]uint, 0, len(m))
	for k, v := range m {
		if nz && v == 0 {
			continue
		}
		keys = append(keys, k)
	}
	if len(keys) == 0 {
		return "-"
	}
	sort.Slice(keys, func(i, j int) bool { return keys[i] < keys[j] })
	s := make([]string, len(keys))
	for i, k := range keys {
		s[i] = fmt.Sprintf("%d:%d", k, m[k])
	}
	return strings.Join(s, ",")
}

func Bool(b bool) string {
	if b {
		return "1"
	}
	return "0"
}

func CloneMap(m map[uint]uint) map[uint]uint {
	if m == nil {
		return nil
	}
	c := make(map[uint]uint, len(m))
	for k, v := range m {
		c[k] = v
	}
	return c
}

// LogUniform returns a value in [1, max] whose magnitude is uniform.
func LogUniform(r *rand.Rand, max uint64) uint64 {
	bits := 1
	for m := max; m > 1; m >>= 1 {
		bits++
	}
	b := r.Intn(bits) + 1
	var v uint64
	if b >= 64 {
		v = r.Uint64()
	} else {
		v = r.Uint64() & ((uint64(1) << b) - 1)
	}
	if v == 0 {
		v = 1
	}
	if v > max {
		v = v%max + 1
	}
	return v
}

func Seed() int64 {
	if s := os.Getenv("VERIF_SEED"); s != "" {
		if v, err := strconv.ParseInt(s, 10, 64); err == nil {
			return v
		}
	}
	return 1
}
