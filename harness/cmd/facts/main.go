// Command facts: a tiny syntactic translator (stdlib go/parser + go/ast only).  It re-reads
// the anchored source files of /repo on every run and emits Lean tables:
//
//   - spawns:   every `go` statement (package, enclosing function, callee, inside a loop?)
//   - defers:   the deferred calls of every function that has any, in source order
//   - methods:  for every method of the discipline types: exported?, receiver fields
//     written, receiver fields read, receiver methods called
//   - selects:  for every function, each `select` statement: its communication cases and
//     whether each case body returns
//   - ctors:    for every constructor (New*), the sequence of top-level statement kinds
//   - spawners: the same for every other function with a top-level `go` statement
//   - chanmakes: every make(chan …) of a constructor: (pkg, constructor, target, capacity text)
//   - ranges:   `for ... range <expr>` loops per function (handler loops)
//
// The generated module is checked against hand-written expectations in
// Cqos/Facts/Expect.lean (by `decide`), which is what ties `New`, `main`, `loop`, the select
// loops and the handler goroutines — code the steppers call around but never through — to
// the model (C19, C20, C07's closing order).
package main

import (
	"bytes"
	"flag"
	"fmt"
	"go/ast"
	"go/parser"
	"go/printer"
	"go/token"
	"os"
	"path/filepath"
	"sort"
	"strings"
)

type pkgSpec struct {
	key   string
	files []string
}

var pkgs = []pkgSpec{
	{"v2/priority", []string{"v2/priority/priority.go", "v2/priority/assist.go"}},
	{"v2/priority/simple", []string{"v2/priority/simple/simple.go"}},
	{"priority", []string{"priority/priority.go", "priority/assist.go", "priority/simple.go"}},
	{"v2/join", []string{"v2/join/join.go"}},
	{"v2/join/unite", []string{"v2/join/unite/unite.go"}},
	{"join", []string{"join/join.go"}},
	{"v2/limit", []string{"v2/limit/limit.go"}},
}

var fset = token.NewFileSet()

// glue: functions executed only by the discipline's own goroutines or called by the user -
// the steppers call around them, never through them
var glue = map[string]bool{"main": true, "loop": true, "loopUntimeouted": true, "transfer": true, "handler": true,
	"gracefulStop": true, "Stop": true, "GracefulStop": true, "Release": true, "AddInput": true, "RemoveInput": true}

func text(n ast.Node) string {
	var b bytes.Buffer
	printer.Fprint(&b, fset, n)
	s := strings.Join(strings.Fields(b.String()), " ")
	return s
}

func lstr(s string) string {
	return "\"" + strings.ReplaceAll(strings.ReplaceAll(s, "\\", "\\\\"), "\"", "\\\"") + "\""
}

func llist(l []string) string {
	q := make([]string, len(l))
	for i, s := range l {
		q[i] = lstr(s)
	}
	return "[" + strings.Join(q, ", ") + "]"
}

func lbool(b bool) string {
	if b {
		return "true"
	}
	return "false"
}

type out struct {
	spawns, defers, methods, selects, ctors, ranges, spawners, chanmakes, callseq []string
}

func recvInfo(fd *ast.FuncDecl) (name string, typ string) {
	if fd.Recv == nil || len(fd.Recv.List) == 0 {
		return "", ""
	}
	f := fd.Recv.List[0]
	if len(f.Names) > 0 {
		name = f.Names[0].Name
	}
	t := f.Type
	if st, ok := t.(*ast.StarExpr); ok {
		t = st.X
	}
	switch x := t.(type) {
	case *ast.IndexExpr:
		t = x.X
	case *ast.IndexListExpr:
		t = x.X
	}
	if id, ok := t.(*ast.Ident); ok {
		typ = id.Name
	}
	return
}

func uniqSorted(m map[string]bool) []string {
	var l []string
	for k := range m {
		l = append(l, k)
	}
	sort.Strings(l)
	return l
}

func process(repo string, p pkgSpec, o *out) error {
	fields := map[string]map[string]bool{} // type -> field names
	var funcs []*ast.FuncDecl
	for _, f := range p.files {
		af, err := parser.ParseFile(fset, filepath.Join(repo, f), nil, 0)
		if err != nil {
			return err
		}
		for _, d := range af.Decls {
			switch x := d.(type) {
			case *ast.GenDecl:
				for _, sp := range x.Specs {
					ts, ok := sp.(*ast.TypeSpec)
					if !ok {
						continue
					}
					st, ok := ts.Type.(*ast.StructType)
					if !ok {
						continue
					}
					fields[ts.Name.Name] = map[string]bool{}
					for _, fl := range st.Fields.List {
						for _, n := range fl.Names {
							fields[ts.Name.Name][n.Name] = true
						}
					}
				}
			case *ast.FuncDecl:
				funcs = append(funcs, x)
			}
		}
	}

	for _, fd := range funcs {
		if fd.Body == nil {
			continue
		}
		rname, rtyp := recvInfo(fd)
		fname := lstr(rtyp) + ", " + lstr(fd.Name.Name)

		// callseq: for the glue functions that no stepper executes (the goroutine bodies and the
		// API methods), the calls made through the receiver, in source order, with their
		// argument text, plus the control skeleton around them
		if glue[fd.Name.Name] && rname != "" {
			// local variables are renamed $1, $2, … in order of first appearance, so that the
			// skeleton does not depend on how a maintainer calls them
			locals := map[string]string{}
			type renamed struct {
				id   *ast.Ident
				orig string
			}
			var undo []renamed
			ast.Inspect(fd, func(n ast.Node) bool {
				if id, ok := n.(*ast.Ident); ok && id.Obj != nil && id.Obj.Kind == ast.Var && id.Name != rname && id.Name != "_" {
					if pos := id.Obj.Pos(); pos >= fd.Pos() && pos <= fd.End() {
						if _, seen := locals[id.Name]; !seen {
							locals[id.Name] = fmt.Sprintf("$%d", len(locals)+1)
						}
						undo = append(undo, renamed{id, id.Name})
					}
				}
				return true
			})
			for _, u := range undo { // (renamed only now: Obj.Pos() looks names up in the declaration)
				u.id.Name = locals[u.orig]
			}
			rename := func(t string) string { return t }
			var seq0 []string
			seq := &seq0
			_ = rename
			ast.Inspect(fd.Body, func(n ast.Node) bool {
				switch x := n.(type) {
				case *ast.FuncLit:
					*seq = append(*seq, rename("func{"))
				case *ast.ForStmt, *ast.RangeStmt:
					*seq = append(*seq, rename("for"))
				case *ast.IfStmt:
					*seq = append(*seq, rename("if "+text(x.Cond)))
				case *ast.ReturnStmt:
					*seq = append(*seq, rename("return"))
				case *ast.CallExpr:
					root := x.Fun
					for {
						if se, ok := root.(*ast.SelectorExpr); ok {
							root = se.X
							continue
						}
						break
					}
					if id, ok := root.(*ast.Ident); ok && (id.Name == rname || id.Name == "time") {
						*seq = append(*seq, rename(text(x)))
					}
				case *ast.SendStmt:
					*seq = append(*seq, rename(text(x)))
				case *ast.UnaryExpr:
					if x.Op == token.ARROW {
						*seq = append(*seq, rename(text(x)))
					}
				}
				return true
			})
			o.callseq = append(o.callseq, fmt.Sprintf("(%s, %s, %s, %s)", lstr(p.key), lstr(rtyp), lstr(fd.Name.Name), llist(*seq)))
			for _, u := range undo {
				u.id.Name = u.orig
			}
		}

		// spawns, defers, selects, ranges: walk with loop depth
		var deferred []string
		var walk func(n ast.Node, inLoop bool)
		walk = func(n ast.Node, inLoop bool) {
			if n == nil {
				return
			}
			switch x := n.(type) {
			case *ast.FuncLit:
				return
			case *ast.GoStmt:
				o.spawns = append(o.spawns, fmt.Sprintf("(%s, %s, %s, %s)", lstr(p.key), fname, lstr(text(x.Call.Fun)), lbool(inLoop)))
				return
			case *ast.DeferStmt:
				deferred = append(deferred, text(x.Call))
				return
			case *ast.ForStmt:
				ast.Inspect(x.Body, func(m ast.Node) bool { return true })
				for _, s := range x.Body.List {
					walk(s, true)
				}
				return
			case *ast.RangeStmt:
				o.ranges = append(o.ranges, fmt.Sprintf("(%s, %s, %s)", lstr(p.key), fname, lstr(text(x.X))))
				for _, s := range x.Body.List {
					walk(s, true)
				}
				return
			case *ast.SelectStmt:
				var cases []string
				for _, c := range x.Body.List {
					cc := c.(*ast.CommClause)
					comm := "default"
					if cc.Comm != nil {
						comm = text(cc.Comm)
					}
					ret := false
					for _, s := range cc.Body {
						ast.Inspect(s, func(m ast.Node) bool {
							if _, ok := m.(*ast.ReturnStmt); ok {
								ret = true
							}
							return true
						})
					}
					cases = append(cases, "("+lstr(comm)+", "+lbool(ret)+")")
					for _, s := range cc.Body {
						walk(s, inLoop)
					}
				}
				o.selects = append(o.selects, fmt.Sprintf("(%s, %s, [%s])", lstr(p.key), fname, strings.Join(cases, ", ")))
				return
			case *ast.BlockStmt:
				for _, s := range x.List {
					walk(s, inLoop)
				}
				return
			case *ast.IfStmt:
				walk(x.Body, inLoop)
				if x.Else != nil {
					walk(x.Else, inLoop)
				}
				return
			case *ast.SwitchStmt:
				walk(x.Body, inLoop)
				return
			case *ast.CaseClause:
				for _, s := range x.Body {
					walk(s, inLoop)
				}
				return
			case *ast.LabeledStmt:
				walk(x.Stmt, inLoop)
				return
			}
		}
		walk(fd.Body, false)
		if len(deferred) > 0 {
			o.defers = append(o.defers, fmt.Sprintf("(%s, %s, %s)", lstr(p.key), fname, llist(deferred)))
		}

		// constructors: top-level statement kinds
		topGo := false
		for _, st := range fd.Body.List {
			if _, ok := st.(*ast.GoStmt); ok {
				topGo = true
			}
		}
		isCtor := rtyp == "" && strings.HasPrefix(fd.Name.Name, "New")
		if isCtor || topGo {
			var kinds []string
			for _, s := range fd.Body.List {
				switch x := s.(type) {
				case *ast.GoStmt:
					kinds = append(kinds, "(\"go\", "+lstr(text(x.Call.Fun))+")")
				case *ast.ReturnStmt:
					kinds = append(kinds, "(\"return\", \"\")")
				case *ast.IfStmt:
					kinds = append(kinds, "(\"if\", \"\")")
				case *ast.AssignStmt:
					kinds = append(kinds, "(\"assign\", "+lstr(text(x.Lhs[0]))+")")
				case *ast.ExprStmt:
					kinds = append(kinds, "(\"call\", "+lstr(text(x.X))+")")
				case *ast.SelectStmt:
					kinds = append(kinds, "(\"select\", \"\")")
				default:
					kinds = append(kinds, "(\"other\", \"\")")
				}
			}
			if isCtor {
				// every `make(chan T[, cap])` in a constructor, keyed by the struct field or
				// variable it initialises
				ast.Inspect(fd.Body, func(n ast.Node) bool {
					var target string
					var val ast.Expr
					switch x := n.(type) {
					case *ast.KeyValueExpr:
						target, val = text(x.Key), x.Value
					case *ast.AssignStmt:
						if len(x.Lhs) == 1 && len(x.Rhs) == 1 {
							target, val = text(x.Lhs[0]), x.Rhs[0]
						}
					}
					if call, ok := val.(*ast.CallExpr); ok {
						if id, ok := call.Fun.(*ast.Ident); ok && id.Name == "make" && len(call.Args) >= 1 {
							if _, isChan := call.Args[0].(*ast.ChanType); isChan {
								capText := ""
								if len(call.Args) >= 2 {
									capText = text(call.Args[1])
								}
								o.chanmakes = append(o.chanmakes, fmt.Sprintf("(%s, %s, %s, %s)", lstr(p.key), lstr(fd.Name.Name), lstr(target), lstr(capText)))
							}
						}
					}
					return true
				})
				o.ctors = append(o.ctors, fmt.Sprintf("(%s, %s, [%s])", lstr(p.key), lstr(fd.Name.Name), strings.Join(kinds, ", ")))
			} else {
				o.spawners = append(o.spawners, fmt.Sprintf("(%s, %s, %s, [%s])", lstr(p.key), lstr(rtyp), lstr(fd.Name.Name), strings.Join(kinds, ", ")))
			}
		}

		// receiver field accesses
		if rtyp != "" && rname != "" && fields[rtyp] != nil {
			writes, reads, calls := map[string]bool{}, map[string]bool{}, map[string]bool{}
			isRecvSel := func(e ast.Expr) (string, bool) {
				se, ok := e.(*ast.SelectorExpr)
				if !ok {
					return "", false
				}
				id, ok := se.X.(*ast.Ident)
				if !ok || id.Name != rname {
					return "", false
				}
				return se.Sel.Name, true
			}
			base := func(e ast.Expr) ast.Expr {
				for {
					switch x := e.(type) {
					case *ast.IndexExpr:
						e = x.X
					case *ast.ParenExpr:
						e = x.X
					case *ast.StarExpr:
						e = x.X
					default:
						return e
					}
				}
			}
			written := map[ast.Expr]bool{}
			markWrite := func(e ast.Expr) {
				b := base(e)
				if f, ok := isRecvSel(b); ok && fields[rtyp][f] {
					writes[f] = true
					written[b] = true
				}
			}
			ast.Inspect(fd.Body, func(n ast.Node) bool {
				switch x := n.(type) {
				case *ast.AssignStmt:
					for _, l := range x.Lhs {
						markWrite(l)
					}
				case *ast.IncDecStmt:
					markWrite(x.X)
				case *ast.CallExpr:
					if id, ok := x.Fun.(*ast.Ident); ok && id.Name == "delete" && len(x.Args) > 0 {
						markWrite(x.Args[0])
					}
				}
				return true
			})
			ast.Inspect(fd.Body, func(n ast.Node) bool {
				se, ok := n.(*ast.SelectorExpr)
				if !ok {
					return true
				}
				f, ok := isRecvSel(se)
				if !ok {
					return true
				}
				if fields[rtyp][f] {
					if !written[ast.Expr(se)] {
						reads[f] = true
					}
				} else {
					calls[f] = true
				}
				return true
			})
			o.methods = append(o.methods, fmt.Sprintf("(%s, %s, %s, %s, %s, %s)", lstr(p.key), fname,
				lbool(ast.IsExported(fd.Name.Name)), llist(uniqSorted(writes)), llist(uniqSorted(reads)), llist(uniqSorted(calls))))
		}
	}
	return nil
}

func emit(name string, typ string, rows []string) string {
	var b strings.Builder
	fmt.Fprintf(&b, "def %s : List (%s) := [\n", name, typ)
	for i, r := range rows {
		sep := ","
		if i == len(rows)-1 {
			sep = ""
		}
		fmt.Fprintf(&b, "  %s%s\n", r, sep)
	}
	b.WriteString("]\n\n")
	return b.String()
}

func main() {
	repo := flag.String("repo", "/repo", "repository root")
	outDir := flag.String("out", "", "directory of the generated Lean module")
	flag.Parse()
	if *outDir == "" {
		fmt.Fprintln(os.Stderr, "missing -out")
		os.Exit(2)
	}
	var o out
	for _, p := range pkgs {
		if err := process(*repo, p, &o); err != nil {
			fmt.Fprintln(os.Stderr, "facts:", err)
			os.Exit(1)
		}
	}
	var b strings.Builder
	b.WriteString("/-\n  GENERATED by /verif/harness/cmd/facts from the working tree of /repo — do not edit.\n  Regenerated on every check run; the expectations are in Cqos/Facts/Expect.lean.\n-/\nnamespace Cqos.Facts\n\n")
	b.WriteString(emit("spawns", "String × String × String × String × Bool", o.spawns))
	b.WriteString(emit("defers", "String × String × String × List String", o.defers))
	b.WriteString(emit("methods", "String × String × String × Bool × List String × List String × List String", o.methods))
	b.WriteString(emit("selects", "String × String × String × List (String × Bool)", o.selects))
	b.WriteString(emit("ctors", "String × String × List (String × String)", o.ctors))
	b.WriteString(emit("spawners", "String × String × String × List (String × String)", o.spawners))
	b.WriteString(emit("chanmakes", "String × String × String × String", o.chanmakes))
	b.WriteString(emit("callseq", "String × String × String × List String", o.callseq))
	b.WriteString(emit("ranges", "String × String × String × String", o.ranges))
	b.WriteString("end Cqos.Facts\n")

	if err := os.MkdirAll(*outDir, 0o755); err != nil {
		panic(err)
	}
	path := filepath.Join(*outDir, "Generated.lean")
	old, _ := os.ReadFile(path)
	if string(old) == b.String() {
		return // unchanged: keep the timestamp so that lake does not rebuild
	}
	tmp := path + ".tmp"
	if err := os.WriteFile(tmp, []byte(b.String()), 0o644); err != nil {
		panic(err)
	}
	if err := os.Rename(tmp, path); err != nil {
		panic(err)
	}
}
