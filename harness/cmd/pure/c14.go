package main

import (
	"fmt"
	"math"
	"math/big"
	"math/rand"
	"sort"

	"verifharness/internal/px"

	p1 "github.com/akramarenkov/cqos/priority"
	p2 "github.com/akramarenkov/cqos/v2/priority"
	"github.com/akramarenkov/cqos/v2/priority/divider"
)

// monitorC14 evaluates property C14 on the implementation's result for a non-empty,
// sorted, duplicate-free priority list and a non-nil initial map.
func monitorC14(w *px.Writer, name string, ps []uint, d uint, before, after map[uint]uint) {
	fail := func(what string) {
		w.Fail("C14 %s ps=%s d=%d m=%s -> %s : %s", name, px.List(ps), d, px.Map(before), px.Map(after), what)
	}

	listed := map[uint]bool{}
	for _, p := range ps {
		listed[p] = true
	}

	total := uint(0)
	incs := make([]uint, len(ps))
	for i, p := range ps {
		if after[p] < before[p] {
			fail("an entry decreased")
			return
		}
		incs[i] = after[p] - before[p]
		total += incs[i]
	}
	if total != d {
		fail(fmt.Sprintf("added total %d != dividend", total))
	}
	for k, v := range after {
		if !listed[k] && v != before[k] {
			fail("an unlisted entry changed")
		}
	}
	for k, v := range before {
		if !listed[k] && after[k] != v {
			fail("an unlisted entry changed")
		}
	}

	n := uint(len(ps))
	switch name {
	case "fair":
		base := d / n
		rem := d % n
		for i, inc := range incs {
			want := base
			if uint(i) < rem {
				want++
			}
			if inc != want {
				fail("fair: increments are not base(+1 for the first d mod n)")
				break
			}
		}
	case "rate":
		for i := 1; i < len(incs); i++ {
			if incs[i] > incs[i-1] {
				fail("rate: increments increase along the list")
				break
			}
		}
		// |inc_i - d*p_i/S| <= n/2   <=>   |2*S*inc_i - 2*d*p_i| <= n*S
		S := new(big.Int)
		for _, p := range ps {
			S.Add(S, new(big.Int).SetUint64(uint64(p)))
		}
		bound := new(big.Int).Mul(S, big.NewInt(int64(n)))
		for i, p := range ps {
			lhs := new(big.Int).Mul(S, new(big.Int).SetUint64(uint64(incs[i])))
			lhs.Mul(lhs, big.NewInt(2))
			rhs := new(big.Int).Mul(new(big.Int).SetUint64(uint64(d)), new(big.Int).SetUint64(uint64(p)))
			rhs.Mul(rhs, big.NewInt(2))
			diff := new(big.Int).Sub(lhs, rhs)
			diff.Abs(diff)
			if diff.Cmp(bound) > 0 {
				fail(fmt.Sprintf("rate: increment of %d is farther than n/2 from the exact share", p))
				break
			}
		}
	}
}

func caseDivider(w *px.Writer, class string, ps []uint, d uint, m map[uint]uint, only ...string) {
	names := []string{"fair", "rate"}
	if len(only) > 0 {
		names = only
	}
	for _, name := range names {
		var v2 divider.Divider
		var v1 p1.Divider
		if name == "fair" {
			v2, v1 = divider.Fair, p1.FairDivider
		} else {
			v2, v1 = divider.Rate, p1.RateDivider
		}

		m2 := px.CloneMap(m)
		v2(append([]uint(nil), ps...), d, m2)
		given := px.CloneMap(m)
		m1 := v1(append([]uint(nil), ps...), d, given)
		if m != nil && len(ps) > 0 && px.MapNZ(given) != px.MapNZ(m1) {
			w.Fail("C14 %s ps=%s d=%d m=%s : the v1 divider did not add to the distribution it was given (%s), only to the one it returned (%s)", name, px.List(ps), d, px.Map(m), px.Map(given), px.Map(m1))
		}

		nontrivial := len(ps) > 1 && d > 0
		w.Case(class+":"+name, nontrivial, fmt.Sprintf("%s2 %s %d %s", name, px.List(ps), d, px.Map(m)), px.MapNZ(m2))
		w.Case(class+":"+name, nontrivial, fmt.Sprintf("%s1 %s %d %s", name, px.List(ps), d, px.Map(m)), px.MapNZ(m1))

		if len(ps) > 0 && m != nil {
			monitorC14(w, name, ps, d, m, m2)
			monitorC14(w, name, ps, d, m, m1)
			if px.MapNZ(m1) != px.MapNZ(m2) {
				w.Fail("C14 %s ps=%s d=%d m=%s : v1 %s != v2 %s", name, px.List(ps), d, px.Map(m), px.Map(m1), px.Map(m2))
			}
		}
		if len(ps) > 0 && m == nil && m1 != nil {
			// v1 on a nil map creates it: same amounts as v2 on an empty map
			e := map[uint]uint{}
			v2(append([]uint(nil), ps...), d, e)
			monitorC14(w, name, ps, d, map[uint]uint{}, m1)
			if px.MapNZ(m1) != px.MapNZ(e) {
				w.Fail("C14 %s ps=%s d=%d nil : v1 %s != v2-on-empty %s", name, px.List(ps), d, px.Map(m1), px.Map(e))
			}
		}
		if name == "rate" && len(ps) > 0 {
			rateBranch(w, ps, d)
		}
	}
}

// rateBranch classifies which path of Rate a case exercises (for the distribution)
// and asks the model for the float/exact rounding of every part (hypotheses of C14).
func rateBranch(w *px.Writer, ps []uint, d uint) {
	S := p2.VerifSumPriorities(ps)
	if S == 0 {
		return
	}
	rem := d
	for _, p := range ps {
		num := new(big.Int).Mul(big.NewInt(2*int64(d)), new(big.Int).SetUint64(uint64(p)))
		num.Add(num, new(big.Int).SetUint64(uint64(S)))
		exact := new(big.Int).Quo(num, new(big.Int).SetUint64(2*uint64(S)))
		tie := new(big.Int).Mod(num, new(big.Int).SetUint64(2*uint64(S))).Sign() == 0
		if tie {
			w.Count("rate:exact-tie")
		}
		part := uint(exact.Uint64())
		if rem < part {
			w.Count("rate:truncated")
			return
		}
		rem -= part
	}
	if rem > 0 {
		w.Count("rate:leftover-to-first")
	} else {
		w.Count("rate:exact-fit")
	}
}

// all sorted (descending) duplicate-free lists over {1..top} of length 1..maxLen
func subsetsDesc(top uint, maxLen int) [][]uint {
	var res [][]uint
	var rec func(next uint, cur []uint)
	rec = func(next uint, cur []uint) {
		if len(cur) > 0 {
			res = append(res, append([]uint(nil), cur...))
		}
		if len(cur) == maxLen {
			return
		}
		for v := next; v >= 1; v-- {
			rec(v-1, append(cur, v))
		}
	}
	rec(top, nil)
	return res
}

func randPrios(r *rand.Rand, n int, max uint64) []uint {
	set := map[uint]bool{}
	if uint64(n) > max {
		n = int(max)
	}
	for len(set) < n {
		set[uint(px.LogUniform(r, max))] = true
	}
	ps := make([]uint, 0, n)
	for p := range set {
		ps = append(ps, p)
	}
	sort.Slice(ps, func(i, j int) bool { return ps[i] > ps[j] })
	return ps
}

func randMap(r *rand.Rand, ps []uint, max uint64) map[uint]uint {
	m := map[uint]uint{}
	for _, p := range ps {
		if r.Intn(2) == 0 {
			m[p] = uint(px.LogUniform(r, max)) - 1
		}
	}
	for k := r.Intn(3); k > 0; k-- {
		m[uint(px.LogUniform(r, 1<<20))+1<<21] = uint(px.LogUniform(r, max))
	}
	return m
}

func familyC14(w *px.Writer, r *rand.Rand, thorough bool) {
	top, maxLen, maxD := uint(8), 4, uint(40)
	nFam, nRandom := 3000, 25000
	if thorough {
		top, maxLen, maxD = 10, 5, 64
		nFam, nRandom = 60000, 600000
	}

	// degenerate: empty list, nil map
	for _, m := range []map[uint]uint{nil, {}, {3: 1}} {
		caseDivider(w, "empty-list", nil, 5, m)
	}

	// priority 0 is a valid uint priority: alone (the sum of the priorities is 0) and as the lowest
	for _, ps := range [][]uint{{0}, {5, 0}, {3, 2, 0}, {7, 1, 0}} {
		for _, d := range []uint{0, 1, 6, 7, 100} {
			caseDivider(w, "zero-priority", ps, d, map[uint]uint{})
			caseDivider(w, "zero-priority", ps, d, map[uint]uint{ps[0]: 4})
		}
	}

	// exhaustive small scope
	for _, ps := range subsetsDesc(top, maxLen) {
		for d := uint(0); d <= maxD; d++ {
			caseDivider(w, "exhaustive", ps, d, map[uint]uint{})
		}
		caseDivider(w, "exhaustive-nil", ps, uint(r.Intn(int(maxD))), nil)
		caseDivider(w, "exhaustive-prefilled", ps, uint(r.Intn(int(maxD))), randMap(r, ps, 50))
	}

	// a share of exactly one half whose floating-point value may come out just below 0.5
	// (sum of the priorities = 2 * p * dividend): the rounding primitive decides
	for pp := uint(1); pp <= 250; pp++ {
		for d := uint(2); d <= 5; d++ {
			S := 2 * pp * d
			for _, l := range []uint{0, pp / 2, pp - 1} {
				if l >= pp || S < pp+l+pp+1 {
					continue
				}
				h := S - pp - l
				ps := []uint{h, pp}
				if l > 0 {
					ps = append(ps, l)
				}
				caseDivider(w, "half-share", ps, d, map[uint]uint{}, "rate")
			}
		}
	}

	for n := 0; n < nFam; n++ {
		// near-equal large priorities: the truncation family (defect D2 family)
		k := 2 + r.Intn(8)
		base := uint(px.LogUniform(r, 1<<20)) + 50
		ps := make([]uint, k)
		for i := range ps {
			ps[i] = base + uint(k-1-i)
		}
		caseDivider(w, "near-equal", ps, uint(r.Intn(6*k)), map[uint]uint{})

		// exact ties: d*p/S = x.5 : S even-ish; choose S | 2dp
		ps = randPrios(r, 1+r.Intn(6), 64)
		S := p2.VerifSumPriorities(ps)
		d := S/2 + S*uint(r.Intn(5))
		caseDivider(w, "ties", ps, d, map[uint]uint{})
		// dividends around multiples of the priority sum / of n
		mult := S * uint(1+r.Intn(20))
		for _, dd := range []uint{mult - 1, mult, mult + 1} {
			caseDivider(w, "around-multiple-of-sum", ps, dd, randMap(r, ps, 1000))
		}
		nn := uint(len(ps)) * uint(1+r.Intn(50))
		for _, dd := range []uint{nn - 1, nn, nn + 1} {
			caseDivider(w, "around-multiple-of-n", ps, dd, map[uint]uint{})
		}
		// skewed
		ps = randPrios(r, 2+r.Intn(4), 8)
		ps[0] = uint(px.LogUniform(r, 1<<30)) + 10
		caseDivider(w, "skewed", ps, uint(px.LogUniform(r, 1<<16)), map[uint]uint{})
		// the top of the uint range - Fair only (Rate's float arithmetic is outside its stated
		// range there): no intermediate sum may wrap
		ps = randPrios(r, 2+r.Intn(4), 64)
		caseDivider(w, "max-uint", ps, math.MaxUint64-uint(r.Intn(len(ps)+2)), map[uint]uint{}, "fair")
	}

	// random wide: 1..8 priorities up to 2^40, dividends up to 2^32 (sum < 2^53)
	for n := 0; n < nRandom; n++ {
		ps := randPrios(r, 1+r.Intn(8), 1<<uint(1+r.Intn(40)))
		d := uint(px.LogUniform(r, 1<<32))
		if r.Intn(4) == 0 {
			d = uint(r.Intn(100))
		}
		caseDivider(w, "random", ps, d, randMap(r, ps, 1<<40))
	}
}
