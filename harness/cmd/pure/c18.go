package main

import (
	"errors"
	"fmt"
	"math/rand"
	"sort"

	"verifharness/internal/px"

	p1 "github.com/akramarenkov/cqos/priority"
	p2 "github.com/akramarenkov/cqos/v2/priority"
	"github.com/akramarenkov/cqos/v2/priority/divider"
	"github.com/akramarenkov/cqos/v2/priority/utils"
)

type divPair struct {
	name string
	v2   divider.Divider
	v1   p1.Divider
}

var divPairs = []divPair{
	{"fair", divider.Fair, p1.FairDivider},
	{"rate", divider.Rate, p1.RateDivider},
	{"lowfirst", lowFirst2, lowFirst1},
	{"quota", quota2, quota1},
}

// quota: a divider that does NOT conserve the dividend (Lean: Cqos.quota) - every listed priority
// gets `dividend` units.  The helpers are defined by what the divider gives, not by what a
// well-behaved divider would give (C18 speaks of "the divider").
func quota2(ps []uint, d uint, m map[uint]uint) {
	for _, p := range ps {
		m[p] += d
	}
}

func quota1(ps []uint, d uint, m map[uint]uint) map[uint]uint {
	if m == nil {
		m = map[uint]uint{}
	}
	quota2(ps, d, m)
	return m
}

// lowFirst: a contract-abiding custom divider (Lean: Cqos.lowfirst) - one unit to the LOWEST listed
// priority, the rest as Fair.  It conserves the dividend but can leave a priority that is not the
// lowest with nothing ([3 2 1], 2 handlers: 3:1 2:0 1:1), which the library's own dividers never do:
// the helpers and the v2 constructor must judge such a distribution by every listed priority.
func lowFirst2(ps []uint, d uint, m map[uint]uint) {
	if len(ps) == 0 || d == 0 {
		return
	}
	m[ps[len(ps)-1]]++
	divider.Fair(ps, d-1, m)
}

func lowFirst1(ps []uint, d uint, m map[uint]uint) map[uint]uint {
	if m == nil {
		m = map[uint]uint{}
	}
	lowFirst2(ps, d, m)
	return m
}

// definitionNonFatal is the definition in property C18, computed independently of the
// library's helper: every member of every non-empty subset (sorted high to low) gets
// at least one unit of q.
func definitionNonFatal(ps []uint, dv divider.Divider, q uint) bool {
	sorted := append([]uint(nil), ps...)
	sort.SliceStable(sorted, func(i, j int) bool { return sorted[j] < sorted[i] })
	n := len(sorted)
	for mask := 1; mask < 1<<n; mask++ {
		var sub []uint
		for i := 0; i < n; i++ {
			if mask&(1<<i) != 0 {
				sub = append(sub, sorted[i])
			}
		}
		m := map[uint]uint{}
		dv(sub, q, m)
		for _, p := range sub {
			if m[p] == 0 {
				return false
			}
		}
	}
	return true
}

func newErrName(err error) string {
	switch {
	case err == nil:
		return "ok"
	case errors.Is(err, p2.ErrHandlersQuantityTooSmall):
		return "too-small"
	case errors.Is(err, p2.ErrDividerBad):
		return "divider-bad"
	case errors.Is(err, p2.ErrHandlersQuantityZero):
		return "quantity-zero"
	default:
		return "other:" + err.Error()
	}
}

func caseUtils(w *px.Writer, class string, ps []uint, q uint, mx uint, la uint, lb uint) {
	limit := float64(la) / float64(lb)
	for _, dp := range divPairs {
		nf2 := utils.IsNonFatalConfig(ps, dp.v2, q)
		nf1 := p1.IsNonFatalConfig(ps, dp.v1, q)
		nontrivial := len(ps) > 1 && q > 0
		req := fmt.Sprintf("nonfatal %s %s %d", dp.name, px.List(ps), q)
		w.Case(class+":nonfatal", nontrivial, req, px.Bool(nf2))
		w.Case(class+":nonfatal-v1", nontrivial, req, px.Bool(nf1))
		if nf2 {
			w.Count("nonfatal:true")
		} else {
			w.Count("nonfatal:false")
		}

		// monitor: agreement with the definition
		if len(ps) <= 8 && !hasDup(ps) {
			def := definitionNonFatal(ps, dp.v2, q)
			if def != nf2 || def != nf1 {
				w.Fail("C18 IsNonFatalConfig %s ps=%s q=%d : v2=%v v1=%v definition=%v", dp.name, px.List(ps), q, nf2, nf1, def)
			}
		}

		// non-fatal => accepted by the v2 constructor
		if len(ps) > 0 && q > 0 && !hasDup(ps) {
			prios, strategic, err := p2.VerifPrepare(dp.v2, ps, q)
			rep := "err " + newErrName(err)
			if err == nil {
				rep = fmt.Sprintf("ok %s %s", px.List(prios), px.MapNZ(strategic))
			}
			w.Case(class+":prepare", nontrivial, fmt.Sprintf("prepare %s %s %d", dp.name, px.List(ps), q), rep)
			// (a divider that does not conserve the dividend is rejected as faulty whatever the
			// helpers say - C15; the clause "non-fatal => accepted" is about contract-abiding dividers)
			if nf2 && err != nil && dp.name != "quota" {
				w.Fail("C18 non-fatal but rejected: %s ps=%s q=%d : %v", dp.name, px.List(ps), q, err)
			}
			if err == nil {
				for _, p := range ps {
					if strategic[p] == 0 {
						w.Fail("C15 New accepted a zero share: %s ps=%s q=%d strategic=%s", dp.name, px.List(ps), q, px.Map(strategic))
					}
				}
			}
		}

		s2 := utils.IsSuitableConfig(ps, dp.v2, q, limit)
		s1 := p1.IsSuitableConfig(ps, dp.v1, q, limit)
		req = fmt.Sprintf("suitable %s %s %d %d %d", dp.name, px.List(ps), q, la, lb)
		w.Case(class+":suitable", nontrivial, req, px.Bool(s2))
		w.Case(class+":suitable-v1", nontrivial, req, px.Bool(s1))
		if s2 {
			w.Count("suitable:true")
		} else {
			w.Count("suitable:false")
		}
		if (s2 && !nf2) || (s1 && !nf1) {
			w.Fail("C18 suitable but not non-fatal: %s ps=%s q=%d limit=%v", dp.name, px.List(ps), q, limit)
		}
		// monotone in the limit
		if s2 && !utils.IsSuitableConfig(ps, dp.v2, q, limit*2+1) {
			w.Fail("C18 suitable not monotone in limit: %s ps=%s q=%d limit=%v", dp.name, px.List(ps), q, limit)
		}
		if s1 && !p1.IsSuitableConfig(ps, dp.v1, q, limit*2+1) {
			w.Fail("C18 suitable (v1) not monotone in limit: %s ps=%s q=%d : suitable with limit %v, not suitable with limit %v", dp.name, px.List(ps), q, limit, limit*2+1)
		}

		if mx > 0 || class == "exhaustive" || class == "pick-boundary" {
			mn2 := utils.PickUpMinNonFatalQuantity(ps, dp.v2, mx)
			mx2 := utils.PickUpMaxNonFatalQuantity(ps, dp.v2, mx)
			mn1 := p1.PickUpMinNonFatalQuantity(ps, dp.v1, mx)
			mx1 := p1.PickUpMaxNonFatalQuantity(ps, dp.v1, mx)
			w.Case(class+":pick", nontrivial, fmt.Sprintf("pickminnf %s %s %d", dp.name, px.List(ps), mx), fmt.Sprint(mn2))
			w.Case(class+":pick", nontrivial, fmt.Sprintf("pickmaxnf %s %s %d", dp.name, px.List(ps), mx), fmt.Sprint(mx2))
			w.Case(class+":pick-v1", nontrivial, fmt.Sprintf("pickminnf %s %s %d", dp.name, px.List(ps), mx), fmt.Sprint(mn1))
			w.Case(class+":pick-v1", nontrivial, fmt.Sprintf("pickmaxnf %s %s %d", dp.name, px.List(ps), mx), fmt.Sprint(mx1))
			monitorPick(w, "nonfatal "+dp.name, ps, mx, mn2, mx2, func(q uint) bool { return utils.IsNonFatalConfig(ps, dp.v2, q) })
			monitorPick(w, "nonfatal-v1 "+dp.name, ps, mx, mn1, mx1, func(q uint) bool { return p1.IsNonFatalConfig(ps, dp.v1, q) })

			smn2 := utils.PickUpMinSuitableQuantity(ps, dp.v2, mx, limit)
			smx2 := utils.PickUpMaxSuitableQuantity(ps, dp.v2, mx, limit)
			smn1 := p1.PickUpMinSuitableQuantity(ps, dp.v1, mx, limit)
			smx1 := p1.PickUpMaxSuitableQuantity(ps, dp.v1, mx, limit)
			w.Case(class+":pick", nontrivial, fmt.Sprintf("pickmins %s %s %d %d %d", dp.name, px.List(ps), mx, la, lb), fmt.Sprint(smn2))
			w.Case(class+":pick", nontrivial, fmt.Sprintf("pickmaxs %s %s %d %d %d", dp.name, px.List(ps), mx, la, lb), fmt.Sprint(smx2))
			w.Case(class+":pick-v1", nontrivial, fmt.Sprintf("pickmins %s %s %d %d %d", dp.name, px.List(ps), mx, la, lb), fmt.Sprint(smn1))
			w.Case(class+":pick-v1", nontrivial, fmt.Sprintf("pickmaxs %s %s %d %d %d", dp.name, px.List(ps), mx, la, lb), fmt.Sprint(smx1))
			monitorPick(w, "suitable "+dp.name, ps, mx, smn2, smx2, func(q uint) bool { return utils.IsSuitableConfig(ps, dp.v2, q, limit) })
			monitorPick(w, "suitable-v1 "+dp.name, ps, mx, smn1, smx1, func(q uint) bool { return p1.IsSuitableConfig(ps, dp.v1, q, limit) })
		}
	}
}

func monitorPick(w *px.Writer, what string, ps []uint, mx uint, gotMin uint, gotMax uint, pred func(uint) bool) {
	wantMin, wantMax := uint(0), uint(0)
	for q := uint(1); q <= mx; q++ {
		if pred(q) {
			if wantMin == 0 {
				wantMin = q
			}
			wantMax = q
		}
	}
	if gotMin != wantMin || gotMax != wantMax {
		w.Fail("C18 PickUp %s ps=%s max=%d : got min=%d max=%d, by definition min=%d max=%d", what, px.List(ps), mx, gotMin, gotMax, wantMin, wantMax)
	}
}

func hasDup(ps []uint) bool {
	seen := map[uint]bool{}
	for _, p := range ps {
		if seen[p] {
			return true
		}
		seen[p] = true
	}
	return false
}

func caseComb(w *px.Writer, ps []uint) {
	c2 := utils.VerifGenCombinations(append([]uint(nil), ps...))
	c1 := p1.VerifGenCombinations(append([]uint(nil), ps...))
	req := "comb " + px.List(ps)
	w.Case("comb", len(ps) > 1, req, px.Lists(c2))
	w.Case("comb-v1", len(ps) > 1, req, px.Lists(c1))
	// monitor: exactly the non-empty order-preserving subsets, each once
	n := len(ps)
	if n <= 10 && !hasDup(ps) {
		want := map[string]bool{}
		for mask := 1; mask < 1<<n; mask++ {
			var sub []uint
			for i := 0; i < n; i++ {
				if mask&(1<<i) != 0 {
					sub = append(sub, ps[i])
				}
			}
			want[px.List(sub)] = true
		}
		for _, cs := range [][][]uint{c2, c1} {
			got := map[string]bool{}
			for _, c := range cs {
				got[px.List(c)] = true
			}
			if len(cs) != len(want) || len(got) != len(want) {
				w.Fail("C18 genCombinations ps=%s : %d combinations (%d distinct), want %d", px.List(ps), len(cs), len(got), len(want))
				continue
			}
			for k := range want {
				if !got[k] {
					w.Fail("C18 genCombinations ps=%s : subset %s missing", px.List(ps), k)
					break
				}
			}
		}
	}
}

func shuffled(r *rand.Rand, ps []uint) []uint {
	c := append([]uint(nil), ps...)
	r.Shuffle(len(c), func(i, j int) { c[i], c[j] = c[j], c[i] })
	return c
}

func familyC18(w *px.Writer, r *rand.Rand, thorough bool) {
	top, maxLen, maxQ := uint(6), 3, uint(24)
	nFam, nRandom := 150, 400
	if thorough {
		top, maxLen, maxQ = 8, 4, 60
		nFam, nRandom = 1500, 6000
	}

	// (a limit above 100 % is meaningful: a priority can get many times its reference share)
	limits := [][2]uint{{0, 1}, {5, 1}, {25, 2}, {50, 1}, {100, 1}, {33, 4}, {201, 2}, {150, 1}, {1000, 1}, {100000, 1}}

	for n := 0; n <= 6; n++ {
		ps := make([]uint, n)
		for i := range ps {
			ps[i] = uint(n - i)
		}
		caseComb(w, ps)
		caseComb(w, shuffled(r, ps))
	}
	caseComb(w, []uint{70, 20, 10})

	// exhaustive small scope (unsorted presentation: the helpers sort a copy)
	for _, ps := range subsetsDesc(top, maxLen) {
		in := shuffled(r, ps)
		for q := uint(0); q <= maxQ; q++ {
			l := limits[r.Intn(len(limits))]
			mx := uint(0)
			if q == maxQ {
				mx = maxQ + uint(r.Intn(10))
			}
			cls := "exhaustive-nopick"
			if mx > 0 {
				cls = "exhaustive"
			}
			caseUtils(w, cls, in, q, mx, l[0], l[1])
		}
	}
	caseUtils(w, "empty", nil, 3, 5, 10, 1)

	// repeated priority values (the helpers take a slice): fewer handlers than entries can still
	// give every member of every subset a unit
	for _, ps := range [][]uint{{2, 2}, {3, 3, 1}, {5, 2, 2}, {4, 4, 4}, {7, 7, 3, 3}} {
		for q := uint(0); q <= 6; q++ {
			l := limits[int(q)%len(limits)]
			caseUtils(w, "repeated", ps, q, q+3, l[0], l[1])
		}
	}

	// boundary maxima for the PickUp functions: max just below / at / just above the
	// true least (and greatest) satisfying quantity, found by scanning the definition
	for i, ps := range subsetsDesc(top, maxLen) {
		for _, dp := range divPairs {
			l := limits[(i+1)%len(limits)]
			limit := float64(l[0]) / float64(l[1])
			preds := []func(uint) bool{
				func(q uint) bool { return definitionNonFatal(ps, dp.v2, q) },
				func(q uint) bool { return utils.IsSuitableConfig(ps, dp.v2, q, limit) },
			}
			for _, pred := range preds {
				for q := uint(1); q <= 80; q++ {
					if pred(q) {
						for _, mx := range []uint{q - 1, q, q + 1} {
							caseUtils(w, "pick-boundary", shuffled(r, ps), q, mx, l[0], l[1])
						}
						break
					}
				}
			}
		}
	}

	// near-equal large priorities (Rate truncation, defect D2 family)
	for n := 0; n < nFam; n++ {
		k := 2 + r.Intn(5)
		base := uint(px.LogUniform(r, 1<<14)) + 30
		ps := make([]uint, k)
		for i := range ps {
			ps[i] = base + uint(k-1-i)
		}
		q := uint(k) + uint(r.Intn(5*k))
		l := limits[r.Intn(len(limits))]
		mx := uint(0)
		if n%10 == 0 {
			mx = uint(6*k) + uint(r.Intn(10))
		}
		caseUtils(w, "near-equal", shuffled(r, ps), q, mx, l[0], l[1])
	}
	// the recorded witness of D2
	caseUtils(w, "d2-witness", []uint{1008, 1007, 1006, 1005, 1004, 1003, 1002, 1001, 1000}, 23, 0, 10, 1)

	// random
	for n := 0; n < nRandom; n++ {
		ps := randPrios(r, 1+r.Intn(5), 1<<uint(1+r.Intn(10)))
		q := uint(r.Intn(300))
		l := limits[r.Intn(len(limits))]
		mx := uint(0)
		if n%20 == 0 {
			mx = uint(r.Intn(120))
		}
		caseUtils(w, "random", shuffled(r, ps), q, mx, l[0], l[1])
	}
}
