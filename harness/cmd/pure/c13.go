package main

import (
	"errors"
	"fmt"
	"math"
	"math/big"
	"math/rand"
	"sync"
	"time"

	"verifharness/internal/px"

	"github.com/akramarenkov/cqos/v2/limit"
)

func rateErrName(err error) string {
	switch {
	case err == nil:
		return "ok"
	case errors.Is(err, limit.ErrIntervalNegative):
		return "interval-negative"
	case errors.Is(err, limit.ErrIntervalZero):
		return "interval-zero"
	case errors.Is(err, limit.ErrQuantityZero):
		return "quantity-zero"
	case errors.Is(err, limit.ErrMinimumIntervalNegative):
		return "minimum-negative"
	case errors.Is(err, limit.ErrConvertedIntervalZero):
		return "converted-interval-zero"
	case errors.Is(err, limit.ErrConvertedQuantityUnrepresentable):
		return "quantity-unrepresentable"
	default:
		return "other:" + err.Error()
	}
}

func showRate(rt limit.Rate, err error) string {
	if err != nil {
		return fmt.Sprintf("err %s %d %d", rateErrName(err), int64(rt.Interval), rt.Quantity)
	}
	return fmt.Sprintf("ok %d %d", int64(rt.Interval), rt.Quantity)
}

// monitorC13 is property C13 evaluated on the implementation's answer.
func monitorC13(w *px.Writer, op string, i int64, q uint64, m int64, got limit.Rate, err error) {
	bi := big.NewInt(i)
	bq := new(big.Int).SetUint64(q)
	bm := big.NewInt(m)

	fail := func(what string) {
		w.Fail("C13 %s I=%d Q=%d min=%d -> %s : %s", op, i, q, m, showRate(got, err), what)
	}

	validIn := i > 0 && q > 0
	// the conditions under which an error is allowed
	var expectErr bool
	switch {
	case !validIn, m < 0:
		expectErr = true
	default:
		interval := new(big.Int).Quo(bi, bq) // floor(I/Q)
		cmp := interval.Cmp(bm)
		if cmp > 0 || (cmp == 0 && interval.Sign() != 0) {
			expectErr = false
		} else if m == 0 {
			expectErr = true // converted interval is zero
		} else {
			quo := new(big.Int).Quo(new(big.Int).Mul(bq, bm), bi)
			expectErr = !quo.IsUint64()
		}
	}

	if err != nil {
		if got != (limit.Rate{}) {
			fail("error returned together with a non-zero Rate")
		}
		if !expectErr {
			fail("error although a valid equivalent rate exists")
		}
		return
	}

	if expectErr {
		fail("no error although one is required")
		return
	}

	if got.IsValid() != nil {
		fail("returned rate is not valid")
		return
	}
	if int64(got.Interval) < m {
		fail("Interval < minimum")
	}
	if got.Quantity != 1 && int64(got.Interval) != m {
		fail("Quantity != 1 although Interval != minimum")
	}

	gi := big.NewInt(int64(got.Interval))
	gq := new(big.Int).SetUint64(got.Quantity)
	one := big.NewInt(1)

	// speed comparison: new = gq/gi, old = bq/bi.
	// (a) not faster by a nanosecond of interval or more:  gq/(gi+1) < bq/bi
	lhs := new(big.Int).Mul(gq, bi)
	rhs := new(big.Int).Mul(bq, new(big.Int).Add(gi, one))
	if lhs.Cmp(rhs) >= 0 {
		fail("faster than the original by a nanosecond of interval or more")
	}
	// (b) not slower by an element per interval or more:  (gq+1)/gi > bq/bi
	lhs = new(big.Int).Mul(new(big.Int).Add(gq, one), bi)
	rhs = new(big.Int).Mul(bq, gi)
	if lhs.Cmp(rhs) <= 0 {
		fail("slower than the original by an element per interval or more")
	}
}

func caseRecalc(w *px.Writer, class string, i int64, q uint64, m int64) {
	rt := limit.Rate{Interval: time.Duration(i), Quantity: q}
	got, err := rt.Recalculate(time.Duration(m))
	nontrivial := i > 0 && q > 0 && m >= 0
	w.Case(class, nontrivial, fmt.Sprintf("recalc %d %d %d", i, q, m), showRate(got, err))
	monitorC13(w, "recalc", i, q, m, got, err)
	if err == nil {
		if got.Quantity == 1 {
			w.Count("branch:interval")
		} else {
			w.Count("branch:quantity")
		}
	} else {
		w.Count("branch:err-" + rateErrName(err))
	}
}

func caseOptFlat(w *px.Writer, class string, i int64, q uint64) {
	rt := limit.Rate{Interval: time.Duration(i), Quantity: q}
	got, err := rt.Optimize()
	w.Case(class, i > 0 && q > 0, fmt.Sprintf("optimize %d %d", i, q), showRate(got, err))
	monitorC13(w, "optimize", i, q, int64(limit.OptimizationInterval), got, err)
	got, err = rt.Flatten()
	w.Case(class, i > 0 && q > 0, fmt.Sprintf("flatten %d %d", i, q), showRate(got, err))
	monitorC13(w, "flatten", i, q, 0, got, err)
	verr := rt.IsValid()
	w.Case(class, false, fmt.Sprintf("isvalid %d %d", i, q), map[bool]string{true: "ok", false: "err " + rateErrName(verr)}[verr == nil])
}

func familyC13(w *px.Writer, r *rand.Rand, thorough bool) {
	maxI, maxQ, maxM := int64(64), uint64(64), int64(24)
	nBoundary, nRandom := 6000, 40000
	if thorough {
		maxI, maxQ, maxM = 200, 160, 48
		nBoundary, nRandom = 150000, 1500000
	}

	// exhaustive small scope
	for i := int64(1); i <= maxI; i++ {
		for q := uint64(1); q <= maxQ; q++ {
			for m := int64(0); m <= maxM; m++ {
				caseRecalc(w, "exhaustive", i, q, m)
			}
		}
	}

	// invalid inputs
	for _, i := range []int64{math.MinInt64, -5, -1, 0, 1, 7} {
		for _, q := range []uint64{0, 1, 3, math.MaxUint64} {
			for _, m := range []int64{math.MinInt64, -1, 0, 1, 5} {
				caseRecalc(w, "invalid-mix", i, q, m)
			}
			caseOptFlat(w, "optflat-invalid", i, q)
		}
	}

	// boundary family: I = Q*min + r around the branch condition floor(I/Q) ? min
	for n := 0; n < nBoundary; n++ {
		q := px.LogUniform(r, 1<<40)
		m := int64(px.LogUniform(r, 1<<22))
		if n%5 == 0 {
			m = int64(limit.OptimizationInterval)
		}
		base := new(big.Int).Mul(new(big.Int).SetUint64(q), big.NewInt(m))
		deltas := []int64{-2, -1, 0, 1, 2, int64(q) - 1, int64(q), int64(q) + 1, int64(q) + 2,
			int64(r.Int63n(int64(q) + 1)), -int64(r.Int63n(int64(q) + 1))}
		for _, d := range deltas {
			iv := new(big.Int).Add(base, big.NewInt(d))
			if !iv.IsInt64() || iv.Sign() <= 0 {
				continue
			}
			caseRecalc(w, "boundary-I=Q*min+r", iv.Int64(), q, m)
			if m == int64(limit.OptimizationInterval) {
				caseOptFlat(w, "optflat-boundary", iv.Int64(), q)
			}
		}
	}

	// 64-bit edges: interval at MaxInt64, quantity at MaxUint64, quotient around 2^64
	edgesI := []int64{1, 2, 3, math.MaxInt64, math.MaxInt64 - 1, 1 << 62, 1<<32 + 1}
	edgesQ := []uint64{1, 2, math.MaxUint64, math.MaxUint64 - 1, 1 << 63, 1<<63 + 1, 1 << 32}
	edgesM := []int64{0, 1, 2, math.MaxInt64, math.MaxInt64 - 1, 1 << 62, int64(limit.OptimizationInterval)}
	for _, i := range edgesI {
		for _, q := range edgesQ {
			for _, m := range edgesM {
				caseRecalc(w, "edges-64bit", i, q, m)
			}
			caseOptFlat(w, "optflat-edges", i, q)
		}
	}
	// quotient Q*min/I close to 2^64: pick I, min, then Q = (2^64*I)/min + delta
	two64 := new(big.Int).Lsh(big.NewInt(1), 64)
	for n := 0; n < nBoundary/4; n++ {
		i := int64(px.LogUniform(r, 1<<30))
		m := int64(px.LogUniform(r, 1<<40)) + i
		qb := new(big.Int).Quo(new(big.Int).Mul(two64, big.NewInt(i)), big.NewInt(m))
		for d := int64(-2); d <= 2; d++ {
			qq := new(big.Int).Add(qb, big.NewInt(d))
			if !qq.IsUint64() || qq.Sign() <= 0 {
				continue
			}
			caseRecalc(w, "edge-quotient-2^64", i, qq.Uint64(), m)
		}
	}

	// random wide
	for n := 0; n < nRandom; n++ {
		i := int64(px.LogUniform(r, math.MaxInt64))
		q := px.LogUniform(r, math.MaxUint64)
		var m int64
		switch r.Intn(4) {
		case 0:
			m = 0
		case 1:
			m = int64(limit.OptimizationInterval)
		default:
			m = int64(px.LogUniform(r, math.MaxInt64))
		}
		caseRecalc(w, "random", i, q, m)
		if n%8 == 0 {
			caseOptFlat(w, "optflat-random", i, q)
		}
	}
	concurrentC13(w, r)
}

// concurrentC13: Recalculate / Optimize are methods on values - calls from several goroutines
// at once must each return what the same call returns alone (C13 for every call; a shared
// scratch variable inside the package would also be a data race, C20)
func concurrentC13(w *px.Writer, r *rand.Rand) {
	type cs struct {
		i    int64
		q    uint64
		m    int64
		want string
	}
	var cases []cs
	for len(cases) < 48 {
		q := px.LogUniform(r, 1<<40) + 2
		m := int64(px.LogUniform(r, 1<<22)) + 1
		i := int64(px.LogUniform(r, 1<<40)) + 1
		if len(cases)%3 == 0 {
			m = int64(limit.OptimizationInterval)
		}
		got, err := limit.Rate{Interval: time.Duration(i), Quantity: q}.Recalculate(time.Duration(m))
		cases = append(cases, cs{i, q, m, showRate(got, err)})
	}
	var mu sync.Mutex
	bad := map[string]string{}
	var wg sync.WaitGroup
	for g := 0; g < 8; g++ {
		wg.Add(1)
		go func(g int) {
			defer wg.Done()
			for k := 0; k < 400; k++ {
				c := cases[(k*7+g*5)%len(cases)]
				func() {
					defer func() {
						if p := recover(); p != nil {
							mu.Lock()
							bad[fmt.Sprintf("recalc %d %d %d", c.i, c.q, c.m)] = fmt.Sprintf("panic: %v", p)
							mu.Unlock()
						}
					}()
					got, err := limit.Rate{Interval: time.Duration(c.i), Quantity: c.q}.Recalculate(time.Duration(c.m))
					if s := showRate(got, err); s != c.want {
						mu.Lock()
						bad[fmt.Sprintf("recalc %d %d %d", c.i, c.q, c.m)] = s + " (alone: " + c.want + ")"
						mu.Unlock()
					}
				}()
			}
		}(g)
	}
	wg.Wait()
	n := 0
	for k, v := range bad {
		if n++; n > 5 {
			break
		}
		w.Fail("C13 concurrent: %s called from 8 goroutines at once returned %s [replay: %s]", k, v, k)
	}
	w.Count("concurrent-calls")
}
