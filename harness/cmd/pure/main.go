// Command pure: correspondence class A — the real pure functions of cqos are run on
// generated inputs; every case becomes one request line for the Lean driver and one
// reply line with the implementation's answer.  The property's own predicate (written
// from the property text, independent of the Lean model) is evaluated on the
// implementation's answers as the failing-input search ("monitor").
//
// usage: pure -family c13|c14|c18|c10 -tier quick|thorough -out DIR   (VERIF_SEED)
package main

import (
	"flag"
	"fmt"
	"math/rand"
	"os"

	"verifharness/internal/px"
)

func main() {
	family := flag.String("family", "", "c13|c14|c18|c10")
	tier := flag.String("tier", "quick", "quick|thorough")
	out := flag.String("out", "", "output directory")
	replay := flag.String("replay", "", "file with request lines to re-run instead of generating")
	flag.Parse()

	if *out == "" {
		fmt.Fprintln(os.Stderr, "missing -out")
		os.Exit(2)
	}

	w := px.NewWriter(*out)
	r := rand.New(rand.NewSource(px.Seed()))
	thorough := *tier == "thorough"

	if *replay != "" {
		execFile(w, *replay)
		w.Close(map[string]any{"family": "replay", "tier": *tier, "seed": px.Seed()})
		return
	}

	switch *family {
	case "c13":
		familyC13(w, r, thorough)
	case "c14":
		familyC14(w, r, thorough)
	case "c18":
		familyC18(w, r, thorough)
	case "c10":
		familyC10(w, r, thorough)
	default:
		fmt.Fprintln(os.Stderr, "unknown family")
		os.Exit(2)
	}

	w.Close(map[string]any{"family": *family, "tier": *tier, "seed": px.Seed()})
}
