package main

import (
	"errors"
	"fmt"
	"math"
	"math/rand"
	"time"

	"verifharness/internal/px"

	j1 "github.com/akramarenkov/cqos/join"
	j2 "github.com/akramarenkov/cqos/v2/join"
	"github.com/akramarenkov/cqos/v2/join/unite"
)

func ciiName(err error) string {
	switch {
	case errors.Is(err, j2.ErrTimeoutInaccuracyZero), errors.Is(err, unite.ErrTimeoutInaccuracyZero), errors.Is(err, j1.ErrTimeoutInaccuracyZero):
		return "inaccuracy-zero"
	case errors.Is(err, j2.ErrTimeoutInaccuracyTooBig), errors.Is(err, unite.ErrTimeoutInaccuracyTooBig), errors.Is(err, j1.ErrTimeoutInaccuracyTooBig):
		return "inaccuracy-too-big"
	case errors.Is(err, j2.ErrTimeoutTooSmall), errors.Is(err, unite.ErrTimeoutTooSmall), errors.Is(err, j1.ErrTimeoutTooSmall):
		return "timeout-too-small"
	default:
		return "other:" + err.Error()
	}
}

func showCii(d time.Duration, err error) string {
	if err != nil {
		return "err " + ciiName(err)
	}
	return fmt.Sprintf("ok %d", int64(d))
}

// monitor: the part of C10 that is about the interrupt interval: a positive timeout
// with an accepted inaccuracy yields 1 <= interval, interval*floor(100/inacc) <= timeout.
func monitorCii(w *px.Writer, ver string, t int64, a uint, d time.Duration, err error) {
	if err != nil || t <= 0 {
		if err == nil && d != 0 {
			w.Fail("C10 cii%s timeout=%d inacc=%d -> %d: non-positive timeout must disable the ticker", ver, t, a, d)
		}
		return
	}
	if a == 0 || a > 100 {
		w.Fail("C10 cii%s timeout=%d inacc=%d accepted", ver, t, a)
		return
	}
	div := int64(100 / a)
	if d < 1 || int64(d) != t/div {
		w.Fail("C10 cii%s timeout=%d inacc=%d -> %d: not floor(timeout/floor(100/inacc))", ver, t, a, d)
	}
	if ver == "1" && d < 10*time.Millisecond {
		w.Fail("C10 cii1 timeout=%d inacc=%d -> %d below the reliably measurable duration", t, a, d)
	}
}

func caseCii(w *px.Writer, class string, t int64, a uint) {
	d, err := j2.VerifCalcInterruptInterval(time.Duration(t), a)
	w.Case(class+":join2", t > 0, fmt.Sprintf("cii2 %d %d", t, a), showCii(d, err))
	monitorCii(w, "2", t, a, d, err)
	d, err = unite.VerifCalcInterruptInterval(time.Duration(t), a)
	w.Case(class+":unite2", t > 0, fmt.Sprintf("cii2 %d %d", t, a), showCii(d, err))
	monitorCii(w, "2", t, a, d, err)
	d, err = j1.VerifCalcInterruptInterval(time.Duration(t), a)
	w.Case(class+":join1", t > 0, fmt.Sprintf("cii1 %d %d", t, a), showCii(d, err))
	monitorCii(w, "1", t, a, d, err)
}

func familyC10(w *px.Writer, r *rand.Rand, thorough bool) {
	timeouts := []int64{math.MinInt64, -1, 0, 1, 2, 3, 4, 5, 99, 100, 101, 9999999, 10000000, 10000001,
		39999999, 40000000, 40000001, 999999999, 1000000000, math.MaxInt64, math.MaxInt64 - 1}
	for a := uint(0); a <= 300; a++ {
		for _, t := range timeouts {
			caseCii(w, "grid", t, a)
		}
	}
	n := 20000
	if thorough {
		n = 400000
	}
	for i := 0; i < n; i++ {
		a := uint(r.Intn(130))
		t := int64(px.LogUniform(r, math.MaxInt64))
		if r.Intn(3) == 0 {
			// around multiples of the divider times 10ms
			div := int64(1)
			if a > 0 && a <= 100 {
				div = int64(100 / a)
			}
			t = div*10000000*int64(1+r.Intn(3)) + int64(r.Intn(5)) - 2
		}
		caseCii(w, "random", t, a)
	}
}
