package main

import (
	"bufio"
	"os"
	"strconv"
	"strings"

	"verifharness/internal/px"
)

// Replay: every request line of a replay file is parsed and handed to the same case
// function that generated it, which re-runs the real code, re-emits the request and
// the reply and re-evaluates the monitor.

func parseList(s string) []uint {
	if s == "-" {
		return nil
	}
	var l []uint
	for _, f := range strings.Split(s, ",") {
		v, _ := strconv.ParseUint(f, 10, 64)
		l = append(l, uint(v))
	}
	return l
}

func parseMap(s string) map[uint]uint {
	if s == "nil" {
		return nil
	}
	m := map[uint]uint{}
	if s == "-" {
		return m
	}
	for _, f := range strings.Split(s, ",") {
		kv := strings.Split(f, ":")
		k, _ := strconv.ParseUint(kv[0], 10, 64)
		v, _ := strconv.ParseUint(kv[1], 10, 64)
		m[uint(k)] = uint(v)
	}
	return m
}

func pi(s string) int64  { v, _ := strconv.ParseInt(s, 10, 64); return v }
func pu(s string) uint64 { v, _ := strconv.ParseUint(s, 10, 64); return v }

func execFile(w *px.Writer, path string) {
	f, err := os.Open(path)
	if err != nil {
		panic(err)
	}
	defer f.Close()
	sc := bufio.NewScanner(f)
	sc.Buffer(make([]byte, 1<<20), 1<<24)
	for sc.Scan() {
		t := strings.Fields(sc.Text())
		if len(t) == 0 {
			continue
		}
		switch {
		case t[0] == "recalc" && len(t) == 4:
			caseRecalc(w, "replay", pi(t[1]), pu(t[2]), pi(t[3]))
		case (t[0] == "optimize" || t[0] == "flatten" || t[0] == "isvalid") && len(t) == 3:
			caseOptFlat(w, "replay", pi(t[1]), pu(t[2]))
		case (t[0] == "fair2" || t[0] == "rate2" || t[0] == "fair1" || t[0] == "rate1") && len(t) == 4:
			caseDivider(w, "replay", parseList(t[1]), uint(pu(t[2])), parseMap(t[3]))
		case t[0] == "comb" && len(t) == 2:
			caseComb(w, parseList(t[1]))
		case (t[0] == "nonfatal" || t[0] == "prepare") && len(t) == 4:
			caseUtils(w, "replay", parseList(t[2]), uint(pu(t[3])), 0, 10, 1)
		case t[0] == "suitable" && len(t) == 6:
			caseUtils(w, "replay", parseList(t[2]), uint(pu(t[3])), 0, uint(pu(t[4])), uint(pu(t[5])))
		case (t[0] == "pickminnf" || t[0] == "pickmaxnf") && len(t) == 4:
			caseUtils(w, "replay", parseList(t[2]), 1, uint(pu(t[3])), 10, 1)
		case (t[0] == "pickmins" || t[0] == "pickmaxs") && len(t) == 6:
			caseUtils(w, "replay", parseList(t[2]), 1, uint(pu(t[3])), uint(pu(t[4])), uint(pu(t[5])))
		case (t[0] == "cii1" || t[0] == "cii2") && len(t) == 3:
			caseCii(w, "replay", pi(t[1]), uint(pu(t[2])))
		default:
			w.Fail("replay: unknown request %q", sc.Text())
		}
	}
}
