// Command lstepper: white-box stepper for the limit discipline.  The real `pass` and
// `delay` are called through the verif hook on generated scripts (input pre-filled by the
// harness so that `pass` cannot block); replies are compared with the Lean machine.
// Monitors: C12 (order / loss / closure), C04 (a batch forwards at most Quantity; `delay`
// never returns early).
package main

import (
	"bufio"
	"flag"
	"fmt"
	"math"
	"math/rand"
	"os"
	"strconv"
	"strings"
	"time"

	"verifharness/internal/px"

	"github.com/akramarenkov/cqos/v2/limit"
)

type lsession struct {
	w        *px.Writer
	q        uint64
	interval time.Duration
	in       chan int
	stp      *limit.VerifStepper[int]
	fed      []int
	got      []int
	closed   bool
	done     bool
	slept    int
	script   []string
}

func (s *lsession) fail(format string, args ...any) {
	s.w.Fail("%s [replay: %s]", fmt.Sprintf(format, args...), strings.Join(s.script, " ;; "))
}

func newLSession(w *px.Writer, q uint64, interval time.Duration, capacity int) (*lsession, string) {
	s := &lsession{w: w, q: q, interval: interval, in: make(chan int, capacity)}
	s.script = []string{fmt.Sprintf("lcfg %d %d", q, int64(interval))}
	stp, err := limit.VerifNewStepper(limit.Opts[int]{Input: s.in, Limit: limit.Rate{Interval: interval, Quantity: q}})
	if err != nil {
		return nil, "err " + err.Error()
	}
	s.stp = stp
	return s, "ok"
}

func ints(l []int) string {
	if len(l) == 0 {
		return "-"
	}
	t := make([]string, len(l))
	for i, v := range l {
		t[i] = strconv.Itoa(v)
	}
	return strings.Join(t, ",")
}

func (s *lsession) exec(op string) (rep string) {
	s.script = append(s.script, op)
	t := strings.Fields(op)
	switch t[0] {
	case "feed":
		if s.closed {
			return "bad-op"
		}
		for _, f := range strings.Split(t[1], ",") {
			v, _ := strconv.Atoi(f)
			if len(s.in) == cap(s.in) {
				return "bad-op"
			}
			s.in <- v
			s.fed = append(s.fed, v)
		}
		return "ok"
	case "closein":
		if !s.closed {
			close(s.in)
		}
		s.closed = true
		return "ok"
	case "pass", "transferlate":
		if s.done {
			return "bad-op"
		}
		late := t[0] == "transferlate"
		const lateBy = 2 * time.Millisecond
		lateV := 0
		if late {
			if s.closed || s.q < 2 || uint64(len(s.in)) != s.q-1 {
				return "bad-op"
			}
			lateV, _ = strconv.Atoi(t[1])
		} else if uint64(len(s.in)) < s.q && !s.closed {
			return "blocked"
		}
		var stop bool
		var fwd []int
		fin := make(chan struct{})
		if late {
			// `transfer()` is started while the last element of the portion is still missing;
			// once the discipline has taken what was there (so it is inside the portion, past
			// its clock reading) the element is withheld for `lateBy` more
			var dur time.Duration
			callStart := time.Now()
			go func() { dur, stop = s.stp.Transfer(); close(fin) }()
			for deadline := time.Now().Add(5 * time.Second); len(s.in) > 0 && time.Now().Before(deadline); {
				time.Sleep(50 * time.Microsecond)
			}
			time.Sleep(lateBy)
			s.in <- lateV
			s.fed = append(s.fed, lateV)
			defer func() {
				if el := time.Since(callStart); rep != "hang" && dur > el+time.Millisecond {
					s.fail("C04 transfer() reports %v for a portion that took at most %v: the pause that follows is shortened (or skipped) and the rate exceeded", dur, el)
				}
				if rep != "hang" && dur < lateBy {
					s.fail("C12 transfer() reports %v for a portion whose last element arrived more than %v after the portion had started: the pause that follows, Interval - %v, makes the portion longer than Interval although nothing else held it up", dur, lateBy, dur)
				}
			}()
		} else {
			go func() { stop = s.stp.Pass(); close(fin) }()
		}
		out := s.stp.Discipline().Output()
	loop:
		for {
			select {
			case v := <-out:
				fwd = append(fwd, v)
			case <-fin:
				for more := true; more; {
					select {
					case v := <-out:
						fwd = append(fwd, v)
					default:
						more = false
					}
				}
				break loop
			case <-time.After(20 * time.Second):
				return "hang"
			}
		}
		s.got = append(s.got, fwd...)
		if uint64(len(fwd)) > s.q {
			s.fail("C04 one batch forwarded %d elements > Quantity %d", len(fwd), s.q)
		}
		for i, v := range s.got {
			if i >= len(s.fed) || s.fed[i] != v {
				s.fail("C12 output %v is not a prefix of the input %v", s.got, s.fed)
				break
			}
		}
		st := "stop=0"
		if stop {
			st = "stop=1"
			s.done = true
			if len(s.got) != len(s.fed) {
				s.fail("C12 the discipline stops after forwarding %d of %d elements", len(s.got), len(s.fed))
			}
		} else {
			s.slept++
			if uint64(len(fwd)) != s.q {
				s.fail("C12 a batch of %d elements (Quantity %d) ended without the input being closed", len(fwd), s.q)
			}
		}
		return fmt.Sprintf("%s fwd=%s slept=%d", st, ints(fwd), s.slept)
	case "delay":
		d, _ := strconv.ParseInt(t[1], 10, 64)
		begin := time.Now()
		s.stp.Delay(time.Duration(d))
		elapsed := time.Since(begin)
		if elapsed < s.interval-time.Duration(d) {
			s.fail("C04 delay(%d) returned after %v, earlier than Interval - duration = %v", d, elapsed, s.interval-time.Duration(d))
			return "early"
		}
		if time.Duration(d) >= s.interval && elapsed > 50*time.Millisecond && elapsed > s.interval/4 {
			s.fail("C12 delay(%d) with duration >= Interval slept %v", d, elapsed)
		}
		return "ok"
	}
	return "bad-op"
}

// bigPortion: a portion that takes a measurable time although nothing holds it up - a large
// Quantity, every element waiting in the input buffer, room for all of them in the output
// buffer.  What transfer() reports is what delay() subtracts from Interval: if it reports much
// less than the portion took, every cycle lasts Interval plus the unreported part and N elements
// available up-front take noticeably longer than ceil(N/Quantity) Intervals (C12).  (The upper
// side - reporting more than the portion took - is the C04 monitor of `transferlate`.)
func bigPortion(w *px.Writer, q uint64) {
	in := make(chan int, q)
	stp, err := limit.VerifNewStepper(limit.Opts[int]{Input: in, Limit: limit.Rate{Interval: time.Hour, Quantity: q}})
	line := fmt.Sprintf("note bigportion %d", q)
	if err != nil {
		w.Case("limit", true, line, "ok")
		return
	}
	out := stp.Discipline().Output()
	violations, measured := 0, 0
	var worstDur, worstEl time.Duration
	for attempt := 0; attempt < 6 && measured < 3; attempt++ {
		for i := 0; i < int(q); i++ {
			in <- i
		}
		begin := time.Now()
		dur, _ := stp.Transfer()
		el := time.Since(begin)
		for len(out) > 0 {
			<-out
		}
		if el < 3*time.Millisecond {
			continue // too fast a machine for this quantity to tell anything
		}
		measured++
		if dur < el/2 {
			violations++
			worstDur, worstEl = dur, el
		}
	}
	if measured == 3 && violations == 3 {
		w.Fail("C12 transfer() reports %v for a portion of %d elements that took %v with nothing holding it up (all elements waiting in the input buffer, room for all of them in the output buffer), three times out of three: the pause that follows, Interval - %v, makes every cycle longer than Interval and the discipline throttles below the configured rate [replay: note bigportion %d]", worstDur, q, worstEl, worstDur, q)
	}
	w.Case("limit", true, line, "ok")
}

func main() {
	tier := flag.String("tier", "quick", "")
	out := flag.String("out", "", "")
	replay := flag.String("replay", "", "")
	family := flag.String("family", "mixed", "")
	n := flag.Int("n", 0, "")
	flag.Parse()
	_ = family
	if *out == "" {
		fmt.Fprintln(os.Stderr, "missing -out")
		os.Exit(2)
	}
	w := px.NewWriter(*out)
	r := rand.New(rand.NewSource(px.Seed()))
	if *replay != "" {
		f, err := os.Open(*replay)
		if err != nil {
			panic(err)
		}
		sc := bufio.NewScanner(f)
		var s *lsession
		for sc.Scan() {
			line := strings.TrimSpace(sc.Text())
			if line == "" {
				continue
			}
			t := strings.Fields(line)
			if t[0] == "lcfg" && len(t) == 3 {
				q, _ := strconv.ParseUint(t[1], 10, 64)
				i, _ := strconv.ParseInt(t[2], 10, 64)
				var rep string
				s, rep = newLSession(w, q, time.Duration(i), 4096)
				w.Case("replay", true, line, rep)
				continue
			}
			if s == nil {
				w.Case("replay", true, line, "bad-op")
				continue
			}
			w.Case("replay", true, line, s.exec(line))
		}
		w.Close(map[string]any{"family": "replay"})
		return
	}
	count := *n
	if count == 0 {
		count = 300
		if *tier == "thorough" {
			count = 6000
		}
	}
	bigPortion(w, 400000)
	if *tier == "thorough" {
		bigPortion(w, 1500000)
	}
	next := 0
	for i := 0; i < count; i++ {
		q := uint64(1 + r.Intn(6))
		if r.Intn(6) == 0 {
			q = uint64(20 + r.Intn(80))
		}
		huge := i%15 == 7
		if huge {
			// "unlimited": quantities around and above MaxInt64 are valid rates
			q = []uint64{math.MaxUint64, math.MaxInt64 + 1, math.MaxInt64, 1 << 40}[r.Intn(4)]
		}
		interval := time.Duration(200+r.Intn(1800)) * time.Microsecond
		long := i%10 == 0
		if long {
			// a long interval: only "the transfer took at least Interval" probes are made, which
			// must not sleep at all
			interval = 400 * time.Millisecond
		}
		s, rep := newLSession(w, q, interval, 4096)
		cls := "limit"
		w.Case(cls, true, s.script[0], rep)
		do := func(op string) string { rep := s.exec(op); w.Case(cls, true, op, rep); return rep }
		rounds := 1 + r.Intn(6)
		for k := 0; k < rounds && !s.done; k++ {
			if !huge && !s.closed && q >= 2 && r.Intn(4) == 0 {
				// a portion whose last element arrives late
				var xs []string
				for j := len(s.in); j < int(q)-1; j++ {
					next++
					xs = append(xs, strconv.Itoa(next))
				}
				if len(xs) > 0 {
					do("feed " + strings.Join(xs, ","))
				}
				next++
				do(fmt.Sprintf("transferlate %d", next))
			}
			// element counts: 0, < Q, = Q, multiples, random
			var cnt int
			if huge {
				cnt = r.Intn(6)
			} else {
				cnt = []int{0, int(q) - 1, int(q), int(q) + 1, 2 * int(q), r.Intn(3*int(q) + 1)}[r.Intn(6)]
			}
			if cnt > 0 {
				var xs []string
				for j := 0; j < cnt; j++ {
					next++
					xs = append(xs, strconv.Itoa(next))
				}
				do("feed " + strings.Join(xs, ","))
			}
			if k == rounds-1 || r.Intn(4) == 0 {
				do("closein")
			}
			// (a discipline that forwards nothing would keep this loop going for ever)
			for budget := 4 + 2*len(s.in); !s.done; budget-- {
				if budget == 0 {
					s.fail("C12 %d pass() calls in a row did not forward what the input holds (%d elements, Quantity %d)", 4+2*len(s.in), len(s.in), q)
					s.done = true
					break
				}
				rep := do("pass")
				if rep == "blocked" || rep == "hang" {
					break
				}
				if strings.HasPrefix(rep, "stop=0") && r.Intn(3) == 0 {
					// transfer took d: the discipline sleeps Interval - d
					d := []int64{0, int64(interval) / 2, int64(interval), 2 * int64(interval)}[r.Intn(4)]
					if long {
						// (and a transfer that took most of a long interval: a short pause remains)
						d = []int64{int64(interval), int64(interval) + 1, 2 * int64(interval), 3*int64(interval) + 7, int64(interval) - int64(30*time.Millisecond)}[r.Intn(5)]
					}
					do(fmt.Sprintf("delay %d", d))
				}
			}
		}
	}
	w.Close(map[string]any{"family": "mixed", "tier": *tier, "seed": px.Seed(), "scripts": count})
}
