package main

import (
	"fmt"
	"strconv"
	"strings"
)

// exec executes one stepper operation against the real discipline and returns the
// reply line.  The operation is appended to the session's script (for replay).
func (s *session) exec(op string) string {
	s.script = append(s.script, op)
	t := strings.Fields(op)
	s.curOp = t[0]
	u := func(i int) uint { v, _ := strconv.ParseUint(t[i], 10, 64); return uint(v) }

	switch t[0] {
	case "arrive":
		c, x := u(1), int(u(2))
		ch := s.chans[c]
		if ch == nil || len(ch) >= cap(ch) {
			return "bad-op"
		}
		ch <- x
		s.arrived[c] = append(s.arrived[c], x)
		return "ok " + s.snapshot()
	case "close":
		ch := s.chans[u(1)]
		if ch == nil {
			return "bad-op"
		}
		close(ch)
		return "ok " + s.snapshot()
	case "release":
		p := u(1)
		if s.inflight[p] == 0 {
			return "bad-op"
		}
		s.inflight[p]--
		s.pending = append(s.pending, p)
		return "ok " + s.snapshot()
	case "stop":
		if s.v1 == nil {
			return "bad-op"
		}
		if len(t) > 1 && t[1] == "ctx" {
			s.cancel()
		} else {
			s.v1.BreakNoWait()
		}
		s.stopped = true
		return "ok " + s.snapshot()
	case "graceful":
		if s.v1 == nil {
			return "bad-op"
		}
		s.v1.GracefulNoWait()
		return "ok " + s.snapshot()
	case "top":
		if s.v1 == nil {
			return "bad-op"
		}
		switch t[1] {
		case "none":
		case "stop":
			// `return nil` of the loop-top select: nothing to execute here
			return "ok " + s.snapshot()
		case "fb":
			if len(s.pending) == 0 {
				return "bad-op"
			}
			s.v1.DecreaseActual(s.pending[0])
			s.pending = s.pending[1:]
		case "add":
			p, c, capacity := u(2), u(3), int(u(4))
			ch := s.chans[c]
			if ch == nil {
				ch = make(chan int, capacity)
				s.chans[c] = ch
			}
			for oc, op := range s.chanPri {
				if op == p && oc != c {
					delete(s.chanPri, oc)
				}
			}
			s.chanPri[c] = p
			s.config[p] = true
			s.v1.AddInput(ch, p)
		case "remove":
			p := u(2)
			for oc, op := range s.chanPri {
				if op == p {
					delete(s.chanPri, oc)
				}
			}
			// from now on p is not a configured priority: the divider call RemoveInput makes
			// must not list it any more (C15)
			s.config[p] = false
			s.v1.RemoveInput(p)
		default:
			return "bad-op"
		}
		s.v1.ClearActual()
		return "ok " + s.snapshot()
	case "calc":
		proceed, err := s.stp.CalcTactic()
		status := "wait"
		if err != nil {
			status = errName(err)
			s.errSeen = true
			s.lastErr = status
		} else if proceed {
			status = "proceed"
		} else {
			// monitor C06: the discipline is about to wait for a release
			total := len(s.pending)
			for _, v := range s.inflight {
				total += v
			}
			if total == 0 && s.flt.kind == "none" {
				s.fail("C06 ver=%s zero-share=%v the discipline waits for a release although nothing is in flight (H=%d)", s.ver, s.zeroShare(), s.H)
			}
		}
		return status + " " + s.snapshot()
	case "fb1":
		if len(s.pending) == 0 {
			if !s.stopped {
				return "blocked " + s.snapshot()
			}
			s.stp.GetOneFeedback()
		} else {
			s.fb <- s.pending[0]
			s.pending = s.pending[1:]
			s.stp.GetOneFeedback()
		}
		return "ok " + s.snapshot()
	case "prio":
		var n uint
		if !s.withDrain(func() { n = s.stp.Prioritize() }) {
			return "hang " + s.snapshot()
		}
		return fmt.Sprintf("n=%d %s", n, s.snapshot())
	case "recalc":
		proceed, err := s.stp.RecalcTactic()
		status := "stop"
		if err != nil {
			status = errName(err)
			s.errSeen = true
			s.lastErr = status
		} else if proceed {
			status = "proceed"
		}
		return status + " " + s.snapshot()
	case "wct":
		var err error
		if !s.withFeeder(func() { err = s.wct() }) {
			return "hang " + s.snapshot()
		}
		status := "ok"
		if err != nil {
			status = errName(err)
			s.errSeen = true
			s.lastErr = status
		}
		return status + " " + s.snapshot()
	case "base":
		var n uint
		var err error
		if !s.withFeeder(func() { n, err = s.stp.Base() }) {
			return "hang " + s.snapshot()
		}
		status := fmt.Sprintf("n=%d", n)
		if err != nil {
			status += " " + errName(err)
			s.errSeen = true
			s.lastErr = errName(err)
		}
		return status + " " + s.snapshot()
	case "drained?":
		b := "0"
		if s.stp.IsDrainedInputs() {
			b = "1"
		}
		return b + " " + s.snapshot()
	case "glf":
		n := int(u(1))
		if n > len(s.pending) || n > cap(s.fb) {
			return "bad-op"
		}
		for i := 0; i < n; i++ {
			s.fb <- s.pending[i]
		}
		s.stp.GetLimitedFeedback()
		left := 0
		for more := true; more; {
			select {
			case <-s.fb:
				left++
			default:
				more = false
			}
		}
		s.pending = s.pending[n-left:]
		return "ok " + s.snapshot()
	case "wza":
		if !s.withFeeder(func() { s.stp.WaitZeroActual() }) {
			return "hang " + s.snapshot()
		}
		status := "done ok"
		if s.lastErr != "" {
			status = "done " + s.lastErr
		}
		if s.lastErr == "" && !s.stopped {
			// monitor C07: normal termination only after every delivered item was released and
			// every release consumed
			if n := totalInflight(s) + len(s.pending); n > 0 {
				s.fail("C07 the discipline terminated normally although %d delivered item(s) are not released yet / their release was not consumed (in flight %d, releases not consumed %d)", n, totalInflight(s), len(s.pending))
			}
			// monitor C02/C07: normal termination - nothing written to a registered input
			// may be left undelivered
			for c := range s.chanPri {
				if len(s.got[c]) != len(s.arrived[c]) {
					s.fail("C02 the discipline terminated normally although %d item(s) written to the input registered for priority %d were never delivered", len(s.arrived[c])-len(s.got[c]), s.chanPri[c])
				}
			}
		}
		return status + " " + s.snapshot()
	}
	return "bad-op"
}
