package main

import (
	"fmt"
	"github.com/akramarenkov/cqos/v2/priority/divider"
	"math"
	"math/rand"
	"sort"
	"strings"

	"verifharness/internal/px"
)

// knobs of the structured script generator
type knobs struct {
	family     string
	ver        string // v1|v2|"" (random)
	saturated  bool   // every buffered input is refilled before each round (C05)
	single     bool   // only one priority ever has data (C06)
	faults     bool   // inject a divider fault (C15)
	dynamic    bool   // v1: AddInput/RemoveInput between rounds (C17)
	stops      bool   // v1: Stop/cancel at some point (C16)
	terminate  bool   // close everything, release everything, expect termination (C07)
	unbuffered bool   // some inputs are unbuffered (always empty or closed in the stepper)
}

type gen struct {
	w    *px.Writer
	r    *rand.Rand
	k    knobs
	s    *session
	next int // next item value (globally unique within a script)
	cls  string
	// dynamic family: priorities removed while their items are in flight (candidates for being
	// registered again), and the number of rounds left in which every input is kept full
	readd []uint
	boost int
}

func (g *gen) do(op string) string {
	reply := g.s.exec(op)
	g.w.Case(g.cls, true, op, reply)
	return reply
}

func pick[T any](r *rand.Rand, l []T) T { return l[r.Intn(len(l))] }

func (g *gen) config() (string, string, uint, []keyCap, fault) {
	r := g.r
	ver := g.k.ver
	if ver == "" {
		ver = pick(r, []string{"v2", "v2", "v1"})
	}
	div := pick(r, []string{"fair", "rate"})
	n := 1 + r.Intn(4)
	var ps []uint
	switch r.Intn(4) {
	case 0: // small consecutive
		for i := n; i >= 1; i-- {
			ps = append(ps, uint(i))
		}
	case 1: // skewed
		ps = randDistinct(r, n, 6)
		ps[0] = 20 + uint(r.Intn(200))
	case 2: // near-equal
		base := 50 + uint(r.Intn(1000))
		for i := n - 1; i >= 0; i-- {
			ps = append(ps, base+uint(i))
		}
	default:
		ps = randDistinct(r, n, 12)
	}
	if r.Intn(8) == 0 {
		// priorities are plain uint values: the largest ones (beyond 2^63, where a signed
		// difference or a conversion to int changes sign) are as valid as small ones; with the
		// Fair divider, which does not add priorities up
		div = "fair"
		huge := []uint{math.MaxUint, math.MaxUint - 1, 1 << 63, 1<<63 + 1, 1<<63 - 1}
		r.Shuffle(len(huge), func(i, j int) { huge[i], huge[j] = huge[j], huge[i] })
		k := 1 + r.Intn(2)
		if k > len(ps) {
			k = len(ps)
		}
		copy(ps, huge[:k])
		sort.Slice(ps, func(i, j int) bool { return ps[i] > ps[j] })
	}
	var H uint
	switch r.Intn(4) {
	case 0:
		H = uint(n)
	case 1:
		H = uint(1 + r.Intn(3))
	case 2:
		H = uint(n) * uint(1+r.Intn(3))
	default:
		H = uint(1 + r.Intn(14))
	}
	if r.Intn(6) == 0 {
		// many handlers: v1's feedback limit (HandlersQuantity / 10) exceeds one only from 20 on
		H = uint(20 + r.Intn(30))
	}
	keys := make([]keyCap, len(ps))
	for i, p := range ps {
		c := 1 + r.Intn(6)
		if g.k.saturated {
			c = int(H) + 2
		}
		if g.k.unbuffered && r.Intn(4) == 0 && !g.k.saturated {
			c = 0
		}
		keys[i] = keyCap{p, c}
	}
	r.Shuffle(len(keys), func(i, j int) { keys[i], keys[j] = keys[j], keys[i] })
	flt := fault{kind: "none"}
	if g.k.faults {
		kind := pick(r, []string{"over", "under", "over", "under", "zero"})
		key := pick(r, ps)
		if r.Intn(5) == 0 {
			key = 9999 // an unlisted key
		}
		flt = fault{kind, r.Intn(7), key, uint(1 + r.Intn(3))}
		if r.Intn(4) == 0 {
			// not a fault at all: a sum-preserving custom divider that parks 1..2 units of one
			// priority under a spare key on every call but the first
			flt = fault{"park", 9000 + r.Intn(3), pick(r, ps), uint(1 + r.Intn(2))}
		}
	}
	return ver, div, H, keys, flt
}

func randDistinct(r *rand.Rand, n int, max int) []uint {
	if n > max {
		n = max
	}
	set := map[uint]bool{}
	for len(set) < n {
		set[uint(1+r.Intn(max))] = true
	}
	var l []uint
	for p := range set {
		l = append(l, p)
	}
	sort.Slice(l, func(i, j int) bool { return l[i] > l[j] })
	return l
}

func (g *gen) liveChans() []uint {
	var l []uint
	for c := range g.s.chanPri {
		l = append(l, c)
	}
	sort.Slice(l, func(i, j int) bool { return l[i] < l[j] })
	return l
}

func (g *gen) arrivals(active map[uint]bool) {
	s := g.s
	for _, c := range g.liveChans() {
		if g.s.closedCh[c] || cap(s.chans[c]) == 0 {
			continue
		}
		if active != nil && !active[c] {
			continue
		}
		n := g.r.Intn(cap(s.chans[c]) + 1)
		if g.k.saturated || g.boost > 0 {
			n = cap(s.chans[c])
		}
		for i := 0; i < n && s.roomIn(c); i++ {
			g.next++
			g.do(fmt.Sprintf("arrive %d %d", c, g.next))
		}
	}
}

func (g *gen) releases(mode int) {
	s := g.s
	var held []uint
	for p, n := range s.inflight {
		for i := 0; i < n; i++ {
			held = append(held, p)
		}
	}
	sort.Slice(held, func(i, j int) bool { return held[i] < held[j] })
	g.r.Shuffle(len(held), func(i, j int) { held[i], held[j] = held[j], held[i] })
	n := 0
	switch mode {
	case 0: // none
	case 1: // one
		n = 1
	case 2: // some
		n = g.r.Intn(len(held) + 1)
	default: // all
		n = len(held)
	}
	if n > len(held) {
		n = len(held)
	}
	for _, p := range held[:n] {
		g.do(fmt.Sprintf("release %d", p))
	}
}

func totalInflight(s *session) int {
	t := 0
	for _, v := range s.inflight {
		t += v
	}
	return t
}

// monitors on the state between rounds
func (g *gen) monitorShares(afterFullRound bool) {
	s := g.s
	if !g.k.saturated || s.errSeen {
		return
	}
	// the share is computed here, with the library's divider (C14), for all configured priorities
	// sorted from highest to lowest and H - not read from the discipline's own bookkeeping
	_, _, _, prios, _ := s.stp.Snapshot()
	sorted := append([]uint(nil), prios...)
	sort.Slice(sorted, func(i, j int) bool { return sorted[i] > sorted[j] })
	strategic := map[uint]uint{}
	if len(sorted) > 0 {
		if s.div == "rate" {
			divider.Rate(sorted, s.H, strategic)
		} else {
			divider.Fair(sorted, s.H, strategic)
		}
	}
	for p, n := range s.inflight {
		if uint(n) > strategic[p] {
			s.fail("C05 priority %d holds %d items in flight, its share is %d", p, n, strategic[p])
		}
	}
	if afterFullRound && len(s.pending) == 0 {
		for p, sh := range strategic {
			if uint(s.inflight[p]) != sh {
				s.fail("C05 no release outstanding but priority %d holds %d of its share %d", p, s.inflight[p], sh)
			}
		}
	}
}

// one script
func (g *gen) script() {
	r := g.r
	ver, div, H, keys, flt := g.config()
	g.cls = g.k.family + ":" + ver
	g.readd, g.boost = nil, 0
	s, reply := newSession(g.w, ver, div, H, keys, flt)
	g.s = s
	g.w.Case(g.cls, true, s.script[0], reply)
	if s.dead {
		return
	}
	defer s.closeSession()
	s.closedCh = map[uint]bool{}

	var active map[uint]bool
	if g.k.single {
		active = map[uint]bool{}
		var bufd []uint
		for _, k := range keys {
			if k.cap > 0 {
				bufd = append(bufd, k.p)
			}
		}
		if len(bufd) > 0 {
			active[pick(r, bufd)] = true
		}
	}

	rounds := 2 + r.Intn(9)
	stopAt := -1
	if g.k.stops && ver == "v1" {
		stopAt = r.Intn(rounds)
	}
	nextChan := uint(100000)
	// C17: when AddInput(ch, p) has taken effect, the priorities served are the previous ones
	// plus p - whatever the history of p (never registered, registered, removed, its previous
	// channel closed and drained)
	addInput := func(p uint, c uint, capacity int) {
		_, _, _, was, _ := s.stp.Snapshot()
		g.do(fmt.Sprintf("top add %d %d %d", p, c, capacity))
		_, _, _, now, _ := s.stp.Snapshot()
		want := map[uint]bool{p: true}
		for _, q := range was {
			want[q] = true
		}
		same := len(now) == len(want)
		for _, q := range now {
			same = same && want[q]
		}
		if !same && !s.errSeen {
			s.fail("C17 after AddInput(ch, %d) the priorities served are %v, expected %v plus %d: elements of the added channel are never read", p, now, was, p)
		}
	}

	for round := 0; round < rounds; round++ {
		last := round == rounds-1
		// ---- environment
		g.arrivals(active)
		if g.k.terminate && (last || r.Intn(4) == 0) || (!g.k.saturated && r.Intn(12) == 0) {
			for _, c := range g.liveChans() {
				// an unbuffered closed input is a coin toss in Go (the ticker case of `iou`
				// competes with the closed receive): the deterministic stepper keeps
				// unbuffered inputs open and empty; closing them is left to the black-box runs
				if cap(s.chans[c]) == 0 {
					continue
				}
				if !s.closedCh[c] && (last && g.k.terminate || r.Intn(2) == 0) {
					g.do(fmt.Sprintf("close %d", c))
					s.closedCh[c] = true
				}
			}
		}
		if g.boost > 0 {
			// after a priority was registered again while its items are still in flight: keep
			// them in flight and every input full, so that a forgotten count shows as over-commitment
			g.boost--
			g.releases(0)
		} else {
			g.releases(r.Intn(4))
		}

		// ---- v1: the loop-top select
		if ver == "v1" {
			if round == stopAt {
				g.do(pick(r, []string{"stop", "stop ctx"}))
				// the loop-top select may still take another ready case (here: none)
				g.do("top none")
				g.afterStop()
				return
			}
			switch {
			case g.k.dynamic && len(g.readd) > 0 && r.Intn(2) == 0:
				// RemoveInput(p) was called while items of p are in flight: register p again
				// (fresh channel) before they are fed back
				p := g.readd[0]
				g.readd = g.readd[1:]
				c := nextChan
				nextChan++
				addInput(p, c, 5)
				g.boost = 3
			case g.k.dynamic && r.Intn(3) == 0:
				if r.Intn(2) == 0 {
					p := uint(1 + r.Intn(12))
					c := nextChan
					nextChan++
					if r.Intn(3) == 0 {
						// a producer reconnects: a fresh channel for a priority whose channel was closed
						for _, oc := range g.liveChans() {
							if s.closedCh[oc] {
								p = s.chanPri[oc]
								break
							}
						}
					} else if r.Intn(4) == 0 {
						// re-register an existing channel under a priority
						if l := g.liveChans(); len(l) > 0 {
							c = pick(r, l)
							p = s.chanPri[c]
						}
					}
					addInput(p, c, 1+r.Intn(5))
				} else if l := g.liveChans(); len(l) > 0 {
					p := s.chanPri[pick(r, l)]
					if r.Intn(4) == 0 {
						// RemoveInput of a priority that is not registered (never added, or
						// removed before): nothing may change for the registered ones
						reg := map[uint]bool{}
						for _, c := range l {
							reg[s.chanPri[c]] = true
						}
						for q := uint(1 + r.Intn(14)); ; q = q%14 + 1 {
							if !reg[q] {
								p = q
								break
							}
						}
					}
					if s.inflight[p] > 0 {
						g.readd = append(g.readd, p)
					}
					_, _, _, was, _ := s.stp.Snapshot()
					g.do(fmt.Sprintf("top remove %d", p))
					// C17: when RemoveInput(p) has taken effect, the priorities served are the
					// previous ones without p - nothing else disappears, nothing appears
					_, _, _, now, _ := s.stp.Snapshot()
					want := map[uint]bool{}
					for _, q := range was {
						if q != p {
							want[q] = true
						}
					}
					same := len(now) == len(want)
					for _, q := range now {
						same = same && want[q]
					}
					if !same && !s.errSeen {
						s.fail("C17 after RemoveInput(%d) the priorities served are %v, expected %v without %d", p, now, was, p)
					}
				} else {
					g.do("top none")
				}
			case len(s.pending) > 0 && r.Intn(2) == 0:
				g.do("top fb")
			default:
				g.do("top none")
			}
		}

		// ---- base(): whole, or piece by piece
		var processed uint
		var failed bool
		proceeded := false
		fullyReleased := totalInflight(s) == 0
		idle := fullyReleased && len(s.pending) == 0
		if fullyReleased && r.Intn(2) == 0 && !(ver == "v1" && flt.kind != "none") {
			rep := g.do("base")
			fmt.Sscanf(rep, "n=%d", &processed)
			failed = s.errSeen
			proceeded = rep[:4] != "hang"
			if rep[:4] == "hang" {
				s.fail("C06 base() does not return although every delivered item has been released (ver=%s zero-share=%v)", s.ver, s.zeroShare())
				return
			}
		} else {
			ok := false
			// the real waitCalcTactic, with some (not all) releases waiting to be read: under
			// saturation one consumed release frees a handler that is refilled at once (C05) -
			// the wait never needs more releases than it takes to make one handler vacant
			useWct := g.k.saturated && flt.kind == "none" && !s.zeroShare() && len(s.pending) >= 1 && r.Intn(2) == 0
			if useWct {
				busy, npend := totalInflight(s)+len(s.pending), len(s.pending)
				rep := g.do("wct")
				switch {
				case rep[:4] == "hang":
					s.fail("C05 ver=%s: %d of %d handlers were occupied, %d release(s) were issued and every input has data, but waitCalcTactic does not return: the released handlers are not refilled until more releases arrive", s.ver, busy, s.H, npend)
					return
				case rep[:2] == "ok":
					ok = true
				case rep[:3] == "err":
					failed = true
				default:
					return
				}
			}
			for !useWct {
				rep := g.do("calc")
				if rep[:4] == "proc" {
					ok = true
					break
				}
				if rep[:3] == "err" {
					failed = true
					break
				}
				if rep[:4] != "wait" {
					return // fault / unexpected
				}
				g.monitorWait(active)
				if len(s.pending) == 0 {
					if totalInflight(s) == 0 {
						return // blocked for good: reported by the C06 monitor
					}
					g.releases(1 + r.Intn(3))
					if len(s.pending) == 0 {
						g.releases(3)
					}
				}
				g.do("fb1")
			}
			if ok {
				proceeded = true
				var n uint
				rep := g.do("prio")
				fmt.Sscanf(rep, "n=%d", &n)
				processed += n
				rep = g.do("recalc")
				if rep[:4] == "proc" {
					rep = g.do("prio")
					fmt.Sscanf(rep, "n=%d", &n)
					processed += n
				} else if rep[:3] == "err" {
					failed = true
				}
			}
		}
		g.monitorShares(true)
		if g.k.single && !failed && (idle || proceeded) && len(active) == 1 {
			// (also in rounds that started with items in flight: once calcTactic has let the
			// round proceed, a priority that is alone in having data gets every vacant handler -
			// first its own allotment, then, through recalcTactic, what the idle priorities
			// cannot use)
			g.monitorAlone(active)
		}

		// ---- the rest of the loop body
		if failed {
			g.releases(3)
			g.do("wza")
			return
		}
		if processed == 0 {
			rep := g.do("drained?")
			exit := rep[:1] == "1"
			if ver == "v1" && exit {
				if r.Intn(2) == 0 {
					g.do("graceful")
				} else {
					exit = false
				}
			}
			if exit {
				g.releases(3)
				g.do("wza")
				return
			}
		}
		avail := len(s.pending)
		if avail > cap(s.fb) {
			avail = cap(s.fb)
		}
		if avail > 0 && r.Intn(4) == 0 {
			avail = r.Intn(avail + 1)
		}
		g.do(fmt.Sprintf("glf %d", avail))
	}
}

// C06: the only priority with data, nothing in flight before the round -> it is granted
// all handlers (as many items as were available, up to H)
func (g *gen) monitorAlone(active map[uint]bool) {
	s := g.s
	for c := range active {
		p, ok := s.chanPri[c]
		if !ok {
			return
		}
		avail := len(s.arrived[c]) - len(s.got[c]) // still queued
		// a release the discipline has not read yet still occupies its handler in the
		// discipline's books
		if avail > 0 && uint(totalInflight(s)+len(s.pending)) < s.H {
			s.fail("C06 ver=%s zero-share=%v priority %d alone has data (%d queued) but only %d of %d handlers are occupied (%d of them released, the release not yet read)", s.ver, s.zeroShare(), p, avail, totalInflight(s)+len(s.pending), s.H, len(s.pending))
		}
	}
}

// C06, third clause, while the discipline WAITS for a release: with the Fair divider the vacant
// handlers can be shared out so that every priority below its share gets one as soon as there are
// at least as many of them as priorities - then nothing stands in the way of the round, and a
// priority that is alone in having data must not be kept waiting for releases it does not need
func (g *gen) monitorWait(active map[uint]bool) {
	s := g.s
	if !g.k.single || s.ver != "v2" || s.div != "fair" || len(active) != 1 || s.errSeen {
		return
	}
	_, _, _, prios, _ := s.stp.Snapshot()
	occupied := uint(totalInflight(s) + len(s.pending))
	if occupied > s.H || s.H-occupied < uint(len(prios)) {
		return
	}
	for c := range active {
		p, ok := s.chanPri[c]
		if !ok {
			return
		}
		if avail := len(s.arrived[c]) - len(s.got[c]); avail > 0 {
			s.fail("C06 ver=%s zero-share=%v priority %d alone has data (%d queued) and %d of %d handlers are vacant - enough to give each of the %d priorities one (Fair) - but the discipline waits for a release",
				s.ver, s.zeroShare(), p, avail, s.H-occupied, s.H, len(prios))
		}
	}
}

// v1: after Stop/cancel the discipline must run to completion without any release
func (g *gen) afterStop() {
	s := g.s
	rep := g.do("wct")
	if rep[:4] == "hang" {
		s.fail("C16 waitCalcTactic does not return after Stop/cancel (in flight %d of %d)", totalInflight(s), s.H)
		return
	}
	if rep[:3] != "err" {
		if !strings.Contains(rep, " t=- ") {
			// an allotment exists: whether the next select takes the stop branch or an
			// item is a coin toss in Go - the deterministic stepper ends here
			return
		}
		g.do("prio")
		rep = g.do("recalc")
		if rep[:3] != "err" {
			if !strings.Contains(rep, " t=- ") {
				return
			}
			if rep[:4] == "proc" {
				g.do("prio")
			}
			g.do("glf 0")
		}
	}
	g.do("top stop")
	rep = g.do("wza")
	if rep[:4] == "hang" {
		s.fail("C16 waitZeroActual does not return after Stop/cancel")
	}
}
