// Command stepper: correspondence class B — the real priority disciplines (v1 and v2)
// are driven one unexported method call at a time through the verif hooks, under
// generated operation scripts; after every operation the semantic projection of the
// scheduler state is printed and later compared with the Lean machine's.  Monitors
// evaluate the properties' own predicates on the implementation's behaviour.
//
// usage: stepper -family mixed|saturated|single|faulty|dynamic|stops|terminate -tier T -out DIR
package main

import (
	"bufio"
	"flag"
	"fmt"
	"math/rand"
	"os"
	"strconv"
	"strings"

	"verifharness/internal/px"
)

func families() map[string]knobs {
	return map[string]knobs{
		"mixed":     {family: "mixed", unbuffered: true, terminate: true},
		"saturated": {family: "saturated", saturated: true},
		"single":    {family: "single", single: true, unbuffered: true},
		"faulty":    {family: "faulty", faults: true, unbuffered: true, terminate: true},
		"dynamic":   {family: "dynamic", ver: "v1", dynamic: true, terminate: true},
		"stops":     {family: "stops", ver: "v1", stops: true, dynamic: true},
		"terminate": {family: "terminate", terminate: true, unbuffered: true},
	}
}

func main() {
	family := flag.String("family", "mixed", "")
	tier := flag.String("tier", "quick", "quick|thorough")
	out := flag.String("out", "", "output directory")
	replay := flag.String("replay", "", "file with scripts to re-run")
	n := flag.Int("n", 0, "number of scripts (0 = tier default)")
	flag.Parse()
	if *out == "" {
		fmt.Fprintln(os.Stderr, "missing -out")
		os.Exit(2)
	}
	w := px.NewWriter(*out)
	r := rand.New(rand.NewSource(px.Seed()))

	if *replay != "" {
		replayFile(w, *replay)
		w.Close(map[string]any{"family": "replay", "tier": *tier, "seed": px.Seed()})
		return
	}

	k, ok := families()[*family]
	if !ok {
		fmt.Fprintln(os.Stderr, "unknown family")
		os.Exit(2)
	}
	count := *n
	if count == 0 {
		count = 400
		if *tier == "thorough" {
			count = 12000
		}
	}
	for i := 0; i < count; i++ {
		g := &gen{w: w, r: r, k: k}
		g.script()
		if hungGlobal {
			break
		}
	}
	w.Close(map[string]any{"family": *family, "tier": *tier, "seed": px.Seed(), "scripts": count})
}

// replayFile re-executes recorded scripts (each starts with a `cfg` line).
func replayFile(w *px.Writer, path string) {
	f, err := os.Open(path)
	if err != nil {
		panic(err)
	}
	defer f.Close()
	sc := bufio.NewScanner(f)
	sc.Buffer(make([]byte, 1<<20), 1<<24)
	var s *session
	for sc.Scan() {
		line := strings.TrimSpace(sc.Text())
		if line == "" {
			continue
		}
		t := strings.Fields(line)
		if t[0] == "cfg" {
			if s != nil && !s.dead {
				s.closeSession()
			}
			if len(t) != 6 {
				w.Fail("replay: malformed cfg line %q", line)
				s = nil
				continue
			}
			H, _ := strconv.ParseUint(t[3], 10, 64)
			var keys []keyCap
			if t[4] != "-" {
				for _, kv := range strings.Split(t[4], ",") {
					p := strings.Split(kv, ":")
					a, _ := strconv.ParseUint(p[0], 10, 64)
					b, _ := strconv.Atoi(p[1])
					keys = append(keys, keyCap{uint(a), b})
				}
			}
			var reply string
			s, reply = newSession(w, t[1], t[2], uint(H), keys, parseFault(t[5]))
			s.closedCh = map[uint]bool{}
			w.Case("replay", true, line, reply)
			continue
		}
		if s == nil || s.dead {
			w.Case("replay", true, line, "bad-op")
			continue
		}
		w.Case("replay", true, line, s.exec(line))
	}
	if s != nil && !s.dead {
		s.closeSession()
	}
}
