package main

import (
	"context"
	"errors"
	"fmt"
	"sort"
	"strconv"
	"strings"
	"sync"
	"time"

	"verifharness/internal/px"

	p1 "github.com/akramarenkov/cqos/priority"
	p2 "github.com/akramarenkov/cqos/v2/priority"
	"github.com/akramarenkov/cqos/v2/priority/divider"
	"github.com/akramarenkov/cqos/v2/priority/types"
)

// stepper is the part of the verif hooks common to v1 and v2.
type stepper interface {
	CalcTactic() (bool, error)
	GetOneFeedback()
	Prioritize() uint
	RecalcTactic() (bool, error)
	Base() (uint, error)
	GetLimitedFeedback()
	WaitZeroActual()
	IsDrainedInputs() bool
	FeedbackLimit() uint
	StopTicker()
	Snapshot() (map[uint]uint, map[uint]uint, map[uint]uint, []uint, map[uint]bool)
}

type fault struct {
	kind  string // none|over|under|zero|park (park: `call` holds the spare key)
	call  int
	key   uint
	delta uint
}

func (f fault) String() string {
	switch f.kind {
	case "over", "under", "park":
		return fmt.Sprintf("%d:%s:%d:%d", f.call, f.kind, f.key, f.delta)
	case "zero":
		return fmt.Sprintf("%d:zero", f.call)
	}
	return "none"
}

func parseFault(s string) fault {
	t := strings.Split(s, ":")
	switch {
	case len(t) == 4:
		c, _ := strconv.Atoi(t[0])
		k, _ := strconv.ParseUint(t[2], 10, 64)
		d, _ := strconv.ParseUint(t[3], 10, 64)
		return fault{t[1], c, uint(k), uint(d)}
	case len(t) == 2:
		c, _ := strconv.Atoi(t[0])
		return fault{"zero", c, 0, 0}
	}
	return fault{kind: "none"}
}

type divCall struct {
	ps     []uint
	d      uint
	nilMap bool
}

type session struct {
	w   *px.Writer
	ver string
	H   uint
	div string
	flt fault

	stp stepper
	v1  *p1.VerifStepper[int]
	v2  *p2.VerifStepper[int]

	chans   map[uint]chan int // by channel id
	chanPri map[uint]uint     // channel id -> priority it is (currently) registered for
	fb      chan uint
	out2    chan types.Prioritized[int]
	out1    chan p1.Prioritized[int]
	cancel  context.CancelFunc

	calls    int
	callLog  []divCall
	config   map[uint]bool // priorities ever configured
	pending  []uint
	inflight map[uint]int
	arrived  map[uint][]int // per channel
	got      map[uint][]int // per channel: delivered items
	newOut   []string
	faulted  bool // the injected fault has fired
	curOp    string
	mu       sync.Mutex
	badRound bool // a round division returned a non-zero added total != dividend
	errSeen  bool
	lastErr  string
	stopped  bool
	script   []string
	dead     bool
	closedCh map[uint]bool
}

func (s *session) fail(format string, args ...any) {
	msg := fmt.Sprintf(format, args...)
	s.w.Fail("%s [replay: %s]", msg, strings.Join(s.script, " ;; "))
}

func (s *session) applyFault(idx int, m map[uint]uint) {
	if m != nil && s.flt.kind == "park" {
		// a custom divider that obeys the sum rule but books part of the quantity under a key
		// that is not one of the priorities it was given (every call except the constructor's)
		if idx != 0 && m[s.flt.key] >= s.flt.delta {
			m[s.flt.key] -= s.flt.delta
			m[uint(s.flt.call)] += s.flt.delta
		}
		return
	}
	if m == nil || idx != s.flt.call {
		return
	}
	switch s.flt.kind {
	case "over":
		m[s.flt.key] += s.flt.delta
		s.faulted = true
	case "under":
		if m[s.flt.key] >= s.flt.delta {
			m[s.flt.key] -= s.flt.delta
			s.faulted = true
		}
	}
}

// monitor C15: the arguments every divider call receives
func (s *session) checkCall(ps []uint, d uint, nilMap bool) {
	s.callLog = append(s.callLog, divCall{append([]uint(nil), ps...), d, nilMap})
	for i := range ps {
		if i > 0 && ps[i] >= ps[i-1] {
			s.fail("C15 divider called with priorities %v: not sorted from highest to lowest / not distinct", ps)
		}
		if !s.config[ps[i]] {
			s.fail("C15 divider called with unknown priority %d in %v", ps[i], ps)
		}
	}
	if d > s.H {
		s.fail("C15 divider called with dividend %d > HandlersQuantity %d", d, s.H)
	}
	if nilMap && s.ver == "v2" {
		s.fail("C15 v2 divider called with a nil distribution")
	}
}

func (s *session) divV2() divider.Divider {
	base := divider.Fair
	if s.div == "rate" {
		base = divider.Rate
	}
	return func(ps []uint, d uint, m map[uint]uint) {
		idx := s.calls
		s.calls++
		s.checkCall(ps, d, m == nil)
		if s.flt.kind == "zero" && idx == s.flt.call {
			s.faulted = true
			return
		}
		before := sumMap(m)
		base(ps, d, m)
		s.applyFault(idx, m)
		s.noteRound(before, sumMap(m), d)
	}
}

func (s *session) divV1() p1.Divider {
	base := p1.FairDivider
	if s.div == "rate" {
		base = p1.RateDivider
	}
	return func(ps []uint, d uint, m map[uint]uint) map[uint]uint {
		idx := s.calls
		s.calls++
		s.checkCall(ps, d, m == nil)
		if s.flt.kind == "zero" && idx == s.flt.call {
			s.faulted = true
			return m
		}
		before := sumMap(m)
		r := base(ps, d, m)
		if r == nil {
			r = m
		}
		s.applyFault(idx, r)
		s.noteRound(before, sumMap(r), d)
		return r
	}
}

// hungGlobal: a hooked call did not return; the goroutine is leaked (possibly spinning), so
// the run stops generating further scripts
var hungGlobal bool

func sumMap(m map[uint]uint) uint {
	t := uint(0)
	for _, v := range m {
		t += v
	}
	return t
}

// noteRound records that a division made for a round (inside calcTactic / recalcTactic)
// returned a non-zero total whose increase differs from the dividend: from then on nothing
// may be delivered (C15).
func (s *session) noteRound(before, after, d uint) {
	switch s.curOp {
	case "calc", "recalc", "base", "wct":
		if after != 0 && after-before != d {
			// everything the discipline has sent so far must be recorded before the flag is set
			for {
				s.mu.Lock()
				n := 0
				if s.out2 != nil {
					n = len(s.out2)
				} else {
					n = len(s.out1)
				}
				if n == 0 {
					s.badRound = true
					s.mu.Unlock()
					break
				}
				s.mu.Unlock()
				time.Sleep(5 * time.Microsecond)
			}
		}
	}
}

func errName(err error) string {
	switch {
	case err == nil:
		return "ok"
	case errors.Is(err, p2.ErrDividerBad), errors.Is(err, p1.ErrDividerBad):
		return "err:divider-bad"
	case errors.Is(err, p2.ErrHandlersQuantityTooSmall):
		return "err:too-small"
	case errors.Is(err, p1.ErrQuantityExceeded):
		return "err:quantity-exceeded"
	default:
		return "err:other:" + err.Error()
	}
}

type keyCap struct {
	p   uint
	cap int // 0 = unbuffered
}

// newSession executes a `cfg` line. Returns the reply and whether a session is live.
func newSession(w *px.Writer, ver string, div string, H uint, keys []keyCap, flt fault) (*session, string) {
	s := &session{w: w, ver: ver, H: H, div: div, flt: flt,
		chans: map[uint]chan int{}, chanPri: map[uint]uint{}, inflight: map[uint]int{},
		arrived: map[uint][]int{}, got: map[uint][]int{}, config: map[uint]bool{}}

	kstr := make([]string, len(keys))
	for i, k := range keys {
		b := 0
		if k.cap > 0 {
			b = k.cap
		}
		kstr[i] = fmt.Sprintf("%d:%d", k.p, b)
	}
	ks := strings.Join(kstr, ",")
	if ks == "" {
		ks = "-"
	}
	s.script = []string{fmt.Sprintf("cfg %s %s %d %s %s", ver, div, H, ks, flt)}

	for _, k := range keys {
		s.chans[k.p] = make(chan int, k.cap)
		s.chanPri[k.p] = k.p
		s.config[k.p] = true
	}

	if ver == "v2" {
		inputs := map[uint]<-chan int{}
		for _, k := range keys {
			inputs[k.p] = s.chans[k.p]
		}
		stp, err := p2.VerifNewStepper(p2.Opts[int]{Divider: s.divV2(), HandlersQuantity: H, Inputs: inputs})
		if err != nil {
			s.dead = true
			return s, errName(err)
		}
		s.v2, s.stp = stp, stp
		s.fb = stp.Feedback()
		s.out2 = stp.OutputChan()
	} else {
		inputs := map[uint]<-chan int{}
		for _, k := range keys {
			inputs[k.p] = s.chans[k.p]
		}
		ctx, cancel := context.WithCancel(context.Background())
		s.cancel = cancel
		s.fb = make(chan uint, 4)
		s.out1 = make(chan p1.Prioritized[int], 1)
		stp, err := p1.VerifNewStepper(p1.Opts[int]{Ctx: ctx, Divider: s.divV1(), Feedback: s.fb,
			HandlersQuantity: H, Inputs: inputs, Output: s.out1})
		if err != nil {
			s.dead = true
			return s, errName(err)
		}
		s.v1, s.stp = stp, stp
	}
	return s, "ok " + s.snapshot()
}

func (s *session) closeSession() {
	if s.stp != nil {
		s.stp.StopTicker()
	}
	if s.cancel != nil {
		s.cancel()
	}
}

func sortedKeys(m map[uint]bool) []uint {
	var l []uint
	for k, v := range m {
		if v {
			l = append(l, k)
		}
	}
	sort.Slice(l, func(i, j int) bool { return l[i] < l[j] })
	return l
}

func (s *session) snapshot() string {
	a, st, t, pr, dr := s.stp.Snapshot()
	out := "-"
	if len(s.newOut) > 0 {
		out = strings.Join(s.newOut, ",")
	}
	s.newOut = nil
	return fmt.Sprintf("a=%s t=%s s=%s pr=%s dr=%s out=%s pend=%d",
		px.MapNZ(a), px.MapNZ(t), px.MapNZ(st), px.List(pr), px.List(sortedKeys(dr)), out, len(s.pending))
}

func (s *session) record(p uint, x int) {
	s.newOut = append(s.newOut, fmt.Sprintf("%d/%d", p, x))
	s.inflight[p]++
	// monitor C02: which channel did it come from; FIFO per channel; tag
	found := false
	for c, arr := range s.arrived {
		n := len(s.got[c])
		if n < len(arr) && arr[n] == x {
			s.got[c] = append(s.got[c], x)
			if s.chanPri[c] != p {
				s.fail("C02 item %d of channel %d delivered with priority %d, registered for %d", x, c, p, s.chanPri[c])
			}
			found = true
			break
		}
	}
	if !found {
		s.fail("C02 delivered item %d (priority %d) is not the next undelivered item of any input", x, p)
	}
	// monitor C01
	total := 0
	for _, v := range s.inflight {
		total += v
	}
	if uint(total) > s.H {
		s.fail("C01 %d items in flight > HandlersQuantity %d", total, s.H)
	}
	if s.errSeen {
		s.fail("C15 item delivered after the discipline reported an error")
	}
	if s.badRound {
		s.fail("C15 item %d (priority %d) delivered after a round division returned a non-zero added total that differs from the dividend", x, p)
	}
}

// withDrain runs f while a drainer empties the output channel.
func (s *session) withDrain(f func()) bool {
	stop := make(chan struct{})
	done := make(chan struct{})
	go func() {
		defer close(done)
		for {
			select {
			case <-stop:
				return
			default:
			}
			// take and record under the lock, so that "output empty while holding the lock"
			// means every completed send has been recorded (see noteRound)
			s.mu.Lock()
			got := false
			if s.out2 != nil {
				select {
				case it := <-s.out2:
					s.record(it.Priority, it.Item)
					got = true
				default:
				}
			} else {
				select {
				case it := <-s.out1:
					s.record(it.Priority, it.Item)
					got = true
				default:
				}
			}
			s.mu.Unlock()
			if !got {
				time.Sleep(5 * time.Microsecond)
			}
		}
	}()
	fin := make(chan struct{})
	go func() { f(); close(fin) }()
	ok := true
	select {
	case <-fin:
	case <-time.After(6 * time.Second):
		ok = false
		hungGlobal = true
	}
	close(stop)
	<-done
	// whatever is still buffered in the output
	for more := true; more; {
		if s.out2 != nil {
			select {
			case it := <-s.out2:
				s.record(it.Priority, it.Item)
			default:
				more = false
			}
		} else {
			select {
			case it := <-s.out1:
				s.record(it.Priority, it.Item)
			default:
				more = false
			}
		}
	}
	return ok
}

// withFeeder runs f while the pending releases are being written to the feedback
// channel in order; what was not consumed goes back to the front of pending.
func (s *session) withFeeder(f func()) bool {
	stop := make(chan struct{})
	done := make(chan int)
	pend := append([]uint(nil), s.pending...)
	if s.stopped {
		// after Stop/cancel a select between the stop signal and a ready feedback is a
		// coin toss: keep the stepper deterministic by not feeding
		pend = nil
	}
	go func() {
		sent := 0
		for _, p := range pend {
			select {
			case s.fb <- p:
				sent++
			case <-stop:
				done <- sent
				return
			}
		}
		done <- sent
	}()
	ok := s.withDrain(f)
	close(stop)
	sent := <-done
	// values still sitting in the channel were not consumed
	unconsumed := 0
	for more := true; more; {
		select {
		case <-s.fb:
			unconsumed++
		default:
			more = false
		}
	}
	s.pending = s.pending[sent-unconsumed:]
	return ok
}

// zeroShare: some configured priority currently has a zero strategic share
func (s *session) zeroShare() bool {
	_, strategic, _, prios, _ := s.stp.Snapshot()
	for _, p := range prios {
		if strategic[p] == 0 {
			return true
		}
	}
	return false
}

func (s *session) wct() error {
	if s.v1 != nil {
		return s.v1.WaitCalcTactic()
	}
	return s.v2.WaitCalcTactic()
}

func (s *session) roomIn(c uint) bool {
	ch := s.chans[c]
	return ch != nil && len(ch) < cap(ch)
}
