// Command jstepper: white-box stepper for the batching disciplines (v2 join, v2 unite,
// v1 join).  The real `process`, `pass`, `isTimeouted` are called one at a time through
// the verif hooks on generated scripts; after every operation the buffer, the emitted
// slices (with the identity class of their memory) and the control state are printed and
// later compared with the Lean machine.  Monitors evaluate C03, C08, C09, C11 on the
// implementation's behaviour.
package main

import (
	"context"
	"fmt"
	"reflect"
	"strconv"
	"strings"
	"time"
	"unsafe"

	"verifharness/internal/px"

	j1 "github.com/akramarenkov/cqos/join"
	j2 "github.com/akramarenkov/cqos/v2/join"
	"github.com/akramarenkov/cqos/v2/join/unite"
)

type jsession struct {
	// arena: in sessions with an even JoinSize (unite) every input slice is a sub-slice of one
	// shared array with spare capacity, the next input lying in the spare capacity of the
	// previous one - like chunks `data[i:j]` of a producer's batch.  The disciplines only
	// ever read `item[0:len]`; one that looks at `cap(item)` or appends to an input slice
	// shows up as corrupted output / wrong batching.
	arena    [2][]int // two producers' batches, chunks of which arrive interleaved
	arenaPos [2]int
	arenaN   int
	// what every input slice contained when it was handed to the discipline
	inputCopy map[int][]int
	w         *px.Writer
	kind      string
	ver       string
	size      uint
	timeout   time.Duration
	nocopy    bool

	process   func(id int, xs []int)
	pass      func()
	timeouted func() bool
	setPassAt func(time.Time)
	getPassAt func() time.Time
	paBefore  time.Time
	buffer    func() []int
	output    <-chan []int
	release   func()
	stop      func()
	unrel     func() bool

	inputs   map[int][]int // unite: the input slices by id (kept alive for identity checks)
	busy     chan struct{} // non-nil while a call is blocked awaiting release
	held     []int         // no-copy: the slice the consumer currently holds
	heldCopy []int
	st       string
	newOut   []string
	script   []string
	// monitors
	consumed [][]int
	outs     [][]int
	kept     [][]int // copy mode: every output slice, retained (and scribbled into at the end)
	keptCopy [][]int
	ticked   bool
	stopped  bool
	closed   bool
}

func (s *jsession) fail(format string, args ...any) {
	s.w.Fail("%s [replay: %s]", fmt.Sprintf(format, args...), strings.Join(s.script, " ;; "))
}

func dataPtr(sl []int) unsafe.Pointer {
	if cap(sl) == 0 {
		return nil
	}
	return unsafe.Pointer(unsafe.SliceData(sl[:1]))
}

// overlap: do the backing arrays (up to capacity) of two slices share any element?
func overlap(a, b []int) bool {
	if cap(a) == 0 || cap(b) == 0 {
		return false
	}
	const sz = unsafe.Sizeof(int(0))
	a0, b0 := uintptr(dataPtr(a)), uintptr(dataPtr(b))
	a1, b1 := a0+uintptr(cap(a))*sz, b0+uintptr(cap(b))*sz
	return a0 < b1 && b0 < a1
}

func (s *jsession) classify(sl []int) string {
	p := dataPtr(sl)
	if p == dataPtr(s.buffer()[:cap(s.buffer())]) {
		return "buf"
	}
	for _, in := range s.inputs {
		if len(in) > 0 && p == dataPtr(in) {
			return "in"
		}
	}
	return "fresh"
}

func newJSession(w *px.Writer, kind, ver string, size uint, timeout time.Duration, nocopy bool) (*jsession, string) {
	s := &jsession{w: w, kind: kind, ver: ver, size: size, timeout: timeout, nocopy: nocopy, inputs: map[int][]int{}, st: "run"}
	nc := 0
	if nocopy {
		nc = 1
	}
	s.script = []string{fmt.Sprintf("jcfg %s %s %d %d %d", kind, ver, size, int64(timeout), nc)}
	if kind == "unite" && size%2 == 0 {
		s.arena[0], s.arena[1] = make([]int, 1<<15), make([]int, 1<<15)
	}
	// the option is varied (0 = the default, 25%): what it does to the ticker period is checked
	// right here; the stepper drives the firings itself, so the scripts do not depend on it
	inacc := []uint{25, 0, 1, 5, 10, 20, 50, 100}[(int(size)+int(timeout/time.Second)+nc)%8]
	var interval func() time.Duration
	defer func() {
		if interval == nil || timeout <= 0 {
			return
		}
		eff := inacc
		if eff == 0 {
			eff = 25
		}
		div := time.Duration(100 / eff)
		if ii := interval(); ii <= 0 || ii*div > timeout || (ii+1)*div <= timeout {
			s.fail("C10 constructor: Timeout %v, TimeoutInaccuracy %d%%: the ticker period is %v, not Timeout/floor(100/TimeoutInaccuracy) = %v - elements can stay longer than Timeout*(1+1/floor(100/TimeoutInaccuracy))", timeout, inacc, ii, timeout/div)
		}
	}()
	switch {
	case kind == "join" && ver == "v2":
		in := make(chan int)
		stp, err := j2.VerifNewStepper(j2.Opts[int]{Input: in, JoinSize: size, NoCopy: nocopy, Timeout: timeout, TimeoutInaccuracy: inacc})
		if err != nil {
			return nil, "err " + err.Error()
		}
		interval = stp.InterruptInterval
		s.process = func(_ int, xs []int) { stp.Process(xs[0]) }
		s.pass, s.timeouted, s.setPassAt, s.buffer = stp.Pass, stp.IsTimeouted, stp.SetPassAt, stp.Buffer
		s.getPassAt = stp.PassAt
		s.output = stp.Discipline().Output()
		s.release = stp.Discipline().Release
	case kind == "unite" && ver == "v2":
		in := make(chan []int)
		stp, err := unite.VerifNewStepper(unite.Opts[int]{Input: in, JoinSize: size, NoCopy: nocopy, Timeout: timeout, TimeoutInaccuracy: inacc})
		if err != nil {
			return nil, "err " + err.Error()
		}
		interval = stp.InterruptInterval
		s.process = func(_ int, xs []int) { stp.Process(xs) }
		s.pass, s.timeouted, s.setPassAt, s.buffer = stp.Pass, stp.IsTimeouted, stp.SetPassAt, stp.Buffer
		s.getPassAt = stp.PassAt
		s.output = stp.Discipline().Output()
		s.release = stp.Discipline().Release
	case kind == "join" && ver == "v1":
		in := make(chan int)
		var released chan struct{}
		if nocopy {
			released = make(chan struct{})
		}
		ctx, cancel := context.WithCancel(context.Background())
		stp, err := j1.VerifNewStepper(j1.Opts[int]{Ctx: ctx, Input: in, JoinSize: size, Released: released, Timeout: timeout, TimeoutInaccuracy: inacc})
		if err != nil {
			cancel()
			return nil, "err " + err.Error()
		}
		interval = stp.InterruptInterval
		s.process = func(_ int, xs []int) { stp.Process(xs[0]) }
		s.pass, s.timeouted, s.setPassAt, s.buffer = stp.Pass, stp.IsTimeouted, stp.SetPassAt, stp.Buffer
		s.getPassAt = stp.PassAt
		s.output = stp.Discipline().Output()
		s.release = func() { released <- struct{}{} }
		s.stop = func() { cancel(); _ = stp }
		s.unrel = stp.Unreleased
	default:
		return nil, "bad-op"
	}
	s.paBefore = s.getPassAt()
	return s, s.snapshot()
}

func (s *jsession) snapshot() string {
	out := "-"
	if len(s.newOut) > 0 {
		out = strings.Join(s.newOut, ";")
	}
	s.newOut = nil
	u := "0"
	if s.unrel != nil && s.unrel() {
		u = "1"
	}
	pa := "0"
	if !s.getPassAt().Equal(s.paBefore) {
		pa = "1"
	}
	s.paBefore = s.getPassAt()
	return fmt.Sprintf("st=%s buf=%s out=%s unrel=%s pa=%s", s.st, listInt(s.buffer()), out, u, pa)
}

func listInt(l []int) string {
	if len(l) == 0 {
		return "-"
	}
	t := make([]string, len(l))
	for i, v := range l {
		t[i] = strconv.Itoa(v)
	}
	return strings.Join(t, ",")
}

func (s *jsession) onOutput(sl []int) {
	s.newOut = append(s.newOut, s.classify(sl)+":"+listInt(sl))
	cp := append([]int(nil), sl...)
	s.outs = append(s.outs, cp)
	if len(sl) == 0 {
		s.fail("C03 an empty slice was written to the output")
	}
	if s.nocopy {
		s.held, s.heldCopy = sl, cp
	} else {
		if cls := s.classify(sl); cls != "fresh" {
			s.fail("C08 copy mode: the delivered slice shares memory with %s", map[string]string{"buf": "the accumulation buffer", "in": "an input slice"}[cls])
		}
		for _, k := range s.kept {
			if len(k) > 0 && dataPtr(k) == dataPtr(sl) {
				s.fail("C08 copy mode: two delivered slices share memory")
			} else if overlap(k, sl) {
				// a delivered slice is the consumer's with its spare capacity: `append` writes there
				s.fail("C08 copy mode: the memory of two delivered slices overlaps (the spare capacity of one covers the other): appending to one changes the other")
			}
		}
		s.kept = append(s.kept, sl)
		s.keptCopy = append(s.keptCopy, cp)
		// the slice is the consumer's, spare capacity included (`append` would use it)
		for ext, i := sl[:cap(sl)], len(sl); i < len(ext); i++ {
			ext[i] = -7777
		}
	}
	s.checkSizes(cp)
}

func (s *jsession) checkSizes(sl []int) {
	if s.kind == "join" && uint(len(sl)) > s.size {
		s.fail("C03 join slice of %d elements > JoinSize %d", len(sl), s.size)
	}
	if s.kind == "unite" && uint(len(sl)) > s.size {
		ok := false
		for _, in := range s.consumed {
			if uint(len(in)) >= s.size && reflect.DeepEqual(in, sl) {
				ok = true
			}
		}
		if !ok {
			s.fail("C03 unite slice of %d elements > JoinSize %d is not a single oversize input slice", len(sl), s.size)
		}
	}
}

// call runs f (which may block awaiting release) and collects the output it produces.
func (s *jsession) call(f func()) {
	done := make(chan struct{})
	go func() { f(); close(done) }()
	s.wait(done)
}

// how long a release may stay untaken before it is reported
var relWait = 5 * time.Second

func (s *jsession) wait(done chan struct{}) {
	for {
		select {
		case sl := <-s.output:
			s.onOutput(sl)
			if s.nocopy {
				// the discipline now waits for the release signal
				s.busy = done
				s.st = "await"
				return
			}
		case <-done:
			// drain whatever is still buffered in the output
			for more := true; more; {
				select {
				case sl := <-s.output:
					s.onOutput(sl)
				default:
					more = false
				}
			}
			s.busy = nil
			if s.st == "await" {
				s.st = "run"
			}
			return
		case <-time.After(20 * time.Second):
			s.st = "hang"
			return
		}
	}
}

func (s *jsession) exec(op string) string {
	s.script = append(s.script, op)
	t := strings.Fields(op)
	switch t[0] {
	case "item", "itemat":
		if s.busy != nil || s.st == "done" {
			return "bad-op"
		}
		if t[0] == "itemat" {
			// the element arrives `e` after passAt (no ticker firing in between)
			e, _ := strconv.ParseInt(t[1], 10, 64)
			s.setPassAt(time.Now().Add(-time.Duration(e)))
			s.paBefore = s.getPassAt()
			t = t[1:]
		}
		id, _ := strconv.Atoi(t[1])
		var xs []int
		if t[2] != "-" {
			for _, f := range strings.Split(t[2], ",") {
				v, _ := strconv.Atoi(f)
				xs = append(xs, v)
			}
		}
		if a := s.arenaN % 2; s.arena[0] != nil && s.arenaPos[a]+len(xs) < len(s.arena[a]) {
			s.arenaN++
			copy(s.arena[a][s.arenaPos[a]:], xs)
			xs = s.arena[a][s.arenaPos[a] : s.arenaPos[a]+len(xs)] // cap reaches to the end of the arena
			s.arenaPos[a] += len(xs)
		}
		s.inputs[id] = xs
		if s.inputCopy == nil {
			s.inputCopy = map[int][]int{}
		}
		s.inputCopy[id] = append([]int(nil), xs...)
		s.consumed = append(s.consumed, append([]int(nil), xs...))
		hadBuf := len(s.buffer()) > 0
		paWas := s.getPassAt()
		nOut := len(s.outs)
		opStart := time.Now()
		s.call(func() { s.process(id, xs) })
		if len(s.outs) > nOut && s.busy == nil && s.st == "run" && s.getPassAt().Before(opStart) {
			// C09 / C10: every delivery restarts the timer (after the write has completed): a timer
			// left at an older moment flushes the next short slice too early, one restarted later
			// keeps elements longer than the bound
			s.fail("C09 a slice was delivered while this element was processed but the timeout timer was not restarted: it still counts from %v before the delivery", opStart.Sub(s.getPassAt()))
		}
		if hadBuf && len(s.outs) == nOut && !s.getPassAt().Equal(paWas) {
			s.fail("C10 accepting an element reset the timeout timer although older elements stay buffered (they can be delayed beyond Timeout)")
		}
	case "tick":
		if s.busy != nil || s.st == "done" || s.timeout <= 0 {
			return "bad-op"
		}
		e, _ := strconv.ParseInt(t[1], 10, 64)
		s.setPassAt(time.Now().Add(-time.Duration(e)))
		s.paBefore = s.getPassAt()
		pa := s.getPassAt()
		if s.timeouted() {
			// C09: a ticker firing cuts a slice short only when Timeout has elapsed since passAt;
			// measured AFTER the test returned, so the elapsed time at the test was not larger
			if el := time.Since(pa); el < s.timeout {
				s.fail("C09 the timeout test succeeds %v after the previous delivery (passAt), Timeout %v: a short slice would be delivered early", el, s.timeout)
			}
			s.ticked = true
			s.call(s.pass)
		} else if time.Duration(e) >= 2*s.timeout && len(s.buffer()) > 0 {
			// C10: twice the Timeout has elapsed since passAt and elements are buffered
			s.fail("C10 the timeout test fails %v after passAt (Timeout %v) although elements are buffered: they stay longer than Timeout*(1+1/floor(100/inaccuracy))", time.Duration(e), s.timeout)
		}
	case "close":
		if s.busy != nil || s.st == "done" {
			return "bad-op"
		}
		s.call(s.pass)
		if s.st != "await" {
			s.st = "done"
			s.finish()
		} else {
			s.st = "await"
			s.closing()
		}
	case "release":
		if s.busy == nil {
			return "bad-op"
		}
		if !reflect.DeepEqual(s.held, s.heldCopy) {
			s.fail("C08 no-copy: the delivered slice changed before the release: %v -> %v", s.heldCopy, s.held)
		}
		if n := len(s.output); n > 0 {
			s.fail("C08 no-copy: %d further slice(s) were written to the output while the delivered slice %v has not been released", n, s.heldCopy)
		}
		done := s.busy
		s.busy = nil
		s.st = "run"
		// the discipline is waiting for this signal (it delivered a slice in no-copy mode and
		// produces nothing further before the release): the signal is taken at once
		relDone := make(chan struct{})
		go func() { s.release(); close(relDone) }()
		select {
		case <-relDone:
		case <-time.After(relWait):
			relWait = 100 * time.Millisecond // the finding is made: do not spend 5 s on every further session
			s.fail("C08 no-copy: the release of the delivered slice %v was not taken within 5s: the discipline is not waiting for it where it has to - it went on although the consumer still owns the slice (further output can be produced before the release)", s.heldCopy)
			s.st = "hang"
			return s.snapshot()
		}
		s.wait(done)
		if s.closed && s.st == "run" {
			s.st = "done"
			s.finish()
		}
	case "stop":
		if s.stop == nil {
			return "bad-op"
		}
		s.stop()
		s.stopped = true
		if s.busy != nil {
			// the select that awaits the release takes the stop branch at once; wait for it, so
			// that nothing races with the following requests, and mask what it may or may not
			// have changed yet (the model does the same); `stopseen` compares it
			select {
			case <-s.busy:
			case <-time.After(5 * time.Second):
				s.fail("C16 v1 join: the send awaiting the release did not return within 5s after Stop/cancel")
			}
			snap := s.snapshot()
			if k := strings.Index(snap, " unrel="); k >= 0 {
				snap = snap[:k] + " unrel=* pa=*"
			}
			return snap
		}
	case "stopseen":
		if s.stop == nil || !s.stopped {
			return "bad-op"
		}
		if s.busy != nil {
			// the select waiting for the release takes the stop branch
			done := s.busy
			s.busy = nil
			<-done
			// the loop's select may still pick a pending input element before it sees the
			// stop signal: the slice the consumer holds must not be touched
			snap := s.snapshot()
			s.process(0, []int{987654321})
			if !reflect.DeepEqual(s.held, s.heldCopy) {
				s.fail("C08 v1: stopped before the release, yet the delivered slice was modified: %v -> %v", s.heldCopy, s.held)
			}
			// the loop returns: its deferred pass() runs.  The slice the consumer still holds
			// must not be delivered a second time (C16: duplicate-free)
			nOut := len(s.outs)
			for i := 0; i < 8 && len(s.outs) == nOut; i++ {
				s.busy = nil
				s.call(s.pass)
			}
			s.busy = nil
			if len(s.outs) != nOut {
				s.fail("C16 v1 join: stopped while the consumer holds a slice it has not released, the deferred pass() delivered %v again", s.outs[len(s.outs)-1])
			}
			s.st = "done"
			s.snapshot()
			return strings.Replace(strings.Replace(snap, "st=await", "st=done", 1), " pa=1", " pa=0", 1)
		}
		s.st = "done"
		// what the deferred pass() does after a stop is a coin toss in Go and not compared
		return strings.Replace(s.snapshot(), " pa=1", " pa=0", 1)
	default:
		return "bad-op"
	}
	return s.snapshot()
}
