package main

import (
	"bufio"
	"flag"
	"fmt"
	"math/rand"
	"os"
	"reflect"
	"strconv"
	"strings"
	"time"

	"verifharness/internal/px"
)

func (s *jsession) closing() { s.closed = true }

// monitors evaluated when the discipline has terminated normally
func (s *jsession) finish() {
	s.closed = true
	var in, out []int
	for _, c := range s.consumed {
		in = append(in, c...)
	}
	// copy mode: the consumer keeps every slice until the output closes and reads them then
	src := s.outs
	if !s.nocopy {
		src = s.kept
	}
	for _, o := range src {
		out = append(out, o...)
	}
	if !reflect.DeepEqual(in, out) && !(len(in) == 0 && len(out) == 0) {
		s.fail("C03 concatenation of the output %v differs from the input %v", out, in)
	}
	// the producer's memory: no input slice may have been written to by the discipline (a
	// producer that sends overlapping windows of one array would lose elements: C03)
	for id, in := range s.inputs {
		if cp, ok := s.inputCopy[id]; ok && len(cp) > 0 && !reflect.DeepEqual(in, cp) {
			s.fail("C03 the discipline modified the memory of input slice %d: %v -> %v (overlapping input slices of one array would lose these elements)", id, cp, in)
			break
		}
	}
	// C08 copy mode: retained slices were never modified; scribbling into them is harmless
	for i, k := range s.kept {
		if !reflect.DeepEqual(k, s.keptCopy[i]) {
			s.fail("C08 copy mode: delivered slice %d was modified after delivery: %v -> %v", i, s.keptCopy[i], k)
		}
	}
	// C09 untimed: greedy batching
	if !s.ticked {
		want := greedy(s.kind, s.size, s.consumed)
		if !reflect.DeepEqual(want, s.outs) && !(len(want) == 0 && len(s.outs) == 0) {
			s.fail("C09 without a timeout the batching %v is not the greedy one %v", s.outs, want)
		}
	}
	// C11 unite: every non-empty input slice lies wholly inside one output slice
	if s.kind == "unite" {
		outs := s.outs
		if !s.nocopy {
			outs = s.kept // what the consumer sees when it reads its retained slices at the end
		}
		s.outs = outs
		oi, pos := 0, 0
		for _, c := range s.consumed {
			if len(c) == 0 {
				continue
			}
			for oi < len(s.outs) && pos == len(s.outs[oi]) {
				oi, pos = oi+1, 0
			}
			if oi >= len(s.outs) || pos+len(c) > len(s.outs[oi]) || !reflect.DeepEqual(s.outs[oi][pos:pos+len(c)], c) {
				s.fail("C11 input slice %v is split across output slices %v", c, s.outs)
				break
			}
			if uint(len(c)) >= s.size && !(pos == 0 && len(s.outs[oi]) == len(c)) {
				s.fail("C11 oversize input slice %v was not delivered as a slice of its own: %v", c, s.outs)
				break
			}
			pos += len(c)
		}
	}
}

// greedy is the specification of the timeout-less batching, written independently.
func greedy(kind string, size uint, inputs [][]int) [][]int {
	var out [][]int
	var buf []int
	flush := func() {
		if len(buf) > 0 {
			out = append(out, buf)
			buf = nil
		}
	}
	for _, in := range inputs {
		if kind == "join" {
			buf = append(buf, in...)
			if uint(len(buf)) >= size {
				flush()
			}
			continue
		}
		if uint(len(in)) >= size {
			flush()
			out = append(out, append([]int(nil), in...))
			continue
		}
		if uint(len(in)+len(buf)) > size {
			flush()
		}
		buf = append(buf, in...)
		if uint(len(buf)) >= size {
			flush()
		}
	}
	flush()
	return out
}

type jgen struct {
	w   *px.Writer
	r   *rand.Rand
	s   *jsession
	cls string
	n   int
}

func (g *jgen) do(op string) string {
	rep := g.s.exec(op)
	g.w.Case(g.cls, true, op, rep)
	if strings.HasPrefix(rep, "st=await") && op != "stop" && op != "stopseen" && op != "release" {
		// the consumer holds the slice for a while; nothing else can happen meanwhile
		if g.s.stop != nil && g.r.Intn(6) == 0 {
			g.do("stop")
			return g.do("stopseen")
		}
		return g.do("release")
	}
	return rep
}

func (g *jgen) script(timed bool) {
	r := g.r
	kind := []string{"join", "unite", "join"}[r.Intn(3)]
	ver := "v2"
	if kind == "join" && r.Intn(2) == 0 {
		ver = "v1"
	}
	size := uint(1 + r.Intn(6))
	nocopy := r.Intn(2) == 0
	timeout := time.Duration(0)
	if timed {
		timeout = time.Duration(1+r.Intn(5)) * time.Second
	}
	s, rep := newJSession(g.w, kind, ver, size, timeout, nocopy)
	if s == nil {
		g.w.Case("cfg-error", false, fmt.Sprintf("jcfg %s %s %d %d 0", kind, ver, size, int64(timeout)), rep)
		return
	}
	g.s = s
	g.cls = fmt.Sprintf("%s-%s", kind, ver)
	if nocopy {
		g.cls += "-nocopy"
	}
	if timed {
		g.cls += "-timed"
	}
	g.w.Case(g.cls, true, s.script[0], rep)
	steps := 3 + r.Intn(14)
	for i := 0; i < steps; i++ {
		if timed && r.Intn(3) == 0 {
			// away from the boundary by at least a twentieth of the timeout (50 ms or more, far
			// beyond the time a call takes): half, nine tenths, just over, twice the timeout
			e := []int64{int64(timeout) / 2, int64(timeout) * 2, int64(timeout) / 10 * 9, int64(timeout) / 20 * 21}[r.Intn(4)]
			if strings.HasPrefix(g.do(fmt.Sprintf("tick %d", e)), "st=done") {
				return
			}
			continue
		}
		if ver == "v1" && r.Intn(25) == 0 {
			g.do("stop")
			g.do("stopseen")
			return
		}
		g.n++
		var xs []string
		ln := 1
		if kind == "unite" {
			switch r.Intn(6) {
			case 0:
				ln = 0
			case 1:
				ln = int(size)
			case 2:
				ln = int(size) + 1 + r.Intn(3)
			default:
				ln = 1 + r.Intn(int(size))
			}
		}
		for k := 0; k < ln; k++ {
			xs = append(xs, strconv.Itoa(g.n*100+k))
		}
		l := "-"
		if len(xs) > 0 {
			l = strings.Join(xs, ",")
		}
		op := fmt.Sprintf("item %d %s", g.n, l)
		if timed && r.Intn(4) == 0 {
			// an element accepted half a timeout / two timeouts after passAt
			e := int64(timeout) / 2
			if r.Intn(2) == 0 {
				e = int64(timeout) * 2
			}
			op = fmt.Sprintf("itemat %d %d %s", e, g.n, l)
		}
		if strings.HasPrefix(g.do(op), "st=done") {
			return
		}
	}
	g.do("close")
}

func main() {
	tier := flag.String("tier", "quick", "quick|thorough")
	out := flag.String("out", "", "output directory")
	replay := flag.String("replay", "", "file with scripts to re-run")
	family := flag.String("family", "mixed", "mixed|untimed")
	n := flag.Int("n", 0, "number of scripts")
	flag.Parse()
	if *out == "" {
		fmt.Fprintln(os.Stderr, "missing -out")
		os.Exit(2)
	}
	w := px.NewWriter(*out)
	r := rand.New(rand.NewSource(px.Seed()))
	if *replay != "" {
		replayJ(w, *replay)
		w.Close(map[string]any{"family": "replay", "tier": *tier, "seed": px.Seed()})
		return
	}
	count := *n
	if count == 0 {
		count = 1500
		if *tier == "thorough" {
			count = 40000
		}
	}
	g := &jgen{w: w, r: r}
	for i := 0; i < count; i++ {
		g.script(*family != "untimed" && i%2 == 0)
	}
	w.Close(map[string]any{"family": *family, "tier": *tier, "seed": px.Seed(), "scripts": count})
}

func replayJ(w *px.Writer, path string) {
	f, err := os.Open(path)
	if err != nil {
		panic(err)
	}
	defer f.Close()
	sc := bufio.NewScanner(f)
	sc.Buffer(make([]byte, 1<<20), 1<<24)
	var s *jsession
	for sc.Scan() {
		line := strings.TrimSpace(sc.Text())
		if line == "" {
			continue
		}
		t := strings.Fields(line)
		if t[0] == "jcfg" && len(t) == 6 {
			size, _ := strconv.ParseUint(t[3], 10, 64)
			to, _ := strconv.ParseInt(t[4], 10, 64)
			var rep string
			s, rep = newJSession(w, t[1], t[2], uint(size), time.Duration(to), t[5] == "1")
			w.Case("replay", true, line, rep)
			continue
		}
		if s == nil {
			w.Case("replay", true, line, "bad-op")
			continue
		}
		w.Case("replay", true, line, s.exec(line))
	}
}
