// Command blackbox: correspondence class C — the real disciplines run with their own
// goroutines, channels and the real clock (New, main, loop, the select loops, the
// simplified disciplines' handlers: the glue the steppers call around but never through).
//
//   - deterministic cases are compared with the model exactly (`jbatch`: join/unite without
//     a timeout and with a timeout far longer than the run);
//   - every scenario evaluates the properties' own predicates on the observed trace
//     (monitors): the failing-input search;
//   - after every termination path a goroutine-profile probe looks for goroutines that still
//     have a frame inside the library (C19).  Built with -race the same scenarios are the
//     failing-input search of C20.
//
// usage: blackbox -scenario prio2|simple2|prio1|simple1|join|joinshared|limit|alone|faulty|dynamic|all -tier T -out DIR
package main

import (
	"flag"
	"fmt"
	"math/rand"
	"os"
	"runtime"
	"strings"
	"sync"
	"time"

	"verifharness/internal/px"
)

type bb struct {
	w   *px.Writer
	r   *rand.Rand
	mu  sync.Mutex
	cur string // scenario family being run: the replay of a failure re-runs that family
	// goroutines already reported as leaked: reported once, not waited for again
	reported map[string]bool
	counts   map[string]int
	thorough bool
}

// cycle: the modes of a scenario are taken in turn, so that even the quick tier runs each
func (b *bb) cycle(name string, n int) int {
	v := b.counts[name]
	b.counts[name]++
	return v % n
}

func (b *bb) fail(format string, args ...any) {
	b.mu.Lock()
	defer b.mu.Unlock()
	b.w.Fail(format+" [replay: note "+b.cur+" seed="+fmt.Sprint(px.Seed())+"]", args...)
}

// note records one scenario run in the request stream (the model answers `ok`): what was
// run, for the evidence; monitor failures travel separately, tagged with their property.
func (b *bb) note(name string, desc string, before int) {
	b.mu.Lock()
	defer b.mu.Unlock()
	_ = before
	b.w.Case(name, true, "note "+name+" "+strings.ReplaceAll(desc, " ", "_"), "ok")
}

func (b *bb) fails() int {
	b.mu.Lock()
	defer b.mu.Unlock()
	return b.w.Stats["monitor_fail"]
}

// leakProbe: C19 — after a discipline has terminated no goroutine may keep a frame inside
// the library.  Goroutines need a moment to unwind, hence the grace period.
func (b *bb) leakProbe(what string) {
	deadline := time.Now().Add(3 * time.Second)
	var last string
	for {
		buf := make([]byte, 1<<20)
		n := runtime.Stack(buf, true)
		leaked := ""
		for _, g := range strings.Split(string(buf[:n]), "\n\n") {
			id := g
			if k := strings.Index(g, " ["); k > 0 {
				id = g[:k]
			}
			if b.reported[id] {
				continue
			}
			if strings.Contains(g, "github.com/akramarenkov/cqos") && !strings.Contains(g, "verifharness/cmd/blackbox.(*bb).leakProbe") {
				// goroutines of the harness that merely call into the library do not exist
				// once a scenario is over
				leaked = g
				break
			}
		}
		if leaked == "" {
			return
		}
		last = leaked
		if time.Now().After(deadline) {
			lines := strings.Split(last, "\n")
			if len(lines) > 7 {
				lines = lines[:7]
			}
			if k := strings.Index(last, " ["); k > 0 {
				b.reported[last[:k]] = true
			}
			b.fail("C19 after %s a goroutine of the library is still alive: %s", what, strings.Join(lines, " | "))
			return
		}
		time.Sleep(5 * time.Millisecond)
	}
}

func main() {
	scenario := flag.String("scenario", "all", "")
	family := flag.String("family", "", "alias of -scenario")
	tier := flag.String("tier", "quick", "")
	out := flag.String("out", "", "")
	replay := flag.String("replay", "", "(replays re-run the scenario families named on the note lines)")
	n := flag.Int("n", 0, "repetitions per scenario")
	flag.Parse()
	if *family != "" {
		*scenario = *family
	}
	if *out == "" {
		fmt.Fprintln(os.Stderr, "missing -out")
		os.Exit(2)
	}
	w := px.NewWriter(*out)
	b := &bb{w: w, r: rand.New(rand.NewSource(px.Seed())), reported: map[string]bool{}, counts: map[string]int{}, thorough: *tier == "thorough"}
	reps := *n
	if reps == 0 {
		reps = 8 // >= the number of modes of any scenario (see cycle)
		if *tier == "thorough" {
			reps = 60
		}
	}
	want := map[string]bool{}
	if *replay != "" {
		data, _ := os.ReadFile(*replay)
		for _, line := range strings.Split(string(data), "\n") {
			f := strings.Fields(line)
			if len(f) >= 2 && f[0] == "note" {
				want[f[1]] = true
			}
			if len(f) >= 1 && f[0] == "jbatch" {
				want["join"] = true
			}
		}
	} else {
		for _, s := range strings.Split(*scenario, ",") {
			want[s] = true
		}
	}
	all := want["all"]
	// watchdog: a scenario that does not finish is itself a failing input (something neither
	// terminates nor times out); report it with the goroutines that are still running
	progress := make(chan struct{}, 1)
	go func() {
		for {
			select {
			case <-progress:
			case <-time.After(90 * time.Second):
				buf := make([]byte, 1<<20)
				n := runtime.Stack(buf, true)
				var lib []string
				for _, g := range strings.Split(string(buf[:n]), "\n\n") {
					if strings.Contains(g, "github.com/akramarenkov/cqos") {
						l := strings.Split(g, "\n")
						if len(l) > 5 {
							l = l[:5]
						}
						lib = append(lib, strings.Join(l, " | "))
					}
					if len(lib) >= 4 {
						break
					}
				}
				b.mu.Lock()
				b.w.Fail("C19 scenario %s did not finish within 90s; goroutines inside the library: %s [replay: note %s seed=%d]", b.cur, strings.Join(lib, " ## "), b.cur, px.Seed())
				b.w.Close(map[string]any{"family": *scenario, "tier": *tier, "seed": px.Seed(), "aborted": "watchdog"})
				os.Exit(0)
			}
		}
	}()
	for i := 0; i < reps; i++ {
		progress <- struct{}{}
		if b.fails() >= 25 {
			break // enough failing inputs; the rest of the run would only repeat them
		}
		if all || want["prio2"] {
			b.cur = "prio2"
			b.scenarioPrio2()
		}
		if all || want["simple2"] {
			b.cur = "simple2"
			b.scenarioSimple2()
		}
		if all || want["prio1"] {
			b.cur = "prio1"
			b.scenarioPrio1()
		}
		if all || want["simple1"] {
			b.cur = "simple1"
			b.scenarioSimple1()
		}
		if all || want["join"] {
			b.cur = "join"
			b.scenarioJoin()
		}
		if want["joinshared"] || (all && i%3 == 0) {
			b.cur = "joinshared"
			b.scenarioJoinShared()
		}
		if all || want["limit"] {
			b.cur = "limit"
			b.scenarioLimit()
		}
		if all || want["alone"] {
			b.cur = "alone"
			b.scenarioAlone()
		}
		if all || want["faulty"] {
			b.cur = "faulty"
			b.scenarioFaulty()
		}
		if all || want["dynamic"] {
			b.cur = "dynamic"
			b.scenarioDynamic()
		}
		if want["utils"] || (all && i%4 == 2) {
			b.cur = "utils"
			b.scenarioUtils()
		}
		if want["saturated"] || (all && i%4 == 1) {
			b.cur = "saturated"
			b.scenarioSaturated()
		}
	}
	w.Close(map[string]any{"family": *scenario, "tier": *tier, "seed": px.Seed(), "repetitions": reps})
}
