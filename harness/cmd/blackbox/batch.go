package main

import (
	"context"
	"fmt"
	"math"
	"reflect"
	"runtime"
	"strconv"
	"strings"
	"sync"
	"time"

	j1 "github.com/akramarenkov/cqos/join"
	j2 "github.com/akramarenkov/cqos/v2/join"
	"github.com/akramarenkov/cqos/v2/join/unite"
	"github.com/akramarenkov/cqos/v2/limit"
	"verifharness/internal/px"
)

func slicesStr(l [][]int) string {
	if len(l) == 0 {
		return "-"
	}
	s := make([]string, len(l))
	for i, x := range l {
		if len(x) == 0 {
			s[i] = "e"
			continue
		}
		t := make([]string, len(x))
		for k, v := range x {
			t[k] = strconv.Itoa(v)
		}
		s[i] = strings.Join(t, ",")
	}
	return strings.Join(s, ";")
}

// canary measures how late this process' goroutines are woken while a timed scenario runs: the
// upper-bound monitors (C10, C12) add it to their slack, so an overloaded machine cannot
// turn scheduling latency into an alarm.
type canary struct {
	stop chan struct{}
	done chan struct{}
	max  time.Duration
}

func startCanary() *canary {
	c := &canary{stop: make(chan struct{}), done: make(chan struct{})}
	go func() {
		defer close(c.done)
		for {
			t := time.Now()
			select {
			case <-c.stop:
				return
			case <-time.After(time.Millisecond):
			}
			if lag := time.Since(t) - time.Millisecond; lag > c.max {
				c.max = lag
			}
		}
	}()
	return c
}

func (c *canary) lag() time.Duration {
	close(c.stop)
	<-c.done
	return c.max
}

type outRec struct {
	data []int
	at   time.Time
}

// runBatch runs a real join / unite discipline on the given input slices (join: flattened
// elements) and returns the output slices with their receive times.
func (b *bb) runBatch(kind, ver string, size uint, nocopy bool, timeout time.Duration, inacc uint, inCap int,
	inputs [][]int, pause func(i int)) (outs []outRec, offered, accepted []time.Time, ok bool) {
	var output <-chan []int
	var release func()
	var feed func(i int, xs []int) bool
	var closeIn func()
	abort := make(chan struct{}) // closed when the output was closed although the producer has not finished
	switch {
	case kind == "join" && ver == "v2":
		in := make(chan int, inCap)
		d, err := j2.New(j2.Opts[int]{Input: in, JoinSize: size, NoCopy: nocopy, Timeout: timeout, TimeoutInaccuracy: inacc})
		if err != nil {
			b.fail("C03 join.New: %v", err)
			return nil, nil, nil, false
		}
		output, release = d.Output(), d.Release
		feed = func(_ int, xs []int) bool {
			for _, x := range xs {
				select {
				case in <- x:
				case <-abort:
					return false
				}
			}
			return true
		}
		closeIn = func() { close(in) }
	case kind == "unite":
		in := make(chan []int, inCap)
		d, err := unite.New(unite.Opts[int]{Input: in, JoinSize: size, NoCopy: nocopy, Timeout: timeout, TimeoutInaccuracy: inacc})
		if err != nil {
			b.fail("C03 unite.New: %v", err)
			return nil, nil, nil, false
		}
		output, release = d.Output(), d.Release
		feed = func(_ int, xs []int) bool {
			select {
			case in <- xs:
				return true
			case <-abort:
				return false
			}
		}
		closeIn = func() { close(in) }
	default: // v1 join
		in := make(chan int, inCap)
		var released chan struct{}
		if nocopy {
			released = make(chan struct{})
		}
		d, err := j1.New(j1.Opts[int]{Ctx: context.Background(), Input: in, JoinSize: size, Released: released, Timeout: timeout, TimeoutInaccuracy: inacc})
		if err != nil {
			b.fail("C03 v1 join.New: %v", err)
			return nil, nil, nil, false
		}
		output = d.Output()
		release = func() { released <- struct{}{} }
		feed = func(_ int, xs []int) bool {
			for _, x := range xs {
				select {
				case in <- x:
				case <-abort:
					return false
				}
			}
			return true
		}
		closeIn = func() { close(in) }
	}
	accepted = make([]time.Time, len(inputs))
	offered = make([]time.Time, len(inputs))
	var kept [][]int
	defer func() {
		for i, sl := range kept {
			for k := range sl {
				if i < len(outs) && k < len(outs[i].data) && sl[k] != -outs[i].data[k]-1 {
					b.fail("C08 %s %s copy mode: a slice kept and modified by the consumer was changed by the discipline: element %d is %d, expected %d", kind, ver, k, sl[k], -outs[i].data[k]-1)
					return
				}
			}
		}
	}()
	// the producer keeps (and re-reads) what it wrote: the discipline must not hand the
	// producer's memory to a consumer that is entitled to modify what it receives (copy mode)
	saved := make([][]int, len(inputs))
	for i, xs := range inputs {
		saved[i] = append([]int(nil), xs...)
	}
	prodDone := make(chan struct{})
	go func() {
		defer close(prodDone)
		sum := 0
		for i, xs := range inputs {
			if pause != nil {
				pause(i)
			}
			offered[i] = time.Now()
			if !feed(i, xs) {
				return
			}
			accepted[i] = time.Now()
			if !nocopy {
				for _, prev := range inputs[:i+1] {
					for _, v := range prev {
						sum += v
					}
				}
			}
		}
		closeIn()
		_ = sum
	}()
	defer func() {
		select {
		case <-prodDone:
		case <-time.After(3 * time.Second):
			// the discipline stopped reading its input although the input was never closed
			n := 0
			for i := range accepted {
				if !accepted[i].IsZero() {
					n++
				}
			}
			var cur []int
			if n < len(inputs) {
				cur = inputs[n]
			}
			b.fail("C03 %s %s nocopy=%v timeout=%v: the output was closed although the input is still open - the producer is blocked writing input slice %d of %d (%v), which is never read; delivered so far: %s",
				kind, ver, nocopy, timeout, n, len(inputs), cur, slicesStr(func() [][]int {
					var d [][]int
					for _, o := range outs {
						d = append(d, o.data)
					}
					return d
				}()))
			if kind == "unite" {
				b.fail("C11 unite %s nocopy=%v timeout=%v: input slices %d.. of %v appear in no output slice: the discipline stopped reading an open input", ver, nocopy, timeout, n, inputs)
			}
			close(abort)
			<-prodDone
			ok = false
		}
		// (in no-copy mode the consumer of this harness only reads what it receives)
		for i, xs := range inputs {
			if !reflect.DeepEqual(xs, saved[i]) && !(len(xs) == 0 && len(saved[i]) == 0) {
				b.fail("C08 %s %s nocopy=%v: the producer's input slice %d changed from %v to %v (in copy mode: a delivered slice, which the consumer modifies, shares its memory; in no-copy mode: the discipline wrote into it)", kind, ver, nocopy, i, saved[i], xs)
				return
			}
		}
	}()
	deadline := time.After(30 * time.Second)
	for {
		select {
		case sl, open := <-output:
			if !open {
				return outs, offered, accepted, true
			}
			outs = append(outs, outRec{append([]int(nil), sl...), time.Now()})
			if nocopy {
				release()
			} else {
				// copy mode: the slice belongs to the consumer, which keeps and modifies it
				// while the discipline goes on (C08; under -race: C20)
				for k := range sl {
					sl[k] = -sl[k] - 1
				}
				// ... spare capacity included (`append` would use it)
				for ext, k := sl[:cap(sl)], len(sl); k < len(ext); k++ {
					ext[k] = -7777
				}
				kept = append(kept, sl)
			}
		case <-deadline:
			b.fail("C03 %s %s: the output was not closed within 30s after the input was closed", kind, ver)
			return outs, offered, accepted, false
		}
	}
}

// A constructor call that is rejected (here: TimeoutInaccuracy 150 %) must leave nothing behind:
// the caller corrects the options and creates the discipline on the SAME input channel, and
// everything written to it comes out of that discipline (C03, C11); no goroutine of the rejected
// call exists (C19).
func (b *bb) rejectedCtor() {
	before := b.fails()
	kind := []string{"join v2", "unite v2", "join v1"}[b.cycle("rejected-ctor", 3)]
	const n = 40
	var sent []int
	var got []int
	var outs [][]int
	ok := true
	switch kind {
	case "unite v2":
		in := make(chan []int, 2)
		if _, err := unite.New(unite.Opts[int]{Input: in, JoinSize: 4, Timeout: 50 * time.Millisecond, TimeoutInaccuracy: 150}); err == nil {
			close(in)
			b.note("join", "rejected-ctor "+kind+": accepted", before)
			return
		}
		d, err := unite.New(unite.Opts[int]{Input: in, JoinSize: 4})
		if err != nil {
			b.fail("C03 unite.New: %v", err)
			return
		}
		var slices [][]int
		go func() {
			for i := 0; i < n; i++ {
				sl := make([]int, 1+i%5)
				for k := range sl {
					sl[k] = 1000*(i+1) + k
				}
				in <- sl
			}
			close(in)
		}()
		for i := 0; i < n; i++ {
			sl := make([]int, 1+i%5)
			for k := range sl {
				sl[k] = 1000*(i+1) + k
			}
			slices = append(slices, sl)
			sent = append(sent, sl...)
		}
		tmo := time.After(10 * time.Second)
	loopU:
		for {
			select {
			case o, open := <-d.Output():
				if !open {
					break loopU
				}
				outs = append(outs, append([]int(nil), o...))
				got = append(got, o...)
			case <-tmo:
				ok = false
				break loopU
			}
		}
		if ok {
			for i, sl := range slices {
				found := 0
				for _, o := range outs {
					for k := 0; k+len(sl) <= len(o); k++ {
						if reflect.DeepEqual(o[k:k+len(sl)], sl) {
							found++
						}
					}
				}
				if found != 1 {
					b.fail("C11 unite v2, discipline created on the input of a rejected New() call (TimeoutInaccuracy 150): input slice %d %v appears in %d output slices instead of exactly one", i, sl, found)
					break
				}
			}
		}
	default:
		in := make(chan int, 2)
		for i := 1; i <= n; i++ {
			sent = append(sent, i)
		}
		var output <-chan []int
		if kind == "join v2" {
			if _, err := j2.New(j2.Opts[int]{Input: in, JoinSize: 4, Timeout: 50 * time.Millisecond, TimeoutInaccuracy: 150}); err == nil {
				close(in)
				b.note("join", "rejected-ctor "+kind+": accepted", before)
				return
			}
			d, err := j2.New(j2.Opts[int]{Input: in, JoinSize: 4})
			if err != nil {
				b.fail("C03 join.New: %v", err)
				return
			}
			output = d.Output()
		} else {
			if _, err := j1.New(j1.Opts[int]{Ctx: context.Background(), Input: in, JoinSize: 4, Timeout: 50 * time.Millisecond, TimeoutInaccuracy: 150}); err == nil {
				close(in)
				b.note("join", "rejected-ctor "+kind+": accepted", before)
				return
			}
			d, err := j1.New(j1.Opts[int]{Ctx: context.Background(), Input: in, JoinSize: 4})
			if err != nil {
				b.fail("C03 v1 join.New: %v", err)
				return
			}
			output = d.Output()
		}
		go func() {
			for _, x := range sent {
				in <- x
			}
			close(in)
		}()
		tmo := time.After(10 * time.Second)
	loopJ:
		for {
			select {
			case o, open := <-output:
				if !open {
					break loopJ
				}
				got = append(got, o...)
			case <-tmo:
				ok = false
				break loopJ
			}
		}
	}
	if !ok {
		b.fail("C03 %s, discipline created on the input of a rejected New() call: the output was not closed within 10s after the input was closed (%d of %d elements received)", kind, len(got), len(sent))
	} else if !reflect.DeepEqual(got, sent) {
		b.fail("C03 %s, discipline created on the input of a rejected New() call (TimeoutInaccuracy 150): the output slices concatenate to %d elements %v..., %d were written: something else reads the input", kind, len(got), head(got, 8), len(sent))
	}
	b.leakProbe("rejected constructor call of " + kind)
	b.note("join", "rejected-ctor "+kind, before)
}

func head(l []int, n int) []int {
	if len(l) > n {
		return l[:n]
	}
	return l
}

// What New makes of the timing options (through the hook VerifTiming, on disciplines created by
// the real constructors): the timeout test uses exactly the Timeout that was asked for, and the
// ticker period is what calcInterruptInterval (tied to the model by the pure family c10) says -
// otherwise elements stay longer than Timeout*(1+1/floor(100/TimeoutInaccuracy)) (C10) or slices
// are cut short before Timeout has passed (C09).
func (b *bb) ctorTiming() {
	before := b.fails()
	timeouts := []time.Duration{time.Second, 100 * time.Millisecond, 1500 * time.Millisecond, 777777 * time.Microsecond, 40 * time.Millisecond, time.Duration(1+b.r.Intn(5000)) * time.Millisecond}
	inaccs := []uint{0, 25, 30, 33, 15, 14, 11, 9, 50, 100, 1, uint(1 + b.r.Intn(100))}
	for _, tmo := range timeouts {
		for _, inacc := range inaccs {
			norm := inacc
			if norm == 0 {
				norm = 25
			}
			for _, kind := range []string{"join v1", "join v2", "unite v2"} {
				var gotT, gotI, wantI time.Duration
				var err, werr error
				switch kind {
				case "join v1":
					in := make(chan int)
					wantI, werr = j1.VerifCalcInterruptInterval(tmo, norm)
					var d *j1.Discipline[int]
					d, err = j1.New(j1.Opts[int]{Ctx: context.Background(), Input: in, JoinSize: 3, Timeout: tmo, TimeoutInaccuracy: inacc})
					if err == nil {
						gotT, gotI = d.VerifTiming()
						d.Stop()
					}
				case "join v2":
					in := make(chan int)
					wantI, werr = j2.VerifCalcInterruptInterval(tmo, norm)
					var d *j2.Discipline[int]
					d, err = j2.New(j2.Opts[int]{Input: in, JoinSize: 3, Timeout: tmo, TimeoutInaccuracy: inacc})
					if err == nil {
						gotT, gotI = d.VerifTiming()
						close(in)
						for range d.Output() {
						}
					}
				default:
					in := make(chan []int)
					wantI, werr = unite.VerifCalcInterruptInterval(tmo, norm)
					var d *unite.Discipline[int]
					d, err = unite.New(unite.Opts[int]{Input: in, JoinSize: 3, Timeout: tmo, TimeoutInaccuracy: inacc})
					if err == nil {
						gotT, gotI = d.VerifTiming()
						close(in)
						for range d.Output() {
						}
					}
				}
				if (err == nil) != (werr == nil) {
					b.fail("C10 constructor %s: New(Timeout %v, TimeoutInaccuracy %d) returned error %v, the interval calculation says %v", kind, tmo, inacc, err, werr)
					continue
				}
				if err != nil {
					continue
				}
				if gotT > tmo || gotI != wantI {
					b.fail("C10 constructor %s: New(Timeout %v, TimeoutInaccuracy %d) works with the timeout %v and the ticker period %v (asked for: %v, period %v): an element can stay up to timeout + period = %v, more than Timeout*(1+1/floor(100/TimeoutInaccuracy)) = %v", kind, tmo, inacc, gotT, gotI, tmo, wantI, gotT+gotI, tmo+wantI)
				}
				if gotT < tmo {
					b.fail("C09 constructor %s: New(Timeout %v, TimeoutInaccuracy %d) works with the timeout %v: a slice is cut short before Timeout has passed", kind, tmo, inacc, gotT)
				}
			}
		}
	}
	b.leakProbe("disciplines of the constructor probe")
	b.note("join", "ctor-timing", before)
}

// C10 after a timeout flush: the ticker keeps its period.  Timeout 800 ms, inaccuracy 25 % (period
// 200 ms), JoinSize 4, an unbuffered input, a consumer that is always ready.  The discipline first
// sits idle for more than Timeout + period (a timeout "flush" of the empty buffer happens), then
// five elements arrive at once: four leave as a full slice, the fifth must leave within
// Timeout*(1+1/4) = 1 s after it was accepted (plus scheduling latency) although the input stays
// open and silent.
func (b *bb) tailAfterFlush() {
	before := b.fails()
	const tmo = 800 * time.Millisecond
	const inacc = 25
	kind := []string{"join v1", "join v2"}[b.cycle("tail-after-flush", 2)]
	in := make(chan int)
	var output <-chan []int
	var stop func()
	if kind == "join v1" {
		d, err := j1.New(j1.Opts[int]{Ctx: context.Background(), Input: in, JoinSize: 4, Timeout: tmo, TimeoutInaccuracy: inacc})
		if err != nil {
			b.fail("C10 v1 join.New: %v", err)
			return
		}
		output, stop = d.Output(), d.Stop
	} else {
		d, err := j2.New(j2.Opts[int]{Input: in, JoinSize: 4, Timeout: tmo, TimeoutInaccuracy: inacc})
		if err != nil {
			b.fail("C10 join.New: %v", err)
			return
		}
		output, stop = d.Output(), func() {}
	}
	type rec struct {
		sl []int
		at time.Time
	}
	recs := make(chan rec, 8)
	go func() {
		for sl := range output {
			recs <- rec{append([]int(nil), sl...), time.Now()}
		}
		close(recs)
	}()
	time.Sleep(tmo + tmo/4 + tmo/10) // idle: the first timeout test has succeeded by now
	cn := startCanary()
	var accepted time.Time
	for x := 1; x <= 5; x++ {
		in <- x
		accepted = time.Now() // the write of an unbuffered channel returns when the element was taken
	}
	bound := tmo + tmo/4 + 200*time.Millisecond
	var tail time.Duration
	got := 0
	deadline := time.After(4 * tmo)
wait:
	for got < 5 {
		select {
		case r, ok := <-recs:
			if !ok {
				break wait
			}
			got += len(r.sl)
			if got == 5 {
				tail = r.at.Sub(accepted)
			}
		case <-deadline:
			break wait
		}
	}
	lag := cn.lag()
	if got < 5 {
		b.fail("C10 %s after a timeout flush: the element accepted last (input open and silent afterwards) was not delivered within %v; Timeout %v, inaccuracy %d%%, bound Timeout*(1+1/4) = %v", kind, 4*tmo, tmo, inacc, tmo+tmo/4)
	} else if tail > bound+5*lag {
		b.fail("C10 %s after a timeout flush: an element stayed %v inside the discipline while the input was open and silent; Timeout %v, inaccuracy %d%%: bound Timeout*(1+1/4) = %v (+ %v of slack for scheduling, measured lag %v)", kind, tail, tmo, inacc, tmo+tmo/4, 200*time.Millisecond+5*lag, lag)
	}
	close(in)
	stop()
	for range recs {
	}
	b.leakProbe("termination of " + kind + " after the tail probe")
	b.note("join", "tail-after-flush "+kind, before)
}

func (b *bb) scenarioJoin() {
	if b.cycle("join-rejected", 2) == 0 {
		b.rejectedCtor()
	}
	if b.cycle("join-tail", 4) == 2 {
		b.tailAfterFlush()
	}
	if b.cycle("join-ctor-timing", 4) == 1 {
		b.ctorTiming()
	}
	r := b.r
	kind := []string{"join", "unite", "join"}[r.Intn(3)]
	ver := "v2"
	if kind == "join" && r.Intn(2) == 0 {
		ver = "v1"
	}
	size := uint(1 + r.Intn(6))
	nocopy := r.Intn(2) == 0
	inCap := r.Intn(4)
	var inputs [][]int
	next := 1
	cnt := r.Intn(25)
	// the smallest sizes, with empty input slices among the others, every few runs
	small := b.cycle("join-small-size", 4) == 2
	if small {
		kind, ver = "unite", "v2"
		size = uint(1 + b.cycle("join-small-size-n", 2))
		cnt = 6 + r.Intn(10)
	}
	for i := 0; i < cnt; i++ {
		ln := 1
		if small && i%3 == 1 {
			inputs = append(inputs, []int{})
			continue
		}
		if kind == "unite" {
			switch r.Intn(6) {
			case 0:
				ln = 0
			case 1:
				ln = int(size)
			case 2:
				ln = int(size) + 1 + r.Intn(3)
			default:
				ln = 1 + r.Intn(int(size))
			}
		}
		var xs []int
		for k := 0; k < ln; k++ {
			xs = append(xs, next)
			next++
		}
		if kind == "join" {
			xs = []int{next}
			next++
		}
		inputs = append(inputs, xs)
	}

	// (1) deterministic: no timeout (loopUntimeouted) and a timeout far longer than the run
	// (loop with the ticker): the unique greedy batching, compared with the model
	// ... and a negative timeout, which means "no timeout" just as zero does
	for _, to := range []time.Duration{0, time.Hour, -time.Second} {
		before := b.fails()
		outs, _, _, ok := b.runBatch(kind, ver, size, nocopy, to, 25, inCap, inputs, nil)
		var data [][]int
		for _, o := range outs {
			data = append(data, o.data)
			if len(o.data) == 0 {
				b.fail("C03 %s %s size=%d timeout=%v: an empty slice was delivered", kind, ver, size, to)
				if kind == "unite" {
					b.fail("C11 unite %s size=%d nocopy=%v timeout=%v: an empty output slice was delivered - an empty input slice must produce nothing (inputs %s)", ver, size, nocopy, to, slicesStr(inputs))
				}
				break
			}
		}
		nc := 0
		if nocopy {
			nc = 1
		}
		if ok {
			b.mu.Lock()
			b.w.Case("jbatch:"+kind+"-"+ver, true, fmt.Sprintf("jbatch %s %s %d %d %s", kind, ver, size, nc, slicesStr(inputs)), slicesStr(data))
			b.mu.Unlock()
		}
		b.leakProbe(fmt.Sprintf("termination of %s %s", ver, kind))
		b.note("join", fmt.Sprintf("%s %s size=%d nocopy=%v timeout=%v", kind, ver, size, nocopy, to), before)
	}

	// (2) timed: a short timeout, a producer that pauses; monitors C03 / C09 / C10 / C11
	before := b.fails()
	timeout := time.Duration(20+r.Intn(30)) * time.Millisecond
	if ver == "v1" {
		timeout = time.Duration(60+r.Intn(40)) * time.Millisecond // interval must reach 10 ms
	}
	inacc := uint([]int{10, 25, 50}[r.Intn(3)])
	if ver == "v1" && inacc == 10 {
		inacc = 25 // v1: Timeout/divider must reach the reliably measurable 10 ms
	}
	if len(inputs) > 6 {
		inputs = inputs[:6]
	}
	stallAt := -1
	if len(inputs) > 1 {
		stallAt = 1 + r.Intn(len(inputs)-1)
	}
	created := time.Now()
	cn := startCanary()
	stall := 3*timeout + 400*time.Millisecond
	outs, offered, accepted, ok := b.runBatch(kind, ver, size, nocopy, timeout, inacc, inCap, inputs, func(i int) {
		if i == stallAt {
			time.Sleep(stall)
		}
	})
	lag := cn.lag()
	if ok {
		var in, out []int
		for _, x := range inputs {
			in = append(in, x...)
		}
		for _, o := range outs {
			out = append(out, o.data...)
			if len(o.data) == 0 {
				b.fail("C03 timed %s %s: an empty slice was delivered", kind, ver)
				if kind == "unite" {
					b.fail("C11 timed unite %s size=%d: an empty output slice was delivered - an empty input slice must produce nothing", ver, size)
				}
			}
			if kind == "join" && uint(len(o.data)) > size {
				b.fail("C03 timed join: slice of %d > JoinSize %d", len(o.data), size)
			}
		}
		if !reflect.DeepEqual(in, out) && !(len(in) == 0 && len(out) == 0) {
			b.fail("C03 timed %s %s size=%d nocopy=%v: output %v differs from input %v", kind, ver, size, nocopy, out, in)
		}
		// C09 timed: a short, non-final slice is delivered no earlier than Timeout after the
		// previous slice was delivered (or after creation).  Sound direction only: the slice is
		// received no earlier than it was sent, and the previous slice was sent no earlier than
		// the producer started to offer the input that completed it.
		pos := 0
		for i, o := range outs {
			maximal := uint(len(o.data)) >= size
			if kind == "unite" && !maximal {
				// maximal also if the next input slice would not have fitted
				consumed := 0
				idx := 0
				for idx < len(inputs) && consumed < pos+len(o.data) {
					consumed += len(inputs[idx])
					idx++
				}
				for idx < len(inputs) && len(inputs[idx]) == 0 {
					idx++
				}
				if idx < len(inputs) && uint(len(o.data)+len(inputs[idx])) > size {
					maximal = true
				}
			}
			if !maximal && i != len(outs)-1 {
				prev := created
				if i > 0 {
					// acceptance time of the input that completed the previous slice
					consumed, idx := 0, 0
					for idx < len(inputs) && consumed < pos {
						consumed += len(inputs[idx])
						idx++
					}
					if idx > 0 {
						// the moment the producer STARTED to offer the input that completed the
						// previous slice: not later than that slice's delivery
						prev = offered[idx-1]
					}
				}
				if o.at.Sub(prev) < timeout-2*time.Millisecond {
					b.fail("C09 timed %s %s: a short non-final slice %v was delivered %v after the previous one, Timeout %v", kind, ver, o.data, o.at.Sub(prev), timeout)
				}
			}
			pos += len(o.data)
		}
		// C10: residence of every element <= Timeout*(1+1/floor(100/inacc)) + slack
		// slack: 300 ms + what the canary saw; a timeout that does not fire keeps the elements
		// before the stall for 3*Timeout+400ms, far beyond the bound
		bound := timeout + timeout/time.Duration(100/inacc) + 300*time.Millisecond + 3*lag
		pos = 0
		oi := 0
		opos := 0
		for i, xs := range inputs {
			for range xs {
				for oi < len(outs) && opos == len(outs[oi].data) {
					oi, opos = oi+1, 0
				}
				if oi < len(outs) {
					if res := outs[oi].at.Sub(accepted[i]); res > bound {
						b.fail("C10 timed %s %s: an element stayed %v inside the discipline, bound %v (Timeout %v, inaccuracy %d)", kind, ver, res, bound, timeout, inacc)
					}
					opos++
				}
				pos++
			}
		}
	}
	b.leakProbe(fmt.Sprintf("termination of timed %s %s", ver, kind))
	b.note("join", fmt.Sprintf("timed %s %s size=%d nocopy=%v timeout=%v", kind, ver, size, nocopy, timeout), before)

	// (2b) trickle: the input stays open and delivers single elements more often than the ticker
	// period but far more slowly than JoinSize per Timeout: every element must still leave within
	// the bound (C10), i.e. the ticker keeps firing while input arrives
	{
		// the three disciplines take turns, one per repetition
		switch b.cycle("trickle", 3) {
		case 0:
			kind, ver = "unite", "v2"
		case 1:
			kind, ver = "join", "v2"
		default:
			kind, ver = "join", "v1"
		}
		before := b.fails()
		tmo, inc := 40*time.Millisecond, uint(25)
		if ver == "v1" {
			tmo = 100 * time.Millisecond
		}
		gap := tmo / time.Duration(100/inc) / 3
		slackBase := 300 * time.Millisecond
		total := tmo + tmo/time.Duration(100/inc) + slackBase + 400*time.Millisecond
		var tr [][]int
		for i := 0; i < int(total/gap); i++ {
			tr = append(tr, []int{i + 1})
		}
		cn := startCanary()
		createdTr := time.Now()
		outs, _, accepted, ok := b.runBatch(kind, ver, 100000, nocopy, tmo, inc, inCap, tr, func(int) { time.Sleep(gap) })
		lag := cn.lag()
		if ok && len(outs) > 1 {
			// C09: no slice can be full here, so the first one (it is not the final one) must
			// not arrive earlier than Timeout after the creation of the discipline
			if d := outs[0].at.Sub(createdTr); d < tmo-2*time.Millisecond {
				b.fail("C09 trickle %s %s: the first, non-maximal and non-final slice arrived %v after creation, Timeout %v", kind, ver, d, tmo)
			}
		}
		if ok {
			bound := tmo + tmo/time.Duration(100/inc) + slackBase + 3*lag
			idx := 0
		outer:
			for _, o := range outs {
				for range o.data {
					if idx < len(accepted) {
						if res := o.at.Sub(accepted[idx]); res > bound {
							b.fail("C10 trickle %s %s: element %d stayed %v inside the discipline while the input kept trickling every %v, bound %v (Timeout %v, inaccuracy %d%%)", kind, ver, idx, res, gap, bound, tmo, inc)
							break outer
						}
					}
					idx++
				}
			}
			if idx != len(tr) {
				b.fail("C03 trickle %s %s: %d of %d elements were delivered", kind, ver, idx, len(tr))
			}
		}
		b.leakProbe(fmt.Sprintf("termination of trickling %s %s", ver, kind))
		b.note("join", fmt.Sprintf("trickle %s %s nocopy=%v timeout=%v", kind, ver, nocopy, tmo), before)
	}

	b.backpressure()

	// (3a) v1, copy mode: Stop / cancel while the producer keeps writing and the consumer keeps
	// receiving.  Every slice the consumer received - before or after the stop request - is its
	// own: it is never modified afterwards and shares no memory with another one (C08); together
	// they continue the written sequence in order, without duplicates (C16)
	for attempt := 0; attempt < 12; attempt++ {
		before := b.fails()
		in := make(chan int, 64)
		ctx, cancel := context.WithCancel(context.Background())
		d, err := j1.New(j1.Opts[int]{Ctx: ctx, Input: in, JoinSize: 2, Timeout: 0})
		if err != nil {
			cancel()
			continue
		}
		stopProd := make(chan struct{})
		go func() {
			for i := 0; ; i++ {
				select {
				case in <- i:
				case <-stopProd:
					return
				}
			}
		}()
		var kept, copies [][]int
		collected := make(chan struct{})
		nBefore := 3 + r.Intn(6)
		reached := make(chan struct{})
		go func() {
			defer close(collected)
			for sl := range d.Output() {
				kept = append(kept, sl)
				copies = append(copies, append([]int(nil), sl...))
				if len(kept) == nBefore {
					close(reached)
				}
			}
		}()
		select {
		case <-reached:
		case <-time.After(5 * time.Second):
		}
		byCtx := r.Intn(2) == 0
		ret := make(chan struct{})
		go func() {
			if byCtx {
				cancel()
			}
			d.Stop()
			close(ret)
		}()
		select {
		case <-ret:
		case <-time.After(5 * time.Second):
			b.fail("C16 v1 join (copy mode): Stop() did not return within 5s")
		}
		select {
		case <-collected:
			last := -1
			for i, sl := range kept {
				if !reflect.DeepEqual(sl, copies[i]) {
					b.fail("C08 v1 join copy mode: slice %d delivered around Stop()/cancel was modified after delivery: %v -> %v", i, copies[i], sl)
					break
				}
				for j := 0; j < i; j++ {
					if len(sl) > 0 && len(kept[j]) > 0 && &sl[0] == &kept[j][0] {
						b.fail("C08 v1 join copy mode: slices %d and %d delivered around Stop()/cancel share memory (%v, %v)", j, i, copies[j], copies[i])
					}
				}
				for _, x := range copies[i] {
					if x <= last {
						b.fail("C16 v1 join copy mode: delivered %v after %d: not an in-order, duplicate-free subsequence of what was written", copies[i], last)
						break
					}
					last = x
				}
			}
		case <-time.After(5 * time.Second):
			b.fail("C16 v1 join (copy mode): the output was not closed within 5s after Stop() returned")
		}
		close(stopProd)
		cancel()
		b.leakProbe("Stop of v1 join (copy mode, consumer keeps receiving)")
		b.note("join", "v1-stop-copy", before)
	}

	// (3) v1: Stop while the consumer does not read / holds a slice
	for attempt := 0; attempt < 4; attempt++ {
		nocopy := nocopy || r.Intn(2) == 0
		before := b.fails()
		in := make(chan int, 2)
		var released chan struct{}
		if nocopy {
			released = make(chan struct{})
		}
		ctx, cancel := context.WithCancel(context.Background())
		d, err := j1.New(j1.Opts[int]{Ctx: ctx, Input: in, JoinSize: 2, Released: released, Timeout: 0})
		if err == nil {
			stop := make(chan struct{})
			go func() {
				for i := 0; ; i++ {
					select {
					case in <- i:
					case <-stop:
						return
					}
				}
			}()
			var held []int
			var heldCopy []int
			if r.Intn(2) == 0 {
				held = <-d.Output() // hold it, never release
				heldCopy = append([]int(nil), held...)
			}
			// the consumer keeps reading the slice it holds (it has not released it) while the
			// discipline is stopped from another goroutine and the producer keeps writing
			readerStop := make(chan struct{})
			readerDone := make(chan struct{})
			go func() {
				defer close(readerDone)
				sum := 0
				for {
					select {
					case <-readerStop:
						return
					default:
					}
					for _, x := range held {
						sum += x
					}
					runtime.Gosched()
				}
			}()
			time.Sleep(time.Millisecond)
			byCtx := r.Intn(2) == 0
			ret := make(chan struct{})
			go func() {
				if byCtx {
					cancel()
				}
				d.Stop()
				close(ret)
			}()
			select {
			case <-ret:
				// the output must be closed when Stop returns; what is still read from it
				// continues the in-order, duplicate-free sequence (the producer writes 0,1,2,...)
				closed := false
				last := -1
				if len(heldCopy) > 0 {
					last = heldCopy[len(heldCopy)-1]
				}
				for i := 0; i < 4; i++ {
					select {
					case sl, open := <-d.Output():
						if !open {
							closed = true
							break
						}
						for _, x := range sl {
							if x <= last {
								b.fail("C16 v1 join: after Stop the output delivered %v, not a continuation of the in-order duplicate-free sequence (the consumer already holds %v)", sl, heldCopy)
								break
							}
							last = x
						}
					default:
					}
					if closed {
						break
					}
				}
				if !closed {
					b.fail("C16 v1 join: the output is not closed when Stop() returns")
				}
			case <-time.After(5 * time.Second):
				b.fail("C16 v1 join: Stop() did not return within 5s (consumer holds a slice: %v)", held != nil)
			}
			if held != nil && nocopy {
				// the consumer keeps the slice while the program goes on: another discipline of the
				// same element type is created and used (the stopped one must not have handed the
				// memory the consumer owns to anybody else)
				in2 := make(chan int, 4)
				if d2, err2 := j1.New(j1.Opts[int]{Ctx: context.Background(), Input: in2, JoinSize: 2, Timeout: 0}); err2 == nil {
					for _, x := range []int{-11, -12, -13} {
						in2 <- x
					}
					select {
					case <-d2.Output():
					case <-time.After(time.Second):
					}
					d2.Stop()
				}
			}
			time.Sleep(2 * time.Millisecond)
			close(readerStop)
			<-readerDone
			if held != nil && nocopy && !reflect.DeepEqual(held, heldCopy) {
				b.fail("C08 v1 join: the slice held by the consumer changed after Stop: %v -> %v", heldCopy, held)
			}
			close(stop)
		}
		cancel()
		b.leakProbe("Stop of v1 join")
		b.note("join", "v1-stop", before)
	}
}

// backpressure: copy mode, a consumer that is NOT ready.  The output channel has capacity c, so
// of c+1 full slices produced back to back the last one blocks in the discipline's write until the
// consumer wakes up (after d = Timeout/2) and receives slice 0.  One more element follows at once
// and then silence: it forms a short, non-final slice.  C09: it is delivered no earlier than
// Timeout after the previous slice was delivered; the previous slice (index c) cannot have been
// written to the output before the consumer received slice 0 (the channel was full until then),
// so  recv(short) >= recv(slice 0) + Timeout  is implied by the property whatever "delivered"
// means between "written" and "received".  A timer that is stamped before the blocking write
// (instead of after it) flushes the short slice about d too early.
func (b *bb) backpressure() {
	before := b.fails()
	mode := []string{"join-v2", "unite-forward", "unite-accumulate", "join-v1", "join-v2-tb", "unite-accumulate-tb"}[b.cycle("backpressure", 6)]
	// "-tb": it is a PARTIAL slice, flushed by the timeout, whose write blocks (the output buffer
	// is full of full slices, the consumer wakes up only after 2.5 Timeouts); the next partial
	// slice arrives right after the consumer has made room
	tb := strings.HasSuffix(mode, "-tb")
	mode = strings.TrimSuffix(mode, "-tb")
	const size = 3
	tmo := 60 * time.Millisecond
	if mode == "join-v1" {
		tmo = 80 * time.Millisecond
	}
	const inacc = 25
	var output <-chan []int
	var write func(xs []int) // one full slice / the short tail
	var closeIn func()
	switch mode {
	case "join-v2":
		in := make(chan int)
		d, err := j2.New(j2.Opts[int]{Input: in, JoinSize: size, Timeout: tmo, TimeoutInaccuracy: inacc})
		if err != nil {
			b.fail("C03 join.New: %v", err)
			return
		}
		output = d.Output()
		write = func(xs []int) {
			for _, x := range xs {
				in <- x
			}
		}
		closeIn = func() { close(in) }
	case "join-v1":
		in := make(chan int)
		d, err := j1.New(j1.Opts[int]{Ctx: context.Background(), Input: in, JoinSize: size, Timeout: tmo, TimeoutInaccuracy: inacc})
		if err != nil {
			b.fail("C03 v1 join.New: %v", err)
			return
		}
		output = d.Output()
		write = func(xs []int) {
			for _, x := range xs {
				in <- x
			}
		}
		closeIn = func() { close(in) }
	default:
		in := make(chan []int)
		d, err := unite.New(unite.Opts[int]{Input: in, JoinSize: size, Timeout: tmo, TimeoutInaccuracy: inacc})
		if err != nil {
			b.fail("C03 unite.New: %v", err)
			return
		}
		output = d.Output()
		fwd := mode == "unite-forward"
		write = func(xs []int) {
			if fwd || len(xs) < 2 {
				in <- xs // len == JoinSize: the oversize path (forward)
				return
			}
			in <- xs[:len(xs)-1]
			in <- xs[len(xs)-1:]
		}
		closeIn = func() { close(in) }
	}
	c := cap(output)
	full := c + 1
	d := tmo / 2
	if tb {
		full = c
		d = tmo * 5 / 2
	}
	started := time.Now()
	prodDone := make(chan struct{})
	go func() {
		defer close(prodDone)
		next := 1
		for i := 0; i < full; i++ {
			write([]int{next, next + 1, next + 2})
			next += size
		}
		write([]int{next}) // the short slice
		if tb {
			// ... which times out while the output is full; the next short slice follows as soon
			// as the consumer has started to read
			time.Sleep(time.Until(started.Add(d + 5*time.Millisecond)))
			next++
			write([]int{next})
		}
		time.Sleep(tmo + tmo/4 + 200*time.Millisecond)
		write([]int{next + 1}) // the final slice
		closeIn()
	}()
	time.Sleep(d) // the consumer is not ready
	var outs []outRec
	var asked []time.Time // the reading taken BEFORE the receive that returned outs[i]: not later than the receive
	deadline := time.After(20 * time.Second)
loop:
	for {
		ask := time.Now()
		select {
		case sl, open := <-output:
			if !open {
				break loop
			}
			asked = append(asked, ask)
			outs = append(outs, outRec{append([]int(nil), sl...), time.Now()})
		case <-deadline:
			b.fail("C03 backpressure %s: the output was not closed within 20s after the input was closed", mode)
			break loop
		}
	}
	<-prodDone
	for j, o := range outs {
		if len(o.data) >= size || j == len(outs)-1 || j-1-c < 0 {
			continue
		}
		// (measured from a reading taken before slice j-1-c was received to a reading taken
		// after the short slice was received: scheduling delays of this goroutine only widen it)
		if got := o.at.Sub(asked[j-1-c]); got < tmo-2*time.Millisecond {
			b.fail("C09 backpressure %s: the short non-final slice %v was delivered %v after slice %d had been received; the previous slice %v could not be written to the full output (capacity %d) before that moment, Timeout %v: the timeout is counted from before the previous slice was delivered [consumer not ready for %v, then reads everything]",
				mode, o.data, got, j-1-c, outs[j-1].data, c, tmo, d)
		}
	}
	if tb {
		mode += "-tb"
	}
	b.leakProbe("termination of " + mode + " under backpressure")
	b.note("join", "backpressure "+mode, before)
}

func (b *bb) scenarioLimit() {
	before := b.fails()
	r := b.r
	q := uint64(1 + r.Intn(7))
	pattern := []string{"stall-burst", "prefilled-short", "small", "trickle", "prefilled", "busy-consumer", "paused-consumer", "partial-burst"}[b.cycle("limit", 8)]
	short := pattern == "prefilled-short"
	if short {
		pattern = "prefilled"
	}
	interval := time.Duration(10+r.Intn(20)) * time.Millisecond
	n := []int{0, int(q), 2*int(q) + 1, 3 * int(q), r.Intn(4*int(q) + 1)}[r.Intn(5)]
	inCap := []int{0, 1, n + 1}[r.Intn(3)]
	switch pattern {
	case "stall-burst":
		// a few elements, a long silence, then far more than 2*Quantity at once: the burst
		// after the silence must still be spread over the intervals (C04, window form)
		// (Quantity of 4 or more and an unbuffered input: three portions leaving back to back
		// exceed what the window bound allows on the receiving side, 2*Quantity + 3)
		q = uint64(4 + r.Intn(4))
		n = 10 * int(q)
		inCap = 0
	case "paused-consumer":
		// the consumer reads two elements, goes away for eight intervals and then reads as fast as
		// it can, the producer being always ready: what the discipline wrote meanwhile waits in its
		// output buffer (capacity 1+cap(input)) and is received at once
		q = uint64(1 + r.Intn(2))
		interval = 20 * time.Millisecond
		inCap = 8
		n = (inCap + 1) + 8*int(q)
	case "partial-burst":
		// right after creation: fewer than Quantity elements, a gap much shorter than Interval, then
		// far more than Quantity at once, a prompt consumer - the first portion is completed by
		// the burst and the second one starts no earlier than Interval after creation (cumulative
		// form of C04: at most Quantity elements have left before t0 + Interval)
		q = uint64(3 + r.Intn(6))
		interval = time.Duration(200+r.Intn(200)) * time.Millisecond
		n = 4 * int(q)
		inCap = n + 1
	case "busy-consumer":
		// data always available on an unbuffered input, a consumer that is far faster than the
		// limit but spends a couple of milliseconds on every element, so that it is usually not
		// waiting in the receive when the discipline writes: the output buffer (one slot) is
		// full at the end of a portion - which says nothing about the rate
		n = 6 * int(q)
		inCap = 0
	case "small":
		// fewer than Quantity elements: no pause at all, however long the interval is
		q++
		n = r.Intn(int(q))
		interval = time.Duration(600+r.Intn(400)) * time.Millisecond
		if (b.cycle("limit-huge", 2)+int(px.Seed()))%2 == 1 {
			// "practically unlimited": quantities around and above MaxInt64 are valid rates, and
			// whatever is written is fewer than Quantity elements
			q = []uint64{math.MaxUint64, 1 << 63, math.MaxInt64, math.MaxUint64 - 1}[r.Intn(4)]
			n = 5 + r.Intn(20)
		}
	case "prefilled":
		if short {
			// a short interval that does not divide 10 ms, many batches: a discipline that works
			// with a coarser rate than the configured one falls clearly behind
			interval = []time.Duration{6 * time.Millisecond, 7 * time.Millisecond, 5500 * time.Microsecond, 3 * time.Millisecond,
				50 * time.Microsecond, 80 * time.Microsecond}[[]int{0, 4, 1, 2, 5, 3}[b.cycle("short-interval", 6)]]
			q = 1 // one element per interval: rounding the rate to a coarser grid loses the most
			n = 60 * int(q)
			if interval < time.Millisecond {
				n = 300 * int(q) // intervals below the timer resolution still limit the rate
			}
		}
		inCap = n + 1
	}
	in := make(chan int, inCap)
	if pattern == "prefilled" || pattern == "small" {
		if inCap > n {
			for i := 0; i < n; i++ {
				in <- i
			}
		}
	}
	cn := startCanary()
	t0 := time.Now()
	var d *limit.Discipline[int]
	var err error
	func() {
		defer func() {
			if p := recover(); p != nil {
				err = fmt.Errorf("panic: %v", p)
			}
		}()
		d, err = limit.New(limit.Opts[int]{Input: in, Limit: limit.Rate{Interval: interval, Quantity: q}})
	}()
	if err != nil {
		cn.lag()
		b.fail("C12 limit.New(Interval %v, Quantity %d, cap(Input) %d): %v - a valid rate is not served: nothing is forwarded, the output is never closed", interval, q, inCap, err)
		return
	}
	// stall-burst: the silence is long (also in absolute terms), so that a discipline which lets a
	// slow portion lengthen a later pause falls clearly behind the rate
	stall := 8 * interval
	if stall < 300*time.Millisecond {
		stall = 300 * time.Millisecond
	}
	var stallEnd time.Time
	go func() {
		for i := 0; i < n; i++ {
			if (pattern == "prefilled" || pattern == "small") && inCap > n {
				break
			}
			if pattern == "trickle" && i%3 == 0 {
				time.Sleep(interval / 4)
			}
			if pattern == "partial-burst" && i == 1+int(q)/2 {
				time.Sleep(interval / 10)
			}
			if pattern == "stall-burst" && i == int(q) {
				time.Sleep(stall)
				stallEnd = time.Now()
			}
			in <- i
		}
		close(in)
	}()
	var recv []time.Time
	var got []int
	deadline := time.After(30 * time.Second)
loop:
	for {
		select {
		case x, open := <-d.Output():
			if !open {
				break loop
			}
			got = append(got, x)
			recv = append(recv, time.Now())
			if pattern == "busy-consumer" {
				time.Sleep(2 * time.Millisecond)
			}
			if pattern == "paused-consumer" && len(got) == 2 {
				time.Sleep(8 * interval)
			}
		case <-deadline:
			b.fail("C12 limit: the output was not closed within 30s")
			break loop
		}
	}
	end := time.Now()
	lag := cn.lag()
	for i, x := range got {
		if x != i {
			b.fail("C12 limit: output %v is not the input sequence 0..%d", got, n-1)
			break
		}
	}
	if len(got) != n {
		b.fail("C12 limit: %d of %d elements were delivered before the output closed", len(got), n)
	}
	// C04 cumulative, sound direction: element i is RECEIVED no earlier than it was sent, and
	// it was sent no earlier than t0 + floor(i/Q)*Interval (t0 taken before New)
	for i, t := range recv {
		min := time.Duration(uint64(i)/q) * interval
		if t.Sub(t0) < min {
			b.fail("C04 limit: element %d left the output %v after creation, earlier than floor(i/Q)*Interval = %v (Q=%d, Interval=%v, %s)", i, t.Sub(t0), min, q, interval, pattern)
			break
		}
	}
	// C04 window form on receive times.  An element is received no earlier than it left the
	// output; what can make receive times denser than send times is only what sat in the
	// output buffer (capacity 1+cap(input)) while the consumer was late, plus the one whose
	// timestamp was delayed: at most Q*(floor(W/I)+2) + cap(output) + 2 in any window W.
	// (not for a "practically unlimited" Quantity: the bound exceeds any number of elements, and
	// computing it in int would wrap)
	if q <= 1<<32 {
		W := interval / 2
		bufferBurst := false
		allowed := int(q)*(int(W/interval)+2) + (1 + inCap) + 2
		lo := 0
		for hi := range recv {
			for recv[hi].Sub(recv[lo]) > W {
				lo++
			}
			if literal := int(q) * (int(W/interval) + 2); pattern == "paused-consumer" && hi-lo+1 > literal+2 && hi-lo+1 <= allowed && !bufferBurst {
				// the literal window clause of C04, at the receiving side (finding F2)
				bufferBurst = true
				b.fail("C04 limit [output buffer]: after the consumer had paused for %v it received %d elements within %v (elements %d..%d), more than Quantity*(floor(W/Interval)+2) = %d: the discipline limits the rate at which it WRITES to its output, whose buffer (capacity 1+cap(input) = %d) fills while the consumer is away and is then received at once (Q=%d, Interval=%v)",
					8*interval, hi-lo+1, W, lo, hi, literal, 1+inCap, q, interval)
			}
			if hi-lo+1 > allowed {
				b.fail("C04 limit: %d elements were received within %v (elements %d..%d), more than Quantity*(floor(W/Interval)+2) + output buffer + 2 = %d (Q=%d, Interval=%v, cap(input)=%d, %s)",
					hi-lo+1, W, lo, hi, allowed, q, interval, inCap, pattern)
				break
			}
		}
	}
	// C12 no throttling below the rate (upper bounds: slack + what the canary saw)
	slack := 100*time.Millisecond + 3*lag
	switch pattern {
	case "prefilled":
		batches := (uint64(n) + q - 1) / q
		// every batch ends with a sleep that may overshoot by what the canary saw
		// (not for intervals below 2 ms: there the granularity of time.Sleep itself, about a
		// millisecond per pause on a busy machine, dominates and "about ceil(N/Q) intervals"
		// says nothing checkable; those configurations serve the lower bound of C04 only)
		if bound := time.Duration(batches+1)*interval + slack + time.Duration(batches)*lag; interval >= 2*time.Millisecond && end.Sub(t0) > bound {
			b.fail("C12 limit: %d prefilled elements took %v, more than (ceil(N/Q)+1) intervals + slack = %v (Q=%d, Interval=%v)", n, end.Sub(t0), bound, q, interval)
		}
	case "stall-burst":
		// from the end of the silence on, everything is available at once: the portion that was
		// waiting completes, and the remaining elements take about one Interval per portion
		if !stallEnd.IsZero() {
			batches := (uint64(n)-q+q-1)/q + 1
			if bound := time.Duration(batches+1)*interval + slack + time.Duration(batches)*lag; end.Sub(stallEnd) > bound {
				b.fail("C12 limit: after a silence of %v in the middle of the input, the remaining %d elements (available at once) took %v, more than (ceil(N/Q)+2) intervals + slack = %v (Q=%d, Interval=%v): a portion that took longer than Interval must not lengthen a later pause",
					stall, n-int(q), end.Sub(stallEnd), bound, q, interval)
			}
		}
	case "small":
		if bound := interval/2 + slack; end.Sub(t0) > bound {
			b.fail("C12 limit: fewer than Quantity elements (%d < %d) took %v to pass and close, Interval %v", n, q, end.Sub(t0), interval)
		}
	}
	b.leakProbe("termination of limit")
	b.note("limit", fmt.Sprintf("Q=%d I=%v N=%d cap=%d %s", q, interval, n, inCap, pattern), before)
	if pattern == "busy-consumer" {
		b.limitSlowConsumer()
	}
}

// C12 with a consumer that is the bottleneck: every portion takes about as long as Interval (or
// longer) because the consumer needs that long, so next to no pause is due and the whole run lasts
// as long as the consumer is busy (plus two Intervals and scheduling slack) - the limiter adds
// nothing on top.
func (b *bb) limitSlowConsumer() {
	before := b.fails()
	q := uint64(6 + b.r.Intn(5))
	interval := time.Duration(40+b.r.Intn(20)) * time.Millisecond
	// the consumer's time per element: a portion takes a little more than one Interval (the regime
	// in which a limiter that does not count the time it was held up pauses after every portion)
	per := 11 * interval / time.Duration(10*q)
	n := 16 * int(q)
	in := make(chan int) // unbuffered: the output has one slot
	cn := startCanary()
	t0 := time.Now()
	d, err := limit.New(limit.Opts[int]{Input: in, Limit: limit.Rate{Interval: interval, Quantity: q}})
	if err != nil {
		cn.lag()
		b.fail("C12 limit.New: %v", err)
		return
	}
	go func() {
		for i := 0; i < n; i++ {
			in <- i
		}
		close(in)
	}()
	var busy time.Duration
	got := 0
	deadline := time.After(30 * time.Second)
loop:
	for {
		select {
		case x, open := <-d.Output():
			if !open {
				break loop
			}
			if x != got {
				b.fail("C12 limit (slow consumer): element %d received at position %d", x, got)
			}
			got++
			s0 := time.Now()
			time.Sleep(per)
			busy += time.Since(s0)
		case <-deadline:
			b.fail("C12 limit (slow consumer): the output was not closed within 30s")
			break loop
		}
	}
	total := time.Since(t0)
	lag := cn.lag()
	if got != n {
		b.fail("C12 limit (slow consumer): %d of %d elements were delivered before the output closed", got, n)
	} else if bound := busy + 2*interval + 100*time.Millisecond + 3*lag; total > bound {
		b.fail("C12 limit (slow consumer): %d elements took %v although the consumer was busy for %v only (it needs %v per element: a portion of %d takes about as long as Interval %v or longer, next to no pause is due): bound %v - the limiter throttles below the configured rate", n, total, busy, per, q, interval, bound)
	}
	b.leakProbe("termination of limit (slow consumer)")
	b.note("limit", fmt.Sprintf("slow-consumer Q=%d I=%v N=%d", q, interval, n), before)
}

// scenarioJoinShared: the input channel of a v2 join discipline has a second reader (another
// consumer of the same queue).  Whatever the discipline accepted must still leave within the
// timeout bound when the input falls silent (C10) - the ticker has to keep being looked at -
// and nothing may be lost between the two readers (C03).
// Two v1 join disciplines without a timeout fan one buffered input out to two batching
// workers; the producer closes the input when it is done.  Together the two outputs carry
// exactly what was written - every element once, nothing invented (C03) - whichever of the two
// took an element.
func (b *bb) joinSharedV1() {
	before := b.fails()
	rounds := 60
	if b.thorough {
		rounds = 300
	}
	for round := 0; round < rounds && b.fails() == before; round++ {
		in := make(chan int, 8)
		var ds [2]*j1.Discipline[int]
		for i := range ds {
			// (every other round with a timeout that never fires: the timed loop is another function)
			var tmo time.Duration
			if round%2 == 1 {
				tmo = time.Minute
			}
			d, err := j1.New(j1.Opts[int]{Ctx: context.Background(), Input: in, JoinSize: uint(2 + b.r.Intn(4)), Timeout: tmo})
			if err != nil {
				b.fail("C03 v1 join.New: %v", err)
				return
			}
			ds[i] = d
		}
		n := 20 + b.r.Intn(40)
		go func() {
			for x := 1; x <= n; x++ {
				in <- x
			}
			close(in)
		}()
		var mu sync.Mutex
		seen := map[int]int{}
		var wg sync.WaitGroup
		for i := range ds {
			wg.Add(1)
			go func(d *j1.Discipline[int]) {
				defer wg.Done()
				tmo := time.After(10 * time.Second)
				for {
					select {
					case sl, open := <-d.Output():
						if !open {
							return
						}
						mu.Lock()
						for _, x := range sl {
							seen[x]++
						}
						mu.Unlock()
					case <-tmo:
						mu.Lock()
						seen[-1]++
						mu.Unlock()
						return
					}
				}
			}(ds[i])
		}
		wg.Wait()
		if seen[-1] > 0 {
			b.fail("C03 two v1 join disciplines on one input: an output was not closed within 10s after the input was closed")
			break
		}
		for x, c := range seen {
			if x < 1 || x > n {
				b.fail("C03 two v1 join disciplines on one input (timed loop: %v; input of capacity 8, elements 1..%d written, then closed): element %d was delivered %d time(s) but never written", round%2 == 1, n, x, c)
				break
			}
			if c != 1 {
				b.fail("C03 two v1 join disciplines on one input: element %d was delivered %d times", x, c)
				break
			}
		}
		if b.fails() == before && len(seen) != n {
			b.fail("C03 two v1 join disciplines on one input: %d of %d written elements were delivered when both outputs were closed", len(seen), n)
		}
	}
	b.leakProbe("two v1 join disciplines on one input")
	b.note("joinshared", "v1 fan-out", before)
}

func (b *bb) scenarioJoinShared() {
	b.joinSharedV1()
	before := b.fails()
	tmo, inc := 40*time.Millisecond, uint(25)
	in := make(chan int, 16)
	d, err := j2.New(j2.Opts[int]{Input: in, JoinSize: 100000, Timeout: tmo, TimeoutInaccuracy: inc})
	if err != nil {
		b.fail("C03 join.New: %v", err)
		return
	}
	rounds := 2
	if b.thorough {
		rounds = 4 // times 60 repetitions
	}
	var mu sync.Mutex
	sentAt := map[int]time.Time{}
	gotAt := map[int]time.Time{}
	stolen := map[int]bool{}
	stopThief := make(chan struct{})
	thiefDone := make(chan struct{})
	go func() {
		defer close(thiefDone)
		for {
			select {
			case x, ok := <-in:
				if !ok {
					return
				}
				mu.Lock()
				stolen[x] = true
				mu.Unlock()
				for i := 0; i < b.spin(); i++ {
					runtime.Gosched()
				}
			case <-stopThief:
				return
			}
		}
	}()
	consDone := make(chan struct{})
	go func() {
		defer close(consDone)
		for sl := range d.Output() {
			now := time.Now()
			mu.Lock()
			for _, x := range sl {
				gotAt[x] = now
			}
			mu.Unlock()
		}
	}()
	cn := startCanary()
	next := 1
	for r := 0; r < rounds; r++ {
		for i := 0; i < 200; i++ {
			mu.Lock()
			sentAt[next] = time.Now()
			mu.Unlock()
			in <- next
			next++
		}
		time.Sleep(tmo + tmo/time.Duration(100/inc) + 500*time.Millisecond)
	}
	lag := cn.lag()
	// what the discipline accepted before the last silence must have left by now
	bound := tmo + tmo/time.Duration(100/inc) + 300*time.Millisecond + 3*lag
	mu.Lock()
	late, missing := 0, 0
	var worst time.Duration
	for x, t0 := range sentAt {
		if stolen[x] {
			continue
		}
		t1, ok := gotAt[x]
		if !ok {
			missing++
			continue
		}
		if res := t1.Sub(t0); res > bound {
			late++
			if res > worst {
				worst = res
			}
		}
	}
	mu.Unlock()
	if missing > 0 {
		b.fail("C10 shared input: %d element(s) accepted by the join discipline are still inside it %v after the input fell silent (Timeout %v): the timeout flush did not happen while another reader shares the input", missing, tmo+tmo/time.Duration(100/inc)+500*time.Millisecond, tmo)
	}
	if late > 0 {
		b.fail("C10 shared input: %d element(s) stayed inside the join discipline longer than the bound %v (worst %v, Timeout %v)", late, bound, worst, tmo)
	}
	close(stopThief)
	<-thiefDone
	close(in)
	select {
	case <-consDone:
	case <-time.After(10 * time.Second):
		b.fail("C03 shared input: the output was not closed within 10s after the input was closed")
	}
	mu.Lock()
	lost := 0
	for x := range sentAt {
		if !stolen[x] {
			if _, ok := gotAt[x]; !ok {
				lost++
			}
		}
	}
	mu.Unlock()
	if lost > 0 {
		b.fail("C03 shared input: %d element(s) were neither delivered by the discipline nor taken by the other reader", lost)
	}
	b.leakProbe("termination of join with a shared input")
	b.note("joinshared", fmt.Sprintf("rounds=%d", rounds), before)
}

func (b *bb) spin() int { return 1 + int(time.Now().UnixNano()%7) }
