package main

import (
	"context"
	"fmt"
	"math/rand"
	"os"
	"reflect"
	"runtime"
	"sort"
	"strings"
	"sync"
	"sync/atomic"
	"time"

	p1 "github.com/akramarenkov/cqos/priority"
	p2 "github.com/akramarenkov/cqos/v2/priority"
	"github.com/akramarenkov/cqos/v2/priority/divider"
	"github.com/akramarenkov/cqos/v2/priority/simple"
	"github.com/akramarenkov/cqos/v2/priority/utils"
)

type prioCfg struct {
	prios []uint
	H     uint
	caps  map[uint]int
	n     map[uint]int // items per priority
	fair  bool
}

func (b *bb) randPrioCfg() prioCfg {
	r := b.r
	for {
		k := 1 + r.Intn(4)
		set := map[uint]bool{}
		for len(set) < k {
			set[uint(1+r.Intn(9))] = true
		}
		var ps []uint
		for p := range set {
			ps = append(ps, p)
		}
		sort.Slice(ps, func(i, j int) bool { return ps[i] > ps[j] })
		fair := r.Intn(2) == 0
		dv := divider.Rate
		if fair {
			dv = divider.Fair
		}
		H := uint(k + r.Intn(10))
		if !utils.IsNonFatalConfig(ps, dv, H) {
			continue
		}
		c := prioCfg{prios: ps, H: H, caps: map[uint]int{}, n: map[uint]int{}, fair: fair}
		for _, p := range ps {
			c.caps[p] = r.Intn(5) // 0 = unbuffered
			c.n[p] = r.Intn(40)
		}
		return c
	}
}

func (c prioCfg) String() string {
	return fmt.Sprintf("prios=%v H=%d caps=%v n=%v fair=%v", c.prios, c.H, c.caps, c.n, c.fair)
}

type delivery struct {
	p uint
	x int
}

// checkOrder: C02 on a black-box run that ended normally
func (b *bb) checkOrder(what string, c prioCfg, got []delivery) {
	next := map[uint]int{}
	for _, d := range got {
		want := int(d.p)*100000 + next[d.p]
		if d.x != want {
			b.fail("C02 %s: priority %d delivered item %d, the next written item is %d (%s)", what, d.p, d.x, want, c)
			return
		}
		next[d.p]++
	}
	for _, p := range c.prios {
		if next[p] != c.n[p] {
			b.fail("C02 %s: priority %d: %d of %d written items were delivered before normal termination (%s)", what, p, next[p], c.n[p], c)
		}
	}
}

// C07 "promptly", after an idle period: a v2 discipline whose inputs stay open and silent for a
// while and are then closed (nothing in flight) closes its output within a small fraction of the
// silence - not after a sleep that grew with it.
func (b *bb) idleThenClose() {
	before := b.fails()
	const idle = 1500 * time.Millisecond
	hi, lo := make(chan int, 2), make(chan int, 2)
	dsc, err := p2.New(p2.Opts[int]{Divider: divider.Fair, HandlersQuantity: 3, Inputs: map[uint]<-chan int{2: hi, 1: lo}})
	if err != nil {
		b.fail("C07 idle: New: %v", err)
		return
	}
	hi <- 200001
	lo <- 100001
	for i := 0; i < 2; i++ {
		select {
		case it := <-dsc.Output():
			dsc.Release(it.Priority)
		case <-time.After(5 * time.Second):
			b.fail("C06 idle: item %d of 2 was not delivered within 5s", i)
		}
	}
	time.Sleep(idle)
	cn := startCanary()
	closedAt := time.Now()
	close(hi)
	close(lo)
	select {
	case _, open := <-dsc.Output():
		took := time.Since(closedAt)
		lag := cn.lag()
		if open {
			b.fail("C02 idle: an item was delivered that was never written")
		} else if bound := 300*time.Millisecond + 3*lag; took > bound {
			b.fail("C07 idle: the inputs stayed open and silent for %v, then both were closed (empty, nothing in flight): the output was closed only %v later (bound %v): termination is not prompt after an idle period", idle, took, bound)
		}
	case <-time.After(10 * time.Second):
		cn.lag()
		b.fail("C07 idle: the inputs were closed (empty, nothing in flight) after %v of silence, the output is still open 10s later", idle)
	}
	b.leakProbe("termination of v2 priority after an idle period")
	b.note("prio2", "idle-then-close", before)
}

// Two v2 disciplines in one process, one after the other: the first terminates normally; the
// second has an unbuffered input that stays open and idle (a rarely used high priority) next to a
// buffered one that holds items and is closed.  The items are delivered (C02 / C06) - what one
// discipline does when it terminates is no business of the other.
func (b *bb) secondDiscipline() {
	before := b.fails()
	first := make(chan int, 1)
	first <- 1
	close(first)
	d1, err := p2.New(p2.Opts[int]{Divider: divider.Fair, HandlersQuantity: 1, Inputs: map[uint]<-chan int{1: first}})
	if err != nil {
		b.fail("C02 second discipline: New: %v", err)
		return
	}
	t1 := time.After(5 * time.Second)
loop1:
	for {
		select {
		case it, open := <-d1.Output():
			if !open {
				break loop1
			}
			d1.Release(it.Priority)
		case <-t1:
			b.fail("C07 second discipline: the first discipline (one item, input closed) did not terminate within 5s")
			break loop1
		}
	}
	idle := make(chan int) // unbuffered, open, nobody writes
	busy := make(chan int, 8)
	const n = 8
	for i := 0; i < n; i++ {
		busy <- 100000 + i
	}
	close(busy)
	d2, err := p2.New(p2.Opts[int]{Divider: divider.Fair, HandlersQuantity: 2, Inputs: map[uint]<-chan int{5: idle, 1: busy}})
	if err != nil {
		b.fail("C02 second discipline: New: %v", err)
		return
	}
	got := 0
	t2 := time.After(5 * time.Second)
loop2:
	for got < n {
		select {
		case it, open := <-d2.Output():
			if !open {
				break loop2
			}
			got++
			go d2.Release(it.Priority)
		case <-t2:
			break loop2
		}
	}
	if got < n {
		b.fail("C02 second discipline: %d of %d items written to the (closed) input of priority 1 were delivered within 5s; the other input (priority 5, unbuffered) is open and idle, and another v2 discipline has terminated in this process before", got, n)
		b.fail("C06 second discipline: %d of %d items delivered within 5s although handlers release at once (an idle unbuffered input, a discipline that terminated earlier in this process)", got, n)
	}
	close(idle)
	complete := got == n
	t3 := time.After(5 * time.Second)
loop3:
	for {
		select {
		case it, open := <-d2.Output():
			if !open {
				break loop3
			}
			got++
			if got > n {
				b.fail("C02 second discipline: more items were delivered than were written")
				break loop3
			}
			go d2.Release(it.Priority)
		case <-t3:
			if complete {
				b.fail("C07 second discipline: no termination within 5s after the idle input was closed too")
			}
			break loop3
		}
	}
	b.leakProbe("two v2 priority disciplines one after the other")
	b.note("prio2", "second-discipline", before)
}

func (b *bb) scenarioPrio2() {
	switch b.cycle("prio2-extra", 4) {
	case 1:
		b.idleThenClose()
	case 3:
		b.secondDiscipline()
	}
	before := b.fails()
	c := b.randPrioCfg()
	if b.cycle("prio2-few", 4) == 2 {
		// fewer items than handlers: all of them are in flight at once, nobody ever waits for a
		// release - termination then depends only on the releases being accounted (C07)
		// (no priority has more items than its share, so no redistribution is needed either)
		share := map[uint]uint{}
		if c.fair {
			divider.Fair(c.prios, c.H, share)
		} else {
			divider.Rate(c.prios, c.H, share)
		}
		for _, p := range c.prios {
			if c.n[p] > int(share[p]) {
				c.n[p] = int(share[p])
			}
		}
	}
	inputs := map[uint]<-chan int{}
	chans := map[uint]chan int{}
	for _, p := range c.prios {
		ch := make(chan int, c.caps[p])
		chans[p], inputs[p] = ch, ch
	}
	dv := divider.Rate
	if c.fair {
		dv = divider.Fair
	}
	dsc, err := p2.New(p2.Opts[int]{Divider: dv, HandlersQuantity: c.H, Inputs: inputs})
	scribbleInputs(inputs) // the map belongs to the caller again once the constructor has returned
	if err != nil {
		b.fail("C18 configuration judged non-fatal was rejected by New: %v (%s)", err, c)
		b.note("prio2", c.String(), before)
		return
	}
	var produced sync.WaitGroup
	var finished int64
	for _, p := range c.prios {
		produced.Add(1)
		go func(p uint) {
			defer produced.Done()
			for i := 0; i < c.n[p]; i++ {
				chans[p] <- int(p)*100000 + i
				if b.r != nil && i%7 == 3 {
					time.Sleep(time.Duration(50) * time.Microsecond)
				}
			}
			atomic.AddInt64(&finished, 1) // before the close: happens-before anything that observes it
			close(chans[p])
		}(p)
	}
	var inflight, released, maxInflight int64
	var mu sync.Mutex
	var got []delivery
	var handlers sync.WaitGroup
	relCh := make(chan uint, 1024)
	// the single reader records the sequence; releases are issued from other goroutines
	handlers.Add(1)
	go func() {
		defer handlers.Done()
		for it := range dsc.Output() {
			v := atomic.AddInt64(&inflight, 1)
			for {
				m := atomic.LoadInt64(&maxInflight)
				if v <= m || atomic.CompareAndSwapInt64(&maxInflight, m, v) {
					break
				}
			}
			if v > int64(c.H) {
				b.fail("C01 prio2: %d items handed out and not released, HandlersQuantity %d (%s)", v, c.H, c)
			}
			mu.Lock()
			got = append(got, delivery{it.Priority, it.Item})
			mu.Unlock()
			relCh <- it.Priority
		}
		close(relCh)
	}()
	var releasers sync.WaitGroup
	for i := 0; i < 3; i++ {
		releasers.Add(1)
		go func(i int) {
			defer releasers.Done()
			for p := range relCh {
				if i == 0 {
					time.Sleep(30 * time.Microsecond)
				}
				atomic.AddInt64(&inflight, -1) // the property counts ISSUED releases
				atomic.AddInt64(&released, 1)
				dsc.Release(p)
			}
		}(i)
	}
	done := make(chan struct{})
	go func() { handlers.Wait(); releasers.Wait(); close(done) }()
	select {
	case <-done:
	case <-time.After(20 * time.Second):
		b.fail("C06 prio2: the discipline did not terminate within 20s although every item is released at once (%s)", c)
		total := 0
		for _, p := range c.prios {
			total += c.n[p]
		}
		mu.Lock()
		delivered := len(got)
		mu.Unlock()
		if int(atomic.LoadInt64(&finished)) == len(c.prios) && delivered == total && atomic.LoadInt64(&released) == int64(total) {
			b.fail("C07 prio2: every input was closed and emptied (%d items written, all %d delivered) and every delivered item was released (%d Release calls returned), but output and error channels are still open 20s later (%s)", total, delivered, total, c)
		}
		b.note("prio2", c.String(), before)
		return
	}
	// C07: output closed => all inputs closed and drained, all released, err nil
	if int(atomic.LoadInt64(&finished)) != len(c.prios) {
		b.fail("C07 prio2: output closed although a producer has not finished (%s)", c)
	}
	if e, ok := <-dsc.Err(); ok && e != nil {
		b.fail("C07 prio2: Err() yields %v in normal mode (%s)", e, c)
	}
	mu.Lock()
	b.checkOrder("prio2", c, got)
	if int64(len(got)) != atomic.LoadInt64(&released) {
		b.fail("C07 prio2: terminated with %d delivered and %d released (%s)", len(got), released, c)
	}
	mu.Unlock()
	b.leakProbe("normal termination of v2 priority")
	b.note("prio2", c.String(), before)
}

func (b *bb) scenarioSimple2() {
	before := b.fails()
	c := b.randPrioCfg()
	if b.cycle("simple2-single", 4) == 1 {
		// the smallest configuration: one input, one handler
		p := uint(1 + b.r.Intn(9))
		c = prioCfg{prios: []uint{p}, H: 1, caps: map[uint]int{p: b.r.Intn(3)}, n: map[uint]int{p: 1 + b.r.Intn(40)}, fair: b.r.Intn(2) == 0}
	}
	inputs := map[uint]<-chan int{}
	chans := map[uint]chan int{}
	total := 0
	for _, p := range c.prios {
		ch := make(chan int, c.caps[p])
		chans[p], inputs[p] = ch, ch
		total += c.n[p]
	}
	dv := divider.Rate
	if c.fair {
		dv = divider.Fair
	}
	var inHandle, handled int64
	seen := sync.Map{}
	handle := func(item int) {
		v := atomic.AddInt64(&inHandle, 1)
		if v > int64(c.H) {
			b.fail("C01 simple2: %d concurrent Handle calls, HandlersQuantity %d (%s)", v, c.H, c)
		}
		if _, dup := seen.LoadOrStore(item, true); dup {
			b.fail("C02 simple2: Handle invoked twice for item %d (%s)", item, c)
		}
		if p := uint(item / 100000); item < 0 || c.n[p] == 0 || item%100000 >= c.n[p] {
			b.fail("C02 simple2: Handle was called with item %d, which was never written to any input (%s)", item, c)
		}
		time.Sleep(20 * time.Microsecond)
		atomic.AddInt64(&handled, 1)
		atomic.AddInt64(&inHandle, -1)
	}
	dsc, err := simple.New(simple.Opts[int]{Divider: dv, Handle: handle, HandlersQuantity: c.H, Inputs: inputs})
	scribbleInputs(inputs) // the map belongs to the caller again once the constructor has returned
	if err != nil {
		b.fail("C18 configuration judged non-fatal was rejected by simple.New: %v (%s)", err, c)
		b.note("simple2", c.String(), before)
		return
	}
	for _, p := range c.prios {
		go func(p uint) {
			for i := 0; i < c.n[p]; i++ {
				chans[p] <- int(p)*100000 + i
			}
			close(chans[p])
		}(p)
	}
	select {
	case e := <-dsc.Err():
		if e != nil {
			b.fail("C07 simple2: Err() yields %v in normal mode (%s)", e, c)
		}
	case <-time.After(20 * time.Second):
		b.fail("C06 simple2: no termination within 20s (%s)", c)
		b.fail("C02 simple2: %d of %d items were handled within 20s (every producer writes its items, as fast as they are taken, and closes its input) (%s)", atomic.LoadInt64(&handled), total, c)
		b.note("simple2", c.String(), before)
		return
	}
	if int(atomic.LoadInt64(&handled)) != total {
		b.fail("C02 simple2: %d of %d items were handled when the discipline terminated (%s)", handled, total, c)
	}
	b.leakProbe("normal termination of v2 simple")
	b.note("simple2", c.String(), before)
}

// v1 priority: graceful termination or Stop / cancel injected at a random point.
func (b *bb) scenarioPrio1() {
	if b.cycle("prio1-zero-share", 8) == 0 {
		b.zeroShareGraceful()
	}
	if b.cycle("prio1-graceful-held", 2) == 1 {
		b.gracefulHeldStop()
	}
	if b.cycle("prio1-stop-full-output", 2) == 0 {
		b.stopFullOutput()
	}
	before := b.fails()
	c := b.randPrioCfg()
	mode := []string{"graceful", "stop", "cancel", "stop-busy", "graceful+stop", "graceful+cancel", "stop-noread"}[b.cycle("prio1", 7)]
	inputs := map[uint]<-chan int{}
	chans := map[uint]chan int{}
	heavy := mode == "stop-noread" && b.thorough
	for _, p := range c.prios {
		n := c.caps[p]
		if heavy {
			// thorough tier: a backlog of a million items per input, kept full by several
			// producers - a loop that goes on receiving after Stop does not run dry
			n = 1 << 20
		}
		ch := make(chan int, n)
		chans[p], inputs[p] = ch, ch
		for i := 0; heavy && i < n; i++ {
			ch <- int(p)*100000 - n + i
		}
	}
	dv := p1.RateDivider
	if c.fair {
		dv = p1.FairDivider
	}
	ctx, cancel := context.WithCancel(context.Background())
	defer cancel()
	output := make(chan p1.Prioritized[int], b.r.Intn(3))
	feedback := make(chan uint, b.r.Intn(3))
	dsc, err := p1.New(p1.Opts[int]{Ctx: ctx, Divider: dv, Feedback: feedback, HandlersQuantity: c.H, Inputs: inputs, Output: output})
	scribbleInputs(inputs) // the map belongs to the caller again once the constructor has returned
	if err != nil {
		b.fail("C16 v1 New failed: %v", err)
		return
	}
	stopProd := make(chan struct{})
	var produced sync.WaitGroup
	for _, p := range c.prios {
		for k := 0; heavy && k < 7; k++ {
			produced.Add(1)
			go func(p uint) {
				defer produced.Done()
				for {
					select {
					case chans[p] <- -1:
					case <-stopProd:
						return
					}
				}
			}(p)
		}
		produced.Add(1)
		go func(p uint) {
			defer produced.Done()
			defer func() {
				if !heavy { // (other producers may still be sending)
					close(chans[p])
				}
			}()
			// (stop-noread: the producers never run dry)
			for i := 0; mode == "stop-noread" || i < c.n[p]; i++ {
				select {
				case chans[p] <- int(p)*100000 + i:
				case <-stopProd:
					return
				}
			}
		}(p)
	}
	var inflight int64
	var mu sync.Mutex
	var got []delivery
	holdAll := mode == "stop-busy" // handlers never release: every handler stays busy
	stopped := make(chan struct{})
	stoppedClosed := false
	var readers sync.WaitGroup
	readers.Add(1)
	go func() {
		defer readers.Done()
		for {
			select {
			case it := <-output:
				v := atomic.AddInt64(&inflight, 1)
				if v > int64(c.H) {
					b.fail("C01 prio1: %d items handed out and not fed back, HandlersQuantity %d (%s)", v, c.H, c)
				}
				mu.Lock()
				got = append(got, delivery{it.Priority, it.Item})
				n := len(got)
				mu.Unlock()
				if mode == "stop-noread" && n >= 2 {
					// the consumer stops reading: the discipline blocks in its send while the
					// producers keep every buffered input full
					<-stopped
					return
				}
				if !holdAll {
					go func(p uint) {
						atomic.AddInt64(&inflight, -1)
						select {
						case feedback <- p:
						case <-stopped:
						}
					}(it.Priority)
				}
			case <-stopped:
				return
			}
		}
	}()
	total := 0
	for _, p := range c.prios {
		total += c.n[p]
	}
	switch mode {
	case "graceful":
		produced.Wait()
		ret := make(chan struct{})
		go func() { dsc.GracefulStop(); close(ret) }()
		select {
		case <-ret:
		case <-time.After(20 * time.Second):
			b.fail("C07 prio1: GracefulStop did not return within 20s with all inputs closed and every item fed back (%s)", c)
			close(stopped)
			close(stopProd)
			return
		}
		mu.Lock()
		b.checkOrder("prio1 graceful", c, got)
		mu.Unlock()
	default:
		time.Sleep(time.Duration(b.r.Intn(3000)) * time.Microsecond)
		ret := make(chan struct{})
		gdone := make(chan struct{})
		if strings.HasPrefix(mode, "graceful+") {
			// a graceful stop is pending (inputs are still open) when the rough one arrives
			go func() { dsc.GracefulStop(); close(gdone) }()
			time.Sleep(time.Duration(b.r.Intn(1500)) * time.Microsecond)
		} else {
			close(gdone)
		}
		go func() {
			if mode == "cancel" || mode == "graceful+cancel" {
				cancel()
			}
			dsc.Stop()
			<-gdone
			close(ret)
		}()
		select {
		case <-ret:
		case <-time.After(5 * time.Second):
			b.fail("C16 prio1: Stop() did not return within 5s (mode %s, %d in flight of %d) (%s)", mode, atomic.LoadInt64(&inflight), c.H, c)
			close(stopped)
			close(stopProd)
			b.note("prio1", mode+" "+c.String(), before)
			return
		}
		// Stop has returned: pause the consumer, empty what was buffered before, and look for a
		// write that happens afterwards (a sender blocked on an unbuffered output is seen by the
		// non-blocking receive as well)
		close(stopped)
		stoppedClosed = true
		readers.Wait()
	drain:
		for {
			select {
			case <-output:
			default:
				break drain
			}
		}
		time.Sleep(15 * time.Millisecond)
		select {
		case it := <-output:
			b.fail("C16 prio1: item %d of priority %d was written to the output after Stop() returned (mode %s) (%s)", it.Item, it.Priority, mode, c)
		default:
		}
		mu.Lock()
		// in-order, duplicate-free subsequence per priority
		last := map[uint]int{}
		for _, d := range got {
			if l, ok := last[d.p]; ok && d.x <= l {
				b.fail("C16 prio1: deliveries of priority %d are not an in-order duplicate-free subsequence (%d after %d)", d.p, d.x, l)
				break
			}
			last[d.p] = d.x
		}
		mu.Unlock()
	}
	if !stoppedClosed {
		close(stopped)
	}
	close(stopProd)
	produced.Wait()
	readers.Wait()
	b.leakProbe("termination of v1 priority (" + mode + ")")
	b.note("prio1", mode+" "+c.String(), before)
}

func (b *bb) scenarioSimple1() {
	if b.cycle("simple1-small", 4) == 1 {
		b.simple1Small()
	}
	before := b.fails()
	c := b.randPrioCfg()
	mode := []string{"graceful+cancel-hooked", "graceful+cancel", "graceful+stop", "stop-busy", "graceful", "stop", "cancel", "stop+stop"}[b.cycle("simple1", 8)]
	inputs := map[uint]<-chan int{}
	chans := map[uint]chan int{}
	total := 0
	for _, p := range c.prios {
		ch := make(chan int, c.caps[p])
		chans[p], inputs[p] = ch, ch
		total += c.n[p]
	}
	dv := p1.RateDivider
	if c.fair {
		dv = p1.FairDivider
	}
	ctx, cancel := context.WithCancel(context.Background())
	defer cancel()
	var inHandle, handled int64
	var leftMu sync.Mutex
	left := 0
	var seenMu sync.Mutex
	seen := map[int]bool{}
	handle := func(hctx context.Context, item int) {
		v := atomic.AddInt64(&inHandle, 1)
		defer atomic.AddInt64(&inHandle, -1)
		if v > int64(c.H) {
			b.fail("C01 simple1: %d concurrent Handle calls, HandlersQuantity %d (%s)", v, c.H, c)
		}
		// what Handle is called with is something that was written to an input, once
		// (the producers write p*100000+i, i < n[p], to the input of priority p)
		seenMu.Lock()
		dup := seen[item]
		seen[item] = true
		seenMu.Unlock()
		if p := uint(item / 100000); item < 0 || c.n[p] == 0 || item%100000 >= c.n[p] {
			b.fail("C02 simple1: Handle was called with item %d, which was never written to any input (mode %s) (%s)", item, mode, c)
			b.fail("C16 simple1: Handle was called with item %d, which was never written to any input: what is delivered is not a subsequence of what was written (mode %s) (%s)", item, mode, c)
		} else if dup {
			b.fail("C02 simple1: Handle was called twice with item %d (mode %s) (%s)", item, mode, c)
			b.fail("C16 simple1: Handle was called twice with item %d (mode %s) (%s)", item, mode, c)
		}
		if mode == "stop-busy" || mode == "stop+stop" {
			<-hctx.Done() // busy until cancelled: Handle honours its context ...
			// ... and needs a moment to wind up; what it leaves behind belongs to the user, who
			// reads it once the discipline has terminated
			time.Sleep(3 * time.Millisecond)
			leftMu.Lock()
			left = item
			leftMu.Unlock()
			return
		}
		select {
		case <-time.After(20 * time.Microsecond):
		case <-hctx.Done():
		}
		atomic.AddInt64(&handled, 1)
	}
	// hooked: the user's context makes both termination requests pending at a chosen call of
	// Done() by the library, i.e. at a chosen point of main's progress (before its select)
	var userCtx context.Context = ctx
	ready := make(chan *p1.Simple[int], 1)
	gret := make(chan struct{})
	var hooked *hookCtx
	if mode == "graceful+cancel-hooked" {
		hooked = &hookCtx{Context: ctx, at: int32(1 + b.r.Intn(2))}
		hooked.hook = func() {
			d := <-ready
			go func() { d.GracefulStop(); close(gret) }()
			time.Sleep(300 * time.Microsecond)
			cancel()
		}
		userCtx = hooked
	}
	dsc, err := p1.NewSimple(p1.SimpleOpts[int]{Ctx: userCtx, Divider: dv, Handle: handle, HandlersQuantity: c.H, Inputs: inputs})
	scribbleInputs(inputs) // the map belongs to the caller again once the constructor has returned
	ready <- dsc
	if err != nil {
		b.fail("C16 v1 NewSimple failed: %v", err)
		return
	}
	// a user that waits for the completion of the discipline the documented way: until Err() is
	// closed.  From then on no Handle call is running (C07), the handler goroutines are gone (C19)
	// and what Handle wrote can be read without further synchronisation (C20)
	errClosed := make(chan struct{})
	go func() {
		defer close(errClosed)
		for range dsc.Err() {
		}
		if v := atomic.LoadInt64(&inHandle); v != 0 {
			b.fail("C07 simple1: Err() is closed (the discipline has terminated) but %d Handle call(s) are still running (mode %s) (%s)", v, mode, c)
			b.fail("C19 simple1: Err() is closed but %d handler goroutine(s) are still alive inside Handle (mode %s) (%s)", v, mode, c)
		}
		_ = left
	}()
	stopProd := make(chan struct{})
	var produced sync.WaitGroup
	for _, p := range c.prios {
		produced.Add(1)
		go func(p uint) {
			defer produced.Done()
			defer close(chans[p])
			for i := 0; i < c.n[p]; i++ {
				select {
				case chans[p] <- int(p)*100000 + i:
				case <-stopProd:
					return
				}
			}
		}(p)
	}
	ret := make(chan struct{})
	switch mode {
	case "graceful":
		produced.Wait()
		go func() { dsc.GracefulStop(); close(ret) }()
	case "graceful+cancel-hooked":
		go func() {
			time.Sleep(5 * time.Millisecond)
			hooked.fire() // in case the library asked for Done() fewer times than expected
			<-gret
			<-dsc.Err()
			close(ret)
		}()
	case "stop+stop":
		// two overlapping Stop() calls: when EITHER of them returns the discipline has terminated
		time.Sleep(time.Duration(500+b.r.Intn(1500)) * time.Microsecond)
		var both sync.WaitGroup
		stopOnce := func(delay time.Duration) {
			defer both.Done()
			time.Sleep(delay)
			dsc.Stop()
			if v := atomic.LoadInt64(&inHandle); v != 0 {
				b.fail("C16 simple1: %d Handle calls are still running when one of two overlapping Stop() calls returned (%s)", v, c)
			}
			select {
			case <-dsc.Err():
			default:
				b.fail("C19 simple1: Err() is not closed when one of two overlapping Stop() calls returned (%s)", c)
			}
		}
		both.Add(2)
		go stopOnce(0)
		go stopOnce(time.Duration(20+b.r.Intn(200)) * time.Microsecond)
		go func() { both.Wait(); close(ret) }()
	case "graceful+cancel", "graceful+stop":
		// two ways of termination requested at (nearly) the same time from different goroutines
		// either somewhat later, or at once: before main has reached its select, so that both
		// requests are already pending when it gets there
		if b.r.Intn(2) == 0 {
			time.Sleep(time.Duration(b.r.Intn(2000)) * time.Microsecond)
		}
		var both sync.WaitGroup
		both.Add(2)
		go func() { defer both.Done(); dsc.GracefulStop() }()
		go func() {
			defer both.Done()
			if mode == "graceful+cancel" {
				cancel()
				<-dsc.Err()
			} else {
				dsc.Stop()
			}
		}()
		go func() { both.Wait(); close(ret) }()
	default:
		time.Sleep(time.Duration(b.r.Intn(3000)) * time.Microsecond)
		go func() {
			if mode == "cancel" {
				cancel()
			}
			dsc.Stop()
			close(ret)
		}()
	}
	select {
	case <-ret:
	case <-time.After(20 * time.Second):
		if mode == "graceful" {
			b.fail("C07 simple1: GracefulStop did not return within 20s (%s)", c)
		} else {
			b.fail("C16 simple1: Stop() did not return within 20s (mode %s) (%s)", mode, c)
		}
		close(stopProd)
		b.note("simple1", mode+" "+c.String(), before)
		return
	}
	if v := atomic.LoadInt64(&inHandle); v != 0 {
		b.fail("C16 simple1: %d Handle calls are still running after %s returned (%s)", v, mode, c)
	}
	if mode == "graceful" && int(atomic.LoadInt64(&handled)) != total {
		b.fail("C07 simple1: GracefulStop returned with %d of %d items handled (%s)", handled, total, c)
	}
	close(stopProd)
	produced.Wait()
	select {
	case <-errClosed:
	case <-time.After(5 * time.Second):
		b.fail("C19 simple1: Err() was not closed within 5s after %s returned (%s)", mode, c)
	}
	b.leakProbe("termination of v1 simple (" + mode + ")")
	b.note("simple1", mode+" "+c.String(), before)
}

// v1: AddInput / RemoveInput called concurrently with traffic.
// C17 for an added priority whose share is zero: one handler, FairDivider, priority 2 registered
// (open, idle); AddInput(ch, 1) gives priority 1 a share of 0.  With TWO priorities the handler the
// idle priority does not use is lent to the other one (finding F1 needs three), so the elements
// of ch are delivered tagged 1, and GracefulStop() returns once both inputs are closed.
func (b *bb) addZeroShare() {
	before := b.fails()
	rate := b.cycle("add-zero-share", 2) == 1
	H, hi := uint(1), uint(2)
	dv := p1.FairDivider
	if rate {
		// RateDivider: 6 handlers, priorities 100 and 1 - the share of 1 rounds to zero
		H, hi, dv = 6, 100, p1.RateDivider
	}
	desc := fmt.Sprintf("v1 priority, H=%d, priority %d registered (open, idle), AddInput(ch, 1): shares %v", H, hi, dv([]uint{hi, 1}, H, nil))
	first := make(chan int, 2)
	output := make(chan p1.Prioritized[int], 1)
	feedback := make(chan uint, 1)
	dsc, err := p1.New(p1.Opts[int]{Divider: dv, Feedback: feedback, HandlersQuantity: H, Inputs: map[uint]<-chan int{hi: first}, Output: output})
	if err != nil {
		b.fail("C17 v1 New failed: %v", err)
		return
	}
	ch := make(chan int, 5)
	for i := 0; i < 5; i++ {
		ch <- 100000 + i
	}
	close(ch)
	dsc.AddInput(ch, 1)
	got := 0
	deadline := time.After(3 * time.Second)
recv:
	for got < 5 {
		select {
		case it := <-output:
			if it.Priority != 1 || it.Item != 100000+got {
				b.fail("C17 zero-share add: item %d delivered with priority %d, expected item %d tagged 1 (%s)", it.Item, it.Priority, 100000+got, desc)
			}
			got++
			go func(p uint) { feedback <- p }(it.Priority)
		case <-deadline:
			break recv
		}
	}
	if got < 5 {
		b.fail("C17 zero-share add: AddInput(ch, 1) returned, ch holds 5 elements (and is closed), every handler is idle, but only %d of them were delivered within 3s (%s)", got, desc)
	}
	close(first)
	gret := make(chan struct{})
	go func() { dsc.GracefulStop(); close(gret) }()
	select {
	case <-gret:
	case <-time.After(3 * time.Second):
		if got == 5 {
			b.fail("C17 zero-share add: GracefulStop() did not return within 3s although both inputs are closed and drained and everything was fed back (%s)", desc)
		}
		dsc.Stop()
		<-gret
	}
	b.leakProbe("termination of v1 priority after a zero-share AddInput")
	b.note("dynamic", "add-zero-share "+desc, before)
}

func (b *bb) scenarioDynamic() {
	if b.cycle("dynamic-add-zero-share", 2) == 0 {
		b.addZeroShare()
	}
	before := b.fails()
	H := uint(2 + b.r.Intn(6))
	ctx, cancel := context.WithCancel(context.Background())
	defer cancel()
	output := make(chan p1.Prioritized[int], 1)
	feedback := make(chan uint, 1)
	base := make(chan int, 4)
	dsc, err := p1.New(p1.Opts[int]{Ctx: ctx, Divider: p1.FairDivider, Feedback: feedback, HandlersQuantity: H,
		Inputs: map[uint]<-chan int{1: base}, Output: output})
	if err != nil {
		b.fail("C17 v1 New failed: %v", err)
		return
	}
	stopped := make(chan struct{})
	var mu sync.Mutex
	tags := map[int]uint{}
	var inflight int64
	go func() {
		for {
			select {
			case it := <-output:
				v := atomic.AddInt64(&inflight, 1)
				if v > int64(H) {
					b.fail("C01 dynamic: %d items in flight, HandlersQuantity %d", v, H)
				}
				mu.Lock()
				tags[it.Item] = it.Priority
				mu.Unlock()
				go func(p uint) {
					time.Sleep(10 * time.Microsecond)
					atomic.AddInt64(&inflight, -1)
					select {
					case feedback <- p:
					case <-stopped:
					}
				}(it.Priority)
			case <-stopped:
				return
			}
		}
	}()
	// steady traffic on priority 1
	go func() {
		for i := 0; ; i++ {
			select {
			case base <- 100000 + i:
			case <-stopped:
				return
			}
		}
	}()
	for round := 0; round < 3; round++ {
		p := uint(2 + b.r.Intn(5))
		ch := make(chan int, 8)
		for i := 0; i < 8; i++ {
			ch <- int(p)*100000 + round*100 + i
		}
		dsc.AddInput(ch, p)
		// after AddInput returns, elements of ch are delivered tagged p
		deadline := time.Now().Add(5 * time.Second)
		for len(ch) > 4 && time.Now().Before(deadline) {
			time.Sleep(100 * time.Microsecond)
		}
		if len(ch) > 4 {
			b.fail("C17 dynamic: 5s after AddInput(ch, %d) returned only %d of 8 elements of ch were read (H=%d)", p, 8-len(ch), H)
		}
		dsc.RemoveInput(p)
		// after RemoveInput returns the discipline never again reads from ch
		l0 := len(ch)
		for i := 0; i < 3 && len(ch) < cap(ch); i++ {
			ch <- int(p)*100000 + round*100 + 50 + i
			l0++
		}
		time.Sleep(3 * time.Millisecond)
		if len(ch) != l0 {
			b.fail("C17 dynamic: %d element(s) were read from the channel of priority %d after RemoveInput returned", l0-len(ch), p)
		}
		mu.Lock()
		for x, tag := range tags {
			if x/100000 != int(tag) {
				b.fail("C17 dynamic: item %d written to the channel registered for priority %d was delivered tagged %d", x, x/100000, tag)
				break
			}
		}
		mu.Unlock()
	}
	// an unbuffered input that is registered late and stays idle for a while: the traffic of the
	// other inputs goes on (the discipline gives up on an idle unbuffered input after two ticks of
	// its interrupter), and what is written to it later is delivered
	{
		idle := make(chan int)
		dsc.AddInput(idle, 9)
		count := func() int { mu.Lock(); defer mu.Unlock(); return len(tags) }
		n0 := count()
		deadline := time.Now().Add(3 * time.Second)
		for count() < n0+20 && time.Now().Before(deadline) {
			time.Sleep(200 * time.Microsecond)
		}
		if got := count() - n0; got < 20 {
			b.fail("C06 dynamic: after AddInput of an idle unbuffered input (priority 9) only %d items of the busy input were delivered in 3s although handlers release at once (H=%d)", got, H)
		} else {
			select {
			case idle <- 900000:
			case <-time.After(3 * time.Second):
				b.fail("C06 dynamic: an item written to the late-added unbuffered input was not accepted within 3s (H=%d)", H)
			}
			// (only a discipline that is still serving its inputs is asked to remove one: a
			// RemoveInput left blocked would be hit by the termination below)
			rm := make(chan struct{})
			go func() { dsc.RemoveInput(9); close(rm) }()
			select {
			case <-rm:
			case <-time.After(10 * time.Second):
				b.fail("C17 dynamic: RemoveInput of the late-added unbuffered input did not return within 10s (H=%d)", H)
			}
		}
	}
	ret := make(chan struct{})
	go func() { dsc.Stop(); close(ret) }()
	select {
	case <-ret:
	case <-time.After(5 * time.Second):
		b.fail("C16 dynamic: Stop() did not return within 5s")
	}
	close(stopped)
	b.leakProbe("Stop of v1 priority after AddInput/RemoveInput")
	b.note("dynamic", fmt.Sprintf("H=%d", H), before)
	b.dynamicLate()
	b.dynamicGraceful()
}

// AddInput / RemoveInput around a graceful stop (v1): an input added while a GracefulStop() is
// pending is served like any other (C02, C17); a discipline whose inputs have all been removed
// terminates gracefully at once (C07, C17)
func (b *bb) dynamicGraceful() {
	before := b.fails()
	H := uint(1 + b.r.Intn(4))
	ctx, cancel := context.WithCancel(context.Background())
	defer cancel()
	output := make(chan p1.Prioritized[int])
	feedback := make(chan uint, int(H))
	base := make(chan int, 4)
	dsc, err := p1.New(p1.Opts[int]{Ctx: ctx, Divider: p1.FairDivider, Feedback: feedback, HandlersQuantity: H,
		Inputs: map[uint]<-chan int{1: base}, Output: output})
	if err != nil {
		b.fail("C17 v1 New failed: %v", err)
		return
	}
	mode := []string{"add-while-graceful", "all-removed", "all-removed-then-graceful"}[b.cycle("dyn-graceful", 3)]
	returned := make(chan struct{})
	const n = 3
	got := 0
	switch mode {
	case "add-while-graceful":
		go func() { dsc.GracefulStop(); close(returned) }()
		time.Sleep(time.Duration(200+b.r.Intn(800)) * time.Microsecond) // the stop is pending: input 1 is open
		late := make(chan int, n)
		for i := 0; i < n; i++ {
			late <- 200000 + i
		}
		close(late)
		added := make(chan struct{})
		go func() { dsc.AddInput(late, 2); close(added) }()
		select {
		case <-added:
		case <-time.After(5 * time.Second):
			b.fail("C17 graceful: AddInput did not return within 5s while a GracefulStop() was pending")
		}
		close(base)
	case "all-removed":
		go func() {
			dsc.GracefulStop()
			close(returned)
		}()
		time.Sleep(time.Duration(200+b.r.Intn(800)) * time.Microsecond)
		dsc.RemoveInput(1) // the channel stays open; nothing is registered any more
	case "all-removed-then-graceful":
		dsc.RemoveInput(1)
		go func() { dsc.GracefulStop(); close(returned) }()
	}
	deadline := time.After(10 * time.Second)
loop:
	for {
		select {
		case it := <-output:
			if it.Priority == 2 {
				got++
			}
			feedback <- it.Priority
		case <-returned:
			break loop
		case <-deadline:
			b.fail("C07 graceful (%s): GracefulStop() did not return within 10s although every registered input is closed and drained (or none is registered) and everything is released (H=%d)", mode, H)
			if mode != "add-while-graceful" {
				b.fail("C17 graceful (%s): RemoveInput(1) returned, no input is registered any more, but GracefulStop() did not return within 10s: the removal has not taken effect for the termination test (H=%d)", mode, H)
			}
			break loop
		}
	}
	if mode == "add-while-graceful" && got != n {
		b.fail("C02 graceful: AddInput(ch, 2) returned while a GracefulStop() was pending, the discipline terminated, but only %d of the %d items written to ch before it was closed were delivered (H=%d)", got, n, H)
	}
	cancel()
	b.leakProbe("graceful termination of v1 priority (" + mode + ")")
	b.note("dynamic", "graceful "+mode, before)
}

// a producer registers its (last) channel and asks for a graceful stop right afterwards, while
// every handler is busy: once AddInput() has returned the channel is registered, so whatever was
// written to it before it was closed is delivered before the discipline terminates (C02, C17)
func (b *bb) dynamicLate() {
	before := b.fails()
	H := uint(1 + b.r.Intn(4))
	ctx, cancel := context.WithCancel(context.Background())
	defer cancel()
	output := make(chan p1.Prioritized[int])
	feedback := make(chan uint, int(H))
	base := make(chan int, int(H))
	for i := 0; i < int(H); i++ {
		base <- 100000 + i
	}
	close(base)
	dsc, err := p1.New(p1.Opts[int]{Ctx: ctx, Divider: p1.FairDivider, Feedback: feedback, HandlersQuantity: H,
		Inputs: map[uint]<-chan int{1: base}, Output: output})
	if err != nil {
		b.fail("C17 v1 New failed: %v", err)
		return
	}
	// every handler takes an item and keeps it
	for i := 0; i < int(H); i++ {
		select {
		case <-output:
		case <-time.After(5 * time.Second):
			b.fail("C06 late: item %d of %d was not delivered within 5s although handlers are vacant", i, H)
			return
		}
	}
	const n = 3
	late := make(chan int, n)
	for i := 0; i < n; i++ {
		late <- 200000 + i
	}
	close(late)
	returned := make(chan struct{})
	go func() {
		dsc.AddInput(late, 2)
		dsc.GracefulStop()
		close(returned)
	}()
	time.Sleep(time.Duration(b.r.Intn(3)) * time.Millisecond)
	for i := 0; i < int(H); i++ {
		feedback <- 1
	}
	got := 0
	deadline := time.After(10 * time.Second)
loop:
	for {
		select {
		case it := <-output:
			if it.Priority != 2 || it.Item != 200000+got {
				b.fail("C02 late: expected item %d of priority 2, got item %d tagged %d", 200000+got, it.Item, it.Priority)
			}
			got++
			feedback <- it.Priority
		case <-returned:
			break loop
		case <-deadline:
			b.fail("C07 late: GracefulStop() did not return within 10s although every input is closed and every item released (%d of %d late items delivered)", got, n)
			break loop
		}
	}
	if got != n {
		b.fail("C02 late: AddInput(ch, 2) returned, then GracefulStop() returned, but only %d of the %d items written to ch before it was closed were delivered (H=%d, all handlers were busy when AddInput was called)", got, n, H)
	}
	select {
	case e, ok := <-dsc.Err():
		if ok && e != nil {
			b.fail("C15 late: unexpected error %v", e)
		}
	case <-time.After(5 * time.Second):
	}
	b.leakProbe("graceful termination of v1 priority after a late AddInput")
	b.note("dynamic", fmt.Sprintf("late H=%d", H), before)
}

type hookCtx struct {
	context.Context
	at    int32
	calls int32
	once  sync.Once
	hook  func()
}

func (h *hookCtx) fire() { h.once.Do(h.hook) }

func (h *hookCtx) Done() <-chan struct{} {
	if atomic.AddInt32(&h.calls, 1) >= h.at {
		h.fire()
	}
	return h.Context.Done()
}

// a divider that breaks its contract after some calls: the discipline must report the error,
// terminate (v2: close its output after the releases) and leave no goroutine behind
func (b *bb) scenarioFaulty() {
	before := b.fails()
	if b.cycle("faulty-tail", 4) == 3 {
		b.faultyTail()
		b.note("faulty", "tail", before)
		return
	}
	c := b.randPrioCfg()
	v1 := b.cycle("faulty", 2) == 0
	after := int32(3 + b.r.Intn(12))
	var calls, fired int32
	kind := []string{"over", "under"}[b.r.Intn(2)] // an all-zero result is exempt (C15: "non-zero added total")
	// (the divider is called from the discipline's goroutine: it gets its own random source)
	cr := rand.New(rand.NewSource(b.r.Int63()))
	graceful := b.r.Intn(2) == 0
	corrupt := func(prios []uint, dist map[uint]uint) {
		switch kind {
		case "over":
			dist[prios[0]] += 1 + uint(cr.Intn(2))
		case "under":
			// keep the result non-zero: an all-zero total is exempt from the property
			total := uint(0)
			for _, v := range dist {
				total += v
			}
			if total >= 2 {
				for _, p := range prios {
					if dist[p] > 0 {
						dist[p]--
						return
					}
				}
			}
			dist[prios[0]] += 3
		}
	}
	desc := fmt.Sprintf("v1=%v kind=%s after=%d %s", v1, kind, after, c)
	stop := make(chan struct{})
	var produced sync.WaitGroup
	chans := map[uint]chan int{}
	inputs := map[uint]<-chan int{}
	for _, p := range c.prios {
		ch := make(chan int, c.caps[p])
		chans[p], inputs[p] = ch, ch
	}
	startProducers := func() {
		for _, p := range c.prios {
			produced.Add(1)
			go func(p uint) {
				defer produced.Done()
				for i := 0; ; i++ {
					select {
					case chans[p] <- int(p)*100000 + i:
					case <-stop:
						return
					}
				}
			}(p)
		}
	}
	if !v1 {
		base := divider.Fair
		if !c.fair {
			base = divider.Rate
		}
		dv := func(prios []uint, q uint, dist map[uint]uint) {
			base(prios, q, dist)
			if atomic.AddInt32(&calls, 1) > after && q > 0 && len(prios) > 0 {
				corrupt(prios, dist)
			}
		}
		if b.cycle("faulty-simple", 2) == 0 {
			// the simplified discipline: its handler goroutines must end too when the divider fails
			sd, err := simple.New(simple.Opts[int]{Divider: dv, Handle: func(int) {}, HandlersQuantity: c.H, Inputs: inputs})
			if err != nil {
				b.note("faulty", "simple "+desc, before)
				return
			}
			startProducers()
			select {
			case e, ok := <-sd.Err():
				if !ok || e == nil {
					b.fail("C15 faulty v2 simple: the divider broke its contract (%s) but Err() yielded %v (open=%v) (%s)", kind, e, ok, desc)
				}
			case <-time.After(10 * time.Second):
				b.fail("C15 faulty v2 simple: the divider broke its contract (%s) but no error was reported within 10s (%s)", kind, desc)
			}
			close(stop)
			produced.Wait()
			b.leakProbe("divider error of v2 simple")
			b.note("faulty", "simple "+desc, before)
			return
		}
		dsc, err := p2.New(p2.Opts[int]{Divider: dv, HandlersQuantity: c.H, Inputs: inputs})
		if err != nil {
			// the constructor's own probing calls hit the fault: also a correct outcome
			b.note("faulty", desc, before)
			return
		}
		startProducers()
		closed := make(chan struct{})
		go func() {
			defer close(closed)
			// handlers release concurrently: a consumer that reads the output only after its
			// previous Release returned would be fewer than HandlersQuantity handlers
			var rel sync.WaitGroup
			for it := range dsc.Output() {
				rel.Add(1)
				go func(p uint) { defer rel.Done(); dsc.Release(p) }(it.Priority)
			}
			rel.Wait()
		}()
		select {
		case e, ok := <-dsc.Err():
			if !ok || e == nil {
				b.fail("C15 faulty v2: the divider broke its contract (%s) but Err() yielded %v (open=%v) (%s)", kind, e, ok, desc)
			}
		case <-time.After(10 * time.Second):
			b.fail("C15 faulty v2: the divider broke its contract (%s) but no error was reported within 10s (%s)", kind, desc)
			if os.Getenv("BB_DEBUG") != "" {
				buf := make([]byte, 1<<20)
				os.Stderr.Write(buf[:runtime.Stack(buf, true)])
			}
		}
		select {
		case <-closed:
		case <-time.After(10 * time.Second):
			b.fail("C15 faulty v2: the output was not closed within 10s after the divider error (%s)", desc)
		}
		close(stop)
		produced.Wait()
		b.leakProbe("divider error of v2 priority")
	} else {
		base := p1.FairDivider
		if !c.fair {
			base = p1.RateDivider
		}
		dv := func(prios []uint, q uint, dist map[uint]uint) map[uint]uint {
			out := base(prios, q, dist)
			if atomic.AddInt32(&calls, 1) > after && q > 0 && len(prios) > 0 {
				corrupt(prios, out)
				atomic.StoreInt32(&fired, 1)
			}
			return out
		}
		ctx, cancel := context.WithCancel(context.Background())
		defer cancel()
		if b.cycle("faulty-simple1", 2) == 0 {
			// v1 Simple: the error of the inner discipline ends main, its handlers and itself
			sd, err := p1.NewSimple(p1.SimpleOpts[int]{Ctx: ctx, Divider: dv, Handle: func(context.Context, int) {}, HandlersQuantity: c.H, Inputs: inputs})
			if err != nil {
				b.note("faulty", "simple1 "+desc, before)
				return
			}
			startProducers()
			if graceful {
				// a graceful stop is pending when the divider breaks its contract (with it, a normal
				// termination before the fault ever fires is possible: only a fault that did fire
				// has to be reported)
				go sd.GracefulStop()
			}
			select {
			case e, ok := <-sd.Err():
				if (!ok || e == nil) && (!graceful || atomic.LoadInt32(&fired) == 1) {
					b.fail("C15 faulty v1 simple: the divider broke its contract (%s) but Err() yielded %v (open=%v) (graceful stop pending: %v) (%s)", kind, e, ok, graceful, desc)
				}
			case <-time.After(10 * time.Second):
				b.fail("C15 faulty v1 simple: the divider broke its contract (%s) but no error was reported within 10s (%s)", kind, desc)
			}
			ret := make(chan struct{})
			go func() { sd.Stop(); close(ret) }()
			select {
			case <-ret:
			case <-time.After(5 * time.Second):
				b.fail("C16 faulty v1 simple: Stop() did not return within 5s after a divider error (%s)", desc)
			}
			close(stop)
			produced.Wait()
			b.leakProbe("divider error of v1 simple")
			b.note("faulty", "simple1 "+desc, before)
			return
		}
		output := make(chan p1.Prioritized[int], 1)
		feedback := make(chan uint, 1)
		dsc, err := p1.New(p1.Opts[int]{Ctx: ctx, Divider: dv, Feedback: feedback, HandlersQuantity: c.H, Inputs: inputs, Output: output})
		if err != nil {
			b.note("faulty", desc, before)
			return
		}
		startProducers()
		go func() {
			for {
				select {
				case it := <-output:
					go func(p uint) {
						select {
						case feedback <- p:
						case <-stop:
						}
					}(it.Priority)
				case <-stop:
					return
				}
			}
		}()
		select {
		case e, ok := <-dsc.Err():
			if !ok || e == nil {
				b.fail("C15 faulty v1: the divider broke its contract (%s) but Err() yielded %v (open=%v) (%s)", kind, e, ok, desc)
			}
		case <-time.After(10 * time.Second):
			b.fail("C15 faulty v1: the divider broke its contract (%s) but no error was reported within 10s (%s)", kind, desc)
		}
		ret := make(chan struct{})
		go func() { dsc.Stop(); close(ret) }()
		select {
		case <-ret:
		case <-time.After(5 * time.Second):
			b.fail("C16 faulty v1: Stop() did not return within 5s after a divider error (%s)", desc)
		}
		close(stop)
		produced.Wait()
		b.leakProbe("divider error of v1 priority")
	}
	b.note("faulty", desc, before)
}

// C01 / C05 for the v1 simplified discipline with FEWER handlers than inputs (v1 accepts that:
// some priorities get a zero share, see finding F1).  Every input is saturated from before the
// creation, Handle blocks until the probe is over: the number of Handle calls running at the
// same time never exceeds the HandlersQuantity that was asked for, and no priority has more calls
// running than its share of that quantity (saturation: c05_share_v1).  Ended by Stop().
func (b *bb) simple1Small() {
	before := b.fails()
	sets := [][]uint{{3, 2, 1}, {5, 4, 3, 2, 1}, {9, 6, 4, 1}}
	prios := sets[b.r.Intn(len(sets))]
	H := uint(1 + b.r.Intn(len(prios)-1))
	fair := b.r.Intn(2) == 0
	dv := p1.RateDivider
	if fair {
		dv = p1.FairDivider
	}
	share := dv(prios, H, nil)
	desc := fmt.Sprintf("v1 NewSimple prios=%v H=%d fair=%v shares=%v, every input saturated from creation, Handle never returns before Stop", prios, H, fair, share)
	inputs := map[uint]<-chan int{}
	stop := make(chan struct{})
	var writers sync.WaitGroup
	for _, p := range prios {
		ch := make(chan int, 2)
		inputs[p] = ch
		ch <- int(p) * 100000
		ch <- int(p)*100000 + 1
		for w := 0; w < 4; w++ {
			writers.Add(1)
			go func(p uint, w int) {
				defer writers.Done()
				for i := 0; ; i++ {
					select {
					case ch <- int(p)*100000 + 2 + w*10000 + i:
					case <-stop:
						return
					}
				}
			}(p, w)
		}
	}
	time.Sleep(2 * time.Millisecond) // the writers are parked on the full inputs
	var mu sync.Mutex
	running := map[uint]int{}
	total, maxTotal := 0, 0
	worst := map[uint]int{}
	handle := func(ctx context.Context, item int) {
		p := uint(item / 100000)
		mu.Lock()
		running[p]++
		total++
		if total > maxTotal {
			maxTotal = total
		}
		if running[p] > worst[p] {
			worst[p] = running[p]
		}
		mu.Unlock()
		<-ctx.Done()
		mu.Lock()
		running[p]--
		total--
		mu.Unlock()
	}
	dsc, err := p1.NewSimple(p1.SimpleOpts[int]{Divider: dv, Handle: handle, HandlersQuantity: H, Inputs: inputs})
	if err != nil {
		// a constructor that rejects the configuration would be a repair of F1, not a violation
		close(stop)
		writers.Wait()
		b.note("simple1", "small: rejected by the constructor: "+desc, before)
		return
	}
	// settle: until the picture has not changed for 30 ms (at most 2 s)
	last, stable := -1, 0
	for w := 0; w < 200 && stable < 3; w++ {
		time.Sleep(10 * time.Millisecond)
		mu.Lock()
		t := total
		mu.Unlock()
		if t == last {
			stable++
		} else {
			last, stable = t, 0
		}
	}
	mu.Lock()
	if uint(maxTotal) > H {
		b.fail("C01 simple1 small: %d Handle calls were running at the same time, HandlersQuantity is %d (%s)", maxTotal, H, desc)
	}
	for _, p := range prios {
		if uint(worst[p]) > share[p] {
			b.fail("C05 simple1 small: priority %d had %d Handle calls running at the same time, its share of %d handlers is %d (%s)", p, worst[p], H, share[p], desc)
		}
	}
	mu.Unlock()
	ret := make(chan struct{})
	go func() { dsc.Stop(); close(ret) }()
	select {
	case <-ret:
	case <-time.After(5 * time.Second):
		b.fail("C16 simple1 small: Stop() did not return within 5s (%s)", desc)
	}
	close(stop)
	writers.Wait()
	b.leakProbe("Stop of v1 simple with fewer handlers than inputs")
	b.note("simple1", "small: "+desc, before)
}

// C16 in the last wait of a graceful termination: GracefulStop() was called, every input is
// closed and drained, some handlers are vacant and one holds an item whose feedback never comes -
// the discipline waits for it (waitZeroActual).  Stop() / cancellation arriving NOW must end the
// wait: Stop() returns, GracefulStop() returns, Err() is closed, within bounded time.
func (b *bb) gracefulHeldStop() {
	before := b.fails()
	byCtx := b.cycle("graceful-held-ctx", 2) == 0
	H := uint(2 + b.r.Intn(4))
	prios := []uint{3, 1}
	inputs := map[uint]<-chan int{}
	for _, p := range prios {
		ch := make(chan int, 1)
		if p == 3 {
			ch <- 300000
		}
		close(ch)
		inputs[p] = ch
	}
	output := make(chan p1.Prioritized[int], 1)
	feedback := make(chan uint, 1)
	ctx, cancel := context.WithCancel(context.Background())
	defer cancel()
	desc := fmt.Sprintf("v1 priority, H=%d, priorities 3 (one item, closed) and 1 (empty, closed), the item is held and never fed back, GracefulStop() pending, then %s", H, map[bool]string{true: "the context is cancelled", false: "Stop() is called"}[byCtx])
	dsc, err := p1.New(p1.Opts[int]{Ctx: ctx, Divider: p1.FairDivider, Feedback: feedback, HandlersQuantity: H, Inputs: inputs, Output: output})
	if err != nil {
		b.fail("C16 v1 New failed: %v", err)
		return
	}
	select {
	case <-output:
	case <-time.After(5 * time.Second):
		b.fail("C06 graceful-held: the only item was not delivered within 5s (%s)", desc)
	}
	gret := make(chan struct{})
	go func() { dsc.GracefulStop(); close(gret) }()
	// the discipline finds both inputs drained and starts waiting for the feedback of the held item
	time.Sleep(20 * time.Millisecond)
	select {
	case <-gret:
		b.fail("C07 graceful-held: GracefulStop() returned although a delivered item was not fed back (%s)", desc)
	default:
	}
	sret := make(chan struct{})
	go func() {
		if byCtx {
			cancel()
		}
		dsc.Stop()
		close(sret)
	}()
	select {
	case <-sret:
	case <-time.After(5 * time.Second):
		b.fail("C16 graceful-held: Stop() did not return within 5s (%s)", desc)
		// let the discipline go, so that the run can continue
		select {
		case feedback <- 3:
		case <-time.After(time.Second):
		}
	}
	select {
	case <-gret:
	case <-time.After(5 * time.Second):
		b.fail("C16 graceful-held: the pending GracefulStop() did not return within 5s after Stop()/cancellation (%s)", desc)
	}
	select {
	case _, open := <-dsc.Err():
		if open {
			select {
			case _, open = <-dsc.Err():
			case <-time.After(5 * time.Second):
			}
		}
		if open {
			b.fail("C16 graceful-held: Err() was not closed within 5s after Stop()/cancellation (%s)", desc)
		}
	case <-time.After(5 * time.Second):
		b.fail("C16 graceful-held: Err() was not closed within 5s after Stop()/cancellation (%s)", desc)
	}
	b.leakProbe("Stop during the last wait of a graceful termination of v1 priority")
	b.note("prio1", "graceful-held "+desc, before)
}

// C16 with the smallest output channels: HandlersQuantity handlers, an output of capacity
// HandlersQuantity-1 (one handler: unbuffered), a consumer that does not read, inputs holding more
// than HandlersQuantity items.  The discipline fills the output and blocks in its next write;
// Stop() / cancellation must end that write.
func (b *bb) stopFullOutput() {
	before := b.fails()
	H := []uint{1, 2, 4, 3}[b.cycle("stop-full-output-h", 4)]
	byCtx := b.cycle("stop-full-output-ctx", 2) == 1
	in := make(chan int, int(H)+3)
	for i := 0; i < int(H)+3; i++ {
		in <- 100000 + i
	}
	output := make(chan p1.Prioritized[int], int(H)-1)
	feedback := make(chan uint, 1)
	ctx, cancel := context.WithCancel(context.Background())
	defer cancel()
	desc := fmt.Sprintf("v1 priority, H=%d, cap(Output)=%d, %d items waiting, nobody reads the output, then %s", H, H-1, H+3, map[bool]string{true: "the context is cancelled", false: "Stop() is called"}[byCtx])
	dsc, err := p1.New(p1.Opts[int]{Ctx: ctx, Divider: p1.FairDivider, Feedback: feedback, HandlersQuantity: H, Inputs: map[uint]<-chan int{1: in}, Output: output})
	if err != nil {
		b.fail("C16 v1 New failed: %v", err)
		return
	}
	time.Sleep(20 * time.Millisecond) // the output is full, the discipline is inside a write
	ret := make(chan struct{})
	go func() {
		if byCtx {
			cancel()
		}
		dsc.Stop()
		close(ret)
	}()
	select {
	case <-ret:
	case <-time.After(5 * time.Second):
		b.fail("C16 full output: Stop() did not return within 5s (%s)", desc)
		// let the discipline go, so that the run can continue
		go func() {
			for range output {
			}
		}()
		select {
		case <-ret:
		case <-time.After(5 * time.Second):
		}
	}
	select {
	case _, open := <-dsc.Err():
		if open {
			select {
			case _, open = <-dsc.Err():
			case <-time.After(5 * time.Second):
			}
		}
		if open {
			b.fail("C16 full output: Err() was not closed within 5s after Stop()/cancellation (%s)", desc)
		}
	case <-time.After(5 * time.Second):
		b.fail("C16 full output: Err() was not closed within 5s after Stop()/cancellation (%s)", desc)
	}
	b.leakProbe("Stop of v1 priority blocked on a full output")
	b.note("prio1", "stop-full-output "+desc, before)
}

// Known finding F1 seen from C07 (v1 only: v2's constructor rejects the configuration): priorities
// 3, 2, 1, one handler, FairDivider - the shares are 1, 0, 0.  Every input is closed and empty,
// nothing was ever delivered: GracefulStop() must return promptly.  It does not: the closed input
// of a priority whose share is zero is never looked at, so it is never marked drained
// (Lean: Cqos.C07.c07_v1_zero_share_graceful_hangs; c07_graceful_prompt_reachable needs "every
// registered priority has a share").
func (b *bb) zeroShareGraceful() {
	before := b.fails()
	inputs := map[uint]<-chan int{}
	for _, p := range []uint{3, 2, 1} {
		ch := make(chan int, 1)
		close(ch)
		inputs[p] = ch
	}
	output := make(chan p1.Prioritized[int], 1)
	feedback := make(chan uint, 1)
	dsc, err := p1.New(p1.Opts[int]{Divider: p1.FairDivider, Feedback: feedback, HandlersQuantity: 1, Inputs: inputs, Output: output})
	if err != nil {
		// a constructor that rejects the configuration (as v2 does) repairs the finding
		b.note("prio1", "zero-share graceful: rejected by the constructor", before)
		return
	}
	done := make(chan struct{})
	go func() { dsc.GracefulStop(); close(done) }()
	select {
	case <-done:
	case <-time.After(3 * time.Second):
		b.fail("C07 ver=v1 zero-share=true GracefulStop() did not return within 3s although every input (priorities 3, 2, 1; FairDivider, 1 handler: shares 1, 0, 0) is closed and empty and nothing was ever delivered")
		dsc.Stop()
		select {
		case <-done:
		case <-time.After(5 * time.Second):
			b.fail("C16 zero-share graceful: Stop() did not end the pending GracefulStop() within 5s")
		}
	}
	b.leakProbe("zero-share graceful stop of v1 priority")
	b.note("prio1", "zero-share graceful", before)
}

// C15 in the tail rounds: the divider fault first shows up when every input is already closed
// and marked drained while items are still in flight ("handlers in pairs": Fair with every
// share rounded up to an even number, wrong only for odd shares).  Two priorities, four
// handlers: the divisions 4/[a,b], 4/[a], 2/[a] are correct; with three items of a in flight
// the vacant handler is divided among the uncrowded priorities, 1/[b], and the divider adds 2.
// Only a fault that did fire has to be reported: the items are held until it has.
func (b *bb) faultyTail() {
	pa := uint(2 + b.r.Intn(50))
	pb := uint(1 + b.r.Intn(int(pa)-1))
	if b.r.Intn(2) == 0 {
		pa, pb = pb+uint(60), pa
	}
	var fired int32
	pairs := func(prios []uint, q uint, dist map[uint]uint) {
		shares := make(map[uint]uint, len(prios))
		divider.Fair(prios, q, shares)
		for p, sh := range shares {
			if sh%2 == 1 {
				atomic.StoreInt32(&fired, 1)
			}
			dist[p] += sh + sh%2
		}
	}
	desc := fmt.Sprintf("priorities %d (3 items, closed) and %d (empty, closed), 4 handlers, pairs divider", pa, pb)
	high := make(chan int, 3)
	low := make(chan int, 1)
	for i := 0; i < 3; i++ {
		high <- int(pa)*100000 + i
	}
	close(high)
	close(low)
	dsc, err := p2.New(p2.Opts[int]{Divider: pairs, HandlersQuantity: 4, Inputs: map[uint]<-chan int{pa: high, pb: low}})
	if err != nil {
		b.fail("C15 faulty tail: unexpected constructor error %v (%s)", err, desc)
		return
	}
	var got []uint
	deadline := time.After(10 * time.Second)
	for len(got) < 3 {
		select {
		case it, ok := <-dsc.Output():
			if !ok {
				b.fail("C07 faulty tail: the output was closed after %d of 3 items, none of them released (%s)", len(got), desc)
				return
			}
			got = append(got, it.Priority)
		case <-deadline:
			b.fail("C06 faulty tail: only %d of 3 items were delivered within 10s although 4 handlers are free (%s)", len(got), desc)
			go func() {
				for range dsc.Output() {
				}
			}()
			return
		}
	}
	for w := 0; atomic.LoadInt32(&fired) == 0 && w < 5000; w++ {
		time.Sleep(time.Millisecond)
	}
	didFire := atomic.LoadInt32(&fired) == 1
	for _, p := range got {
		dsc.Release(p)
	}
	select {
	case e, ok := <-dsc.Err():
		if didFire && (!ok || e == nil) {
			b.fail("C15 faulty tail: the division of 1 among [%d] added 2 in a round made after all inputs were drained, but Err() yielded %v (open=%v): the fault is swallowed (%s)", pb, e, ok, desc)
		}
	case <-time.After(10 * time.Second):
		b.fail("C15 faulty tail: the discipline did not terminate within 10s after all items were released (%s)", desc)
	}
	select {
	case _, ok := <-dsc.Output():
		if ok {
			b.fail("C15 faulty tail: an item was delivered after the inputs were drained (%s)", desc)
		}
	case <-time.After(10 * time.Second):
		b.fail("C15 faulty tail: the output was not closed within 10s (%s)", desc)
	}
	b.leakProbe("tail divider error of v2 priority")
}

// C06: nothing is in flight and one priority alone has data, all of it available up-front
// (a buffered input filled before the discipline is created): min(k, HandlersQuantity) items
// are delivered without any release being needed - the priority is granted all handlers -
// and the rest follows as the handlers release.  (Data that trickles in while the priority
// already holds its share may legitimately wait for a release: the property does not promise
// more, and neither does the code.)
func (b *bb) scenarioAlone() {
	before := b.fails()
	c := b.randPrioCfg()
	v1 := b.cycle("alone", 2) == 0
	P := c.prios[b.r.Intn(len(c.prios))]
	desc := fmt.Sprintf("v1=%v alone=%d %s", v1, P, c)
	chans := map[uint]chan int{}
	inputs := map[uint]<-chan int{}
	k := 1 + b.r.Intn(int(c.H)+3)
	for _, p := range c.prios {
		n := c.caps[p]
		if p == P {
			n = k
		}
		ch := make(chan int, n)
		chans[p], inputs[p] = ch, ch
	}
	for i := 0; i < k; i++ {
		chans[P] <- int(P)*100000 + i
	}
	var delivered int64
	var release func()
	var finish func()
	held := make(chan uint, 4096)
	if !v1 {
		dv := divider.Rate
		if c.fair {
			dv = divider.Fair
		}
		dsc, err := p2.New(p2.Opts[int]{Divider: dv, HandlersQuantity: c.H, Inputs: inputs})
		if err != nil {
			b.fail("C18 configuration judged non-fatal was rejected by New: %v (%s)", err, desc)
			return
		}
		go func() {
			for it := range dsc.Output() {
				if it.Priority != P {
					b.fail("C02 alone: an item tagged %d was delivered, only priority %d was written to (%s)", it.Priority, P, desc)
				}
				held <- it.Priority
				atomic.AddInt64(&delivered, 1)
			}
		}()
		release = func() { go dsc.Release(<-held) }
		finish = func() {
			for len(held) > 0 {
				release()
			}
			for _, p := range c.prios {
				close(chans[p])
			}
			select {
			case <-dsc.Err():
			case <-time.After(10 * time.Second):
				b.fail("C07 alone: v2 did not terminate within 10s after every input was closed and every item released (%s)", desc)
			}
			// items delivered during the shutdown are released too
			deadline := time.Now().Add(2 * time.Second)
			for len(held) > 0 && time.Now().Before(deadline) {
				release()
				time.Sleep(time.Millisecond)
			}
		}
	} else {
		dv := p1.RateDivider
		if c.fair {
			dv = p1.FairDivider
		}
		output := make(chan p1.Prioritized[int], b.r.Intn(2))
		feedback := make(chan uint, b.r.Intn(2))
		ctx, cancel := context.WithCancel(context.Background())
		dsc, err := p1.New(p1.Opts[int]{Ctx: ctx, Divider: dv, Feedback: feedback, HandlersQuantity: c.H, Inputs: inputs, Output: output})
		if err != nil {
			cancel()
			b.fail("C16 v1 New failed: %v", err)
			return
		}
		stop := make(chan struct{})
		go func() {
			for {
				select {
				case it := <-output:
					if it.Priority != P {
						b.fail("C02 alone: an item tagged %d was delivered, only priority %d was written to (%s)", it.Priority, P, desc)
					}
					held <- it.Priority
					atomic.AddInt64(&delivered, 1)
				case <-stop:
					return
				}
			}
		}()
		release = func() {
			p := <-held
			go func() {
				select {
				case feedback <- p:
				case <-stop:
				}
			}()
		}
		finish = func() {
			ret := make(chan struct{})
			go func() { dsc.Stop(); close(ret) }()
			select {
			case <-ret:
			case <-time.After(5 * time.Second):
				b.fail("C16 alone: v1 Stop() did not return within 5s (%s)", desc)
			}
			close(stop)
			cancel()
		}
	}
	cn := startCanary()
	want := k
	if want > int(c.H) {
		want = int(c.H)
	}
	deadline := time.Now().Add(3 * time.Second)
	ok := true
	for int(atomic.LoadInt64(&delivered)) < want {
		if time.Now().After(deadline) {
			if cn.max > 500*time.Millisecond { // the machine was stalled: wait again
				deadline = time.Now().Add(3 * time.Second)
				cn.max = 0
				continue
			}
			b.fail("C06 alone: nothing in flight, priority %d alone has %d items available up-front: %d delivered after 3s without a release, %d expected (HandlersQuantity %d) (%s)",
				P, k, atomic.LoadInt64(&delivered), want, c.H, desc)
			ok = false
			break
		}
		time.Sleep(200 * time.Microsecond)
	}
	time.Sleep(2 * time.Millisecond)
	if got := int(atomic.LoadInt64(&delivered)); got > int(c.H) {
		b.fail("C01 alone: %d delivered with nothing released, HandlersQuantity %d (%s)", got, c.H, desc)
	}
	// the rest follows as the handlers release
	released := 0
	deadline = time.Now().Add(5 * time.Second)
	for ok && int(atomic.LoadInt64(&delivered)) < k && time.Now().Before(deadline) {
		if len(held) > 0 {
			release()
			released++
		}
		time.Sleep(100 * time.Microsecond)
	}
	cn.lag()
	if ok && int(atomic.LoadInt64(&delivered)) < k {
		b.fail("C06 alone: %d of %d items were delivered although every delivered item was released (%s)", atomic.LoadInt64(&delivered), k, desc)
	}
	finish()
	b.leakProbe("termination after the alone scenario")
	b.note("alone", desc, before)
}

// scribbleInputs: what a caller may do with its own map after the constructor returned (reuse
// it for the next discipline): the library must have taken what it needs by then (C20, C02)
func scribbleInputs(m map[uint]<-chan int) {
	for k := range m {
		delete(m, k)
	}
	m[424242] = nil
}

// scenarioSaturated (C05): buffered inputs that are never empty - every input has many writers
// blocked on it, and a receive from a full channel takes the next blocked writer's value into the
// buffer in the same step - and a consumer that waits until all handlers are occupied, looks at
// what each priority holds, releases a random group and repeats, tens of thousands of times.
// With no release outstanding every priority holds exactly its share (computed here with the
// library divider on the sorted priorities).  Small input capacities (1, 2) are included: a
// discipline that reads a buffered input "patiently" through a select with a ticker instead of
// draining it can give up early and hand the remainder to another priority.
func (b *bb) scenarioSaturated() {
	before := b.fails()
	r := b.r
	prios := [][]uint{{3, 2, 1}, {7, 2}, {5, 4, 3, 1}}[r.Intn(3)]
	H := uint(len(prios) * (1 + r.Intn(3)))
	fair := r.Intn(2) == 0
	dv := divider.Rate
	if fair {
		dv = divider.Fair
	}
	if !utils.IsNonFatalConfig(prios, dv, H) {
		fair, dv = true, divider.Fair
	}
	share := map[uint]uint{}
	dv(prios, H, share)
	rounds := 40000
	if b.thorough {
		rounds = 400000
	}
	inputs := map[uint]<-chan int{}
	chans := map[uint]chan int{}
	caps := map[uint]int{}
	for _, p := range prios {
		caps[p] = []int{1, 1, 2, 5}[r.Intn(4)]
		ch := make(chan int, caps[p])
		chans[p], inputs[p] = ch, ch
	}
	stop := make(chan struct{})
	var writers sync.WaitGroup
	for _, p := range prios {
		var perInput sync.WaitGroup
		for k := 0; k < 32; k++ {
			writers.Add(1)
			perInput.Add(1)
			go func(p uint) {
				defer writers.Done()
				defer perInput.Done()
				for {
					select {
					case chans[p] <- 1:
					case <-stop:
						return
					}
				}
			}(p)
		}
		go func(p uint) { perInput.Wait(); close(chans[p]) }(p)
	}
	// the discipline is created only when every input is full and has writers blocked on it:
	// from its very first round on, data is waiting continuously on every input
	for _, p := range prios {
		for deadline := time.Now().Add(5 * time.Second); len(chans[p]) < cap(chans[p]) && time.Now().Before(deadline); {
			time.Sleep(50 * time.Microsecond)
		}
	}
	time.Sleep(3 * time.Millisecond)
	dsc, err := p2.New(p2.Opts[int]{Divider: dv, HandlersQuantity: H, Inputs: inputs})
	if err != nil {
		b.fail("C18 configuration judged non-fatal was rejected by New: %v (prios=%v H=%d)", err, prios, H)
		close(stop)
		writers.Wait()
		return
	}
	// releases are issued from another goroutine: the discipline may be busy writing to its
	// output, which this goroutine has to keep reading
	relCh := make(chan uint, 4*int(H))
	relDone := make(chan struct{})
	go func() {
		defer close(relDone)
		for p := range relCh {
			dsc.Release(p)
		}
	}()
	held := map[uint]uint{}
	total := uint(0)
	violations := 0
	first := ""
	ok := true
	recvUntilFull := func() bool {
		for total < H {
			select {
			case it, open := <-dsc.Output():
				if !open {
					return false
				}
				held[it.Priority]++
				total++
			case <-time.After(10 * time.Second):
				b.fail("C06 saturated: with every input full only %d of %d handlers were occupied after 10s (prios=%v caps=%v fair=%v)", total, H, prios, caps, fair)
				return false
			}
		}
		return true
	}
	for i := 0; i < rounds && ok; i++ {
		if ok = recvUntilFull(); !ok {
			break
		}
		// all handlers occupied, no release outstanding
		for _, p := range prios {
			if held[p] != share[p] {
				violations++
				if first == "" {
					first = fmt.Sprintf("round %d: priority %d holds %d, its share is %d (in flight %v, shares %v)", i, p, held[p], share[p], held, share)
				}
				break
			}
		}
		// release a random group
		k := 1 + r.Intn(int(H))
		for j := 0; j < k; j++ {
			p := prios[r.Intn(len(prios))]
			if held[p] == 0 {
				continue
			}
			held[p]--
			total--
			relCh <- p
		}
	}
	if violations >= 2 {
		b.fail("C05 saturated: with every input kept full and no release outstanding a priority did not hold its share in %d of %d rounds; first: %s (prios=%v H=%d caps=%v fair=%v)", violations, rounds, first, prios, H, caps, fair)
	}
	// wind down: the writers stop, the inputs are closed, everything is released
	close(stop)
	done := make(chan struct{})
	go func() {
		go func() {
			for p, n := range held {
				for ; n > 0; n-- {
					relCh <- p
				}
			}
		}()
		for it := range dsc.Output() {
			relCh <- it.Priority
		}
		close(relCh)
		<-relDone
		close(done)
	}()
	select {
	case <-done:
	case <-time.After(20 * time.Second):
		b.fail("C07 saturated: no termination within 20s after the inputs were closed and everything released (prios=%v H=%d)", prios, H)
	}
	writers.Wait()
	b.leakProbe("normal termination of v2 priority (saturated)")
	b.note("saturated", fmt.Sprintf("prios=%v H=%d caps=%v fair=%v rounds=%d", prios, H, caps, fair, rounds), before)
}

// scenarioUtils (C20, C18): the handler-quantity helpers are called from several goroutines with
// one priorities slice that belongs to the caller - in the caller's own order, not sorted - while
// the caller goes on reading it.  The helpers work on a copy: the slice is never written to.
func (b *bb) scenarioUtils() {
	before := b.fails()
	shared := []uint{1, 2, 3, 5, 8}
	orig := append([]uint(nil), shared...)
	var wg sync.WaitGroup
	for g := 0; g < 3; g++ {
		wg.Add(1)
		go func(g int) {
			defer wg.Done()
			for i := 0; i < 30; i++ {
				switch (g + i) % 6 {
				case 0:
					utils.IsNonFatalConfig(shared, divider.Fair, 7)
				case 1:
					utils.PickUpMinNonFatalQuantity(shared, divider.Rate, 12)
				case 2:
					utils.PickUpMaxNonFatalQuantity(shared, divider.Fair, 12)
				case 3:
					utils.IsSuitableConfig(shared, divider.Fair, 12, 10)
				case 4:
					utils.PickUpMinSuitableQuantity(shared, divider.Rate, 12, 50)
				case 5:
					utils.PickUpMaxSuitableQuantity(shared, divider.Fair, 12, 50)
				}
			}
		}(g)
	}
	sum := uint(0)
	for i := 0; i < 300; i++ {
		for _, p := range shared {
			sum += p
		}
		runtime.Gosched()
	}
	wg.Wait()
	if !reflect.DeepEqual(shared, orig) {
		b.fail("C20 utils: the priorities slice owned by the caller was modified by the helpers: %v instead of %v (with several callers: a data race on user data)", shared, orig)
		b.fail("C18 utils: the priorities slice owned by the caller was modified by the helpers: %v instead of %v", shared, orig)
	}
	_ = sum
	b.note("utils", "shared priorities slice", before)
	b.utilsOwnSets()
}

// C20 for the auxiliary functions of both versions: callers that share nothing (every goroutine
// passes its own slice, and a different set of priorities) get the results a lone caller gets
func (b *bb) utilsOwnSets() {
	before := b.fails()
	sets := [][]uint{{3, 2, 1}, {70, 20, 10}, {4, 1}, {9, 5, 2, 1}}
	type res struct {
		nf           bool
		minNF, maxNF uint
		st           bool
		minST, maxST uint
	}
	one := func(v1 bool, ps []uint) res {
		own := append([]uint(nil), ps...)
		if v1 {
			return res{
				p1.IsNonFatalConfig(own, p1.FairDivider, 6), p1.PickUpMinNonFatalQuantity(own, p1.RateDivider, 40), p1.PickUpMaxNonFatalQuantity(own, p1.FairDivider, 40),
				p1.IsSuitableConfig(own, p1.RateDivider, 30, 20), p1.PickUpMinSuitableQuantity(own, p1.RateDivider, 60, 20), p1.PickUpMaxSuitableQuantity(own, p1.FairDivider, 60, 20),
			}
		}
		return res{
			utils.IsNonFatalConfig(own, divider.Fair, 6), utils.PickUpMinNonFatalQuantity(own, divider.Rate, 40), utils.PickUpMaxNonFatalQuantity(own, divider.Fair, 40),
			utils.IsSuitableConfig(own, divider.Rate, 30, 20), utils.PickUpMinSuitableQuantity(own, divider.Rate, 60, 20), utils.PickUpMaxSuitableQuantity(own, divider.Fair, 60, 20),
		}
	}
	for _, v1 := range []bool{true, false} {
		want := make([]res, len(sets))
		for i, ps := range sets {
			want[i] = one(v1, ps)
		}
		var wg sync.WaitGroup
		var mu sync.Mutex
		reported := false
		for g := range sets {
			wg.Add(1)
			go func(g int) {
				defer wg.Done()
				defer func() {
					if r := recover(); r != nil {
						mu.Lock()
						defer mu.Unlock()
						if !reported {
							reported = true
							b.fail("C20 utils v1=%v: a helper panicked (%v) when called with priorities %v while other goroutines called the helpers with their own, different priorities", v1, r, sets[g])
						}
					}
				}()
				for i := 0; i < 40; i++ {
					if got := one(v1, sets[g]); got != want[g] {
						mu.Lock()
						if !reported {
							reported = true
							b.fail("C20 utils v1=%v: with priorities %v a lone caller gets %+v, but %+v while other goroutines call the helpers with their own, different priorities: the calls share state", v1, sets[g], want[g], got)
						}
						mu.Unlock()
						return
					}
				}
			}(g)
		}
		wg.Wait()
	}
	b.note("utils", "own priority sets", before)
}
