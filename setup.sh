#!/bin/bash
# Offline setup: builds the Lean development (all proofs + the model driver) and the Go
# harness from files on disk.  Checks rebuild what depends on /repo themselves.
set -e
cd "$(dirname "$0")"
export GOFLAGS=-mod=mod GOPROXY=off GOSUMDB=off GOTOOLCHAIN=local
mkdir -p .work evidence replays
(cd harness && go build -tags verif ./... )
# the fact tables (C19/C20) are regenerated from /repo; every check that uses them does it again
(cd harness && go run -tags verif ./cmd/facts -repo /repo -out ../lean/Cqos/Facts)
(cd lean && lake build)
echo setup-ok
