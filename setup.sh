#!/bin/bash
# Offline setup: builds the Lean development (all proofs + the model driver) and the Go
# harness from files on disk.  Checks rebuild what depends on /repo themselves.
set -e
cd "$(dirname "$0")"
export GOFLAGS=-mod=mod GOPROXY=off GOSUMDB=off GOTOOLCHAIN=local
mkdir -p .work evidence replays
(cd lean && lake build)
(cd harness && go build -tags verif ./... )
echo setup-ok
