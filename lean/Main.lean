import Cqos.DriverPure
import Cqos.DriverSched
import Cqos.DriverJoin
import Cqos.DriverLimit
/-
  `cqosmodel`: reads one request per line on stdin, prints one reply line per request.
  Unknown or malformed requests are answered `bad-op` (never defaulted).  A `cfg` line
  starts a scheduler session; the following stepper operations act on it.
-/
open Cqos

def splitLine (line : String) : List String :=
  ((line.trimAscii.toString).splitOn " ").filter (· ≠ "")

structure Sessions where
  sched : Option DriverSched.Session := none
  join : Option DriverJoin.Session := none
  limit : Option DriverLimit.Session := none

def handle (ss : Sessions) (toks : List String) : String × Sessions :=
  match toks with
  | "cfg" :: _ =>
    match DriverSched.startSession toks with
    | some (r, s) => (r, { ss with sched := s, join := none, limit := none })
    | none => ("bad-op", { ss with sched := none })
  | "lcfg" :: _ =>
    match DriverLimit.start toks with
    | some (r, s) => (r, { ss with limit := s, sched := none, join := none })
    | none => ("bad-op", { ss with limit := none })
  | "jcfg" :: _ =>
    match DriverJoin.start toks with
    | some (r, s) => (r, { ss with join := s, sched := none, limit := none })
    | none => ("bad-op", { ss with join := none })
  | _ =>
    match (DriverPure.op toks).orElse (fun _ => DriverJoin.batchOp toks) with
    | some r => (r, ss)
    | none =>
      match ss.sched with
      | some s =>
        (match DriverSched.op s toks with
         | some (r, s') => (r, { ss with sched := some s' })
         | none => ("bad-op", ss))
      | none =>
        match ss.join with
        | some j =>
          (match DriverJoin.op j toks with
           | some (r, j') => (r, { ss with join := some j' })
           | none => ("bad-op", ss))
        | none =>
          match ss.limit with
          | some l =>
            (match DriverLimit.op l toks with
             | some (r, l') => (r, { ss with limit := some l' })
             | none => ("bad-op", ss))
          | none => ("bad-op", ss)

partial def loop (h : IO.FS.Stream) (out : IO.FS.Stream) (ss : Sessions) : IO Unit := do
  let line ← h.getLine
  if line.isEmpty then return ()
  let (reply, ss') := handle ss (splitLine line)
  out.putStrLn reply
  loop h out ss'

def main : IO Unit := do
  let stdin ← IO.getStdin
  let stdout ← IO.getStdout
  loop stdin stdout {}
  stdout.flush
