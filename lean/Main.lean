import Cqos.DriverPure
/-
  `cqosmodel`: reads one request per line on stdin, prints one reply line per request.
  Unknown or malformed requests are answered `bad-op` (never defaulted).
-/
open Cqos

def splitLine (line : String) : List String :=
  ((line.trimAscii.toString).splitOn " ").filter (· ≠ "")

partial def loop (h : IO.FS.Stream) (out : IO.FS.Stream) : IO Unit := do
  let line ← h.getLine
  if line.isEmpty then return ()
  let toks := splitLine line
  let reply := match DriverPure.op toks with
    | some r => r
    | none => "bad-op"
  out.putStrLn reply
  loop h out

def main : IO Unit := do
  let stdin ← IO.getStdin
  let stdout ← IO.getStdout
  loop stdin stdout
  stdout.flush
