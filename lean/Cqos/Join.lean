/-
  The join and unite disciplines (`v2/join`, `v2/join/unite`, v1 `join`) as one step
  machine.  The discipline's goroutine owns `join` (the accumulation buffer), `passAt`
  and — v1 — `unreleased`; the environment supplies elements / slices, ticker firings,
  the release signal, the closing of the input and — v1 — Stop/cancel.  Every action that
  reads the clock in Go carries the reading (`Nat`, nanoseconds).

  Memory is modelled by identities: the accumulation buffer is object `0`, every input
  slice of unite has its own identity (supplied by the environment, `≥ 1`), and
  `slices.Clone` allocates a fresh identity.  `events` logs every emission and every
  write into the accumulation buffer (append / reset), for the ownership property C08.
-/
namespace Cqos

inductive JKind | join | unite
  deriving DecidableEq, Repr

structure JCfg where
  kind : JKind
  size : Nat          -- JoinSize ≥ 1
  timeout : Nat       -- 0 = no timeout (Timeout ≤ 0)
  noCopy : Bool       -- v2 NoCopy / v1 Released != nil
  v1 : Bool
  deriving Repr, DecidableEq

inductive JEvent
  | emit (id : Nat) (data : List Nat)   -- a slice with identity `id` is written to the output
  | write                               -- the accumulation buffer (identity 0) is modified
  | released                            -- the consumer signalled release
  deriving Repr, DecidableEq

inductive JPc
  | run
  | await (next : Option (Nat × List Nat))   -- no-copy: waiting for the release signal;
                                             -- `next` = input slice still to be processed
  | done
  deriving Repr, DecidableEq

structure JSt where
  cfg : JCfg
  buf : List Nat
  passAt : Nat
  pc : JPc
  unreleased : Bool                  -- v1
  stopped : Bool                     -- v1
  closing : Bool                     -- the input was closed: the next release ends the discipline
  nextId : Nat                       -- next fresh identity for clones
  -- history
  out : List (List Nat)              -- emitted slices, in order
  consumed : List (List Nat)         -- input slices (join: singletons) accepted so far
  events : List JEvent
  emitAt : List Nat                  -- clock reading attached to each emission
  byTick : List Bool                 -- was the emission caused by a ticker firing
  firstAt : Nat                      -- clock reading at which the oldest element of `buf` was accepted
  deriving Repr

inductive JAct
  | item (id : Nat) (xs : List Nat) (t : Nat)  -- an element (join: `xs = [x]`) / slice is received
  | tick (t : Nat)                             -- ticker fires; `t` = clock reading
  | close (t : Nat)                            -- the input is closed (and drained)
  | release (t : Nat)                          -- no-copy: the consumer releases the slice
  | stop                                       -- v1: Stop()/cancel becomes visible
  | stopSeen (t : Nat)                         -- v1: a select takes the stop branch
  | stopFlush (t : Nat)                        -- v1: ... and the deferred pass() still gets its send through
  deriving Repr, DecidableEq

def jinit (cfg : JCfg) (t0 : Nat) : JSt :=
  { cfg := cfg, buf := [], passAt := t0, pc := .run, unreleased := false, stopped := false, closing := false,
    nextId := 1000000, out := [], consumed := [], events := [], emitAt := [], byTick := [], firstAt := t0 }

/-- `send` of a slice with identity `id`: copy mode clones (fresh identity) and carries on;
    no-copy mode hands out the slice itself and waits for the release -/
def jsend (s : JSt) (id : Nat) (data : List Nat) (t : Nat) (tick : Bool)
    (next : Option (Nat × List Nat)) : JSt :=
  if s.cfg.noCopy then
    { s with out := s.out ++ [data], events := s.events ++ [.emit id data],
             emitAt := s.emitAt ++ [t], byTick := s.byTick ++ [tick], pc := .await next }
  else
    { s with out := s.out ++ [data], events := s.events ++ [.emit s.nextId data],
             emitAt := s.emitAt ++ [t], byTick := s.byTick ++ [tick], nextId := s.nextId + 1 }

/-- the part of `pass` after the send has completed: `resetJoin`, `resetPassAt` -/
def jafterPass (s : JSt) (t : Nat) : JSt :=
  { s with buf := [], passAt := t, events := s.events ++ [.write] }

/-- `pass()`: emit the buffer if it is not empty; `passAt` is reset either way -/
def jpass (s : JSt) (t : Nat) (tick : Bool) (next : Option (Nat × List Nat)) : JSt :=
  if s.buf = [] then { s with passAt := t }
  else
    let s1 := jsend s 0 s.buf t tick next
    if s.cfg.noCopy then s1 else jafterPass s1 t

/-- append to the accumulation buffer -/
def jappend (s : JSt) (xs : List Nat) (t : Nat) : JSt :=
  { s with buf := s.buf ++ xs, events := s.events ++ [.write],
           firstAt := if s.buf = [] then t else s.firstAt }

/-- append, then pass if the buffer reached JoinSize: the whole of join's `process`, and
    the tail of unite's -/
def jappendPath (s : JSt) (xs : List Nat) (t : Nat) : JSt :=
  let s1 := jappend s xs t
  if s1.buf.length < s.cfg.size then s1 else jpass s1 t false none

/-- unite `forward(item)`: the input slice itself is sent -/
def jforward (s : JSt) (id : Nat) (xs : List Nat) (t : Nat) : JSt :=
  let s1 := jsend s id xs t false none
  if s.cfg.noCopy then s1 else { s1 with passAt := t }

/-- unite `process` once the buffer does not stand in the way (it is empty, or the slice
    fits): an oversize slice is forwarded, anything else is appended -/
def jcont (s : JSt) (id : Nat) (xs : List Nat) (t : Nat) : JSt :=
  if xs.length ≥ s.cfg.size then jforward { s with passAt := t } id xs t else jappendPath s xs t

/-- does unite's `process` have to pass the buffer before it can handle `xs`? -/
def needPass (s : JSt) (xs : List Nat) : Bool :=
  (decide (xs.length ≥ s.cfg.size) || decide (xs.length + s.buf.length > s.cfg.size)) && !s.buf.isEmpty

def jlog (s : JSt) (xs : List Nat) : JSt := { s with consumed := s.consumed ++ [xs] }

/-- `process(item)`.  The input slice is logged as consumed when its handling completes;
    when a no-copy emission of the buffer interrupts the call (`await (some _)`) the slice is
    logged when the call is resumed after the release. -/
def jprocess (s : JSt) (id : Nat) (xs : List Nat) (t : Nat) : JSt :=
  match s.cfg.kind with
  | .join => jappendPath (jlog s xs) xs t
  | .unite =>
    if needPass s xs then
      (if s.cfg.noCopy then jpass s t false (some (id, xs))
       else jcont (jpass (jlog s xs) t false none) id xs t)
    else jcont (jlog s xs) id xs t

/-- one step; `none` = not enabled -/
def jstep (s : JSt) (a : JAct) : Option JSt :=
  match s.pc, a with
  | .run, .item id xs t =>
    if s.cfg.kind = .join ∧ xs.length ≠ 1 then none   -- join receives single elements
    else if s.cfg.v1 ∧ s.unreleased then some s
    else some (jprocess s id xs t)
  | .run, .tick t =>
    if s.cfg.timeout = 0 then none
    else if t - s.passAt ≥ s.cfg.timeout then some (jpass s t true none)
    else some s
  | .run, .close t =>
    -- the deferred `pass()`, then the output is closed
    let s1 := jpass s t false none
    (match s1.pc with
     | .await _ => some { s1 with closing := true }  -- no-copy: the final slice awaits its release
     | _ => some { s1 with pc := .done, closing := true })
  | .await next, .release t =>
    -- after the release: resetJoin / resetPassAt (pass) or resetPassAt (forward), then the
    -- rest of an interrupted unite `process`
    let s1 := { s with events := s.events ++ [.released], pc := if s.closing then .done else .run }
    let s2 := if s.buf = [] then { s1 with passAt := t } else jafterPass s1 t
    (match next with
     | none => some s2
     | some (id, xs) => some (jcont (jlog s2 xs) id xs t))
  | _, .stop => if s.cfg.v1 then some { s with stopped := true } else none
  | .run, .stopSeen t =>
    -- v1: the loop returns; the deferred pass() runs with the stop signal visible, so its
    -- send may be aborted: modelled as "nothing more is emitted"
    if s.cfg.v1 ∧ s.stopped then some { s with pc := .done, passAt := t } else none
  | .run, .stopFlush t =>
    if s.cfg.v1 ∧ s.stopped then
      some { jpass s t false none with pc := .done, buf := [], unreleased := (match (jpass s t false none).pc with | .await _ => true | _ => s.unreleased) }
    else none
  | .await _, .stopSeen _ =>
    -- v1: stop while waiting for the release: `unreleased` is set, nothing is touched again
    if s.cfg.v1 ∧ s.stopped then some { s with pc := .done, unreleased := true } else none
  | _, _ => none

def jrun (s : JSt) : List JAct → Option JSt
  | [] => some s
  | a :: as => match jstep s a with
    | some s' => jrun s' as
    | none => none

end Cqos
