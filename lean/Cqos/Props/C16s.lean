import Cqos.SimpleV1
/-
  Properties C16 and C19 for v1 `priority.Simple`, on the protocol machine of
  Cqos/SimpleV1.lean (after the repair of defect D4): once `Stop()` has been called or the
  context is cancelled — in EVERY reachable state, in particular with a graceful stop pending
  and inputs that never close — some process of the discipline can move, every such move
  strictly decreases `pmu`, and `main` therefore completes (so `Stop()` returns) after at most
  `pmu` moves; on completion no handler goroutine and no helper goroutine remains.
  The composition before the repair has a reachable state in which `Stop()` was called and
  nothing can ever move again (`c16_simple_unfixed_deadlock`).
-/
namespace Cqos.SimpleV1

def rank : MainPc → Nat
  | .gracefulSync => 9
  | .select => 8
  | .inGraceful => 7
  | .stopInner => 6
  | .waitHelper => 5
  | .deferStop => 4
  | .deferCancel => 3
  | .deferWait => 2
  | .completed => 0

/-- how many moves of the discipline's own processes are left at most -/
def pmu (s : PSt) : Nat :=
  2 * rank s.pc + (if s.innerDone then 0 else 1) + (if s.helper = .blocked then 1 else 0) + s.handlers

structure PInv (s : PSt) : Prop where
  fixed : s.unfixed = false
  sel : s.pc = .select → s.helper = .none
  ing : s.pc = .inGraceful → s.helper ≠ .none
  sti : s.pc = .stopInner → s.innerStop = true ∧ s.helper ≠ .none
  wth : s.pc = .waitHelper → s.innerDone = true ∧ s.helper ≠ .none
  dst : s.pc = .deferStop → s.innerStop = true ∧ s.helper ≠ .blocked
  dcn : s.pc = .deferCancel → s.innerDone = true ∧ s.helper ≠ .blocked
  dwt : s.pc = .deferWait → s.hctx = true ∧ s.innerDone = true ∧ s.helper ≠ .blocked
  cmp : s.pc = .completed → s.handlers = 0 ∧ s.innerDone = true ∧ s.helper ≠ .blocked
  nosync : s.pc ≠ .gracefulSync

theorem pinv_init (n : Nat) : PInv (init false n) := by
  refine ⟨rfl, fun _ => rfl, ?_, ?_, ?_, ?_, ?_, ?_, ?_, ?_⟩ <;> simp [init]

/-- the user's actions change neither the invariant nor the measure -/
theorem env_step (s s' : PSt) (a : PAct) (h : PInv s) (he : isEnv a = true) (hs : pstep s a = some s') :
    PInv s' ∧ pmu s' = pmu s := by
  cases a <;> simp [isEnv] at he <;> simp only [pstep, Option.some.injEq] at hs <;> subst hs <;>
    exact ⟨⟨h.fixed, h.sel, h.ing, h.sti, h.wth, h.dst, h.dcn,
      fun hp => by have := h.dwt hp; simp_all, h.cmp, h.nosync⟩, rfl⟩

/-- **every move of the discipline's own processes keeps the invariant and strictly decreases
    the measure** -/
theorem sys_step (s s' : PSt) (a : PAct) (h : PInv s) (he : isEnv a = false) (hs : pstep s a = some s') :
    PInv s' ∧ pmu s' < pmu s := by
  have hf := h.fixed
  cases a with
  | stop => simp [isEnv] at he
  | cancel => simp [isEnv] at he
  | graceful => simp [isEnv] at he
  | drain => simp [isEnv] at he
  | selStop =>
    simp only [pstep] at hs
    split at hs
    · rename_i hc; cases hs
      have hn := h.sel hc.1
      refine ⟨⟨hf, by simp, by simp, by simp, by simp, fun _ => ⟨rfl, by simp [hn]⟩, by simp, by simp, by simp, by simp⟩, ?_⟩
      simp [pmu, rank, hc.1]
    · cases hs
  | selErr =>
    simp only [pstep] at hs
    split at hs
    · rename_i hc; cases hs
      have hn := h.sel hc.1
      refine ⟨⟨hf, by simp, by simp, by simp, by simp, fun _ => ⟨rfl, by simp [hn]⟩, by simp, by simp, by simp, by simp⟩, ?_⟩
      simp [pmu, rank, hc.1]
    · cases hs
  | selGraceful =>
    simp only [pstep] at hs
    split at hs
    · rename_i hc
      simp only [hf, Bool.false_eq_true, if_false, Option.some.injEq] at hs
      subst hs
      have hn := h.sel hc.1
      refine ⟨⟨by first | rfl | exact hf, by simp, by simp, by simp, by simp, by simp, by simp, by simp, by simp, by simp⟩, ?_⟩
      simp only [pmu, rank, hc.1, hn]
      simp
      split <;> omega
    · cases hs
  | gDone =>
    simp only [pstep] at hs
    split at hs
    · rename_i hc; cases hs
      refine ⟨⟨hf, by simp, by simp, by simp, by simp, fun _ => ⟨rfl, by simp [hc.2]⟩, by simp, by simp, by simp, by simp⟩, ?_⟩
      simp [pmu, rank, hc.1]
    · cases hs
  | gStop =>
    simp only [pstep] at hs
    split at hs
    · rename_i hc; cases hs
      have hn := h.ing hc.1
      refine ⟨⟨hf, by simp, by simp, fun _ => ⟨rfl, hn⟩, by simp, by simp, by simp, by simp, by simp, by simp⟩, ?_⟩
      simp [pmu, rank, hc.1]
    · cases hs
  | innerStopped =>
    simp only [pstep] at hs
    split at hs
    · rename_i hd
      split at hs
      · rename_i hpc; cases hs
        have := h.sti hpc
        refine ⟨⟨hf, by simp, by simp, by simp, fun _ => ⟨hd, this.2⟩, by simp, by simp, by simp, by simp, by simp⟩, ?_⟩
        simp [pmu, rank, hpc]
      · rename_i hpc; cases hs
        have := h.dst hpc
        refine ⟨⟨hf, by simp, by simp, by simp, by simp, by simp, fun _ => ⟨hd, this.2⟩, by simp, by simp, by simp⟩, ?_⟩
        simp [pmu, rank, hpc]
      · rename_i hpc; exact absurd hpc h.nosync
      · cases hs
    · cases hs
  | helperJoined =>
    simp only [pstep] at hs
    split at hs
    · rename_i hc; cases hs
      refine ⟨⟨hf, by simp, by simp, by simp, by simp, fun _ => ⟨rfl, by simp [hc.2]⟩, by simp, by simp, by simp, by simp⟩, ?_⟩
      simp [pmu, rank, hc.1]
    · cases hs
  | cancelHandlers =>
    simp only [pstep] at hs
    split at hs
    · rename_i hpc; cases hs
      have := h.dcn hpc
      refine ⟨⟨hf, by simp, by simp, by simp, by simp, by simp, by simp, fun _ => ⟨rfl, this.1, this.2⟩, by simp, by simp⟩, ?_⟩
      simp [pmu, rank, hpc]
    · cases hs
  | handlersGone =>
    simp only [pstep] at hs
    split at hs
    · rename_i hc; cases hs
      have := h.dwt hc.1
      refine ⟨⟨hf, by simp, by simp, by simp, by simp, by simp, by simp, by simp, fun _ => ⟨hc.2, this.2.1, this.2.2⟩, by simp⟩, ?_⟩
      simp [pmu, rank, hc.1]
    · cases hs
  | innerFinish =>
    simp only [pstep] at hs
    split at hs
    · rename_i hc; cases hs
      refine ⟨⟨hf, h.sel, h.ing, h.sti, fun hp => ⟨rfl, (h.wth hp).2⟩, h.dst, fun hp => ⟨rfl, (h.dcn hp).2⟩,
        fun hp => ⟨(h.dwt hp).1, rfl, (h.dwt hp).2.2⟩, fun hp => ⟨(h.cmp hp).1, rfl, (h.cmp hp).2.2⟩, h.nosync⟩, ?_⟩
      have hnd : s.innerDone = false := by simpa using hc.1
      simp [pmu, hnd]
    · cases hs
  | helperReturn =>
    simp only [pstep] at hs
    split at hs
    · rename_i hc; cases hs
      refine ⟨⟨hf, (fun hp => by have := h.sel hp; rw [hc.1] at this; cases this), by simp, fun hp => ⟨(h.sti hp).1, by simp⟩,
        fun hp => ⟨(h.wth hp).1, by simp⟩, fun hp => ⟨(h.dst hp).1, by simp⟩, fun hp => ⟨(h.dcn hp).1, by simp⟩,
        fun hp => ⟨(h.dwt hp).1, (h.dwt hp).2.1, by simp⟩, fun hp => ⟨(h.cmp hp).1, (h.cmp hp).2.1, by simp⟩, h.nosync⟩, ?_⟩
      simp [pmu, hc.1]
    · cases hs
  | handlerExit =>
    simp only [pstep] at hs
    split at hs
    · rename_i hc; cases hs
      refine ⟨⟨hf, h.sel, h.ing, h.sti, h.wth, h.dst, h.dcn, h.dwt, fun hp => by have := (h.cmp hp).1; omega, h.nosync⟩, ?_⟩
      simp only [pmu]; omega
    · cases hs

/-- **C16 (v1 Simple): no reachable state ignores Stop / cancellation.** Whenever `Stop()` was
    called or the context is cancelled and `main` has not completed, one of the discipline's own
    processes can move — whatever else is pending (a graceful stop, open inputs, busy handlers). -/
theorem c16_simple_progress (s : PSt) (h : PInv s) (hstop : s.stopReq = true ∨ s.ctxDone = true)
    (hnc : s.pc ≠ .completed) : ∃ a, isEnv a = false ∧ (pstep s a).isSome = true := by
  cases hpc : s.pc with
  | completed => exact absurd hpc hnc
  | gracefulSync => exact absurd hpc h.nosync
  | select => exact ⟨.selStop, rfl, by simp [pstep, hpc, hstop]⟩
  | inGraceful => exact ⟨.gStop, rfl, by simp [pstep, hpc, hstop]⟩
  | stopInner =>
    by_cases hd : s.innerDone = true
    · exact ⟨.innerStopped, rfl, by simp [pstep, hd, hpc]⟩
    · exact ⟨.innerFinish, rfl, by simp [pstep, hd, (h.sti hpc).1]⟩
  | waitHelper =>
    obtain ⟨hd, hn⟩ := h.wth hpc
    cases hh : s.helper with
    | none => exact absurd hh hn
    | blocked => exact ⟨.helperReturn, rfl, by simp [pstep, hh, hd]⟩
    | finished => exact ⟨.helperJoined, rfl, by simp [pstep, hpc, hh]⟩
  | deferStop =>
    by_cases hd : s.innerDone = true
    · exact ⟨.innerStopped, rfl, by simp [pstep, hd, hpc]⟩
    · exact ⟨.innerFinish, rfl, by simp [pstep, hd, (h.dst hpc).1]⟩
  | deferCancel => exact ⟨.cancelHandlers, rfl, by simp [pstep, hpc]⟩
  | deferWait =>
    by_cases hz : s.handlers = 0
    · exact ⟨.handlersGone, rfl, by simp [pstep, hpc, hz]⟩
    · exact ⟨.handlerExit, rfl, by simp [pstep, (h.dwt hpc).1]; omega⟩

/-- the moves of the discipline's own processes in an action list -/
def sysMoves (acts : List PAct) : Nat := (acts.filter (fun a => !isEnv a)).length

/-- **C16 (v1 Simple): bounded.** In every run, whatever the user does and whenever, the
    discipline's own processes make at most `pmu` moves — `2·8 + 1 + HandlersQuantity` from
    creation — so with `c16_simple_progress` `main` completes after at most that many. -/
theorem c16_simple_bound (acts : List PAct) (s s' : PSt) (h : PInv s) (hr : prun s acts = some s') :
    PInv s' ∧ sysMoves acts + pmu s' ≤ pmu s := by
  induction acts generalizing s with
  | nil => simp [prun] at hr; subst hr; exact ⟨h, by simp [sysMoves]⟩
  | cons a as ih =>
    simp only [prun] at hr
    split at hr
    · rename_i s1 hs1
      by_cases he : isEnv a = true
      · obtain ⟨h1, hm⟩ := env_step s s1 a h he hs1
        obtain ⟨h2, hb⟩ := ih s1 h1 hr
        refine ⟨h2, ?_⟩
        simp only [sysMoves, List.filter_cons, he, Bool.not_true, Bool.false_eq_true, if_false] at hb ⊢
        omega
      · have he' : isEnv a = false := by simpa using he
        obtain ⟨h1, hm⟩ := sys_step s s1 a h he' hs1
        obtain ⟨h2, hb⟩ := ih s1 h1 hr
        refine ⟨h2, ?_⟩
        simp only [sysMoves, List.filter_cons, he', Bool.not_false, if_true, List.length_cons] at hb ⊢
        omega
    · cases hr

/-- **C19 (v1 Simple): when `main` has completed nothing remains** — every handler goroutine
    has returned, the helper goroutine is not blocked, the inner discipline has terminated. -/
theorem c19_simple_completed (n : Nat) (acts : List PAct) (s : PSt) (hr : prun (init false n) acts = some s)
    (hc : s.pc = .completed) : s.handlers = 0 ∧ s.innerDone = true ∧ s.helper ≠ .blocked :=
  (c16_simple_bound acts _ s (pinv_init n) hr).1.cmp hc

/-- **the composition before the repair of D4 deadlocks**: GracefulStop() is called, `main`
    takes that branch, then Stop() is called and the context cancelled; the handlers return —
    and from then on no process of the discipline can ever move again (the inputs are still
    open, nobody serves the inner discipline): `Stop()` never returns. -/
theorem c16_simple_unfixed_deadlock :
    ∃ s, prun (init true 2) [.graceful, .selGraceful, .stop, .cancel, .handlerExit, .handlerExit] = some s ∧
      s.stopReq = true ∧ s.pc ≠ .completed ∧ ∀ a, isEnv a = false → pstep s a = none := by
  refine ⟨_, rfl, rfl, by decide, ?_⟩
  intro a ha
  cases a <;> first | (simp [isEnv] at ha; done) | decide

/-- non-vacuity: the repaired composition in the same situation completes -/
example :
    (prun (init false 2) [.graceful, .selGraceful, .stop, .cancel, .gStop, .innerFinish, .innerStopped, .helperReturn,
        .helperJoined, .innerStopped, .cancelHandlers, .handlerExit, .handlerExit, .handlersGone]).map (·.pc) =
      some .completed := by decide

end Cqos.SimpleV1
