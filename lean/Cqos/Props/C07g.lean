import Cqos.Props.C07p
/-
  Property C07, v1 clause — "In v1 the same holds for GracefulStop (it returns only then)",
  the promptness half: once `GracefulStop()` has been called, every registered input is closed
  and empty, nothing is in flight and no feedback is outstanding, a v1 discipline terminates by
  its own steps alone — the loop-top `select` (no command, no feedback: the default case), one
  `calcTactic`, at most one full round in which every input is found closed and marked drained,
  the `processed == 0 && graceful && drained` test, `waitZeroActual`, exit — within `pmuG s ≤
  4·n + 13` steps.  No feedback, arrival, command or timer is needed.

  Hypotheses, all of them fields of `QuietG`: the strategic shares add up to `H` (C14: the
  library's dividers) and EVERY registered priority has a share of at least one.  The second is
  what v2's constructor checks (`ErrHandlersQuantityTooSmall`) and v1's does not — finding F1:
  a v1 priority with a zero share is never polled, so its closed input is never marked drained
  and `GracefulStop()` does not return (`c07_v1_zero_share_graceful_hangs` below: the same
  configuration as `c06_v1_zero_share_starves`, decided by the kernel).
-/
namespace Cqos.C07
open Cqos.C05 Cqos.C06

structure QuietG (s : St) : Prop where
  v1 : s.cfg.v1 = true
  gr : s.graceful = true
  ns : s.stopped = false
  closedEmpty : ∀ p inp, alGet s.inputs p = some inp →
    ∃ ch, alGet s.chans inp.chan = some ch ∧ ch.closed = true ∧ ch.queue = []
  pend : s.pending = []
  idle : s.actual.total = 0
  nodup : s.prios.Nodup
  hsum : sumOver s.prios s.strategic = s.cfg.H
  hH : 0 < s.cfg.H
  fill : ∀ p ∈ s.prios, 1 ≤ s.strategic.get p
  regs : ∀ p inp, alGet s.inputs p = some inp → p ∈ s.prios
  inputsNd : (alKeys s.inputs).Nodup
  pcOK : s.pc ≠ .fault ∧ s.pc ≠ .waitFb

/-- the discipline's next action in a quiet v1 state with a graceful stop pending -/
def promptActG (s : St) : Act :=
  match s.pc with
  | .top => .top .none
  | _ => promptAct s

/-- distance to termination -/
noncomputable def pmuG (s : St) : Nat :=
  match s.pc with
  | .top => 2 * s.prios.length + 5
  | _ => pmu s

theorem pmuG_top {s : St} (h : s.pc = .top) : pmuG s = 2 * s.prios.length + 5 := by simp [pmuG, h]
theorem pmuG_done {s : St} {e} (h : s.pc = .done e) : pmuG s = 0 := by simp [pmuG, pmu, h]
theorem pmuG_drain {s : St} {e} (h : s.pc = .drain e) : pmuG s = 1 := by simp [pmuG, pmu, h]
theorem pmuG_limited {s : St} {k} (h : s.pc = .limited k) : pmuG s = 2 * s.prios.length + 6 := by simp [pmuG, pmu, h]
theorem pmuG_calc {s : St} (h : s.pc = .calc) : pmuG s = 2 * s.prios.length + 4 + extra s := by simp [pmuG, pmu, h]
theorem pmuG_prio1 {s : St} {rest} (h : s.pc = .prio 1 rest) : pmuG s = rest.length + s.prios.length + 3 + extra s := by
  simp [pmuG, pmu, h]
theorem pmuG_prio2 {s : St} {ph rest} (h : s.pc = .prio ph rest) (h1 : ph ≠ 1) : pmuG s = rest.length + 2 + extra s := by
  simp [pmuG, pmu, h, h1]

theorem promptActG_eq {s : St} (h : s.pc ≠ .top) : promptActG s = promptAct s := by
  unfold promptActG; split
  · rename_i h'; exact absurd h' h
  · rfl

theorem stepCalc_flags (div : DivFn) (s : St) :
    (stepCalc div s).graceful = s.graceful ∧ (stepCalc div s).stopped = s.stopped := by
  simp only [stepCalc]
  split
  · split <;> exact ⟨rfl, rfl⟩
  · split <;> exact ⟨rfl, rfl⟩

theorem stepRecalc_flags (div : DivFn) (s : St) :
    (stepRecalc div s).graceful = s.graceful ∧ (stepRecalc div s).stopped = s.stopped := by
  simp only [stepRecalc]
  split <;> exact ⟨rfl, rfl⟩

theorem quietG_frame {s u : St} (h : QuietG s) (hc : u.cfg = s.cfg) (hg : u.graceful = s.graceful)
    (hs : u.stopped = s.stopped) (hch : u.chans = s.chans) (hp : u.pending = s.pending)
    (ha : u.actual = s.actual) (hpr : u.prios = s.prios) (hst : u.strategic = s.strategic)
    (hin : ∀ p inp, alGet u.inputs p = some inp → ∃ inp0, alGet s.inputs p = some inp0 ∧ inp0.chan = inp.chan)
    (hnd : (alKeys u.inputs).Nodup) (hpc : u.pc ≠ .fault ∧ u.pc ≠ .waitFb) : QuietG u :=
  ⟨by rw [hc]; exact h.v1, by rw [hg]; exact h.gr, by rw [hs]; exact h.ns,
   fun p inp hpi => by
     obtain ⟨inp0, h0, he⟩ := hin p inp hpi
     obtain ⟨ch, h1, h2, h3⟩ := h.closedEmpty p inp0 h0
     exact ⟨ch, by rw [hch, ← he]; exact h1, h2, h3⟩,
   by rw [hp]; exact h.pend, by rw [ha]; exact h.idle, by rw [hpr]; exact h.nodup,
   by rw [hpr, hst, hc]; exact h.hsum, by rw [hc]; exact h.hH, by rw [hpr, hst]; exact h.fill,
   fun p inp hpi => by
     obtain ⟨inp0, h0, _⟩ := hin p inp hpi
     rw [hpr]; exact h.regs p inp0 h0,
   hnd, hpc⟩

/-- **C07 (v1, promptness of GracefulStop, one step).** In a quiet v1 state with a graceful stop
    pending that has not terminated, `promptActG` is enabled, leads to such a state again and
    strictly decreases `pmuG`. -/
theorem c07_graceful_step (div : DivFn) (s : St) (hq : QuietG s) (hnd : ∀ e, s.pc ≠ .done e) :
    ∃ s', step div s (promptActG s) = some s' ∧ QuietG s' ∧ pmuG s' < pmuG s ∧ s'.prios = s.prios := by
  have hv1 := hq.v1
  have hgr := hq.gr
  cases hpc : s.pc with
  | done e => exact absurd hpc (hnd e)
  | fault => exact absurd hpc hq.pcOK.1
  | top =>
    have htot : (clearActual s.inputs s.actual).total = 0 := by rw [total_clearActual]; exact hq.idle
    refine ⟨afterTop s, by simp [promptActG, step, hpc, hv1, stepTop], ?_, ?_, rfl⟩
    · exact ⟨hv1, hgr, hq.ns, hq.closedEmpty, hq.pend, htot, hq.nodup, hq.hsum, hq.hH, hq.fill, hq.regs,
        hq.inputsNd, by simp [afterTop]⟩
    · have hpc' : (afterTop s).pc = .calc := rfl
      have hg : goodRound (afterTop s) := ⟨rfl, by rw [hpc']; trivial⟩
      rw [pmuG_calc hpc', pmuG_top hpc, extra_good hg]
      show 2 * s.prios.length + 4 + 0 < _
      omega
  | waitFb => exact absurd hpc hq.pcOK.2
  | «calc» =>
    obtain ⟨hpc', htac⟩ := c06_calc_idle div s hq.nodup hq.hsum hq.hH hq.idle
    obtain ⟨f1, f2, f3, f4, f5, f6, f7, f8⟩ := stepCalc_frame div s
    obtain ⟨f9, f10⟩ := stepCalc_flags div s
    refine ⟨stepCalc div s, by simp [promptActG, promptAct, step, hpc], ?_, ?_, f5⟩
    · exact quietG_frame hq f7 f9 f10 f2 f3 f4 f5 f6 (fun p inp hp => ⟨inp, by rw [← f1]; exact hp, rfl⟩)
        (by rw [f1]; exact hq.inputsNd) (by rw [hpc']; simp)
    · -- the new round is good whenever `processed = 0`; otherwise both sides carry the extra
      have hgood' : goodRound s → goodRound (stepCalc div s) := by
        intro hg
        refine ⟨by rw [f8]; exact hg.1, ?_⟩
        rw [hpc']
        simp only [if_true]
        intro p inp hp _
        rw [f1] at hp
        have hmem := hq.regs p inp hp
        exact ⟨hmem, by rw [htac p hmem]; exact hq.fill p hmem⟩
      have := extra_mono f5 hgood'
      rw [pmuG_prio1 hpc', pmuG_calc hpc, f5]; omega
  | limited k =>
    refine ⟨nextRound s, by simp [promptActG, promptAct, step, hpc], ?_, ?_, rfl⟩
    · exact quietG_frame hq rfl rfl rfl rfl rfl rfl rfl rfl (fun p inp hp => ⟨inp, hp, rfl⟩) hq.inputsNd
        (by simp [nextRound, hv1])
    · have hpc' : (nextRound s).pc = .top := by simp [nextRound, hv1]
      rw [pmuG_top hpc', pmuG_limited hpc]
      show 2 * s.prios.length + 5 < _
      omega
  | drain e =>
    have hz : s.actual.allZero = true := (Dist.allZero_iff_total _).2 hq.idle
    refine ⟨{ s with pc := .done e }, by simp [promptActG, promptAct, step, hpc, hz], ?_, by rw [pmuG_done (s := { s with pc := .done e }) rfl, pmuG_drain hpc]; omega, rfl⟩
    exact quietG_frame hq rfl rfl rfl rfl rfl rfl rfl rfl (fun p inp hp => ⟨inp, hp, rfl⟩) hq.inputsNd (by simp)
  | prio ph rest =>
    cases rest with
    | nil =>
      by_cases h1 : ph = 1
      · -- recalc
        subst h1
        obtain ⟨f1, f2, f3, f4, f5, f6, f7, f8, fpc⟩ := stepRecalc_frame div s
        obtain ⟨f9, f10⟩ := stepRecalc_flags div s
        refine ⟨stepRecalc div s, by simp [promptActG, promptAct, step, hpc], ?_, ?_, f5⟩
        · exact quietG_frame hq f7 f9 f10 f2 f3 f4 f5 f6 (fun p inp hp => ⟨inp, by rw [← f1]; exact hp, rfl⟩)
            (by rw [f1]; exact hq.inputsNd)
            (by rcases fpc with ⟨r, hr, _⟩ | ⟨e, he⟩
                · simp [hr]
                · simp [he])
        · rcases fpc with ⟨r, hr, hlen⟩ | ⟨e, he⟩
          · have hgood' : goodRound s → goodRound (stepRecalc div s) := by
              intro hg
              refine ⟨by rw [f8]; exact hg.1, ?_⟩
              rw [hr]
              simp only [show ¬ (2 = 1) by decide, if_false]
              intro p inp hp
              rw [f1] at hp
              have := hg.2
              rw [hpc] at this
              simp only [if_true] at this
              cases hd : inp.drained with
              | true => rfl
              | false => exact absurd (this p inp hp hd).1 (by simp)
            have := extra_mono f5 hgood'
            rw [pmuG_prio2 hr (by decide), pmuG_prio1 hpc]
            simp only [List.length_nil]; omega
          · rw [pmuG_drain he, pmuG_prio1 hpc]; omega
      · -- endRound
        by_cases hc : s.processed = 0 ∧ (¬ s.cfg.v1 ∨ s.graceful) ∧ allDrained s.inputs
        · refine ⟨{ s with pc := .drain none }, ?_, ?_, ?_, rfl⟩
          · simp only [promptActG, promptAct, hpc, h1, if_false, step]; rw [if_pos hc]
          · exact quietG_frame hq rfl rfl rfl rfl rfl rfl rfl rfl (fun p inp hp => ⟨inp, hp, rfl⟩) hq.inputsNd (by simp)
          · rw [pmuG_drain (s := { s with pc := .drain none }) rfl, pmuG_prio2 hpc h1]; omega
        · refine ⟨{ s with pc := .limited s.cfg.fbLimit }, ?_, ?_, ?_, rfl⟩
          · simp only [promptActG, promptAct, hpc, h1, if_false, step]; rw [if_neg hc]
          · exact quietG_frame hq rfl rfl rfl rfl rfl rfl rfl rfl (fun p inp hp => ⟨inp, hp, rfl⟩) hq.inputsNd (by simp)
          · -- only a round that is not good can end here
            have hbad : ¬ goodRound s := by
              intro hg
              apply hc
              refine ⟨hg.1, Or.inr hgr, ?_⟩
              have := hg.2
              rw [hpc] at this
              simp only [h1, if_false] at this
              exact allDrained_of_alGet s.inputs hq.inputsNd this
            rw [pmuG_limited (s := { s with pc := .limited s.cfg.fbLimit }) rfl, pmuG_prio2 hpc h1, extra_bad hbad]
            show 2 * s.prios.length + 6 < _
            simp only [List.length_nil]; omega
    | cons p rest =>
      -- the possible extra of the successor never exceeds that of `s` once goodness is kept
      have hmu : ∀ s' : St, s'.prios = s.prios → s'.pc = .prio ph rest → (goodRound s → goodRound s') → pmuG s' < pmuG s := by
        intro s' hpr hpc' hg
        have := extra_mono hpr hg
        by_cases h1 : ph = 1
        · subst h1
          rw [pmuG_prio1 hpc', pmuG_prio1 hpc, hpr]; simp only [List.length_cons]; omega
        · rw [pmuG_prio2 hpc' h1, pmuG_prio2 hpc h1]; simp only [List.length_cons]; omega
      cases hin : alGet s.inputs p with
      | none =>
        refine ⟨{ s with pc := .prio ph rest }, by simp [promptActG, promptAct, step, hpc, stepPoll, hin], ?_, ?_, rfl⟩
        · exact quietG_frame hq rfl rfl rfl rfl rfl rfl rfl rfl (fun p inp hp => ⟨inp, hp, rfl⟩) hq.inputsNd (by simp)
        · refine hmu { s with pc := .prio ph rest } rfl rfl ?_
          intro hg
          refine ⟨hg.1, ?_⟩
          have h2 := hg.2
          rw [hpc] at h2
          show (if ph = 1 then _ else _)
          by_cases h1 : ph = 1
          · simp only [h1, if_true] at h2 ⊢
            intro q inp hq' hd
            obtain ⟨hm, ht⟩ := h2 q inp hq' hd
            rcases List.mem_cons.1 hm with rfl | hm'
            · rw [hin] at hq'; cases hq'
            · exact ⟨hm', ht⟩
          · simp only [h1, if_false] at h2 ⊢; exact h2
      | some inp =>
        by_cases hsk : inp.drained ∨ s.tactic.get p = 0
        · refine ⟨{ s with pc := .prio ph rest }, by simp [promptActG, promptAct, step, hpc, stepPoll, hin, hsk], ?_, ?_, rfl⟩
          · exact quietG_frame hq rfl rfl rfl rfl rfl rfl rfl rfl (fun p inp hp => ⟨inp, hp, rfl⟩) hq.inputsNd (by simp)
          · refine hmu { s with pc := .prio ph rest } rfl rfl ?_
            intro hg
            refine ⟨hg.1, ?_⟩
            have h2 := hg.2
            rw [hpc] at h2
            show (if ph = 1 then _ else _)
            by_cases h1 : ph = 1
            · simp only [h1, if_true] at h2 ⊢
              intro q inp' hq' hd
              obtain ⟨hm, ht⟩ := h2 q inp' hq' hd
              rcases List.mem_cons.1 hm with rfl | hm'
              · rw [hin] at hq'; cases hq'
                rcases hsk with h | h
                · rw [h] at hd; cases hd
                · omega
              · exact ⟨hm', ht⟩
            · simp only [h1, if_false] at h2 ⊢; exact h2
        · -- pollClosed: the channel is closed and empty
          obtain ⟨ch, hch, hcl, hqe⟩ := hq.closedEmpty p inp hin
          have hstep : step div s (promptActG s) =
              some { s with inputs := alSet s.inputs p { inp with drained := true }, pc := .prio ph rest } := by
            simp [promptActG, promptAct, step, hpc, stepPoll, hin, hsk, hch, hcl, hqe]
          refine ⟨_, hstep, ?_, ?_, rfl⟩
          · refine quietG_frame hq rfl rfl rfl rfl rfl rfl rfl rfl ?_ (nodup_alSet _ _ _ hq.inputsNd) (by simp)
            intro q inp' hq'
            simp only [C02.alGet_alSet] at hq'
            split at hq'
            · rename_i he; subst he; cases hq'; exact ⟨inp, hin, rfl⟩
            · exact ⟨inp', hq', rfl⟩
          · refine hmu { s with inputs := alSet s.inputs p { inp with drained := true }, pc := .prio ph rest } rfl rfl ?_
            intro hg
            refine ⟨hg.1, ?_⟩
            have h2 := hg.2
            rw [hpc] at h2
            show (if ph = 1 then _ else _)
            by_cases h1 : ph = 1
            · simp only [h1, if_true] at h2 ⊢
              intro q inp' hq' hd
              simp only [C02.alGet_alSet] at hq'
              split at hq'
              · cases hq'; simp at hd
              · rename_i hne
                obtain ⟨hm, ht⟩ := h2 q inp' hq' hd
                rcases List.mem_cons.1 hm with rfl | hm'
                · exact absurd rfl hne
                · exact ⟨hm', ht⟩
            · simp only [h1, if_false] at h2 ⊢
              intro q inp' hq'
              simp only [C02.alGet_alSet] at hq'
              split at hq'
              · cases hq'; rfl
              · exact h2 q inp' hq'
/-- `pmuG` never exceeds `4·n + 12` (plus what is left of the current phase) -/
theorem pmuG_le (s : St) : pmuG s ≤ 4 * s.prios.length + 12 + (match s.pc with | .prio _ rest => rest.length | _ => 0) := by
  have h := pmu_le s
  unfold pmuG
  split
  · rename_i hpc; rw [hpc]; simp only; omega
  · exact h

/-- iterate `promptActG` -/
def gracefulRun (div : DivFn) : Nat → St → St
  | 0, s => s
  | k + 1, s =>
    match step div s (promptActG s) with
    | some s' => gracefulRun div k s'
    | none => s

/-- **C07 (v1, promptness of GracefulStop).** From every quiet v1 state with a graceful stop
    pending the discipline terminates by itself — no feedback, no arrival, no command, no
    timer — within `pmuG s` of its own steps. -/
theorem c07_graceful_prompt (div : DivFn) (n : Nat) (s : St) (hq : QuietG s) (hn : pmuG s ≤ n) :
    ∃ e, (gracefulRun div n s).pc = .done e := by
  induction n generalizing s with
  | zero =>
    by_cases hd : ∃ e, s.pc = .done e
    · exact hd
    · obtain ⟨s', _, _, hlt, _⟩ := c07_graceful_step div s hq (fun e he => hd ⟨e, he⟩)
      omega
  | succ k ih =>
    by_cases hd : ∃ e, s.pc = .done e
    · obtain ⟨e, he⟩ := hd
      refine ⟨e, ?_⟩
      have hnone : step div s (promptActG s) = none := by simp [step, promptActG, promptAct, he]
      simp [gracefulRun, hnone, he]
    · obtain ⟨s', hs, hq', hlt, _⟩ := c07_graceful_step div s hq (fun e he => hd ⟨e, he⟩)
      simp only [gracefulRun, hs]
      exact ih s' hq' (by omega)

/-! ### reachable states: the discipline is never found waiting for a feedback with nothing in flight -/

/-- "never waits idle", in a form that needs no global hypothesis on the divider: IF the shares
    that are in force add up to `H`, a discipline blocked in `waitCalcTactic` has something in
    flight (v1's shares are recomputed by every AddInput / RemoveInput, at the loop top only) -/
def WG (s : St) : Prop :=
  s.pc = .waitFb → sumOver s.prios s.strategic = s.cfg.H → 0 < s.cfg.H → 0 < s.actual.total

theorem stepTop_pc (div : DivFn) (s s' : St) (c : TopChoice) (h : stepTop div s c = some s') : s'.pc ≠ .waitFb := by
  cases c with
  | stop =>
    simp only [stepTop] at h
    split at h
    · cases h; simp
    · cases h
  | add p c b => simp only [stepTop, Option.some.injEq] at h; subst h; simp [afterTop]
  | remove p => simp only [stepTop, Option.some.injEq] at h; subst h; simp [afterTop]
  | feedback p =>
    simp only [stepTop] at h
    split at h
    · split at h
      · rename_i hf; cases h; rw [hf]; simp
      · cases h; simp [afterTop]
    · cases h
  | none => simp only [stepTop, Option.some.injEq] at h; subst h; simp [afterTop]

theorem wg_step (div : DivFn) (s s' : St) (a : Act) (hinv : Inv s) (hw : C15.WF s) (h : WG s)
    (hs : step div s a = some s') : WG s' := by
  have same : ∀ u : St, u.pc = s.pc → u.actual = s.actual → u.prios = s.prios → u.strategic = s.strategic →
      u.cfg = s.cfg → WG u := fun u hp ha hpr hst hc hu => by
    rw [ha, hpr, hst, hc]; exact h (by rw [← hp]; exact hu)
  have notw : ∀ u : St, u.pc ≠ .waitFb → WG u := fun u hne hu => absurd hu hne
  cases a with
  | arrive c x => obtain ⟨_, _, _, rfl⟩ := step_arrive hs; exact same _ rfl rfl rfl rfl rfl
  | close c => obtain ⟨_, _, rfl⟩ := step_close hs; exact same _ rfl rfl rfl rfl rfl
  | release p => obtain ⟨_, rfl⟩ := step_release hs; exact same _ rfl rfl rfl rfl rfl
  | stop => obtain ⟨_, rfl⟩ := step_stop hs; exact same _ rfl rfl rfl rfl rfl
  | graceful => obtain ⟨_, rfl⟩ := step_graceful hs; exact same _ rfl rfl rfl rfl rfl
  | top c => obtain ⟨_, ht, _⟩ := step_top hs; exact notw _ (stepTop_pc div s s' c ht)
  | stopSeen =>
    obtain ⟨_, _, hc⟩ := step_stopSeen hs
    rcases hc with ⟨_, rfl⟩ | ⟨ph, p, rest, _, rfl⟩ | ⟨k, _, rfl⟩ | ⟨e, _, rfl⟩
    · exact notw _ (by unfold afterWaitFb; split <;> simp)
    · exact notw _ (by simp)
    · exact notw _ (by rcases nextRound_pc s with e | e <;> simp [e])
    · exact notw _ (by simp)
  | «calc» =>
    obtain ⟨_, rfl⟩ := step_calc hs
    obtain ⟨_, _, _, _, f5, f6, f7, _⟩ := stepCalc_frame div s
    intro hu hsum hH
    rw [f5, f6, f7] at hsum
    rw [f7] at hH
    exact calc_wait_busy div s (nodup_of_strict _ hw.sorted) hsum hH hu
  | recalc =>
    obtain ⟨_, rfl⟩ := step_recalc hs
    exact notw _ (by simp only [stepRecalc]; split <;> simp)
  | endRound =>
    obtain ⟨ph, _, _, hc⟩ := step_endRound hs
    rcases hc with ⟨_, _, _, rfl⟩ | ⟨_, rfl⟩ <;> exact notw _ (by simp)
  | limitedStop =>
    obtain ⟨k, _, rfl⟩ := step_limitedStop hs
    exact notw _ (by rcases nextRound_pc s with e | e <;> simp [e])
  | exit => obtain ⟨e, _, _, rfl⟩ := step_exit hs; exact notw _ (by simp)
  | consume p =>
    obtain ⟨hp, hc⟩ := step_consume hs
    obtain ⟨h1, _, _, _, _⟩ := decActual_spec { s with pending := s.pending.erase p } p s.pending hinv.core hp rfl
    have hnf : (decActual { s with pending := s.pending.erase p } p).pc ≠ .fault := by rw [h1]; exact hinv.nofault
    rcases hc with ⟨hpc, rfl⟩ | ⟨k, hpc, _, rfl⟩ | ⟨e, hpc, _, rfl⟩
    · simp only [hnf, if_false]
      exact notw _ (by unfold afterWaitFb; split <;> simp)
    · simp only [hnf, if_false]; exact notw _ (by simp)
    · exact notw _ (by rw [h1]; simp [hpc])
  | skip =>
    obtain ⟨ph, p, rest, _, hp⟩ := step_poll_pc (Or.inr (Or.inr (Or.inr (Or.inr rfl)))) hs
    obtain ⟨rfl, _⟩ := stepPoll_skip hp; exact notw _ (by simp)
  | pollEmpty =>
    obtain ⟨ph, p, rest, _, hp⟩ := step_poll_pc (Or.inr (Or.inr (Or.inr (Or.inl rfl)))) hs
    have := stepPoll_empty hp; subst this; exact notw _ (by simp)
  | pollClosed =>
    obtain ⟨ph, p, rest, _, hp⟩ := step_poll_pc (Or.inr (Or.inr (Or.inl rfl))) hs
    obtain ⟨_, _, _, _, _, _, rfl⟩ := stepPoll_closed hp; exact notw _ (by simp)
  | pollItem =>
    obtain ⟨ph, p, rest, hpc, hp⟩ := step_poll_pc (Or.inl rfl) hs
    obtain ⟨_, _, _, _, _, _, _, _, _, rfl⟩ := stepPoll_item hp; exact notw _ (by simp [hpc])
  | pollDrop =>
    obtain ⟨ph, p, rest, hpc, hp⟩ := step_poll_pc (Or.inr (Or.inl rfl)) hs
    obtain ⟨_, _, _, _, _, _, _, _, _, rfl⟩ := stepPoll_drop hp; exact notw _ (by simp [hpc])

theorem wg_run (div : DivFn) (acts : List Act) (s s' : St) (hinv : Inv s) (hw : C15.WF s) (h : WG s)
    (hr : run div s acts = some s') : WG s' := by
  induction acts generalizing s with
  | nil => simp [run] at hr; subst hr; exact h
  | cons a as ih =>
    simp only [run] at hr
    split at hr
    · rename_i s1 hs1
      exact ih s1 (C01.step_inv div s s1 a hinv hs1).1 (C15.wf_step div s s1 a hinv hw hs1) (wg_step div s s1 a hinv hw h hs1) hr
    · cases hr

/-- **C07 (v1: GracefulStop returns promptly once that is the case).** After ANY run of a v1
    discipline — arrivals, feedbacks, AddInput / RemoveInput, in any order — in which
    `GracefulStop()` has been called and no Stop / cancellation: if every registered input is
    closed and empty, nothing is in flight and no feedback is outstanding, and the shares in
    force add up to `H` with at least one handler for every registered priority, then the
    discipline — by its own steps alone — reaches `done` within `5·n + 13` steps, whatever it
    was doing. -/
theorem c07_graceful_prompt_reachable (div : DivFn) (keys : List (Nat × Bool)) (H : Nat) (hH : 0 < H)
    (hnd : (keys.map (·.1)).Nodup) (s : St) (acts : List Act) (hr : run div (initV1 div keys H) acts = some s)
    (hgr : s.graceful = true) (hns : s.stopped = false)
    (hsum : sumOver s.prios s.strategic = H) (hfill : ∀ p ∈ s.prios, 1 ≤ s.strategic.get p)
    (hclosed : ∀ p inp, alGet s.inputs p = some inp →
      ∃ ch, alGet s.chans inp.chan = some ch ∧ ch.closed = true ∧ ch.queue = [])
    (hfl : s.inflight.total = 0) (hpend : s.pending = []) :
    QuietG s ∧ ∃ e, (gracefulRun div (5 * s.prios.length + 13) s).pc = .done e := by
  obtain ⟨hf, hH0⟩ := C01.initV1_fresh div keys H
  obtain ⟨hwf, hinv, hcfg⟩ := C15.wf_run div acts _ s (C01.fresh_inv hf) (C15.wf_initV1 div keys H hnd) hr
  have hw0 : WG (initV1 div keys H) := fun hp => by simp [initV1] at hp
  have hwg := wg_run div acts _ s (C01.fresh_inv hf) (C15.wf_initV1 div keys H hnd) hw0 hr
  have hHs : s.cfg.H = H := by rw [hcfg]; exact hH0
  have hv1 : s.cfg.v1 = true := by rw [hcfg]; rfl
  have hidle : s.actual.total = 0 := by
    have := hinv.core.tot
    rw [hfl, hpend] at this
    simpa using this
  have hq : QuietG s := by
    refine ⟨hv1, hgr, hns, hclosed, hpend, hidle, ?_, by rw [hHs]; exact hsum, by rw [hHs]; exact hH, hfill, ?_,
      hwf.inputsNd, hinv.nofault, ?_⟩
    · exact List.Pairwise.imp (fun h => Nat.ne_of_gt h) hwf.sorted
    · intro p inp hp
      exact (hwf.regs p).2 (by rw [hp]; rfl)
    · intro hw
      have := hwg hw (by rw [hHs]; exact hsum) (by rw [hHs]; exact hH)
      omega
  refine ⟨hq, c07_graceful_prompt div _ s hq ?_⟩
  have := pmuG_le s
  have hrest : (match s.pc with | .prio _ rest => rest.length | _ => 0) ≤ s.prios.length := by
    cases hpc : s.pc with
    | prio ph rest => exact (hwf.restSub ph rest hpc).length_le
    | _ => simp
  omega

/-! ### the hypothesis "every registered priority has a share" is needed: finding F1 again -/

def atTop (s : St) : Bool := match s.pc with | .top => true | _ => false
/-- control point at the loop top?, undrained registered priorities, in flight as accounted,
    feedbacks outstanding, graceful?, stopped? -/
def gview (s : St) : List Nat :=
  [if atTop s then 1 else 0] ++ (s.inputs.filter (fun kv => !kv.2.drained)).map (·.1) ++
  [s.actual.total, s.pending.length, if s.graceful then 1 else 0, if s.stopped then 1 else 0]

/-- F1 seen from C07, on the model (and on the code: `GracefulStop()` does not return).  v1,
    priorities 3, 2, 1, one handler, Fair: the shares are 1, 0, 0.  All three inputs are closed
    and empty, nothing was ever delivered, `GracefulStop()` is called.  The first round marks
    the inputs of 3 and — through the second-phase redistribution — of 2 as drained; from then
    on every round gives the handler to 3 and then to 2 again, never to 1, whose closed input
    is therefore never looked at: the round ends where it began, for ever. -/
def f1div : DivFn := fun _ => fair
def f1first : List Act := [.close 3, .close 2, .close 1, .graceful, .top .none, .calc, .pollClosed, .skip, .skip, .recalc,
  .skip, .pollClosed, .skip, .endRound, .limitedStop]
def f1round : List Act := [.top .none, .calc, .skip, .skip, .skip, .recalc, .skip, .skip, .skip, .endRound, .limitedStop]

theorem c07_v1_zero_share_graceful_hangs :
    (run f1div (initV1 f1div [(3, true), (2, true), (1, true)] 1) f1first).map gview =
      some [1, 1, 0, 0, 1, 0] ∧
    (run f1div (initV1 f1div [(3, true), (2, true), (1, true)] 1) (f1first ++ f1round)).map gview =
      some [1, 1, 0, 0, 1, 0] := by decide

/-- the hypotheses of `c07_graceful_prompt_reachable` are satisfiable, and the bound is met:
    priorities 2 and 1, two handlers, Fair (shares 1 and 1); both inputs closed, GracefulStop
    called — the discipline is `done` after at most 5·2 + 13 of its own steps -/
def isDone (s : St) : Bool := match s.pc with | .done _ => true | _ => false
example :
    (run f1div (initV1 f1div [(2, true), (1, true)] 2) [.close 2, .close 1, .graceful]).map
      (fun s => [if sumOver s.prios s.strategic = 2 then 1 else 0, if s.prios.all (fun p => 1 ≤ s.strategic.get p) then 1 else 0,
                 if s.graceful then 1 else 0, if s.stopped then 1 else 0, s.inflight.total, s.pending.length,
                 if isDone (gracefulRun f1div 23 s) then 1 else 0]) = some [1, 1, 1, 0, 0, 0, 1] := by decide

end Cqos.C07
