import Cqos.Props.C06i
import Cqos.Props.C14
/-
  Property C06, first clause: "If handlers eventually release every item they receive, every item
  written to any input is eventually delivered, for every pattern of arrivals and every order
  of releases."

  What a theorem about the machine can say of an eventuality is that no reachable state is
  doomed: from EVERY state a v2 discipline can reach — whatever the arrivals, the order of
  releases, the choices of the selects so far — an item waiting at the head of a registered,
  undrained input gets delivered by a continuation that consists of handlers releasing what
  they hold and of the discipline's own steps, nothing else (`c06_deliverable`).  With fair
  scheduling (every enabled step of the discipline is eventually taken, every held item is
  eventually released) this is the eventuality itself; fairness of the Go scheduler is not
  modelled.

  The divider is any function obeying the sum rule on the zeroed maps it is given
  (`SumRule`: it adds the dividend, or nothing).

  Proof: a scheduler for the angelic continuation (release whatever is in flight; otherwise
  the discipline's enabled action, preferring to deliver) and a lexicographic measure
  (queued items, occupied handlers in the books + in flight, position in the round) that every
  scheduled step decreases, until either the item is delivered or the discipline sits in
  `getLimitedFeedback` with nothing in flight — from where `c06_idle_delivers` finishes.
-/
namespace Cqos.C06

/-- the divider's contract as far as `safeDivide` checks it on zeroed maps -/
def SumRule (div : DivFn) : Prop :=
  ∀ i ps d (m : Dist), m.total = 0 → (div i ps d m).total = d ∨ (div i ps d m).total = 0

theorem safeDivide_sum (f : List Nat → Nat → Dist → Dist)
    (hf : ∀ ps d (m : Dist), m.total = 0 → (f ps d m).total = d ∨ (f ps d m).total = 0)
    (ps : List Nat) (d : Nat) (m : Dist) (hm : m.total = 0) : (safeDivide f ps d m).2 = none := by
  unfold safeDivide
  simp only
  rcases hf ps d m hm with h | h
  · rw [h, hm]
    split
    · rfl
    · split
      · omega
      · split
        · rename_i h3; exact absurd (by omega) h3
        · rfl
  · rw [h]; simp

theorem calc_no_error (div : DivFn) (hg : SumRule div) (s : St) (e : Err) :
    (calcTacticWith (div s.calls) s.prios s.actual s.strategic s.tactic (s.cfg.H - s.actual.total)).verdict ≠ .error e := by
  unfold calcTacticWith
  split
  · simp
  · split
    · simp
    · simp only [calcBase]
      rw [show safeDivide (div s.calls) _ _ _ = ((safeDivide (div s.calls) _ _ _).1, (safeDivide (div s.calls) _ _ _).2) from rfl,
        safeDivide_sum _ (hg s.calls) _ _ _ (Dist.total_zeroAll _)]
      simp

theorem recalc_no_error (div : DivFn) (hg : SumRule div) (s : St) (e : Err) :
    (recalcTacticWith div s.calls s.cfg.H s.prios s.actual s.tactic).verdict ≠ .error e := by
  unfold recalcTacticWith
  simp only
  rw [show safeDivide (div s.calls) _ _ _ = ((safeDivide (div s.calls) _ _ _).1, (safeDivide (div s.calls) _ _ _).2) from rfl,
    safeDivide_sum _ (hg s.calls) _ _ _ (Dist.total_zeroAll _)]
  simp only
  rw [show safeDivide (div (s.calls + 1)) _ _ _ = ((safeDivide (div (s.calls + 1)) _ _ _).1, (safeDivide (div (s.calls + 1)) _ _ _).2) from rfl,
    safeDivide_sum _ (hg (s.calls + 1)) _ _ _ (Dist.total_zeroAll _)]
  simp

/-- with a divider obeying the sum rule `calcTactic` either lets the round proceed or waits -/
theorem stepCalc_pc (div : DivFn) (hg : SumRule div) (s : St) (hle : s.actual.total ≤ s.cfg.H) :
    (stepCalc div s).pc = .prio 1 s.prios ∨ (stepCalc div s).pc = .waitFb := by
  have hn : ¬ s.cfg.H < s.actual.total := by omega
  simp only [stepCalc, hn, if_false]
  cases hv : (calcTacticWith (div s.calls) s.prios s.actual s.strategic s.tactic (s.cfg.H - s.actual.total)).verdict with
  | error e => exact absurd hv (calc_no_error div hg s e)
  | ok b => cases b <;> simp

theorem stepRecalc_pc (div : DivFn) (hg : SumRule div) (s : St) :
    (stepRecalc div s).pc = .prio 2 s.prios ∨ (stepRecalc div s).pc = .prio 2 [] := by
  simp only [stepRecalc]
  cases hv : (recalcTacticWith div s.calls s.cfg.H s.prios s.actual s.tactic).verdict with
  | error e => exact absurd hv (recalc_no_error div hg s e)
  | ok b => cases b <;> simp

theorem stepCalc_more (div : DivFn) (s : St) :
    (stepCalc div s).delivered = s.delivered ∧ (stepCalc div s).inflight = s.inflight := by
  simp only [stepCalc]
  split
  · split <;> exact ⟨rfl, rfl⟩
  · split <;> exact ⟨rfl, rfl⟩

theorem stepRecalc_more (div : DivFn) (s : St) :
    (stepRecalc div s).delivered = s.delivered ∧ (stepRecalc div s).inflight = s.inflight := by
  simp only [stepRecalc]
  split <;> exact ⟨rfl, rfl⟩

/-! ### the discipline never fails, and never leaves its loop while an input is undrained -/

def NoErr (s : St) : Prop := ∀ e, s.pc ≠ .drain (some e) ∧ s.pc ≠ .done (some e)

theorem noerr_step (div : DivFn) (hg : SumRule div) (s s' : St) (a : Act) (hv : s.cfg.v1 = false) (hinv : Inv s)
    (h : NoErr s) (hs : step div s a = some s') : NoErr s' := by
  have same : ∀ u : St, u.pc = s.pc → NoErr u := fun u hu e => by rw [hu]; exact h e
  have other : ∀ u : St, (∀ e, u.pc ≠ .drain e) → (∀ e, u.pc ≠ .done e) → NoErr u :=
    fun u h1 h2 e => ⟨h1 _, h2 _⟩
  have hdec : ∀ (t : St) (p : Nat), (decActual t p).pc = t.pc ∨ (decActual t p).pc = .fault := by
    intro t p; unfold decActual; split
    · exact Or.inr rfl
    · exact Or.inl rfl
  cases a with
  | top c => obtain ⟨_, _, hv'⟩ := step_top hs; rw [hv] at hv'; cases hv'
  | arrive c x => obtain ⟨_, _, _, rfl⟩ := step_arrive hs; exact same _ rfl
  | close c => obtain ⟨_, _, rfl⟩ := step_close hs; exact same _ rfl
  | release p => obtain ⟨_, rfl⟩ := step_release hs; exact same _ rfl
  | stop => obtain ⟨hv', _⟩ := step_stop hs; rw [hv] at hv'; cases hv'
  | graceful => obtain ⟨hv', _⟩ := step_graceful hs; rw [hv] at hv'; cases hv'
  | stopSeen => obtain ⟨hv', _⟩ := step_stopSeen hs; rw [hv] at hv'; cases hv'
  | «calc» =>
    obtain ⟨hpc, rfl⟩ := step_calc hs
    have hle : s.actual.total ≤ s.cfg.H := capOk_weaken hinv.cap
    rcases stepCalc_pc div hg s hle with e | e <;> exact other _ (by rw [e]; simp) (by rw [e]; simp)
  | recalc =>
    obtain ⟨_, rfl⟩ := step_recalc hs
    rcases stepRecalc_pc div hg s with e | e <;> exact other _ (by rw [e]; simp) (by rw [e]; simp)
  | endRound =>
    obtain ⟨ph, _, _, hc⟩ := step_endRound hs
    rcases hc with ⟨_, _, _, rfl⟩ | ⟨_, rfl⟩
    · intro e; exact ⟨by simp, by simp⟩
    · exact other _ (by simp) (by simp)
  | limitedStop =>
    obtain ⟨k, _, rfl⟩ := step_limitedStop hs
    exact other _ (by simp [nextRound, hv]) (by simp [nextRound, hv])
  | exit =>
    obtain ⟨e, hpc, _, rfl⟩ := step_exit hs
    intro e'
    refine ⟨by simp, ?_⟩
    intro heq
    simp only [Pc.done.injEq] at heq
    subst heq
    exact (h e').1 hpc
  | consume p =>
    obtain ⟨_, hc⟩ := step_consume hs
    have hd := hdec { s with pending := s.pending.erase p } p
    rcases hc with ⟨hpc, rfl⟩ | ⟨k, hpc, _, rfl⟩ | ⟨e, hpc, _, rfl⟩
    · split
      · rename_i hf; exact other _ (by rw [hf]; simp) (by rw [hf]; simp)
      · unfold afterWaitFb; split
        · exact other _ (by simp) (by simp)
        · exact other _ (by simp) (by simp)
    · split
      · rename_i hf; exact other _ (by rw [hf]; simp) (by rw [hf]; simp)
      · exact other _ (by simp) (by simp)
    · rcases hd with e1 | e1
      · exact same _ (by rw [e1])
      · exact other _ (by rw [e1]; simp) (by rw [e1]; simp)
  | skip =>
    obtain ⟨ph, p, rest, _, hp⟩ := step_poll_pc (Or.inr (Or.inr (Or.inr (Or.inr rfl)))) hs
    obtain ⟨rfl, _⟩ := stepPoll_skip hp; exact other _ (by simp) (by simp)
  | pollEmpty =>
    obtain ⟨ph, p, rest, _, hp⟩ := step_poll_pc (Or.inr (Or.inr (Or.inr (Or.inl rfl)))) hs
    have := stepPoll_empty hp; subst this; exact other _ (by simp) (by simp)
  | pollClosed =>
    obtain ⟨ph, p, rest, _, hp⟩ := step_poll_pc (Or.inr (Or.inr (Or.inl rfl))) hs
    obtain ⟨inp, ch, _, _, _, _, rfl⟩ := stepPoll_closed hp; exact other _ (by simp) (by simp)
  | pollItem =>
    obtain ⟨ph, p, rest, hpc, hp⟩ := step_poll_pc (Or.inl rfl) hs
    obtain ⟨_, _, _, _, _, _, _, _, _, rfl⟩ := stepPoll_item hp; exact same _ rfl
  | pollDrop =>
    obtain ⟨ph, p, rest, _, hp⟩ := step_poll_pc (Or.inr (Or.inl rfl)) hs
    obtain ⟨_, _, _, _, hv', _⟩ := stepPoll_drop hp; rw [hv] at hv'; cases hv'

/-- the in-flight table never holds two entries for one priority -/
theorem inflight_nd_step (div : DivFn) (s s' : St) (a : Act) (hv : s.cfg.v1 = false)
    (h : s.inflight.NodupKeys) (hs : step div s a = some s') : s'.inflight.NodupKeys := by
  have hdec : ∀ (t : St) (p : Nat), (decActual t p).inflight = t.inflight := by
    intro t p; unfold decActual; split <;> rfl
  cases a with
  | top c => obtain ⟨_, _, hv'⟩ := step_top hs; rw [hv] at hv'; cases hv'
  | arrive c x => obtain ⟨_, _, _, rfl⟩ := step_arrive hs; exact h
  | close c => obtain ⟨_, _, rfl⟩ := step_close hs; exact h
  | release p => obtain ⟨_, rfl⟩ := step_release hs; exact Dist.nodupKeys_set _ _ _ h
  | stop => obtain ⟨hv', _⟩ := step_stop hs; rw [hv] at hv'; cases hv'
  | graceful => obtain ⟨hv', _⟩ := step_graceful hs; rw [hv] at hv'; cases hv'
  | stopSeen => obtain ⟨hv', _⟩ := step_stopSeen hs; rw [hv] at hv'; cases hv'
  | «calc» => obtain ⟨_, rfl⟩ := step_calc hs; rw [(stepCalc_more div s).2]; exact h
  | recalc => obtain ⟨_, rfl⟩ := step_recalc hs; rw [(stepRecalc_more div s).2]; exact h
  | endRound =>
    obtain ⟨ph, _, _, hc⟩ := step_endRound hs
    rcases hc with ⟨_, _, _, rfl⟩ | ⟨_, rfl⟩ <;> exact h
  | limitedStop => obtain ⟨k, _, rfl⟩ := step_limitedStop hs; exact h
  | exit => obtain ⟨e, _, _, rfl⟩ := step_exit hs; exact h
  | consume p =>
    obtain ⟨_, hc⟩ := step_consume hs
    have b := hdec { s with pending := s.pending.erase p } p
    rcases hc with ⟨_, rfl⟩ | ⟨k, _, _, rfl⟩ | ⟨e, _, _, rfl⟩
    · split
      · rw [b]; exact h
      · unfold afterWaitFb; split <;> (show (decActual _ p).inflight.NodupKeys; rw [b]; exact h)
    · split
      · rw [b]; exact h
      · show (decActual _ p).inflight.NodupKeys; rw [b]; exact h
    · rw [b]; exact h
  | skip =>
    obtain ⟨ph, p, rest, _, hp⟩ := step_poll_pc (Or.inr (Or.inr (Or.inr (Or.inr rfl)))) hs
    obtain ⟨rfl, _⟩ := stepPoll_skip hp; exact h
  | pollEmpty =>
    obtain ⟨ph, p, rest, _, hp⟩ := step_poll_pc (Or.inr (Or.inr (Or.inr (Or.inl rfl)))) hs
    have := stepPoll_empty hp; subst this; exact h
  | pollClosed =>
    obtain ⟨ph, p, rest, _, hp⟩ := step_poll_pc (Or.inr (Or.inr (Or.inl rfl))) hs
    obtain ⟨inp, ch, _, _, _, _, rfl⟩ := stepPoll_closed hp; exact h
  | pollItem =>
    obtain ⟨ph, p, rest, _, hp⟩ := step_poll_pc (Or.inl rfl) hs
    obtain ⟨_, _, _, _, _, _, _, _, _, rfl⟩ := stepPoll_item hp
    exact Dist.nodupKeys_add _ _ _ h
  | pollDrop =>
    obtain ⟨ph, p, rest, _, hp⟩ := step_poll_pc (Or.inr (Or.inl rfl)) hs
    obtain ⟨_, _, _, _, hv', _⟩ := stepPoll_drop hp; rw [hv] at hv'; cases hv'

theorem exists_get_ne_zero (m : Dist) (hnd : m.NodupKeys) (h : 0 < m.total) : ∃ k, m.get k ≠ 0 := by
  induction m with
  | nil => simp at h
  | cons e r ih =>
    obtain ⟨k, v⟩ := e
    by_cases hv : v = 0
    · subst hv
      have hnd' : Dist.NodupKeys r := by
        unfold Dist.NodupKeys at hnd ⊢
        simp only [List.map_cons, List.nodup_cons] at hnd
        exact hnd.2
      have hk : k ∉ r.map (·.1) := by
        unfold Dist.NodupKeys at hnd
        simp only [List.map_cons, List.nodup_cons] at hnd
        exact hnd.1
      have ht : 0 < Dist.total r := by simpa [Dist.total] using h
      obtain ⟨k', hk'⟩ := ih hnd' ht
      have hne : k ≠ k' := by
        intro e; subst e
        exact hk' (Dist.get_eq_zero_of_not_mem r k hk)
      exact ⟨k', by simpa [Dist.get, hne] using hk'⟩
    · exact ⟨k, by simpa [Dist.get] using hv⟩

/-! ### the measure -/

def qs (l : List (Nat × Chan)) : Nat := (l.map (fun kv => kv.2.queue.length)).sum
/-- items waiting in all channels -/
def qsum (s : St) : Nat := qs s.chans
/-- handlers occupied in the discipline's books, plus items still held by handlers -/
def bsum (s : St) : Nat := s.actual.total + s.inflight.total
/-- position inside the round -/
def pos (s : St) : Nat :=
  match s.pc with
  | .calc => 2 * s.prios.length + 10
  | .prio ph rest => if ph = 1 then s.prios.length + 5 + rest.length else 3 + rest.length
  | .limited k => if k = s.cfg.fbLimit then 1 else 2 * s.prios.length + 11
  | _ => 0

def Less (s1 s : St) : Prop :=
  qsum s1 < qsum s ∨ (qsum s1 = qsum s ∧ (bsum s1 < bsum s ∨ (bsum s1 = bsum s ∧ pos s1 < pos s)))

theorem qs_alSet (l : List (Nat × Chan)) (k : Nat) (ch ch' : Chan) (h : alGet l k = some ch) :
    qs (alSet l k ch') + ch.queue.length = qs l + ch'.queue.length := by
  induction l with
  | nil => simp [alGet] at h
  | cons e r ih =>
    obtain ⟨k0, v0⟩ := e
    simp only [alGet] at h
    simp only [alSet]
    split at h
    · rename_i he
      cases h
      simp only [he, if_true, qs, List.map_cons, List.sum_cons]
      omega
    · rename_i he
      simp only [he, if_false, qs, List.map_cons, List.sum_cons]
      have := ih h
      simp only [qs] at this
      omega

/-- the item `x` waits at the head of the channel of the registered, undrained priority `p` -/
def Waits (s : St) (p x : Nat) : Prop :=
  ∃ inp ch q, alGet s.inputs p = some inp ∧ inp.chan = p ∧ inp.drained = false ∧
    alGet s.chans p = some ch ∧ ch.queue = x :: q

def Pre (D : List (Nat × Nat × Nat)) (s : St) : Prop := ∃ dl, s.delivered = D ++ dl
/-- `x` has been delivered under priority `p` after the moment at which `D` had been delivered -/
def Got (D : List (Nat × Nat × Nat)) (p x : Nat) (s : St) : Prop := ∃ dl, s.delivered = D ++ dl ∧ (p, p, x) ∈ dl

/-- a step of the angelic continuation: the discipline's own, or a handler releasing an item -/
def okAct (a : Act) : Prop := isOwn a = true ∨ ∃ r, a = .release r

theorem waits_same {s s1 : St} {p x : Nat} (h : Waits s p x) (hi : s1.inputs = s.inputs) (hc : s1.chans = s.chans) :
    Waits s1 p x := by
  obtain ⟨inp, ch, q, a, b, c, d, e⟩ := h
  exact ⟨inp, ch, q, by rw [hi]; exact a, b, c, by rw [hc]; exact d, e⟩

theorem pre_same {D : List (Nat × Nat × Nat)} {s s1 : St} (h : Pre D s) (hd : s1.delivered = s.delivered) : Pre D s1 := by
  obtain ⟨dl, e⟩ := h; exact ⟨dl, by rw [hd]; exact e⟩

theorem less_pos {s s1 : St} (hq : s1.chans = s.chans) (ha : s1.actual = s.actual) (hi : s1.inflight = s.inflight)
    (hp : pos s1 < pos s) : Less s1 s :=
  Or.inr ⟨by simp [qsum, hq], Or.inr ⟨by simp [bsum, ha, hi], hp⟩⟩

theorem less_b {s s1 : St} (hq : s1.chans = s.chans) (hb : bsum s1 < bsum s) : Less s1 s :=
  Or.inr ⟨by simp [qsum, hq], Or.inl hb⟩

theorem not_allDrained {s : St} {p x : Nat} (h : Waits s p x) : allDrained s.inputs = false := by
  obtain ⟨inp, _, _, a, _, c, _, _⟩ := h
  cases hall : allDrained s.inputs with
  | false => rfl
  | true =>
    have := C07.alGet_mem_all s.inputs (fun kv => kv.2.drained) hall p inp a
    simp only at this
    rw [c] at this; cases this

/-! ### what is known of every reachable state -/

structure Facts (s0 s : St) : Prop where
  ht : C07.TInv s
  hinv : Inv s
  hwf : C15.WF s
  v2 : s.cfg.v1 = false
  prios : s.prios = s0.prios
  cfg : s.cfg = s0.cfg
  own : ∀ p inp, alGet s.inputs p = some inp → inp.chan = p
  noerr : NoErr s
  notop : s.pc ≠ .top
  ind : s.inflight.NodupKeys
  wait : s.pc = .waitFb → 0 < s.inflight.total + s.pending.length

theorem aux_run (div : DivFn) (hg : SumRule div) : ∀ (acts : List Act) (u u' : St), Inv u → u.cfg.v1 = false → NoErr u →
    u.inflight.NodupKeys → run div u acts = some u' → NoErr u' ∧ u'.inflight.NodupKeys := by
  intro acts
  induction acts with
  | nil => intro u u' _ _ h1 h2 hr; simp [run] at hr; subst hr; exact ⟨h1, h2⟩
  | cons a as ih =>
    intro u u' hinv hv h1 h2 hr
    simp only [run] at hr
    split at hr
    · rename_i u1 hu1
      obtain ⟨hi1, hc1⟩ := C01.step_inv div u u1 a hinv hu1
      exact ih u1 u' hi1 (by rw [hc1]; exact hv) (noerr_step div hg u u1 a hv hinv h1 hu1)
        (inflight_nd_step div u u1 a hv h2 hu1) hr
    · cases hr

theorem facts (div : DivFn) (hg : SumRule div) (keys : List (Nat × Bool)) (H : Nat) (hH : 0 < H)
    (hnd : (keys.map (·.1)).Nodup) (s0 s : St) (acts : List Act) (h0 : initV2 div keys H = .ok s0)
    (hsum : sumOver s0.prios s0.strategic = H) (hr : run div s0 acts = some s) : Facts s0 s := by
  obtain ⟨_, hv2, hpc0, _⟩ := C07.initV2_fill div keys H s0 h0
  obtain ⟨hf, _⟩ := C01.initV2_fresh div keys H s0 h0
  obtain ⟨ht, hinv, hwf, hcfg⟩ := C07.tinv_run div acts s0 s (C01.fresh_inv hf) (C15.wf_initV2 div keys H s0 hnd h0)
    (C07.tinv_initV2 div keys H s0 h0) hr
  obtain ⟨c1, _, c3, c4⟩ := C07.v2_static_run div acts s0 s hv2 hr
  have hne0 : NoErr s0 := fun e => by rw [hpc0]; exact ⟨by simp, by simp⟩
  have hi0 : s0.inflight.NodupKeys := by rw [hf.2.1]; exact Dist.nodupKeys_nil
  obtain ⟨hne, hind⟩ := aux_run div hg acts s0 s (C01.fresh_inv hf) hv2 hne0 hi0 hr
  refine ⟨ht, hinv, hwf, by rw [c3]; exact hv2, c1, c3, v2_inputs_own_chan div keys H s0 s acts h0 hr, hne,
    c4 (by rw [hpc0]; simp), hind, ?_⟩
  intro hw
  have := c06_never_waits_idle div keys H hH hnd s0 s acts h0 hsum hr hw
  exact this

/-! ### one step of the angelic continuation -/

theorem sched_step (div : DivFn) (hg : SumRule div) (s0 s : St) (F : Facts s0 s) (hfb : s.cfg.fbLimit ≠ 0)
    (D : List (Nat × Nat × Nat)) (p x : Nat) (hpre : Pre D s) (hw : Waits s p x)
    (hnt : ¬ (s.inflight.total = 0 ∧ s.pending = [] ∧ ∃ k, s.pc = .limited k)) :
    ∃ a s1, step div s a = some s1 ∧ okAct a ∧ Pre D s1 ∧ (Got D p x s1 ∨ (Waits s1 p x ∧ Less s1 s)) := by
  by_cases hfl : 0 < s.inflight.total
  · -- a handler releases an item
    obtain ⟨r, hr⟩ := exists_get_ne_zero s.inflight F.ind hfl
    let s1 : St := { s with inflight := s.inflight.set r (s.inflight.get r - 1), pending := s.pending ++ [r] }
    have hstep : step div s (.release r) = some s1 := by simp [step, hr, s1]
    have hts := Dist.total_set s.inflight r (s.inflight.get r - 1)
    refine ⟨.release r, s1, hstep, Or.inr ⟨r, rfl⟩, pre_same hpre rfl, Or.inr ⟨waits_same hw rfl rfl, less_b rfl ?_⟩⟩
    show s.actual.total + (s.inflight.set r (s.inflight.get r - 1)).total < s.actual.total + s.inflight.total
    omega
  · have hfl0 : s.inflight.total = 0 := by omega
    have htot := F.hinv.core.tot
    -- consuming a pending release `r`
    have consume_facts : ∀ r, r ∈ s.pending → s.actual.get r ≠ 0 ∧
        (s.actual.set r (s.actual.get r - 1)).total + 1 = s.actual.total := by
      intro r hr
      obtain ⟨h1, _, h3⟩ := core_consume F.hinv.core r hr
      exact ⟨h1, h3⟩
    cases hpc : s.pc with
    | top => exact absurd hpc F.notop
    | fault => exact absurd hpc F.hinv.nofault
    | done e =>
      cases e with
      | some e => exact absurd hpc (F.noerr e).2
      | none =>
        rcases F.ht.exit (Or.inr hpc) with h | ⟨h, _⟩
        · rw [not_allDrained hw] at h; cases h
        · rw [F.v2] at h; cases h
    | drain e =>
      cases e with
      | some e => exact absurd hpc (F.noerr e).1
      | none =>
        rcases F.ht.exit (Or.inl hpc) with h | ⟨h, _⟩
        · rw [not_allDrained hw] at h; cases h
        · rw [F.v2] at h; cases h
    | «calc» =>
      have hstep : step div s .calc = some (stepCalc div s) := by simp [step, hpc]
      obtain ⟨f1, f2, _, f4, f5, _, _, _⟩ := C07.stepCalc_frame div s
      obtain ⟨g1, g2⟩ := stepCalc_more div s
      have hle : s.actual.total ≤ s.cfg.H := capOk_weaken F.hinv.cap
      refine ⟨.calc, stepCalc div s, hstep, Or.inl rfl, pre_same hpre g1,
        Or.inr ⟨waits_same hw f1 f2, less_pos f2 f4 g2 ?_⟩⟩
      rcases stepCalc_pc div hg s hle with e | e
      · simp only [pos, e, hpc, f5, if_true]; omega
      · simp only [pos, e, hpc]; omega
    | waitFb =>
      have hpos := F.wait hpc
      have hpl : 0 < s.pending.length := by omega
      obtain ⟨r, hr⟩ := List.exists_mem_of_length_pos hpl
      obtain ⟨hne, hdec⟩ := consume_facts r hr
      let s1 : St := { s with pending := s.pending.erase r, actual := s.actual.set r (s.actual.get r - 1), pc := .calc }
      have hstep : step div s (.consume r) = some s1 := by
        simp [step, hpc, hr, decActual, hne, afterWaitFb, F.v2, s1]
      refine ⟨.consume r, s1, hstep, Or.inl rfl, pre_same hpre rfl, Or.inr ⟨waits_same hw rfl rfl, less_b rfl ?_⟩⟩
      show (s.actual.set r (s.actual.get r - 1)).total + s.inflight.total < s.actual.total + s.inflight.total
      omega
    | limited k =>
      by_cases hpe : s.pending = []
      · exact absurd ⟨hfl0, hpe, k, hpc⟩ hnt
      · obtain ⟨r, hr⟩ := List.exists_mem_of_ne_nil _ hpe
        obtain ⟨hne, hdec⟩ := consume_facts r hr
        by_cases hk : k = 0
        · subst hk
          have hstep : step div s .limitedStop = some (nextRound s) := by simp [step, hpc]
          refine ⟨.limitedStop, nextRound s, hstep, Or.inl rfl, pre_same hpre rfl,
            Or.inr ⟨waits_same hw rfl rfl, less_pos rfl rfl rfl ?_⟩⟩
          have hfb' : ¬ (0 = s.cfg.fbLimit) := fun e => hfb e.symm
          simp only [pos, nextRound, F.v2, hpc, hfb', if_false, Bool.false_eq_true]
          omega
        · let s1 : St := { s with pending := s.pending.erase r, actual := s.actual.set r (s.actual.get r - 1), pc := .limited (k - 1) }
          have hstep : step div s (.consume r) = some s1 := by
            simp [step, hpc, hr, hk, decActual, hne, s1]
          refine ⟨.consume r, s1, hstep, Or.inl rfl, pre_same hpre rfl, Or.inr ⟨waits_same hw rfl rfl, less_b rfl ?_⟩⟩
          show (s.actual.set r (s.actual.get r - 1)).total + s.inflight.total < s.actual.total + s.inflight.total
          omega
    | prio ph rest =>
      cases rest with
      | nil =>
        by_cases hph : ph = 1
        · subst hph
          have hstep : step div s .recalc = some (stepRecalc div s) := by simp [step, hpc]
          obtain ⟨f1, f2, _, f4, f5, _, _, _, _⟩ := C07.stepRecalc_frame div s
          obtain ⟨g1, g2⟩ := stepRecalc_more div s
          refine ⟨.recalc, stepRecalc div s, hstep, Or.inl rfl, pre_same hpre g1,
            Or.inr ⟨waits_same hw f1 f2, less_pos f2 f4 g2 ?_⟩⟩
          rcases stepRecalc_pc div hg s with e | e
          · simp [pos, e, hpc]; omega
          · simp [pos, e, hpc]
        · have hna := not_allDrained hw
          let s1 : St := { s with pc := .limited s.cfg.fbLimit }
          have hstep : step div s .endRound = some s1 := by simp [step, hpc, hph, hna, s1]
          refine ⟨.endRound, s1, hstep, Or.inl rfl, pre_same hpre rfl,
            Or.inr ⟨waits_same hw rfl rfl, less_pos rfl rfl rfl ?_⟩⟩
          simp [pos, hpc, hph, s1]
      | cons q rest =>
        obtain ⟨inp, ch, qq, hin, hchan, hud, hch, hqx⟩ := hw
        have hw' : Waits s p x := ⟨inp, ch, qq, hin, hchan, hud, hch, hqx⟩
        -- every action that only moves on to the next priority
        have moveOn : ∀ (a : Act) (s1 : St), step div s a = some s1 → isOwn a = true → s1.inputs = s.inputs →
            s1.chans = s.chans → s1.delivered = s.delivered → s1.actual = s.actual → s1.inflight = s.inflight →
            s1.prios = s.prios → s1.pc = .prio ph rest →
            ∃ a s1, step div s a = some s1 ∧ okAct a ∧ Pre D s1 ∧ (Got D p x s1 ∨ (Waits s1 p x ∧ Less s1 s)) := by
          intro a s1 hs ho e1 e2 e3 e4 e5 e6 e7
          refine ⟨a, s1, hs, Or.inl ho, pre_same hpre e3, Or.inr ⟨waits_same hw' e1 e2, less_pos e2 e4 e5 ?_⟩⟩
          simp only [pos, e7, hpc, e6, List.length_cons]
          split <;> omega
        cases hiq : alGet s.inputs q with
        | none =>
          exact moveOn .skip { s with pc := .prio ph rest } (by simp [step, hpc, stepPoll, hiq]) rfl rfl rfl rfl rfl rfl rfl rfl
        | some iq =>
          by_cases hsk : iq.drained ∨ s.tactic.get q = 0
          · exact moveOn .skip { s with pc := .prio ph rest } (by simp [step, hpc, stepPoll, hiq, hsk]) rfl rfl rfl rfl rfl rfl rfl rfl
          · have hsome := F.ht.chansOK q iq hiq
            have hiqc : iq.chan = q := F.own q iq hiq
            cases hcq : alGet s.chans iq.chan with
            | none => rw [hcq] at hsome; cases hsome
            | some cq =>
              cases hqq : cq.queue with
              | nil =>
                by_cases hcl : cq.closed = true
                · -- pollClosed: `q` cannot be `p`, whose channel is not empty
                  have hqp : q ≠ p := by
                    intro e; subst e
                    rw [hiqc, hch] at hcq; cases hcq
                    rw [hqx] at hqq; cases hqq
                  let s1 : St := { s with inputs := alSet s.inputs q { iq with drained := true }, pc := .prio ph rest }
                  have hstep : step div s .pollClosed = some s1 := by
                    simp [step, hpc, stepPoll, hiq, hsk, hcq, hqq, hcl, s1]
                  refine ⟨.pollClosed, s1, hstep, Or.inl rfl, pre_same hpre rfl, Or.inr ⟨?_, less_pos rfl rfl rfl ?_⟩⟩
                  · refine ⟨inp, ch, qq, ?_, hchan, hud, hch, hqx⟩
                    show alGet (alSet s.inputs q _) p = some inp
                    rw [C02.alGet_alSet]; simp [hqp, hin]
                  · simp only [pos, hpc, s1, List.length_cons]
                    split <;> omega
                · exact moveOn .pollEmpty { s with pc := .prio ph rest }
                    (by simp [step, hpc, stepPoll, hiq, hsk, hcq, hqq, hcl]) rfl rfl rfl rfl rfl rfl rfl rfl
              | cons y ys =>
                let s1 : St := { s with
                  chans := alSet s.chans iq.chan { cq with queue := ys },
                  taken := s.taken ++ [(iq.chan, y)],
                  delivered := s.delivered ++ [(q, iq.chan, y)],
                  tactic := s.tactic.set q (s.tactic.get q - 1),
                  actual := s.actual.add q 1,
                  inflight := s.inflight.add q 1,
                  processed := s.processed + 1 }
                have hstep : step div s .pollItem = some s1 := by
                  simp [step, hpc, stepPoll, hiq, hsk, hcq, hqq, s1]
                obtain ⟨dl, hdl⟩ := hpre
                have hpre1 : Pre D s1 := ⟨dl ++ [(q, iq.chan, y)], by
                  show s.delivered ++ [(q, iq.chan, y)] = D ++ (dl ++ [(q, iq.chan, y)])
                  rw [hdl, List.append_assoc]⟩
                by_cases hqp : q = p
                · -- the waiting item itself
                  subst hqp
                  rw [hiqc, hch] at hcq; cases hcq
                  rw [hqx] at hqq; cases hqq
                  refine ⟨.pollItem, s1, hstep, Or.inl rfl, hpre1, Or.inl ⟨dl ++ [(q, iq.chan, x)], ?_, ?_⟩⟩
                  · show s.delivered ++ [(q, iq.chan, x)] = D ++ (dl ++ [(q, iq.chan, x)])
                    rw [hdl, List.append_assoc]
                  · rw [hiqc]; simp
                · refine ⟨.pollItem, s1, hstep, Or.inl rfl, hpre1, Or.inr ⟨?_, Or.inl ?_⟩⟩
                  · refine ⟨inp, ch, qq, hin, hchan, hud, ?_, hqx⟩
                    show alGet (alSet s.chans iq.chan _) p = some ch
                    rw [C02.alGet_alSet, hiqc]; simp [hqp, hch]
                  · have := qs_alSet s.chans iq.chan cq { cq with queue := ys } hcq
                    show qs (alSet s.chans iq.chan { cq with queue := ys }) < qs s.chans
                    rw [hqq] at this
                    simp only [List.length_cons] at this
                    omega

/-! ### the continuation -/

theorem fbLimit_ne_zero (div : DivFn) (keys : List (Nat × Bool)) (H : Nat) (hH : 0 < H) (s0 : St)
    (h0 : initV2 div keys H = .ok s0) (hsum : sumOver s0.prios s0.strategic = H) : s0.cfg.fbLimit ≠ 0 := by
  have hkeys : keys.length ≠ 0 := by
    intro hk
    have hnil : keys = [] := List.eq_nil_of_length_eq_zero hk
    subst hnil
    unfold initV2 at h0
    split at h0
    · cases h0
    · rename_i ps strategic hprep
      cases h0
      unfold prepareV2 at hprep
      simp only at hprep
      split at hprep
      · cases hprep
      · split at hprep
        · cases hprep
          have : sumOver (sortDesc (List.map (fun x => x.1) ([] : List (Nat × Bool)))) strategic = 0 := rfl
          simp only at hsum
          omega
        · cases hprep
  unfold initV2 at h0
  split at h0
  · cases h0
  · cases h0
    show divideWithMin H 10 keys.length ≠ 0
    unfold divideWithMin
    rw [if_neg (by omega)]
    by_cases hlt : H / 10 < keys.length
    · rw [if_pos hlt]; exact hkeys
    · rw [if_neg hlt]; omega

/-- what is to be shown of a state: a continuation of releases and own steps delivers `x` -/
def Goal (div : DivFn) (D : List (Nat × Nat × Nat)) (p x : Nat) (s : St) : Prop :=
  ∃ acts' s', run div s acts' = some s' ∧ Got D p x s' ∧ ∀ a ∈ acts', okAct a

theorem goal_step {div : DivFn} {D : List (Nat × Nat × Nat)} {p x : Nat} {s s1 : St} {a : Act}
    (hs : step div s a = some s1) (ha : okAct a) (h : Goal div D p x s1) : Goal div D p x s := by
  obtain ⟨acts', s', hr, hg, ho⟩ := h
  refine ⟨a :: acts', s', by simp [run, hs, hr], hg, ?_⟩
  intro b hb
  simp only [List.mem_cons] at hb
  rcases hb with e | e
  · subst e; exact ha
  · exact ho b e

/-- in `getLimitedFeedback` with nothing in flight and nothing to read: the next round starts
    idle, and `c06_idle_delivers` applies -/
theorem terminal (div : DivFn) (hg : SumRule div) (keys : List (Nat × Bool)) (H : Nat) (hH : 0 < H)
    (hnd : (keys.map (·.1)).Nodup) (s0 s : St) (acts : List Act) (h0 : initV2 div keys H = .ok s0)
    (hsum : sumOver s0.prios s0.strategic = H) (hr : run div s0 acts = some s)
    (hfl0 : s.inflight.total = 0) (hpe : s.pending = []) (k : Nat) (hpc : s.pc = .limited k)
    (D : List (Nat × Nat × Nat)) (p x : Nat) (hpre : Pre D s) (hw : Waits s p x) : Goal div D p x s := by
  have F := facts div hg keys H hH hnd s0 s acts h0 hsum hr
  have hstep : step div s .limitedStop = some (nextRound s) := by simp [step, hpc]
  have hr1 : run div s0 (acts ++ [.limitedStop]) = some (nextRound s) :=
    run_append div acts [.limitedStop] s0 s (nextRound s) hr (by simp [run, hstep])
  have hpc1 : (nextRound s).pc = .calc := by simp [nextRound, F.v2]
  have hidle : (nextRound s).actual.total = 0 := by
    have := F.hinv.core.tot
    rw [hfl0, hpe] at this
    simpa [nextRound] using this
  obtain ⟨inp, ch, q, hin, hchan, hud, hch, hq⟩ := hw
  obtain ⟨acts', s', hr', ⟨dl, hdl, hmem⟩, _, hown⟩ :=
    c06_idle_delivers div keys H hH hnd s0 (nextRound s) (acts ++ [.limitedStop]) h0 hsum hr1 hpc1 hidle
      p inp hin hud ch x q (by rw [hchan]; exact hch) hq
  obtain ⟨d0, hd0⟩ := hpre
  refine goal_step hstep (Or.inl rfl) ⟨.calc :: acts', s', hr', ⟨d0 ++ dl, ?_, ?_⟩, ?_⟩
  · rw [hdl]
    show s.delivered ++ dl = D ++ (d0 ++ dl)
    rw [hd0, List.append_assoc]
  · rw [hchan] at hmem; exact List.mem_append_right _ hmem
  · intro a ha
    simp only [List.mem_cons] at ha
    rcases ha with e | e
    · subst e; exact Or.inl rfl
    · exact Or.inl (hown a e)

theorem deliverable_aux (div : DivFn) (hg : SumRule div) (keys : List (Nat × Bool)) (H : Nat) (hH : 0 < H)
    (hnd : (keys.map (·.1)).Nodup) (s0 : St) (h0 : initV2 div keys H = .ok s0)
    (hsum : sumOver s0.prios s0.strategic = H) (D : List (Nat × Nat × Nat)) (p x : Nat) :
    ∀ (nQ nB nP : Nat) (s : St) (acts : List Act), run div s0 acts = some s → Pre D s → Waits s p x →
      qsum s < nQ → bsum s < nB → pos s < nP → Goal div D p x s := by
  intro nQ
  induction nQ with
  | zero => intro _ _ s _ _ _ _ h; omega
  | succ nQ ihQ =>
    intro nB
    induction nB with
    | zero => intro _ s _ _ _ _ _ h; omega
    | succ nB ihB =>
      intro nP
      induction nP with
      | zero => intro s _ _ _ _ _ _ h; omega
      | succ nP ihP =>
        intro s acts hr hpre hw hq hb hp
        have F := facts div hg keys H hH hnd s0 s acts h0 hsum hr
        by_cases hterm : s.inflight.total = 0 ∧ s.pending = [] ∧ ∃ k, s.pc = .limited k
        · obtain ⟨h1, h2, k, h3⟩ := hterm
          exact terminal div hg keys H hH hnd s0 s acts h0 hsum hr h1 h2 k h3 D p x hpre hw
        · have hfb : s.cfg.fbLimit ≠ 0 := by rw [F.cfg]; exact fbLimit_ne_zero div keys H hH s0 h0 hsum
          obtain ⟨a, s1, hs, hok, hpre1, hcase⟩ := sched_step div hg s0 s F hfb D p x hpre hw hterm
          have hr1 : run div s0 (acts ++ [a]) = some s1 := run_append div acts [a] s0 s s1 hr (by simp [run, hs])
          rcases hcase with hgot | ⟨hw1, hless⟩
          · exact goal_step hs hok ⟨[], s1, rfl, hgot, fun _ h => by cases h⟩
          · refine goal_step hs hok ?_
            rcases hless with h | ⟨e1, h | ⟨e2, h⟩⟩
            · exact ihQ (bsum s1 + 1) (pos s1 + 1) s1 _ hr1 hpre1 hw1 (by omega) (by omega) (by omega)
            · exact ihB (pos s1 + 1) s1 _ hr1 hpre1 hw1 (by omega) (by omega) (by omega)
            · exact ihP s1 _ hr1 hpre1 hw1 (by omega) (by omega) (by omega)

/-- **C06 (no reachable state is doomed).** After ANY run of a v2 discipline — whatever the
    arrivals, the releases and their order so far — with a divider obeying the sum rule: if an item
    `x` waits at the head of the channel of a registered, undrained priority `p`, then some
    continuation that consists ONLY of handlers releasing items they hold and of the discipline's
    own steps delivers `x` under priority `p`.  (With fair scheduling and handlers that eventually
    release, the eventuality of C06 follows; by induction along the queue, for every waiting item.) -/
theorem c06_deliverable (div : DivFn) (hg : SumRule div) (keys : List (Nat × Bool)) (H : Nat) (hH : 0 < H)
    (hnd : (keys.map (·.1)).Nodup) (s0 s : St) (acts : List Act) (h0 : initV2 div keys H = .ok s0)
    (hsum : sumOver s0.prios s0.strategic = H) (hr : run div s0 acts = some s)
    (p : Nat) (inp : Input) (hin : alGet s.inputs p = some inp) (hud : inp.drained = false)
    (ch : Chan) (x : Nat) (q : List Nat) (hch : alGet s.chans inp.chan = some ch) (hq : ch.queue = x :: q) :
    ∃ acts' s', run div s acts' = some s' ∧
      (∃ dl, s'.delivered = s.delivered ++ dl ∧ (p, inp.chan, x) ∈ dl) ∧
      (∀ a ∈ acts', isOwn a = true ∨ ∃ r, a = .release r) := by
  have F := facts div hg keys H hH hnd s0 s acts h0 hsum hr
  have hchan : inp.chan = p := F.own p inp hin
  have hw : Waits s p x := ⟨inp, ch, q, hin, hchan, hud, by rw [← hchan]; exact hch, hq⟩
  obtain ⟨acts', s', hr', ⟨dl, hdl, hmem⟩, hok⟩ :=
    deliverable_aux div hg keys H hH hnd s0 h0 hsum s.delivered p x (qsum s + 1) (bsum s + 1) (pos s + 1) s acts hr
      ⟨[], (List.append_nil _).symm⟩ hw (by omega) (by omega) (by omega)
  exact ⟨acts', s', hr', ⟨dl, hdl, by rw [hchan]; exact hmem⟩, hok⟩

/-- the library's dividers obey the sum rule (C14): the hypothesis of `c06_deliverable` is met by
    `divider.Fair` and by `divider.Rate` (with any rounding) -/
theorem sumRule_fair : SumRule (fun _ => fair) := by
  intro i ps d m hm
  by_cases h : ps = []
  · right; simp [fair, h, hm]
  · left; rw [C14.c14_fair_total ps d m h, hm]; omega

theorem sumRule_rate : SumRule (fun _ => rate) := by
  intro i ps d m hm
  by_cases h : ps = []
  · right; subst h; simpa [rate, rateWith] using hm
  · left
    show (rateWith (floatPart d (sumPriorities ps)) ps d m).total = d
    rw [C14.c14_rate_total _ ps d m h, hm]; omega

/-! Non-vacuity: one handler, priority 1 alone; item 7 is delivered and held, item 8 arrives while the
    discipline is in the middle of the round with its allotment used up: the state satisfies the
    hypotheses (8 waits at the head of the undrained input 1), and a continuation of the kind the
    theorem promises — one release, then own steps only — delivers it. -/
example :
    (match initV2 (fun _ => fair) [(1, true)] 1 with
     | .ok s0 =>
       (run (fun _ => fair) s0 [.arrive 1 7, .calc, .pollItem, .arrive 1 8]).map
         (fun (s : St) => (s.delivered, s.inflight.total, s.tactic.get 1,
            (match alGet s.chans 1 with | some c => c.queue | none => []),
            (match alGet s.inputs 1 with | some i => i.drained | none => true)))
     | .error _ => none) = some ([(1, 1, 7)], 1, 0, [8], false) := by decide
example :
    (match initV2 (fun _ => fair) [(1, true)] 1 with
     | .ok s0 =>
       (run (fun _ => fair) s0 ([.arrive 1 7, .calc, .pollItem, .arrive 1 8] ++
          [.release 1, .skip, .recalc, .skip, .endRound, .consume 1, .limitedStop, .calc, .pollItem])).map
         (fun (s : St) => s.delivered)
     | .error _ => none) = some [(1, 1, 7), (1, 1, 8)] := by decide

end Cqos.C06
