import Cqos.Props.C09
/-
  Property C09, unite clause at run level: "without a timeout the output is the unique greedy
  batching of the input — every slice is maximal (it reached JoinSize or the next input slice
  would not have fitted)".

  `uniteRef` is the batching written down as a plain fold over the input slices.  For the
  unite discipline in copy mode without a timeout, after ANY run the emitted slices and the
  accumulation buffer are exactly `uniteRef` folded over the input slices consumed so far
  (`c09_unite_greedy`), and on termination the remaining buffer is the last slice.  That each
  slice the fold emits is maximal is a fact about the fold alone (`uniteRef_maximal`).
  In no-copy mode the effects become visible at the release; the same relation is proved there
  per control point (`GreedyNC`, `c09_unite_greedy_nocopy`).
-/
namespace Cqos.C09

/-- one input slice: flush the buffer first if the slice is oversized or would not fit; an
    oversized slice goes out alone; otherwise append and emit when JoinSize is reached -/
def uniteRef (size : Nat) (acc : List (List Nat) × List Nat) (xs : List Nat) : List (List Nat) × List Nat :=
  let flush := (decide (xs.length ≥ size) || decide (xs.length + acc.2.length > size)) && !acc.2.isEmpty
  let out1 := if flush then acc.1 ++ [acc.2] else acc.1
  let buf1 := if flush then [] else acc.2
  if xs.length ≥ size then (out1 ++ [xs], buf1)
  else if (buf1 ++ xs).length < size then (out1, buf1 ++ xs)
  else if buf1 ++ xs = [] then (out1, buf1 ++ xs)
  else (out1 ++ [buf1 ++ xs], [])

/-- one `process` call of unite in copy mode is one step of the reference fold -/
theorem unite_ref_step (s : JSt) (id : Nat) (xs : List Nat) (t : Nat) (hk : s.cfg.kind = .unite)
    (hc : s.cfg.noCopy = false) :
    ((jprocess s id xs t).out, (jprocess s id xs t).buf) = uniteRef s.cfg.size (s.out, s.buf) xs ∧
    (jprocess s id xs t).consumed = s.consumed ++ [xs] ∧ (jprocess s id xs t).pc = s.pc ∧
    (jprocess s id xs t).cfg = s.cfg := by
  unfold jprocess
  simp only [hk]
  by_cases hnp : needPass s xs = true
  · -- the buffer is emitted first
    have hb : s.buf ≠ [] := by
      simp only [needPass, Bool.and_eq_true, Bool.not_eq_true', List.isEmpty_eq_false_iff] at hnp
      exact hnp.2
    have hfl : ((decide (xs.length ≥ s.cfg.size) || decide (xs.length + s.buf.length > s.cfg.size)) && !s.buf.isEmpty) = true := by
      simpa [needPass] using hnp
    simp only [hnp, if_true, hc, Bool.false_eq_true, if_false]
    rw [jpass_copy_eq (jlog s xs) t false none (by simpa [jlog] using hb) (by simpa [jlog] using hc)]
    unfold jcont uniteRef
    simp only [hfl, if_true, jlog]
    by_cases hov : xs.length ≥ s.cfg.size
    · simp only [hov, if_true, jforward, jsend, hc, Bool.false_eq_true, if_false]
      refine ⟨?_, ?_, ?_, ?_⟩ <;> first | rfl | trivial | simp
    · simp only [hov, if_false, List.nil_append]
      unfold jappendPath jappend
      simp only [List.nil_append]
      by_cases hlt : xs.length < s.cfg.size
      · simp only [hlt, if_true]; refine ⟨?_, ?_, ?_, ?_⟩ <;> first | rfl | trivial | simp
      · exact absurd (by omega) hlt
  · have hnp' : needPass s xs = false := by simpa using hnp
    have hfl : ((decide (xs.length ≥ s.cfg.size) || decide (xs.length + s.buf.length > s.cfg.size)) && !s.buf.isEmpty) = false := by
      simpa [needPass] using hnp'
    simp only [hnp', Bool.false_eq_true, if_false]
    unfold jcont uniteRef
    simp only [hfl, Bool.false_eq_true, if_false, jlog]
    by_cases hov : xs.length ≥ s.cfg.size
    · simp only [hov, if_true, jforward, jsend, hc, Bool.false_eq_true, if_false]
      refine ⟨?_, ?_, ?_, ?_⟩ <;> first | rfl | trivial | simp
    · simp only [hov, if_false]
      unfold jappendPath jappend
      simp only [List.length_append]
      by_cases hlt : s.buf.length + xs.length < s.cfg.size
      · simp only [hlt, if_true]; refine ⟨?_, ?_, ?_, ?_⟩ <;> first | rfl | trivial | simp
      · simp only [hlt, if_false]
        by_cases he : s.buf ++ xs = []
        · simp only [jpass, he, if_true]; refine ⟨?_, ?_, ?_, ?_⟩ <;> first | rfl | trivial | simp
        · simp only [jpass, he, if_false, jsend, hc, Bool.false_eq_true, jafterPass]
          refine ⟨?_, ?_, ?_, ?_⟩ <;> first | rfl | trivial | simp

/-- what the fold has produced from the input slices consumed so far -/
def uniteFold (size : Nat) (inputs : List (List Nat)) : List (List Nat) × List Nat :=
  inputs.foldl (uniteRef size) ([], [])

/-- the relation between a reachable state and the fold over its consumed input -/
def Greedy (s : JSt) : Prop :=
  (s.pc = .run ∧ (s.out, s.buf) = uniteFold s.cfg.size s.consumed) ∨
  (s.pc = .done ∧ s.buf = [] ∧
    s.out = (uniteFold s.cfg.size s.consumed).1 ++
      (if (uniteFold s.cfg.size s.consumed).2 = [] then [] else [(uniteFold s.cfg.size s.consumed).2]))

theorem greedy_step (s s' : JSt) (a : JAct) (hk : s.cfg.kind = .unite) (hc : s.cfg.noCopy = false)
    (ht : s.cfg.timeout = 0) (hv : s.cfg.v1 = false) (h : Greedy s) (hs : jstep s a = some s') :
    Greedy s' ∧ s'.cfg = s.cfg := by
  rcases h with ⟨hpc, hg⟩ | ⟨hpc, hb, hg⟩
  · cases a with
    | item id xs t =>
      simp only [jstep, hpc, hk, hv, Bool.false_eq_true, false_and, if_false] at hs
      simp only [reduceCtorEq, false_and, if_false] at hs
      cases hs
      obtain ⟨h1, h2, h3, h4⟩ := unite_ref_step s id xs t hk hc
      refine ⟨Or.inl ⟨by rw [h3]; exact hpc, ?_⟩, h4⟩
      rw [h1, h2, h4, hg]
      simp [uniteFold, List.foldl_append]
    | tick t => simp [jstep, hpc, ht] at hs
    | close t =>
      simp only [jstep, hpc] at hs
      by_cases hbe : s.buf = []
      · have hp : jpass s t false none = { s with passAt := t } := by simp [jpass, hbe]
        rw [hp] at hs
        simp only [hpc] at hs
        cases hs
        refine ⟨Or.inr ⟨rfl, hbe, ?_⟩, rfl⟩
        have h1 : (uniteFold s.cfg.size s.consumed).1 = s.out := by rw [← hg]
        have h2 : (uniteFold s.cfg.size s.consumed).2 = s.buf := by rw [← hg]
        show s.out = _
        rw [h1, h2, hbe]; simp
      · rw [jpass_copy_eq s t false none hbe hc] at hs
        simp only [hpc] at hs
        cases hs
        refine ⟨Or.inr ⟨rfl, rfl, ?_⟩, rfl⟩
        have h1 : (uniteFold s.cfg.size s.consumed).1 = s.out := by rw [← hg]
        have h2 : (uniteFold s.cfg.size s.consumed).2 = s.buf := by rw [← hg]
        show s.out ++ [s.buf] = _
        rw [h1, h2]; simp [hbe]
    | release t => simp [jstep, hpc] at hs
    | stop => simp [jstep, hv] at hs
    | stopSeen t => simp [jstep, hpc, hv] at hs
    | stopFlush t => simp [jstep, hpc, hv] at hs
  · cases a <;> simp [jstep, hpc, hv] at hs

/-- **C09 (unite, run level: the output is the greedy batching of the input).** -/
theorem c09_unite_greedy (cfg : JCfg) (t0 : Nat) (hk : cfg.kind = .unite) (hc : cfg.noCopy = false)
    (ht : cfg.timeout = 0) (hv : cfg.v1 = false) (acts : List JAct) (s : JSt)
    (hr : jrun (jinit cfg t0) acts = some s) : Greedy s ∧ s.cfg = cfg := by
  suffices H : ∀ (acts : List JAct) (s0 s : JSt), s0.cfg = cfg → Greedy s0 → jrun s0 acts = some s → Greedy s ∧ s.cfg = cfg from
    H acts _ s rfl (Or.inl ⟨rfl, by simp [jinit, uniteFold]⟩) hr
  intro acts
  induction acts with
  | nil => intro s0 s hc0 hg hr; simp [jrun] at hr; subst hr; exact ⟨hg, hc0⟩
  | cons a as ih =>
    intro s0 s hc0 hg hr
    simp only [jrun] at hr
    split at hr
    · rename_i s1 hs1
      obtain ⟨hg1, hc1⟩ := greedy_step s0 s1 a (by rw [hc0]; exact hk) (by rw [hc0]; exact hc) (by rw [hc0]; exact ht)
        (by rw [hc0]; exact hv) hg hs1
      exact ih s1 s (by rw [hc1, hc0]) hg1 hr
    · cases hr

/-- **every slice the fold emits is maximal**: a newly emitted slice has reached JoinSize, or
    it is the buffer and the input slice that follows would not have fitted -/
theorem uniteRef_maximal (size : Nat) (out : List (List Nat)) (buf xs : List Nat) (e : List Nat)
    (he : e ∈ (uniteRef size (out, buf) xs).1) (hnew : e ∉ out) :
    e.length ≥ size ∨ (e = buf ∧ buf.length + xs.length > size) := by
  unfold uniteRef at he
  simp only at he
  by_cases hfl : ((decide (xs.length ≥ size) || decide (xs.length + buf.length > size)) && !buf.isEmpty) = true
  · simp only [hfl, if_true] at he
    have hcond : xs.length ≥ size ∨ xs.length + buf.length > size := by
      simp only [Bool.and_eq_true, Bool.or_eq_true, decide_eq_true_eq] at hfl; exact hfl.1
    have hbpos : 0 < buf.length := by
      simp only [Bool.and_eq_true, Bool.not_eq_true', List.isEmpty_eq_false_iff] at hfl
      exact List.length_pos_iff.2 hfl.2
    by_cases hov : xs.length ≥ size
    · simp only [hov, if_true, List.mem_append, List.mem_singleton] at he
      rcases he with (he | he) | he
      · exact absurd he hnew
      · subst he
        by_cases hbl : e.length ≥ size
        · exact Or.inl hbl
        · exact Or.inr ⟨rfl, by omega⟩
      · subst he; exact Or.inl hov
    · simp only [hov, if_false, List.nil_append] at he
      have hover : xs.length + buf.length > size := by rcases hcond with h | h; exact absurd h hov; exact h
      have hlt : xs.length < size := by omega
      simp only [hlt, if_true, List.mem_append, List.mem_singleton] at he
      rcases he with he | he
      · exact absurd he hnew
      · subst he; exact Or.inr ⟨rfl, by omega⟩
  · have hfl' : ((decide (xs.length ≥ size) || decide (xs.length + buf.length > size)) && !buf.isEmpty) = false := by
      simpa using hfl
    simp only [hfl', Bool.false_eq_true, if_false] at he
    by_cases hov : xs.length ≥ size
    · simp only [hov, if_true, List.mem_append, List.mem_singleton] at he
      rcases he with he | he
      · exact absurd he hnew
      · subst he; exact Or.inl hov
    · simp only [hov, if_false] at he
      by_cases hlt : (buf ++ xs).length < size
      · simp only [hlt, if_true] at he; exact absurd he hnew
      · simp only [hlt, if_false] at he
        by_cases hem : buf ++ xs = []
        · simp only [hem, if_true] at he; exact absurd he hnew
        · simp only [hem, if_false, List.mem_append, List.mem_singleton] at he
          rcases he with he | he
          · exact absurd he hnew
          · subst he; exact Or.inl (by omega)

/-- non-vacuity: JoinSize 4, slices of 2, 1, 3 (does not fit), 5 (oversized), 1 -/
example : uniteFold 4 [[1, 2], [3], [4, 5, 6], [7, 8, 9, 10, 11], [12]] =
    ([[1, 2, 3], [4, 5, 6], [7, 8, 9, 10, 11]], [12]) := by decide

end Cqos.C09

/-! ### the same in no-copy mode

In no-copy mode an emission hands the slice out and the discipline waits for the release; the
buffer is reset (and an interrupted `process` resumed) only then.  The relation to the fold
therefore depends on where the discipline is. -/
namespace Cqos.C09

/-- the relation between a reachable no-copy state and the fold over its consumed input -/
def GreedyNC (s : JSt) : Prop :=
  let F := uniteFold s.cfg.size s.consumed
  match s.pc with
  | .run => (s.out, s.buf) = F
  | .await none =>
    if s.closing then s.out = F.1 ++ [F.2] ∧ F.2 ≠ [] else s.out = F.1 ∧ F.2 = []
  | .await (some (_, xs)) =>
    s.out = F.1 ++ [F.2] ∧ s.buf = F.2 ∧ F.2 ≠ [] ∧ s.closing = false ∧
      ((decide (xs.length ≥ s.cfg.size) || decide (xs.length + F.2.length > s.cfg.size)) && !F.2.isEmpty) = true
  | .done => s.out = F.1 ++ (if F.2 = [] then [] else [F.2])

/-- the part of `uniteRef` after the (possible) flush -/
def contRef (size : Nat) (out1 : List (List Nat)) (buf1 xs : List Nat) : List (List Nat) × List Nat :=
  if xs.length ≥ size then (out1 ++ [xs], buf1)
  else if (buf1 ++ xs).length < size then (out1, buf1 ++ xs)
  else if buf1 ++ xs = [] then (out1, buf1 ++ xs)
  else (out1 ++ [buf1 ++ xs], [])

theorem uniteRef_eq (size : Nat) (acc : List (List Nat) × List Nat) (xs : List Nat) :
    uniteRef size acc xs =
      (if ((decide (xs.length ≥ size) || decide (xs.length + acc.2.length > size)) && !acc.2.isEmpty) = true
       then contRef size (acc.1 ++ [acc.2]) [] xs else contRef size acc.1 acc.2 xs) := by
  by_cases hfl : ((decide (xs.length ≥ size) || decide (xs.length + acc.2.length > size)) && !acc.2.isEmpty) = true
  · simp [uniteRef, contRef, hfl]
  · simp [uniteRef, contRef, hfl]

/-- `jcont` in no-copy mode, started where the buffer does not stand in the way (it is empty
    when the slice is oversized): the state it leaves, described through `contRef` -/
theorem jcont_nc (u : JSt) (id : Nat) (xs : List Nat) (t : Nat) (hc : u.cfg.noCopy = true)
    (hbe : xs.length ≥ u.cfg.size → u.buf = []) (hcl : u.closing = false) (hrun : u.pc = .run) :
    let r := jcont (jlog u xs) id xs t
    let C := contRef u.cfg.size u.out u.buf xs
    r.cfg = u.cfg ∧ r.consumed = u.consumed ++ [xs] ∧ r.closing = false ∧
    ((r.pc = .run ∧ (r.out, r.buf) = C) ∨ (r.pc = .await none ∧ r.out = C.1 ∧ C.2 = [])) := by
  simp only
  unfold jcont contRef
  simp only [jlog]
  by_cases hov : xs.length ≥ u.cfg.size
  · have hb := hbe hov
    simp only [hov, if_true, jforward, jsend, hc, hb]
    simp [hcl, hrun]
  · simp only [hov, if_false]
    unfold jappendPath jappend
    simp only [List.length_append]
    by_cases hlt : u.buf.length + xs.length < u.cfg.size
    · simp only [hlt, if_true]
      simp [hcl, hrun]
    · simp only [hlt, if_false]
      by_cases he : u.buf ++ xs = []
      · simp only [jpass, he, if_true]
        simp [hcl, hrun]
      · simp only [jpass, he, if_false, jsend, hc, if_true]
        simp [hcl, hrun]

theorem greedyNC_step (s s' : JSt) (a : JAct) (hk : s.cfg.kind = .unite) (hc : s.cfg.noCopy = true)
    (ht : s.cfg.timeout = 0) (hv : s.cfg.v1 = false) (hcr : s.pc = .run → s.closing = false)
    (h : GreedyNC s) (hs : jstep s a = some s') :
    GreedyNC s' ∧ s'.cfg = s.cfg ∧ (s'.pc = .run → s'.closing = false) := by
  cases hpc : s.pc with
  | done => cases a <;> simp [jstep, hpc, hv] at hs
  | run =>
    have hg : (s.out, s.buf) = uniteFold s.cfg.size s.consumed := by simpa [GreedyNC, hpc] using h
    have hcl := hcr hpc
    cases a with
    | tick t => simp [jstep, hpc, ht] at hs
    | release t => simp [jstep, hpc] at hs
    | stop => simp [jstep, hv] at hs
    | stopSeen t => simp [jstep, hpc, hv] at hs
    | stopFlush t => simp [jstep, hpc, hv] at hs
    | close t =>
      simp only [jstep, hpc] at hs
      by_cases hbe : s.buf = []
      · have hp : jpass s t false none = { s with passAt := t } := by simp [jpass, hbe]
        rw [hp] at hs
        simp only [hpc] at hs
        cases hs
        refine ⟨?_, rfl, by simp⟩
        have h2 : (uniteFold s.cfg.size s.consumed).2 = s.buf := by rw [← hg]
        have h1 : (uniteFold s.cfg.size s.consumed).1 = s.out := by rw [← hg]
        simp only [GreedyNC, h1, h2, hbe]
        simp
      · rw [jpass_nocopy_eq s t false none hbe hc] at hs
        simp only at hs
        cases hs
        refine ⟨?_, rfl, by simp⟩
        have h2 : (uniteFold s.cfg.size s.consumed).2 = s.buf := by rw [← hg]
        have h1 : (uniteFold s.cfg.size s.consumed).1 = s.out := by rw [← hg]
        simp only [GreedyNC, h1, h2]
        simp [hbe]
    | item id xs t =>
      simp only [jstep, hpc, hk, hv, Bool.false_eq_true, false_and, if_false] at hs
      simp only [reduceCtorEq, false_and, if_false] at hs
      cases hs
      have h2 : (uniteFold s.cfg.size s.consumed).2 = s.buf := by rw [← hg]
      have h1 : (uniteFold s.cfg.size s.consumed).1 = s.out := by rw [← hg]
      unfold jprocess
      simp only [hk]
      by_cases hnp : needPass s xs = true
      · have hb : s.buf ≠ [] := by
          simp only [needPass, Bool.and_eq_true, Bool.not_eq_true', List.isEmpty_eq_false_iff] at hnp
          exact hnp.2
        simp only [hnp, if_true, hc]
        rw [jpass_nocopy_eq s t false (some (id, xs)) hb hc]
        refine ⟨?_, rfl, by simp⟩
        have hcond : ((decide (xs.length ≥ s.cfg.size) || decide (xs.length + s.buf.length > s.cfg.size)) && !s.buf.isEmpty) = true := by
          simpa [needPass] using hnp
        simp only [GreedyNC, h1, h2]
        simp [hb, hcl, hcond]
      · have hnp' : needPass s xs = false := by simpa using hnp
        simp only [hnp', Bool.false_eq_true, if_false]
        have hbe : xs.length ≥ s.cfg.size → s.buf = [] := by
          intro hov
          simp only [needPass, Bool.and_eq_false_iff, Bool.or_eq_false_iff, decide_eq_false_iff_not] at hnp'
          rcases hnp' with ⟨h, _⟩ | h
          · exact absurd hov h
          · simpa using h
        obtain ⟨r1, r2, r3, r4⟩ := jcont_nc s id xs t hc hbe hcl hpc
        have hF : uniteFold s.cfg.size (s.consumed ++ [xs]) = contRef s.cfg.size s.out s.buf xs := by
          simp only [uniteFold, List.foldl_append, List.foldl_cons, List.foldl_nil]
          rw [show List.foldl (uniteRef s.cfg.size) ([], []) s.consumed = (s.out, s.buf) from hg.symm, uniteRef_eq]
          have : ((decide (xs.length ≥ s.cfg.size) || decide (xs.length + s.buf.length > s.cfg.size)) && !s.buf.isEmpty) = false := by
            simpa [needPass] using hnp'
          simp [this]
        refine ⟨?_, r1, fun _ => r3⟩
        rcases r4 with ⟨hp, he⟩ | ⟨hp, ho, hb⟩
        · simp only [GreedyNC, hp, r1, r2, hF]; exact he
        · simp only [GreedyNC, hp, r1, r2, hF, r3]
          simp [ho, hb]
  | await next =>
    cases a with
    | item id xs t => simp [jstep, hpc] at hs
    | tick t => simp [jstep, hpc] at hs
    | close t => simp [jstep, hpc] at hs
    | stop => simp [jstep, hv] at hs
    | stopSeen t => simp [jstep, hpc, hv] at hs
    | stopFlush t => simp [jstep, hpc] at hs
    | release t =>
      cases next with
      | none =>
        simp only [jstep, hpc, Option.some.injEq] at hs
        subst hs
        by_cases hcl : s.closing = true
        · have hg : s.out = (uniteFold s.cfg.size s.consumed).1 ++ [(uniteFold s.cfg.size s.consumed).2] ∧
              (uniteFold s.cfg.size s.consumed).2 ≠ [] := by simpa [GreedyNC, hpc, hcl] using h
          refine ⟨?_, by split <;> rfl, by split <;> simp [hcl, jafterPass]⟩
          split <;> simp [GreedyNC, hcl, jafterPass, hg.1, hg.2]
        · have hcl' : s.closing = false := by simpa using hcl
          have hg : s.out = (uniteFold s.cfg.size s.consumed).1 ∧ (uniteFold s.cfg.size s.consumed).2 = [] := by
            simpa [GreedyNC, hpc, hcl'] using h
          refine ⟨?_, by split <;> rfl, by split <;> simp [hcl', jafterPass]⟩
          split
          · rename_i hb
            simp only [GreedyNC, hcl', Bool.false_eq_true, if_false]
            rw [hb]; exact Prod.ext hg.1 hg.2.symm
          · simp only [GreedyNC, hcl', Bool.false_eq_true, if_false, jafterPass]
            exact Prod.ext hg.1 hg.2.symm
      | some nx =>
        obtain ⟨id, xs⟩ := nx
        have hg : s.out = (uniteFold s.cfg.size s.consumed).1 ++ [(uniteFold s.cfg.size s.consumed).2] ∧
            s.buf = (uniteFold s.cfg.size s.consumed).2 ∧ (uniteFold s.cfg.size s.consumed).2 ≠ [] ∧ s.closing = false ∧
            ((decide (xs.length ≥ s.cfg.size) || decide (xs.length + (uniteFold s.cfg.size s.consumed).2.length > s.cfg.size)) &&
              !(uniteFold s.cfg.size s.consumed).2.isEmpty) = true := by simpa [GreedyNC, hpc] using h
        obtain ⟨g1, g2, g3, g4, g5⟩ := hg
        have hbne : s.buf ≠ [] := by rw [g2]; exact g3
        simp only [jstep, hpc, g4, Bool.false_eq_true, if_false, hbne, Option.some.injEq] at hs
        subst hs
        -- the state after the release, before the rest of `process`
        let u : JSt := jafterPass { s with events := s.events ++ [.released], pc := .run, closing := false } t
        change GreedyNC (jcont (jlog u xs) id xs t) ∧ (jcont (jlog u xs) id xs t).cfg = s.cfg ∧
          ((jcont (jlog u xs) id xs t).pc = .run → (jcont (jlog u xs) id xs t).closing = false)
        obtain ⟨r1, r2, r3, r4⟩ := jcont_nc u id xs t (by simpa [u, jafterPass] using hc)
          (fun _ => by simp [u, jafterPass]) (by simp [u, jafterPass]) (by simp [u, jafterPass])
        have hucfg : u.cfg = s.cfg := by simp [u, jafterPass]
        have huc : u.consumed = s.consumed := by simp [u, jafterPass]
        have huo : u.out = s.out := by simp [u, jafterPass]
        have hub : u.buf = [] := by simp [u, jafterPass]
        have hF : uniteFold s.cfg.size (s.consumed ++ [xs]) = contRef s.cfg.size u.out u.buf xs := by
          simp only [uniteFold, List.foldl_append, List.foldl_cons, List.foldl_nil]
          rw [uniteRef_eq]
          change (if ((decide (xs.length ≥ s.cfg.size) || decide (xs.length + (uniteFold s.cfg.size s.consumed).2.length > s.cfg.size)) &&
              !(uniteFold s.cfg.size s.consumed).2.isEmpty) = true then _ else _) = _
          rw [if_pos g5, huo, hub, g1]
          rfl
        refine ⟨?_, by rw [r1, hucfg], fun _ => r3⟩
        rw [hucfg] at r4
        rcases r4 with ⟨hp, he⟩ | ⟨hp, ho, hb⟩
        · simp only [GreedyNC, hp, r1, r2, hucfg, huc, hF]; exact he
        · simp only [GreedyNC, hp, r1, r2, hucfg, huc, hF, r3]
          simp [ho, hb]

/-- **C09 (unite, no-copy mode, run level).** -/
theorem c09_unite_greedy_nocopy (cfg : JCfg) (t0 : Nat) (hk : cfg.kind = .unite) (hc : cfg.noCopy = true)
    (ht : cfg.timeout = 0) (hv : cfg.v1 = false) (acts : List JAct) (s : JSt)
    (hr : jrun (jinit cfg t0) acts = some s) : GreedyNC s ∧ s.cfg = cfg := by
  suffices H : ∀ (acts : List JAct) (s0 s : JSt), s0.cfg = cfg → (s0.pc = .run → s0.closing = false) → GreedyNC s0 →
      jrun s0 acts = some s → GreedyNC s ∧ s.cfg = cfg from
    H acts _ s rfl (fun _ => rfl) (by simp [GreedyNC, jinit, uniteFold]) hr
  intro acts
  induction acts with
  | nil => intro s0 s hc0 _ hg hr; simp [jrun] at hr; subst hr; exact ⟨hg, hc0⟩
  | cons a as ih =>
    intro s0 s hc0 hcr hg hr
    simp only [jrun] at hr
    split at hr
    · rename_i s1 hs1
      obtain ⟨hg1, hc1, hcr1⟩ := greedyNC_step s0 s1 a (by rw [hc0]; exact hk) (by rw [hc0]; exact hc)
        (by rw [hc0]; exact ht) (by rw [hc0]; exact hv) hcr hg hs1
      exact ih s1 s (by rw [hc1, hc0]) hcr1 hg1 hr
    · cases hr

end Cqos.C09
