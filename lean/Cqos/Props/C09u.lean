import Cqos.Props.C09
/-
  Property C09, unite clause at run level: "without a timeout the output is the unique greedy
  batching of the input — every slice is maximal (it reached JoinSize or the next input slice
  would not have fitted)".

  `uniteRef` is the batching written down as a plain fold over the input slices.  For the
  unite discipline in copy mode without a timeout, after ANY run the emitted slices and the
  accumulation buffer are exactly `uniteRef` folded over the input slices consumed so far
  (`c09_unite_greedy`), and on termination the remaining buffer is the last slice.  That each
  slice the fold emits is maximal is a fact about the fold alone (`uniteRef_maximal`).
  The no-copy mode differs only in when the effects become visible (the release interleaves);
  it is tied to this one by the stepper's exact agreement in both modes.
-/
namespace Cqos.C09

/-- one input slice: flush the buffer first if the slice is oversized or would not fit; an
    oversized slice goes out alone; otherwise append and emit when JoinSize is reached -/
def uniteRef (size : Nat) (acc : List (List Nat) × List Nat) (xs : List Nat) : List (List Nat) × List Nat :=
  let flush := (decide (xs.length ≥ size) || decide (xs.length + acc.2.length > size)) && !acc.2.isEmpty
  let out1 := if flush then acc.1 ++ [acc.2] else acc.1
  let buf1 := if flush then [] else acc.2
  if xs.length ≥ size then (out1 ++ [xs], buf1)
  else if (buf1 ++ xs).length < size then (out1, buf1 ++ xs)
  else if buf1 ++ xs = [] then (out1, buf1 ++ xs)
  else (out1 ++ [buf1 ++ xs], [])

/-- one `process` call of unite in copy mode is one step of the reference fold -/
theorem unite_ref_step (s : JSt) (id : Nat) (xs : List Nat) (t : Nat) (hk : s.cfg.kind = .unite)
    (hc : s.cfg.noCopy = false) :
    ((jprocess s id xs t).out, (jprocess s id xs t).buf) = uniteRef s.cfg.size (s.out, s.buf) xs ∧
    (jprocess s id xs t).consumed = s.consumed ++ [xs] ∧ (jprocess s id xs t).pc = s.pc ∧
    (jprocess s id xs t).cfg = s.cfg := by
  unfold jprocess
  simp only [hk]
  by_cases hnp : needPass s xs = true
  · -- the buffer is emitted first
    have hb : s.buf ≠ [] := by
      simp only [needPass, Bool.and_eq_true, Bool.not_eq_true', List.isEmpty_eq_false_iff] at hnp
      exact hnp.2
    have hfl : ((decide (xs.length ≥ s.cfg.size) || decide (xs.length + s.buf.length > s.cfg.size)) && !s.buf.isEmpty) = true := by
      simpa [needPass] using hnp
    simp only [hnp, if_true, hc, Bool.false_eq_true, if_false]
    rw [jpass_copy_eq (jlog s xs) t false none (by simpa [jlog] using hb) (by simpa [jlog] using hc)]
    unfold jcont uniteRef
    simp only [hfl, if_true, jlog]
    by_cases hov : xs.length ≥ s.cfg.size
    · simp only [hov, if_true, jforward, jsend, hc, Bool.false_eq_true, if_false]
      refine ⟨?_, ?_, ?_, ?_⟩ <;> first | rfl | trivial | simp
    · simp only [hov, if_false, List.nil_append]
      unfold jappendPath jappend
      simp only [List.nil_append]
      by_cases hlt : xs.length < s.cfg.size
      · simp only [hlt, if_true]; refine ⟨?_, ?_, ?_, ?_⟩ <;> first | rfl | trivial | simp
      · exact absurd (by omega) hlt
  · have hnp' : needPass s xs = false := by simpa using hnp
    have hfl : ((decide (xs.length ≥ s.cfg.size) || decide (xs.length + s.buf.length > s.cfg.size)) && !s.buf.isEmpty) = false := by
      simpa [needPass] using hnp'
    simp only [hnp', Bool.false_eq_true, if_false]
    unfold jcont uniteRef
    simp only [hfl, Bool.false_eq_true, if_false, jlog]
    by_cases hov : xs.length ≥ s.cfg.size
    · simp only [hov, if_true, jforward, jsend, hc, Bool.false_eq_true, if_false]
      refine ⟨?_, ?_, ?_, ?_⟩ <;> first | rfl | trivial | simp
    · simp only [hov, if_false]
      unfold jappendPath jappend
      simp only [List.length_append]
      by_cases hlt : s.buf.length + xs.length < s.cfg.size
      · simp only [hlt, if_true]; refine ⟨?_, ?_, ?_, ?_⟩ <;> first | rfl | trivial | simp
      · simp only [hlt, if_false]
        by_cases he : s.buf ++ xs = []
        · simp only [jpass, he, if_true]; refine ⟨?_, ?_, ?_, ?_⟩ <;> first | rfl | trivial | simp
        · simp only [jpass, he, if_false, jsend, hc, Bool.false_eq_true, jafterPass]
          refine ⟨?_, ?_, ?_, ?_⟩ <;> first | rfl | trivial | simp

/-- what the fold has produced from the input slices consumed so far -/
def uniteFold (size : Nat) (inputs : List (List Nat)) : List (List Nat) × List Nat :=
  inputs.foldl (uniteRef size) ([], [])

/-- the relation between a reachable state and the fold over its consumed input -/
def Greedy (s : JSt) : Prop :=
  (s.pc = .run ∧ (s.out, s.buf) = uniteFold s.cfg.size s.consumed) ∨
  (s.pc = .done ∧ s.buf = [] ∧
    s.out = (uniteFold s.cfg.size s.consumed).1 ++
      (if (uniteFold s.cfg.size s.consumed).2 = [] then [] else [(uniteFold s.cfg.size s.consumed).2]))

theorem greedy_step (s s' : JSt) (a : JAct) (hk : s.cfg.kind = .unite) (hc : s.cfg.noCopy = false)
    (ht : s.cfg.timeout = 0) (hv : s.cfg.v1 = false) (h : Greedy s) (hs : jstep s a = some s') :
    Greedy s' ∧ s'.cfg = s.cfg := by
  rcases h with ⟨hpc, hg⟩ | ⟨hpc, hb, hg⟩
  · cases a with
    | item id xs t =>
      simp only [jstep, hpc, hk, hv, Bool.false_eq_true, false_and, if_false] at hs
      simp only [reduceCtorEq, false_and, if_false] at hs
      cases hs
      obtain ⟨h1, h2, h3, h4⟩ := unite_ref_step s id xs t hk hc
      refine ⟨Or.inl ⟨by rw [h3]; exact hpc, ?_⟩, h4⟩
      rw [h1, h2, h4, hg]
      simp [uniteFold, List.foldl_append]
    | tick t => simp [jstep, hpc, ht] at hs
    | close t =>
      simp only [jstep, hpc] at hs
      by_cases hbe : s.buf = []
      · have hp : jpass s t false none = { s with passAt := t } := by simp [jpass, hbe]
        rw [hp] at hs
        simp only [hpc] at hs
        cases hs
        refine ⟨Or.inr ⟨rfl, hbe, ?_⟩, rfl⟩
        have h1 : (uniteFold s.cfg.size s.consumed).1 = s.out := by rw [← hg]
        have h2 : (uniteFold s.cfg.size s.consumed).2 = s.buf := by rw [← hg]
        show s.out = _
        rw [h1, h2, hbe]; simp
      · rw [jpass_copy_eq s t false none hbe hc] at hs
        simp only [hpc] at hs
        cases hs
        refine ⟨Or.inr ⟨rfl, rfl, ?_⟩, rfl⟩
        have h1 : (uniteFold s.cfg.size s.consumed).1 = s.out := by rw [← hg]
        have h2 : (uniteFold s.cfg.size s.consumed).2 = s.buf := by rw [← hg]
        show s.out ++ [s.buf] = _
        rw [h1, h2]; simp [hbe]
    | release t => simp [jstep, hpc] at hs
    | stop => simp [jstep, hv] at hs
    | stopSeen t => simp [jstep, hpc, hv] at hs
    | stopFlush t => simp [jstep, hpc, hv] at hs
  · cases a <;> simp [jstep, hpc, hv] at hs

/-- **C09 (unite, run level: the output is the greedy batching of the input).** -/
theorem c09_unite_greedy (cfg : JCfg) (t0 : Nat) (hk : cfg.kind = .unite) (hc : cfg.noCopy = false)
    (ht : cfg.timeout = 0) (hv : cfg.v1 = false) (acts : List JAct) (s : JSt)
    (hr : jrun (jinit cfg t0) acts = some s) : Greedy s ∧ s.cfg = cfg := by
  suffices H : ∀ (acts : List JAct) (s0 s : JSt), s0.cfg = cfg → Greedy s0 → jrun s0 acts = some s → Greedy s ∧ s.cfg = cfg from
    H acts _ s rfl (Or.inl ⟨rfl, by simp [jinit, uniteFold]⟩) hr
  intro acts
  induction acts with
  | nil => intro s0 s hc0 hg hr; simp [jrun] at hr; subst hr; exact ⟨hg, hc0⟩
  | cons a as ih =>
    intro s0 s hc0 hg hr
    simp only [jrun] at hr
    split at hr
    · rename_i s1 hs1
      obtain ⟨hg1, hc1⟩ := greedy_step s0 s1 a (by rw [hc0]; exact hk) (by rw [hc0]; exact hc) (by rw [hc0]; exact ht)
        (by rw [hc0]; exact hv) hg hs1
      exact ih s1 s (by rw [hc1, hc0]) hg1 hr
    · cases hr

/-- **every slice the fold emits is maximal**: a newly emitted slice has reached JoinSize, or
    it is the buffer and the input slice that follows would not have fitted -/
theorem uniteRef_maximal (size : Nat) (out : List (List Nat)) (buf xs : List Nat) (e : List Nat)
    (he : e ∈ (uniteRef size (out, buf) xs).1) (hnew : e ∉ out) :
    e.length ≥ size ∨ (e = buf ∧ buf.length + xs.length > size) := by
  unfold uniteRef at he
  simp only at he
  by_cases hfl : ((decide (xs.length ≥ size) || decide (xs.length + buf.length > size)) && !buf.isEmpty) = true
  · simp only [hfl, if_true] at he
    have hcond : xs.length ≥ size ∨ xs.length + buf.length > size := by
      simp only [Bool.and_eq_true, Bool.or_eq_true, decide_eq_true_eq] at hfl; exact hfl.1
    have hbpos : 0 < buf.length := by
      simp only [Bool.and_eq_true, Bool.not_eq_true', List.isEmpty_eq_false_iff] at hfl
      exact List.length_pos_iff.2 hfl.2
    by_cases hov : xs.length ≥ size
    · simp only [hov, if_true, List.mem_append, List.mem_singleton] at he
      rcases he with (he | he) | he
      · exact absurd he hnew
      · subst he
        by_cases hbl : e.length ≥ size
        · exact Or.inl hbl
        · exact Or.inr ⟨rfl, by omega⟩
      · subst he; exact Or.inl hov
    · simp only [hov, if_false, List.nil_append] at he
      have hover : xs.length + buf.length > size := by rcases hcond with h | h; exact absurd h hov; exact h
      have hlt : xs.length < size := by omega
      simp only [hlt, if_true, List.mem_append, List.mem_singleton] at he
      rcases he with he | he
      · exact absurd he hnew
      · subst he; exact Or.inr ⟨rfl, by omega⟩
  · have hfl' : ((decide (xs.length ≥ size) || decide (xs.length + buf.length > size)) && !buf.isEmpty) = false := by
      simpa using hfl
    simp only [hfl', Bool.false_eq_true, if_false] at he
    by_cases hov : xs.length ≥ size
    · simp only [hov, if_true, List.mem_append, List.mem_singleton] at he
      rcases he with he | he
      · exact absurd he hnew
      · subst he; exact Or.inl hov
    · simp only [hov, if_false] at he
      by_cases hlt : (buf ++ xs).length < size
      · simp only [hlt, if_true] at he; exact absurd he hnew
      · simp only [hlt, if_false] at he
        by_cases hem : buf ++ xs = []
        · simp only [hem, if_true] at he; exact absurd he hnew
        · simp only [hem, if_false, List.mem_append, List.mem_singleton] at he
          rcases he with he | he
          · exact absurd he hnew
          · subst he; exact Or.inl (by omega)

/-- non-vacuity: JoinSize 4, slices of 2, 1, 3 (does not fit), 5 (oversized), 1 -/
example : uniteFold 4 [[1, 2], [3], [4, 5, 6], [7, 8, 9, 10, 11], [12]] =
    ([[1, 2, 3], [4, 5, 6], [7, 8, 9, 10, 11]], [12]) := by decide

end Cqos.C09
