import Cqos.Props.C07t
import Cqos.Props.C01s
/-
  The eventuality of C06 for the simplified v2 discipline (`priority/simple`): the handlers are
  part of the system, so nothing is left to an environment — from every state the layered machine
  (Cqos/Simple.lean) can reach, every item still waiting in a registered, undrained input gets
  `Handle` called for it by a continuation made of the inner discipline's own steps and of the
  handlers' steps (`take`: receive an item and call `Handle`; `finish`: `Handle` returns, release).
  (`c06_simple_every_item_handled`; with C02's `c02_simple_v2` — `Handle` is called for exactly the
  delivered items, once each, in order — this is "every item written is handled exactly once,
  eventually", up to fairness of the Go scheduler.)

  Proof: `c06_every_item` gives a continuation of the inner machine made of releases and own
  steps; every `release r` in it is realised by the handlers: per priority, what is in flight is
  what the handlers are handling plus what was delivered and not yet picked up (`PAcc`), so some
  handler holds an item of priority `r` after finitely many `take`s.
-/
namespace Cqos.C06
open Cqos.C01 Cqos.C07

/-- what a non-release step does to the in-flight table and the deliveries (v2) -/
theorem step_inflight (div : DivFn) (s s' : St) (a : Act) (hv : s.cfg.v1 = false) (hnr : isRelease a = false)
    (hs : step div s a = some s') :
    (s'.inflight = s.inflight ∧ s'.delivered = s.delivered) ∨
    (∃ p c x, s'.inflight = s.inflight.add p 1 ∧ s'.delivered = s.delivered ++ [(p, c, x)]) := by
  have hd : ∀ (t : St) (p : Nat), (decActual t p).inflight = t.inflight ∧ (decActual t p).delivered = t.delivered := by
    intro t p; unfold decActual; split <;> exact ⟨rfl, rfl⟩
  cases a with
  | top c => obtain ⟨_, _, hv'⟩ := step_top hs; rw [hv] at hv'; cases hv'
  | arrive c x => obtain ⟨_, _, _, rfl⟩ := step_arrive hs; exact Or.inl ⟨rfl, rfl⟩
  | close c => obtain ⟨_, _, rfl⟩ := step_close hs; exact Or.inl ⟨rfl, rfl⟩
  | release p => simp [isRelease] at hnr
  | stop => obtain ⟨hv', _⟩ := step_stop hs; rw [hv] at hv'; cases hv'
  | graceful => obtain ⟨hv', _⟩ := step_graceful hs; rw [hv] at hv'; cases hv'
  | stopSeen => obtain ⟨hv', _⟩ := step_stopSeen hs; rw [hv] at hv'; cases hv'
  | «calc» =>
    obtain ⟨_, rfl⟩ := step_calc hs
    exact Or.inl ⟨(stepCalc_more div s).2, (stepCalc_more div s).1⟩
  | recalc =>
    obtain ⟨_, rfl⟩ := step_recalc hs
    exact Or.inl ⟨(stepRecalc_more div s).2, (stepRecalc_more div s).1⟩
  | endRound =>
    obtain ⟨ph, _, _, hc⟩ := step_endRound hs
    rcases hc with ⟨_, _, _, rfl⟩ | ⟨_, rfl⟩ <;> exact Or.inl ⟨rfl, rfl⟩
  | limitedStop => obtain ⟨k, _, rfl⟩ := step_limitedStop hs; exact Or.inl ⟨rfl, rfl⟩
  | exit => obtain ⟨e, _, _, rfl⟩ := step_exit hs; exact Or.inl ⟨rfl, rfl⟩
  | consume p =>
    obtain ⟨_, hc⟩ := step_consume hs
    have b := hd { s with pending := s.pending.erase p } p
    rcases hc with ⟨_, rfl⟩ | ⟨k, _, _, rfl⟩ | ⟨e, _, _, rfl⟩
    · split
      · exact Or.inl b
      · unfold afterWaitFb; split <;> exact Or.inl b
    · split <;> exact Or.inl b
    · exact Or.inl b
  | skip =>
    obtain ⟨ph, p, rest, _, hp⟩ := step_poll_pc (Or.inr (Or.inr (Or.inr (Or.inr rfl)))) hs
    obtain ⟨rfl, _⟩ := stepPoll_skip hp; exact Or.inl ⟨rfl, rfl⟩
  | pollEmpty =>
    obtain ⟨ph, p, rest, _, hp⟩ := step_poll_pc (Or.inr (Or.inr (Or.inr (Or.inl rfl)))) hs
    have := stepPoll_empty hp; subst this; exact Or.inl ⟨rfl, rfl⟩
  | pollClosed =>
    obtain ⟨ph, p, rest, _, hp⟩ := step_poll_pc (Or.inr (Or.inr (Or.inl rfl))) hs
    obtain ⟨inp, ch, _, _, _, _, rfl⟩ := stepPoll_closed hp; exact Or.inl ⟨rfl, rfl⟩
  | pollItem =>
    obtain ⟨ph, p, rest, _, hp⟩ := step_poll_pc (Or.inl rfl) hs
    obtain ⟨inp, ch, x, q, _, _, _, _, _, rfl⟩ := stepPoll_item hp
    exact Or.inr ⟨p, inp.chan, x, rfl, rfl⟩
  | pollDrop =>
    obtain ⟨ph, p, rest, _, hp⟩ := step_poll_pc (Or.inr (Or.inl rfl)) hs
    obtain ⟨_, _, _, _, hv', _⟩ := stepPoll_drop hp; rw [hv] at hv'; cases hv'

/-- priorities of the items delivered and not yet picked up by a handler -/
def unpicked (s : SimpleSt) : List Nat := (s.inner.delivered.drop s.picked).map (·.1)

/-- per priority: in flight = being handled + delivered and not yet picked up -/
def PAcc (s : SimpleSt) : Prop :=
  s.picked ≤ s.inner.delivered.length ∧ ∀ r, s.inner.inflight.get r = (unpicked s).count r + s.handling.count r

theorem pacc_sstep (div : DivFn) (s s' : SimpleSt) (a : SAct) (hv : s.inner.cfg.v1 = false) (h : PAcc s)
    (hs : sstep div s a = some s') : PAcc s' := by
  obtain ⟨hle, hacc⟩ := h
  cases a with
  | inner a =>
    simp only [sstep] at hs
    split at hs
    · cases hs
    · rename_i hnr
      cases hi : step div s.inner a with
      | none => simp [hi] at hs
      | some i =>
        simp only [hi, Option.map_some, Option.some.injEq] at hs
        subst hs
        rcases step_inflight div s.inner i a hv (by simpa using hnr) hi with ⟨e1, e2⟩ | ⟨p, c, x, e1, e2⟩
        · refine ⟨by show s.picked ≤ i.delivered.length; rw [e2]; exact hle, ?_⟩
          intro r
          show i.inflight.get r = ((i.delivered.drop s.picked).map (·.1)).count r + s.handling.count r
          rw [e1, e2]; exact hacc r
        · refine ⟨by show s.picked ≤ i.delivered.length; rw [e2]; simp; omega, ?_⟩
          intro r
          show i.inflight.get r = ((i.delivered.drop s.picked).map (·.1)).count r + s.handling.count r
          rw [e1, e2, List.drop_append_of_le_length hle, List.map_append, List.count_append, Dist.get_add]
          have := hacc r
          unfold unpicked at this
          by_cases hpr : p = r
          · subst hpr
            have e : (List.map (fun x => x.1) [(p, c, x)]).count p = 1 := by simp
            rw [if_pos rfl, e]; omega
          · have e : (List.map (fun x => x.1) [(p, c, x)]).count r = 0 := by
              simp only [List.map_cons, List.map_nil]
              exact List.count_eq_zero.2 (by simp; exact fun h => hpr h.symm)
            rw [if_neg hpr, e]; omega
  | take =>
    simp only [sstep] at hs
    split at hs
    · rename_i d hd
      cases hs
      have hlt : s.picked < s.inner.delivered.length := (List.getElem?_eq_some_iff.mp hd).1
      have hd' : s.inner.delivered[s.picked] = d := (List.getElem?_eq_some_iff.mp hd).2
      refine ⟨by show s.picked + 1 ≤ s.inner.delivered.length; omega, ?_⟩
      intro r
      show s.inner.inflight.get r = ((s.inner.delivered.drop (s.picked + 1)).map (·.1)).count r + (d.1 :: s.handling).count r
      have := hacc r
      unfold unpicked at this
      rw [List.drop_eq_getElem_cons hlt, hd'] at this
      simp only [List.map_cons, List.count_cons] at this ⊢
      omega
    · cases hs
  | finish p =>
    simp only [sstep] at hs
    split at hs
    · rename_i hmem
      cases hi : step div s.inner (.release p) with
      | none => simp [hi] at hs
      | some i =>
        simp only [hi, Option.map_some, Option.some.injEq] at hs
        subst hs
        obtain ⟨hne, rfl⟩ := step_release hi
        refine ⟨hle, ?_⟩
        intro r
        show (s.inner.inflight.set p (s.inner.inflight.get p - 1)).get r =
          ((s.inner.delivered.drop s.picked).map (·.1)).count r + (s.handling.erase p).count r
        have := hacc r
        unfold unpicked at this
        rw [Dist.get_set]
        by_cases hpr : p = r
        · subst hpr
          simp only [if_true]
          rw [List.count_erase_self]
          have hc : 0 < s.handling.count p := List.count_pos_iff.2 hmem
          omega
        · simp only [hpr, if_false]
          rw [List.count_erase_of_ne (fun e => hpr e.symm)]
          exact this
    · cases hs

theorem srun_append (div : DivFn) : ∀ (l1 l2 : List SAct) (u u1 u2 : SimpleSt), srun div u l1 = some u1 →
    srun div u1 l2 = some u2 → srun div u (l1 ++ l2) = some u2 := by
  intro l1
  induction l1 with
  | nil => intro l2 u u1 u2 e1 e2; simp [srun] at e1; subst e1; simpa using e2
  | cons a l1 ihl =>
    intro l2 u u1 u2 e1 e2
    simp only [srun, List.cons_append] at e1 ⊢
    split at e1
    · rename_i w hw; exact ihl l2 w u1 u2 e1 e2
    · cases e1

theorem sstep_cfg (div : DivFn) (s s' : SimpleSt) (a : SAct) (hv : s.inner.cfg.v1 = false)
    (hs : sstep div s a = some s') : s'.inner.cfg.v1 = false := by
  cases a with
  | inner a =>
    simp only [sstep] at hs
    split at hs
    · cases hs
    · cases hi : step div s.inner a with
      | none => simp [hi] at hs
      | some i =>
        simp only [hi, Option.map_some, Option.some.injEq] at hs
        subst hs
        show i.cfg.v1 = false
        rw [(v2_static_step div s.inner i a hv hi).2.2.1]; exact hv
  | take =>
    simp only [sstep] at hs
    split at hs
    · cases hs; exact hv
    · cases hs
  | finish p =>
    simp only [sstep] at hs
    split at hs
    · cases hi : step div s.inner (.release p) with
      | none => simp [hi] at hs
      | some i =>
        simp only [hi, Option.map_some, Option.some.injEq] at hs
        subst hs
        show i.cfg.v1 = false
        rw [(v2_static_step div s.inner i _ hv hi).2.2.1]; exact hv
    · cases hs

theorem pacc_run (div : DivFn) : ∀ (acts : List SAct) (u u' : SimpleSt), u.inner.cfg.v1 = false → PAcc u →
    srun div u acts = some u' → PAcc u' ∧ u'.inner.cfg.v1 = false := by
  intro acts
  induction acts with
  | nil => intro u u' hv h hr; simp [srun] at hr; subst hr; exact ⟨h, hv⟩
  | cons a as ih =>
    intro u u' hv h hr
    simp only [srun] at hr
    split at hr
    · rename_i u1 hu1
      exact ih u1 u' (sstep_cfg div u u1 a hv hu1) (pacc_sstep div u u1 a hv h hu1) hr
    · cases hr

/-- the handlers pick up delivered items until one of them holds an item of priority `r` -/
theorem take_until (div : DivFn) (r : Nat) : ∀ (k : Nat) (u : SimpleSt), (unpicked u).length ≤ k →
    u.picked ≤ u.inner.delivered.length → (r ∈ unpicked u ∨ r ∈ u.handling) →
    ∃ sacts u', srun div u sacts = some u' ∧ u'.inner = u.inner ∧ r ∈ u'.handling ∧
      (∀ a ∈ sacts, a = .take) ∧ (∃ hl, u'.handled = u.handled ++ hl) := by
  intro k
  induction k with
  | zero =>
    intro u hk hle hr
    have hnil : unpicked u = [] := List.eq_nil_of_length_eq_zero (by omega)
    rcases hr with h | h
    · rw [hnil] at h; cases h
    · exact ⟨[], u, rfl, rfl, h, (fun _ h => by cases h), [], by simp⟩
  | succ k ih =>
    intro u hk hle hr
    by_cases hh : r ∈ u.handling
    · exact ⟨[], u, rfl, rfl, hh, (fun _ h => by cases h), [], by simp⟩
    · have hin : r ∈ unpicked u := by
        rcases hr with h | h
        · exact h
        · exact absurd h hh
      -- something is waiting to be picked up
      have hlt : u.picked < u.inner.delivered.length := by
        unfold unpicked at hin
        have : 0 < ((u.inner.delivered.drop u.picked).map (·.1)).length := List.length_pos_of_mem hin
        simp only [List.length_map, List.length_drop] at this
        omega
      let d := u.inner.delivered[u.picked]
      have hd : u.inner.delivered[u.picked]? = some d := List.getElem?_eq_getElem hlt
      let u1 : SimpleSt := { u with handling := d.1 :: u.handling, picked := u.picked + 1, handled := u.handled ++ [d] }
      have hstep : sstep div u .take = some u1 := by simp [sstep, hd, u1]
      have hun : unpicked u = d.1 :: unpicked u1 := by
        unfold unpicked
        show (u.inner.delivered.drop u.picked).map (·.1) = d.1 :: (u.inner.delivered.drop (u.picked + 1)).map (·.1)
        rw [List.drop_eq_getElem_cons hlt]; rfl
      have hk1 : (unpicked u1).length ≤ k := by
        have := congrArg List.length hun
        simp only [List.length_cons] at this
        omega
      have hr1 : r ∈ unpicked u1 ∨ r ∈ u1.handling := by
        rw [hun] at hin
        simp only [List.mem_cons] at hin
        rcases hin with e | e
        · right; show r ∈ d.1 :: u.handling; rw [e]; simp
        · left; exact e
      obtain ⟨sacts, u', hr', hi', hm', ht', hl, hhl⟩ := ih u1 hk1 (by show u.picked + 1 ≤ u.inner.delivered.length; omega) hr1
      refine ⟨.take :: sacts, u', by simp [srun, hstep, hr'], hi', hm', ?_, d :: hl, ?_⟩
      · intro a ha
        simp only [List.mem_cons] at ha
        rcases ha with e | e
        · exact e
        · exact ht' a e
      · rw [hhl]; show u.handled ++ [d] ++ hl = u.handled ++ d :: hl; simp

/-- steps of the layered machine that are not the environment's: inner own actions, `take`, `finish` -/
def sOwn : SAct → Bool
  | .inner a => isOwn a
  | _ => true

/-- a continuation of the inner machine made of releases and own steps is realised by the layered
    machine, the handlers issuing the releases -/
theorem lift_run (div : DivFn) : ∀ (acts : List Act) (u : SimpleSt) (s' : St), u.inner.cfg.v1 = false → PAcc u →
    (∀ a ∈ acts, isOwn a = true ∨ ∃ r, a = .release r) → run div u.inner acts = some s' →
    ∃ sacts u', srun div u sacts = some u' ∧ u'.inner = s' ∧ PAcc u' ∧ (∀ a ∈ sacts, sOwn a = true) ∧
      (∃ hl, u'.handled = u.handled ++ hl) := by
  intro acts
  induction acts with
  | nil =>
    intro u s' _ h _ hr
    simp [run] at hr
    exact ⟨[], u, rfl, hr, h, (fun _ h => by cases h), [], by simp⟩
  | cons a as ih =>
    intro u s' hv h hok hr
    simp only [run] at hr
    split at hr
    · rename_i s1 hs1
      have hoka := hok a (List.mem_cons_self ..)
      have hokas : ∀ b ∈ as, isOwn b = true ∨ ∃ r, b = .release r := fun b hb => hok b (List.mem_cons_of_mem _ hb)
      by_cases hrel : isRelease a = true
      · -- a release: some handler finishes an item of that priority
        cases a with
        | release r =>
          obtain ⟨hne, _⟩ := step_release hs1
          have hcnt := h.2 r
          have hpos : r ∈ unpicked u ∨ r ∈ u.handling := by
            by_cases h1 : r ∈ unpicked u
            · exact Or.inl h1
            · right
              have : (unpicked u).count r = 0 := List.count_eq_zero.2 h1
              have : 0 < u.handling.count r := by omega
              exact List.count_pos_iff.1 this
          obtain ⟨t, u1, hr1, hi1, hm1, ht1, hl1, hhl1⟩ := take_until div r (unpicked u).length u (Nat.le_refl _) h.1 hpos
          obtain ⟨p1, hv1⟩ := pacc_run div t u u1 hv h hr1
          let u2 : SimpleSt := { u1 with inner := s1, handling := u1.handling.erase r }
          have hstep : sstep div u1 (.finish r) = some u2 := by
            simp only [sstep, hm1, if_true, hi1, hs1, Option.map_some, u2]
          have p2 : PAcc u2 := pacc_sstep div u1 u2 (.finish r) hv1 p1 hstep
          have hv2 : u2.inner.cfg.v1 = false := sstep_cfg div u1 u2 (.finish r) hv1 hstep
          obtain ⟨sa, u', hr', hi', hp', ho', hl', hhl'⟩ := ih u2 s' hv2 p2 hokas hr
          refine ⟨t ++ (.finish r :: sa), u', srun_append div t _ u u1 u' hr1 (by simp [srun, hstep, hr']), hi', hp', ?_, hl1 ++ hl', ?_⟩
          · intro b hb
            rcases List.mem_append.1 hb with e | e
            · rw [ht1 b e]; rfl
            · simp only [List.mem_cons] at e
              rcases e with e | e
              · subst e; rfl
              · exact ho' b e
          · rw [hhl']; show u1.handled ++ hl' = u.handled ++ (hl1 ++ hl'); rw [hhl1, List.append_assoc]
        | _ => simp [isRelease] at hrel
      · have hnr : isRelease a = false := by simpa using hrel
        have hown : isOwn a = true := by
          rcases hoka with e | ⟨r, e⟩
          · exact e
          · subst e; simp [isRelease] at hnr
        let u1 : SimpleSt := { u with inner := s1 }
        have hstep : sstep div u (.inner a) = some u1 := by simp [sstep, hnr, hs1, u1]
        have p1 : PAcc u1 := pacc_sstep div u u1 (.inner a) hv h hstep
        have hv1 : u1.inner.cfg.v1 = false := sstep_cfg div u u1 (.inner a) hv hstep
        obtain ⟨sa, u', hr', hi', hp', ho', hl', hhl'⟩ := ih u1 s' hv1 p1 hokas hr
        refine ⟨.inner a :: sa, u', by simp [srun, hstep, hr'], hi', hp', ?_, hl', hhl'⟩
        intro b hb
        simp only [List.mem_cons] at hb
        rcases hb with e | e
        · subst e; exact hown
        · exact ho' b e
    · cases hr

/-- the handlers pick up everything that has been delivered -/
theorem take_all (div : DivFn) : ∀ (k : Nat) (u : SimpleSt), u.inner.delivered.length - u.picked ≤ k →
    ∃ sacts u', srun div u sacts = some u' ∧ u'.inner = u.inner ∧ u.inner.delivered.length ≤ u'.picked ∧
      (∀ a ∈ sacts, a = .take) := by
  intro k
  induction k with
  | zero => intro u hk; exact ⟨[], u, rfl, rfl, by omega, fun _ h => by cases h⟩
  | succ k ih =>
    intro u hk
    by_cases hlt : u.picked < u.inner.delivered.length
    · let d := u.inner.delivered[u.picked]
      have hd : u.inner.delivered[u.picked]? = some d := List.getElem?_eq_getElem hlt
      let u1 : SimpleSt := { u with handling := d.1 :: u.handling, picked := u.picked + 1, handled := u.handled ++ [d] }
      have hstep : sstep div u .take = some u1 := by simp [sstep, hd, u1]
      obtain ⟨sa, u', hr', hi', hp', ht'⟩ := ih u1 (by show u.inner.delivered.length - (u.picked + 1) ≤ k; omega)
      refine ⟨.take :: sa, u', by simp [srun, hstep, hr'], hi', hp', ?_⟩
      intro a ha
      simp only [List.mem_cons] at ha
      rcases ha with e | e
      · exact e
      · exact ht' a e
    · exact ⟨[], u, rfl, rfl, by omega, fun _ h => by cases h⟩

/-- **C06 + C02 for the simplified v2 discipline (every item is handled).** After ANY run of the
    layered machine (v2 discipline + its handlers; divider obeying the sum rule): every item still
    queued in the channel of a registered, undrained priority gets `Handle` called for it by a
    continuation in which nothing is left to an environment — only the discipline's own steps and the
    handlers' `take` / `finish` steps occur. -/
theorem c06_simple_every_item_handled (div : DivFn) (hg : SumRule div) (keys : List (Nat × Bool)) (H : Nat) (hH : 0 < H)
    (hnd : (keys.map (·.1)).Nodup) (s0 : St) (h0 : initV2 div keys H = .ok s0)
    (hsum : sumOver s0.prios s0.strategic = H) (sacts : List SAct) (u : SimpleSt)
    (hr : srun div (sinit s0) sacts = some u)
    (p : Nat) (inp : Input) (hin : alGet u.inner.inputs p = some inp) (hud : inp.drained = false)
    (ch : Chan) (pre : List Nat) (x : Nat) (post : List Nat)
    (hch : alGet u.inner.chans inp.chan = some ch) (hq : ch.queue = pre ++ x :: post) :
    ∃ sacts' u', srun div u sacts' = some u' ∧ (∀ a ∈ sacts', sOwn a = true) ∧
      ∃ hl, u'.handled = u.handled ++ hl ∧ (p, inp.chan, x) ∈ hl := by
  obtain ⟨hf, _⟩ := initV2_fresh div keys H s0 h0
  have hv0 : s0.cfg.v1 = false := (initV2_fill div keys H s0 h0).2.1
  have hd0 : s0.delivered = [] := by unfold initV2 at h0; split at h0; cases h0; cases h0; rfl
  -- invariants of the layered machine
  have hp0 : PAcc (sinit s0) := by
    refine ⟨by simp [sinit], ?_⟩
    intro r
    show s0.inflight.get r = ((s0.delivered.drop s0.delivered.length).map (·.1)).count r + ([] : List Nat).count r
    rw [hf.2.1]; simp
  obtain ⟨hpu, hvu⟩ := pacc_run div sacts (sinit s0) u hv0 hp0 hr
  have hsi : SInv s0.delivered.length u := srun_sinv div s0.delivered.length sacts (sinit s0) u ⟨by simp [sinit], by
      show s0.inflight.total = (s0.delivered.length - s0.delivered.length) + 0
      rw [hf.2.1]; simp [Dist.total], ⟨Nat.le_refl _, by simp [sinit]⟩⟩ hr
  -- the inner continuation
  have hrun := srun_run div sacts (sinit s0) u hr
  obtain ⟨acts', s', hr', ⟨dl, hdl, hmem⟩, hok⟩ :=
    c06_every_item div hg keys H hH hnd s0 u.inner (innerActs sacts) h0 hsum hrun p inp hin hud ch pre x post hch hq
  obtain ⟨sa1, u1, hr1, hi1, hp1, ho1, hl1, hhl1⟩ := lift_run div acts' u s' hvu hpu hok hr'
  -- the handlers pick up everything delivered
  obtain ⟨sa2, u2, hr2, hi2, hpk2, ht2⟩ := take_all div (u1.inner.delivered.length - u1.picked) u1 (Nat.le_refl _)
  have hr12 : srun div u (sa1 ++ sa2) = some u2 := srun_append div sa1 sa2 u u1 u2 hr1 hr2
  have hr02 : srun div (sinit s0) (sacts ++ (sa1 ++ sa2)) = some u2 := srun_append div sacts _ _ u u2 hr hr12
  have hsi2 : SInv s0.delivered.length u2 := srun_sinv div s0.delivered.length _ (sinit s0) u2 ⟨by simp [sinit], by
      show s0.inflight.total = (s0.delivered.length - s0.delivered.length) + 0
      rw [hf.2.1]; simp [Dist.total], ⟨Nat.le_refl _, by simp [sinit]⟩⟩ hr02
  refine ⟨sa1 ++ sa2, u2, hr12, ?_, ?_⟩
  · intro a ha
    rcases List.mem_append.1 ha with e | e
    · exact ho1 a e
    · rw [ht2 a e]; rfl
  · -- handled = everything delivered (after what had been delivered before the handlers started: nothing)
    have hb2 := hsi2.handledOK.2
    have hb := hsi.handledOK.2
    rw [hd0] at hb2 hb
    simp only [List.length_nil, List.drop_zero] at hb2 hb
    have hdel2 : u2.inner.delivered = u.inner.delivered ++ dl := by rw [hi2, hi1]; exact hdl
    have hpk : u2.picked = u2.inner.delivered.length := by
      have := hsi2.picked_le
      rw [hi2] at this ⊢
      omega
    have h2 : u2.handled = u.inner.delivered ++ dl := by rw [hb2, hpk, List.take_length, hdel2]
    have hle := hsi.picked_le
    refine ⟨u.inner.delivered.drop u.picked ++ dl, ?_, List.mem_append_right _ hmem⟩
    rw [h2, hb, ← List.append_assoc, List.take_append_drop]

end Cqos.C06
