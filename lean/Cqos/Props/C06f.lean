import Cqos.Props.C06e
/-
  Property C06, first clause, for EVERY waiting item (not only the one at the head of its
  channel): after any run of a v2 discipline, every item that is still queued in the channel of
  a registered, undrained priority `p` is delivered — under priority `p` — by some continuation
  made only of handlers' releases and of the discipline's own steps (`c06_every_item_deliverable`).

  By induction on the number of items queued ahead of it: `c06_deliverable` delivers the head;
  what the channel holds afterwards is read off the history invariant of C02 (received ++ queued =
  written, delivered = received in v2), because the continuation contains no arrival.
-/
namespace Cqos.C06
open Cqos.C02

/-- what a step does to the two histories -/
theorem step_effect (div : DivFn) (s s' : St) (a : Act) (hv : s.cfg.v1 = false) (hs : step div s a = some s') :
    (s'.arrived = s.arrived ∨ ∃ c x, a = .arrive c x) ∧
    (s'.delivered = s.delivered ∨
      ∃ p inp x, alGet s.inputs p = some inp ∧ s'.delivered = s.delivered ++ [(p, inp.chan, x)]) := by
  have same : ∀ u : St, u.arrived = s.arrived → u.delivered = s.delivered →
      (u.arrived = s.arrived ∨ ∃ c x, a = .arrive c x) ∧
      (u.delivered = s.delivered ∨
        ∃ p inp x, alGet s.inputs p = some inp ∧ u.delivered = s.delivered ++ [(p, inp.chan, x)]) :=
    fun u h1 h2 => ⟨Or.inl h1, Or.inl h2⟩
  have hd : ∀ (t : St) (p : Nat), (decActual t p).arrived = t.arrived ∧ (decActual t p).delivered = t.delivered := by
    intro t p; unfold decActual; split <;> exact ⟨rfl, rfl⟩
  cases a with
  | top c => obtain ⟨_, _, hv'⟩ := step_top hs; rw [hv] at hv'; cases hv'
  | arrive c x => obtain ⟨_, _, _, rfl⟩ := step_arrive hs; exact ⟨Or.inr ⟨c, x, rfl⟩, Or.inl rfl⟩
  | close c => obtain ⟨_, _, rfl⟩ := step_close hs; exact same _ rfl rfl
  | release p => obtain ⟨_, rfl⟩ := step_release hs; exact same _ rfl rfl
  | stop => obtain ⟨hv', _⟩ := step_stop hs; rw [hv] at hv'; cases hv'
  | graceful => obtain ⟨hv', _⟩ := step_graceful hs; rw [hv] at hv'; cases hv'
  | stopSeen => obtain ⟨hv', _⟩ := step_stopSeen hs; rw [hv] at hv'; cases hv'
  | «calc» =>
    obtain ⟨_, rfl⟩ := step_calc hs
    exact same _ (same_stepCalc div s).arrived (same_stepCalc div s).delivered
  | recalc =>
    obtain ⟨_, rfl⟩ := step_recalc hs
    exact same _ (same_stepRecalc div s).arrived (same_stepRecalc div s).delivered
  | endRound =>
    obtain ⟨ph, _, _, hc⟩ := step_endRound hs
    rcases hc with ⟨_, _, _, rfl⟩ | ⟨_, rfl⟩ <;> exact same _ rfl rfl
  | limitedStop => obtain ⟨k, _, rfl⟩ := step_limitedStop hs; exact same _ rfl rfl
  | exit => obtain ⟨e, _, _, rfl⟩ := step_exit hs; exact same _ rfl rfl
  | consume p =>
    obtain ⟨_, hc⟩ := step_consume hs
    have b := hd { s with pending := s.pending.erase p } p
    rcases hc with ⟨_, rfl⟩ | ⟨k, _, _, rfl⟩ | ⟨e, _, _, rfl⟩
    · split
      · exact same _ b.1 b.2
      · unfold afterWaitFb; split <;> exact same _ b.1 b.2
    · split <;> exact same _ b.1 b.2
    · exact same _ b.1 b.2
  | skip =>
    obtain ⟨ph, p, rest, _, hp⟩ := step_poll_pc (Or.inr (Or.inr (Or.inr (Or.inr rfl)))) hs
    obtain ⟨rfl, _⟩ := stepPoll_skip hp; exact same _ rfl rfl
  | pollEmpty =>
    obtain ⟨ph, p, rest, _, hp⟩ := step_poll_pc (Or.inr (Or.inr (Or.inr (Or.inl rfl)))) hs
    have := stepPoll_empty hp; subst this; exact same _ rfl rfl
  | pollClosed =>
    obtain ⟨ph, p, rest, _, hp⟩ := step_poll_pc (Or.inr (Or.inr (Or.inl rfl))) hs
    obtain ⟨inp, ch, _, _, _, _, rfl⟩ := stepPoll_closed hp; exact same _ rfl rfl
  | pollItem =>
    obtain ⟨ph, p, rest, _, hp⟩ := step_poll_pc (Or.inl rfl) hs
    obtain ⟨inp, ch, x, q, hin, _, _, _, _, rfl⟩ := stepPoll_item hp
    exact ⟨Or.inl rfl, Or.inr ⟨p, inp, x, hin, rfl⟩⟩
  | pollDrop =>
    obtain ⟨ph, p, rest, _, hp⟩ := step_poll_pc (Or.inr (Or.inl rfl)) hs
    obtain ⟨_, _, _, _, hv', _⟩ := stepPoll_drop hp; rw [hv] at hv'; cases hv'

/-- a continuation of releases and own steps writes nothing to the inputs -/
theorem arrived_run (div : DivFn) : ∀ (acts : List Act) (u u' : St), u.cfg.v1 = false →
    (∀ a ∈ acts, isOwn a = true ∨ ∃ r, a = .release r) → run div u acts = some u' → u'.arrived = u.arrived := by
  intro acts
  induction acts with
  | nil => intro u u' _ _ hr; simp [run] at hr; subst hr; rfl
  | cons a as ih =>
    intro u u' hv hok hr
    simp only [run] at hr
    split at hr
    · rename_i u1 hu1
      have hc := (C07.v2_static_step div u u1 a hv hu1).2.2.1
      have h1 : u1.arrived = u.arrived := by
        rcases (step_effect div u u1 a hv hu1).1 with e | ⟨c, x, e⟩
        · exact e
        · subst e
          rcases hok _ (List.mem_cons_self ..) with h | ⟨r, h⟩
          · simp [isOwn] at h
          · cases h
      rw [ih u1 u' (by rw [hc]; exact hv) (fun b hb => hok b (List.mem_cons_of_mem _ hb)) hr, h1]
    · cases hr

/-- in v2 an item is delivered under the priority whose channel it came from (channel id = priority) -/
def TagOK (s : St) : Prop := ∀ e ∈ s.delivered, e.2.1 = e.1

theorem tag_run (div : DivFn) : ∀ (acts : List Act) (u u' : St), u.cfg.v1 = false →
    (∀ p inp, alGet u.inputs p = some inp → inp.chan = p) → TagOK u → run div u acts = some u' → TagOK u' := by
  intro acts
  induction acts with
  | nil => intro u u' _ _ h hr; simp [run] at hr; subst hr; exact h
  | cons a as ih =>
    intro u u' hv hown h hr
    simp only [run] at hr
    split at hr
    · rename_i u1 hu1
      have hc := (C07.v2_static_step div u u1 a hv hu1).2.2.1
      have hown1 : ∀ p inp, alGet u1.inputs p = some inp → inp.chan = p := by
        intro p inp hp
        obtain ⟨inp0, h1, h2⟩ := v2_inputs_chan_step div u u1 a hv hu1 p inp hp
        rw [← h2]; exact hown p inp0 h1
      have h1 : TagOK u1 := by
        rcases (step_effect div u u1 a hv hu1).2 with e | ⟨p, inp, x, hin, e⟩
        · intro d hd; rw [e] at hd; exact h d hd
        · intro d hd
          rw [e] at hd
          rcases List.mem_append.1 hd with hd | hd
          · exact h d hd
          · simp only [List.mem_singleton] at hd
            subst hd
            exact hown p inp hin
      exact ih u1 u' (by rw [hc]; exact hv) hown1 h1 hr
    · cases hr

theorem chanItems_app (l1 l2 : List (Nat × Nat)) (c : Nat) :
    chanItems (l1 ++ l2) c = chanItems l1 c ++ chanItems l2 c := by
  unfold chanItems
  rw [List.filter_append, List.map_append]

theorem mem_chanItems {l : List (Nat × Nat)} {c x : Nat} : x ∈ chanItems l c ↔ (c, x) ∈ l := by
  unfold chanItems
  simp only [List.mem_map, List.mem_filter, beq_iff_eq]
  constructor
  · rintro ⟨e, ⟨he, hc⟩, hx⟩
    obtain ⟨e1, e2⟩ := e
    simp only at hc hx
    subst hc; subst hx; exact he
  · intro h; exact ⟨(c, x), ⟨h, rfl⟩, rfl⟩

/-- **C06 (every waiting item).** After ANY run of a v2 discipline with a divider obeying the sum
    rule: every item `x` still queued — at whatever position — in the channel of a registered,
    undrained priority `p` is delivered under `p` by some continuation that consists only of
    handlers releasing items and of the discipline's own steps. -/
theorem c06_every_item_deliverable (div : DivFn) (hg : SumRule div) (keys : List (Nat × Bool)) (H : Nat) (hH : 0 < H)
    (hnd : (keys.map (·.1)).Nodup) (s0 : St) (h0 : initV2 div keys H = .ok s0)
    (hsum : sumOver s0.prios s0.strategic = H) (p x : Nat) (post : List Nat) :
    ∀ (n : Nat) (pre : List Nat), pre.length ≤ n → ∀ (s : St) (acts : List Act), run div s0 acts = some s →
      ∀ (inp : Input) (ch : Chan), alGet s.inputs p = some inp → inp.drained = false →
        alGet s.chans inp.chan = some ch → ch.queue = pre ++ x :: post →
        ∃ acts' s', run div s acts' = some s' ∧
          (∃ dl, s'.delivered = s.delivered ++ dl ∧ (p, inp.chan, x) ∈ dl) ∧
          (∀ a ∈ acts', isOwn a = true ∨ ∃ r, a = .release r) := by
  intro n
  induction n with
  | zero =>
    intro pre hn s acts hr inp ch hin hud hch hq
    have : pre = [] := List.eq_nil_of_length_eq_zero (by omega)
    subst this
    exact c06_deliverable div hg keys H hH hnd s0 s acts h0 hsum hr p inp hin hud ch x post hch (by simpa using hq)
  | succ n ih =>
    intro pre hn s acts hr inp ch hin hud hch hq
    cases pre with
    | nil =>
      exact c06_deliverable div hg keys H hH hnd s0 s acts h0 hsum hr p inp hin hud ch x post hch (by simpa using hq)
    | cons y pre' =>
      -- deliver the head `y`
      obtain ⟨acts1, s1, hr1, ⟨dl1, hdl1, hy⟩, hok1⟩ :=
        c06_deliverable div hg keys H hH hnd s0 s acts h0 hsum hr p inp hin hud ch y (pre' ++ x :: post) hch (by simpa using hq)
      have hr01 : run div s0 (acts ++ acts1) = some s1 := run_append div acts acts1 s0 s s1 hr hr1
      have F := facts div hg keys H hH hnd s0 s acts h0 hsum hr
      have F1 := facts div hg keys H hH hnd s0 s1 (acts ++ acts1) h0 hsum hr01
      have hc : inp.chan = p := F.own p inp hin
      -- the histories
      have hp0 := initV2_pristine div keys H s0 h0
      have hv0 : s0.cfg.v1 = false := (C07.initV2_fill div keys H s0 h0).2.1
      have hi := run_hinv div acts s0 s (pristine_hinv hp0) hr
      have hi1 := run_hinv div (acts ++ acts1) s0 s1 (pristine_hinv hp0) hr01
      have hnd0 : s.dropped = [] := c02_v2_no_drop div s0 s acts hp0 hv0 hr (by rw [F.cfg])
      have hnd1 : s1.dropped = [] := c02_v2_no_drop div s0 s1 (acts ++ acts1) hp0 hv0 hr01 (by rw [F1.cfg])
      have harr : s1.arrived = s.arrived := arrived_run div acts1 s s1 F.v2 hok1 hr1
      have htk : s1.taken = s.taken ++ dl1.map untag := by
        rw [← hi1.all hnd1, hdl1, List.map_append, hi.all hnd0]
      have hq0 : queueOf s p = y :: pre' ++ x :: post := by
        unfold queueOf; rw [← hc, hch]; simpa using hq
      have hfifo : chanItems (dl1.map untag) p ++ queueOf s1 p = y :: pre' ++ x :: post := by
        have e0 := hi.fifo p
        have e1 := hi1.fifo p
        rw [harr, ← e0, htk, chanItems_app, List.append_assoc, hq0] at e1
        exact List.append_cancel_left e1
      have hT : chanItems (dl1.map untag) p ≠ [] := by
        intro e
        have : y ∈ chanItems (dl1.map untag) p := by
          rw [mem_chanItems]
          exact List.mem_map.2 ⟨(p, inp.chan, y), hy, by simp [untag, hc]⟩
        rw [e] at this; cases this
      have htag : TagOK s1 := by
        have hf := C01.initV2_fresh div keys H s0 h0
        refine tag_run div (acts ++ acts1) s0 s1 hv0 ?_ ?_ hr01
        · exact v2_inputs_own_chan div keys H s0 s0 [] h0 rfl
        · intro e he; rw [hp0.2.2.1] at he; cases he
      -- where is `x` now?
      rcases List.append_eq_append_iff.1 hfifo with ⟨a', h1, h2⟩ | ⟨c', h1, h2⟩
      · -- `y :: pre' ++ x :: post = (T ++ a') ++ ...` : T is a prefix of `y :: pre'`
        -- h1 : y :: pre' = T ++ a'   h2 : queueOf s1 p = a' ++ x :: post
        have hlen : a'.length ≤ n := by
          have := congrArg List.length h1
          have hTl : 0 < (chanItems (dl1.map untag) p).length := List.length_pos_iff.2 hT
          simp only [List.length_cons, List.length_append] at this hn
          omega
        -- `p` is still registered and undrained in `s1`, its channel holds `a' ++ x :: post`
        have hmem : p ∈ s1.prios := by
          rw [F1.prios, ← F.prios]; exact (F.hwf.regs p).2 (by rw [hin]; rfl)
        have hreg := (F1.hwf.regs p).1 hmem
        cases hin1 : alGet s1.inputs p with
        | none => rw [hin1] at hreg; cases hreg
        | some inp1 =>
          have hc1 : inp1.chan = p := F1.own p inp1 hin1
          cases hch1 : alGet s1.chans p with
          | none =>
            unfold queueOf at h2; rw [hch1] at h2
            exact absurd h2.symm (by simp)
          | some ch1 =>
            have hq1 : ch1.queue = a' ++ x :: post := by
              unfold queueOf at h2; rw [hch1] at h2; exact h2
            have hud1 : inp1.drained = false := by
              cases hdr : inp1.drained with
              | false => rfl
              | true =>
                obtain ⟨chd, e1, _, e3⟩ := F1.ht.drained p inp1 hin1 hdr
                rw [hc1, hch1] at e1; cases e1
                rw [hq1] at e3
                exact absurd e3 (by simp)
            obtain ⟨acts2, s2, hr2, ⟨dl2, hdl2, hx⟩, hok2⟩ :=
              ih a' hlen s1 (acts ++ acts1) hr01 inp1 ch1 hin1 hud1 (by rw [hc1]; exact hch1) hq1
            refine ⟨acts1 ++ acts2, s2, run_append div acts1 acts2 s s1 s2 hr1 hr2,
              ⟨dl1 ++ dl2, by rw [hdl2, hdl1, List.append_assoc], ?_⟩, ?_⟩
            · rw [hc]; rw [hc1] at hx; exact List.mem_append_right _ hx
            · intro a ha
              rcases List.mem_append.1 ha with e | e
              · exact hok1 a e
              · exact hok2 a e
      · -- h1 : T = (y :: pre') ++ c'   h2 : x :: post = c' ++ queueOf s1 p
        cases c' with
        | nil =>
          -- T = y :: pre' exactly: `x` is at the head of what is left
          have h2' : queueOf s1 p = x :: post := by simpa using h2.symm
          have hmem : p ∈ s1.prios := by
            rw [F1.prios, ← F.prios]; exact (F.hwf.regs p).2 (by rw [hin]; rfl)
          have hreg := (F1.hwf.regs p).1 hmem
          cases hin1 : alGet s1.inputs p with
          | none => rw [hin1] at hreg; cases hreg
          | some inp1 =>
            have hc1 : inp1.chan = p := F1.own p inp1 hin1
            cases hch1 : alGet s1.chans p with
            | none =>
              unfold queueOf at h2'; rw [hch1] at h2'
              exact absurd h2' (by simp)
            | some ch1 =>
              have hq1 : ch1.queue = x :: post := by
                unfold queueOf at h2'; rw [hch1] at h2'; exact h2'
              have hud1 : inp1.drained = false := by
                cases hdr : inp1.drained with
                | false => rfl
                | true =>
                  obtain ⟨chd, e1, _, e3⟩ := F1.ht.drained p inp1 hin1 hdr
                  rw [hc1, hch1] at e1; cases e1
                  rw [hq1] at e3
                  exact absurd e3 (by simp)
              obtain ⟨acts2, s2, hr2, ⟨dl2, hdl2, hx⟩, hok2⟩ :=
                c06_deliverable div hg keys H hH hnd s0 s1 (acts ++ acts1) h0 hsum hr01 p inp1 hin1 hud1 ch1 x post
                  (by rw [hc1]; exact hch1) hq1
              refine ⟨acts1 ++ acts2, s2, run_append div acts1 acts2 s s1 s2 hr1 hr2,
                ⟨dl1 ++ dl2, by rw [hdl2, hdl1, List.append_assoc], ?_⟩, ?_⟩
              · rw [hc]; rw [hc1] at hx; exact List.mem_append_right _ hx
              · intro a ha
                rcases List.mem_append.1 ha with e | e
                · exact hok1 a e
                · exact hok2 a e
        | cons z c'' =>
          -- `x` itself was among the items taken from the channel of `p`: it has been delivered
          have hz : z = x := by
            have := h2; simp only [List.cons_append, List.cons.injEq] at this; exact this.1.symm
          subst hz
          have hxT : z ∈ chanItems (dl1.map untag) p := by rw [h1]; simp
          rw [mem_chanItems] at hxT
          obtain ⟨e, he, hue⟩ := List.mem_map.1 hxT
          obtain ⟨e1, e2, e3⟩ := e
          simp only [untag, Prod.mk.injEq] at hue
          obtain ⟨hue1, hue2⟩ := hue
          have hmem1 : (e1, e2, e3) ∈ s1.delivered := by rw [hdl1]; exact List.mem_append_right _ he
          have ht := htag _ hmem1
          simp only at ht
          subst hue1; subst hue2
          refine ⟨acts1, s1, hr1, ⟨dl1, hdl1, ?_⟩, hok1⟩
          rw [hc]
          rw [← ht] at he
          exact he

/-- the same, stated for a state reached by a run and an item at any position of the queue -/
theorem c06_every_item (div : DivFn) (hg : SumRule div) (keys : List (Nat × Bool)) (H : Nat) (hH : 0 < H)
    (hnd : (keys.map (·.1)).Nodup) (s0 s : St) (acts : List Act) (h0 : initV2 div keys H = .ok s0)
    (hsum : sumOver s0.prios s0.strategic = H) (hr : run div s0 acts = some s)
    (p : Nat) (inp : Input) (hin : alGet s.inputs p = some inp) (hud : inp.drained = false)
    (ch : Chan) (pre : List Nat) (x : Nat) (post : List Nat)
    (hch : alGet s.chans inp.chan = some ch) (hq : ch.queue = pre ++ x :: post) :
    ∃ acts' s', run div s acts' = some s' ∧
      (∃ dl, s'.delivered = s.delivered ++ dl ∧ (p, inp.chan, x) ∈ dl) ∧
      (∀ a ∈ acts', isOwn a = true ∨ ∃ r, a = .release r) :=
  c06_every_item_deliverable div hg keys H hH hnd s0 h0 hsum p x post pre.length pre (Nat.le_refl _) s acts hr
    inp ch hin hud hch hq

end Cqos.C06
