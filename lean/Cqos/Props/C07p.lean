import Cqos.Props.C06
/-
  Property C07, promptness clause — "… and does so promptly once that is the case".

  `Quiet s`: a v2 discipline every registered input of which is closed and empty, with nothing
  in flight and no release outstanding.  From every such state (whatever the control point, the
  allotment, the `processed` counter) the discipline itself has an enabled step that keeps the
  state quiet and strictly decreases `pmu`, a measure bounded by `4·n + 12` (n = number of
  priorities): at most the rest of the current round plus one full round, in which every input
  is found closed and marked drained, and then `drain → done`.  No release, no arrival and no
  tick of a clock is needed.  `c07_prompt_unique`: when the head input is buffered the enabled
  discipline action is unique, so EVERY run terminates within the bound; for an unbuffered
  input Go's `select` may also take the ready interrupter tick instead of the (always ready)
  closed channel — a fair coin of the runtime that the machine exposes as `pollEmpty` — which
  is the only way to postpone the exit, and is the part of "promptly" left to the runtime.
-/
namespace Cqos.C07
open Cqos.C05 Cqos.C06

structure Quiet (s : St) : Prop where
  v2 : s.cfg.v1 = false
  closedEmpty : ∀ p inp, alGet s.inputs p = some inp →
    ∃ ch, alGet s.chans inp.chan = some ch ∧ ch.closed = true ∧ ch.queue = []
  pend : s.pending = []
  idle : s.actual.total = 0
  nodup : s.prios.Nodup
  hsum : sumOver s.prios s.strategic = s.cfg.H
  hH : 0 < s.cfg.H
  fill : ∀ p ∈ s.prios, 1 ≤ s.strategic.get p
  regs : ∀ p inp, alGet s.inputs p = some inp → p ∈ s.prios
  inputsNd : (alKeys s.inputs).Nodup
  pcOK : s.pc ≠ .top ∧ s.pc ≠ .fault ∧ s.pc ≠ .waitFb

/-- the round in progress started from a quiet state: nothing was delivered in it and every
    input still undrained is still ahead in phase 1 with a positive allotment -/
def goodRound (s : St) : Prop :=
  s.processed = 0 ∧
  match s.pc with
  | .prio ph rest =>
    if ph = 1 then ∀ p inp, alGet s.inputs p = some inp → inp.drained = false → p ∈ rest ∧ 0 < s.tactic.get p
    else ∀ p inp, alGet s.inputs p = some inp → inp.drained = true
  | _ => True

/-- the discipline's next action in a quiet state -/
def promptAct (s : St) : Act :=
  match s.pc with
  | .calc => .calc
  | .prio ph [] => if ph = 1 then .recalc else .endRound
  | .prio _ (p :: _) =>
    (match alGet s.inputs p with
     | none => .skip
     | some inp => if inp.drained ∨ s.tactic.get p = 0 then .skip else .pollClosed)
  | .limited _ => .limitedStop
  | .drain _ => .exit
  | _ => .exit

open Classical in
/-- what a round that did not start from a quiet state may cost in addition: one more round -/
noncomputable def extra (s : St) : Nat := if goodRound s then 0 else 2 * s.prios.length + 8

theorem extra_good {s : St} (h : goodRound s) : extra s = 0 := by simp [extra, h]
theorem extra_bad {s : St} (h : ¬ goodRound s) : extra s = 2 * s.prios.length + 8 := by simp [extra, h]
theorem extra_le (s : St) : extra s ≤ 2 * s.prios.length + 8 := by
  unfold extra; split <;> omega
theorem extra_mono {s s' : St} (hp : s'.prios = s.prios) (h : goodRound s → goodRound s') : extra s' ≤ extra s := by
  by_cases hg : goodRound s
  · rw [extra_good (h hg), extra_good hg]; exact Nat.le_refl _
  · rw [extra_bad hg, ← hp]; exact extra_le s'

/-- distance to termination -/
noncomputable def pmu (s : St) : Nat :=
  match s.pc with
  | .done _ => 0
  | .drain _ => 1
  | .limited _ => 2 * s.prios.length + 6
  | .calc => 2 * s.prios.length + 4 + extra s
  | .prio ph rest => (if ph = 1 then rest.length + s.prios.length + 3 else rest.length + 2) + extra s
  | _ => 0

theorem pmu_done {s : St} {e} (h : s.pc = .done e) : pmu s = 0 := by simp [pmu, h]
theorem pmu_drain {s : St} {e} (h : s.pc = .drain e) : pmu s = 1 := by simp [pmu, h]
theorem pmu_limited {s : St} {k} (h : s.pc = .limited k) : pmu s = 2 * s.prios.length + 6 := by simp [pmu, h]
theorem pmu_calc {s : St} (h : s.pc = .calc) : pmu s = 2 * s.prios.length + 4 + extra s := by simp [pmu, h]
theorem pmu_prio1 {s : St} {rest} (h : s.pc = .prio 1 rest) : pmu s = rest.length + s.prios.length + 3 + extra s := by
  simp [pmu, h]
theorem pmu_prio2 {s : St} {ph rest} (h : s.pc = .prio ph rest) (h1 : ph ≠ 1) : pmu s = rest.length + 2 + extra s := by
  simp [pmu, h, h1]

theorem allDrained_of_alGet (l : List (Nat × Input)) (hnd : (alKeys l).Nodup)
    (h : ∀ p inp, alGet l p = some inp → inp.drained = true) : allDrained l = true := by
  induction l with
  | nil => rfl
  | cons e r ih =>
    obtain ⟨k0, v0⟩ := e
    simp only [alKeys, List.map_cons, List.nodup_cons] at hnd
    simp only [allDrained, List.all_cons, Bool.and_eq_true]
    refine ⟨h k0 v0 (by simp [alGet]), ?_⟩
    apply ih hnd.2
    intro p inp hp
    apply h p inp
    have hmem : p ∈ alKeys r := (alGet_isSome_iff r p).1 (by rw [hp]; rfl)
    have hne : k0 ≠ p := fun e => hnd.1 (by rw [e]; exact hmem)
    simp [alGet, hne, hp]

theorem stepCalc_frame (div : DivFn) (s : St) :
    (stepCalc div s).inputs = s.inputs ∧ (stepCalc div s).chans = s.chans ∧ (stepCalc div s).pending = s.pending ∧
    (stepCalc div s).actual = s.actual ∧ (stepCalc div s).prios = s.prios ∧ (stepCalc div s).strategic = s.strategic ∧
    (stepCalc div s).cfg = s.cfg ∧ (stepCalc div s).processed = s.processed := by
  simp only [stepCalc]
  split
  · split <;> exact ⟨rfl, rfl, rfl, rfl, rfl, rfl, rfl, rfl⟩
  · split <;> exact ⟨rfl, rfl, rfl, rfl, rfl, rfl, rfl, rfl⟩

theorem stepRecalc_frame (div : DivFn) (s : St) :
    (stepRecalc div s).inputs = s.inputs ∧ (stepRecalc div s).chans = s.chans ∧ (stepRecalc div s).pending = s.pending ∧
    (stepRecalc div s).actual = s.actual ∧ (stepRecalc div s).prios = s.prios ∧ (stepRecalc div s).strategic = s.strategic ∧
    (stepRecalc div s).cfg = s.cfg ∧ (stepRecalc div s).processed = s.processed ∧
    ((∃ r, (stepRecalc div s).pc = .prio 2 r ∧ r.length ≤ s.prios.length) ∨ ∃ e, (stepRecalc div s).pc = .drain (some e)) := by
  simp only [stepRecalc]
  split
  · exact ⟨rfl, rfl, rfl, rfl, rfl, rfl, rfl, rfl, Or.inl ⟨_, rfl, Nat.le_refl _⟩⟩
  · exact ⟨rfl, rfl, rfl, rfl, rfl, rfl, rfl, rfl, Or.inl ⟨_, rfl, by simp⟩⟩
  · exact ⟨rfl, rfl, rfl, rfl, rfl, rfl, rfl, rfl, Or.inr ⟨_, rfl⟩⟩

/-- a state that differs from a quiet one only in control, allotment, bookkeeping of the
    divider calls and drained flags (same channels behind the same keys) is quiet -/
theorem quiet_frame {s u : St} (h : Quiet s) (hc : u.cfg = s.cfg) (hch : u.chans = s.chans) (hp : u.pending = s.pending)
    (ha : u.actual = s.actual) (hpr : u.prios = s.prios) (hst : u.strategic = s.strategic)
    (hin : ∀ p inp, alGet u.inputs p = some inp → ∃ inp0, alGet s.inputs p = some inp0 ∧ inp0.chan = inp.chan)
    (hnd : (alKeys u.inputs).Nodup) (hpc : u.pc ≠ .top ∧ u.pc ≠ .fault ∧ u.pc ≠ .waitFb) : Quiet u :=
  ⟨by rw [hc]; exact h.v2,
   fun p inp hpi => by
     obtain ⟨inp0, h0, he⟩ := hin p inp hpi
     obtain ⟨ch, h1, h2, h3⟩ := h.closedEmpty p inp0 h0
     exact ⟨ch, by rw [hch, ← he]; exact h1, h2, h3⟩,
   by rw [hp]; exact h.pend, by rw [ha]; exact h.idle, by rw [hpr]; exact h.nodup,
   by rw [hpr, hst, hc]; exact h.hsum, by rw [hc]; exact h.hH, by rw [hpr, hst]; exact h.fill,
   fun p inp hpi => by
     obtain ⟨inp0, h0, _⟩ := hin p inp hpi
     rw [hpr]; exact h.regs p inp0 h0,
   hnd, hpc⟩

/-- **C07 (promptness, one step).** In a quiet v2 state that has not terminated, `promptAct`
    is enabled, leads to a quiet state and strictly decreases `pmu`. -/
theorem c07_prompt_step (div : DivFn) (s : St) (hq : Quiet s) (hnd : ∀ e, s.pc ≠ .done e) :
    ∃ s', step div s (promptAct s) = some s' ∧ Quiet s' ∧ pmu s' < pmu s ∧ s'.prios = s.prios := by
  have hv2 := hq.v2
  cases hpc : s.pc with
  | done e => exact absurd hpc (hnd e)
  | fault => exact absurd hpc hq.pcOK.2.1
  | top => exact absurd hpc hq.pcOK.1
  | waitFb => exact absurd hpc hq.pcOK.2.2
  | «calc» =>
    obtain ⟨hpc', htac⟩ := c06_calc_idle div s hq.nodup hq.hsum hq.hH hq.idle
    obtain ⟨f1, f2, f3, f4, f5, f6, f7, f8⟩ := stepCalc_frame div s
    refine ⟨stepCalc div s, by simp [promptAct, step, hpc], ?_, ?_, f5⟩
    · exact quiet_frame hq f7 f2 f3 f4 f5 f6 (fun p inp hp => ⟨inp, by rw [← f1]; exact hp, rfl⟩)
        (by rw [f1]; exact hq.inputsNd) (by rw [hpc']; simp)
    · -- the new round is good whenever `processed = 0`; otherwise both sides carry the extra
      have hgood' : goodRound s → goodRound (stepCalc div s) := by
        intro hg
        refine ⟨by rw [f8]; exact hg.1, ?_⟩
        rw [hpc']
        simp only [if_true]
        intro p inp hp _
        rw [f1] at hp
        have hmem := hq.regs p inp hp
        exact ⟨hmem, by rw [htac p hmem]; exact hq.fill p hmem⟩
      have := extra_mono f5 hgood'
      rw [pmu_prio1 hpc', pmu_calc hpc, f5]; omega
  | limited k =>
    refine ⟨nextRound s, by simp [promptAct, step, hpc], ?_, ?_, rfl⟩
    · exact quiet_frame hq rfl rfl rfl rfl rfl rfl (fun p inp hp => ⟨inp, hp, rfl⟩) hq.inputsNd
        (by simp [nextRound, hv2])
    · have hpc' : (nextRound s).pc = .calc := by simp [nextRound, hv2]
      have hg : goodRound (nextRound s) := ⟨by simp [nextRound], by rw [hpc']; trivial⟩
      rw [pmu_calc hpc', pmu_limited hpc, extra_good hg]
      show 2 * s.prios.length + 4 + 0 < _
      omega
  | drain e =>
    have hz : s.actual.allZero = true := (Dist.allZero_iff_total _).2 hq.idle
    refine ⟨{ s with pc := .done e }, by simp [promptAct, step, hpc, hz], ?_, by rw [pmu_done (s := { s with pc := .done e }) rfl, pmu_drain hpc]; omega, rfl⟩
    exact quiet_frame hq rfl rfl rfl rfl rfl rfl (fun p inp hp => ⟨inp, hp, rfl⟩) hq.inputsNd (by simp)
  | prio ph rest =>
    cases rest with
    | nil =>
      by_cases h1 : ph = 1
      · -- recalc
        subst h1
        obtain ⟨f1, f2, f3, f4, f5, f6, f7, f8, fpc⟩ := stepRecalc_frame div s
        refine ⟨stepRecalc div s, by simp [promptAct, step, hpc], ?_, ?_, f5⟩
        · exact quiet_frame hq f7 f2 f3 f4 f5 f6 (fun p inp hp => ⟨inp, by rw [← f1]; exact hp, rfl⟩)
            (by rw [f1]; exact hq.inputsNd)
            (by rcases fpc with ⟨r, hr, _⟩ | ⟨e, he⟩
                · simp [hr]
                · simp [he])
        · rcases fpc with ⟨r, hr, hlen⟩ | ⟨e, he⟩
          · have hgood' : goodRound s → goodRound (stepRecalc div s) := by
              intro hg
              refine ⟨by rw [f8]; exact hg.1, ?_⟩
              rw [hr]
              simp only [show ¬ (2 = 1) by decide, if_false]
              intro p inp hp
              rw [f1] at hp
              have := hg.2
              rw [hpc] at this
              simp only [if_true] at this
              cases hd : inp.drained with
              | true => rfl
              | false => exact absurd (this p inp hp hd).1 (by simp)
            have := extra_mono f5 hgood'
            rw [pmu_prio2 hr (by decide), pmu_prio1 hpc]
            simp only [List.length_nil]; omega
          · rw [pmu_drain he, pmu_prio1 hpc]; omega
      · -- endRound
        by_cases hc : s.processed = 0 ∧ (¬ s.cfg.v1 ∨ s.graceful) ∧ allDrained s.inputs
        · refine ⟨{ s with pc := .drain none }, ?_, ?_, ?_, rfl⟩
          · simp only [promptAct, hpc, h1, if_false, step]; rw [if_pos hc]
          · exact quiet_frame hq rfl rfl rfl rfl rfl rfl (fun p inp hp => ⟨inp, hp, rfl⟩) hq.inputsNd (by simp)
          · rw [pmu_drain (s := { s with pc := .drain none }) rfl, pmu_prio2 hpc h1]; omega
        · refine ⟨{ s with pc := .limited s.cfg.fbLimit }, ?_, ?_, ?_, rfl⟩
          · simp only [promptAct, hpc, h1, if_false, step]; rw [if_neg hc]
          · exact quiet_frame hq rfl rfl rfl rfl rfl rfl (fun p inp hp => ⟨inp, hp, rfl⟩) hq.inputsNd (by simp)
          · -- only a round that is not good can end here
            have hbad : ¬ goodRound s := by
              intro hg
              apply hc
              refine ⟨hg.1, Or.inl (by simp [hv2]), ?_⟩
              have := hg.2
              rw [hpc] at this
              simp only [h1, if_false] at this
              exact allDrained_of_alGet s.inputs hq.inputsNd this
            rw [pmu_limited (s := { s with pc := .limited s.cfg.fbLimit }) rfl, pmu_prio2 hpc h1, extra_bad hbad]
            show 2 * s.prios.length + 6 < _
            simp only [List.length_nil]; omega
    | cons p rest =>
      -- the possible extra of the successor never exceeds that of `s` once goodness is kept
      have hmu : ∀ s' : St, s'.prios = s.prios → s'.pc = .prio ph rest → (goodRound s → goodRound s') → pmu s' < pmu s := by
        intro s' hpr hpc' hg
        have := extra_mono hpr hg
        by_cases h1 : ph = 1
        · subst h1
          rw [pmu_prio1 hpc', pmu_prio1 hpc, hpr]; simp only [List.length_cons]; omega
        · rw [pmu_prio2 hpc' h1, pmu_prio2 hpc h1]; simp only [List.length_cons]; omega
      cases hin : alGet s.inputs p with
      | none =>
        refine ⟨{ s with pc := .prio ph rest }, by simp [promptAct, step, hpc, stepPoll, hin], ?_, ?_, rfl⟩
        · exact quiet_frame hq rfl rfl rfl rfl rfl rfl (fun p inp hp => ⟨inp, hp, rfl⟩) hq.inputsNd (by simp)
        · refine hmu { s with pc := .prio ph rest } rfl rfl ?_
          intro hg
          refine ⟨hg.1, ?_⟩
          have h2 := hg.2
          rw [hpc] at h2
          show (if ph = 1 then _ else _)
          by_cases h1 : ph = 1
          · simp only [h1, if_true] at h2 ⊢
            intro q inp hq' hd
            obtain ⟨hm, ht⟩ := h2 q inp hq' hd
            rcases List.mem_cons.1 hm with rfl | hm'
            · rw [hin] at hq'; cases hq'
            · exact ⟨hm', ht⟩
          · simp only [h1, if_false] at h2 ⊢; exact h2
      | some inp =>
        by_cases hsk : inp.drained ∨ s.tactic.get p = 0
        · refine ⟨{ s with pc := .prio ph rest }, by simp [promptAct, step, hpc, stepPoll, hin, hsk], ?_, ?_, rfl⟩
          · exact quiet_frame hq rfl rfl rfl rfl rfl rfl (fun p inp hp => ⟨inp, hp, rfl⟩) hq.inputsNd (by simp)
          · refine hmu { s with pc := .prio ph rest } rfl rfl ?_
            intro hg
            refine ⟨hg.1, ?_⟩
            have h2 := hg.2
            rw [hpc] at h2
            show (if ph = 1 then _ else _)
            by_cases h1 : ph = 1
            · simp only [h1, if_true] at h2 ⊢
              intro q inp' hq' hd
              obtain ⟨hm, ht⟩ := h2 q inp' hq' hd
              rcases List.mem_cons.1 hm with rfl | hm'
              · rw [hin] at hq'; cases hq'
                rcases hsk with h | h
                · rw [h] at hd; cases hd
                · omega
              · exact ⟨hm', ht⟩
            · simp only [h1, if_false] at h2 ⊢; exact h2
        · -- pollClosed: the channel is closed and empty
          obtain ⟨ch, hch, hcl, hqe⟩ := hq.closedEmpty p inp hin
          have hstep : step div s (promptAct s) =
              some { s with inputs := alSet s.inputs p { inp with drained := true }, pc := .prio ph rest } := by
            simp [promptAct, step, hpc, stepPoll, hin, hsk, hch, hcl, hqe]
          refine ⟨_, hstep, ?_, ?_, rfl⟩
          · refine quiet_frame hq rfl rfl rfl rfl rfl rfl ?_ (nodup_alSet _ _ _ hq.inputsNd) (by simp)
            intro q inp' hq'
            simp only [C02.alGet_alSet] at hq'
            split at hq'
            · rename_i he; subst he; cases hq'; exact ⟨inp, hin, rfl⟩
            · exact ⟨inp', hq', rfl⟩
          · refine hmu { s with inputs := alSet s.inputs p { inp with drained := true }, pc := .prio ph rest } rfl rfl ?_
            intro hg
            refine ⟨hg.1, ?_⟩
            have h2 := hg.2
            rw [hpc] at h2
            show (if ph = 1 then _ else _)
            by_cases h1 : ph = 1
            · simp only [h1, if_true] at h2 ⊢
              intro q inp' hq' hd
              simp only [C02.alGet_alSet] at hq'
              split at hq'
              · cases hq'; simp at hd
              · rename_i hne
                obtain ⟨hm, ht⟩ := h2 q inp' hq' hd
                rcases List.mem_cons.1 hm with rfl | hm'
                · exact absurd rfl hne
                · exact ⟨hm', ht⟩
            · simp only [h1, if_false] at h2 ⊢
              intro q inp' hq'
              simp only [C02.alGet_alSet] at hq'
              split at hq'
              · cases hq'; rfl
              · exact h2 q inp' hq'

/-- `pmu` never exceeds `4·n + 12` (plus what is left of the current phase) -/
theorem pmu_le (s : St) : pmu s ≤ 4 * s.prios.length + 12 + (match s.pc with | .prio _ rest => rest.length | _ => 0) := by
  have := extra_le s
  unfold pmu
  cases s.pc <;> simp only <;> (try split) <;> omega

/-- iterate `promptAct` -/
def promptRun (div : DivFn) : Nat → St → St
  | 0, s => s
  | k + 1, s =>
    match step div s (promptAct s) with
    | some s' => promptRun div k s'
    | none => s

/-- **C07 (promptness).** From every quiet v2 state the discipline terminates by itself — no
    release, no arrival, no timer — within `pmu s` of its own steps. -/
theorem c07_prompt (div : DivFn) (n : Nat) (s : St) (hq : Quiet s) (hn : pmu s ≤ n) :
    ∃ e, (promptRun div n s).pc = .done e := by
  induction n generalizing s with
  | zero =>
    by_cases hd : ∃ e, s.pc = .done e
    · exact hd
    · obtain ⟨s', _, _, hlt, _⟩ := c07_prompt_step div s hq (fun e he => hd ⟨e, he⟩)
      omega
  | succ k ih =>
    by_cases hd : ∃ e, s.pc = .done e
    · obtain ⟨e, he⟩ := hd
      refine ⟨e, ?_⟩
      have hnone : step div s (promptAct s) = none := by simp [step, promptAct, he]
      simp [promptRun, hnone, he]
    · obtain ⟨s', hs, hq', hlt, _⟩ := c07_prompt_step div s hq (fun e he => hd ⟨e, he⟩)
      simp only [promptRun, hs]
      exact ih s' hq' (by omega)


/-! ### every reachable state in which "that is the case" is quiet -/

/-- a successful v2 `New` gives every priority a share of at least one (repair of D2) -/
theorem initV2_fill (div : DivFn) (keys : List (Nat × Bool)) (H : Nat) (s0 : St) (h0 : initV2 div keys H = .ok s0) :
    (∀ p ∈ s0.prios, 1 ≤ s0.strategic.get p) ∧ s0.cfg.v1 = false ∧ s0.pc = .calc ∧ s0.cfg.H = H := by
  unfold initV2 at h0
  split at h0
  · cases h0
  · rename_i ps strategic hprep
    cases h0
    refine ⟨?_, rfl, rfl, rfl⟩
    unfold prepareV2 at hprep
    simp only at hprep
    split at hprep
    · cases hprep
    · split at hprep
      · rename_i hfill
        cases hprep
        intro p hp
        simp only [filledFor, List.all_eq_true, bne_iff_ne, ne_eq] at hfill
        have := hfill p hp
        exact Nat.one_le_iff_ne_zero.mpr this
      · cases hprep

/-- in v2 the priorities, the shares and the configuration never change and the v1-only
    control point `top` is never entered -/
theorem v2_static_step (div : DivFn) (s s' : St) (a : Act) (hv : s.cfg.v1 = false) (hs : step div s a = some s') :
    s'.prios = s.prios ∧ s'.strategic = s.strategic ∧ s'.cfg = s.cfg ∧ (s.pc ≠ .top → s'.pc ≠ .top) := by
  have hd : ∀ (t : St) (p : Nat), (decActual t p).prios = t.prios ∧ (decActual t p).strategic = t.strategic ∧
      (decActual t p).cfg = t.cfg ∧ ((decActual t p).pc = t.pc ∨ (decActual t p).pc = .fault) := by
    intro t p; unfold decActual; split
    · exact ⟨rfl, rfl, rfl, Or.inr rfl⟩
    · exact ⟨rfl, rfl, rfl, Or.inl rfl⟩
  cases a with
  | top c => obtain ⟨_, _, hv'⟩ := step_top hs; rw [hv] at hv'; cases hv'
  | arrive c x => obtain ⟨_, _, _, rfl⟩ := step_arrive hs; exact ⟨rfl, rfl, rfl, id⟩
  | close c => obtain ⟨_, _, rfl⟩ := step_close hs; exact ⟨rfl, rfl, rfl, id⟩
  | release p => obtain ⟨_, rfl⟩ := step_release hs; exact ⟨rfl, rfl, rfl, id⟩
  | stop => obtain ⟨hv', _⟩ := step_stop hs; rw [hv] at hv'; cases hv'
  | graceful => obtain ⟨hv', _⟩ := step_graceful hs; rw [hv] at hv'; cases hv'
  | stopSeen => obtain ⟨hv', _⟩ := step_stopSeen hs; rw [hv] at hv'; cases hv'
  | «calc» =>
    obtain ⟨_, rfl⟩ := step_calc hs
    simp only [stepCalc]
    split
    · split <;> exact ⟨rfl, rfl, rfl, fun _ => by simp⟩
    · split <;> exact ⟨rfl, rfl, rfl, fun _ => by simp⟩
  | recalc =>
    obtain ⟨_, rfl⟩ := step_recalc hs
    simp only [stepRecalc]
    split <;> exact ⟨rfl, rfl, rfl, fun _ => by simp⟩
  | endRound =>
    obtain ⟨ph, _, _, hc⟩ := step_endRound hs
    rcases hc with ⟨_, _, _, rfl⟩ | ⟨_, rfl⟩ <;> exact ⟨rfl, rfl, rfl, fun _ => by simp⟩
  | limitedStop =>
    obtain ⟨k, _, rfl⟩ := step_limitedStop hs
    exact ⟨rfl, rfl, rfl, fun _ => by simp [nextRound, hv]⟩
  | exit => obtain ⟨e, _, _, rfl⟩ := step_exit hs; exact ⟨rfl, rfl, rfl, fun _ => by simp⟩
  | consume p =>
    obtain ⟨_, hc⟩ := step_consume hs
    obtain ⟨b1, b2, b3, b4⟩ := hd { s with pending := s.pending.erase p } p
    rcases hc with ⟨hpc, rfl⟩ | ⟨k, hpc, _, rfl⟩ | ⟨e, hpc, _, rfl⟩
    · split
      · rename_i hf; exact ⟨b1, b2, b3, fun _ => by rw [hf]; simp⟩
      · unfold afterWaitFb
        split
        · exact ⟨b1, b2, b3, fun _ => by simp⟩
        · exact ⟨b1, b2, b3, fun _ => by simp⟩
    · split
      · rename_i hf; exact ⟨b1, b2, b3, fun _ => by rw [hf]; simp⟩
      · exact ⟨b1, b2, b3, fun _ => by simp⟩
    · refine ⟨b1, b2, b3, fun _ => ?_⟩
      rcases b4 with h | h
      · rw [h]; show s.pc ≠ .top; rw [hpc]; simp
      · rw [h]; simp
  | skip =>
    obtain ⟨ph, p, rest, _, hp⟩ := step_poll_pc (Or.inr (Or.inr (Or.inr (Or.inr rfl)))) hs
    obtain ⟨rfl, _⟩ := stepPoll_skip hp; exact ⟨rfl, rfl, rfl, fun _ => by simp⟩
  | pollEmpty =>
    obtain ⟨ph, p, rest, _, hp⟩ := step_poll_pc (Or.inr (Or.inr (Or.inr (Or.inl rfl)))) hs
    have := stepPoll_empty hp; subst this; exact ⟨rfl, rfl, rfl, fun _ => by simp⟩
  | pollClosed =>
    obtain ⟨ph, p, rest, _, hp⟩ := step_poll_pc (Or.inr (Or.inr (Or.inl rfl))) hs
    obtain ⟨_, _, _, _, _, _, rfl⟩ := stepPoll_closed hp; exact ⟨rfl, rfl, rfl, fun _ => by simp⟩
  | pollItem =>
    obtain ⟨ph, p, rest, hpc, hp⟩ := step_poll_pc (Or.inl rfl) hs
    obtain ⟨_, _, _, _, _, _, _, _, _, rfl⟩ := stepPoll_item hp
    exact ⟨rfl, rfl, rfl, fun h => h⟩
  | pollDrop =>
    obtain ⟨ph, p, rest, _, hp⟩ := step_poll_pc (Or.inr (Or.inl rfl)) hs
    obtain ⟨_, _, _, _, hv', _⟩ := stepPoll_drop hp; rw [hv] at hv'; cases hv'

theorem v2_static_run (div : DivFn) (acts : List Act) (s s' : St) (hv : s.cfg.v1 = false) (hr : run div s acts = some s') :
    s'.prios = s.prios ∧ s'.strategic = s.strategic ∧ s'.cfg = s.cfg ∧ (s.pc ≠ .top → s'.pc ≠ .top) := by
  induction acts generalizing s with
  | nil => simp [run] at hr; subst hr; exact ⟨rfl, rfl, rfl, id⟩
  | cons a as ih =>
    simp only [run] at hr
    split at hr
    · rename_i s1 hs1
      obtain ⟨a1, a2, a3, a4⟩ := v2_static_step div s s1 a hv hs1
      obtain ⟨b1, b2, b3, b4⟩ := ih s1 (by rw [a3]; exact hv) hr
      exact ⟨by rw [b1, a1], by rw [b2, a2], by rw [b3, a3], fun h => b4 (a4 h)⟩
    · cases hr

/-- **C07 (promptness, reachable states).** After ANY run of a v2 discipline (whose shares
    add up to `H`): if every registered input is closed and empty, nothing is in flight and no
    release is outstanding, then the discipline — by its own steps alone — reaches `done`
    within `4·n + 12 + n` steps, whatever it was doing. -/
theorem c07_prompt_reachable (div : DivFn) (keys : List (Nat × Bool)) (H : Nat) (hH : 0 < H)
    (hnd : (keys.map (·.1)).Nodup) (s0 s : St) (acts : List Act) (h0 : initV2 div keys H = .ok s0)
    (hsum : sumOver s0.prios s0.strategic = H) (hr : run div s0 acts = some s)
    (hclosed : ∀ p inp, alGet s.inputs p = some inp →
      ∃ ch, alGet s.chans inp.chan = some ch ∧ ch.closed = true ∧ ch.queue = [])
    (hfl : s.inflight.total = 0) (hpend : s.pending = []) :
    Quiet s ∧ ∃ e, (promptRun div (5 * s.prios.length + 12) s).pc = .done e := by
  obtain ⟨hfill, hv2, hpc0, hH0⟩ := initV2_fill div keys H s0 h0
  obtain ⟨hf, _⟩ := C01.initV2_fresh div keys H s0 h0
  obtain ⟨hwf, hinv, _⟩ := C15.wf_run div acts s0 s (C01.fresh_inv hf) (C15.wf_initV2 div keys H s0 hnd h0) hr
  obtain ⟨c1, c2, c3, c4⟩ := v2_static_run div acts s0 s hv2 hr
  have hidle : s.actual.total = 0 := by
    have := hinv.core.tot
    rw [hfl, hpend] at this
    simpa using this
  have hq : Quiet s := by
    refine ⟨by rw [c3]; exact hv2, hclosed, hpend, hidle, ?_, by rw [c1, c2, c3, hH0]; exact hsum,
      by rw [c3, hH0]; exact hH, by rw [c1, c2]; exact hfill, ?_, hwf.inputsNd, ?_, hinv.nofault, ?_⟩
    · exact List.Pairwise.imp (fun h => Nat.ne_of_gt h) hwf.sorted
    · intro p inp hp
      exact (hwf.regs p).2 (by rw [hp]; rfl)
    · exact c4 (by rw [hpc0]; simp)
    · intro hw
      have := c06_never_waits_idle div keys H hH hnd s0 s acts h0 hsum hr hw
      rw [hfl, hpend] at this
      simp at this
  refine ⟨hq, c07_prompt div _ s hq ?_⟩
  have := pmu_le s
  have hrest : (match s.pc with | .prio _ rest => rest.length | _ => 0) ≤ s.prios.length := by
    cases hpc : s.pc with
    | prio ph rest => exact (hwf.restSub ph rest hpc).length_le
    | _ => simp
  omega

end Cqos.C07

namespace Cqos.C07

theorem stepPoll_closed' {s s' : St} {ph p : Nat} {rest : List Nat} (h : stepPoll s ph p rest .pollClosed = some s') :
    ∃ inp, alGet s.inputs p = some inp ∧ ¬ (inp.drained ∨ s.tactic.get p = 0) := by
  simp only [stepPoll] at h
  split at h
  · simp at h
  · rename_i inp hin
    split at h
    · simp at h
    · rename_i hn; exact ⟨inp, hin, hn⟩

theorem stepPoll_empty' {s s' : St} {ph p : Nat} {rest : List Nat} (h : stepPoll s ph p rest .pollEmpty = some s') :
    ∃ inp ch, alGet s.inputs p = some inp ∧ alGet s.chans inp.chan = some ch ∧
      (¬ ch.buffered ∨ (ch.queue = [] ∧ ¬ ch.closed)) := by
  simp only [stepPoll] at h
  split at h
  · simp at h
  · rename_i inp hin
    split at h
    · simp at h
    · split at h
      · cases h
      · rename_i ch hch
        split at h
        · rename_i hc; exact ⟨inp, ch, hin, hch, hc⟩
        · cases h

/-- **C07 (promptness, every run).** In a quiet state with nothing in flight, whatever is
    enabled is: the discipline's `promptAct`; or an environment action that cannot matter (a
    `close`, or an `arrive` on a channel that is still open, hence not a registered one); or
    `pollEmpty` on an UNBUFFERED head input — Go's `select` taking the interrupter tick although
    the closed channel is ready too.  So with buffered inputs every run follows `promptAct` and
    terminates within the bound; with unbuffered inputs only the runtime's coin can postpone it. -/
theorem c07_prompt_unique (div : DivFn) (s s' : St) (a : Act) (hq : Quiet s) (hfl : s.inflight.total = 0)
    (hs : step div s a = some s') :
    a = promptAct s ∨ (∃ c, a = .close c) ∨
    (∃ c x ch, a = .arrive c x ∧ alGet s.chans c = some ch ∧ ch.closed = false) ∨
    (a = .pollEmpty ∧ ∃ ph p rest inp ch, s.pc = .prio ph (p :: rest) ∧ alGet s.inputs p = some inp ∧
        alGet s.chans inp.chan = some ch ∧ ch.buffered = false) := by
  have hv := hq.v2
  cases a with
  | top c => obtain ⟨_, _, hv'⟩ := step_top hs; rw [hv] at hv'; cases hv'
  | arrive c x =>
    obtain ⟨ch, hch, hcl, _⟩ := step_arrive hs
    exact Or.inr (Or.inr (Or.inl ⟨c, x, ch, rfl, hch, by simpa using hcl⟩))
  | close c => exact Or.inr (Or.inl ⟨c, rfl⟩)
  | release p =>
    obtain ⟨hpos, _⟩ := step_release hs
    have := Dist.get_le_total s.inflight p
    omega
  | stop => obtain ⟨hv', _⟩ := step_stop hs; rw [hv] at hv'; cases hv'
  | graceful => obtain ⟨hv', _⟩ := step_graceful hs; rw [hv] at hv'; cases hv'
  | stopSeen => obtain ⟨hv', _⟩ := step_stopSeen hs; rw [hv] at hv'; cases hv'
  | «calc» => obtain ⟨hpc, _⟩ := step_calc hs; exact Or.inl (by simp [promptAct, hpc])
  | recalc => obtain ⟨hpc, _⟩ := step_recalc hs; exact Or.inl (by simp [promptAct, hpc])
  | endRound => obtain ⟨ph, hpc, h1, _⟩ := step_endRound hs; exact Or.inl (by simp [promptAct, hpc, h1])
  | limitedStop => obtain ⟨k, hpc, _⟩ := step_limitedStop hs; exact Or.inl (by simp [promptAct, hpc])
  | exit => obtain ⟨e, hpc, _, _⟩ := step_exit hs; exact Or.inl (by simp [promptAct, hpc])
  | consume p =>
    obtain ⟨hmem, _⟩ := step_consume hs
    rw [hq.pend] at hmem; cases hmem
  | skip =>
    obtain ⟨ph, p, rest, hpc, hp⟩ := step_poll_pc (Or.inr (Or.inr (Or.inr (Or.inr rfl)))) hs
    obtain ⟨_, hc⟩ := stepPoll_skip hp
    left
    rcases hc with hn | ⟨inp, hin, hd⟩
    · simp [promptAct, hpc, hn]
    · simp [promptAct, hpc, hin, hd]
  | pollEmpty =>
    obtain ⟨ph, p, rest, hpc, hp⟩ := step_poll_pc (Or.inr (Or.inr (Or.inr (Or.inl rfl)))) hs
    obtain ⟨inp, ch, hin, hch, hc⟩ := stepPoll_empty' hp
    obtain ⟨ch', hch', hcl, hqe⟩ := hq.closedEmpty p inp hin
    rw [hch] at hch'; cases hch'
    refine Or.inr (Or.inr (Or.inr ⟨rfl, ph, p, rest, inp, ch, hpc, hin, hch, ?_⟩))
    rcases hc with h | ⟨_, h⟩
    · simpa using h
    · rw [hcl] at h; exact absurd rfl h
  | pollClosed =>
    obtain ⟨ph, p, rest, hpc, hp⟩ := step_poll_pc (Or.inr (Or.inr (Or.inl rfl))) hs
    obtain ⟨inp, hin, hn⟩ := stepPoll_closed' hp
    left
    simp [promptAct, hpc, hin, hn]
  | pollItem =>
    obtain ⟨ph, p, rest, hpc, hp⟩ := step_poll_pc (Or.inl rfl) hs
    obtain ⟨inp, ch, x, q, hin, _, _, hch, hqx, _⟩ := stepPoll_item hp
    obtain ⟨ch', hch', _, hqe⟩ := hq.closedEmpty p inp hin
    rw [hch] at hch'; cases hch'
    rw [hqx] at hqe; cases hqe
  | pollDrop =>
    obtain ⟨ph, p, rest, _, hp⟩ := step_poll_pc (Or.inr (Or.inl rfl)) hs
    obtain ⟨_, _, _, _, hv', _⟩ := stepPoll_drop hp; rw [hv] at hv'; cases hv'

end Cqos.C07

namespace Cqos.C07

/-- non-vacuity: two buffered inputs, one item delivered in the current round and released,
    both inputs closed; after the release is consumed (in `getLimitedFeedback`) the state is
    "the case" — mid-way, with `processed = 1` — and the discipline's own steps end in
    `done none` -/
example :
    let div : DivFn := fun _ => fair
    (match initV2 div [(2, true), (1, true)] 2 with
     | .ok s0 =>
       (run div s0 [.arrive 2 7, .calc, .pollItem, .close 2, .close 1, .release 2, .skip, .pollClosed, .recalc,
          .pollClosed, .skip, .endRound, .consume 2]).map
         (fun s => (s.inflight.total, s.pending, s.processed, (promptRun div 22 s).pc))
     | .error _ => none) = some (0, [], 1, .done none) := by decide

end Cqos.C07
