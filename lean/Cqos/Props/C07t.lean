import Cqos.Props.C06f
/-
  Property C07 / C06, liveness in the angelic form: from EVERY state a v2 discipline can reach
  (divider obeying the sum rule) some continuation that consists only of handlers releasing what
  they hold and of the discipline's own steps

  * reaches a state in which everything written so far has been delivered, released and
    accounted for: no registered undrained input has anything queued, nothing is in flight,
    no release is unread (`c07_quiescible`);
  * and, when every registered input has been closed, goes on to `done`: termination stays
    reachable (`c07_terminable`) — the discipline cannot get stuck short of terminating
    "when its inputs are drained and all items released".

  `c07_prompt_reachable` (Props/C07p.lean) is the last leg: from a quiet state the discipline's
  own steps alone terminate it within a bounded number of steps.
-/
namespace Cqos.C07
open Cqos.C06 Cqos.C02

/-- what a step of the continuation (a release or an own action) does to channels and deliveries -/
theorem step_chans (div : DivFn) (s s' : St) (a : Act) (hv : s.cfg.v1 = false)
    (hok : isOwn a = true ∨ ∃ r, a = .release r) (hs : step div s a = some s') :
    (s'.chans = s.chans ∧ s'.delivered = s.delivered) ∨
    (∃ p inp ch x q, alGet s.inputs p = some inp ∧ alGet s.chans inp.chan = some ch ∧ ch.queue = x :: q ∧
      s'.chans = alSet s.chans inp.chan { ch with queue := q } ∧ s'.delivered = s.delivered ++ [(p, inp.chan, x)]) := by
  have hd : ∀ (t : St) (p : Nat), (decActual t p).chans = t.chans ∧ (decActual t p).delivered = t.delivered := by
    intro t p; unfold decActual; split <;> exact ⟨rfl, rfl⟩
  cases a with
  | top c => obtain ⟨_, _, hv'⟩ := step_top hs; rw [hv] at hv'; cases hv'
  | arrive c x =>
    rcases hok with h | ⟨r, h⟩
    · simp [isOwn] at h
    · cases h
  | close c =>
    rcases hok with h | ⟨r, h⟩
    · simp [isOwn] at h
    · cases h
  | release p => obtain ⟨_, rfl⟩ := step_release hs; exact Or.inl ⟨rfl, rfl⟩
  | stop => obtain ⟨hv', _⟩ := step_stop hs; rw [hv] at hv'; cases hv'
  | graceful => obtain ⟨hv', _⟩ := step_graceful hs; rw [hv] at hv'; cases hv'
  | stopSeen => obtain ⟨hv', _⟩ := step_stopSeen hs; rw [hv] at hv'; cases hv'
  | «calc» =>
    obtain ⟨_, rfl⟩ := step_calc hs
    exact Or.inl ⟨(stepCalc_frame div s).2.1, (stepCalc_more div s).1⟩
  | recalc =>
    obtain ⟨_, rfl⟩ := step_recalc hs
    exact Or.inl ⟨(stepRecalc_frame div s).2.1, (stepRecalc_more div s).1⟩
  | endRound =>
    obtain ⟨ph, _, _, hc⟩ := step_endRound hs
    rcases hc with ⟨_, _, _, rfl⟩ | ⟨_, rfl⟩ <;> exact Or.inl ⟨rfl, rfl⟩
  | limitedStop => obtain ⟨k, _, rfl⟩ := step_limitedStop hs; exact Or.inl ⟨rfl, rfl⟩
  | exit => obtain ⟨e, _, _, rfl⟩ := step_exit hs; exact Or.inl ⟨rfl, rfl⟩
  | consume p =>
    obtain ⟨_, hc⟩ := step_consume hs
    have b := hd { s with pending := s.pending.erase p } p
    rcases hc with ⟨_, rfl⟩ | ⟨k, _, _, rfl⟩ | ⟨e, _, _, rfl⟩
    · split
      · exact Or.inl b
      · unfold afterWaitFb; split <;> exact Or.inl b
    · split <;> exact Or.inl b
    · exact Or.inl b
  | skip =>
    obtain ⟨ph, p, rest, _, hp⟩ := step_poll_pc (Or.inr (Or.inr (Or.inr (Or.inr rfl)))) hs
    obtain ⟨rfl, _⟩ := stepPoll_skip hp; exact Or.inl ⟨rfl, rfl⟩
  | pollEmpty =>
    obtain ⟨ph, p, rest, _, hp⟩ := step_poll_pc (Or.inr (Or.inr (Or.inr (Or.inl rfl)))) hs
    have := stepPoll_empty hp; subst this; exact Or.inl ⟨rfl, rfl⟩
  | pollClosed =>
    obtain ⟨ph, p, rest, _, hp⟩ := step_poll_pc (Or.inr (Or.inr (Or.inl rfl))) hs
    obtain ⟨inp, ch, _, _, _, _, rfl⟩ := stepPoll_closed hp; exact Or.inl ⟨rfl, rfl⟩
  | pollItem =>
    obtain ⟨ph, p, rest, _, hp⟩ := step_poll_pc (Or.inl rfl) hs
    obtain ⟨inp, ch, x, q, hin, _, _, hch, hq, rfl⟩ := stepPoll_item hp
    exact Or.inr ⟨p, inp, ch, x, q, hin, hch, hq, rfl, rfl⟩
  | pollDrop =>
    obtain ⟨ph, p, rest, _, hp⟩ := step_poll_pc (Or.inr (Or.inl rfl)) hs
    obtain ⟨_, _, _, _, hv', _⟩ := stepPoll_drop hp; rw [hv] at hv'; cases hv'

/-- along a continuation: every delivery takes one item out of the channels, nothing is added, and
    a closed channel stays closed -/
theorem chans_run (div : DivFn) : ∀ (acts : List Act) (u u' : St), u.cfg.v1 = false →
    (∀ a ∈ acts, isOwn a = true ∨ ∃ r, a = .release r) → run div u acts = some u' →
    (∃ dl, u'.delivered = u.delivered ++ dl ∧ qs u'.chans + dl.length = qs u.chans) ∧
    (∀ c ch, alGet u.chans c = some ch → ch.closed = true → ∃ ch', alGet u'.chans c = some ch' ∧ ch'.closed = true) := by
  intro acts
  induction acts with
  | nil =>
    intro u u' _ _ hr; simp [run] at hr; subst hr
    exact ⟨⟨[], by simp, by simp⟩, fun c ch h1 h2 => ⟨ch, h1, h2⟩⟩
  | cons a as ih =>
    intro u u' hv hok hr
    simp only [run] at hr
    split at hr
    · rename_i u1 hu1
      have hc := (v2_static_step div u u1 a hv hu1).2.2.1
      obtain ⟨⟨dl, hdl, hqs⟩, hcl⟩ := ih u1 u' (by rw [hc]; exact hv) (fun b hb => hok b (List.mem_cons_of_mem _ hb)) hr
      rcases step_chans div u u1 a hv (hok a (List.mem_cons_self ..)) hu1 with ⟨e1, e2⟩ | ⟨p, inp, ch, x, q, _, hch, hq, e1, e2⟩
      · refine ⟨⟨dl, by rw [hdl, e2], by rw [hqs, e1]⟩, ?_⟩
        intro c ch h1 h2
        exact hcl c ch (by rw [e1]; exact h1) h2
      · refine ⟨⟨(p, inp.chan, x) :: dl, by rw [hdl, e2]; simp, ?_⟩, ?_⟩
        · have := qs_alSet u.chans inp.chan ch { ch with queue := q } hch
          rw [hq] at this
          simp only [List.length_cons] at this ⊢
          rw [e1] at hqs
          omega
        · intro c ch0 h1 h2
          by_cases hcc : inp.chan = c
          · subst hcc
            rw [hch] at h1; cases h1
            exact hcl inp.chan { ch with queue := q } (by rw [e1, C02.alGet_alSet]; simp) h2
          · exact hcl c ch0 (by rw [e1, C02.alGet_alSet]; simp [hcc, h1]) h2
    · cases hr

/-- no registered undrained input has anything queued -/
def Empty (s : St) : Prop :=
  ∀ p inp, alGet s.inputs p = some inp → inp.drained = false → ∀ ch, alGet s.chans inp.chan = some ch → ch.queue = []

theorem empty_same {s s1 : St} (h : Empty s) (hi : s1.inputs = s.inputs) (hc : s1.chans = s.chans) : Empty s1 := by
  intro p inp h1 h2 ch h3
  exact h p inp (by rw [← hi]; exact h1) h2 ch (by rw [← hc]; exact h3)

/-- one step towards quiescence when nothing is queued: release, or let the discipline read -/
theorem quiesce_step (div : DivFn) (hg : SumRule div) (s0 s : St) (F : Facts s0 s) (hfb : s.cfg.fbLimit ≠ 0)
    (he : Empty s) (hnq : ¬ (s.inflight.total = 0 ∧ s.pending = [])) :
    ∃ a s1, step div s a = some s1 ∧ okAct a ∧ s1.delivered = s.delivered ∧ Empty s1 ∧ Less s1 s := by
  by_cases hfl : 0 < s.inflight.total
  · obtain ⟨r, hr⟩ := exists_get_ne_zero s.inflight F.ind hfl
    let s1 : St := { s with inflight := s.inflight.set r (s.inflight.get r - 1), pending := s.pending ++ [r] }
    have hstep : step div s (.release r) = some s1 := by simp [step, hr, s1]
    have hts := Dist.total_set s.inflight r (s.inflight.get r - 1)
    refine ⟨.release r, s1, hstep, Or.inr ⟨r, rfl⟩, rfl, empty_same he rfl rfl, less_b rfl ?_⟩
    show s.actual.total + (s.inflight.set r (s.inflight.get r - 1)).total < s.actual.total + s.inflight.total
    omega
  · have hfl0 : s.inflight.total = 0 := by omega
    have hpe : s.pending ≠ [] := fun e => hnq ⟨hfl0, e⟩
    obtain ⟨r, hr⟩ := List.exists_mem_of_ne_nil _ hpe
    obtain ⟨hne, _, hdec⟩ := core_consume F.hinv.core r hr
    have htot := F.hinv.core.tot
    have hapos : 0 < s.actual.total := by
      have := List.length_pos_of_mem hr
      omega
    cases hpc : s.pc with
    | top => exact absurd hpc F.notop
    | fault => exact absurd hpc F.hinv.nofault
    | done e =>
      rcases F.ht.done e hpc with h | ⟨h, _⟩
      · omega
      · rw [F.v2] at h; cases h
    | drain e =>
      have hz : s.actual.allZero = false := by
        cases hz : s.actual.allZero with
        | false => rfl
        | true => have := (Dist.allZero_iff_total _).1 hz; omega
      let s1 : St := { s with pending := s.pending.erase r, actual := s.actual.set r (s.actual.get r - 1) }
      have hstep : step div s (.consume r) = some s1 := by
        simp [step, hpc, hz, hr, decActual, hne, s1]
      refine ⟨.consume r, s1, hstep, Or.inl rfl, rfl, empty_same he rfl rfl, less_b rfl ?_⟩
      show (s.actual.set r (s.actual.get r - 1)).total + s.inflight.total < s.actual.total + s.inflight.total
      omega
    | «calc» =>
      have hstep : step div s .calc = some (stepCalc div s) := by simp [step, hpc]
      obtain ⟨f1, f2, _, f4, f5, _, _, _⟩ := stepCalc_frame div s
      obtain ⟨g1, g2⟩ := stepCalc_more div s
      have hle : s.actual.total ≤ s.cfg.H := capOk_weaken F.hinv.cap
      refine ⟨.calc, stepCalc div s, hstep, Or.inl rfl, g1, empty_same he f1 f2, less_pos f2 f4 g2 ?_⟩
      rcases stepCalc_pc div hg s hle with e | e
      · simp only [pos, e, hpc, f5, if_true]; omega
      · simp only [pos, e, hpc]; omega
    | waitFb =>
      let s1 : St := { s with pending := s.pending.erase r, actual := s.actual.set r (s.actual.get r - 1), pc := .calc }
      have hstep : step div s (.consume r) = some s1 := by
        simp [step, hpc, hr, decActual, hne, afterWaitFb, F.v2, s1]
      refine ⟨.consume r, s1, hstep, Or.inl rfl, rfl, empty_same he rfl rfl, less_b rfl ?_⟩
      show (s.actual.set r (s.actual.get r - 1)).total + s.inflight.total < s.actual.total + s.inflight.total
      omega
    | limited k =>
      by_cases hk : k = 0
      · subst hk
        have hstep : step div s .limitedStop = some (nextRound s) := by simp [step, hpc]
        refine ⟨.limitedStop, nextRound s, hstep, Or.inl rfl, rfl, empty_same he rfl rfl, less_pos rfl rfl rfl ?_⟩
        have hfb' : ¬ (0 = s.cfg.fbLimit) := fun e => hfb e.symm
        simp only [pos, nextRound, F.v2, hpc, hfb', if_false, Bool.false_eq_true]
        omega
      · let s1 : St := { s with pending := s.pending.erase r, actual := s.actual.set r (s.actual.get r - 1), pc := .limited (k - 1) }
        have hstep : step div s (.consume r) = some s1 := by
          simp [step, hpc, hr, hk, decActual, hne, s1]
        refine ⟨.consume r, s1, hstep, Or.inl rfl, rfl, empty_same he rfl rfl, less_b rfl ?_⟩
        show (s.actual.set r (s.actual.get r - 1)).total + s.inflight.total < s.actual.total + s.inflight.total
        omega
    | prio ph rest =>
      cases rest with
      | nil =>
        by_cases hph : ph = 1
        · subst hph
          have hstep : step div s .recalc = some (stepRecalc div s) := by simp [step, hpc]
          obtain ⟨f1, f2, _, f4, f5, _, _, _, _⟩ := stepRecalc_frame div s
          obtain ⟨g1, g2⟩ := stepRecalc_more div s
          refine ⟨.recalc, stepRecalc div s, hstep, Or.inl rfl, g1, empty_same he f1 f2, less_pos f2 f4 g2 ?_⟩
          rcases stepRecalc_pc div hg s with e | e
          · simp [pos, e, hpc]; omega
          · simp [pos, e, hpc]
        · by_cases hcond : s.processed = 0 ∧ allDrained s.inputs = true
          · let s1 : St := { s with pc := .drain none }
            have hstep : step div s .endRound = some s1 := by simp [step, hpc, hph, hcond.1, hcond.2, F.v2, s1]
            refine ⟨.endRound, s1, hstep, Or.inl rfl, rfl, empty_same he rfl rfl, less_pos rfl rfl rfl ?_⟩
            simp [pos, hpc, hph, s1]
          · let s1 : St := { s with pc := .limited s.cfg.fbLimit }
            have hstep : step div s .endRound = some s1 := by
              simp only [step, hpc, hph, if_false]
              rw [if_neg]
              intro h
              exact hcond ⟨h.1, h.2.2⟩
            refine ⟨.endRound, s1, hstep, Or.inl rfl, rfl, empty_same he rfl rfl, less_pos rfl rfl rfl ?_⟩
            simp [pos, hpc, hph, s1]
      | cons q rest =>
        have moveOn : ∀ (a : Act) (s1 : St), step div s a = some s1 → isOwn a = true → Empty s1 →
            s1.chans = s.chans → s1.delivered = s.delivered → s1.actual = s.actual → s1.inflight = s.inflight →
            s1.prios = s.prios → s1.pc = .prio ph rest →
            ∃ a s1, step div s a = some s1 ∧ okAct a ∧ s1.delivered = s.delivered ∧ Empty s1 ∧ Less s1 s := by
          intro a s1 hs ho e1 e2 e3 e4 e5 e6 e7
          refine ⟨a, s1, hs, Or.inl ho, e3, e1, less_pos e2 e4 e5 ?_⟩
          simp only [pos, e7, hpc, e6, List.length_cons]
          split <;> omega
        cases hiq : alGet s.inputs q with
        | none =>
          exact moveOn .skip { s with pc := .prio ph rest } (by simp [step, hpc, stepPoll, hiq]) rfl
            (empty_same he rfl rfl) rfl rfl rfl rfl rfl rfl
        | some iq =>
          by_cases hsk : iq.drained ∨ s.tactic.get q = 0
          · exact moveOn .skip { s with pc := .prio ph rest } (by simp [step, hpc, stepPoll, hiq, hsk]) rfl
              (empty_same he rfl rfl) rfl rfl rfl rfl rfl rfl
          · have hsome := F.ht.chansOK q iq hiq
            have hud : iq.drained = false := by
              cases hd : iq.drained with
              | false => rfl
              | true => exact absurd (Or.inl hd) hsk
            cases hcq : alGet s.chans iq.chan with
            | none => rw [hcq] at hsome; cases hsome
            | some cq =>
              have hqq : cq.queue = [] := he q iq hiq hud cq hcq
              by_cases hcl : cq.closed = true
              · let s1 : St := { s with inputs := alSet s.inputs q { iq with drained := true }, pc := .prio ph rest }
                have hstep : step div s .pollClosed = some s1 := by
                  simp [step, hpc, stepPoll, hiq, hsk, hcq, hqq, hcl, s1]
                refine moveOn .pollClosed s1 hstep rfl ?_ rfl rfl rfl rfl rfl rfl
                intro p inp h1 h2 ch h3
                have h1' : alGet (alSet s.inputs q { iq with drained := true }) p = some inp := h1
                rw [C02.alGet_alSet] at h1'
                split at h1'
                · cases h1'; simp at h2
                · exact he p inp h1' h2 ch h3
              · exact moveOn .pollEmpty { s with pc := .prio ph rest }
                  (by simp [step, hpc, stepPoll, hiq, hsk, hcq, hqq, hcl]) rfl
                  (empty_same he rfl rfl) rfl rfl rfl rfl rfl rfl

/-- with nothing queued: a continuation after which nothing is in flight and no release is unread -/
theorem quiesce_aux (div : DivFn) (hg : SumRule div) (keys : List (Nat × Bool)) (H : Nat) (hH : 0 < H)
    (hnd : (keys.map (·.1)).Nodup) (s0 : St) (h0 : initV2 div keys H = .ok s0)
    (hsum : sumOver s0.prios s0.strategic = H) :
    ∀ (nB nP : Nat) (s : St) (acts : List Act), run div s0 acts = some s → Empty s → bsum s < nB → pos s < nP →
      ∃ acts' s', run div s acts' = some s' ∧ (∀ a ∈ acts', okAct a) ∧ s'.delivered = s.delivered ∧ Empty s' ∧
        s'.inflight.total = 0 ∧ s'.pending = [] := by
  intro nB
  induction nB with
  | zero => intro _ s _ _ _ h; omega
  | succ nB ihB =>
    intro nP
    induction nP with
    | zero => intro s _ _ _ _ h; omega
    | succ nP ihP =>
      intro s acts hr he hb hp
      by_cases hq : s.inflight.total = 0 ∧ s.pending = []
      · exact ⟨[], s, rfl, (fun _ h => by cases h), rfl, he, hq.1, hq.2⟩
      · have F := facts div hg keys H hH hnd s0 s acts h0 hsum hr
        have hfb : s.cfg.fbLimit ≠ 0 := by rw [F.cfg]; exact fbLimit_ne_zero div keys H hH s0 h0 hsum
        obtain ⟨a, s1, hs, hok, hd1, he1, hless⟩ := quiesce_step div hg s0 s F hfb he hq
        have hr1 : run div s0 (acts ++ [a]) = some s1 := run_append div acts [a] s0 s s1 hr (by simp [run, hs])
        have hqs : qsum s1 = qsum s ∧ (bsum s1 < bsum s ∨ (bsum s1 = bsum s ∧ pos s1 < pos s)) := by
          rcases hless with h | h
          · -- nothing was delivered, so nothing left the channels
            have hv := F.v2
            have := (chans_run div [a] s s1 hv (fun b hb => by simp only [List.mem_singleton] at hb; subst hb; exact hok)
              (by simp [run, hs])).1
            obtain ⟨dl, hdl, hq'⟩ := this
            have : dl = [] := by
              have := congrArg List.length hdl
              rw [hd1] at this
              simp only [List.length_append] at this
              exact List.eq_nil_of_length_eq_zero (by omega)
            subst this
            simp only [qsum] at h
            simp only [List.length_nil] at hq'
            omega
          · exact h
        obtain ⟨_, hlt⟩ := hqs
        have key : ∃ acts' s', run div s1 acts' = some s' ∧ (∀ a ∈ acts', okAct a) ∧ s'.delivered = s1.delivered ∧ Empty s' ∧
            s'.inflight.total = 0 ∧ s'.pending = [] := by
          rcases hlt with h | ⟨e, h⟩
          · exact ihB (pos s1 + 1) s1 _ hr1 he1 (by omega) (by omega)
          · exact ihP s1 _ hr1 he1 (by omega) (by omega)
        obtain ⟨acts', s', hr', ho', hd', he', h1, h2⟩ := key
        refine ⟨a :: acts', s', by simp [run, hs, hr'], ?_, by rw [hd', hd1], he', h1, h2⟩
        intro b hb
        simp only [List.mem_cons] at hb
        rcases hb with e | e
        · subst e; exact hok
        · exact ho' b e

/-- **C07 / C06 (quiescence is reachable).** After ANY run of a v2 discipline with a divider obeying
    the sum rule, some continuation of releases and own steps reaches a state in which no registered
    undrained input has anything queued, nothing is in flight and no release is unread: everything
    written so far has been delivered, released and accounted for. -/
theorem c07_quiescible (div : DivFn) (hg : SumRule div) (keys : List (Nat × Bool)) (H : Nat) (hH : 0 < H)
    (hnd : (keys.map (·.1)).Nodup) (s0 : St) (h0 : initV2 div keys H = .ok s0)
    (hsum : sumOver s0.prios s0.strategic = H) :
    ∀ (n : Nat) (s : St) (acts : List Act), run div s0 acts = some s → qsum s ≤ n →
      ∃ acts' s', run div s acts' = some s' ∧ (∀ a ∈ acts', okAct a) ∧ Empty s' ∧
        s'.inflight.total = 0 ∧ s'.pending = [] := by
  intro n
  induction n with
  | zero =>
    intro s acts hr hn
    by_cases he : Empty s
    · obtain ⟨acts', s', hr', ho, _, he', h1, h2⟩ :=
        quiesce_aux div hg keys H hH hnd s0 h0 hsum (bsum s + 1) (pos s + 1) s acts hr he (by omega) (by omega)
      exact ⟨acts', s', hr', ho, he', h1, h2⟩
    · -- something is queued, so `qsum s > 0`
      exfalso
      apply he
      intro p inp h1 h2 ch h3
      cases hq : ch.queue with
      | nil => rfl
      | cons x q =>
        have := qs_alSet s.chans inp.chan ch { ch with queue := q } h3
        rw [hq] at this
        simp only [List.length_cons, qsum] at this hn
        omega
  | succ n ih =>
    intro s acts hr hn
    by_cases he : Empty s
    · obtain ⟨acts', s', hr', ho, _, he', h1, h2⟩ :=
        quiesce_aux div hg keys H hH hnd s0 h0 hsum (bsum s + 1) (pos s + 1) s acts hr he (by omega) (by omega)
      exact ⟨acts', s', hr', ho, he', h1, h2⟩
    · obtain ⟨p, hp⟩ := Classical.not_forall.1 he
      obtain ⟨inp, hp⟩ := Classical.not_forall.1 hp
      obtain ⟨hin, hp⟩ := Classical.not_imp.1 hp
      obtain ⟨hud, hp⟩ := Classical.not_imp.1 hp
      obtain ⟨ch, hp⟩ := Classical.not_forall.1 hp
      obtain ⟨hch, hp⟩ := Classical.not_imp.1 hp
      cases hq : ch.queue with
      | nil => exact absurd hq hp
      | cons x q =>
        obtain ⟨acts1, s1, hr1, ⟨dl, hdl, hmem⟩, hok1⟩ :=
          c06_deliverable div hg keys H hH hnd s0 s acts h0 hsum hr p inp hin hud ch x q hch hq
        have F := facts div hg keys H hH hnd s0 s acts h0 hsum hr
        obtain ⟨⟨dl', hdl', hqs⟩, _⟩ := chans_run div acts1 s s1 F.v2 hok1 hr1
        have hdd : dl' = dl := List.append_cancel_left (hdl'.symm.trans hdl)
        subst hdd
        have hpos : 0 < dl'.length := List.length_pos_of_mem hmem
        have hr01 : run div s0 (acts ++ acts1) = some s1 := run_append div acts acts1 s0 s s1 hr hr1
        obtain ⟨acts2, s2, hr2, ho2, he2, h1, h2⟩ := ih s1 (acts ++ acts1) hr01 (by simp only [qsum] at hn ⊢; omega)
        refine ⟨acts1 ++ acts2, s2, run_append div acts1 acts2 s s1 s2 hr1 hr2, ?_, he2, h1, h2⟩
        intro a ha
        rcases List.mem_append.1 ha with e | e
        · exact hok1 a e
        · exact ho2 a e

/-- `promptRun` is a run of the discipline's own actions -/
theorem promptRun_run (div : DivFn) : ∀ (n : Nat) (s : St), ∃ acts, run div s acts = some (promptRun div n s) ∧
    ∀ a ∈ acts, isOwn a = true := by
  intro n
  induction n with
  | zero => intro s; exact ⟨[], rfl, fun _ h => by cases h⟩
  | succ n ih =>
    intro s
    simp only [promptRun]
    cases hs : step div s (promptAct s) with
    | none => exact ⟨[], rfl, fun _ h => by cases h⟩
    | some s1 =>
      obtain ⟨acts, hr, ho⟩ := ih s1
      refine ⟨promptAct s :: acts, by simp [run, hs, hr], ?_⟩
      intro a ha
      simp only [List.mem_cons] at ha
      rcases ha with e | e
      · subst e
        unfold promptAct
        cases s.pc with
        | prio ph rest =>
          cases rest with
          | nil => simp only; split <;> rfl
          | cons q r =>
            simp only
            split
            · rfl
            · split <;> rfl
        | _ => rfl
      · exact ho a e

/-- **C07 (termination stays reachable).** After ANY run of a v2 discipline with a divider obeying
    the sum rule: once every registered input has been closed, some continuation of handlers'
    releases and of the discipline's own steps ends in `done` — whatever was queued, in flight or
    unread at that moment. -/
theorem c07_terminable (div : DivFn) (hg : SumRule div) (keys : List (Nat × Bool)) (H : Nat) (hH : 0 < H)
    (hnd : (keys.map (·.1)).Nodup) (s0 s : St) (acts : List Act) (h0 : initV2 div keys H = .ok s0)
    (hsum : sumOver s0.prios s0.strategic = H) (hr : run div s0 acts = some s)
    (hclosed : ∀ p inp, alGet s.inputs p = some inp → ∃ ch, alGet s.chans inp.chan = some ch ∧ ch.closed = true) :
    ∃ acts' s', run div s acts' = some s' ∧ (∀ a ∈ acts', isOwn a = true ∨ ∃ r, a = .release r) ∧ ∃ e, s'.pc = .done e := by
  obtain ⟨acts1, s1, hr1, ho1, he1, hfl1, hpe1⟩ :=
    c07_quiescible div hg keys H hH hnd s0 h0 hsum (qsum s) s acts hr (Nat.le_refl _)
  have hr01 : run div s0 (acts ++ acts1) = some s1 := run_append div acts acts1 s0 s s1 hr hr1
  have F := facts div hg keys H hH hnd s0 s acts h0 hsum hr
  have F1 := facts div hg keys H hH hnd s0 s1 (acts ++ acts1) h0 hsum hr01
  obtain ⟨_, hcl⟩ := chans_run div acts1 s s1 F.v2 ho1 hr1
  -- in `s1` every registered input is closed and empty
  have hce : ∀ p inp, alGet s1.inputs p = some inp →
      ∃ ch, alGet s1.chans inp.chan = some ch ∧ ch.closed = true ∧ ch.queue = [] := by
    intro p inp hin1
    cases hdr : inp.drained with
    | true => exact F1.ht.drained p inp hin1 hdr
    | false =>
      -- `p` was registered in `s` as well, with the same channel
      have hmem : p ∈ s.prios := by
        rw [F.prios, ← F1.prios]; exact (F1.hwf.regs p).2 (by rw [hin1]; rfl)
      have hreg := (F.hwf.regs p).1 hmem
      cases hin : alGet s.inputs p with
      | none => rw [hin] at hreg; cases hreg
      | some inp0 =>
        obtain ⟨ch0, hch0, hcl0⟩ := hclosed p inp0 hin
        have e0 : inp0.chan = p := F.own p inp0 hin
        have e1 : inp.chan = p := F1.own p inp hin1
        obtain ⟨ch1, hch1, hcl1⟩ := hcl inp0.chan ch0 hch0 hcl0
        rw [e0] at hch1
        exact ⟨ch1, by rw [e1]; exact hch1, hcl1, he1 p inp hin1 hdr ch1 (by rw [e1]; exact hch1)⟩
  obtain ⟨_, e, he⟩ := c07_prompt_reachable div keys H hH hnd s0 s1 (acts ++ acts1) h0 hsum hr01 hce hfl1 hpe1
  obtain ⟨acts2, hr2, ho2⟩ := promptRun_run div (5 * s1.prios.length + 12) s1
  refine ⟨acts1 ++ acts2, _, run_append div acts1 acts2 s s1 _ hr1 hr2, ?_, e, he⟩
  intro a ha
  rcases List.mem_append.1 ha with h | h
  · exact ho1 a h
  · exact Or.inl (ho2 a h)

end Cqos.C07
