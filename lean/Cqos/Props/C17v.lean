import Cqos.Props.C06v
import Cqos.Props.C17
/-
  C17, "after AddInput(ch, p) returns, elements of ch are delivered tagged p" — the delivery
  half, for a v1 discipline with nothing in flight: the loop-top case that registers the input is
  followed by a round (`calcTactic`, poll actions) that delivers the element at the head of `ch`
  under priority `p`, by the discipline's own steps alone.  Hypotheses about the state after the
  addition, as in `c06_idle_delivers_v1`: the re-divided shares add up to `H`, the added priority
  has a share of at least one (finding F1 otherwise), no other registered priority uses `ch`.
-/
namespace Cqos.C17
open Cqos.C05 Cqos.C06

theorem c17_add_then_delivers (div : DivFn) (keys : List (Nat × Bool)) (H : Nat) (hH : 0 < H)
    (hnd : (keys.map (·.1)).Nodup) (s s' : St) (acts : List Act) (hr : run div (initV1 div keys H) acts = some s)
    (hidle : s.actual.total = 0) (p c : Nat) (b : Bool)
    (hs : step div s (.top (.add p c b)) = some s')
    (hsum : sumOver s'.prios s'.strategic = H) (hshare : 1 ≤ s'.strategic.get p)
    (halone : ∀ q' inp', alGet s'.inputs q' = some inp' → q' ≠ p → inp'.chan ≠ c)
    (ch : Chan) (x : Nat) (q : List Nat) (hch : alGet s'.chans c = some ch) (hq : ch.queue = x :: q) :
    ∃ acts' s'', run div s' (.calc :: acts') = some s'' ∧
      (∃ dl, s''.delivered = s'.delivered ++ dl ∧ (p, c, x) ∈ dl) ∧
      acts'.length ≤ H + s'.prios.length ∧ (∀ a ∈ acts', isOwn a = true) := by
  obtain ⟨hf, _⟩ := C01.initV1_fresh div keys H
  obtain ⟨_, _, hwf, _⟩ := C07.tinv_run div acts _ s (C01.fresh_inv hf) (C15.wf_initV1 div keys H hnd)
    (C07.tinv_initV1 div keys H) hr
  obtain ⟨hin, _⟩ := c17_add div s s' p c b hwf hs
  have hr' : run div (initV1 div keys H) (acts ++ [.top (.add p c b)]) = some s' :=
    run_append div acts [.top (.add p c b)] _ s s' hr (by simp [run, hs])
  obtain ⟨_, htop, _⟩ := step_top hs
  simp only [stepTop, Option.some.injEq] at htop
  have hpc : s'.pc = .calc := by rw [← htop]; rfl
  have hidle' : s'.actual.total = 0 := by
    rw [← htop]
    show (clearActual _ s.actual).total = 0
    rw [total_clearActual]; exact hidle
  exact c06_idle_delivers_v1_calc div keys H hH hnd s' _ hr' hpc hidle' hsum p ⟨c, false⟩ hin rfl hshare
    halone ch x q hch hq

end Cqos.C17
