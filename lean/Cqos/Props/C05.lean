import Cqos.Props.C07
import Cqos.Lemmas.SumOver
import Cqos.Props.C18
/-
  Property C05 — under saturation each priority holds exactly its divider share.

  v2 scheduler machine, a divider that is additive, call-independent and obeys the sum rule
  (`WellBehaved`: Fair and Rate are instances), strategic = the divider's distribution of H
  over all configured priorities, and a SATURATED run: no poll ever finds an input empty or
  closed (`pollEmpty` / `pollClosed` never occur).  For every such action list — every
  order, grouping and timing of releases:

  * the in-flight count of each priority never exceeds its share;
  * whenever the discipline waits for a release all H handlers are accounted busy, and with
    no release outstanding every priority holds exactly its share.
-/
namespace Cqos.C05

/-- additive, call-independent, sum-preserving divider -/
structure WellBehaved (div : DivFn) : Prop where
  additive : ∀ i ps d m k, (div i ps d m).get k = m.get k + (div 0 ps d []).get k
  sum : ∀ i ps d m, (ps ≠ [] ∨ d = 0) → (div i ps d m).total = m.total + d
  nodup : ∀ i ps d m, m.NodupKeys → (div i ps d m).NodupKeys

theorem keys_zeroAll (m : Dist) : m.zeroAll.map (·.1) = m.map (·.1) := by
  induction m with
  | nil => rfl
  | cons e r ih => obtain ⟨k, v⟩ := e; simp [Dist.zeroAll, ih]

theorem nodupKeys_zeroAll (m : Dist) (h : m.NodupKeys) : m.zeroAll.NodupKeys := by
  simpa [Dist.NodupKeys, keys_zeroAll] using h

/-- `calcTacticByAddUpToStrategic` when nobody exceeds its share -/
theorem addUp_spec (a st : Dist) (ps : List Nat) (hnd : ps.Nodup) (hle : ∀ p ∈ ps, a.get p ≤ st.get p)
    (t : Dist) (acc : Nat) :
    ∃ t', addUpLoop a st ps t acc = (t', some (acc + (sumOver ps st - sumOver ps a))) ∧
      (∀ p ∈ ps, t'.get p = st.get p - a.get p) ∧ (∀ k, k ∉ ps → t'.get k = t.get k) ∧
      (t.NodupKeys → t'.NodupKeys) ∧ sumOver ps a ≤ sumOver ps st := by
  induction ps generalizing t acc with
  | nil => exact ⟨t, by simp [addUpLoop, sumOver], by simp, fun _ _ => rfl, id, by simp [sumOver]⟩
  | cons p ps ih =>
    have hn := List.nodup_cons.1 hnd
    have hp := hle p (by simp)
    obtain ⟨t', h1, h2, h3, h4, h5⟩ := ih hn.2 (fun q hq => hle q (by simp [hq])) (t.set p (st.get p - a.get p)) (acc + (st.get p - a.get p))
    refine ⟨t', ?_, ?_, ?_, ?_, ?_⟩
    · simp only [addUpLoop]
      have : ¬ a.get p > st.get p := by omega
      simp only [this, if_false]
      rw [h1]
      simp only [sumOver, List.map_cons, List.sum_cons] at h5 ⊢
      congr 2
      omega
    · intro q hq
      simp only [List.mem_cons] at hq
      rcases hq with rfl | hq
      · rw [h3 q hn.1, Dist.get_set]; simp
      · exact h2 q hq
    · intro k hk
      simp only [List.mem_cons, not_or] at hk
      rw [h3 k hk.2, Dist.get_set]
      have : ¬ p = k := fun e => hk.1 e.symm
      simp [this]
    · intro hnd'; exact h4 (Dist.nodupKeys_set _ _ _ hnd')
    · simp only [sumOver, List.map_cons, List.sum_cons] at h5 ⊢; omega

/-- the saturation invariant; `P`, `S` are the (static) priorities and strategic distribution -/
structure SatInv (P : List Nat) (S : Dist) (s : St) : Prop where
  pr : s.prios = P
  strat : s.strategic = S
  /-- not stopped (in v2 `stopped` is never set; in v1 saturated runs exclude Stop/cancel) -/
  ns : s.stopped = false
  le : ∀ p, s.actual.get p ≤ S.get p
  akeys : ∀ k, k ∉ P → s.actual.get k = 0
  tnd : s.tactic.NodupKeys
  undrained : ∀ p inp, alGet s.inputs p = some inp → inp.drained = false
  ph1 : ∀ rest, s.pc = .prio 1 rest →
      (∀ p ∈ P, s.actual.get p + s.tactic.get p = S.get p) ∧ (∀ p, p ∉ rest → s.tactic.get p = 0)
  ph2 : ∀ ph rest, s.pc = .prio ph rest → ph ≠ 1 → ∀ p, s.tactic.get p = 0
  wait : s.pc = .waitFb → s.actual.total = s.cfg.H

/-- frame: a step that leaves the scheduler's maps alone and moves to a control state outside
    `prioritize` / `waitFb` -/
theorem sat_plain {P : List Nat} {S : Dist} {s u : St} (h : SatInv P S s) (hp : u.prios = s.prios)
    (hs : u.strategic = s.strategic) (hst' : u.stopped = s.stopped) (ha : u.actual = s.actual) (ht : u.tactic = s.tactic)
    (hi : u.inputs = s.inputs) (hpc : (∀ ph rest, u.pc ≠ .prio ph rest) ∧ u.pc ≠ .waitFb) : SatInv P S u :=
  ⟨by rw [hp]; exact h.pr, by rw [hs]; exact h.strat, by rw [hst']; exact h.ns, by rw [ha]; exact h.le,
   by rw [ha]; exact h.akeys, by rw [ht]; exact h.tnd, by rw [hi]; exact h.undrained,
   fun rest hr => absurd hr (hpc.1 1 rest), fun ph rest hr _ => absurd hr (hpc.1 ph rest), fun hw => absurd hw hpc.2⟩

theorem total_actual_eq {P : List Nat} {S : Dist} {s : St} (h : SatInv P S s) (hinv : Inv s) (hP : P.Nodup) :
    s.actual.total = sumOver P s.actual := total_eq_sumOver P hP s.actual hinv.core.nd h.akeys

/-- `calcTactic` under saturation: either every handler is busy (wait), or the allotment is
    exactly `strategic − actual` -/
theorem sat_calc (div : DivFn) {P : List Nat} {S : Dist} {s : St} (h : SatInv P S s) (hinv : Inv s) (hP : P.Nodup)
    (hsum : sumOver P S = s.cfg.H) : SatInv P S (stepCalc div s) := by
  have hle : s.actual.total ≤ s.cfg.H := capOk_weaken hinv.cap
  have hnot : ¬ s.cfg.H < s.actual.total := by omega
  have htot := total_actual_eq h hinv hP
  simp only [stepCalc, hnot, if_false]
  by_cases hv : s.cfg.H - s.actual.total = 0
  · -- no vacant handler
    have hr : calcTacticWith (div s.calls) s.prios s.actual s.strategic s.tactic (s.cfg.H - s.actual.total) =
        ⟨s.tactic, .ok false, 0, []⟩ := by simp [calcTacticWith, hv]
    rw [hr]
    exact ⟨h.pr, h.strat, h.ns, h.le, h.akeys, h.tnd, h.undrained, fun rest hr => by simp at hr,
      fun ph rest hr => by simp at hr, fun _ => by simp; omega⟩
  · obtain ⟨t', h1, h2, h3, h4, h5⟩ := addUp_spec s.actual S P hP (fun p _ => h.le p) s.tactic.zeroAll 0
    have hpicked : sumOver P S - sumOver P s.actual = s.cfg.H - s.actual.total := by rw [hsum, htot]
    have hr : calcTacticWith (div s.calls) s.prios s.actual s.strategic s.tactic (s.cfg.H - s.actual.total) =
        ⟨t', .ok true, 0, []⟩ := by
      simp only [calcTacticWith, hv, if_false, calcAddUp]
      rw [h.pr, h.strat, h1]
      simp [hpicked]
    rw [hr]
    refine ⟨h.pr, h.strat, h.ns, h.le, h.akeys, h4 (nodupKeys_zeroAll _ h.tnd), h.undrained, ?_, ?_, fun hw => by simp at hw⟩
    · intro rest hr
      simp only [Pc.prio.injEq, true_and] at hr
      refine ⟨fun p hp => ?_, fun p hp => ?_⟩
      · show s.actual.get p + t'.get p = S.get p
        rw [h2 p hp]; have := h.le p; omega
      · show t'.get p = 0
        have : p ∉ P := by rw [← hr, h.pr] at hp; exact hp
        rw [h3 p this]; simp
    · intro ph rest hr hne
      simp only [Pc.prio.injEq] at hr
      exact absurd hr.1.symm hne

/-- `recalcTactic` under saturation: nothing is left to redistribute -/
theorem sat_recalc (div : DivFn) (hwb : WellBehaved div) {P : List Nat} {S : Dist} {s : St} (h : SatInv P S s)
    (hS : S = div 0 P s.cfg.H []) (hPne : P ≠ []) (hpc : s.pc = .prio 1 []) : SatInv P S (stepRecalc div s) := by
  obtain ⟨hbal, hzero⟩ := h.ph1 [] hpc
  have hz : ∀ p, s.tactic.get p = 0 := fun p => hzero p (by simp)
  have hrem : s.tactic.total = 0 := Dist.total_zero_of_get_zero _ h.tnd hz
  have hu1 : useful1 s.prios s.tactic = P := by
    simp only [useful1, hz, beq_self_eq_true, h.pr]
    exact List.filter_eq_self.2 (fun _ _ => rfl)
  -- first division: the strategic distribution again
  have e1 : safeDivide (div s.calls) P s.cfg.H s.tactic.zeroAll = (div s.calls P s.cfg.H s.tactic.zeroAll, none) := by
    apply Prod.ext
    · exact safeDivide_fst _ _ _ _
    · simp only [safeDivide, hwb.sum _ _ _ _ (Or.inl hPne)]
      split
      · rfl
      · split
        · omega
        · split
          · rename_i hx; exact absurd (by omega) hx
          · rfl
  have ht1 : ∀ p, (div s.calls P s.cfg.H s.tactic.zeroAll).get p = S.get p := by
    intro p; rw [hwb.additive, hS]; simp
  have hu2 : useful2 s.prios s.actual (div s.calls P s.cfg.H s.tactic.zeroAll) = [] := by
    simp only [useful2, List.filter_eq_nil_iff, decide_eq_true_eq, h.pr]
    intro p hp
    rw [ht1 p]
    have := hbal p hp; rw [hz p] at this; omega
  have e2 : safeDivide (div (s.calls + 1)) [] 0 (div s.calls P s.cfg.H s.tactic.zeroAll).zeroAll =
      (div (s.calls + 1) [] 0 (div s.calls P s.cfg.H s.tactic.zeroAll).zeroAll, none) := by
    apply Prod.ext
    · exact safeDivide_fst _ _ _ _
    · simp only [safeDivide, hwb.sum _ _ _ _ (Or.inr rfl)]
      split
      · rfl
      · split
        · omega
        · split
          · rename_i hx; exact absurd (by omega) hx
          · rfl
  have ht2 : ∀ p, (div (s.calls + 1) [] 0 (div s.calls P s.cfg.H s.tactic.zeroAll).zeroAll).get p = 0 := by
    intro p
    rw [hwb.additive]
    have h0 : (div 0 [] 0 []).total = 0 := by rw [hwb.sum _ _ _ _ (Or.inr rfl)]; simp
    have := Dist.get_le_total (div 0 [] 0 []) p
    simp; omega
  have hr : recalcTacticWith div s.calls s.cfg.H s.prios s.actual s.tactic =
      ⟨div (s.calls + 1) [] 0 (div s.calls P s.cfg.H s.tactic.zeroAll).zeroAll, .ok true, 2, [(P, s.cfg.H), ([], 0)]⟩ := by
    simp only [recalcTacticWith, hu1, e1, hu2, hrem, e2]
    simp [filledFor]
  simp only [stepRecalc, hr]
  refine ⟨h.pr, h.strat, h.ns, h.le, h.akeys, ?_, h.undrained, fun rest hr' => by simp at hr', ?_, fun hw => by simp at hw⟩
  · exact hwb.nodup _ _ _ _ (nodupKeys_zeroAll _ (hwb.nodup _ _ _ _ (nodupKeys_zeroAll _ h.tnd)))
  · intro ph rest _ _ p; exact ht2 p

/-- saturated: no poll finds its input empty or closed; and (v1) the run contains no
    Stop/cancel and no AddInput/RemoveInput — the set of priorities and the shares are those of
    the creation -/
def SatAct (a : Act) : Prop :=
  a ≠ .pollEmpty ∧ a ≠ .pollClosed ∧ a ≠ .stop ∧ a ≠ .top .stop ∧
  (∀ p c b, a ≠ .top (.add p c b)) ∧ (∀ p, a ≠ .top (.remove p))

/-- **one saturated step of a discipline (v1 or v2) keeps the saturation invariant** -/
theorem sat_step (div : DivFn) (hwb : WellBehaved div) (P : List Nat) (S : Dist) (s s' : St) (a : Act)
    (hinv : Inv s) (hw : C15.WF s) (h : SatInv P S s) (hP : P.Nodup) (hsum : sumOver P S = s.cfg.H)
    (hS : S = div 0 P s.cfg.H []) (hPne : P ≠ []) (hsat : SatAct a) (hs : step div s a = some s') : SatInv P S s' := by
  have hns := h.ns
  have same : ∀ u : St, u.prios = s.prios → u.strategic = s.strategic → u.stopped = s.stopped → u.cfg = s.cfg →
      u.actual = s.actual → u.tactic = s.tactic → u.inputs = s.inputs → u.pc = s.pc → SatInv P S u := by
    intro u hp hs' hst' hc ha ht hi hpc
    exact ⟨by rw [hp]; exact h.pr, by rw [hs']; exact h.strat, by rw [hst']; exact h.ns, by rw [ha]; exact h.le,
      by rw [ha]; exact h.akeys, by rw [ht]; exact h.tnd, by rw [hi]; exact h.undrained,
      by rw [hpc, ha, ht]; exact h.ph1, by rw [hpc, ht]; exact h.ph2, by rw [hpc, ha, hc]; exact h.wait⟩
  cases a with
  | arrive c x => obtain ⟨_, _, _, rfl⟩ := step_arrive hs; exact same _ rfl rfl rfl rfl rfl rfl rfl rfl
  | close c => obtain ⟨_, _, rfl⟩ := step_close hs; exact same _ rfl rfl rfl rfl rfl rfl rfl rfl
  | release p => obtain ⟨_, rfl⟩ := step_release hs; exact same _ rfl rfl rfl rfl rfl rfl rfl rfl
  | stop => exact absurd rfl hsat.2.2.1
  | graceful => obtain ⟨_, rfl⟩ := step_graceful hs; exact same _ rfl rfl rfl rfl rfl rfl rfl rfl
  | top c =>
    obtain ⟨hpc, hst, _⟩ := step_top hs
    have hget : ∀ (m : Dist), m.NodupKeys → ∀ q, (clearActual s.inputs m).get q = m.get q :=
      fun m hm q => get_clearActual s.inputs m hm q
    cases c with
    | stop => exact absurd rfl hsat.2.2.2.1
    | add p c b => exact absurd rfl (hsat.2.2.2.2.1 p c b)
    | remove p => exact absurd rfl (hsat.2.2.2.2.2 p)
    | none =>
      simp only [stepTop, Option.some.injEq] at hst
      subst hst
      refine ⟨h.pr, h.strat, h.ns, ?_, ?_, h.tnd, h.undrained, fun rest hr => by simp [afterTop] at hr,
        fun ph rest hr => by simp [afterTop] at hr, fun hw' => by simp [afterTop] at hw'⟩
      · intro q; show (clearActual s.inputs s.actual).get q ≤ _; rw [hget _ hinv.core.nd]; exact h.le q
      · intro k hk; show (clearActual s.inputs s.actual).get k = 0; rw [hget _ hinv.core.nd]; exact h.akeys k hk
    | feedback p =>
      simp only [stepTop] at hst
      split at hst
      · rename_i hp
        obtain ⟨hne, _, _⟩ := core_consume hinv.core p hp
        have hdec : (decActual { s with pending := s.pending.erase p } p) =
            { s with pending := s.pending.erase p, actual := s.actual.set p (s.actual.get p - 1) } := by
          simp [decActual, hne]
        rw [hdec] at hst
        simp only [show ({ s with pending := s.pending.erase p, actual := s.actual.set p (s.actual.get p - 1) } : St).pc ≠ .fault from by simp [hpc], if_false, Option.some.injEq] at hst
        subst hst
        have hnd' : (s.actual.set p (s.actual.get p - 1)).NodupKeys := Dist.nodupKeys_set _ _ _ hinv.core.nd
        refine ⟨h.pr, h.strat, h.ns, ?_, ?_, h.tnd, h.undrained, fun rest hr => by simp [afterTop] at hr,
          fun ph rest hr => by simp [afterTop] at hr, fun hw' => by simp [afterTop] at hw'⟩
        · intro q
          show (clearActual s.inputs (s.actual.set p (s.actual.get p - 1))).get q ≤ _
          rw [hget _ hnd']; simp only [Dist.get_set]; split
          · rename_i e; subst e; have := h.le p; omega
          · exact h.le q
        · intro k hk
          show (clearActual s.inputs (s.actual.set p (s.actual.get p - 1))).get k = 0
          rw [hget _ hnd']; simp only [Dist.get_set]; split
          · rename_i e; subst e; have := h.akeys p hk; omega
          · exact h.akeys k hk
      · cases hst
  | stopSeen => obtain ⟨_, hst, _⟩ := step_stopSeen hs; rw [hns] at hst; cases hst
  | pollEmpty => exact absurd rfl hsat.1
  | pollClosed => exact absurd rfl hsat.2.1
  | pollDrop =>
    obtain ⟨ph, p, rest, _, hp⟩ := step_poll_pc (Or.inr (Or.inl rfl)) hs
    obtain ⟨_, _, _, _, _, hst, _⟩ := stepPoll_drop hp; rw [hns] at hst; cases hst
  | «calc» => obtain ⟨_, rfl⟩ := step_calc hs; exact sat_calc div h hinv hP hsum
  | recalc => obtain ⟨hpc, rfl⟩ := step_recalc hs; exact sat_recalc div hwb h hS hPne hpc
  | endRound =>
    obtain ⟨ph, _, _, hc⟩ := step_endRound hs
    rcases hc with ⟨_, _, _, rfl⟩ | ⟨_, rfl⟩ <;> exact sat_plain h rfl rfl rfl rfl rfl rfl ⟨by simp, by simp⟩
  | limitedStop =>
    obtain ⟨k, _, rfl⟩ := step_limitedStop hs
    exact sat_plain h rfl rfl rfl rfl rfl rfl ⟨fun ph rest => by rcases nextRound_pc s with e | e <;> simp [e],
      by rcases nextRound_pc s with e | e <;> simp [e]⟩
  | exit => obtain ⟨e, _, _, rfl⟩ := step_exit hs; exact sat_plain h rfl rfl rfl rfl rfl rfl ⟨by simp, by simp⟩
  | skip =>
    obtain ⟨ph, p, rest, hpc, hp⟩ := step_poll_pc (Or.inr (Or.inr (Or.inr (Or.inr rfl)))) hs
    obtain ⟨rfl, hwhy⟩ := stepPoll_skip hp
    have hpin : p ∈ s.prios := (List.Sublist.subset (hw.restSub ph (p :: rest) hpc)) (by simp)
    have htz : s.tactic.get p = 0 := by
      rcases hwhy with hnone | ⟨inp, hin, hd | ht⟩
      · have := (hw.regs p).1 hpin; simp [hnone] at this
      · rw [h.undrained p inp hin] at hd; cases hd
      · exact ht
    refine ⟨h.pr, h.strat, h.ns, h.le, h.akeys, h.tnd, h.undrained, ?_, ?_, fun hw' => by simp at hw'⟩
    · intro rest' hr
      simp only [Pc.prio.injEq] at hr
      obtain ⟨rfl, rfl⟩ := hr
      obtain ⟨hb, hz⟩ := h.ph1 (p :: rest) hpc
      refine ⟨hb, fun q hq => ?_⟩
      by_cases hqp : q = p
      · subst hqp; exact htz
      · exact hz q (by simp [hqp, hq])
    · intro ph' rest' hr hne q
      simp only [Pc.prio.injEq] at hr
      obtain ⟨rfl, rfl⟩ := hr
      exact h.ph2 ph (p :: rest) hpc hne q
  | pollItem =>
    obtain ⟨ph, p, rest, hpc, hp⟩ := step_poll_pc (Or.inl rfl) hs
    obtain ⟨inp, ch, x, q, hin, _, htne, _, _, rfl⟩ := stepPoll_item hp
    have hpin : p ∈ P := by rw [← h.pr]; exact (List.Sublist.subset (hw.restSub ph (p :: rest) hpc)) (by simp)
    have hph : ph = 1 := by
      by_cases e : ph = 1
      · exact e
      · exact absurd (h.ph2 ph (p :: rest) hpc e p) htne
    subst hph
    obtain ⟨hb, hz⟩ := h.ph1 (p :: rest) hpc
    have hbp := hb p hpin
    refine ⟨h.pr, h.strat, h.ns, ?_, ?_, Dist.nodupKeys_set _ _ _ h.tnd, h.undrained, ?_, ?_, fun hw' => by simp [hpc] at hw'⟩
    · intro r
      simp only [Dist.get_add]
      split
      · rename_i e; subst e; omega
      · have := h.le r; omega
    · intro k hk
      simp only [Dist.get_add]
      have : ¬ p = k := fun e => hk (e ▸ hpin)
      simp only [this, if_false, Nat.add_zero]; exact h.akeys k hk
    · intro rest' hr
      simp only [hpc, Pc.prio.injEq, true_and] at hr
      subst hr
      refine ⟨fun r hr => ?_, fun r hr => ?_⟩
      · simp only [Dist.get_add, Dist.get_set]
        by_cases e : p = r
        · subst e; simp only [if_true]; omega
        · simp only [e, if_false, Nat.add_zero]; exact hb r hr
      · simp only [Dist.get_set]
        have : ¬ p = r := fun e => hr (by simp [e])
        simp only [this, if_false]; exact hz r hr
    · intro ph' rest' hr hne
      simp only [hpc, Pc.prio.injEq] at hr
      exact absurd hr.1.symm hne
  | consume p =>
    obtain ⟨hp, hc⟩ := step_consume hs
    obtain ⟨hne, _, _⟩ := core_consume hinv.core p hp
    rcases hc with ⟨hpc, rfl⟩ | ⟨k, hpc, _, rfl⟩ | ⟨e, hpc, _, rfl⟩
    · -- waitFb: back to calc (v2)
      have hdec : (decActual { s with pending := s.pending.erase p } p) =
          { s with pending := s.pending.erase p, actual := s.actual.set p (s.actual.get p - 1) } := by
        simp [decActual, hne]
      rw [hdec]
      simp only [show ({ s with pending := s.pending.erase p, actual := s.actual.set p (s.actual.get p - 1) } : St).pc ≠ .fault from by simp [hpc], if_false]
      have haw : afterWaitFb ({ s with pending := s.pending.erase p, actual := s.actual.set p (s.actual.get p - 1) } : St) =
          { s with pending := s.pending.erase p, actual := s.actual.set p (s.actual.get p - 1), pc := .calc } := by
        simp [afterWaitFb, hns]
      rw [haw]
      refine ⟨h.pr, h.strat, h.ns, ?_, ?_, h.tnd, h.undrained, fun rest hr => by simp at hr, fun ph rest hr => by simp at hr, fun hw' => by simp at hw'⟩
      · intro q; simp only [Dist.get_set]; split
        · rename_i e; subst e; have := h.le p; omega
        · exact h.le q
      · intro k hk; simp only [Dist.get_set]; split
        · rename_i e; subst e; have := h.akeys p hk; omega
        · exact h.akeys k hk
    · have hdec : (decActual { s with pending := s.pending.erase p } p) =
          { s with pending := s.pending.erase p, actual := s.actual.set p (s.actual.get p - 1) } := by
        simp [decActual, hne]
      rw [hdec]
      simp only [show ({ s with pending := s.pending.erase p, actual := s.actual.set p (s.actual.get p - 1) } : St).pc ≠ .fault from by simp [hpc], if_false]
      refine ⟨h.pr, h.strat, h.ns, ?_, ?_, h.tnd, h.undrained, fun rest hr => by simp at hr, fun ph rest hr => by simp at hr, fun hw' => by simp at hw'⟩
      · intro q; simp only [Dist.get_set]; split
        · rename_i e; subst e; have := h.le p; omega
        · exact h.le q
      · intro k hk; simp only [Dist.get_set]; split
        · rename_i e; subst e; have := h.akeys p hk; omega
        · exact h.akeys k hk
    · have hdec : (decActual { s with pending := s.pending.erase p } p) =
          { s with pending := s.pending.erase p, actual := s.actual.set p (s.actual.get p - 1) } := by
        simp [decActual, hne]
      rw [hdec]
      refine ⟨h.pr, h.strat, h.ns, ?_, ?_, h.tnd, h.undrained, fun rest hr => by simp [hpc] at hr, fun ph rest hr => by simp [hpc] at hr, fun hw' => by simp [hpc] at hw'⟩
      · intro q; simp only [Dist.get_set]; split
        · rename_i e; subst e; have := h.le p; omega
        · exact h.le q
      · intro k hk; simp only [Dist.get_set]; split
        · rename_i e; subst e; have := h.akeys p hk; omega
        · exact h.akeys k hk

/-- decidable form of `SatAct` -/
def satActB : Act → Bool
  | .pollEmpty => false
  | .pollClosed => false
  | .stop => false
  | .top .stop => false
  | .top (.add _ _ _) => false
  | .top (.remove _) => false
  | _ => true

theorem satActB_iff (a : Act) : satActB a = true → SatAct a := by
  intro h
  cases a with
  | top c => cases c <;> first | (simp [satActB] at h; done) | exact ⟨by simp, by simp, by simp, by simp, by simp, by simp⟩
  | pollEmpty => simp [satActB] at h
  | pollClosed => simp [satActB] at h
  | stop => simp [satActB] at h
  | _ => exact ⟨by simp, by simp, by simp, by simp, by simp, by simp⟩

/-- a saturated run: every action is saturated -/
def satRun (div : DivFn) (s : St) : List Act → Option St
  | [] => some s
  | a :: as =>
    if satActB a = false then none
    else match step div s a with
      | some s' => satRun div s' as
      | none => none

theorem sat_run (div : DivFn) (hwb : WellBehaved div) (P : List Nat) (S : Dist) (acts : List Act) (s s' : St)
    (hinv : Inv s) (hw : C15.WF s) (h : SatInv P S s) (hP : P.Nodup) (hsum : sumOver P S = s.cfg.H)
    (hS : S = div 0 P s.cfg.H []) (hPne : P ≠ []) (hr : satRun div s acts = some s') :
    SatInv P S s' ∧ Inv s' ∧ s'.cfg = s.cfg := by
  induction acts generalizing s with
  | nil => simp [satRun] at hr; subst hr; exact ⟨h, hinv, rfl⟩
  | cons a as ih =>
    simp only [satRun] at hr
    split at hr
    · cases hr
    · rename_i hsat
      split at hr
      · rename_i s1 hs1
        have h1 := C01.step_inv div s s1 a hinv hs1
        have hsat' : SatAct a := satActB_iff a (by simpa using hsat)
        have := ih s1 h1.1 (C15.wf_step div s s1 a hinv hw hs1)
          (sat_step div hwb P S s s1 a hinv hw h hP hsum hS hPne hsat' hs1)
          (by rw [h1.2]; exact hsum) (by rw [h1.2]; exact hS) hr
        exact ⟨this.1, this.2.1, by rw [this.2.2, h1.2]⟩
      · cases hr

/-- the initial state of a v2 discipline satisfies the saturation invariant -/
theorem sat_init (div : DivFn) (keys : List (Nat × Bool)) (H : Nat) (s0 : St) (h0 : initV2 div keys H = .ok s0) :
    SatInv (sortDesc (keys.map (·.1))) (div 0 (sortDesc (keys.map (·.1))) H []) s0 := by
  unfold initV2 at h0
  split at h0
  · cases h0
  · rename_i ps strategic hprep
    cases h0
    have hps : ps = sortDesc (keys.map (·.1)) ∧ strategic = div 0 (sortDesc (keys.map (·.1))) H [] := by
      unfold prepareV2 at hprep
      simp only at hprep
      have hf := safeDivide_fst (div 0) (sortDesc (keys.map (·.1))) H []
      split at hprep
      · cases hprep
      · rename_i t heq
        split at hprep
        · cases hprep; exact ⟨rfl, by rw [← hf, heq]⟩
        · cases hprep
    obtain ⟨rfl, rfl⟩ := hps
    refine ⟨rfl, rfl, rfl, fun p => by simp [emptySt], fun k _ => by simp [emptySt], by simp [emptySt, Dist.NodupKeys],
      ?_, fun rest hr => by simp at hr, fun ph rest hr => by simp at hr, fun hw => by simp at hw⟩
    intro p inp hp
    exact ((C07.alGet_mkInputs keys p inp hp).1 ▸ rfl)

/-- **C05 (never above the share).** In every saturated run of a v2 discipline with a
    well-behaved divider, the in-flight count of each priority never exceeds the share the
    divider assigns to it for (all configured priorities, H). -/
theorem c05_share (div : DivFn) (hwb : WellBehaved div) (keys : List (Nat × Bool)) (H : Nat)
    (hnd : (keys.map (·.1)).Nodup) (hne : keys ≠ []) (s0 s : St) (acts : List Act)
    (h0 : initV2 div keys H = .ok s0)
    (hsum : sumOver (sortDesc (keys.map (·.1))) (div 0 (sortDesc (keys.map (·.1))) H []) = H)
    (hr : satRun div s0 acts = some s) (p : Nat) :
    s.inflight.get p ≤ (div 0 (sortDesc (keys.map (·.1))) H []).get p := by
  obtain ⟨hf, hH⟩ := C01.initV2_fresh div keys H s0 h0
  have hPne : sortDesc (keys.map (·.1)) ≠ [] := C18.sortDesc_ne_nil _ (by simpa using hne)
  obtain ⟨hs, hinv, _⟩ := sat_run div hwb _ _ acts s0 s (C01.fresh_inv hf) (C15.wf_initV2 div keys H s0 hnd h0)
    (sat_init div keys H s0 h0) (nodup_of_strict _ (sortDesc_strict _ hnd)) (by rw [hH]; exact hsum) (by rw [hH]) hPne hr
  have := hs.le p
  have := hinv.core.perKey p
  omega

/-- **C05 (all handlers occupied).** Whenever the discipline waits for a release, all H
    handlers are accounted busy; with no release outstanding every priority holds exactly
    its share. -/
theorem c05_full (div : DivFn) (hwb : WellBehaved div) (keys : List (Nat × Bool)) (H : Nat)
    (hnd : (keys.map (·.1)).Nodup) (hne : keys ≠ []) (s0 s : St) (acts : List Act)
    (h0 : initV2 div keys H = .ok s0)
    (hsum : sumOver (sortDesc (keys.map (·.1))) (div 0 (sortDesc (keys.map (·.1))) H []) = H)
    (hr : satRun div s0 acts = some s) (hwait : s.pc = .waitFb) :
    s.actual.total = H ∧
    (s.pending = [] → ∀ p ∈ sortDesc (keys.map (·.1)),
        s.inflight.get p = (div 0 (sortDesc (keys.map (·.1))) H []).get p) := by
  obtain ⟨hf, hH⟩ := C01.initV2_fresh div keys H s0 h0
  have hPne : sortDesc (keys.map (·.1)) ≠ [] := C18.sortDesc_ne_nil _ (by simpa using hne)
  have hP := nodup_of_strict _ (sortDesc_strict _ hnd)
  obtain ⟨hs, hinv, hc⟩ := sat_run div hwb _ _ acts s0 s (C01.fresh_inv hf) (C15.wf_initV2 div keys H s0 hnd h0)
    (sat_init div keys H s0 h0) hP (by rw [hH]; exact hsum) (by rw [hH]) hPne hr
  have htot : s.actual.total = H := by rw [hs.wait hwait, hc, hH]
  refine ⟨htot, fun hpend p hp => ?_⟩
  have heq := eq_of_sum_eq_of_le _ s.actual _ (fun q _ => hs.le q)
    (by rw [← total_actual_eq hs hinv hP, htot, hsum]) p hp
  have := hinv.core.perKey p
  rw [hpend] at this
  simp at this
  omega

/-! ### Fair and Rate are well-behaved -/

theorem applyIncs_additive (ps is : List Nat) (m : Dist) (k : Nat) :
    (applyIncs ps is m).get k = m.get k + (applyIncs ps is []).get k := by
  induction ps generalizing is m with
  | nil => cases is <;> simp [applyIncs]
  | cons p ps ih =>
    cases is with
    | nil => simp [applyIncs]
    | cons i is =>
      simp only [applyIncs]
      rw [ih is (m.add p i), ih is (Dist.add [] p i)]
      simp [Dist.get_add]; omega

theorem applyIncs_nodup (ps is : List Nat) (m : Dist) (h : m.NodupKeys) : (applyIncs ps is m).NodupKeys := by
  induction ps generalizing is m with
  | nil => cases is <;> exact h
  | cons p ps ih =>
    cases is with
    | nil => exact h
    | cons i is => exact ih is _ (Dist.nodupKeys_add _ _ _ h)

theorem wellBehaved_fair : WellBehaved (fun _ => fair) := by
  refine ⟨fun _ ps d m k => ?_, fun _ ps d m hc => ?_, fun _ ps d m hn => ?_⟩
  · by_cases hps : ps = []
    · simp [fair, hps]
    · rw [C14.fair_eq ps d m hps, C14.fair_eq ps d [] hps, applyIncs_additive]
  · rcases hc with hc | hc
    · exact C14.c14_fair_total ps d m hc
    · subst hc
      by_cases hps : ps = []
      · simp [fair, hps]
      · exact C14.c14_fair_total ps 0 m hps
  · by_cases hps : ps = []
    · simpa [fair, hps] using hn
    · rw [C14.fair_eq ps d m hps]; exact applyIncs_nodup _ _ _ hn

theorem rateLoop_nodup (part : Nat → Nat) (ps : List Nat) (rem : Nat) (m : Dist) (h : m.NodupKeys) :
    (rateLoop part ps rem m).1.NodupKeys := by
  induction ps generalizing rem m with
  | nil => exact h
  | cons p ps ih =>
    simp only [rateLoop]
    split
    · exact Dist.nodupKeys_add _ _ _ h
    · exact ih _ _ (Dist.nodupKeys_add _ _ _ h)

theorem rateWith_nodup (part : Nat → Nat) (ps : List Nat) (d : Nat) (m : Dist) (h : m.NodupKeys) :
    (rateWith part ps d m).NodupKeys := by
  cases ps with
  | nil => exact h
  | cons p0 ps' =>
    have := rateLoop_nodup part (p0 :: ps') d m h
    simp only [rateWith]
    split
    · rename_i m' heq; rw [heq] at this; exact this
    · rename_i m' r heq; rw [heq] at this; exact Dist.nodupKeys_add _ _ _ this

theorem wellBehaved_rate : WellBehaved (fun _ => rate) := by
  refine ⟨fun _ ps d m k => ?_, fun _ ps d m hc => ?_, fun _ ps d m hn => rateWith_nodup _ ps d m hn⟩
  · simp only [rate]
    rw [C14.rate_get, C14.rate_get _ ps d [], applyIncs_additive]
  · by_cases hps : ps = []
    · subst hps
      rcases hc with hc | hc
      · exact absurd rfl hc
      · subst hc; simp [rate, rateWith]
    · simp only [rate]; exact C14.c14_rate_total _ ps d m hps

/-- for a well-behaved divider that touches only listed priorities, the shares of the
    configured priorities add up to H (the hypothesis `hsum` of `c05_share` / `c05_full`) -/
theorem sum_strategic (div : DivFn) (hwb : WellBehaved div) (hframe : ∀ ps d k, k ∉ ps → (div 0 ps d []).get k = 0)
    (P : List Nat) (hP : P.Nodup) (hPne : P ≠ []) (H : Nat) : sumOver P (div 0 P H []) = H := by
  rw [← total_eq_sumOver P hP _ (hwb.nodup 0 P H [] Dist.nodupKeys_nil) (hframe P H),
    hwb.sum _ _ _ _ (Or.inl hPne)]
  simp

theorem sum_strategic_fair (P : List Nat) (hP : P.Nodup) (hPne : P ≠ []) (H : Nat) : sumOver P (fair P H []) = H :=
  sum_strategic (fun _ => fair) wellBehaved_fair (fun ps d k hk => by simpa using C14.c14_fair_frame ps d [] k hk) P hP hPne H

theorem sum_strategic_rate (P : List Nat) (hP : P.Nodup) (hPne : P ≠ []) (H : Nat) : sumOver P (rate P H []) = H :=
  sum_strategic (fun _ => rate) wellBehaved_rate
    (fun ps d k hk => by simpa [rate] using C14.c14_rate_frame _ ps d [] k hk) P hP hPne H

/-! Non-vacuity: a saturated run of Fair with H = 2 over priorities 2, 1. -/
example :
    (match initV2 (fun _ => fair) [(2, true), (1, true)] 2 with
     | .ok s0 =>
       (satRun (fun _ => fair) s0 [.arrive 2 7, .arrive 2 9, .arrive 1 8, .arrive 1 6, .calc, .pollItem, .skip, .pollItem,
          .skip, .recalc, .skip, .skip, .endRound, .limitedStop, .calc]).map (fun s => (s.pc, s.inflight, s.strategic))
     | .error _ => none) = some (.waitFb, [(2, 1), (1, 1)], [(2, 1), (1, 1)]) := by decide


/-! ### v1: the same for a discipline created by v1 `New` (no Stop, no AddInput/RemoveInput) -/

/-- the initial state of a v1 discipline satisfies the saturation invariant -/
theorem sat_initV1 (div : DivFn) (keys : List (Nat × Bool)) (H : Nat) (hne : sortDesc (keys.map (·.1)) ≠ []) :
    SatInv (sortDesc (keys.map (·.1))) (div 0 (sortDesc (keys.map (·.1))) H []) (initV1 div keys H) := by
  refine ⟨rfl, by simp [initV1, hne], rfl, fun p => by simp [initV1, emptySt], fun k _ => by simp [initV1, emptySt],
    by simp [initV1, emptySt, Dist.NodupKeys], ?_, fun rest hr => by simp [initV1] at hr,
    fun ph rest hr => by simp [initV1] at hr, fun hw => by simp [initV1] at hw⟩
  intro p inp hp
  exact ((C07.alGet_mkInputs keys p inp hp).1 ▸ rfl)

/-- **C05, v1 (never above the share).** -/
theorem c05_share_v1 (div : DivFn) (hwb : WellBehaved div) (keys : List (Nat × Bool)) (H : Nat)
    (hnd : (keys.map (·.1)).Nodup) (hne : keys ≠ []) (s : St) (acts : List Act)
    (hsum : sumOver (sortDesc (keys.map (·.1))) (div 0 (sortDesc (keys.map (·.1))) H []) = H)
    (hr : satRun div (initV1 div keys H) acts = some s) (p : Nat) :
    s.inflight.get p ≤ (div 0 (sortDesc (keys.map (·.1))) H []).get p := by
  obtain ⟨hf, hH⟩ := C01.initV1_fresh div keys H
  have hPne : sortDesc (keys.map (·.1)) ≠ [] := C18.sortDesc_ne_nil _ (by simpa using hne)
  obtain ⟨hs, hinv, _⟩ := sat_run div hwb _ _ acts _ s (C01.fresh_inv hf) (C15.wf_initV1 div keys H hnd)
    (sat_initV1 div keys H hPne) (nodup_of_strict _ (sortDesc_strict _ hnd)) (by rw [hH]; exact hsum) (by rw [hH]) hPne hr
  have := hs.le p
  have := hinv.core.perKey p
  omega

/-- **C05, v1 (all handlers occupied whenever the discipline waits).** -/
theorem c05_full_v1 (div : DivFn) (hwb : WellBehaved div) (keys : List (Nat × Bool)) (H : Nat)
    (hnd : (keys.map (·.1)).Nodup) (hne : keys ≠ []) (s : St) (acts : List Act)
    (hsum : sumOver (sortDesc (keys.map (·.1))) (div 0 (sortDesc (keys.map (·.1))) H []) = H)
    (hr : satRun div (initV1 div keys H) acts = some s) (hwait : s.pc = .waitFb) :
    s.actual.total = H := by
  obtain ⟨hf, hH⟩ := C01.initV1_fresh div keys H
  have hPne : sortDesc (keys.map (·.1)) ≠ [] := C18.sortDesc_ne_nil _ (by simpa using hne)
  obtain ⟨hs, _, hc⟩ := sat_run div hwb _ _ acts _ s (C01.fresh_inv hf) (C15.wf_initV1 div keys H hnd)
    (sat_initV1 div keys H hPne) (nodup_of_strict _ (sortDesc_strict _ hnd)) (by rw [hH]; exact hsum) (by rw [hH]) hPne hr
  have := hs.wait hwait
  rw [hc, hH] at this
  exact this

end Cqos.C05
