import Cqos.Props.C07
/-
  Property C17 — v1: AddInput / RemoveInput take effect on return and preserve the
  invariants.

  `AddInput` / `RemoveInput` hand their argument to the discipline over an unbuffered
  channel, so the caller's return coincides with the loop-top `select` taking that case:
  the actions `top (add p c b)` / `top (remove p)` of the machine.

  * after `remove p` the priority is unregistered, and a channel that no registered
    priority refers to is never received from — until it is added again;
  * after `add p c` deliveries from `c` carry `p` (C02's tag theorem reads the registration
    at the moment of delivery), and whatever channel `p` had before is no longer referred
    to by `p`;
  * `actual` of a removed priority survives until fed back (`clearActual` removes only zero
    entries of unregistered priorities and never changes a count);
  * capacity (C01), exactly-once/FIFO of everything read (C02), the argument contract (C15)
    and the termination invariant (C07) are proved for the full v1 action alphabet, i.e.
    across any sequence of additions, replacements, removals and re-additions.
-/
namespace Cqos.C17
open Cqos.C02

/-- no registered priority refers to channel `c` -/
def Unreg (s : St) (c : Nat) : Prop := ∀ p inp, alGet s.inputs p = some inp → inp.chan ≠ c

/-- **C17 (RemoveInput takes effect on return).** -/
theorem c17_remove (div : DivFn) (s s' : St) (p : Nat) (hw : C15.WF s)
    (hs : step div s (.top (.remove p)) = some s') :
    alGet s'.inputs p = none ∧ p ∉ s'.prios := by
  obtain ⟨_, htop, _⟩ := step_top hs
  simp only [stepTop, Option.some.injEq] at htop
  subst htop
  refine ⟨?_, ?_⟩
  · simp only [afterTop, restrategize]
    rw [alGet_alErase _ _ _ hw.inputsNd]; simp
  · simp [afterTop, restrategize]

/-- if `p` was the only priority referring to channel `c`, then after `remove p` nobody does -/
theorem c17_remove_unreg (div : DivFn) (s s' : St) (p c : Nat) (hw : C15.WF s)
    (honly : ∀ q inp, alGet s.inputs q = some inp → inp.chan = c → q = p)
    (hs : step div s (.top (.remove p)) = some s') : Unreg s' c := by
  obtain ⟨_, htop, _⟩ := step_top hs
  simp only [stepTop, Option.some.injEq] at htop
  subst htop
  intro q inp hq hc
  simp only [afterTop, restrategize] at hq
  rw [alGet_alErase _ _ _ hw.inputsNd] at hq
  split at hq
  · cases hq
  · rename_i hne
    exact hne (honly q inp hq hc).symm

/-- **C17 (an unregistered channel is never read).** While no registered priority refers to
    channel `c`, no step receives anything from it; and it stays unreferred-to unless the
    step is an `AddInput` of that very channel. -/
theorem c17_unregistered_not_read (div : DivFn) (s s' : St) (a : Act) (c : Nat) (hw : C15.WF s)
    (hu : Unreg s c) (hs : step div s a = some s') :
    chanItems s'.taken c = chanItems s.taken c ∧ (Unreg s' c ∨ ∃ p b, a = .top (.add p c b)) := by
  have same : ∀ u : St, u.taken = s.taken → u.inputs = s.inputs →
      chanItems u.taken c = chanItems s.taken c ∧ (Unreg u c ∨ ∃ p b, a = .top (.add p c b)) := by
    intro u ht hi
    exact ⟨by rw [ht], Or.inl (by unfold Unreg; rw [hi]; exact hu)⟩
  cases a with
  | arrive c' x => obtain ⟨_, _, _, rfl⟩ := step_arrive hs; exact same _ rfl rfl
  | close c' => obtain ⟨_, _, rfl⟩ := step_close hs; exact same _ rfl rfl
  | release p => obtain ⟨_, rfl⟩ := step_release hs; exact same _ rfl rfl
  | stop => obtain ⟨_, rfl⟩ := step_stop hs; exact same _ rfl rfl
  | graceful => obtain ⟨_, rfl⟩ := step_graceful hs; exact same _ rfl rfl
  | «calc» =>
    obtain ⟨_, rfl⟩ := step_calc hs
    exact same _ (by simp only [stepCalc]; split <;> (try split) <;> rfl) (by simp only [stepCalc]; split <;> (try split) <;> rfl)
  | recalc =>
    obtain ⟨_, rfl⟩ := step_recalc hs
    exact same _ (by simp only [stepRecalc]; split <;> rfl) (by simp only [stepRecalc]; split <;> rfl)
  | endRound =>
    obtain ⟨ph, _, _, hc⟩ := step_endRound hs
    rcases hc with ⟨_, _, _, rfl⟩ | ⟨_, rfl⟩ <;> exact same _ rfl rfl
  | limitedStop => obtain ⟨k, _, rfl⟩ := step_limitedStop hs; exact same _ rfl rfl
  | exit => obtain ⟨e, _, _, rfl⟩ := step_exit hs; exact same _ rfl rfl
  | consume p =>
    obtain ⟨_, hc⟩ := step_consume hs
    have hd : ∀ u : St, (decActual u p).taken = u.taken ∧ (decActual u p).inputs = u.inputs := by
      intro u; unfold decActual; split <;> exact ⟨rfl, rfl⟩
    have b := hd { s with pending := s.pending.erase p }
    rcases hc with ⟨_, rfl⟩ | ⟨k, _, _, rfl⟩ | ⟨e, _, _, rfl⟩
    · split
      · exact same _ b.1 b.2
      · exact same _ (by unfold afterWaitFb; split <;> exact b.1) (by unfold afterWaitFb; split <;> exact b.2)
    · split
      · exact same _ b.1 b.2
      · exact same _ b.1 b.2
    · exact same _ b.1 b.2
  | stopSeen =>
    obtain ⟨_, _, hc⟩ := step_stopSeen hs
    rcases hc with ⟨_, rfl⟩ | ⟨ph, p, rest, _, rfl⟩ | ⟨k, _, rfl⟩ | ⟨e, _, rfl⟩
    · exact same _ (by unfold afterWaitFb; split <;> rfl) (by unfold afterWaitFb; split <;> rfl)
    · exact same _ rfl rfl
    · exact same _ rfl rfl
    · exact same _ rfl rfl
  | skip =>
    obtain ⟨ph, p, rest, _, hp⟩ := step_poll_pc (Or.inr (Or.inr (Or.inr (Or.inr rfl)))) hs
    obtain ⟨rfl, _⟩ := stepPoll_skip hp; exact same _ rfl rfl
  | pollEmpty =>
    obtain ⟨ph, p, rest, _, hp⟩ := step_poll_pc (Or.inr (Or.inr (Or.inr (Or.inl rfl)))) hs
    have := stepPoll_empty hp; subst this; exact same _ rfl rfl
  | pollClosed =>
    obtain ⟨ph, p, rest, _, hp⟩ := step_poll_pc (Or.inr (Or.inr (Or.inl rfl))) hs
    obtain ⟨inp, ch, hin, _, _, _, rfl⟩ := stepPoll_closed hp
    refine ⟨rfl, Or.inl ?_⟩
    intro q inq hq
    simp only [alGet_alSet'] at hq
    by_cases he : p = q
    · subst he; simp only [if_true, Option.some.injEq] at hq; subst hq; exact hu p inp hin
    · simp only [he, if_false] at hq; exact hu q inq hq
  | pollItem =>
    obtain ⟨ph, p, rest, _, hp⟩ := step_poll_pc (Or.inl rfl) hs
    obtain ⟨inp, ch, x, q, hin, _, _, _, _, rfl⟩ := stepPoll_item hp
    have hne := hu p inp hin
    refine ⟨?_, Or.inl hu⟩
    simp only [chanItems_append, hne, if_false, List.append_nil]
  | pollDrop =>
    obtain ⟨ph, p, rest, _, hp⟩ := step_poll_pc (Or.inr (Or.inl rfl)) hs
    obtain ⟨inp, ch, x, q, _, _, hin, _, _, rfl⟩ := stepPoll_drop hp
    have hne := hu p inp hin
    refine ⟨?_, Or.inl hu⟩
    simp only [chanItems_append, hne, if_false, List.append_nil]
  | top tc =>
    obtain ⟨_, htop, _⟩ := step_top hs
    cases tc with
    | stop =>
      simp only [stepTop] at htop
      split at htop
      · cases htop; exact same _ rfl rfl
      · cases htop
    | none => simp only [stepTop, Option.some.injEq] at htop; subst htop; exact same _ rfl rfl
    | feedback p =>
      simp only [stepTop] at htop
      have hd : ∀ u : St, (decActual u p).taken = u.taken ∧ (decActual u p).inputs = u.inputs := by
        intro u; unfold decActual; split <;> exact ⟨rfl, rfl⟩
      have b := hd { s with pending := s.pending.erase p }
      split at htop
      · split at htop
        · cases htop; exact same _ b.1 b.2
        · cases htop; exact same _ b.1 b.2
      · cases htop
    | remove p =>
      simp only [stepTop, Option.some.injEq] at htop
      subst htop
      refine ⟨rfl, Or.inl ?_⟩
      intro q inq hq
      simp only [afterTop, restrategize] at hq
      rw [alGet_alErase _ _ _ hw.inputsNd] at hq
      split at hq
      · cases hq
      · exact hu q inq hq
    | add p c' b =>
      simp only [stepTop, Option.some.injEq] at htop
      subst htop
      refine ⟨rfl, ?_⟩
      by_cases hc : c' = c
      · subst hc; exact Or.inr ⟨p, b, rfl⟩
      · left
        intro q inq hq
        simp only [afterTop, restrategize, alGet_alSet'] at hq
        by_cases he : p = q
        · subst he; simp only [if_true, Option.some.injEq] at hq; subst hq; exact hc
        · simp only [he, if_false] at hq; exact hu q inq hq

/-- **C17 (AddInput takes effect on return).** After `add p c` the priority `p` is registered
    with channel `c` (not drained), replacing whatever it referred to before. -/
theorem c17_add (div : DivFn) (s s' : St) (p c : Nat) (b : Bool) (hw : C15.WF s)
    (hs : step div s (.top (.add p c b)) = some s') :
    alGet s'.inputs p = some ⟨c, false⟩ ∧ p ∈ s'.prios := by
  obtain ⟨_, htop, _⟩ := step_top hs
  simp only [stepTop, Option.some.injEq] at htop
  subst htop
  refine ⟨by simp [afterTop, restrategize, alGet_alSet'], ?_⟩
  simp only [afterTop, restrategize, mem_sortDesc]
  split
  · rename_i h
    exact (hw.regs p).2 h
  · simp

/-- **C17 (in-flight items of a removed priority stay accounted for).** `RemoveInput` (and
    every other loop-top case) never changes an `actual` count: `clearActual` only deletes
    zero entries. -/
theorem c17_actual_survives (div : DivFn) (s s' : St) (p q : Nat) (hinv : Inv s)
    (hs : step div s (.top (.remove p)) = some s') : s'.actual.get q = s.actual.get q := by
  obtain ⟨_, htop, _⟩ := step_top hs
  simp only [stepTop, Option.some.injEq] at htop
  subst htop
  simp only [afterTop, restrategize]
  exact get_clearActual _ _ hinv.core.nd q

end Cqos.C17
