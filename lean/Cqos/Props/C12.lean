import Cqos.Limit
/-
  Property C12 — limit: lossless ordered pass-through, closes after input, no extra
  throttling.  `lstep` (Cqos/Limit.lean) is the machine of `v2/limit`; theorems hold for
  every action list (every element count, arrival pattern, consumer speed).
-/
namespace Cqos.C12

/-- the element received but not yet sent -/
def held (s : LSt) : List Nat :=
  match s.pc with
  | .holding _ _ x => [x]
  | _ => []

/-- number of elements forwarded in the current batch -/
def inBatch (s : LSt) : Nat :=
  match s.pc with
  | .batch k _ => k
  | .holding k _ _ => k
  | _ => 0

def isHolding (s : LSt) : Bool :=
  match s.pc with
  | .holding _ _ _ => true
  | _ => false

/-- start of the current batch (the present, outside a batch) -/
def batchStart (s : LSt) : Nat :=
  match s.pc with
  | .batch _ st => st
  | .holding _ st _ => st
  | _ => s.now

structure LInv (s : LSt) : Prop where
  /-- what was sent, plus the element in hand, is exactly what was received, in order -/
  pass : s.sent.map (·.1) ++ held s = s.received
  /-- every completed batch forwarded exactly Quantity elements and requested one sleep -/
  count : (s.pc ≠ .done ∧ s.sent.length = s.cfg.quantity * s.sleeps.length + inBatch s) ∨
      (s.pc = .done ∧ s.cfg.quantity * s.sleeps.length ≤ s.sent.length ∧
        s.sent.length < s.cfg.quantity * s.sleeps.length + s.cfg.quantity)
  /-- a batch never forwards more than Quantity elements -/
  kle : inBatch s ≤ s.cfg.quantity
  hold : isHolding s = true → inBatch s < s.cfg.quantity
  /-- the batch start is in the past -/
  startLe : batchStart s ≤ s.now
  /-- no requested sleep exceeds Interval -/
  sleepLe : ∀ r ∈ s.sleeps, r ≤ (s.cfg.interval : Int)

theorem linit_inv (cfg : LCfg) (t0 : Nat) : LInv (linit cfg t0) :=
  ⟨by simp [linit, held], by simp [linit, inBatch], by simp [linit, inBatch], by simp [linit, isHolding],
   by simp [linit, batchStart], by simp [linit]⟩

theorem lstep_inv (s s' : LSt) (a : LAct) (h : LInv s) (hs : lstep s a = some s') :
    LInv s' ∧ s'.cfg = s.cfg := by
  have hp := h.pass
  have hc := h.count
  have hk := h.kle
  have hh := h.hold
  have hst := h.startLe
  unfold lstep at hs
  split at hs
  · -- idle, start
    rename_i t hpc
    split at hs
    · cases hs
      simp only [held, inBatch, isHolding, batchStart, hpc] at hp hc hk hh hst
      exact ⟨⟨by simpa [held] using hp, by simpa [inBatch] using hc, by simp [inBatch], by simp [isHolding],
        by simp [batchStart], h.sleepLe⟩, rfl⟩
    · cases hs
  · -- batch, recv
    rename_i k st x hpc
    split at hs
    · rename_i hkq
      cases hs
      simp only [held, inBatch, isHolding, batchStart, hpc, List.append_nil] at hp hc hk hh hst
      exact ⟨⟨by simp [held, hp], by simpa [inBatch] using hc, by simp [inBatch]; omega,
        by simp [isHolding, inBatch]; omega, by simpa [batchStart] using hst, h.sleepLe⟩, rfl⟩
    · cases hs
  · -- batch, closed
    rename_i k st hpc
    split at hs
    · rename_i hkq
      cases hs
      simp only [held, inBatch, isHolding, batchStart, hpc, List.append_nil] at hp hc hk hh hst
      refine ⟨⟨by simpa [held] using hp, Or.inr ⟨rfl, ?_⟩, by simp [inBatch], by simp [isHolding],
        by simp [batchStart], h.sleepLe⟩, rfl⟩
      simp at hc ⊢; omega
    · cases hs
  · -- holding, sent
    rename_i k st x t hpc
    split at hs
    · rename_i hle
      cases hs
      simp only [held, inBatch, isHolding, batchStart, hpc] at hp hc hk hh hst
      refine ⟨⟨?_, ?_, by simp [inBatch]; simp at hh; omega, by simp [isHolding], by simp [batchStart]; omega, h.sleepLe⟩, rfl⟩
      · simp [held, ← hp]
      · simp [inBatch] at hc ⊢; omega
    · cases hs
  · -- batch, batchEnd
    rename_i k st t hpc
    split at hs
    · rename_i hc2
      cases hs
      simp only [held, inBatch, isHolding, batchStart, hpc, List.append_nil] at hp hc hk hh hst
      refine ⟨⟨by simpa [held] using hp, ?_, by simp [inBatch], by simp [isHolding], by simp [batchStart], ?_⟩, rfl⟩
      · simp [inBatch] at hc ⊢
        rw [Nat.mul_add, Nat.mul_one]; omega
      · intro r hr
        simp only [List.mem_append, List.mem_singleton] at hr
        rcases hr with hr | rfl
        · exact h.sleepLe r hr
        · simp only; omega
    · cases hs
  · -- sleeping, wake
    rename_i u t hpc
    split at hs
    · cases hs
      simp only [held, inBatch, isHolding, batchStart, hpc] at hp hc hk hh hst
      exact ⟨⟨by simpa [held] using hp, by simpa [inBatch] using hc, by simp [inBatch], by simp [isHolding],
        by simp [batchStart], h.sleepLe⟩, rfl⟩
    · cases hs
  · cases hs

theorem lrun_inv (acts : List LAct) (s s' : LSt) (h : LInv s) (hr : lrun s acts = some s') :
    LInv s' ∧ s'.cfg = s.cfg := by
  induction acts generalizing s with
  | nil => simp [lrun] at hr; subst hr; exact ⟨h, rfl⟩
  | cons a as ih =>
    simp only [lrun] at hr
    split at hr
    · rename_i s1 hs1
      obtain ⟨h1, hc1⟩ := lstep_inv s s1 a h hs1
      obtain ⟨h2, hc2⟩ := ih s1 h1 hr
      exact ⟨h2, by rw [hc2, hc1]⟩
    · cases hr

/-- **C12 (lossless ordered pass-through).** At every moment the sent elements are, in
    order, a prefix of the received ones (at most one element is in hand); when the discipline
    has terminated they are exactly the received elements. -/
theorem c12_passthrough (cfg : LCfg) (t0 : Nat) (acts : List LAct) (s : LSt)
    (hr : lrun (linit cfg t0) acts = some s) :
    s.sent.map (·.1) ++ held s = s.received ∧ (s.pc = .done → s.sent.map (·.1) = s.received) := by
  have h := (lrun_inv acts _ s (linit_inv cfg t0) hr).1.pass
  exact ⟨h, fun hd => by simpa [held, hd] using h⟩

/-- **C12 (closes only after the input is closed and drained).** The machine reaches `done`
    only through the `closed` action (a receive that reports the input closed and empty). -/
theorem c12_close (s s' : LSt) (a : LAct) (hs : lstep s a = some s') (hd : s'.pc = .done) (_hnd : s.pc ≠ .done) :
    a = .closed := by
  unfold lstep at hs
  split at hs <;> (try split at hs) <;> (try (cases hs; done)) <;> (try (cases hs; simp at hd)) <;> rfl

/-- **C12 (no extra throttling: fewer than Quantity elements pass with no pause at all).** -/
theorem c12_no_pause_small (cfg : LCfg) (t0 : Nat) (_hq : 0 < cfg.quantity) (acts : List LAct) (s : LSt)
    (hr : lrun (linit cfg t0) acts = some s) (hsmall : s.received.length < cfg.quantity) :
    s.sleeps = [] := by
  obtain ⟨h, hc⟩ := lrun_inv acts _ s (linit_inv cfg t0) hr
  have hcq : s.cfg.quantity = cfg.quantity := by rw [hc]; rfl
  have hlen : s.sent.length ≤ s.received.length := by
    have := congrArg List.length h.pass
    simp at this; omega
  have hmul : s.cfg.quantity * s.sleeps.length ≤ s.sent.length := by
    rcases h.count with ⟨_, e⟩ | ⟨_, e, _⟩ <;> omega
  rw [hcq] at hmul
  cases hs : s.sleeps with
  | nil => rfl
  | cons r rs =>
    rw [hs] at hmul
    simp only [List.length_cons] at hmul
    have : cfg.quantity * (rs.length + 1) ≥ cfg.quantity := Nat.le_mul_of_pos_right _ (by omega)
    omega

/-- **C12 (sleep count and size).** Exactly one sleep is requested per completed batch of
    Quantity elements — `⌊sent/Quantity⌋` when no batch is in progress — and no requested sleep
    exceeds Interval. -/
theorem c12_sleep_count (cfg : LCfg) (t0 : Nat) (hq : 0 < cfg.quantity) (acts : List LAct) (s : LSt)
    (hr : lrun (linit cfg t0) acts = some s) :
    (inBatch s < cfg.quantity → s.sleeps.length = s.sent.length / cfg.quantity) ∧
    (∀ r ∈ s.sleeps, r ≤ (cfg.interval : Int)) := by
  obtain ⟨h, hc⟩ := lrun_inv acts _ s (linit_inv cfg t0) hr
  have hcq : s.cfg = cfg := by rw [hc]; rfl
  refine ⟨fun hlt => ?_, by rw [← hcq]; exact h.sleepLe⟩
  rw [← hcq] at hlt ⊢
  rcases h.count with ⟨_, e⟩ | ⟨_, e1, e2⟩
  · rw [e, Nat.mul_add_div (by rw [hcq]; exact hq), Nat.div_eq_of_lt hlt]; simp
  · symm
    apply Nat.div_eq_of_lt_le
    · rw [Nat.mul_comm]; exact e1
    · rw [Nat.add_mul, Nat.one_mul, Nat.mul_comm]; exact e2

/-! Non-vacuity: Quantity 2, five elements, then close. -/
example :
    (lrun (linit ⟨2, 100⟩ 0)
      [.start 1, .recv 10, .sent 2, .recv 11, .sent 3, .batchEnd 4, .wake 101, .start 101, .recv 12, .sent 102,
       .recv 13, .sent 103, .batchEnd 104, .wake 201, .start 202, .recv 14, .sent 203, .closed]).map
      (fun s => (s.sent.map (·.1), s.sleeps, s.pc)) = some ([10, 11, 12, 13, 14], [97, 97], .done) := by decide

end Cqos.C12
