import Cqos.Props.C06d
/-
  Property C06, second clause: "when nothing is in flight and some input has data, an item is
  delivered without any release being needed".

  `c06_phase1_delivers`: inside the first `prioritize` of a round, if priority `p` is still ahead,
  has a positive allotment, is not drained and its (buffered or unbuffered) channel — which it
  shares with no other priority ahead — has the item `x` at its head, then the discipline's own
  poll actions alone (no release, no arrival) lead to a state in which `(p, channel, x)` has been
  delivered, in at most (sum of the allotments ahead) + (priorities ahead) steps.
  `c06_idle_delivers`: in a v2 discipline with nothing in flight at the start of a round
  (`calcTactic` allots every priority its share ≥ 1, C06.c06_calc_idle) this applies to every
  registered priority that has data.
-/
namespace Cqos.C06

/-- what the argument needs to know about `p` while other priorities are being polled -/
structure Ahead (s : St) (p : Nat) (inp : Input) (x : Nat) (rest : List Nat) : Prop where
  pc : s.pc = .prio 1 rest
  mem : p ∈ rest
  input : alGet s.inputs p = some inp
  undrained : inp.drained = false
  allot : 0 < s.tactic.get p
  head : ∃ ch q, alGet s.chans inp.chan = some ch ∧ ch.queue = x :: q
  alone : ∀ q' ∈ rest, q' ≠ p → ∀ inp', alGet s.inputs q' = some inp' → inp'.chan ≠ inp.chan
  chansOK : ∀ q' inp', alGet s.inputs q' = some inp' → (alGet s.chans inp'.chan).isSome

/-- the head priority `q ≠ p` is dealt with by poll actions alone, leaving `p`'s situation intact -/
theorem skip_one (div : DivFn) (p : Nat) (inp : Input) (x : Nat) (q : Nat) (rest : List Nat) (hqp : q ≠ p) :
    ∀ (n : Nat) (s : St), s.tactic.get q ≤ n → Ahead s p inp x (q :: rest) →
      ∃ acts s', run div s acts = some s' ∧ Ahead s' p inp x rest ∧ acts.length + s'.tactic.total ≤ s.tactic.total + 1 ∧
        (∃ dl, s'.delivered = s.delivered ++ dl) ∧ (∀ a ∈ acts, isOwn a = true) := by
  intro n
  induction n with
  | zero =>
    intro s hn h
    have ht : s.tactic.get q = 0 := by omega
    -- skip (or whatever the registration state of q is, the allotment is zero)
    refine ⟨[.skip], { s with pc := .prio 1 rest }, ?_, ?_, by simp; omega, ⟨[], (List.append_nil _).symm⟩, by simp [isOwn]⟩
    · simp only [run, step, h.pc, stepPoll]
      cases hin : alGet s.inputs q with
      | none => simp
      | some iq => simp [ht]
    · exact ⟨rfl, by have := h.mem; simp only [List.mem_cons] at this; rcases this with e | e; exact absurd e.symm hqp; exact e,
        h.input, h.undrained, h.allot, h.head, fun q' hq' => h.alone q' (List.mem_cons_of_mem _ hq'), h.chansOK⟩
  | succ n ih =>
    intro s hn h
    have hmem' : p ∈ rest := by
      have := h.mem; simp only [List.mem_cons] at this
      rcases this with e | e
      · exact absurd e.symm hqp
      · exact e
    have toRest : Ahead { s with pc := .prio 1 rest } p inp x rest :=
      ⟨rfl, hmem', h.input, h.undrained, h.allot, h.head, fun q' hq' => h.alone q' (List.mem_cons_of_mem _ hq'), h.chansOK⟩
    cases hin : alGet s.inputs q with
    | none =>
      exact ⟨[.skip], _, by simp [run, step, h.pc, stepPoll, hin], toRest, by simp; omega, ⟨[], (List.append_nil _).symm⟩, by simp [isOwn]⟩
    | some iq =>
      by_cases hsk : iq.drained ∨ s.tactic.get q = 0
      · exact ⟨[.skip], _, by simp [run, step, h.pc, stepPoll, hin, hsk], toRest, by simp; omega, ⟨[], (List.append_nil _).symm⟩, by simp [isOwn]⟩
      · have hsome := h.chansOK q iq hin
        cases hch : alGet s.chans iq.chan with
        | none => rw [hch] at hsome; cases hsome
        | some ch =>
          have hne : iq.chan ≠ inp.chan := h.alone q (by simp) hqp iq hin
          cases hq : ch.queue with
          | nil =>
            by_cases hcl : ch.closed = true
            · -- pollClosed
              refine ⟨[.pollClosed], { s with inputs := alSet s.inputs q { iq with drained := true }, pc := .prio 1 rest }, ?_, ?_, by simp; omega, ⟨[], (List.append_nil _).symm⟩, by simp [isOwn]⟩
              · simp [run, step, h.pc, stepPoll, hin, hsk, hch, hq, hcl]
              · refine ⟨rfl, hmem', ?_, h.undrained, h.allot, h.head, ?_, ?_⟩
                · show alGet (alSet s.inputs q _) p = some inp
                  rw [C02.alGet_alSet]; simp [hqp, h.input]
                · intro q' hq' hne' inp' hin'
                  have hin'' : alGet (alSet s.inputs q { iq with drained := true }) q' = some inp' := hin'
                  rw [C02.alGet_alSet] at hin''
                  split at hin''
                  · cases hin''; exact hne
                  · exact h.alone q' (List.mem_cons_of_mem _ hq') hne' inp' hin''
                · intro q' inp' hin'
                  have hin'' : alGet (alSet s.inputs q { iq with drained := true }) q' = some inp' := hin'
                  rw [C02.alGet_alSet] at hin''
                  split at hin''
                  · cases hin''; exact h.chansOK q iq hin
                  · exact h.chansOK q' inp' hin''
            · -- pollEmpty
              exact ⟨[.pollEmpty], _, by simp [run, step, h.pc, stepPoll, hin, hsk, hch, hq, hcl], toRest, by simp; omega, ⟨[], (List.append_nil _).symm⟩, by simp [isOwn]⟩
          | cons y ys =>
            -- pollItem: one item of q is delivered, its allotment decreases, q stays at the head
            let s1 : St := { s with
              chans := alSet s.chans iq.chan { ch with queue := ys },
              taken := s.taken ++ [(iq.chan, y)],
              delivered := s.delivered ++ [(q, iq.chan, y)],
              tactic := s.tactic.set q (s.tactic.get q - 1),
              actual := s.actual.add q 1,
              inflight := s.inflight.add q 1,
              processed := s.processed + 1 }
            have hstep : step div s .pollItem = some s1 := by
              simp [step, h.pc, stepPoll, hin, hsk, hch, hq, s1]
            have htq : 0 < s.tactic.get q := by
              rcases Nat.eq_zero_or_pos (s.tactic.get q) with e | e
              · exact absurd (Or.inr e) hsk
              · exact e
            have h1 : Ahead s1 p inp x (q :: rest) := by
              refine ⟨h.pc, h.mem, h.input, h.undrained, ?_, ?_, h.alone, ?_⟩
              · show 0 < (s.tactic.set q (s.tactic.get q - 1)).get p
                rw [Dist.get_set]; simp [hqp]; exact h.allot
              · obtain ⟨c, qq, hc1, hc2⟩ := h.head
                refine ⟨c, qq, ?_, hc2⟩
                show alGet (alSet s.chans iq.chan _) inp.chan = some c
                rw [C02.alGet_alSet]; simp [hne, hc1]
              · intro q' inp' hin'
                show (alGet (alSet s.chans iq.chan _) inp'.chan).isSome
                rw [C02.alGet_alSet]
                split
                · rfl
                · exact h.chansOK q' inp' hin'
            have hn1 : s1.tactic.get q ≤ n := by
              show (s.tactic.set q (s.tactic.get q - 1)).get q ≤ n
              rw [Dist.get_set]; simp; omega
            obtain ⟨acts, s', hr, ha, hl, ⟨dl, hd⟩, hown⟩ := ih s1 hn1 h1
            have htot : s1.tactic.total + 1 = s.tactic.total := by
              have := Dist.total_set s.tactic q (s.tactic.get q - 1)
              show (s.tactic.set q (s.tactic.get q - 1)).total + 1 = s.tactic.total
              omega
            refine ⟨.pollItem :: acts, s', by simp [run, hstep, hr], ha, by simp only [List.length_cons]; omega,
              ⟨(q, iq.chan, y) :: dl, ?_⟩, ?_⟩
            case refine_2 =>
              intro a ha'
              simp only [List.mem_cons] at ha'
              rcases ha' with e | e
              · subst e; rfl
              · exact hown a e
            rw [hd]
            show s.delivered ++ [(q, iq.chan, y)] ++ dl = s.delivered ++ (q, iq.chan, y) :: dl
            simp

/-- runs compose -/
theorem run_append (div : DivFn) : ∀ (l1 l2 : List Act) (u u1 u2 : St), run div u l1 = some u1 → run div u1 l2 = some u2 →
    run div u (l1 ++ l2) = some u2 := by
  intro l1
  induction l1 with
  | nil => intro l2 u u1 u2 e1 e2; simp [run] at e1; subst e1; simpa using e2
  | cons a l1 ihl =>
    intro l2 u u1 u2 e1 e2
    simp only [run, List.cons_append] at e1 ⊢
    split at e1
    · rename_i w hw; exact ihl l2 w u1 u2 e1 e2
    · cases e1

/-- **C06 (phase 1 delivers the head item of every priority ahead that has data and an
    allotment)** by the discipline's own poll actions, at most (total allotment) + (priorities
    ahead) of them. -/
theorem c06_phase1_delivers (div : DivFn) (p : Nat) (inp : Input) (x : Nat) :
    ∀ (rest : List Nat) (s : St), Ahead s p inp x rest →
      ∃ acts s', run div s acts = some s' ∧ (∃ dl, s'.delivered = s.delivered ++ dl ∧ (p, inp.chan, x) ∈ dl) ∧
        acts.length ≤ s.tactic.total + rest.length ∧ (∀ a ∈ acts, isOwn a = true) := by
  intro rest
  induction rest with
  | nil => intro s h; exact absurd h.mem (by simp)
  | cons q rest ih =>
    intro s h
    by_cases hqp : q = p
    · subst hqp
      obtain ⟨ch, qq, hc1, hc2⟩ := h.head
      have hnd : ¬ (inp.drained = true ∨ s.tactic.get q = 0) := by
        intro hh; rcases hh with e | e
        · rw [h.undrained] at e; cases e
        · have := h.allot; omega
      let s1 : St := { s with
        chans := alSet s.chans inp.chan { ch with queue := qq },
        taken := s.taken ++ [(inp.chan, x)],
        delivered := s.delivered ++ [(q, inp.chan, x)],
        tactic := s.tactic.set q (s.tactic.get q - 1),
        actual := s.actual.add q 1,
        inflight := s.inflight.add q 1,
        processed := s.processed + 1 }
      have hstep : step div s .pollItem = some s1 := by
        simp [step, h.pc, stepPoll, h.input, hnd, hc1, hc2, s1]
      exact ⟨[.pollItem], s1, by simp [run, hstep], ⟨[(q, inp.chan, x)], rfl, by simp⟩, by simp; omega, by simp [isOwn]⟩
    · obtain ⟨a1, s1, hr1, h1, hl1, ⟨d1, hd1⟩, ho1⟩ := skip_one div p inp x q rest hqp (s.tactic.get q) s (Nat.le_refl _) h
      obtain ⟨a2, s2, hr2, ⟨d2, hd2, hm2⟩, hl2, ho2⟩ := ih s1 h1
      refine ⟨a1 ++ a2, s2, run_append div a1 a2 s s1 s2 hr1 hr2,
        ⟨d1 ++ d2, by rw [hd2, hd1, List.append_assoc], List.mem_append_right _ hm2⟩, ?_,
        fun a ha => by rcases List.mem_append.1 ha with e | e; exact ho1 a e; exact ho2 a e⟩
      simp only [List.length_append, List.length_cons]
      omega


/-- in v2 a step never changes which channel a registered priority reads from -/
theorem v2_inputs_chan_step (div : DivFn) (s s' : St) (a : Act) (hv : s.cfg.v1 = false) (hs : step div s a = some s') :
    ∀ p inp', alGet s'.inputs p = some inp' → ∃ inp0, alGet s.inputs p = some inp0 ∧ inp0.chan = inp'.chan := by
  have same : ∀ u : St, u.inputs = s.inputs →
      ∀ p inp', alGet u.inputs p = some inp' → ∃ inp0, alGet s.inputs p = some inp0 ∧ inp0.chan = inp'.chan :=
    fun u hu p inp' hp => ⟨inp', by rw [← hu]; exact hp, rfl⟩
  have hd : ∀ (t : St) (p : Nat), (decActual t p).inputs = t.inputs := by
    intro t p; unfold decActual; split <;> rfl
  cases a with
  | top c => obtain ⟨_, _, hv'⟩ := step_top hs; rw [hv] at hv'; cases hv'
  | arrive c x => obtain ⟨_, _, _, rfl⟩ := step_arrive hs; exact same _ rfl
  | close c => obtain ⟨_, _, rfl⟩ := step_close hs; exact same _ rfl
  | release p => obtain ⟨_, rfl⟩ := step_release hs; exact same _ rfl
  | stop => obtain ⟨hv', _⟩ := step_stop hs; rw [hv] at hv'; cases hv'
  | graceful => obtain ⟨hv', _⟩ := step_graceful hs; rw [hv] at hv'; cases hv'
  | stopSeen => obtain ⟨hv', _⟩ := step_stopSeen hs; rw [hv] at hv'; cases hv'
  | «calc» => obtain ⟨_, rfl⟩ := step_calc hs; exact same _ (C07.stepCalc_frame div s).1
  | recalc => obtain ⟨_, rfl⟩ := step_recalc hs; exact same _ (C07.stepRecalc_frame div s).1
  | endRound =>
    obtain ⟨ph, _, _, hc⟩ := step_endRound hs
    rcases hc with ⟨_, _, _, rfl⟩ | ⟨_, rfl⟩ <;> exact same _ rfl
  | limitedStop => obtain ⟨k, _, rfl⟩ := step_limitedStop hs; exact same _ rfl
  | exit => obtain ⟨e, _, _, rfl⟩ := step_exit hs; exact same _ rfl
  | consume p =>
    obtain ⟨_, hc⟩ := step_consume hs
    have b := hd { s with pending := s.pending.erase p } p
    rcases hc with ⟨_, rfl⟩ | ⟨k, _, _, rfl⟩ | ⟨e, _, _, rfl⟩
    · split
      · exact same _ b
      · unfold afterWaitFb; split <;> exact same _ b
    · split <;> exact same _ b
    · exact same _ b
  | skip =>
    obtain ⟨ph, p, rest, _, hp⟩ := step_poll_pc (Or.inr (Or.inr (Or.inr (Or.inr rfl)))) hs
    obtain ⟨rfl, _⟩ := stepPoll_skip hp; exact same _ rfl
  | pollEmpty =>
    obtain ⟨ph, p, rest, _, hp⟩ := step_poll_pc (Or.inr (Or.inr (Or.inr (Or.inl rfl)))) hs
    have := stepPoll_empty hp; subst this; exact same _ rfl
  | pollClosed =>
    obtain ⟨ph, p, rest, _, hp⟩ := step_poll_pc (Or.inr (Or.inr (Or.inl rfl))) hs
    obtain ⟨inp, ch, hin, _, _, _, rfl⟩ := stepPoll_closed hp
    intro q inp' hq
    have hq' : alGet (alSet s.inputs p { inp with drained := true }) q = some inp' := hq
    rw [C02.alGet_alSet] at hq'
    split at hq'
    · rename_i e; subst e; cases hq'; exact ⟨inp, hin, rfl⟩
    · exact ⟨inp', hq', rfl⟩
  | pollItem =>
    obtain ⟨ph, p, rest, _, hp⟩ := step_poll_pc (Or.inl rfl) hs
    obtain ⟨_, _, _, _, _, _, _, _, _, rfl⟩ := stepPoll_item hp; exact same _ rfl
  | pollDrop =>
    obtain ⟨ph, p, rest, _, hp⟩ := step_poll_pc (Or.inr (Or.inl rfl)) hs
    obtain ⟨_, _, _, _, hv', _⟩ := stepPoll_drop hp; rw [hv] at hv'; cases hv'

/-- every priority of a v2 discipline reads from the channel it was created with (its own) -/
theorem v2_inputs_own_chan (div : DivFn) (keys : List (Nat × Bool)) (H : Nat) (s0 s : St) (acts : List Act)
    (h0 : initV2 div keys H = .ok s0) (hr : run div s0 acts = some s) :
    ∀ p inp, alGet s.inputs p = some inp → inp.chan = p := by
  have hv2 : s0.cfg.v1 = false := (C07.initV2_fill div keys H s0 h0).2.1
  have key : ∀ (acts : List Act) (u u' : St), u.cfg.v1 = false → (∀ p inp, alGet u.inputs p = some inp → inp.chan = p) →
      run div u acts = some u' → ∀ p inp, alGet u'.inputs p = some inp → inp.chan = p := by
    intro acts
    induction acts with
    | nil => intro u u' _ h hr; simp [run] at hr; subst hr; exact h
    | cons a as ih =>
      intro u u' hv h hr
      simp only [run] at hr
      split at hr
      · rename_i u1 hu1
        have hc := (C07.v2_static_step div u u1 a hv hu1).2.2.1
        refine ih u1 u' (by rw [hc]; exact hv) ?_ hr
        intro p inp hp
        obtain ⟨inp0, h1, h2⟩ := v2_inputs_chan_step div u u1 a hv hu1 p inp hp
        rw [← h2]; exact h p inp0 h1
      · cases hr
  refine key acts s0 s hv2 ?_ hr
  intro p inp hp
  unfold initV2 at h0
  split at h0
  · cases h0
  · cases h0
    rw [(C07.alGet_mkInputs keys p inp hp).1]

/-- **C06 (nothing in flight, an input has data ⇒ its head item is delivered, no release needed).**
    After ANY run of a v2 discipline (shares adding up to `H`): if the discipline is about to
    compute a round with nothing in flight, every registered, undrained priority whose channel has
    an item at its head gets that item delivered by the discipline's own steps alone — `calcTactic`
    and at most `H + n` poll actions. -/
theorem c06_idle_delivers (div : DivFn) (keys : List (Nat × Bool)) (H : Nat) (hH : 0 < H)
    (hnd : (keys.map (·.1)).Nodup) (s0 s : St) (acts : List Act) (h0 : initV2 div keys H = .ok s0)
    (hsum : sumOver s0.prios s0.strategic = H) (hr : run div s0 acts = some s)
    (hpc : s.pc = .calc) (hidle : s.actual.total = 0)
    (p : Nat) (inp : Input) (hin : alGet s.inputs p = some inp) (hud : inp.drained = false)
    (ch : Chan) (x : Nat) (q : List Nat) (hch : alGet s.chans inp.chan = some ch) (hq : ch.queue = x :: q) :
    ∃ acts' s', run div s (.calc :: acts') = some s' ∧
      (∃ dl, s'.delivered = s.delivered ++ dl ∧ (p, inp.chan, x) ∈ dl) ∧
      acts'.length ≤ H + s.prios.length ∧ (∀ a ∈ acts', isOwn a = true) := by
  obtain ⟨hfill, hv2, _, hH0⟩ := C07.initV2_fill div keys H s0 h0
  obtain ⟨hf, _⟩ := C01.initV2_fresh div keys H s0 h0
  obtain ⟨ht, hinv, hwf, hcfg⟩ := C07.tinv_run div acts s0 s (C01.fresh_inv hf) (C15.wf_initV2 div keys H s0 hnd h0)
    (C07.tinv_initV2 div keys H s0 h0) hr
  obtain ⟨c1, c2, c3, _⟩ := C07.v2_static_run div acts s0 s hv2 hr
  have hown := v2_inputs_own_chan div keys H s0 s acts h0 hr
  have hnodup : s.prios.Nodup := List.Pairwise.imp (fun h => Nat.ne_of_gt h) hwf.sorted
  have hsum' : sumOver s.prios s.strategic = s.cfg.H := by rw [c1, c2, c3, hH0]; exact hsum
  have hH' : 0 < s.cfg.H := by rw [c3, hH0]; exact hH
  obtain ⟨hpc', htac⟩ := c06_calc_idle div s hnodup hsum' hH' hidle
  obtain ⟨f1, f2, _, _, f5, _, _, _⟩ := C07.stepCalc_frame div s
  have hmem : p ∈ s.prios := (hwf.regs p).2 (by rw [hin]; rfl)
  have hstep : step div s .calc = some (stepCalc div s) := by simp [step, hpc]
  have hA : Ahead (stepCalc div s) p inp x s.prios := by
    refine ⟨hpc', hmem, by rw [f1]; exact hin, hud, ?_, ⟨ch, q, by rw [f2]; exact hch, hq⟩, ?_, ?_⟩
    · rw [htac p hmem]
      have := hfill p (by rw [← c1]; exact hmem)
      rw [c2]; omega
    · intro q' _ hne inp' hq'
      rw [f1] at hq'
      rw [hown q' inp' hq', hown p inp hin]; exact hne
    · intro q' inp' hq'
      rw [f1] at hq'; rw [f2]; exact ht.chansOK q' inp' hq'
  obtain ⟨acts', s', hr', hd', hl', ho'⟩ := c06_phase1_delivers div p inp x s.prios (stepCalc div s) hA
  have hdel : (stepCalc div s).delivered = s.delivered := by
    simp only [stepCalc]
    split
    · split <;> rfl
    · split <;> rfl
  rw [hdel] at hd'
  refine ⟨acts', s', by simp [run, hstep, hr'], hd', ?_, ho'⟩
  -- the total allotment is at most H
  have hcap := (C01.step_inv div s (stepCalc div s) .calc hinv hstep).1.cap
  rw [hpc'] at hcap
  simp only [capOk] at hcap
  have hc' : (stepCalc div s).cfg = s.cfg := (C07.stepCalc_frame div s).2.2.2.2.2.2.1
  rw [hc', c3, hH0] at hcap
  omega

end Cqos.C06
