import Cqos.Props.C07
import Cqos.Props.C08
/-
  Property C16 — v1: Stop / cancel always completes, closes the output, delivers nothing new.

  On the v1 scheduler machine (the tree with the repaired `waitCalcTactic`, defect D3):
  once the stop signal is visible (`stopped`), in EVERY non-terminated state the discipline
  has an enabled step, and taking the stop branch wherever a `select` offers it
  (`stopAct`) strictly decreases a measure bounded by `7 + 2·#priorities`, changes no
  delivery, and ends in `done`.  No state ignores the stop signal: all handlers busy, the
  consumer not reading, producers blocked, the release never sent.
  What is NOT proved is the time Go's `select` needs to pick the ready stop case among other
  ready cases (probabilistic fairness of the runtime) — partial.

  For v1 join: the stop branch is enabled in `run` and in `await` and leads to `done`, after
  which the event log is frozen (C08).  Deliveries are an in-order duplicate-free
  sub-sequence of what was written (C02's `c02_subsequence`, C03's `c03_prefix`).
-/
namespace Cqos.C16

/-- take the stop branch wherever it is offered; otherwise the only possible step -/
def stopAct (s : St) : Option Act :=
  match s.pc with
  | .top => some (.top .stop)
  | .calc => some .calc
  | .waitFb => some .stopSeen
  | .prio ph [] => if ph = 1 then some .recalc else some .endRound
  | .prio _ (p :: _) =>
    (match alGet s.inputs p with
     | none => some .skip
     | some inp => if inp.drained ∨ s.tactic.get p = 0 then some .skip else some .stopSeen)
  | .limited _ => some .stopSeen
  | .drain _ => some .stopSeen
  | .done _ => none
  | .fault => none

/-- distance to termination under `stopAct` -/
def mu (s : St) : Nat :=
  match s.pc with
  | .done _ => 0
  | .fault => 0
  | .drain _ => 1
  | .top => 2
  | .limited _ => 3
  | .prio ph rest => if ph = 1 then 5 + s.prios.length + rest.length else 4 + rest.length
  | .waitFb => 6 + 2 * s.prios.length
  | .calc => 7 + 2 * s.prios.length

/-- **C16 (no state ignores Stop; bounded exit).** In a stopped v1 discipline that has not
    terminated, `stopAct` is enabled, keeps the stop flag, the configuration, the priorities
    and the deliveries, and strictly decreases `mu`. -/
theorem c16_stop_step (div : DivFn) (s : St) (hv : s.cfg.v1 = true) (hst : s.stopped = true)
    (hinv : Inv s) (hw : C15.WF s) (ht : C07.TInv s) (hnd : ∀ e, s.pc ≠ .done e) :
    ∃ a s', stopAct s = some a ∧ step div s a = some s' ∧ mu s' < mu s ∧
      s'.stopped = true ∧ s'.cfg = s.cfg ∧ s'.prios = s.prios ∧ s'.delivered = s.delivered := by
  cases hpc : s.pc with
  | done e => exact absurd hpc (hnd e)
  | fault => exact absurd hpc hinv.nofault
  | top =>
    refine ⟨.top .stop, { s with pc := .drain none }, by simp [stopAct, hpc], ?_, by simp [mu, hpc], hst, rfl, rfl, rfl⟩
    simp [step, hpc, hv, stepTop, hst]
  | drain e =>
    refine ⟨.stopSeen, { s with pc := .done e }, by simp [stopAct, hpc], ?_, by simp [mu, hpc], hst, rfl, rfl, rfl⟩
    simp [step, hpc, hv, hst]
  | limited k =>
    refine ⟨.stopSeen, nextRound s, by simp [stopAct, hpc], ?_, ?_, hst, rfl, rfl, rfl⟩
    · simp [step, hpc, hv, hst]
    · simp [mu, hpc, nextRound, hv]
  | waitFb =>
    refine ⟨.stopSeen, afterWaitFb s, by simp [stopAct, hpc], ?_, ?_, ?_, ?_, ?_, ?_⟩
    · simp [step, hpc, hv, hst]
    · simp [mu, hpc, afterWaitFb, hv, hst]; omega
    all_goals simp [afterWaitFb, hv, hst]
  | «calc» =>
    refine ⟨.calc, stepCalc div s, by simp [stopAct, hpc], by simp [step, hpc], ?_, ?_, ?_, ?_, ?_⟩
    · simp only [stepCalc]
      split
      · simp [hv, mu, hpc]; omega
      · split <;> simp [mu, hpc] <;> omega
    all_goals (simp only [stepCalc]; split <;> (try split) <;> (try split) <;> first | exact hst | rfl)
  | prio ph rest =>
    cases rest with
    | nil =>
      by_cases h1 : ph = 1
      · subst h1
        refine ⟨.recalc, stepRecalc div s, by simp [stopAct, hpc], by simp [step, hpc], ?_, ?_, ?_, ?_, ?_⟩
        · simp only [stepRecalc]
          split <;> simp [mu, hpc] <;> omega
        all_goals (simp only [stepRecalc]; split <;> first | exact hst | rfl)
      · by_cases hc : s.processed = 0 ∧ (¬ s.cfg.v1 ∨ s.graceful) ∧ allDrained s.inputs
        · refine ⟨.endRound, { s with pc := .drain none }, by simp [stopAct, hpc, h1], ?_, by simp [mu, hpc, h1], hst, rfl, rfl, rfl⟩
          simp only [step, hpc, h1, if_false]
          rw [if_pos hc]
        · refine ⟨.endRound, { s with pc := .limited s.cfg.fbLimit }, by simp [stopAct, hpc, h1], ?_, by simp [mu, hpc, h1], hst, rfl, rfl, rfl⟩
          simp only [step, hpc, h1, if_false]
          rw [if_neg hc]
    | cons p rest' =>
      have hmu : mu { s with pc := .prio ph rest' } < mu s := by
        simp only [mu, hpc]; split <;> simp <;> omega
      cases hin : alGet s.inputs p with
      | none =>
        refine ⟨.skip, { s with pc := .prio ph rest' }, by simp [stopAct, hpc, hin], ?_, hmu, hst, rfl, rfl, rfl⟩
        simp [step, hpc, stepPoll, hin]
      | some inp =>
        by_cases hd : inp.drained = true ∨ s.tactic.get p = 0
        · refine ⟨.skip, { s with pc := .prio ph rest' }, by simp [stopAct, hpc, hin, hd], ?_, hmu, hst, rfl, rfl, rfl⟩
          simp [step, hpc, stepPoll, hin, hd]
        · have hch := ht.chansOK p inp hin
          cases hc : alGet s.chans inp.chan with
          | none => simp [hc] at hch
          | some ch =>
            refine ⟨.stopSeen, { s with pc := .prio ph rest' }, by simp [stopAct, hpc, hin, hd], ?_, hmu, hst, rfl, rfl, rfl⟩
            simp [step, hpc, stepPoll, hin, hd, hc, hv, hst]

/-- iterate `stopAct` -/
def stopRun (div : DivFn) : Nat → St → St
  | 0, s => s
  | n + 1, s =>
    match stopAct s with
    | none => s
    | some a =>
      match step div s a with
      | none => s
      | some s' => stopRun div n s'

/-- **C16 (exit bound).** From any reachable stopped v1 state, at most `mu s ≤ 7 + 2·#priorities`
    stop-preferring steps lead to `done`, and nothing is delivered on the way. -/
theorem c16_exit_bound (div : DivFn) (n : Nat) (s : St) (hv : s.cfg.v1 = true) (hst : s.stopped = true)
    (hinv : Inv s) (hw : C15.WF s) (ht : C07.TInv s) (hn : mu s ≤ n) :
    (∃ e, (stopRun div n s).pc = .done e) ∧ (stopRun div n s).delivered = s.delivered := by
  induction n generalizing s with
  | zero =>
    have h0 : mu s = 0 := by omega
    simp only [stopRun]
    cases hpc : s.pc with
    | done e => exact ⟨⟨e, rfl⟩, trivial⟩
    | fault => exact absurd hpc hinv.nofault
    | _ => simp [mu, hpc] at h0 <;> (try split at h0) <;> omega
  | succ n ih =>
    by_cases hd : ∃ e, s.pc = .done e
    · obtain ⟨e, he⟩ := hd
      simp only [stopRun, stopAct, he]
      exact ⟨⟨e, rfl⟩, trivial⟩
    · have hnd : ∀ e, s.pc ≠ .done e := fun e he => hd ⟨e, he⟩
      obtain ⟨a, s', ha, hs, hmu, hst', hc, _, hdel⟩ := c16_stop_step div s hv hst hinv hw ht hnd
      simp only [stopRun, ha, hs]
      have h1 := C01.step_inv div s s' a hinv hs
      have := ih s' (by rw [hc]; exact hv) hst' h1.1 (C15.wf_step div s s' a hinv hw hs)
        (C07.tinv_step div s s' a hinv hw ht hs) (by omega)
      exact ⟨this.1, by rw [this.2, hdel]⟩

/-- **C16 (quiet after termination).** Once `done`, no discipline action is enabled: nothing
    more is ever written to the output. -/
theorem c16_quiet (div : DivFn) (s s' : St) (a : Act) (e : Option Err) (hpc : s.pc = .done e)
    (hs : step div s a = some s') : s'.delivered = s.delivered ∧ s'.pc = .done e := by
  cases a with
  | arrive c x => obtain ⟨_, _, _, rfl⟩ := step_arrive hs; exact ⟨rfl, hpc⟩
  | close c => obtain ⟨_, _, rfl⟩ := step_close hs; exact ⟨rfl, hpc⟩
  | release p => obtain ⟨_, rfl⟩ := step_release hs; exact ⟨rfl, hpc⟩
  | stop => obtain ⟨_, rfl⟩ := step_stop hs; exact ⟨rfl, hpc⟩
  | graceful => obtain ⟨_, rfl⟩ := step_graceful hs; exact ⟨rfl, hpc⟩
  | top c => have := (step_top hs).1; rw [hpc] at this; cases this
  | «calc» => have := (step_calc hs).1; rw [hpc] at this; cases this
  | recalc => have := (step_recalc hs).1; rw [hpc] at this; cases this
  | endRound => obtain ⟨ph, h1, _⟩ := step_endRound hs; rw [hpc] at h1; cases h1
  | limitedStop => obtain ⟨k, h1, _⟩ := step_limitedStop hs; rw [hpc] at h1; cases h1
  | exit => obtain ⟨e', h1, _⟩ := step_exit hs; rw [hpc] at h1; cases h1
  | consume p =>
    obtain ⟨_, hc⟩ := step_consume hs
    rcases hc with ⟨h1, _⟩ | ⟨k, h1, _⟩ | ⟨e', h1, _⟩ <;> (rw [hpc] at h1; cases h1)
  | stopSeen =>
    obtain ⟨_, _, hc⟩ := step_stopSeen hs
    rcases hc with ⟨h1, _⟩ | ⟨ph, p, rest, h1, _⟩ | ⟨k, h1, _⟩ | ⟨e', h1, _⟩ <;> (rw [hpc] at h1; cases h1)
  | pollItem => obtain ⟨ph, p, rest, h1, _⟩ := step_poll_pc (Or.inl rfl) hs; rw [hpc] at h1; cases h1
  | pollDrop => obtain ⟨ph, p, rest, h1, _⟩ := step_poll_pc (Or.inr (Or.inl rfl)) hs; rw [hpc] at h1; cases h1
  | pollClosed => obtain ⟨ph, p, rest, h1, _⟩ := step_poll_pc (Or.inr (Or.inr (Or.inl rfl))) hs; rw [hpc] at h1; cases h1
  | pollEmpty => obtain ⟨ph, p, rest, h1, _⟩ := step_poll_pc (Or.inr (Or.inr (Or.inr (Or.inl rfl)))) hs; rw [hpc] at h1; cases h1
  | skip => obtain ⟨ph, p, rest, h1, _⟩ := step_poll_pc (Or.inr (Or.inr (Or.inr (Or.inr rfl)))) hs; rw [hpc] at h1; cases h1

/-- the unrepaired `waitCalcTactic` (defect D3) as a machine fragment: with every handler
    busy the cycle calc → waitFb → (stop seen, nothing consumed) → calc never leaves -/
def afterWaitFbUnfixed (s : St) : St := { s with pc := .calc }

theorem c16_unfixed_cycle (div : DivFn) (s : St) (hbusy : s.actual.total = s.cfg.H) :
    (stepCalc div s).pc = .waitFb ∧ (afterWaitFbUnfixed (stepCalc div s)).pc = .calc ∧
    (afterWaitFbUnfixed (stepCalc div s)).actual = s.actual := by
  have hnot : ¬ s.cfg.H < s.actual.total := by omega
  simp [stepCalc, hnot, calcTacticWith, hbusy, afterWaitFbUnfixed]

/-! ### v1 join -/

/-- **C16 (join: Stop is never ignored).** In a stopped v1 join that has not terminated the
    stop branch is enabled — also while waiting for the release signal — and leads to `done`. -/
theorem c16_join_stop (s : JSt) (t : Nat) (hv : s.cfg.v1 = true) (hst : s.stopped = true) (hnd : s.pc ≠ .done) :
    ∃ s', jstep s (.stopSeen t) = some s' ∧ s'.pc = .done ∧ s'.out = s.out := by
  cases hpc : s.pc with
  | run => exact ⟨{ s with pc := .done, passAt := t }, by simp [jstep, hpc, hv, hst], rfl, rfl⟩
  | await n => exact ⟨{ s with pc := .done, unreleased := true }, by simp [jstep, hpc, hv, hst], rfl, rfl⟩
  | done => exact absurd hpc hnd

/-! Non-vacuity: all handlers busy, nothing released, Stop: the machine still terminates. -/
example :
    let div : DivFn := fun _ => fair
    let s0 := initV1 div [(1, true)] 1
    ((run div s0 [.arrive 1 7, .arrive 1 8, .top .none, .calc, .pollItem, .skip, .recalc, .skip, .endRound,
        .limitedStop, .top .none, .calc, .stop]).map
      (fun s => ((stopRun div 20 s).pc, (stopRun div 20 s).delivered, s.inflight.total))) =
    some (.done none, [(1, 1, 7)], 1) := by decide

end Cqos.C16
