import Cqos.Props.C04
/-
  Property C12, last clause: "N elements available up-front are delivered within about
  ceil(N/Quantity) Intervals" — the limit discipline does not throttle below the configured
  rate.

  The lower bounds of C04 hold for every action list.  An upper bound needs the runtime to
  cooperate; what is needed is made explicit as `promptRun ε`: every clock reading the
  discipline takes is at most `ε` after the previous one (the elements are available, the
  consumer is ready, the goroutine is scheduled), and `time.Sleep` oversleeps by at most `ε`.
  Then, for every run, every element count and every rate with `(Quantity+1)·ε ≤ Interval`:

      the i-th element (0-based) leaves the output at a reading
          ≤ t0 + ⌊i/Quantity⌋·(Interval + 2ε) + (Quantity+1)·ε          (`c12_item_upper`)

  i.e. `N` elements are out after `⌈N/Quantity⌉ − 1` pauses of about one Interval each.  A change
  that makes a pause longer than `Interval − (time already spent on the batch)`, or that adds a
  pause, breaks `u_step` at the `batchEnd` / `wake` cases.
-/
namespace Cqos.C12
open Cqos.C04

/-- the runtime cooperates: readings are at most `ε` apart, Sleep oversleeps at most `ε` -/
def promptOk (ε : Nat) (s : LSt) (a : LAct) : Bool :=
  match s.pc, a with
  | .sleeping u, .wake t => decide (t ≤ u + ε)
  | _, .start t => decide (t ≤ s.now + ε)
  | _, .sent t => decide (t ≤ s.now + ε)
  | _, .batchEnd t => decide (t ≤ s.now + ε)
  | _, _ => true

def promptRun (ε : Nat) : LSt → List LAct → Option LSt
  | s, [] => some s
  | s, a :: as =>
    if promptOk ε s a then (match lstep s a with | some s' => promptRun ε s' as | none => none) else none

/-- where the machine is on the time axis, from above (`W = Interval + 2ε` per completed batch) -/
def upOK (ε : Nat) (s : LSt) : Prop :=
  match s.pc with
  | .idle => s.now ≤ s.t0 + s.sleeps.length * (s.cfg.interval + 2 * ε)
  | .batch k st => st ≤ s.t0 + s.sleeps.length * (s.cfg.interval + 2 * ε) + ε ∧ s.now ≤ st + k * ε
  | .holding k st _ => st ≤ s.t0 + s.sleeps.length * (s.cfg.interval + 2 * ε) + ε ∧ s.now ≤ st + k * ε
  | .sleeping u => u + ε ≤ s.t0 + s.sleeps.length * (s.cfg.interval + 2 * ε)
  | .done => True

structure UInv (ε : Nat) (s : LSt) : Prop where
  loc : upOK ε s
  items : ∀ i (hi : i < s.sent.length),
    (s.sent[i]).2 ≤ s.t0 + (i / s.cfg.quantity) * (s.cfg.interval + 2 * ε) + (s.cfg.quantity + 1) * ε

theorem u_step (ε : Nat) (s s' : LSt) (a : LAct) (hq : 0 < s.cfg.quantity)
    (hε : (s.cfg.quantity + 1) * ε ≤ s.cfg.interval) (hl : LInv s) (h : UInv ε s)
    (hp : promptOk ε s a = true) (hs : lstep s a = some s') : UInv ε s' := by
  have hloc := h.loc
  have hc := hl.count
  have hh := hl.hold
  have hk := hl.kle
  unfold lstep at hs
  split at hs
  · rename_i t hpc
    split at hs
    · cases hs
      simp only [upOK, hpc] at hloc
      simp only [promptOk, hpc, decide_eq_true_eq] at hp
      refine ⟨?_, h.items⟩
      simp only [upOK]
      exact ⟨by omega, by omega⟩
    · cases hs
  · rename_i k st x hpc
    split at hs
    · cases hs
      simp only [upOK, hpc] at hloc
      exact ⟨by simpa [upOK] using hloc, h.items⟩
    · cases hs
  · split at hs
    · cases hs; exact ⟨by simp [upOK], h.items⟩
    · cases hs
  · rename_i k st x t hpc
    split at hs
    · cases hs
      simp only [upOK, hpc] at hloc
      simp only [promptOk, hpc, decide_eq_true_eq] at hp
      simp only [isHolding, inBatch, hpc, forall_const] at hh
      have hsucc : (k + 1) * ε = k * ε + ε := Nat.succ_mul k ε
      refine ⟨?_, ?_⟩
      · simp only [upOK]; exact ⟨hloc.1, by omega⟩
      · intro i hi
        simp only [List.length_append, List.length_cons, List.length_nil] at hi
        by_cases hlt : i < s.sent.length
        · simp only [List.getElem_append_left hlt]; exact h.items i hlt
        · have hi' : i = s.sent.length := by omega
          subst hi'
          simp only [List.getElem_append_right (Nat.le_refl _), Nat.sub_self, List.getElem_cons_zero]
          have hcnt : s.sent.length = s.cfg.quantity * s.sleeps.length + k := by
            rcases hc with ⟨_, e⟩ | ⟨e, _⟩
            · simpa [inBatch, hpc] using e
            · rw [hpc] at e; cases e
          have hdiv : s.sent.length / s.cfg.quantity = s.sleeps.length := by
            rw [hcnt, Nat.mul_add_div hq, Nat.div_eq_of_lt hh]; simp
          rw [hdiv]
          have hke : (k + 1) * ε ≤ s.cfg.quantity * ε := Nat.mul_le_mul_right ε hh
          have hq1 : (s.cfg.quantity + 1) * ε = s.cfg.quantity * ε + ε := Nat.succ_mul _ ε
          omega
    · cases hs
  · rename_i k st t hpc
    split at hs
    · rename_i hc2
      cases hs
      simp only [upOK, hpc] at hloc
      simp only [promptOk, hpc, decide_eq_true_eq] at hp
      refine ⟨?_, h.items⟩
      simp only [upOK, List.length_append, List.length_cons, List.length_nil]
      have hq1 : (s.cfg.quantity + 1) * ε = s.cfg.quantity * ε + ε := Nat.succ_mul _ ε
      have hkq : k * ε = s.cfg.quantity * ε := by rw [hc2.1]
      have hmax : max t (st + s.cfg.interval) ≤ st + s.cfg.interval := by
        apply Nat.max_le.2; exact ⟨by omega, Nat.le_refl _⟩
      rw [Nat.add_mul, Nat.one_mul]
      omega
    · cases hs
  · rename_i u t hpc
    split at hs
    · cases hs
      simp only [upOK, hpc] at hloc
      simp only [promptOk, hpc, decide_eq_true_eq] at hp
      exact ⟨by simp only [upOK]; omega, h.items⟩
    · cases hs
  · cases hs

theorem u_run (ε : Nat) (acts : List LAct) (s s' : LSt) (hq : 0 < s.cfg.quantity)
    (hε : (s.cfg.quantity + 1) * ε ≤ s.cfg.interval) (hl : LInv s) (h : UInv ε s)
    (hr : promptRun ε s acts = some s') : UInv ε s' ∧ LInv s' ∧ s'.cfg = s.cfg ∧ s'.t0 = s.t0 := by
  induction acts generalizing s with
  | nil => simp [promptRun] at hr; subst hr; exact ⟨h, hl, rfl, rfl⟩
  | cons a as ih =>
    simp only [promptRun] at hr
    split at hr
    · rename_i hp
      split at hr
      · rename_i s1 hs1
        obtain ⟨hl1, hc1⟩ := lstep_inv s s1 a hl hs1
        have hu1 := u_step ε s s1 a hq hε hl h hp hs1
        have ht0 : s1.t0 = s.t0 := by
          unfold lstep at hs1
          split at hs1 <;> (try split at hs1) <;> (try (cases hs1; done)) <;> (cases hs1; rfl)
        obtain ⟨r1, r2, r3, r4⟩ := ih s1 (by rw [hc1]; exact hq) (by rw [hc1]; exact hε) hl1 hu1 hr
        exact ⟨r1, r2, by rw [r3, hc1], by rw [r4, ht0]⟩
      · cases hr
    · cases hr

/-- **C12 (no throttling below the configured rate).** Along every run in which the runtime
    cooperates (`promptRun ε`), for every rate with `(Quantity+1)·ε ≤ Interval`: the i-th element
    (0-based) leaves the output no later than `t0 + ⌊i/Quantity⌋·(Interval+2ε) + (Quantity+1)·ε` —
    `N` elements available up-front are out within about `⌈N/Quantity⌉` Intervals. -/
theorem c12_item_upper (cfg : LCfg) (t0 ε : Nat) (hq : 0 < cfg.quantity) (hε : (cfg.quantity + 1) * ε ≤ cfg.interval)
    (acts : List LAct) (s : LSt) (hr : promptRun ε (linit cfg t0) acts = some s) (i : Nat) (hi : i < s.sent.length) :
    (s.sent[i]).2 ≤ t0 + (i / cfg.quantity) * (cfg.interval + 2 * ε) + (cfg.quantity + 1) * ε := by
  have h0 : UInv ε (linit cfg t0) := ⟨by simp [upOK, linit], by simp [linit]⟩
  obtain ⟨h, _, hc, ht⟩ := u_run ε acts _ s hq hε (linit_inv cfg t0) h0 hr
  have := h.items i hi
  have hc' : s.cfg = cfg := by rw [hc]; rfl
  have ht' : s.t0 = t0 := by rw [ht]; rfl
  rw [hc', ht'] at this; exact this

/-- together with C04: the i-th element leaves inside a window of width `⌊i/Q⌋·2ε + (Q+1)·ε` -/
theorem c12_item_window (cfg : LCfg) (t0 ε : Nat) (hq : 0 < cfg.quantity) (hε : (cfg.quantity + 1) * ε ≤ cfg.interval)
    (acts : List LAct) (s : LSt) (hr : promptRun ε (linit cfg t0) acts = some s) (hr' : lrun (linit cfg t0) acts = some s)
    (i : Nat) (hi : i < s.sent.length) :
    t0 + (i / cfg.quantity) * cfg.interval ≤ (s.sent[i]).2 ∧
    (s.sent[i]).2 ≤ t0 + (i / cfg.quantity) * (cfg.interval + 2 * ε) + (cfg.quantity + 1) * ε :=
  ⟨c04_item_time cfg t0 hq acts s hr' i hi, c12_item_upper cfg t0 ε hq hε acts s hr i hi⟩

/-! Non-vacuity: Quantity 2, Interval 100, ε = 5: five elements available up-front. -/
example :
    (promptRun 5 (linit ⟨2, 100⟩ 0)
      [.start 1, .recv 10, .sent 2, .recv 11, .sent 3, .batchEnd 4, .wake 103,
       .start 104, .recv 12, .sent 105, .recv 13, .sent 106, .batchEnd 107, .wake 206,
       .start 207, .recv 14, .sent 208, .closed]).map (fun s => s.sent) =
      some [(10, 2), (11, 3), (12, 105), (13, 106), (14, 208)] := by decide
/-- a run in which Sleep oversleeps by more than ε is not a prompt run (the hypothesis has content) -/
example :
    promptRun 5 (linit ⟨2, 100⟩ 0)
      [.start 1, .recv 10, .sent 2, .recv 11, .sent 3, .batchEnd 4, .wake 150] = none := by decide

end Cqos.C12
