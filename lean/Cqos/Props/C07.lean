import Cqos.Props.C15
/-
  Property C07 — the discipline terminates exactly when its inputs are drained and all
  items released.

  * safety (every action list, every divider): `done` is reached only with every
    registered input drained — its channel closed and empty — and, unless it was stopped
    (v1 Stop / cancel), with nothing in flight and no release outstanding;
  * with a divider that obeys the sum rule the error channel yields no error;
  * the closing order (output before err, nothing before `loop` returns) is read off the
    regenerated defer table (facts, C19).
  Promptness: Cqos/Props/C07p.lean (bounded number of the discipline's own steps from every
  reachable state in which "that is the case"); the wall-clock length of a step is a runtime
  matter (partial).
-/
namespace Cqos.C07

/-- a drained input's channel is closed and empty -/
def DrainedOK (s : St) : Prop :=
  ∀ p inp, alGet s.inputs p = some inp → inp.drained = true →
    ∃ ch, alGet s.chans inp.chan = some ch ∧ ch.closed = true ∧ ch.queue = []

/-- the discipline left its loop normally only with all inputs drained -/
def ExitOK (s : St) : Prop :=
  (s.pc = .drain none ∨ s.pc = .done none) → allDrained s.inputs = true ∨ (s.cfg.v1 = true ∧ s.stopped = true)

/-- a terminated discipline holds nothing -/
def DoneOK (s : St) : Prop :=
  ∀ e, s.pc = .done e → s.actual.total = 0 ∨ (s.cfg.v1 = true ∧ s.stopped = true)

structure TInv (s : St) : Prop where
  drained : DrainedOK s
  exit : ExitOK s
  done : DoneOK s
  chansOK : ∀ p inp, alGet s.inputs p = some inp → (alGet s.chans inp.chan).isSome

theorem alGet_mem_all {α} (l : List (Nat × α)) (f : Nat × α → Bool) (h : l.all f = true) (k : Nat) (v : α)
    (hk : alGet l k = some v) : f (k, v) = true := by
  induction l with
  | nil => simp [alGet] at hk
  | cons e r ih =>
    obtain ⟨k0, v0⟩ := e
    simp only [List.all_cons, Bool.and_eq_true] at h
    simp only [alGet] at hk
    split at hk
    · rename_i he; cases hk; subst he; exact h.1
    · exact ih h.2 hk

/-- frame: a step that touches neither inputs nor channel states nor the exit-relevant
    control keeps the invariant -/
theorem tinv_same {s u : St} (h : TInv s) (hi : u.inputs = s.inputs) (hc : u.chans = s.chans)
    (hexit : ExitOK u) (hdone : DoneOK u) : TInv u :=
  ⟨by unfold DrainedOK; rw [hi, hc]; exact h.drained, hexit, hdone, by rw [hi, hc]; exact h.chansOK⟩

theorem noexit_calc {u : St} (hp : u.pc = .calc) : ExitOK u ∧ DoneOK u :=
  ⟨fun h => by rcases h with h | h <;> (rw [hp] at h; cases h), fun e h => by rw [hp] at h; cases h⟩

theorem drainedOK_of_chan_update {s : St} (h : TInv s) (c : Nat) (ch ch' : Chan) (hch : alGet s.chans c = some ch)
    (hok : ch.closed = true → ch.queue = [] → ch'.closed = true ∧ ch'.queue = [])
    (inputs' : List (Nat × Input)) (hin : ∀ p inp, alGet inputs' p = some inp → inp.drained = true →
      alGet s.inputs p = some inp) :
    ∀ p inp, alGet inputs' p = some inp → inp.drained = true →
      ∃ x, alGet (alSet s.chans c ch') inp.chan = some x ∧ x.closed = true ∧ x.queue = [] := by
  intro p inp hp hd
  obtain ⟨x, hx, hc, hq⟩ := h.drained p inp (hin p inp hp hd) hd
  rw [alGet_alSet']
  by_cases he : c = inp.chan
  · subst he
    rw [hch] at hx; cases hx
    exact ⟨ch', by simp, (hok hc hq).1, (hok hc hq).2⟩
  · simp only [he, if_false]; exact ⟨x, hx, hc, hq⟩

theorem chansOK_alSet {s : St} (h : TInv s) (c : Nat) (ch' : Chan) :
    ∀ p inp, alGet s.inputs p = some inp → (alGet (alSet s.chans c ch') inp.chan).isSome := by
  intro p inp hp
  rw [alGet_alSet']
  split
  · simp
  · exact h.chansOK p inp hp

/-- **one step keeps the termination invariant** -/
theorem tinv_step (div : DivFn) (s s' : St) (a : Act) (hinv : Inv s) (hw : C15.WF s) (h : TInv s)
    (hs : step div s a = some s') : TInv s' := by
  have noexit : ∀ u : St, (∀ e, u.pc ≠ .drain e) → (∀ e, u.pc ≠ .done e) → ExitOK u ∧ DoneOK u := by
    intro u h1 h2
    exact ⟨fun hp => by rcases hp with hp | hp; exact absurd hp (h1 _); exact absurd hp (h2 _),
      fun e hp => absurd hp (h2 e)⟩
  cases a with
  | arrive c x =>
    obtain ⟨ch, hch, hcl, rfl⟩ := step_arrive hs
    refine ⟨drainedOK_of_chan_update h c ch _ hch (fun hc _ => by rw [hcl] at hc; cases hc) s.inputs (fun _ _ hp _ => hp),
      h.exit, h.done, chansOK_alSet h c _⟩
  | close c =>
    obtain ⟨ch, hch, rfl⟩ := step_close hs
    refine ⟨drainedOK_of_chan_update h c ch { ch with closed := true } hch (fun _ hq => ⟨rfl, hq⟩) s.inputs (fun _ _ hp _ => hp),
      h.exit, h.done, chansOK_alSet h c _⟩
  | release p => obtain ⟨_, rfl⟩ := step_release hs; exact tinv_same h rfl rfl h.exit h.done
  | stop =>
    obtain ⟨hv, rfl⟩ := step_stop hs
    exact tinv_same h rfl rfl (fun _ => Or.inr ⟨hv, rfl⟩) (fun e _ => Or.inr ⟨hv, rfl⟩)
  | graceful => obtain ⟨_, rfl⟩ := step_graceful hs; exact tinv_same h rfl rfl h.exit h.done
  | «calc» =>
    obtain ⟨_, rfl⟩ := step_calc hs
    have hpc : (∀ e, (stepCalc div s).pc ≠ .drain none ∧ (stepCalc div s).pc ≠ .done e) := by
      intro e; simp only [stepCalc]; split <;> (try split) <;> simp
    have hi : (stepCalc div s).inputs = s.inputs := by simp only [stepCalc]; split <;> (try split) <;> rfl
    have hc : (stepCalc div s).chans = s.chans := by simp only [stepCalc]; split <;> (try split) <;> rfl
    exact tinv_same h hi hc (fun hp => by rcases hp with hp | hp; exact absurd hp (hpc none).1; exact absurd hp (hpc none).2)
      (fun e hp => absurd hp (hpc e).2)
  | recalc =>
    obtain ⟨_, rfl⟩ := step_recalc hs
    have hpc : (∀ e, (stepRecalc div s).pc ≠ .drain none ∧ (stepRecalc div s).pc ≠ .done e) := by
      intro e; simp only [stepRecalc]; split <;> simp
    have hi : (stepRecalc div s).inputs = s.inputs := by simp only [stepRecalc]; split <;> rfl
    have hc : (stepRecalc div s).chans = s.chans := by simp only [stepRecalc]; split <;> rfl
    exact tinv_same h hi hc (fun hp => by rcases hp with hp | hp; exact absurd hp (hpc none).1; exact absurd hp (hpc none).2)
      (fun e hp => absurd hp (hpc e).2)
  | endRound =>
    obtain ⟨ph, _, _, hc⟩ := step_endRound hs
    rcases hc with ⟨_, _, hd, rfl⟩ | ⟨_, rfl⟩
    · exact tinv_same h rfl rfl (fun _ => Or.inl hd) (fun e hp => by simp at hp)
    · obtain ⟨h1, h2⟩ := noexit { s with pc := .limited s.cfg.fbLimit } (by simp) (by simp)
      exact tinv_same h rfl rfl h1 h2
  | limitedStop =>
    obtain ⟨k, _, rfl⟩ := step_limitedStop hs
    obtain ⟨h1, h2⟩ := noexit (nextRound s) (fun e => by rcases nextRound_pc s with e' | e' <;> simp [e'])
      (fun e => by rcases nextRound_pc s with e' | e' <;> simp [e'])
    exact tinv_same h rfl rfl h1 h2
  | exit =>
    obtain ⟨e, hpc, hz, rfl⟩ := step_exit hs
    refine tinv_same h rfl rfl (fun hp => ?_) (fun e' _ => Or.inl ((Dist.allZero_iff_total _).1 hz))
    rcases hp with hp | hp
    · simp at hp
    · simp only [Pc.done.injEq] at hp; subst hp; exact h.exit (Or.inl hpc)
  | consume p =>
    obtain ⟨hp, hc⟩ := step_consume hs
    obtain ⟨h1, _, _, _, _⟩ := decActual_spec { s with pending := s.pending.erase p } p s.pending hinv.core hp rfl
    have hi : (decActual { s with pending := s.pending.erase p } p).inputs = s.inputs := by unfold decActual; split <;> rfl
    have hch : (decActual { s with pending := s.pending.erase p } p).chans = s.chans := by unfold decActual; split <;> rfl
    have hnf : (decActual { s with pending := s.pending.erase p } p).pc ≠ .fault := by rw [h1]; exact hinv.nofault
    rcases hc with ⟨hpc, rfl⟩ | ⟨k, hpc, _, rfl⟩ | ⟨e, hpc, _, rfl⟩
    · simp only [hnf, if_false]
      have : ∀ e, (afterWaitFb (decActual { s with pending := s.pending.erase p } p)).pc ≠ .drain e ∧
          (afterWaitFb (decActual { s with pending := s.pending.erase p } p)).pc ≠ .done e := by
        intro e; unfold afterWaitFb; split <;> simp
      obtain ⟨x1, x2⟩ := noexit _ (fun e => (this e).1) (fun e => (this e).2)
      exact tinv_same h (by unfold afterWaitFb; split <;> exact hi) (by unfold afterWaitFb; split <;> exact hch) x1 x2
    · simp only [hnf, if_false]
      obtain ⟨x1, x2⟩ := noexit { decActual { s with pending := s.pending.erase p } p with pc := .limited (k - 1) } (by simp) (by simp)
      exact tinv_same h hi hch x1 x2
    · refine tinv_same h hi hch (fun hp' => ?_) (fun e' hp' => by rw [h1] at hp'; simp [hpc] at hp')
      rw [h1] at hp'
      have := h.exit (by simpa using hp')
      unfold decActual; split <;> exact this
  | stopSeen =>
    obtain ⟨hv, hst, hc⟩ := step_stopSeen hs
    rcases hc with ⟨_, rfl⟩ | ⟨ph, p, rest, _, rfl⟩ | ⟨k, _, rfl⟩ | ⟨e, _, rfl⟩
    · have : ∀ e, (afterWaitFb s).pc ≠ .drain e ∧ (afterWaitFb s).pc ≠ .done e := by
        intro e; unfold afterWaitFb; split <;> simp
      obtain ⟨x1, x2⟩ := noexit _ (fun e => (this e).1) (fun e => (this e).2)
      exact tinv_same h (by unfold afterWaitFb; split <;> rfl) (by unfold afterWaitFb; split <;> rfl) x1 x2
    · obtain ⟨x1, x2⟩ := noexit { s with pc := .prio ph rest } (by simp) (by simp)
      exact tinv_same h rfl rfl x1 x2
    · obtain ⟨h1, h2⟩ := noexit (nextRound s) (fun e => by rcases nextRound_pc s with e' | e' <;> simp [e'])
        (fun e => by rcases nextRound_pc s with e' | e' <;> simp [e'])
      exact tinv_same h rfl rfl h1 h2
    · exact tinv_same h rfl rfl (fun _ => Or.inr ⟨hv, hst⟩) (fun _ _ => Or.inr ⟨hv, hst⟩)
  | skip =>
    obtain ⟨ph, p, rest, _, hp⟩ := step_poll_pc (Or.inr (Or.inr (Or.inr (Or.inr rfl)))) hs
    obtain ⟨rfl, _⟩ := stepPoll_skip hp
    obtain ⟨x1, x2⟩ := noexit { s with pc := .prio ph rest } (by simp) (by simp)
    exact tinv_same h rfl rfl x1 x2
  | pollEmpty =>
    obtain ⟨ph, p, rest, _, hp⟩ := step_poll_pc (Or.inr (Or.inr (Or.inr (Or.inl rfl)))) hs
    have := stepPoll_empty hp; subst this
    obtain ⟨x1, x2⟩ := noexit { s with pc := .prio ph rest } (by simp) (by simp)
    exact tinv_same h rfl rfl x1 x2
  | pollClosed =>
    obtain ⟨ph, p, rest, _, hp⟩ := step_poll_pc (Or.inr (Or.inr (Or.inl rfl))) hs
    obtain ⟨inp, ch, hin, hch, hq, hcl, rfl⟩ := stepPoll_closed hp
    obtain ⟨x1, x2⟩ := noexit { s with inputs := alSet s.inputs p { inp with drained := true }, pc := .prio ph rest } (by simp) (by simp)
    refine ⟨?_, x1, x2, ?_⟩
    · intro q inq hq' hd
      simp only [alGet_alSet'] at hq'
      by_cases he : p = q
      · subst he
        simp only [if_true, Option.some.injEq] at hq'
        subst hq'
        exact ⟨ch, hch, hcl, hq⟩
      · simp only [he, if_false] at hq'
        exact h.drained q inq hq' hd
    · intro q inq hq'
      simp only [alGet_alSet'] at hq'
      by_cases he : p = q
      · subst he
        simp only [if_true, Option.some.injEq] at hq'
        subst hq'
        simp [hch]
      · simp only [he, if_false] at hq'
        exact h.chansOK q inq hq'
  | pollItem =>
    obtain ⟨ph, p, rest, hpc, hp⟩ := step_poll_pc (Or.inl rfl) hs
    obtain ⟨inp, ch, x, q, hin, _, _, hch, hq, rfl⟩ := stepPoll_item hp
    obtain ⟨x1, x2⟩ := noexit { s with chans := alSet s.chans inp.chan { ch with queue := q }, taken := s.taken ++ [(inp.chan, x)], delivered := s.delivered ++ [(p, inp.chan, x)], tactic := s.tactic.set p (s.tactic.get p - 1), actual := s.actual.add p 1, inflight := s.inflight.add p 1, processed := s.processed + 1 } (by simp [hpc]) (by simp [hpc])
    refine ⟨drainedOK_of_chan_update h inp.chan ch _ hch (fun _ hq' => by rw [hq] at hq'; cases hq') s.inputs (fun _ _ hp' _ => hp'),
      x1, x2, chansOK_alSet h _ _⟩
  | pollDrop =>
    obtain ⟨ph, p, rest, hpc, hp⟩ := step_poll_pc (Or.inr (Or.inl rfl)) hs
    obtain ⟨inp, ch, x, q, _, _, hin, hch, hq, rfl⟩ := stepPoll_drop hp
    obtain ⟨x1, x2⟩ := noexit { s with chans := alSet s.chans inp.chan { ch with queue := q }, taken := s.taken ++ [(inp.chan, x)], dropped := s.dropped ++ [(p, inp.chan, x)] } (by simp [hpc]) (by simp [hpc])
    refine ⟨drainedOK_of_chan_update h inp.chan ch _ hch (fun _ hq' => by rw [hq] at hq'; cases hq') s.inputs (fun _ _ hp' _ => hp'),
      x1, x2, chansOK_alSet h _ _⟩
  | top c =>
    obtain ⟨hpc, htop, hv1⟩ := step_top hs
    cases c with
    | stop =>
      simp only [stepTop] at htop
      split at htop
      · rename_i hst
        cases htop
        exact tinv_same h rfl rfl (fun _ => Or.inr ⟨hv1, hst⟩) (fun e hp => by simp at hp)
      · cases htop
    | none =>
      simp only [stepTop, Option.some.injEq] at htop
      subst htop
      obtain ⟨x1, x2⟩ := noexit (afterTop s) (by simp [afterTop]) (by simp [afterTop])
      exact tinv_same h rfl rfl x1 x2
    | feedback p =>
      simp only [stepTop] at htop
      split at htop
      · rename_i hp
        obtain ⟨h1, _, _, _, _⟩ := decActual_spec { s with pending := s.pending.erase p } p s.pending hinv.core hp rfl
        have hnf : (decActual { s with pending := s.pending.erase p } p).pc ≠ .fault := by rw [h1]; exact hinv.nofault
        simp only [hnf, if_false, Option.some.injEq] at htop
        subst htop
        obtain ⟨x1, x2⟩ := noexit (afterTop (decActual { s with pending := s.pending.erase p } p)) (by simp [afterTop]) (by simp [afterTop])
        exact tinv_same h (by simp only [afterTop]; unfold decActual; split <;> rfl)
          (by simp only [afterTop]; unfold decActual; split <;> rfl) x1 x2
      · cases htop
    | add p c b =>
      simp only [stepTop, Option.some.injEq] at htop
      subst htop
      refine ⟨?_, (noexit_calc rfl).1, (noexit_calc rfl).2, ?_⟩
      · intro q inq hq hd
        simp only [afterTop, restrategize, alGet_alSet'] at hq
        by_cases he : p = q
        · subst he; simp only [if_true, Option.some.injEq] at hq; subst hq; cases hd
        · simp only [he, if_false] at hq
          obtain ⟨x, hx, hc, hqq⟩ := h.drained q inq hq hd
          refine ⟨x, ?_, hc, hqq⟩
          simp only [afterTop, restrategize]
          split
          · exact hx
          · rename_i hnone
            rw [alGet_alSet']
            by_cases hcc : c = inq.chan
            · subst hcc; simp [hx] at hnone
            · simp [hcc, hx]
      · intro q inq hq
        simp only [afterTop, restrategize, alGet_alSet'] at hq
        simp only [afterTop, restrategize]
        by_cases he : p = q
        · subst he
          simp only [if_true, Option.some.injEq] at hq
          subst hq
          split
          · assumption
          · rw [alGet_alSet']; simp
        · simp only [he, if_false] at hq
          have := h.chansOK q inq hq
          split
          · exact this
          · rw [alGet_alSet']; split
            · simp
            · exact this
    | remove p =>
      simp only [stepTop, Option.some.injEq] at htop
      subst htop
      refine ⟨?_, (noexit_calc rfl).1, (noexit_calc rfl).2, ?_⟩
      · intro q inq hq hd
        simp only [afterTop, restrategize] at hq ⊢
        rw [alGet_alErase _ _ _ hw.inputsNd] at hq
        split at hq
        · cases hq
        · exact h.drained q inq hq hd
      · intro q inq hq
        simp only [afterTop, restrategize] at hq ⊢
        rw [alGet_alErase _ _ _ hw.inputsNd] at hq
        split at hq
        · cases hq
        · exact h.chansOK q inq hq

theorem tinv_run (div : DivFn) (acts : List Act) (s s' : St) (hinv : Inv s) (hw : C15.WF s) (h : TInv s)
    (hr : run div s acts = some s') : TInv s' ∧ Inv s' ∧ C15.WF s' ∧ s'.cfg = s.cfg := by
  induction acts generalizing s with
  | nil => simp [run] at hr; subst hr; exact ⟨h, hinv, hw, rfl⟩
  | cons a as ih =>
    simp only [run] at hr
    split at hr
    · rename_i s1 hs1
      have h1 := C01.step_inv div s s1 a hinv hs1
      obtain ⟨r1, r2, r3, r4⟩ := ih s1 h1.1 (C15.wf_step div s s1 a hinv hw hs1) (tinv_step div s s1 a hinv hw h hs1) hr
      exact ⟨r1, r2, r3, by rw [r4, h1.2]⟩
    · cases hr

theorem alGet_mkInputs (keys : List (Nat × Bool)) (p : Nat) (inp : Input) (h : alGet (mkInputs keys).1 p = some inp) :
    inp = ⟨p, false⟩ ∧ (alGet (mkInputs keys).2 p).isSome := by
  induction keys with
  | nil => simp [mkInputs, alGet] at h
  | cons k ks ih =>
    simp only [mkInputs, List.map_cons, alGet] at h ⊢
    split at h
    · rename_i hk; cases h; subst hk; simp
    · rename_i hk
      obtain ⟨h1, h2⟩ := ih h
      exact ⟨h1, by simp only [hk, if_false]; exact h2⟩

theorem tinv_initV2 (div : DivFn) (keys : List (Nat × Bool)) (H : Nat) (s : St) (h : initV2 div keys H = .ok s) : TInv s := by
  unfold initV2 at h
  split at h
  · cases h
  · cases h
    refine ⟨fun p inp hp hd => ?_, fun hp => by rcases hp with hp | hp <;> simp at hp, fun e hp => by simp at hp,
      fun p inp hp => ?_⟩
    · have := (alGet_mkInputs keys p inp hp).1; subst this; cases hd
    · obtain ⟨h1, h2⟩ := alGet_mkInputs keys p inp hp; subst h1; exact h2

theorem tinv_initV1 (div : DivFn) (keys : List (Nat × Bool)) (H : Nat) : TInv (initV1 div keys H) := by
  refine ⟨fun p inp hp hd => ?_, fun hp => by rcases hp with hp | hp <;> simp [initV1] at hp,
    fun e hp => by simp [initV1] at hp, fun p inp hp => ?_⟩
  · have := (alGet_mkInputs keys p inp hp).1; subst this; cases hd
  · obtain ⟨h1, h2⟩ := alGet_mkInputs keys p inp hp; subst h1; exact h2

theorem stopped_false_v2 (div : DivFn) (acts : List Act) (s s' : St) (hv : s.cfg.v1 = false) (hst : s.stopped = false)
    (hr : run div s acts = some s') : s'.stopped = false := by
  have key : ∀ (t t' : St) (a : Act), t.cfg.v1 = false → t.stopped = false → step div t a = some t' →
      t'.stopped = false ∧ t'.cfg.v1 = false := by
    intro t t' a hv hst hs
    have hsame := C02.step_hinv div t t' a
    cases a with
    | stop => obtain ⟨hv', _⟩ := step_stop hs; rw [hv] at hv'; cases hv'
    | arrive c x => obtain ⟨_, _, _, rfl⟩ := step_arrive hs; exact ⟨hst, hv⟩
    | close c => obtain ⟨_, _, rfl⟩ := step_close hs; exact ⟨hst, hv⟩
    | release p => obtain ⟨_, rfl⟩ := step_release hs; exact ⟨hst, hv⟩
    | graceful => obtain ⟨hv', _⟩ := step_graceful hs; rw [hv] at hv'; cases hv'
    | top c => obtain ⟨_, _, hv'⟩ := step_top hs; rw [hv] at hv'; cases hv'
    | «calc» =>
      obtain ⟨_, rfl⟩ := step_calc hs
      simp only [stepCalc]; split <;> (try split) <;> exact ⟨hst, hv⟩
    | recalc =>
      obtain ⟨_, rfl⟩ := step_recalc hs
      simp only [stepRecalc]; split <;> exact ⟨hst, hv⟩
    | endRound =>
      obtain ⟨ph, _, _, hc⟩ := step_endRound hs
      rcases hc with ⟨_, _, _, rfl⟩ | ⟨_, rfl⟩ <;> exact ⟨hst, hv⟩
    | limitedStop => obtain ⟨k, _, rfl⟩ := step_limitedStop hs; exact ⟨hst, hv⟩
    | exit => obtain ⟨e, _, _, rfl⟩ := step_exit hs; exact ⟨hst, hv⟩
    | stopSeen => obtain ⟨hv', _⟩ := step_stopSeen hs; rw [hv] at hv'; cases hv'
    | consume p =>
      obtain ⟨_, hc⟩ := step_consume hs
      have hd : ∀ u : St, u.stopped = false → u.cfg.v1 = false → (decActual u p).stopped = false ∧ (decActual u p).cfg.v1 = false := by
        intro u h1 h2; unfold decActual; split <;> exact ⟨h1, h2⟩
      have base := hd { t with pending := t.pending.erase p } hst hv
      rcases hc with ⟨_, rfl⟩ | ⟨k, _, _, rfl⟩ | ⟨e, _, _, rfl⟩
      · split
        · exact base
        · unfold afterWaitFb; split <;> exact base
      · split <;> exact base
      · exact base
    | skip =>
      obtain ⟨ph, p, rest, _, hp⟩ := step_poll_pc (Or.inr (Or.inr (Or.inr (Or.inr rfl)))) hs
      obtain ⟨rfl, _⟩ := stepPoll_skip hp; exact ⟨hst, hv⟩
    | pollEmpty =>
      obtain ⟨ph, p, rest, _, hp⟩ := step_poll_pc (Or.inr (Or.inr (Or.inr (Or.inl rfl)))) hs
      have := stepPoll_empty hp; subst this; exact ⟨hst, hv⟩
    | pollClosed =>
      obtain ⟨ph, p, rest, _, hp⟩ := step_poll_pc (Or.inr (Or.inr (Or.inl rfl))) hs
      obtain ⟨_, _, _, _, _, _, rfl⟩ := stepPoll_closed hp; exact ⟨hst, hv⟩
    | pollItem =>
      obtain ⟨ph, p, rest, _, hp⟩ := step_poll_pc (Or.inl rfl) hs
      obtain ⟨_, _, _, _, _, _, _, _, _, rfl⟩ := stepPoll_item hp; exact ⟨hst, hv⟩
    | pollDrop =>
      obtain ⟨ph, p, rest, _, hp⟩ := step_poll_pc (Or.inr (Or.inl rfl)) hs
      obtain ⟨_, _, _, _, hv', _⟩ := stepPoll_drop hp; rw [hv] at hv'; cases hv'
  induction acts generalizing s with
  | nil => simp [run] at hr; subst hr; exact hst
  | cons a as ih =>
    simp only [run] at hr
    split at hr
    · rename_i s1 hs1
      obtain ⟨h1, h2⟩ := key s s1 a hv hst hs1
      exact ih s1 h2 h1 hr
    · cases hr

/-- **C07 (v2: output and error channels are closed only then).** After ANY run of a v2
    discipline, if it has terminated (`done`) then every registered input is drained — its
    channel closed and empty — nothing is in flight and no release is outstanding. -/
theorem c07_v2_only_then (div : DivFn) (keys : List (Nat × Bool)) (H : Nat) (hnd : (keys.map (·.1)).Nodup)
    (s0 s : St) (acts : List Act) (h0 : initV2 div keys H = .ok s0) (hr : run div s0 acts = some s)
    (e : Option Err) (hdone : s.pc = .done e) :
    s.inflight.total = 0 ∧ s.pending = [] ∧
    (e = none → ∀ p inp, alGet s.inputs p = some inp →
        ∃ ch, alGet s.chans inp.chan = some ch ∧ ch.closed = true ∧ ch.queue = []) := by
  obtain ⟨hf, _⟩ := C01.initV2_fresh div keys H s0 h0
  obtain ⟨ht, hinv, _, hc⟩ := tinv_run div acts s0 s (C01.fresh_inv hf) (C15.wf_initV2 div keys H s0 hnd h0)
    (tinv_initV2 div keys H s0 h0) hr
  have hv2 : s0.cfg.v1 = false := by
    unfold initV2 at h0; split at h0; cases h0; cases h0; rfl
  have hst : s.stopped = false := stopped_false_v2 div acts s0 s hv2 (by
    unfold initV2 at h0; split at h0; cases h0; cases h0; rfl) hr
  have hzero : s.actual.total = 0 := by
    rcases ht.done e hdone with h | ⟨_, h⟩
    · exact h
    · rw [hst] at h; cases h
  have htot := hinv.core.tot
  rw [hzero] at htot
  refine ⟨by omega, List.eq_nil_of_length_eq_zero (by omega), fun he p inp hp => ?_⟩
  subst he
  have hall : allDrained s.inputs = true := by
    rcases ht.exit (Or.inr hdone) with h | ⟨_, h⟩
    · exact h
    · rw [hst] at h; cases h
  have hd : inp.drained = true := alGet_mem_all s.inputs (fun kv => kv.2.drained) hall p inp hp
  exact ht.drained p inp hp hd

/-- **C07 (v1: GracefulStop returns only then).** If a v1 discipline has terminated without
    having been stopped (Stop / cancel), every registered input is drained and nothing is in
    flight. -/
theorem c07_v1_graceful_only_then (div : DivFn) (keys : List (Nat × Bool)) (H : Nat) (hnd : (keys.map (·.1)).Nodup)
    (s : St) (acts : List Act) (hr : run div (initV1 div keys H) acts = some s)
    (hdone : s.pc = .done none) (hns : s.stopped = false) :
    s.inflight.total = 0 ∧ s.pending = [] ∧
    (∀ p inp, alGet s.inputs p = some inp →
        ∃ ch, alGet s.chans inp.chan = some ch ∧ ch.closed = true ∧ ch.queue = []) := by
  obtain ⟨hf, _⟩ := C01.initV1_fresh div keys H
  obtain ⟨ht, hinv, _, _⟩ := tinv_run div acts _ s (C01.fresh_inv hf) (C15.wf_initV1 div keys H hnd)
    (tinv_initV1 div keys H) hr
  have hzero : s.actual.total = 0 := by
    rcases ht.done none hdone with h | ⟨_, h⟩
    · exact h
    · rw [hns] at h; cases h
  have htot := hinv.core.tot
  rw [hzero] at htot
  refine ⟨by omega, List.eq_nil_of_length_eq_zero (by omega), fun p inp hp => ?_⟩
  have hall : allDrained s.inputs = true := by
    rcases ht.exit (Or.inr hdone) with h | ⟨_, h⟩
    · exact h
    · rw [hns] at h; cases h
  exact ht.drained p inp hp (alGet_mem_all s.inputs (fun kv => kv.2.drained) hall p inp hp)

/-- a divider that obeys the sum rule on every call -/
def GoodDiv (div : DivFn) : Prop := ∀ i ps d m, (div i ps d m).total = m.total + d

theorem safeDivide_good (f : List Nat → Nat → Dist → Dist) (hf : ∀ ps d m, (f ps d m).total = m.total + d)
    (ps : List Nat) (d : Nat) (m : Dist) : (safeDivide f ps d m).2 = none := by
  unfold safeDivide
  simp only [hf]
  split
  · rfl
  · split
    · omega
    · split
      · rename_i h; exact absurd (by omega) h
      · rfl

/-- **C07 (normal mode: no error).** With a divider obeying the sum rule, `calcTactic` and
    `recalcTactic` never report an error, so the machine never enters `drain (some e)`:
    `Err()` yields nil. -/
theorem c07_no_error_calc (div : DivFn) (hg : GoodDiv div) (s : St) (e : Err) :
    (calcTacticWith (div s.calls) s.prios s.actual s.strategic s.tactic (s.cfg.H - s.actual.total)).verdict ≠ .error e := by
  unfold calcTacticWith
  split
  · simp
  · split
    · simp
    · simp only [calcBase]
      rw [show safeDivide (div s.calls) _ _ _ = ((safeDivide (div s.calls) _ _ _).1, (safeDivide (div s.calls) _ _ _).2) from rfl,
        safeDivide_good _ (hg s.calls)]
      simp

theorem c07_no_error_recalc (div : DivFn) (hg : GoodDiv div) (s : St) (e : Err) :
    (recalcTacticWith div s.calls s.cfg.H s.prios s.actual s.tactic).verdict ≠ .error e := by
  unfold recalcTacticWith
  simp only
  rw [show safeDivide (div s.calls) _ _ _ = ((safeDivide (div s.calls) _ _ _).1, (safeDivide (div s.calls) _ _ _).2) from rfl,
    safeDivide_good _ (hg s.calls)]
  simp only
  rw [show safeDivide (div (s.calls + 1)) _ _ _ = ((safeDivide (div (s.calls + 1)) _ _ _).1, (safeDivide (div (s.calls + 1)) _ _ _).2) from rfl,
    safeDivide_good _ (hg (s.calls + 1))]
  simp

/-! Non-vacuity: a v2 run to normal termination. -/
example :
    (match initV2 (fun _ => fair) [(1, true)] 1 with
     | .ok s0 =>
       (run (fun _ => fair) s0 [.arrive 1 7, .close 1, .calc, .pollItem, .skip, .recalc, .skip, .endRound, .release 1,
          .consume 1, .limitedStop, .calc, .pollClosed, .recalc, .skip, .endRound, .exit]).map
         (fun s => (s.pc, s.delivered, s.inflight.total))
     | .error _ => none) = some (.done none, [(1, 1, 7)], 0) := by decide

end Cqos.C07
