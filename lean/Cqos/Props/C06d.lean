import Cqos.Props.C07p
/-
  Property C06, deadlock freedom: in every reachable state of a v2 discipline that has not
  terminated, something can happen — the discipline itself has an enabled step, or it waits
  for a release while a handler holds an item (so "handlers eventually release" unblocks it).
  There is no state in which the discipline waits for something that can never come.
-/
namespace Cqos.C06

/-- some poll action is enabled on the head priority of `prioritize` -/
theorem poll_enabled (s : St) (ph p : Nat) (rest : List Nat) (ht : C07.TInv s) :
    ∃ a, (a = .skip ∨ a = .pollItem ∨ a = .pollClosed ∨ a = .pollEmpty) ∧ (stepPoll s ph p rest a).isSome = true := by
  cases hin : alGet s.inputs p with
  | none => exact ⟨.skip, Or.inl rfl, by simp [stepPoll, hin]⟩
  | some inp =>
    by_cases hsk : inp.drained ∨ s.tactic.get p = 0
    · exact ⟨.skip, Or.inl rfl, by simp [stepPoll, hin, hsk]⟩
    · have hsome := ht.chansOK p inp hin
      cases hch : alGet s.chans inp.chan with
      | none => rw [hch] at hsome; cases hsome
      | some ch =>
        cases hq : ch.queue with
        | cons x q => exact ⟨.pollItem, Or.inr (Or.inl rfl), by simp [stepPoll, hin, hsk, hch, hq]⟩
        | nil =>
          by_cases hcl : ch.closed = true
          · exact ⟨.pollClosed, Or.inr (Or.inr (Or.inl rfl)), by simp [stepPoll, hin, hsk, hch, hq, hcl]⟩
          · exact ⟨.pollEmpty, Or.inr (Or.inr (Or.inr rfl)), by simp [stepPoll, hin, hsk, hch, hq, hcl]⟩

/-- an action of the discipline itself (not of its environment) -/
def isOwn : Act → Bool
  | .arrive _ _ | .close _ | .release _ | .stop | .graceful => false
  | _ => true

/-- **C06 (no deadlock).** After any run of a v2 discipline whose shares add up to `H`: unless it
    has terminated, either one of the discipline's own actions is enabled, or it is waiting
    for a release and at least one delivered item is still held by a handler. -/
theorem c06_no_deadlock (div : DivFn) (keys : List (Nat × Bool)) (H : Nat) (hH : 0 < H)
    (hnd : (keys.map (·.1)).Nodup) (s0 s : St) (acts : List Act) (h0 : initV2 div keys H = .ok s0)
    (hsum : sumOver s0.prios s0.strategic = H) (hr : run div s0 acts = some s) (hnd' : ∀ e, s.pc ≠ .done e) :
    (∃ a, isOwn a = true ∧ (step div s a).isSome = true) ∨
    ((s.pc = .waitFb ∨ ∃ e, s.pc = .drain e) ∧ 0 < s.inflight.total) := by
  obtain ⟨hf, _⟩ := C01.initV2_fresh div keys H s0 h0
  obtain ⟨ht, hinv, _, _⟩ := C07.tinv_run div acts s0 s (C01.fresh_inv hf) (C15.wf_initV2 div keys H s0 hnd h0)
    (C07.tinv_initV2 div keys H s0 h0) hr
  obtain ⟨_, hv2, hpc0, _⟩ := C07.initV2_fill div keys H s0 h0
  have htot := hinv.core.tot
  cases hpc : s.pc with
  | done e => exact absurd hpc (hnd' e)
  | fault => exact absurd hpc hinv.nofault
  | top => exact absurd hpc ((C07.v2_static_run div acts s0 s hv2 hr).2.2.2 (by rw [hpc0]; simp))
  | «calc» => exact Or.inl ⟨.calc, rfl, by simp [step, hpc]⟩
  | limited k => exact Or.inl ⟨.limitedStop, rfl, by simp [step, hpc]⟩
  | prio ph rest =>
    cases rest with
    | nil =>
      by_cases h1 : ph = 1
      · exact Or.inl ⟨.recalc, rfl, by simp [step, hpc, h1]⟩
      · refine Or.inl ⟨.endRound, rfl, ?_⟩
        simp only [step, hpc, h1, if_false]
        split <;> rfl
    | cons p rest =>
      obtain ⟨a, ha, hs⟩ := poll_enabled s ph p rest ht
      refine Or.inl ⟨a, by rcases ha with h | h | h | h <;> subst h <;> rfl, ?_⟩
      rcases ha with h | h | h | h <;> subst h <;> simpa [step, hpc] using hs
  | waitFb =>
    cases hp : s.pending with
    | cons p ps => exact Or.inl ⟨.consume p, rfl, by simp [step, hpc, hp]; split <;> rfl⟩
    | nil =>
      right
      have hw := c06_never_waits_idle div keys H hH hnd s0 s acts h0 hsum hr hpc
      rw [hp] at hw
      exact ⟨Or.inl rfl, by simpa using hw⟩
  | drain e =>
    by_cases hz : s.actual.allZero = true
    · exact Or.inl ⟨.exit, rfl, by simp [step, hpc, hz]⟩
    · cases hp : s.pending with
      | cons p ps => exact Or.inl ⟨.consume p, rfl, by simp [step, hpc, hz, hp]⟩
      | nil =>
        right
        have hpos : 0 < s.actual.total := by
          rcases Nat.eq_zero_or_pos s.actual.total with h | h
          · exact absurd ((Dist.allZero_iff_total _).2 h) hz
          · exact h
        rw [hp] at htot
        exact ⟨Or.inr ⟨e, rfl⟩, by simp at htot; omega⟩

end Cqos.C06
