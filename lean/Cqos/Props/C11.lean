import Cqos.Lemmas.JoinEffects
/-
  Property C11 — unite: input slices are never split across output slices.

  The grouping invariant: at every moment the emitted slices are the concatenations of
  consecutive groups of WHOLE accepted input slices, and the live buffer is the
  concatenation of the whole slices that follow.  (It holds for join as well, whose input
  "slices" are single elements.)  Proved for every action list.
-/
namespace Cqos.C11
open Cqos.C03

/-- `pending` = the input slice already logged as consumed but not yet buffered/forwarded -/
def GInvP (s : JSt) (pending : Option (List Nat)) : Prop :=
  ∃ gs : List (List (List Nat)), ∃ bs : List (List Nat),
    s.out = gs.map List.flatten ∧ live s = bs.flatten ∧ gs.flatten ++ bs ++ pending.toList = s.consumed

abbrev GInv (s : JSt) : Prop := GInvP s none

theorem g_congr {s u : JSt} {p : Option (List Nat)} (h : GInvP s p) (ho : u.out = s.out) (hb : u.buf = s.buf)
    (hp : u.pc = s.pc) (hc : u.consumed = s.consumed) (hcl : u.closing = s.closing)
    (hu : u.unreleased = s.unreleased) : GInvP u p := by
  obtain ⟨gs, bs, h1, h2, h3⟩ := h
  have hl : live u = live s := by simp [live, hp, hb, hcl, hu]
  exact ⟨gs, bs, by rw [ho, h1], by rw [hl, h2], by rw [hc, h3]⟩

theorem g_jlog {s : JSt} (h : GInv s) (xs : List Nat) : GInvP (jlog s xs) (some xs) := by
  obtain ⟨gs, bs, h1, h2, h3⟩ := h
  refine ⟨gs, bs, h1, h2, ?_⟩
  simp only [Option.toList, List.append_nil] at h3
  simp [jlog, ← h3]

/-- emitting the whole live buffer as one slice -/
theorem g_emit {s u : JSt} {p : Option (List Nat)} (h : GInvP s p) (hrun : s.pc = .run)
    (ho : u.out = s.out ++ [s.buf]) (hc : u.consumed = s.consumed) (hl : live u = []) : GInvP u p := by
  obtain ⟨gs, bs, h1, h2, h3⟩ := h
  simp only [live, hrun] at h2
  exact ⟨gs ++ [bs], [], by rw [ho, h1, h2]; simp, by rw [hl]; simp, by rw [hc, ← h3]; simp⟩

theorem g_jpass {s : JSt} {p : Option (List Nat)} (h : GInvP s p) (hrun : s.pc = .run)
    (t : Nat) (tk : Bool) (nx : Option (Nat × List Nat)) : GInvP (jpass s t tk nx) p := by
  by_cases hb : s.buf = []
  · rw [jpass_empty_eq s t tk nx hb]; exact g_congr h rfl rfl rfl rfl rfl rfl
  · by_cases hc : s.cfg.noCopy = true
    · rw [jpass_nocopy_eq s t tk nx hb hc]
      exact g_emit h hrun rfl rfl (by simp [live])
    · rw [jpass_copy_eq s t tk nx hb (by simpa using hc)]
      exact g_emit h hrun rfl rfl (by simp [live, hrun])

theorem g_appendPath {s : JSt} {xs : List Nat} (h : GInvP s (some xs)) (hrun : s.pc = .run) (t : Nat) :
    GInv (jappendPath s xs t) := by
  -- first the append: the pending slice joins the live group
  have happ : GInvP { s with buf := s.buf ++ xs, events := s.events ++ [JEvent.write], firstAt := (if s.buf = [] then t else s.firstAt) } none := by
    obtain ⟨gs, bs, h1, h2, h3⟩ := h
    simp only [live, hrun] at h2
    refine ⟨gs, bs ++ [xs], h1, by simp [live, hrun, h2], ?_⟩
    simp only [Option.toList] at h3
    simp [← h3]
  by_cases hlt : s.buf.length + xs.length < s.cfg.size
  · rw [jappendPath_stay_eq s xs t hlt]; exact happ
  · rw [jappendPath_full_eq s xs t hlt]
    exact g_jpass happ hrun t false none

theorem g_forward {s : JSt} {xs : List Nat} (h : GInvP s (some xs)) (hrun : s.pc = .run) (hb : s.buf = [])
    (id t : Nat) : GInv (jforward s id xs t) := by
  obtain ⟨gs, bs, h1, h2, h3⟩ := h
  simp only [live, hrun, hb] at h2
  simp only [Option.toList] at h3
  -- the empty slices waiting in `bs` (they contribute nothing) go into the same group as xs
  have key : ∀ u : JSt, u.out = s.out ++ [xs] → u.consumed = s.consumed → live u = [] → GInv u := by
    intro u ho hc hl
    refine ⟨gs ++ [bs ++ [xs]], [], ?_, by rw [hl]; simp, by rw [hc, ← h3]; simp⟩
    rw [ho, h1]; simp [List.flatten_append, ← h2]
  by_cases hc : s.cfg.noCopy = true
  · rw [jforward_nocopy_eq s id xs t hc]; exact key _ rfl rfl (by simp [live])
  · rw [jforward_copy_eq s id xs t (by simpa using hc)]; exact key _ rfl rfl (by simp [live, hrun, hb])

theorem g_cont {s : JSt} {xs : List Nat} (h : GInvP s (some xs)) (hrun : s.pc = .run)
    (hpre : s.cfg.size ≤ xs.length → s.buf = []) (id t : Nat) : GInv (jcont s id xs t) := by
  unfold jcont
  by_cases hbig : xs.length ≥ s.cfg.size
  · simp only [hbig, if_true]
    exact g_forward (s := { s with passAt := t }) (g_congr h rfl rfl rfl rfl rfl rfl) hrun (hpre hbig) id t
  · simp only [hbig, if_false]
    exact g_appendPath h hrun t

theorem g_process {s : JSt} (_hj : JInv s) (h : GInv s) (hrun : s.pc = .run) (id : Nat) (xs : List Nat) (t : Nat) :
    GInvP (jprocess s id xs t) none ∨
      (∃ nx, (jprocess s id xs t).pc = .await (some nx) ∧ GInvP (jprocess s id xs t) none) := by
  left
  unfold jprocess
  cases hk : s.cfg.kind with
  | join => exact g_appendPath (g_jlog h xs) hrun t
  | unite =>
    simp only
    by_cases hnp : needPass s xs = true
    · simp only [hnp, if_true]
      have hb : s.buf ≠ [] := by
        simp only [needPass, Bool.and_eq_true, Bool.not_eq_true', List.isEmpty_eq_false_iff] at hnp
        exact hnp.2
      by_cases hc : s.cfg.noCopy = true
      · simp only [hc, if_true]
        exact g_jpass h hrun t false _
      · have hc' : s.cfg.noCopy = false := by simpa using hc
        simp only [hc', Bool.false_eq_true, if_false]
        have e := jpass_copy_eq (jlog s xs) t false none (by simpa [jlog] using hb) (by simpa [jlog] using hc')
        have hg := g_jpass (g_jlog h xs) (by simpa [jlog] using hrun) t false none
        rw [e] at hg ⊢
        exact g_cont hg (by simpa [jlog] using hrun) (fun _ => rfl) id t
    · have hnp' : needPass s xs = false := by simpa using hnp
      simp only [hnp', Bool.false_eq_true, if_false]
      refine g_cont (g_jlog h xs) (by simpa [jlog] using hrun) ?_ id t
      intro hbig
      simp only [needPass, Bool.and_eq_false_iff, Bool.or_eq_false_iff, decide_eq_false_iff_not,
        Bool.not_eq_false', List.isEmpty_iff] at hnp'
      rcases hnp' with ⟨h1, _⟩ | h2
      · exact absurd (by simpa [jlog] using hbig) h1
      · simpa [jlog] using h2

/-- **one step keeps the grouping invariant** -/
theorem g_step (s s' : JSt) (a : JAct) (hj : JInv s) (h : GInv s) (hs : jstep s a = some s') : GInv s' := by
  unfold jstep at hs
  split at hs
  · rename_i id xs t hpc
    split at hs
    · cases hs
    · split at hs
      · cases hs; exact h
      · cases hs
        rcases g_process hj h hpc id xs t with hg | ⟨_, _, hg⟩ <;> exact hg
  · rename_i t hpc
    split at hs
    · cases hs
    · split at hs
      · cases hs; exact g_jpass h hpc t true none
      · cases hs; exact h
  · rename_i t hpc
    have hg := g_jpass h hpc t false none
    obtain ⟨_, _, h3⟩ := jpass_inv hj hpc t false
    simp only at hs
    split at hs
    · rename_i n hn
      cases hs
      obtain ⟨gs, bs, h1, h2, h3'⟩ := hg
      exact ⟨gs, bs, h1, by simpa [live, hn] using h2, h3'⟩
    · rename_i hn
      cases hs
      rcases h3 with ⟨hr, hb⟩ | ⟨n', hn'⟩
      · obtain ⟨gs, bs, h1, h2, h3'⟩ := hg
        refine ⟨gs, bs, h1, ?_, h3'⟩
        simp only [live, hr, hb] at h2
        simp [live, ← h2]
      · exact absurd hn' (hn n')
  · -- await, release
    rename_i next t hpc
    simp only at hs
    have hbase : ∀ u : JSt, u.out = s.out → u.buf = [] → u.consumed = s.consumed →
        u.closing = s.closing → u.unreleased = s.unreleased →
        u.pc = (if s.closing then .done else .run) → GInv u := by
      intro u ho hb hcn hcl hu hp
      obtain ⟨gs, bs, h1, h2, h3⟩ := h
      simp only [live, hpc] at h2
      refine ⟨gs, bs, by rw [ho, h1], ?_, by rw [hcn, h3]⟩
      by_cases hc : s.closing = true <;> simp [live, hp, hc, hb, hcl, ← h2]
    cases next with
    | none =>
      simp only [Option.some.injEq] at hs
      subst hs
      split
      · exact hbase _ rfl (by assumption) rfl rfl rfl rfl
      · exact hbase _ rfl rfl rfl rfl rfl rfl
    | some nx =>
      obtain ⟨id, xs⟩ := nx
      have hncl : s.closing = false := by
        cases hc : s.closing with
        | false => rfl
        | true => exact absurd hpc ((hj.closingPc hc).2 id xs)
      simp only [Option.some.injEq] at hs
      subst hs
      have hfin : ∀ u : JSt, GInv u → u.pc = .run → u.buf = [] → GInv (jcont (jlog u xs) id xs t) := by
        intro u hu hr hb
        exact g_cont (g_jlog hu xs) (by simpa [jlog] using hr) (fun _ => by simpa [jlog] using hb) id t
      split
      · exact hfin _ (hbase _ rfl (by assumption) rfl rfl rfl rfl) (by simp [hncl]) (by assumption)
      · exact hfin _ (hbase _ rfl rfl rfl rfl rfl rfl) (by simp [jafterPass, hncl]) rfl
  · split at hs
    · cases hs; exact g_congr h rfl rfl rfl rfl rfl rfl
    · cases hs
  · -- run, stopSeen
    rename_i t hpc
    split at hs
    · cases hs
      have hcf := closing_false_of_run hj hpc
      have hu : s.unreleased = false := by
        cases hu : s.unreleased with
        | false => rfl
        | true => have := hj.unrel hu; simp [hpc] at this
      obtain ⟨gs, bs, h1, h2, h3⟩ := h
      simp only [live, hpc] at h2
      exact ⟨gs, bs, h1, by simp [live, hcf, hu, h2], h3⟩
    · cases hs
  · -- run, stopFlush
    rename_i t hpc
    split at hs
    · cases hs
      have hg := g_jpass h hpc t false none
      obtain ⟨_, _, h3⟩ := jpass_inv hj hpc t false
      obtain ⟨gs, bs, h1, h2, h3'⟩ := hg
      have hlive : live (jpass s t false none) = [] := by
        rcases h3 with ⟨hr, hb⟩ | ⟨n, hn⟩
        · simp [live, hr, hb]
        · simp [live, hn]
      rw [hlive] at h2
      exact ⟨gs, bs, h1, by simp [live, ← h2], h3'⟩
    · cases hs
  · -- await, stopSeen
    rename_i n t hpc
    split at hs
    · cases hs
      obtain ⟨gs, bs, h1, h2, h3⟩ := h
      simp only [live, hpc] at h2
      exact ⟨gs, bs, h1, by simp [live, ← h2], h3⟩
    · cases hs
  · cases hs

theorem g_run (acts : List JAct) (s s' : JSt) (hj : JInv s) (h : GInv s) (hr : jrun s acts = some s') : GInv s' := by
  induction acts generalizing s with
  | nil => simp [jrun] at hr; subst hr; exact h
  | cons a as ih =>
    simp only [jrun] at hr
    split at hr
    · rename_i s1 hs1
      exact ih s1 (jstep_inv s s1 a hj hs1).1 (g_step s s1 a hj h hs1) hr
    · cases hr

/-- **C11 (whole slices).**  For every run that ends after the input was closed there is a
    partition of the accepted input slices into consecutive groups such that the output
    slices are exactly the concatenations of the groups (trailing slices that belong to no
    group are empty): every non-empty input slice lies contiguously and wholly inside exactly
    one output slice, and empty input slices contribute nothing. -/
theorem c11_whole (cfg : JCfg) (t0 : Nat) (hsz : 0 < cfg.size) (acts : List JAct) (s : JSt)
    (hr : jrun (jinit cfg t0) acts = some s) (hdone : s.pc = .done) (hclosed : s.closing = true) :
    ∃ gs : List (List (List Nat)), ∃ bs : List (List Nat),
      s.out = gs.map List.flatten ∧ gs.flatten ++ bs = s.consumed ∧ ∀ b ∈ bs, b = [] := by
  have h0 : GInv (jinit cfg t0) := ⟨[], [], by simp [jinit], by simp [jinit, live], by simp [jinit]⟩
  obtain ⟨gs, bs, h1, h2, h3⟩ := g_run acts _ s (jinit_inv cfg t0 hsz) h0 hr
  refine ⟨gs, bs, h1, by simpa using h3, ?_⟩
  simp only [live, hdone, hclosed, true_or, if_true] at h2
  intro b hb
  have : bs.flatten = [] := h2.symm
  rw [List.flatten_eq_nil_iff] at this
  exact this b hb

/-- **C11 (at any moment).** the same grouping holds during the run, the live buffer being
    the concatenation of the whole slices not yet emitted. -/
theorem c11_always (cfg : JCfg) (t0 : Nat) (hsz : 0 < cfg.size) (acts : List JAct) (s : JSt)
    (hr : jrun (jinit cfg t0) acts = some s) : GInv s :=
  g_run acts _ s (jinit_inv cfg t0 hsz) ⟨[], [], by simp [jinit], by simp [jinit, live], by simp [jinit]⟩ hr

/-- **C11 (oversize).** In copy mode an input slice of at least JoinSize elements is
    delivered as an output slice of its own, after everything accumulated before it. -/
theorem c11_oversize (s : JSt) (id : Nat) (xs : List Nat) (t : Nat)
    (hk : s.cfg.kind = .unite) (hc : s.cfg.noCopy = false) (hbig : s.cfg.size ≤ xs.length) :
    (jprocess s id xs t).out = s.out ++ (if s.buf = [] then [] else [s.buf]) ++ [xs] ∧
    (jprocess s id xs t).buf = [] := by
  unfold jprocess
  simp only [hk]
  by_cases hb : s.buf = []
  · have hnp : needPass s xs = false := by simp [needPass, hb]
    simp only [hnp, Bool.false_eq_true, if_false, hb, if_true, List.append_nil]
    unfold jcont
    have : (jlog s xs).cfg.size ≤ xs.length := by simpa [jlog] using hbig
    simp only [ge_iff_le, this, if_true]
    rw [jforward_copy_eq _ id xs t (by simpa [jlog] using hc)]
    simp [jlog, hb]
  · have hnp : needPass s xs = true := by
      simp [needPass, hb, hbig]
    simp only [hnp, if_true, hc, Bool.false_eq_true, if_false, hb]
    rw [jpass_copy_eq (jlog s xs) t false none (by simpa [jlog] using hb) (by simpa [jlog] using hc)]
    unfold jcont
    have : s.cfg.size ≤ xs.length := hbig
    simp only [jlog, ge_iff_le, this, if_true]
    rw [jforward_copy_eq _ id xs t (by simpa using hc)]
    simp

/-! Non-vacuity -/
example :
    (jrun (jinit ⟨.unite, 3, 0, false, false⟩ 0)
      [.item 1 [1, 2] 1, .item 2 [] 2, .item 3 [3, 4] 3, .item 4 [5, 6, 7, 8] 4, .item 5 [9] 5, .close 6]).map
      (fun s => s.out) = some [[1, 2], [3, 4], [5, 6, 7, 8], [9]] := by decide

end Cqos.C11
