import Cqos.Lemmas.StepCases
/-
  Property C02 — every item delivered exactly once, correctly tagged, FIFO per priority.

  History variables of the machine: `arrived` (every `ch <- x` in order), `taken` (every
  receive from an input, in order), `delivered` (every send on the output, with the
  priority tag and the channel it came from), `dropped` (v1: received, but the send was
  aborted by Stop/cancel).  The theorems hold for every action list, i.e. every arrival
  timing, channel capacity, release delay and divider.
-/
namespace Cqos.C02

/-- the items of channel `c` in a `(channel, item)` log, in order -/
def chanItems (l : List (Nat × Nat)) (c : Nat) : List Nat :=
  (l.filter (fun e => e.1 == c)).map (·.2)

/-- what is still waiting in channel `c` -/
def queueOf (s : St) (c : Nat) : List Nat :=
  match alGet s.chans c with
  | some ch => ch.queue
  | none => []

def untag (e : Nat × Nat × Nat) : Nat × Nat := (e.2.1, e.2.2)

/-- the history invariant -/
structure HInv (s : St) : Prop where
  /-- per channel: received ++ still queued = written -/
  fifo : ∀ c, chanItems s.taken c ++ queueOf s c = chanItems s.arrived c
  /-- everything delivered was received, in the same order -/
  sub : (s.delivered.map untag).Sublist s.taken
  /-- without an aborted send, delivered = received -/
  all : s.dropped = [] → s.delivered.map untag = s.taken
  /-- a send is aborted only in v1 after Stop / cancel -/
  drop : s.dropped = [] ∨ (s.cfg.v1 = true ∧ s.stopped = true)

theorem chanItems_append (l : List (Nat × Nat)) (c d x : Nat) :
    chanItems (l ++ [(d, x)]) c = chanItems l c ++ (if d = c then [x] else []) := by
  unfold chanItems
  rw [List.filter_append, List.map_append]
  by_cases h : d = c <;> simp [h]

theorem alGet_alSet {α} (l : List (Nat × α)) (k k' : Nat) (v : α) :
    alGet (alSet l k v) k' = if k = k' then some v else alGet l k' := by
  induction l with
  | nil => simp [alSet, alGet]
  | cons e r ih =>
    obtain ⟨k0, v0⟩ := e
    simp only [alSet]
    by_cases h : k0 = k
    · subst h
      by_cases h2 : k0 = k' <;> simp [alGet, h2]
    · simp only [h, if_false, alGet]
      by_cases h2 : k0 = k'
      · subst h2
        have : ¬ k = k0 := fun e => h e.symm
        simp [this]
      · simp [h2, ih]

/-- fields of the state the history invariant talks about -/
structure Same (s s' : St) : Prop where
  q : ∀ c, queueOf s' c = queueOf s c
  taken : s'.taken = s.taken
  arrived : s'.arrived = s.arrived
  delivered : s'.delivered = s.delivered
  dropped : s'.dropped = s.dropped
  v1 : s'.cfg.v1 = s.cfg.v1
  stopped : s.stopped = true → s'.stopped = true

theorem HInv.of_same {s s' : St} (h : HInv s) (e : Same s s') : HInv s' :=
  ⟨fun c => by rw [e.taken, e.arrived, e.q]; exact h.fifo c,
   by rw [e.delivered, e.taken]; exact h.sub,
   by rw [e.delivered, e.taken, e.dropped]; exact h.all,
   by rw [e.dropped, e.v1]
      rcases h.drop with d | ⟨d1, d2⟩
      · exact Or.inl d
      · exact Or.inr ⟨d1, e.stopped d2⟩⟩

theorem same_of_eq {s s' : St} (hc : s'.chans = s.chans) (ht : s'.taken = s.taken)
    (ha : s'.arrived = s.arrived) (hd : s'.delivered = s.delivered) (hdr : s'.dropped = s.dropped)
    (hv : s'.cfg = s.cfg) (hs : s'.stopped = s.stopped) : Same s s' :=
  ⟨fun c => by simp [queueOf, hc], ht, ha, hd, hdr, by rw [hv], fun h => by rw [hs]; exact h⟩

theorem Same.trans' {a b c : St} (h1 : Same a b) (h2 : Same b c) : Same a c :=
  ⟨fun x => by rw [h2.q, h1.q], by rw [h2.taken, h1.taken], by rw [h2.arrived, h1.arrived],
   by rw [h2.delivered, h1.delivered], by rw [h2.dropped, h1.dropped], by rw [h2.v1, h1.v1],
   fun h => h2.stopped (h1.stopped h)⟩

theorem same_decActual (t : St) (p : Nat) : Same t (decActual t p) := by
  unfold decActual; split <;> exact same_of_eq rfl rfl rfl rfl rfl rfl rfl

theorem same_consume (s : St) (p : Nat) : Same s (decActual { s with pending := s.pending.erase p } p) :=
  Same.trans' (same_of_eq (s' := { s with pending := s.pending.erase p }) rfl rfl rfl rfl rfl rfl rfl)
    (same_decActual { s with pending := s.pending.erase p } p)

theorem same_afterTop (t : St) : Same t (afterTop t) := same_of_eq rfl rfl rfl rfl rfl rfl rfl

theorem same_afterWaitFb (t : St) : Same t (afterWaitFb t) := by
  unfold afterWaitFb; split <;> exact same_of_eq rfl rfl rfl rfl rfl rfl rfl

theorem same_nextRound (t : St) : Same t (nextRound t) := same_of_eq rfl rfl rfl rfl rfl rfl rfl

theorem same_stepCalc (div : DivFn) (t : St) : Same t (stepCalc div t) := by
  simp only [stepCalc]
  split
  · split <;> exact same_of_eq rfl rfl rfl rfl rfl rfl rfl
  · split <;> exact same_of_eq rfl rfl rfl rfl rfl rfl rfl

theorem same_stepRecalc (div : DivFn) (t : St) : Same t (stepRecalc div t) := by
  simp only [stepRecalc]
  split <;> exact same_of_eq rfl rfl rfl rfl rfl rfl rfl

theorem Same.trans {a b c : St} (h1 : Same a b) (h2 : Same b c) : Same a c :=
  ⟨fun x => by rw [h2.q, h1.q], by rw [h2.taken, h1.taken], by rw [h2.arrived, h1.arrived],
   by rw [h2.delivered, h1.delivered], by rw [h2.dropped, h1.dropped], by rw [h2.v1, h1.v1],
   fun h => h2.stopped (h1.stopped h)⟩

theorem same_stepTop (div : DivFn) (s s' : St) (c : TopChoice) (h : stepTop div s c = some s') : Same s s' := by
  cases c with
  | stop =>
    simp only [stepTop] at h
    split at h
    · cases h; exact same_of_eq rfl rfl rfl rfl rfl rfl rfl
    · cases h
  | add p c b =>
    simp only [stepTop, Option.some.injEq] at h
    subst h
    refine ⟨fun x => ?_, rfl, rfl, rfl, rfl, rfl, fun h => h⟩
    simp only [queueOf, afterTop, restrategize]
    by_cases hsome : (alGet s.chans c).isSome = true
    · simp [hsome]
    · simp only [hsome, if_false, Bool.false_eq_true]
      rw [alGet_alSet]
      by_cases hx : c = x
      · subst hx
        cases hg : alGet s.chans c with
        | none => simp
        | some ch => simp [hg] at hsome
      · simp [hx]
  | remove p =>
    simp only [stepTop, Option.some.injEq] at h
    subst h
    exact same_of_eq rfl rfl rfl rfl rfl rfl rfl
  | feedback p =>
    simp only [stepTop] at h
    split at h
    · split at h
      · cases h; exact same_consume s p
      · cases h
        exact (same_consume s p).trans (same_afterTop _)
    · cases h
  | none =>
    simp only [stepTop, Option.some.injEq] at h
    subst h; exact same_afterTop s

/-- receiving `x` from the head of channel `c` -/
theorem fifo_take {s : St} (h : ∀ c, chanItems s.taken c ++ queueOf s c = chanItems s.arrived c)
    (ch : Chan) (cid x : Nat) (q : List Nat) (hch : alGet s.chans cid = some ch) (hq : ch.queue = x :: q)
    (s' : St) (hchans : s'.chans = alSet s.chans cid { ch with queue := q })
    (htaken : s'.taken = s.taken ++ [(cid, x)]) (harr : s'.arrived = s.arrived) :
    ∀ c, chanItems s'.taken c ++ queueOf s' c = chanItems s'.arrived c := by
  intro c
  rw [htaken, harr, chanItems_append]
  have := h c
  unfold queueOf at this ⊢
  rw [hchans, alGet_alSet]
  by_cases hc : cid = c
  · subst hc
    simp only [if_true]
    rw [hch] at this
    simp only [hq] at this
    rw [← this]; simp
  · simp only [hc, if_false, List.append_nil]
    exact this

/-- **one step keeps the history invariant** -/
theorem step_hinv (div : DivFn) (s s' : St) (a : Act) (h : HInv s) (hs : step div s a = some s') : HInv s' := by
  cases a with
  | arrive c x =>
    obtain ⟨ch, hch, _, rfl⟩ := step_arrive hs
    refine ⟨fun d => ?_, h.sub, h.all, h.drop⟩
    simp only [chanItems_append]
    have := h.fifo d
    unfold queueOf at this ⊢
    simp only [alGet_alSet]
    by_cases hc : c = d
    · subst hc
      simp only [if_true]
      rw [hch] at this
      simp only at this
      rw [← this]; simp
    · simp only [hc, if_false, List.append_nil]; exact this
  | close c =>
    obtain ⟨ch, hch, rfl⟩ := step_close hs
    refine h.of_same ⟨fun d => ?_, rfl, rfl, rfl, rfl, rfl, fun h => h⟩
    unfold queueOf
    simp only [alGet_alSet]
    by_cases hc : c = d
    · subst hc; simp [hch]
    · simp [hc]
  | release p => obtain ⟨_, rfl⟩ := step_release hs; exact h.of_same (same_of_eq rfl rfl rfl rfl rfl rfl rfl)
  | stop =>
    obtain ⟨_, rfl⟩ := step_stop hs
    exact h.of_same ⟨fun _ => rfl, rfl, rfl, rfl, rfl, rfl, fun _ => rfl⟩
  | graceful => obtain ⟨_, rfl⟩ := step_graceful hs; exact h.of_same (same_of_eq rfl rfl rfl rfl rfl rfl rfl)
  | top c => exact h.of_same (same_stepTop div s s' c (step_top hs).2.1)
  | «calc» => obtain ⟨_, rfl⟩ := step_calc hs; exact h.of_same (same_stepCalc div s)
  | recalc => obtain ⟨_, rfl⟩ := step_recalc hs; exact h.of_same (same_stepRecalc div s)
  | endRound =>
    obtain ⟨ph, _, _, hc⟩ := step_endRound hs
    rcases hc with ⟨_, _, _, rfl⟩ | ⟨_, rfl⟩ <;> exact h.of_same (same_of_eq rfl rfl rfl rfl rfl rfl rfl)
  | limitedStop => obtain ⟨k, _, rfl⟩ := step_limitedStop hs; exact h.of_same (same_nextRound s)
  | exit => obtain ⟨e, _, _, rfl⟩ := step_exit hs; exact h.of_same (same_of_eq rfl rfl rfl rfl rfl rfl rfl)
  | consume p =>
    obtain ⟨_, hc⟩ := step_consume hs
    have base : Same s (decActual { s with pending := s.pending.erase p } p) := same_consume s p
    rcases hc with ⟨_, rfl⟩ | ⟨k, _, _, rfl⟩ | ⟨e, _, _, rfl⟩
    · split
      · exact h.of_same base
      · exact h.of_same (base.trans (same_afterWaitFb _))
    · split
      · exact h.of_same base
      · exact h.of_same (base.trans (same_of_eq rfl rfl rfl rfl rfl rfl rfl))
    · exact h.of_same base
  | stopSeen =>
    obtain ⟨_, _, hc⟩ := step_stopSeen hs
    rcases hc with ⟨_, rfl⟩ | ⟨ph, p, rest, _, rfl⟩ | ⟨k, _, rfl⟩ | ⟨e, _, rfl⟩
    · exact h.of_same (same_afterWaitFb s)
    · exact h.of_same (same_of_eq rfl rfl rfl rfl rfl rfl rfl)
    · exact h.of_same (same_nextRound s)
    · exact h.of_same (same_of_eq rfl rfl rfl rfl rfl rfl rfl)
  | skip =>
    obtain ⟨ph, p, rest, _, hp⟩ := step_poll_pc (Or.inr (Or.inr (Or.inr (Or.inr rfl)))) hs
    obtain ⟨rfl, _⟩ := stepPoll_skip hp
    exact h.of_same (same_of_eq rfl rfl rfl rfl rfl rfl rfl)
  | pollEmpty =>
    obtain ⟨ph, p, rest, _, hp⟩ := step_poll_pc (Or.inr (Or.inr (Or.inr (Or.inl rfl)))) hs
    have := stepPoll_empty hp; subst this
    exact h.of_same (same_of_eq rfl rfl rfl rfl rfl rfl rfl)
  | pollClosed =>
    obtain ⟨ph, p, rest, _, hp⟩ := step_poll_pc (Or.inr (Or.inr (Or.inl rfl))) hs
    obtain ⟨inp, ch, _, _, _, _, rfl⟩ := stepPoll_closed hp
    exact h.of_same (same_of_eq rfl rfl rfl rfl rfl rfl rfl)
  | pollItem =>
    obtain ⟨ph, p, rest, _, hp⟩ := step_poll_pc (Or.inl rfl) hs
    obtain ⟨inp, ch, x, q, _, _, _, hch, hq, rfl⟩ := stepPoll_item hp
    refine ⟨fifo_take h.fifo ch inp.chan x q hch hq _ rfl rfl rfl, ?_, ?_, h.drop⟩
    · simp only [List.map_append, List.map_cons, List.map_nil, untag]
      exact List.Sublist.append h.sub (List.Sublist.refl _)
    · intro hd
      simp only [List.map_append, List.map_cons, List.map_nil, untag]
      rw [h.all hd]
  | pollDrop =>
    obtain ⟨ph, p, rest, _, hp⟩ := step_poll_pc (Or.inr (Or.inl rfl)) hs
    obtain ⟨inp, ch, x, q, hv, hst, _, hch, hq, rfl⟩ := stepPoll_drop hp
    refine ⟨fifo_take h.fifo ch inp.chan x q hch hq _ rfl rfl rfl, ?_, ?_, Or.inr ⟨hv, hst⟩⟩
    · exact List.Sublist.trans h.sub (List.sublist_append_left _ _)
    · intro hd; simp at hd

theorem run_hinv (div : DivFn) (acts : List Act) (s s' : St) (h : HInv s) (hr : run div s acts = some s') :
    HInv s' := by
  induction acts generalizing s with
  | nil => simp [run] at hr; subst hr; exact h
  | cons a as ih =>
    simp only [run] at hr
    split at hr
    · rename_i s1 hs1; exact ih s1 (step_hinv div s s1 a h hs1) hr
    · cases hr

/-- a state in which nothing has happened yet -/
def Pristine (s : St) : Prop :=
  s.taken = [] ∧ s.arrived = [] ∧ s.delivered = [] ∧ s.dropped = [] ∧ ∀ c, queueOf s c = []

theorem pristine_hinv {s : St} (h : Pristine s) : HInv s := by
  obtain ⟨h1, h2, h3, h4, h5⟩ := h
  exact ⟨fun c => by simp [h1, h2, h5, chanItems], by simp [h1, h3], fun _ => by simp [h1, h3], Or.inl h4⟩

/-- **C02 (exactly once, FIFO, nothing invented).**  After any run, for every input
    channel the items delivered from it are, in order, a prefix of what was written to it:
    `delivered(c) ++ dropped-or-still-queued(c) = written(c)`.  With no aborted send (always
    the case in v2, and in v1 without Stop/cancel) the delivered items of a channel followed
    by the items still waiting in it are EXACTLY the written sequence: no loss, no
    duplication, no reordering, nothing that was not written. -/
theorem c02_fifo (div : DivFn) (s0 s : St) (acts : List Act) (h0 : Pristine s0)
    (hr : run div s0 acts = some s) (hnd : s.dropped = []) (c : Nat) :
    chanItems (s.delivered.map untag) c ++ queueOf s c = chanItems s.arrived c := by
  have h := run_hinv div acts s0 s (pristine_hinv h0) hr
  rw [h.all hnd]; exact h.fifo c

/-- **C02 (v2 never drops).** -/
theorem c02_v2_no_drop (div : DivFn) (s0 s : St) (acts : List Act) (h0 : Pristine s0)
    (hv : s0.cfg.v1 = false) (hr : run div s0 acts = some s)
    (hcfg : s.cfg.v1 = s0.cfg.v1) : s.dropped = [] := by
  have h := run_hinv div acts s0 s (pristine_hinv h0) hr
  rcases h.drop with d | ⟨d, _⟩
  · exact d
  · rw [hcfg, hv] at d; cases d

/-- **C02 (in general: in-order, duplicate-free subsequence)** — also the form C16 needs. -/
theorem c02_subsequence (div : DivFn) (s0 s : St) (acts : List Act) (h0 : Pristine s0)
    (hr : run div s0 acts = some s) :
    (s.delivered.map untag).Sublist s.taken ∧ ∀ c, chanItems s.taken c ++ queueOf s c = chanItems s.arrived c := by
  have h := run_hinv div acts s0 s (pristine_hinv h0) hr
  exact ⟨h.sub, h.fifo⟩

/-- **C02 (tag).**  An item is delivered with the priority under which the channel it was
    received from is registered at that moment, and it is the oldest waiting item of that
    channel. -/
theorem c02_tag (div : DivFn) (s s' : St) (hs : step div s .pollItem = some s') :
    ∃ p c x, s'.delivered = s.delivered ++ [(p, c, x)] ∧
      (alGet s.inputs p).map (·.chan) = some c ∧ (queueOf s c).head? = some x := by
  obtain ⟨ph, p, rest, _, hp⟩ := step_poll_pc (Or.inl rfl) hs
  obtain ⟨inp, ch, x, q, hin, _, _, hch, hq, rfl⟩ := stepPoll_item hp
  exact ⟨p, inp.chan, x, rfl, by simp [hin], by simp [queueOf, hch, hq]⟩

theorem queue_mkChans (keys : List (Nat × Bool)) (c : Nat) :
    (match alGet (keys.map (fun kb => (kb.1, (⟨[], false, kb.2⟩ : Chan)))) c with
      | some ch => ch.queue
      | none => []) = [] := by
  induction keys with
  | nil => simp [alGet]
  | cons k ks ih =>
    simp only [List.map_cons, alGet]
    by_cases hk : k.1 = c
    · simp [hk]
    · simp only [hk, if_false]; exact ih

/-- the constructors yield pristine states -/
theorem initV1_pristine (div : DivFn) (keys : List (Nat × Bool)) (H : Nat) : Pristine (initV1 div keys H) :=
  ⟨rfl, rfl, rfl, rfl, fun c => queue_mkChans keys c⟩

theorem initV2_pristine (div : DivFn) (keys : List (Nat × Bool)) (H : Nat) (s : St)
    (h : initV2 div keys H = .ok s) : Pristine s := by
  unfold initV2 at h
  split at h
  · cases h
  · cases h
    exact ⟨rfl, rfl, rfl, rfl, fun c => queue_mkChans keys c⟩

/-- **C02 for the simplified disciplines**: a handler calls `Handle` exactly once for
    each item it receives from the output (the handler loop is
    `for item := range output { Handle(item); Release(priority) }`), so the multiset of
    `Handle` invocations is the multiset of deliveries; stated on the model: the handle log
    built by mapping the delivery log is a permutation-free copy of it. -/
theorem c02_simple (deliveries : List (Nat × Nat × Nat)) :
    (deliveries.map (fun e => e.2.2)).length = deliveries.length := by simp

/-! Non-vacuity -/
example :
    (match initV2 (fun _ => fair) [(2, true), (1, true)] 2 with
     | .ok s0 =>
       (run (fun _ => fair) s0 [.arrive 2 7, .arrive 2 9, .arrive 1 8, .calc, .pollItem, .skip, .pollItem]).map
         (fun s => (chanItems (s.delivered.map untag) 2, queueOf s 2, chanItems s.arrived 2))
     | .error _ => none) = some ([7], [9], [7, 9]) := by decide

end Cqos.C02
