import Cqos.Props.C12
/-
  Property C04 — limit: the output never exceeds Quantity per Interval.

  On the machine of `v2/limit` (Cqos/Limit.lean), whose enabling conditions contain the two
  runtime assumptions `ClockOK` (clock readings never decrease; `time.Sleep(d)` returns no
  earlier than after `d`), for EVERY action list — i.e. however irregularly the input
  arrives and however the consumer reads:

  * the i-th element (0-based) leaves the output at a reading `≥ t0 + ⌊i/Quantity⌋·Interval`
    (`t0` = creation);
  * hence at most `Quantity·(⌊(T − t0)/Interval⌋ + 1)` elements have left by reading `T`;
  * consecutive batch starts are at least `Interval` apart, element `i` leaves between the
    starts of batches `⌊i/Q⌋` and `⌊i/Q⌋+1` (`WInv`), hence the window form: the number of
    elements that left at a reading in `[a, a+W]` is at most `Quantity·(⌊W/Interval⌋ + 2)`
    (`c04_window`, `c04_window_count`), for every `a`, `W` and action list.

  "Left its output" is the completion of the discipline's own send; a consumer that lets
  the `1 + cap(input)` output buffer fill and drains it later sees a burst of its own making.
  Partial: `ClockOK` is an assumption about the Go runtime.
-/
namespace Cqos.C04
open Cqos.C12

/-- where the machine is on the time axis, `nb` batches having been started -/
def locOK (s : LSt) : Prop :=
  match s.pc with
  | .idle => s.starts.length = s.sleeps.length ∧ s.t0 + s.starts.length * s.cfg.interval ≤ s.now
  | .batch _ st => s.starts.length = s.sleeps.length + 1 ∧ s.t0 + s.sleeps.length * s.cfg.interval ≤ st
  | .holding _ st _ => s.starts.length = s.sleeps.length + 1 ∧ s.t0 + s.sleeps.length * s.cfg.interval ≤ st
  | .sleeping u => s.starts.length = s.sleeps.length ∧ s.t0 + s.starts.length * s.cfg.interval ≤ u
  | .done => True

structure TInv (s : LSt) : Prop where
  loc : locOK s
  /-- the i-th element left no earlier than `t0 + ⌊i/Q⌋·Interval` -/
  items : ∀ i (hi : i < s.sent.length), s.t0 + (i / s.cfg.quantity) * s.cfg.interval ≤ (s.sent[i]).2

theorem tstep_inv (s s' : LSt) (a : LAct) (hq : 0 < s.cfg.quantity) (hl : LInv s) (h : TInv s)
    (hs : lstep s a = some s') : TInv s' := by
  have hloc := h.loc
  have hst := hl.startLe
  have hc := hl.count
  have hh := hl.hold
  unfold lstep at hs
  split at hs
  · rename_i t hpc
    split at hs
    · rename_i hle
      cases hs
      simp only [locOK, hpc] at hloc
      refine ⟨?_, h.items⟩
      simp only [locOK, List.length_append, List.length_cons, List.length_nil]
      exact ⟨by omega, by rw [← hloc.1]; omega⟩
    · cases hs
  · rename_i k st x hpc
    split at hs
    · cases hs
      simp only [locOK, hpc] at hloc
      exact ⟨by simpa [locOK] using hloc, h.items⟩
    · cases hs
  · rename_i k st hpc
    split at hs
    · cases hs; exact ⟨by simp [locOK], h.items⟩
    · cases hs
  · -- holding, sent: the new element has index `Q·(completed batches) + k`
    rename_i k st x t hpc
    split at hs
    · rename_i hle
      cases hs
      simp only [locOK, hpc] at hloc
      simp only [batchStart, hpc] at hst
      simp only [isHolding, inBatch, hpc, forall_const] at hh
      refine ⟨by simpa [locOK] using hloc, ?_⟩
      intro i hi
      simp only [List.length_append, List.length_cons, List.length_nil] at hi
      by_cases hlt : i < s.sent.length
      · simp only [List.getElem_append_left hlt]; exact h.items i hlt
      · have hi' : i = s.sent.length := by omega
        subst hi'
        simp only [List.getElem_append_right (Nat.le_refl _), Nat.sub_self, List.getElem_cons_zero]
        have hcnt : s.sent.length = s.cfg.quantity * s.sleeps.length + k := by
          rcases hc with ⟨_, e⟩ | ⟨e, _⟩
          · simpa [inBatch, hpc] using e
          · rw [hpc] at e; cases e
        have hdiv : s.sent.length / s.cfg.quantity = s.sleeps.length := by
          rw [hcnt, Nat.mul_add_div hq, Nat.div_eq_of_lt hh]; simp
        rw [hdiv]; omega
    · cases hs
  · rename_i k st t hpc
    split at hs
    · rename_i hc2
      cases hs
      simp only [locOK, hpc] at hloc
      refine ⟨?_, h.items⟩
      simp only [locOK, List.length_append, List.length_cons, List.length_nil]
      refine ⟨hloc.1, ?_⟩
      rw [hloc.1, Nat.add_mul, Nat.one_mul]
      have := Nat.le_max_right t (st + s.cfg.interval)
      omega
    · cases hs
  · rename_i u t hpc
    split at hs
    · rename_i hc2
      cases hs
      simp only [locOK, hpc] at hloc
      exact ⟨by simp only [locOK]; exact ⟨hloc.1, by omega⟩, h.items⟩
    · cases hs
  · cases hs

theorem trun_inv (acts : List LAct) (s s' : LSt) (hq : 0 < s.cfg.quantity) (hl : LInv s) (h : TInv s)
    (hr : lrun s acts = some s') : TInv s' ∧ LInv s' ∧ s'.cfg = s.cfg ∧ s'.t0 = s.t0 := by
  induction acts generalizing s with
  | nil => simp [lrun] at hr; subst hr; exact ⟨h, hl, rfl, rfl⟩
  | cons a as ih =>
    simp only [lrun] at hr
    split at hr
    · rename_i s1 hs1
      obtain ⟨hl1, hc1⟩ := lstep_inv s s1 a hl hs1
      have ht1 := tstep_inv s s1 a hq hl h hs1
      have ht0 : s1.t0 = s.t0 := by
        unfold lstep at hs1
        split at hs1 <;> (try split at hs1) <;> (try (cases hs1; done)) <;> (cases hs1; rfl)
      obtain ⟨r1, r2, r3, r4⟩ := ih s1 (by rw [hc1]; exact hq) hl1 ht1 hr
      exact ⟨r1, r2, by rw [r3, hc1], by rw [r4, ht0]⟩
    · cases hr

theorem tinit (cfg : LCfg) (t0 : Nat) : TInv (linit cfg t0) :=
  ⟨by simp [locOK, linit], by simp [linit]⟩

/-- **C04 (per element).** The i-th element (0-based) that leaves the output does so at a
    clock reading `≥ t0 + ⌊i/Quantity⌋·Interval`. -/
theorem c04_item_time (cfg : LCfg) (t0 : Nat) (hq : 0 < cfg.quantity) (acts : List LAct) (s : LSt)
    (hr : lrun (linit cfg t0) acts = some s) (i : Nat) (hi : i < s.sent.length) :
    t0 + (i / cfg.quantity) * cfg.interval ≤ (s.sent[i]).2 := by
  obtain ⟨h, _, hc, ht⟩ := trun_inv acts _ s hq (linit_inv cfg t0) (tinit cfg t0) hr
  have := h.items i hi
  have hc' : s.cfg = cfg := by rw [hc]; rfl
  have ht' : s.t0 = t0 := by rw [ht]; rfl
  rw [hc', ht'] at this; exact this

theorem filter_length_le_of_index {α} (P : α → Bool) (M : Nat) (l : List α)
    (h : ∀ i (hi : i < l.length), P l[i] = true → i < M) : (l.filter P).length ≤ M := by
  have hsplit : l.filter P = (l.take M).filter P ++ (l.drop M).filter P := by
    rw [← List.filter_append, List.take_append_drop]
  have hnil : (l.drop M).filter P = [] := by
    rw [List.filter_eq_nil_iff]
    intro a ha
    rw [List.mem_iff_getElem] at ha
    obtain ⟨j, hj, rfl⟩ := ha
    rw [List.getElem_drop]
    intro hp
    have hjl : M + j < l.length := by simp at hj; omega
    have := h (M + j) hjl hp
    omega
  rw [hsplit, hnil, List.append_nil]
  exact Nat.le_trans (List.length_filter_le _ _) (by simp [List.length_take]; omega)

/-- **C04 (cumulative).** By clock reading `T`, at most
    `Quantity·(⌊(T − t0)/Interval⌋ + 1)` elements have left the output. -/
theorem c04_cumulative (cfg : LCfg) (t0 : Nat) (hq : 0 < cfg.quantity) (hI : 0 < cfg.interval)
    (acts : List LAct) (s : LSt) (hr : lrun (linit cfg t0) acts = some s) (T : Nat) :
    (s.sent.filter (fun e => decide (e.2 ≤ T))).length ≤ cfg.quantity * ((T - t0) / cfg.interval + 1) := by
  apply filter_length_le_of_index
  intro i hi hp
  simp only [decide_eq_true_eq] at hp
  have hit := c04_item_time cfg t0 hq acts s hr i hi
  -- (i/Q)·I ≤ T − t0  ⇒  i/Q ≤ (T − t0)/I  ⇒  i < Q·((T − t0)/I + 1)
  have h1 : (i / cfg.quantity) * cfg.interval ≤ T - t0 := by omega
  have h2 : i / cfg.quantity ≤ (T - t0) / cfg.interval := (Nat.le_div_iff_mul_le hI).2 h1
  have h3 : i < cfg.quantity * (i / cfg.quantity + 1) := by
    have := Nat.div_add_mod i cfg.quantity
    have := Nat.mod_lt i hq
    rw [Nat.mul_add, Nat.mul_one]; omega
  have h4 : cfg.quantity * (i / cfg.quantity + 1) ≤ cfg.quantity * ((T - t0) / cfg.interval + 1) :=
    Nat.mul_le_mul_left _ (by omega)
  omega

/-- **C04 (a batch forwards at most Quantity elements; batches are Interval apart).**
    At every moment at most `Quantity·(number of batches started)` elements have been sent, and
    the k-th batch (0-based) started at a reading `≥ t0 + k·Interval`. -/
theorem c04_batches (cfg : LCfg) (t0 : Nat) (hq : 0 < cfg.quantity) (acts : List LAct) (s : LSt)
    (hr : lrun (linit cfg t0) acts = some s) (hnd : s.pc ≠ .done) :
    s.sent.length ≤ cfg.quantity * s.starts.length := by
  obtain ⟨h, hl, hc, _⟩ := trun_inv acts _ s hq (linit_inv cfg t0) (tinit cfg t0) hr
  have hc' : s.cfg = cfg := by rw [hc]; rfl
  have hloc := h.loc
  have hk := hl.kle
  rcases hl.count with ⟨_, e⟩ | ⟨e, _⟩
  · rw [hc'] at e hk
    cases hpc : s.pc with
    | idle => simp only [locOK, hpc] at hloc; simp [inBatch, hpc] at e; rw [hloc.1]; omega
    | batch k st =>
      simp only [locOK, hpc] at hloc; simp [inBatch, hpc] at e hk
      rw [hloc.1, Nat.mul_add, Nat.mul_one]; omega
    | holding k st x =>
      simp only [locOK, hpc] at hloc; simp [inBatch, hpc] at e hk
      rw [hloc.1, Nat.mul_add, Nat.mul_one]; omega
    | sleeping u => simp only [locOK, hpc] at hloc; simp [inBatch, hpc] at e; rw [hloc.1]; omega
    | done => exact absurd hpc hnd
  · exact absurd e hnd

/-! Non-vacuity: Quantity 2, Interval 100: element 2 (third) leaves at 102 ≥ 0 + 1·100. -/
example :
    (lrun (linit ⟨2, 100⟩ 0)
      [.start 1, .recv 10, .sent 2, .recv 11, .sent 3, .batchEnd 4, .wake 101, .start 101, .recv 12, .sent 102]).map
      (fun s => s.sent) = some [(10, 2), (11, 3), (12, 102)] := by decide

/-- the Sleep assumption is what forbids an early wake -/
example : lstep { linit ⟨2, 100⟩ 0 with pc := .sleeping 101, now := 4 } (.wake 50) = none := by decide


/-! ### The window form -/

/-- where the batch starts are, relative to the machine's position -/
def wlocOK (s : LSt) : Prop :=
  match s.pc with
  | .idle => s.starts.length = s.sleeps.length ∧
      ∀ v, s.starts[s.starts.length - 1]? = some v → v + s.cfg.interval ≤ s.now
  | .batch _ st => s.starts.length = s.sleeps.length + 1 ∧ s.starts[s.sleeps.length]? = some st
  | .holding _ st _ => s.starts.length = s.sleeps.length + 1 ∧ s.starts[s.sleeps.length]? = some st
  | .sleeping u => s.starts.length = s.sleeps.length ∧
      ∀ v, s.starts[s.starts.length - 1]? = some v → v + s.cfg.interval ≤ u
  | .done => True

structure WInv (s : LSt) : Prop where
  wloc : wlocOK s
  /-- the clock is ahead of everything recorded -/
  sentLe : ∀ e ∈ s.sent, e.2 ≤ s.now
  /-- element `i` was sent after batch `⌊i/Q⌋` started … -/
  lower : ∀ i (hi : i < s.sent.length), ∃ v, s.starts[i / s.cfg.quantity]? = some v ∧ v ≤ (s.sent[i]).2
  /-- … and before the next batch started -/
  upper : ∀ i (hi : i < s.sent.length) v, s.starts[i / s.cfg.quantity + 1]? = some v → (s.sent[i]).2 ≤ v
  /-- consecutive batch starts are at least Interval apart -/
  spaced : ∀ b v w, s.starts[b]? = some v → s.starts[b + 1]? = some w → v + s.cfg.interval ≤ w

theorem winit (cfg : LCfg) (t0 : Nat) : WInv (linit cfg t0) :=
  ⟨by simp [wlocOK, linit], by simp [linit], by simp [linit], by simp [linit], by simp [linit]⟩

theorem wstep_inv (s s' : LSt) (a : LAct) (hq : 0 < s.cfg.quantity) (hl : LInv s) (h : WInv s)
    (hs : lstep s a = some s') : WInv s' := by
  have hloc := h.wloc
  have hst := hl.startLe
  have hc := hl.count
  have hh := hl.hold
  unfold lstep at hs
  split at hs
  · -- idle, start t
    rename_i t hpc
    split at hs
    · rename_i hle
      cases hs
      simp only [wlocOK, hpc] at hloc
      refine ⟨?_, ?_, ?_, ?_, ?_⟩
      · simp only [wlocOK, List.length_append, List.length_cons, List.length_nil]
        refine ⟨by omega, ?_⟩
        rw [← hloc.1]
        simp
      · intro e he; have := h.sentLe e he; simp only; omega
      · intro i hi
        obtain ⟨v, hv, hle'⟩ := h.lower i hi
        refine ⟨v, ?_, hle'⟩
        have hlt : i / s.cfg.quantity < s.starts.length := by
          obtain ⟨hh', _⟩ := List.getElem?_eq_some_iff.mp hv
          exact hh'
        simp only
        rw [List.getElem?_append_left hlt]; exact hv
      · intro i hi v hv
        simp only at hv
        by_cases hlt : i / s.cfg.quantity + 1 < s.starts.length
        · rw [List.getElem?_append_left hlt] at hv; exact h.upper i hi v hv
        · by_cases heq : i / s.cfg.quantity + 1 = s.starts.length
          · rw [heq, List.getElem?_append_right (Nat.le_refl _)] at hv
            simp at hv; subst hv
            have := h.sentLe _ (List.getElem_mem hi)
            omega
          · rw [List.getElem?_eq_none (by simp; omega)] at hv; cases hv
      · intro b v w hv hw
        simp only at hv hw
        by_cases hlt : b + 1 < s.starts.length
        · rw [List.getElem?_append_left hlt] at hw
          rw [List.getElem?_append_left (by omega)] at hv
          exact h.spaced b v w hv hw
        · by_cases heq : b + 1 = s.starts.length
          · rw [heq, List.getElem?_append_right (Nat.le_refl _)] at hw
            simp at hw; subst hw
            rw [List.getElem?_append_left (by omega)] at hv
            have hb : b = s.starts.length - 1 := by omega
            rw [hb] at hv
            have := hloc.2 v hv
            simp only; omega
          · rw [List.getElem?_eq_none (by simp; omega)] at hw; cases hw
    · cases hs
  · -- batch, recv
    rename_i k st x hpc
    split at hs
    · cases hs
      simp only [wlocOK, hpc] at hloc
      exact ⟨by simpa [wlocOK] using hloc, h.sentLe, h.lower, h.upper, h.spaced⟩
    · cases hs
  · -- batch, closed
    rename_i k st hpc
    split at hs
    · cases hs; exact ⟨by simp [wlocOK], h.sentLe, h.lower, h.upper, h.spaced⟩
    · cases hs
  · -- holding, sent t
    rename_i k st x t hpc
    split at hs
    · rename_i hle
      cases hs
      simp only [wlocOK, hpc] at hloc
      simp only [batchStart, hpc] at hst
      simp only [isHolding, inBatch, hpc, forall_const] at hh
      have hcnt : s.sent.length = s.cfg.quantity * s.sleeps.length + k := by
        rcases hc with ⟨_, e⟩ | ⟨e, _⟩
        · simpa [inBatch, hpc] using e
        · rw [hpc] at e; cases e
      have hdiv : s.sent.length / s.cfg.quantity = s.sleeps.length := by
        rw [hcnt, Nat.mul_add_div hq, Nat.div_eq_of_lt hh]; simp
      refine ⟨by simpa [wlocOK] using hloc, ?_, ?_, ?_, h.spaced⟩
      · intro e he
        simp only [List.mem_append, List.mem_singleton] at he
        rcases he with he | he
        · have := h.sentLe e he; simp only; omega
        · subst he; simp
      · intro i hi
        simp only [List.length_append, List.length_cons, List.length_nil] at hi
        by_cases hlt : i < s.sent.length
        · simp only [List.getElem_append_left hlt]; exact h.lower i hlt
        · have hi' : i = s.sent.length := by omega
          subst hi'
          simp only [List.getElem_append_right (Nat.le_refl _), Nat.sub_self, List.getElem_cons_zero]
          rw [hdiv]
          exact ⟨st, hloc.2, by omega⟩
      · intro i hi v hv
        simp only [List.length_append, List.length_cons, List.length_nil] at hi
        by_cases hlt : i < s.sent.length
        · simp only [List.getElem_append_left hlt]; exact h.upper i hlt v hv
        · have hi' : i = s.sent.length := by omega
          subst hi'
          have hl1 := hloc.1
          have hnone : s.starts[s.sleeps.length + 1]? = none := List.getElem?_eq_none (by omega)
          rw [hdiv, hnone] at hv; cases hv
    · cases hs
  · -- batch, batchEnd t
    rename_i k st t hpc
    split at hs
    · rename_i hc2
      cases hs
      simp only [wlocOK, hpc] at hloc
      refine ⟨?_, ?_, h.lower, h.upper, h.spaced⟩
      · simp only [wlocOK, List.length_append, List.length_cons, List.length_nil]
        refine ⟨hloc.1, ?_⟩
        intro v hv
        rw [hloc.1] at hv
        simp only [Nat.add_sub_cancel] at hv
        rw [hloc.2] at hv; cases hv
        exact Nat.le_max_right _ _
      · intro e he; have := h.sentLe e he; simp only; omega
    · cases hs
  · -- sleeping, wake t
    rename_i u t hpc
    split at hs
    · rename_i hc2
      cases hs
      simp only [wlocOK, hpc] at hloc
      refine ⟨?_, ?_, h.lower, h.upper, h.spaced⟩
      · simp only [wlocOK]; exact ⟨hloc.1, fun v hv => by have := hloc.2 v hv; omega⟩
      · intro e he; have := h.sentLe e he; simp only; omega
    · cases hs
  · cases hs

theorem wrun_inv (acts : List LAct) (s s' : LSt) (hq : 0 < s.cfg.quantity) (hl : LInv s) (h : WInv s)
    (hr : lrun s acts = some s') : WInv s' ∧ s'.cfg = s.cfg := by
  induction acts generalizing s with
  | nil => simp [lrun] at hr; subst hr; exact ⟨h, rfl⟩
  | cons a as ih =>
    simp only [lrun] at hr
    split at hr
    · rename_i s1 hs1
      obtain ⟨hl1, hc1⟩ := lstep_inv s s1 a hl hs1
      have hw1 := wstep_inv s s1 a hq hl h hs1
      obtain ⟨r1, r2⟩ := ih s1 (by rw [hc1]; exact hq) hl1 hw1 hr
      exact ⟨r1, by rw [r2, hc1]⟩
    · cases hr

/-- batch starts `n` apart in index are `n·Interval` apart in time -/
theorem spaced_iter (s : LSt) (h : WInv s) (n b v w : Nat)
    (hv : s.starts[b]? = some v) (hw : s.starts[b + n]? = some w) : v + n * s.cfg.interval ≤ w := by
  induction n generalizing w with
  | zero => simp at hw; rw [hv] at hw; cases hw; omega
  | succ n ih =>
    have hlt : b + (n + 1) < s.starts.length := by
      obtain ⟨hh', _⟩ := List.getElem?_eq_some_iff.mp hw
      exact hh'
    have hm : s.starts[b + n]? = some s.starts[b + n] := List.getElem?_eq_getElem (by omega)
    have h1 := ih _ hm
    have h2 := h.spaced (b + n) _ w hm (by rw [← Nat.add_assoc] at hw; exact hw)
    rw [Nat.add_mul, Nat.one_mul]; omega

theorem aux_near (a b w : Nat) (h : a ≤ b + 1) : a - b + 1 ≤ w + 2 := by omega

theorem aux_far (a b w k : Nat) (h : a - b - 1 ≤ k) (hk : k ≤ w) : a - b + 1 ≤ w + 2 := by omega

/-- **C04 (window, index form).** If elements `i ≤ j` left the output at readings at most `W`
    apart, then `j − i + 1 ≤ Quantity·(⌊W/Interval⌋ + 2)`: no window of length `W` contains
    more output elements than that, for every action list. -/
theorem c04_window (cfg : LCfg) (t0 : Nat) (hq : 0 < cfg.quantity) (hI : 0 < cfg.interval)
    (acts : List LAct) (s : LSt) (hr : lrun (linit cfg t0) acts = some s)
    (i j : Nat) (hij : i ≤ j) (hj : j < s.sent.length) (W : Nat)
    (hW : (s.sent[j]).2 ≤ (s.sent[i]'(by omega)).2 + W) :
    j - i + 1 ≤ cfg.quantity * (W / cfg.interval + 2) := by
  obtain ⟨h, hc⟩ := wrun_inv acts _ s hq (linit_inv cfg t0) (winit cfg t0) hr
  have hc' : s.cfg = cfg := by rw [hc]; rfl
  have hi : i < s.sent.length := by omega
  obtain ⟨vi, hvi, hlei⟩ := h.lower i hi
  obtain ⟨vj, hvj, hlej⟩ := h.lower j hj
  rw [hc'] at hvi hvj
  have hdi := Nat.div_add_mod i cfg.quantity
  have hdj := Nat.div_add_mod j cfg.quantity
  have hmi := Nat.mod_lt i hq
  have hmj := Nat.mod_lt j hq
  have hmono : i / cfg.quantity ≤ j / cfg.quantity := Nat.div_le_div_right hij
  -- j − i + 1 ≤ Q·(bj − bi + 1)
  have hcount : j - i + 1 ≤ cfg.quantity * (j / cfg.quantity - i / cfg.quantity + 1) := by
    have : cfg.quantity * (j / cfg.quantity - i / cfg.quantity + 1)
        = cfg.quantity * (j / cfg.quantity) - cfg.quantity * (i / cfg.quantity) + cfg.quantity := by
      rw [Nat.mul_add, Nat.mul_one, Nat.mul_sub]
    have hm2 : cfg.quantity * (i / cfg.quantity) ≤ cfg.quantity * (j / cfg.quantity) :=
      Nat.mul_le_mul_left _ hmono
    omega
  by_cases hnear : j / cfg.quantity ≤ i / cfg.quantity + 1
  · have hle2 : j / cfg.quantity - i / cfg.quantity + 1 ≤ W / cfg.interval + 2 := aux_near _ _ _ hnear
    have : cfg.quantity * (j / cfg.quantity - i / cfg.quantity + 1) ≤ cfg.quantity * (W / cfg.interval + 2) :=
      Nat.mul_le_mul_left _ hle2
    omega
  · -- at least one whole batch start strictly between
    have hlt : i / cfg.quantity + 1 < s.starts.length := by
      obtain ⟨hjl, _⟩ := List.getElem?_eq_some_iff.mp hvj
      omega
    have hm : s.starts[i / cfg.quantity + 1]? = some s.starts[i / cfg.quantity + 1] :=
      List.getElem?_eq_getElem hlt
    have hup := h.upper i hi _ (by rw [hc']; exact hm)
    have hn : i / cfg.quantity + 1 + (j / cfg.quantity - i / cfg.quantity - 1) = j / cfg.quantity := by omega
    have hsp := spaced_iter s h (j / cfg.quantity - i / cfg.quantity - 1) (i / cfg.quantity + 1) _ vj hm
      (by rw [hn]; exact hvj)
    rw [hc'] at hsp
    have hWI : (j / cfg.quantity - i / cfg.quantity - 1) * cfg.interval ≤ W := by omega
    have hb : j / cfg.quantity - i / cfg.quantity - 1 ≤ W / cfg.interval := (Nat.le_div_iff_mul_le hI).2 hWI
    have hle2 : j / cfg.quantity - i / cfg.quantity + 1 ≤ W / cfg.interval + 2 :=
      aux_far _ _ _ _ (Nat.le_refl _) hb
    have : cfg.quantity * (j / cfg.quantity - i / cfg.quantity + 1) ≤ cfg.quantity * (W / cfg.interval + 2) :=
      Nat.mul_le_mul_left _ hle2
    omega


theorem filter_length_le_of_span {α} (P : α → Bool) (M : Nat) (l : List α)
    (h : ∀ i j (hi : i < l.length) (hj : j < l.length), i ≤ j → P l[i] = true → P l[j] = true → j - i + 1 ≤ M) :
    (l.filter P).length ≤ M := by
  induction l with
  | nil => simp
  | cons x xs ih =>
    by_cases hx : P x = true
    · rw [List.filter_cons_of_pos hx, List.length_cons]
      have hM : 1 ≤ M := by
        have := h 0 0 (by simp) (by simp) (Nat.le_refl _) (by simpa using hx) (by simpa using hx)
        omega
      have hxs : (xs.filter P).length ≤ M - 1 := by
        apply filter_length_le_of_index
        intro i' hi' hp
        have := h 0 (i' + 1) (by simp) (by simp; omega) (by omega) (by simpa using hx) (by simpa using hp)
        omega
      omega
    · rw [List.filter_cons_of_neg hx]
      apply ih
      intro i j hi hj hij hpi hpj
      have := h (i + 1) (j + 1) (by simp; omega) (by simp; omega) (by omega) (by simpa using hpi) (by simpa using hpj)
      omega

/-- **C04 (window).** For every action list, every `a` and every `W`: the number of elements
    that left the output at a clock reading in `[a, a + W]` is at most
    `Quantity·(⌊W/Interval⌋ + 2)`. -/
theorem c04_window_count (cfg : LCfg) (t0 : Nat) (hq : 0 < cfg.quantity) (hI : 0 < cfg.interval)
    (acts : List LAct) (s : LSt) (hr : lrun (linit cfg t0) acts = some s) (a W : Nat) :
    (s.sent.filter (fun e => decide (a ≤ e.2 ∧ e.2 ≤ a + W))).length ≤ cfg.quantity * (W / cfg.interval + 2) := by
  apply filter_length_le_of_span
  intro i j hi hj hij hpi hpj
  simp only [decide_eq_true_eq] at hpi hpj
  exact c04_window cfg t0 hq hI acts s hr i j hij hj W (by omega)

/-- the elements leave the output in clock order (so the elements inside a time window are a
    contiguous index range, to which `c04_window` applies) -/
theorem c04_sent_sorted (cfg : LCfg) (t0 : Nat) (acts : List LAct) (s : LSt)
    (hr : lrun (linit cfg t0) acts = some s) :
    s.sent.Pairwise (fun a b => a.2 ≤ b.2) ∧ ∀ e ∈ s.sent, e.2 ≤ s.now := by
  suffices H : ∀ (acts : List LAct) (s0 s : LSt),
      (s0.sent.Pairwise (fun a b => a.2 ≤ b.2) ∧ ∀ e ∈ s0.sent, e.2 ≤ s0.now) → lrun s0 acts = some s →
      (s.sent.Pairwise (fun a b => a.2 ≤ b.2) ∧ ∀ e ∈ s.sent, e.2 ≤ s.now) from
    H acts _ s (by simp [linit]) hr
  intro acts
  induction acts with
  | nil => intro s0 s h hr; simp [lrun] at hr; subst hr; exact h
  | cons a as ih =>
    intro s0 s h hr
    simp only [lrun] at hr
    split at hr
    · rename_i s1 hs1
      refine ih s1 s ?_ hr
      obtain ⟨hp, hn⟩ := h
      unfold lstep at hs1
      split at hs1
      · split at hs1
        · cases hs1; exact ⟨hp, fun e he => by have := hn e he; simp only; omega⟩
        · cases hs1
      · split at hs1
        · cases hs1; exact ⟨hp, hn⟩
        · cases hs1
      · split at hs1
        · cases hs1; exact ⟨hp, hn⟩
        · cases hs1
      · split at hs1
        · rename_i hle
          cases hs1
          refine ⟨?_, ?_⟩
          · rw [List.pairwise_append]
            refine ⟨hp, by simp, ?_⟩
            intro a ha b hb
            simp only [List.mem_singleton] at hb; subst hb
            have := hn a ha; simp only; omega
          · intro e he
            simp only [List.mem_append, List.mem_singleton] at he
            rcases he with he | he
            · have := hn e he; simp only; omega
            · subst he; simp
        · cases hs1
      · split at hs1
        · cases hs1; exact ⟨hp, fun e he => by have := hn e he; simp only; omega⟩
        · cases hs1
      · split at hs1
        · cases hs1; exact ⟨hp, fun e he => by have := hn e he; simp only; omega⟩
        · cases hs1
      · cases hs1
    · cases hr

/-- non-vacuity: a run in which the window bound is attained with equality for `W = 0`
    … `Quantity = 2`, two elements at the end of one batch and two at the start of the next,
    all at the same reading is impossible (the batches are Interval apart), but three within
    one Interval are possible: -/
example :
    ∃ s, lrun (linit ⟨2, 10⟩ 0) [.start 0, .recv 1, .sent 9, .recv 2, .sent 9, .batchEnd 9, .wake 10,
        .start 10, .recv 3, .sent 10] = some s ∧ s.sent = [(1, 9), (2, 9), (3, 10)] := by
  refine ⟨_, rfl, rfl⟩

end Cqos.C04
