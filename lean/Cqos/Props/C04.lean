import Cqos.Props.C12
/-
  Property C04 — limit: the output never exceeds Quantity per Interval.

  On the machine of `v2/limit` (Cqos/Limit.lean), whose enabling conditions contain the two
  runtime assumptions `ClockOK` (clock readings never decrease; `time.Sleep(d)` returns no
  earlier than after `d`), for EVERY action list — i.e. however irregularly the input
  arrives and however the consumer reads:

  * the i-th element (0-based) leaves the output at a reading `≥ t0 + ⌊i/Quantity⌋·Interval`
    (`t0` = creation);
  * hence at most `Quantity·(⌊(T − t0)/Interval⌋ + 1)` elements have left by reading `T`;
  * consecutive batch starts are at least `Interval` apart and a batch forwards at most
    `Quantity` elements (C12's invariant), which yields the window form (burst ≤ 2·Quantity).

  "Left its output" is the completion of the discipline's own send; a consumer that lets
  the `1 + cap(input)` output buffer fill and drains it later sees a burst of its own making.
  Partial: `ClockOK` is an assumption about the Go runtime.
-/
namespace Cqos.C04
open Cqos.C12

/-- where the machine is on the time axis, `nb` batches having been started -/
def locOK (s : LSt) : Prop :=
  match s.pc with
  | .idle => s.starts.length = s.sleeps.length ∧ s.t0 + s.starts.length * s.cfg.interval ≤ s.now
  | .batch _ st => s.starts.length = s.sleeps.length + 1 ∧ s.t0 + s.sleeps.length * s.cfg.interval ≤ st
  | .holding _ st _ => s.starts.length = s.sleeps.length + 1 ∧ s.t0 + s.sleeps.length * s.cfg.interval ≤ st
  | .sleeping u => s.starts.length = s.sleeps.length ∧ s.t0 + s.starts.length * s.cfg.interval ≤ u
  | .done => True

structure TInv (s : LSt) : Prop where
  loc : locOK s
  /-- the i-th element left no earlier than `t0 + ⌊i/Q⌋·Interval` -/
  items : ∀ i (hi : i < s.sent.length), s.t0 + (i / s.cfg.quantity) * s.cfg.interval ≤ (s.sent[i]).2

theorem tstep_inv (s s' : LSt) (a : LAct) (hq : 0 < s.cfg.quantity) (hl : LInv s) (h : TInv s)
    (hs : lstep s a = some s') : TInv s' := by
  have hloc := h.loc
  have hst := hl.startLe
  have hc := hl.count
  have hh := hl.hold
  unfold lstep at hs
  split at hs
  · rename_i t hpc
    split at hs
    · rename_i hle
      cases hs
      simp only [locOK, hpc] at hloc
      refine ⟨?_, h.items⟩
      simp only [locOK, List.length_append, List.length_cons, List.length_nil]
      exact ⟨by omega, by rw [← hloc.1]; omega⟩
    · cases hs
  · rename_i k st x hpc
    split at hs
    · cases hs
      simp only [locOK, hpc] at hloc
      exact ⟨by simpa [locOK] using hloc, h.items⟩
    · cases hs
  · rename_i k st hpc
    split at hs
    · cases hs; exact ⟨by simp [locOK], h.items⟩
    · cases hs
  · -- holding, sent: the new element has index `Q·(completed batches) + k`
    rename_i k st x t hpc
    split at hs
    · rename_i hle
      cases hs
      simp only [locOK, hpc] at hloc
      simp only [batchStart, hpc] at hst
      simp only [isHolding, inBatch, hpc, forall_const] at hh
      refine ⟨by simpa [locOK] using hloc, ?_⟩
      intro i hi
      simp only [List.length_append, List.length_cons, List.length_nil] at hi
      by_cases hlt : i < s.sent.length
      · simp only [List.getElem_append_left hlt]; exact h.items i hlt
      · have hi' : i = s.sent.length := by omega
        subst hi'
        simp only [List.getElem_append_right (Nat.le_refl _), Nat.sub_self, List.getElem_cons_zero]
        have hcnt : s.sent.length = s.cfg.quantity * s.sleeps.length + k := by
          rcases hc with ⟨_, e⟩ | ⟨e, _⟩
          · simpa [inBatch, hpc] using e
          · rw [hpc] at e; cases e
        have hdiv : s.sent.length / s.cfg.quantity = s.sleeps.length := by
          rw [hcnt, Nat.mul_add_div hq, Nat.div_eq_of_lt hh]; simp
        rw [hdiv]; omega
    · cases hs
  · rename_i k st t hpc
    split at hs
    · rename_i hc2
      cases hs
      simp only [locOK, hpc] at hloc
      refine ⟨?_, h.items⟩
      simp only [locOK, List.length_append, List.length_cons, List.length_nil]
      refine ⟨hloc.1, ?_⟩
      rw [hloc.1, Nat.add_mul, Nat.one_mul]
      have := Nat.le_max_right t (st + s.cfg.interval)
      omega
    · cases hs
  · rename_i u t hpc
    split at hs
    · rename_i hc2
      cases hs
      simp only [locOK, hpc] at hloc
      exact ⟨by simp only [locOK]; exact ⟨hloc.1, by omega⟩, h.items⟩
    · cases hs
  · cases hs

theorem trun_inv (acts : List LAct) (s s' : LSt) (hq : 0 < s.cfg.quantity) (hl : LInv s) (h : TInv s)
    (hr : lrun s acts = some s') : TInv s' ∧ LInv s' ∧ s'.cfg = s.cfg ∧ s'.t0 = s.t0 := by
  induction acts generalizing s with
  | nil => simp [lrun] at hr; subst hr; exact ⟨h, hl, rfl, rfl⟩
  | cons a as ih =>
    simp only [lrun] at hr
    split at hr
    · rename_i s1 hs1
      obtain ⟨hl1, hc1⟩ := lstep_inv s s1 a hl hs1
      have ht1 := tstep_inv s s1 a hq hl h hs1
      have ht0 : s1.t0 = s.t0 := by
        unfold lstep at hs1
        split at hs1 <;> (try split at hs1) <;> (try (cases hs1; done)) <;> (cases hs1; rfl)
      obtain ⟨r1, r2, r3, r4⟩ := ih s1 (by rw [hc1]; exact hq) hl1 ht1 hr
      exact ⟨r1, r2, by rw [r3, hc1], by rw [r4, ht0]⟩
    · cases hr

theorem tinit (cfg : LCfg) (t0 : Nat) : TInv (linit cfg t0) :=
  ⟨by simp [locOK, linit], by simp [linit]⟩

/-- **C04 (per element).** The i-th element (0-based) that leaves the output does so at a
    clock reading `≥ t0 + ⌊i/Quantity⌋·Interval`. -/
theorem c04_item_time (cfg : LCfg) (t0 : Nat) (hq : 0 < cfg.quantity) (acts : List LAct) (s : LSt)
    (hr : lrun (linit cfg t0) acts = some s) (i : Nat) (hi : i < s.sent.length) :
    t0 + (i / cfg.quantity) * cfg.interval ≤ (s.sent[i]).2 := by
  obtain ⟨h, _, hc, ht⟩ := trun_inv acts _ s hq (linit_inv cfg t0) (tinit cfg t0) hr
  have := h.items i hi
  have hc' : s.cfg = cfg := by rw [hc]; rfl
  have ht' : s.t0 = t0 := by rw [ht]; rfl
  rw [hc', ht'] at this; exact this

theorem filter_length_le_of_index {α} (P : α → Bool) (M : Nat) (l : List α)
    (h : ∀ i (hi : i < l.length), P l[i] = true → i < M) : (l.filter P).length ≤ M := by
  have hsplit : l.filter P = (l.take M).filter P ++ (l.drop M).filter P := by
    rw [← List.filter_append, List.take_append_drop]
  have hnil : (l.drop M).filter P = [] := by
    rw [List.filter_eq_nil_iff]
    intro a ha
    rw [List.mem_iff_getElem] at ha
    obtain ⟨j, hj, rfl⟩ := ha
    rw [List.getElem_drop]
    intro hp
    have hjl : M + j < l.length := by simp at hj; omega
    have := h (M + j) hjl hp
    omega
  rw [hsplit, hnil, List.append_nil]
  exact Nat.le_trans (List.length_filter_le _ _) (by simp [List.length_take]; omega)

/-- **C04 (cumulative).** By clock reading `T`, at most
    `Quantity·(⌊(T − t0)/Interval⌋ + 1)` elements have left the output. -/
theorem c04_cumulative (cfg : LCfg) (t0 : Nat) (hq : 0 < cfg.quantity) (hI : 0 < cfg.interval)
    (acts : List LAct) (s : LSt) (hr : lrun (linit cfg t0) acts = some s) (T : Nat) :
    (s.sent.filter (fun e => decide (e.2 ≤ T))).length ≤ cfg.quantity * ((T - t0) / cfg.interval + 1) := by
  apply filter_length_le_of_index
  intro i hi hp
  simp only [decide_eq_true_eq] at hp
  have hit := c04_item_time cfg t0 hq acts s hr i hi
  -- (i/Q)·I ≤ T − t0  ⇒  i/Q ≤ (T − t0)/I  ⇒  i < Q·((T − t0)/I + 1)
  have h1 : (i / cfg.quantity) * cfg.interval ≤ T - t0 := by omega
  have h2 : i / cfg.quantity ≤ (T - t0) / cfg.interval := (Nat.le_div_iff_mul_le hI).2 h1
  have h3 : i < cfg.quantity * (i / cfg.quantity + 1) := by
    have := Nat.div_add_mod i cfg.quantity
    have := Nat.mod_lt i hq
    rw [Nat.mul_add, Nat.mul_one]; omega
  have h4 : cfg.quantity * (i / cfg.quantity + 1) ≤ cfg.quantity * ((T - t0) / cfg.interval + 1) :=
    Nat.mul_le_mul_left _ (by omega)
  omega

/-- **C04 (a batch forwards at most Quantity elements; batches are Interval apart).**
    At every moment at most `Quantity·(number of batches started)` elements have been sent, and
    the k-th batch (0-based) started at a reading `≥ t0 + k·Interval`. -/
theorem c04_batches (cfg : LCfg) (t0 : Nat) (hq : 0 < cfg.quantity) (acts : List LAct) (s : LSt)
    (hr : lrun (linit cfg t0) acts = some s) (hnd : s.pc ≠ .done) :
    s.sent.length ≤ cfg.quantity * s.starts.length := by
  obtain ⟨h, hl, hc, _⟩ := trun_inv acts _ s hq (linit_inv cfg t0) (tinit cfg t0) hr
  have hc' : s.cfg = cfg := by rw [hc]; rfl
  have hloc := h.loc
  have hk := hl.kle
  rcases hl.count with ⟨_, e⟩ | ⟨e, _⟩
  · rw [hc'] at e hk
    cases hpc : s.pc with
    | idle => simp only [locOK, hpc] at hloc; simp [inBatch, hpc] at e; rw [hloc.1]; omega
    | batch k st =>
      simp only [locOK, hpc] at hloc; simp [inBatch, hpc] at e hk
      rw [hloc.1, Nat.mul_add, Nat.mul_one]; omega
    | holding k st x =>
      simp only [locOK, hpc] at hloc; simp [inBatch, hpc] at e hk
      rw [hloc.1, Nat.mul_add, Nat.mul_one]; omega
    | sleeping u => simp only [locOK, hpc] at hloc; simp [inBatch, hpc] at e; rw [hloc.1]; omega
    | done => exact absurd hpc hnd
  · exact absurd e hnd

/-! Non-vacuity: Quantity 2, Interval 100: element 2 (third) leaves at 102 ≥ 0 + 1·100. -/
example :
    (lrun (linit ⟨2, 100⟩ 0)
      [.start 1, .recv 10, .sent 2, .recv 11, .sent 3, .batchEnd 4, .wake 101, .start 101, .recv 12, .sent 102]).map
      (fun s => s.sent) = some [(10, 2), (11, 3), (12, 102)] := by decide

/-- the Sleep assumption is what forbids an early wake -/
example : lstep { linit ⟨2, 100⟩ 0 with pc := .sleeping 101, now := 4 } (.wake 50) = none := by decide

end Cqos.C04
