import Cqos.Lemmas.Incs
/-
  Property C14 — dividers conserve the dividend and respect priority order.

  `fair`, `rateWith part` are the models of `divider.Fair` / `divider.Rate` (v1:
  `FairDivider` / `RateDivider`); `rate = rateWith floatPart`.  Everything about Rate is
  proved for an ARBITRARY rounding function `part`, so conservation and the frame
  property do not depend on floating point at all; monotonicity needs `part` to be
  antitone along the list, which for the IEEE computation is a fact about doubles that
  the kernel cannot evaluate (`Float` is opaque) — it is evaluated by the driver on
  every call it executes (`float-hypothesis-fails` would show up as a disagreement); the
  same holds for the `n/2` clause (`c14_rate_near`), whose hypothesis is `Near`/`nearHalf`.
-/
namespace Cqos.C14

theorem fair_eq (ps : List Nat) (d : Nat) (m : Dist) (h : ps ≠ []) :
    fair ps d m = applyIncs ps (fairIncs ps.length (d / ps.length) (d - d / ps.length * ps.length)) m := by
  simp [fair, h, fairLoop_eq]

/-- **C14 (Fair conserves the dividend).** -/
theorem c14_fair_total (ps : List Nat) (d : Nat) (m : Dist) (h : ps ≠ []) :
    (fair ps d m).total = m.total + d := by
  have hn : 0 < ps.length := List.length_pos_iff.mpr h
  rw [fair_eq ps d m h, total_applyIncs _ _ _ (fairIncs_length _ _ _).symm]
  have hdm := Nat.div_add_mod d ps.length
  have hml := Nat.mod_lt d hn
  have hc : d / ps.length * ps.length = ps.length * (d / ps.length) := Nat.mul_comm _ _
  rw [fairIncs_sum _ _ _ (by omega)]
  omega

/-- **C14 (Fair changes nothing else).** -/
theorem c14_fair_frame (ps : List Nat) (d : Nat) (m : Dist) (k : Nat) (hk : k ∉ ps) :
    (fair ps d m).get k = m.get k := by
  by_cases h : ps = []
  · simp [fair, h]
  · rw [fair_eq ps d m h]; exact get_applyIncs_notin _ _ _ _ hk

/-- **C14 (Fair's shape).** The j-th listed priority receives `⌊d/n⌋`, plus one for the
    first `d mod n` of them — increments differ by at most one, extras go to the highest. -/
theorem c14_fair_shape (ps : List Nat) (d : Nat) (m : Dist) (hnd : ps.Nodup)
    (j : Nat) (hj : j < ps.length) :
    (fair ps d m).get (ps[j]) = m.get (ps[j]) + d / ps.length + (if j < d % ps.length then 1 else 0) := by
  have h : ps ≠ [] := by intro e; simp [e] at hj
  rw [fair_eq ps d m h, get_applyIncs _ _ _ hnd (fairIncs_length _ _ _).symm j hj, fairIncs_get]
  have hdm := Nat.div_add_mod d ps.length
  have hc : d / ps.length * ps.length = ps.length * (d / ps.length) := Nat.mul_comm _ _
  have : d - d / ps.length * ps.length = d % ps.length := by omega
  rw [this]; omega

/-- **C14 (Fair respects the priority order).** Between two listed priorities the one listed
    earlier (the higher one) never receives less, and never more than one unit more. -/
theorem c14_fair_mono (ps : List Nat) (d : Nat) (m : Dist) (hnd : ps.Nodup)
    (i j : Nat) (hij : i < j) (hj : j < ps.length) :
    (fair ps d m).get (ps[j]) - m.get (ps[j]) ≤ (fair ps d m).get (ps[i]) - m.get (ps[i]) ∧
    (fair ps d m).get (ps[i]) - m.get (ps[i]) ≤ (fair ps d m).get (ps[j]) - m.get (ps[j]) + 1 := by
  rw [c14_fair_shape ps d m hnd j hj, c14_fair_shape ps d m hnd i (by omega)]
  constructor <;> (split <;> split <;> omega)

/-- the increments of `Rate` after the leftover has been added to the first entry -/
def rateFinalIncs (part : Nat → Nat) (ps : List Nat) (d : Nat) : List Nat :=
  match rateIncs part ps d with
  | (l, none) => l
  | (i :: l, some r) => (i + r) :: l
  | ([], some _) => []

theorem rateFinalIncs_length (part : Nat → Nat) (ps : List Nat) (d : Nat) :
    (rateFinalIncs part ps d).length = ps.length := by
  have hl := rateIncs_length part ps d
  unfold rateFinalIncs
  split
  · rename_i l heq; rw [heq] at hl; exact hl
  · rename_i i l r heq; rw [heq] at hl; simpa using hl
  · rename_i r heq; rw [heq] at hl; simpa using hl

/-- entry by entry, `Rate` adds `rateFinalIncs` -/
theorem rate_get (part : Nat → Nat) (ps : List Nat) (d : Nat) (m : Dist) (k : Nat) :
    (rateWith part ps d m).get k = (applyIncs ps (rateFinalIncs part ps d) m).get k := by
  cases ps with
  | nil => rfl
  | cons p0 ps' =>
    obtain ⟨hg, ho⟩ := rateLoop_get part (p0 :: ps') d m k
    have hl := rateIncs_length part (p0 :: ps') d
    simp only [rateWith, rateFinalIncs]
    cases hro : (rateLoop part (p0 :: ps') d m).2 with
    | none =>
      have hmk : rateLoop part (p0 :: ps') d m = ((rateLoop part (p0 :: ps') d m).1, none) :=
        Prod.ext rfl hro
      rw [hmk]
      have hi : rateIncs part (p0 :: ps') d = ((rateIncs part (p0 :: ps') d).1, none) :=
        Prod.ext rfl (by rw [← ho, hro])
      rw [hi]; simpa using hg
    | some r =>
      have hmk : rateLoop part (p0 :: ps') d m = ((rateLoop part (p0 :: ps') d m).1, some r) :=
        Prod.ext rfl hro
      rw [hmk]
      simp only
      cases hil : (rateIncs part (p0 :: ps') d).1 with
      | nil => rw [hil] at hl; simp at hl
      | cons i l =>
        have hi : rateIncs part (p0 :: ps') d = (i :: l, some r) :=
          Prod.ext hil (by rw [← ho, hro])
        rw [hi]
        simp only [applyIncs]
        rw [hil] at hg
        simp only [applyIncs] at hg
        rw [Dist.get_add, hg]
        by_cases hk : p0 = k
        · subst hk
          by_cases hin : p0 ∈ ps'
          · -- duplicate priority: still the same value, by commuting additions through `get`
            have key : ∀ (qs is : List Nat) (a b : Dist), (∀ x, a.get x = b.get x) →
                ∀ x, (applyIncs qs is a).get x = (applyIncs qs is b).get x := by
              intro qs
              induction qs with
              | nil => intro is a b h x; cases is <;> exact h x
              | cons q qs ih =>
                intro is a b h x
                cases is with
                | nil => exact h x
                | cons i' is' =>
                  simp only [applyIncs]
                  exact ih _ _ _ (fun y => by simp [Dist.get_add, h y]) x
            have shift : ∀ (qs is : List Nat) (a : Dist) (x v : Nat),
                (applyIncs qs is (a.add x v)).get x = (applyIncs qs is a).get x + v := by
              intro qs
              induction qs with
              | nil => intro is a x v; cases is <;> simp [applyIncs]
              | cons q qs ih =>
                intro is a x v
                cases is with
                | nil => simp [applyIncs]
                | cons i' is' =>
                  simp only [applyIncs]
                  have := key qs is' ((a.add x v).add q i') ((a.add q i').add x v)
                    (fun y => by simp [Dist.get_add]; omega) x
                  rw [this, ih]
            simp only [if_true]
            have e1 := shift ps' l (m.add p0 i) p0 r
            have e2 : ∀ y, ((m.add p0 i).add p0 r).get y = (m.add p0 (i + r)).get y := by
              intro y; simp [Dist.get_add]; split <;> omega
            rw [← key ps' l _ _ e2 p0, e1]
          · simp only [if_true]
            rw [get_applyIncs_notin _ _ _ _ hin, get_applyIncs_notin _ _ _ _ hin]
            simp; omega
        · simp only [hk, if_false, Nat.add_zero]
          have key : ∀ (qs is : List Nat) (a b : Dist), (∀ x, x ≠ p0 → a.get x = b.get x) →
              ∀ x, x ≠ p0 → (applyIncs qs is a).get x = (applyIncs qs is b).get x := by
            intro qs
            induction qs with
            | nil => intro is a b h x hx; cases is <;> exact h x hx
            | cons q qs ih =>
              intro is a b h x hx
              cases is with
              | nil => exact h x hx
              | cons i' is' =>
                simp only [applyIncs]
                exact ih _ _ _ (fun y hy => by simp [Dist.get_add, h y hy]) x hx
          exact key ps' l _ _ (fun y hy => by
            have : ¬ p0 = y := fun e => hy e.symm
            simp [Dist.get_add, this]) k (fun e => hk e.symm)

/-- **C14 (Rate conserves the dividend)** — for any rounding function. -/
theorem c14_rate_total (part : Nat → Nat) (ps : List Nat) (d : Nat) (m : Dist) (h : ps ≠ []) :
    (rateWith part ps d m).total = m.total + d := by
  cases ps with
  | nil => exact absurd rfl h
  | cons p0 ps' =>
    have ht := rateLoop_total part (p0 :: ps') d m
    simp only [rateWith]
    cases hro : (rateLoop part (p0 :: ps') d m).2 with
    | none =>
      have hmk : rateLoop part (p0 :: ps') d m = ((rateLoop part (p0 :: ps') d m).1, none) :=
        Prod.ext rfl hro
      rw [hmk]; rw [hro] at ht; simpa using ht
    | some r =>
      have hmk : rateLoop part (p0 :: ps') d m = ((rateLoop part (p0 :: ps') d m).1, some r) :=
        Prod.ext rfl hro
      rw [hmk]; rw [hro] at ht; simp only [Dist.total_add]; simpa using ht

/-- **C14 (Rate changes nothing else).** -/
theorem c14_rate_frame (part : Nat → Nat) (ps : List Nat) (d : Nat) (m : Dist) (k : Nat)
    (hk : k ∉ ps) : (rateWith part ps d m).get k = m.get k := by
  rw [rate_get]; exact get_applyIncs_notin _ _ _ _ hk

/-- entry of the j-th listed priority after `Rate` -/
theorem c14_rate_incs (part : Nat → Nat) (ps : List Nat) (d : Nat) (m : Dist) (hnd : ps.Nodup)
    (j : Nat) (hj : j < ps.length) :
    (rateWith part ps d m).get (ps[j]) =
      m.get (ps[j]) + (rateFinalIncs part ps d)[j]'(by rw [rateFinalIncs_length]; exact hj) := by
  rw [rate_get, get_applyIncs _ _ _ hnd (rateFinalIncs_length part ps d).symm j hj]

theorem rateIncs_le (part : Nat → Nat) (ps : List Nat) (rem bound : Nat)
    (hb : ∀ p ∈ ps, part p ≤ bound) : ∀ x ∈ (rateIncs part ps rem).1, x ≤ bound := by
  induction ps generalizing rem with
  | nil => intro x hx; simp [rateIncs] at hx
  | cons p ps ih =>
    intro x hx
    simp only [rateIncs] at hx
    split at hx
    · rename_i hlt
      have hp := hb p (by simp)
      simp only [List.mem_cons, List.mem_map] at hx
      rcases hx with rfl | ⟨_, _, rfl⟩ <;> omega
    · simp only [List.mem_cons] at hx
      rcases hx with rfl | hx
      · exact hb p (by simp)
      · exact ih _ (fun q hq => hb q (List.mem_cons_of_mem _ hq)) x hx

theorem rateIncs_pairwise (part : Nat → Nat) (ps : List Nat) (rem : Nat)
    (hanti : ps.Pairwise (fun a b => part b ≤ part a)) :
    (rateIncs part ps rem).1.Pairwise (fun a b => b ≤ a) := by
  induction ps generalizing rem with
  | nil => simp [rateIncs]
  | cons p ps ih =>
    have ha := List.pairwise_cons.1 hanti
    simp only [rateIncs]
    split
    · refine List.pairwise_cons.2 ⟨?_, ?_⟩
      · intro x hx; simp only [List.mem_map] at hx; obtain ⟨_, _, rfl⟩ := hx; omega
      · clear ih ha hanti
        induction ps with
        | nil => simp
        | cons q qs ihq =>
          simp only [List.map_cons]
          refine List.pairwise_cons.2 ⟨?_, ihq⟩
          intro x hx; simp only [List.mem_map] at hx; obtain ⟨_, _, rfl⟩ := hx; omega
    · refine List.pairwise_cons.2 ⟨?_, ih _ ha.2⟩
      exact rateIncs_le part ps _ (part p) ha.1

/-- **C14 (Rate respects the priority order).** If the rounded parts do not increase along
    the list, the increments do not increase along the list. -/
theorem c14_rate_mono (part : Nat → Nat) (ps : List Nat) (d : Nat)
    (hanti : ps.Pairwise (fun a b => part b ≤ part a)) :
    (rateFinalIncs part ps d).Pairwise (fun a b => b ≤ a) := by
  have hp := rateIncs_pairwise part ps d hanti
  unfold rateFinalIncs
  split
  · rename_i l heq; rw [heq] at hp; exact hp
  · rename_i i l r heq; rw [heq] at hp
    have h := List.pairwise_cons.1 hp
    exact List.pairwise_cons.2 ⟨fun x hx => by have := h.1 x hx; omega, h.2⟩
  · simp

/-- **C14 (v1 = v2).** On a non-empty list the v1 dividers return exactly the v2 result
    (v1 additionally creates the map when given nil). -/
theorem c14_v1_eq_v2 (ps : List Nat) (d : Nat) (m : Dist) (h : ps ≠ []) :
    fairV1 ps d (some m) = fairV2 ps d (some m) ∧ rateV1 ps d (some m) = rateV2 ps d (some m) ∧
    fairV1 ps d none = some (fair ps d []) ∧ rateV1 ps d none = some (rate ps d []) := by
  simp [fairV1, fairV2, rateV1, rateV2, h]

/-! Non-vacuity: the documented examples. -/
example : fair [3, 2, 1] 6 [] = [(3, 2), (2, 2), (1, 2)] := by decide
example : fair [70, 20, 10] 100 [] = [(70, 34), (20, 33), (10, 33)] := by decide
example : rateFinalIncs (fun p => p) [3, 2, 1] 6 = [3, 2, 1] := by decide
example : rateFinalIncs (fun p => 2 * p) [3, 2, 1] 7 = [6, 1, 0] := by decide   -- truncation
example : [3, 2, 1].Pairwise (fun a b => (fun p => 2 * p) b ≤ (fun p => 2 * p) a) := by decide


/-! ### Rate: every increment is within n/2 of the exact proportional share

Scaled by `2·S` (`S` = sum of the priorities) to stay in the integers: `sc S x = 2·S·x` is an
amount of handlers, `ex d p = 2·d·p` is the exact share `d·p/S` of priority `p`; "`x` is within
`k/2` of the exact share of `p`" is `|sc S x − ex d p| ≤ k·S`.  The only fact used about the
rounding function is `Near`: each rounded part is within 1/2 of the exact share — for the
IEEE computation this is evaluated by the driver on every call it executes (`nearHalf`). -/

def sc (S x : Nat) : Int := ((2 * S * x : Nat) : Int)
def ex (d p : Nat) : Int := ((2 * d * p : Nat) : Int)
def bd (S n : Nat) : Int := ((n * S : Nat) : Int)

def exSum (d : Nat) : List Nat → Int
  | [] => 0
  | q :: qs => ex d q + exSum d qs

def scSum (S : Nat) (part : Nat → Nat) : List Nat → Int
  | [] => 0
  | q :: qs => sc S (part q) + scSum S part qs

def Near (S d : Nat) (part : Nat → Nat) (p : Nat) : Prop :=
  sc S (part p) ≤ ex d p + S ∧ ex d p ≤ sc S (part p) + S

theorem near_of_nearHalf (S d : Nat) (part : Nat → Nat) (p : Nat) (h : nearHalf d S part p = true) :
    Near S d part p := by
  simp only [nearHalf, Bool.and_eq_true, decide_eq_true_eq] at h
  unfold Near sc ex
  constructor <;> omega

theorem sc_nonneg (S x : Nat) : 0 ≤ sc S x := by unfold sc; omega
theorem ex_nonneg (d p : Nat) : 0 ≤ ex d p := by unfold ex; omega
theorem bd_nonneg (S n : Nat) : 0 ≤ bd S n := by unfold bd; omega
theorem bd_zero (S : Nat) : bd S 0 = 0 := by simp [bd]
theorem bd_succ (S n : Nat) : bd S (n + 1) = bd S n + S := by
  unfold bd; rw [Nat.succ_mul]; omega

theorem sc_add (S x y : Nat) : sc S (x + y) = sc S x + sc S y := by
  unfold sc; rw [Nat.mul_add]; omega

theorem sc_sub (S x y : Nat) (h : y ≤ x) : sc S (x - y) = sc S x - sc S y := by
  have := sc_add S (x - y) y
  rw [Nat.sub_add_cancel h] at this; omega

theorem sc_lt (S x y : Nat) (hS : 0 < S) (h : x < y) : sc S x < sc S y := by
  unfold sc
  have : 2 * S * x < 2 * S * y := Nat.mul_lt_mul_of_pos_left h (by omega)
  omega

theorem sc_zero (S : Nat) : sc S 0 = 0 := by simp [sc]

theorem exSum_nonneg (d : Nat) (qs : List Nat) : 0 ≤ exSum d qs := by
  induction qs with
  | nil => simp [exSum]
  | cons q qs ih => simp only [exSum]; have := ex_nonneg d q; omega

theorem ex_le_exSum (d : Nat) (qs : List Nat) (q : Nat) (h : q ∈ qs) : ex d q ≤ exSum d qs := by
  induction qs with
  | nil => cases h
  | cons x xs ih =>
    simp only [exSum]
    rcases List.mem_cons.1 h with rfl | h'
    · have := exSum_nonneg d xs; omega
    · have := ih h'; have := ex_nonneg d x; omega

theorem exSum_eq (d : Nat) (ps : List Nat) : exSum d ps = sc (sumPriorities ps) d := by
  induction ps with
  | nil => simp [exSum, sumPriorities, sc]
  | cons p ps ih =>
    simp only [exSum, sumPriorities, ih]
    unfold ex sc
    have h1 : 2 * (p + sumPriorities ps) * d = 2 * d * p + 2 * sumPriorities ps * d := by
      rw [Nat.mul_add, Nat.add_mul, Nat.mul_assoc 2 p d, Nat.mul_comm p d, ← Nat.mul_assoc]
    rw [h1]; omega

/-- the rounded parts of a list are, in total, within `len/2` of the exact shares -/
theorem scSum_near (S d : Nat) (part : Nat → Nat) (qs : List Nat) (h : ∀ q ∈ qs, Near S d part q) :
    scSum S part qs ≤ exSum d qs + bd S qs.length ∧ exSum d qs ≤ scSum S part qs + bd S qs.length := by
  induction qs with
  | nil => simp [scSum, exSum, bd]
  | cons q qs ih =>
    have hq := h q (by simp)
    have := ih (fun x hx => h x (List.mem_cons_of_mem _ hx))
    simp only [scSum, exSum, List.length_cons, bd_succ]
    unfold Near at hq
    omega

/-- no truncation: every increment is the rounded part and the leftover is what remains -/
theorem rateIncs_some (S : Nat) (part : Nat → Nat) (qs : List Nat) (rem r : Nat)
    (h : (rateIncs part qs rem).2 = some r) :
    (rateIncs part qs rem).1 = qs.map part ∧ sc S rem = scSum S part qs + sc S r := by
  induction qs generalizing rem with
  | nil => simp only [rateIncs] at h; cases h; simp [rateIncs, scSum]
  | cons q qs ih =>
    simp only [rateIncs] at h ⊢
    split at h
    · cases h
    · rename_i hge
      rw [if_neg hge]
      obtain ⟨h1, h2⟩ := ih _ h
      refine ⟨by simp [h1], ?_⟩
      simp only [scSum]
      rw [sc_sub S rem (part q) (by omega)] at h2
      omega

/-- truncation: the loop left through its `return` -/
theorem rateIncs_none_near (S d : Nat) (part : Nat → Nat) (hS : 0 < S) (qs : List Nat) (rem : Nat) (B : Int)
    (hB : 0 ≤ B) (hn : ∀ q ∈ qs, Near S d part q)
    (h1 : sc S rem ≤ exSum d qs + B) (h2 : exSum d qs ≤ sc S rem + B)
    (htr : (rateIncs part qs rem).2 = none) (j : Nat) (hj : j < qs.length) :
    sc S ((rateIncs part qs rem).1[j]'(by rw [rateIncs_length]; exact hj)) ≤ ex d qs[j] + (B + bd S qs.length) ∧
    ex d qs[j] ≤ sc S ((rateIncs part qs rem).1[j]'(by rw [rateIncs_length]; exact hj)) + (B + bd S qs.length) := by
  induction qs generalizing rem B j with
  | nil => simp at hj
  | cons q qs ih =>
    have hq := hn q (by simp)
    unfold Near at hq
    have hbn := bd_nonneg S qs.length
    have hen := exSum_nonneg d qs
    simp only [List.length_cons, bd_succ]
    simp only [exSum] at h1 h2
    by_cases hlt : rem < part q
    · have hsl := sc_lt S _ _ hS hlt
      have heq : (rateIncs part (q :: qs) rem).1 = rem :: qs.map (fun _ => 0) := by
        simp [rateIncs, hlt]
      cases j with
      | zero =>
        simp only [heq, List.getElem_cons_zero]
        constructor <;> omega
      | succ j =>
        have hj' : j < qs.length := by simpa using hj
        have hmem : qs[j] ∈ qs := List.getElem_mem hj'
        have hle := ex_le_exSum d qs _ hmem
        simp only [heq, List.getElem_cons_succ, List.getElem_map, sc_zero]
        have := ex_nonneg d qs[j]
        constructor <;> omega
    · have hge : part q ≤ rem := by omega
      have heq : (rateIncs part (q :: qs) rem).1 = part q :: (rateIncs part qs (rem - part q)).1 := by
        simp [rateIncs, hlt]
      have htr' : (rateIncs part qs (rem - part q)).2 = none := by
        simpa [rateIncs, hlt] using htr
      cases j with
      | zero =>
        simp only [heq, List.getElem_cons_zero]
        constructor <;> omega
      | succ j =>
        have hj' : j < qs.length := by simpa using hj
        have hsub := sc_sub S rem (part q) hge
        have := ih (rem - part q) (B + S) (by omega) (fun x hx => hn x (List.mem_cons_of_mem _ hx))
          (by omega) (by omega) htr' j hj'
        simp only [heq, List.getElem_cons_succ]
        constructor <;> omega

/-- **C14 (Rate is within n/2 of the exact proportional share).** For a non-empty list whose
    priorities sum to `S > 0` and a rounding function that is within 1/2 of the exact share on
    every listed priority, every increment `x_j` of `Rate` satisfies
    `|2·S·x_j − 2·d·p_j| ≤ n·S`, i.e. `|x_j − d·p_j/S| ≤ n/2` (n = number of priorities). -/
theorem c14_rate_near (part : Nat → Nat) (ps : List Nat) (d : Nat)
    (hS : 0 < sumPriorities ps) (hn : ∀ p ∈ ps, Near (sumPriorities ps) d part p)
    (j : Nat) (hj : j < ps.length) :
    sc (sumPriorities ps) ((rateFinalIncs part ps d)[j]'(by rw [rateFinalIncs_length]; exact hj))
        ≤ ex d ps[j] + bd (sumPriorities ps) ps.length ∧
    ex d ps[j] ≤ sc (sumPriorities ps) ((rateFinalIncs part ps d)[j]'(by rw [rateFinalIncs_length]; exact hj))
        + bd (sumPriorities ps) ps.length := by
  have hlen := rateIncs_length part ps d
  have hex := exSum_eq d ps
  cases hro : (rateIncs part ps d).2 with
  | none =>
    have hfin : rateFinalIncs part ps d = (rateIncs part ps d).1 := by
      unfold rateFinalIncs
      split
      · rename_i l heq; rw [heq]
      · rename_i i l r heq; rw [heq] at hro; cases hro
      · rename_i r heq; rw [heq] at hro; cases hro
    have := rateIncs_none_near (sumPriorities ps) d part hS ps d 0 (by omega) hn (by omega) (by omega) hro j hj
    simp only [hfin]
    omega
  | some r =>
    obtain ⟨hl, hsum⟩ := rateIncs_some (sumPriorities ps) part ps d r hro
    cases ps with
    | nil => simp at hj
    | cons p0 ps' =>
      have hfin : rateFinalIncs part (p0 :: ps') d = (part p0 + r) :: ps'.map part := by
        unfold rateFinalIncs
        split
        · rename_i l heq; rw [heq] at hro; cases hro
        · rename_i i l r' heq
          rw [heq] at hro hl
          simp only [Option.some.injEq] at hro
          simp only [List.map_cons, List.cons.injEq] at hl
          rw [hro, hl.1, hl.2]
        · rename_i r' heq; rw [heq] at hl; simp at hl
      have hrest := scSum_near (sumPriorities (p0 :: ps')) d part ps' (fun x hx => hn x (List.mem_cons_of_mem _ hx))
      have hp0 := hn p0 (by simp)
      unfold Near at hp0
      simp only [scSum, exSum] at hsum hex
      simp only [List.length_cons, bd_succ]
      have hbn := bd_nonneg (sumPriorities (p0 :: ps')) ps'.length
      cases j with
      | zero =>
        simp only [hfin, List.getElem_cons_zero, sc_add]
        constructor <;> omega
      | succ j =>
        have hj' : j < ps'.length := by simpa using hj
        have hq := hn ps'[j] (List.mem_cons_of_mem _ (List.getElem_mem hj'))
        unfold Near at hq
        simp only [hfin, List.getElem_cons_succ, List.getElem_map]
        have hSn : 0 ≤ (sumPriorities (p0 :: ps') : Int) := by omega
        constructor <;> omega

/-- non-vacuity of `c14_rate_near`: priorities 3,2,1, dividend 7, exact half-away rounding -/
example : (∀ p ∈ [3, 2, 1], Near (sumPriorities [3, 2, 1]) 7 (exactPart 7 6) p) ∧
    rateFinalIncs (exactPart 7 6) [3, 2, 1] 7 = [4, 2, 1] := by
  refine ⟨?_, by decide⟩
  intro p hp
  apply near_of_nearHalf
  simp only [List.mem_cons, List.mem_nil_iff, or_false] at hp
  rcases hp with rfl | rfl | rfl <;> decide

end Cqos.C14
