import Cqos.Lemmas.Incs
/-
  Property C14 — dividers conserve the dividend and respect priority order.

  `fair`, `rateWith part` are the models of `divider.Fair` / `divider.Rate` (v1:
  `FairDivider` / `RateDivider`); `rate = rateWith floatPart`.  Everything about Rate is
  proved for an ARBITRARY rounding function `part`, so conservation and the frame
  property do not depend on floating point at all; monotonicity needs `part` to be
  antitone along the list, which for the IEEE computation is a fact about doubles that
  the kernel cannot evaluate (`Float` is opaque) — it is evaluated by the driver on
  every call it executes (`float-not-antitone` would show up as a disagreement).
-/
namespace Cqos.C14

theorem fair_eq (ps : List Nat) (d : Nat) (m : Dist) (h : ps ≠ []) :
    fair ps d m = applyIncs ps (fairIncs ps.length (d / ps.length) (d - d / ps.length * ps.length)) m := by
  simp [fair, h, fairLoop_eq]

/-- **C14 (Fair conserves the dividend).** -/
theorem c14_fair_total (ps : List Nat) (d : Nat) (m : Dist) (h : ps ≠ []) :
    (fair ps d m).total = m.total + d := by
  have hn : 0 < ps.length := List.length_pos_iff.mpr h
  rw [fair_eq ps d m h, total_applyIncs _ _ _ (fairIncs_length _ _ _).symm]
  have hdm := Nat.div_add_mod d ps.length
  have hml := Nat.mod_lt d hn
  have hc : d / ps.length * ps.length = ps.length * (d / ps.length) := Nat.mul_comm _ _
  rw [fairIncs_sum _ _ _ (by omega)]
  omega

/-- **C14 (Fair changes nothing else).** -/
theorem c14_fair_frame (ps : List Nat) (d : Nat) (m : Dist) (k : Nat) (hk : k ∉ ps) :
    (fair ps d m).get k = m.get k := by
  by_cases h : ps = []
  · simp [fair, h]
  · rw [fair_eq ps d m h]; exact get_applyIncs_notin _ _ _ _ hk

/-- **C14 (Fair's shape).** The j-th listed priority receives `⌊d/n⌋`, plus one for the
    first `d mod n` of them — increments differ by at most one, extras go to the highest. -/
theorem c14_fair_shape (ps : List Nat) (d : Nat) (m : Dist) (hnd : ps.Nodup)
    (j : Nat) (hj : j < ps.length) :
    (fair ps d m).get (ps[j]) = m.get (ps[j]) + d / ps.length + (if j < d % ps.length then 1 else 0) := by
  have h : ps ≠ [] := by intro e; simp [e] at hj
  rw [fair_eq ps d m h, get_applyIncs _ _ _ hnd (fairIncs_length _ _ _).symm j hj, fairIncs_get]
  have hdm := Nat.div_add_mod d ps.length
  have hc : d / ps.length * ps.length = ps.length * (d / ps.length) := Nat.mul_comm _ _
  have : d - d / ps.length * ps.length = d % ps.length := by omega
  rw [this]; omega

/-- the increments of `Rate` after the leftover has been added to the first entry -/
def rateFinalIncs (part : Nat → Nat) (ps : List Nat) (d : Nat) : List Nat :=
  match rateIncs part ps d with
  | (l, none) => l
  | (i :: l, some r) => (i + r) :: l
  | ([], some _) => []

theorem rateFinalIncs_length (part : Nat → Nat) (ps : List Nat) (d : Nat) :
    (rateFinalIncs part ps d).length = ps.length := by
  have hl := rateIncs_length part ps d
  unfold rateFinalIncs
  split
  · rename_i l heq; rw [heq] at hl; exact hl
  · rename_i i l r heq; rw [heq] at hl; simpa using hl
  · rename_i r heq; rw [heq] at hl; simpa using hl

/-- entry by entry, `Rate` adds `rateFinalIncs` -/
theorem rate_get (part : Nat → Nat) (ps : List Nat) (d : Nat) (m : Dist) (k : Nat) :
    (rateWith part ps d m).get k = (applyIncs ps (rateFinalIncs part ps d) m).get k := by
  cases ps with
  | nil => rfl
  | cons p0 ps' =>
    obtain ⟨hg, ho⟩ := rateLoop_get part (p0 :: ps') d m k
    have hl := rateIncs_length part (p0 :: ps') d
    simp only [rateWith, rateFinalIncs]
    cases hro : (rateLoop part (p0 :: ps') d m).2 with
    | none =>
      have hmk : rateLoop part (p0 :: ps') d m = ((rateLoop part (p0 :: ps') d m).1, none) :=
        Prod.ext rfl hro
      rw [hmk]
      have hi : rateIncs part (p0 :: ps') d = ((rateIncs part (p0 :: ps') d).1, none) :=
        Prod.ext rfl (by rw [← ho, hro])
      rw [hi]; simpa using hg
    | some r =>
      have hmk : rateLoop part (p0 :: ps') d m = ((rateLoop part (p0 :: ps') d m).1, some r) :=
        Prod.ext rfl hro
      rw [hmk]
      simp only
      cases hil : (rateIncs part (p0 :: ps') d).1 with
      | nil => rw [hil] at hl; simp at hl
      | cons i l =>
        have hi : rateIncs part (p0 :: ps') d = (i :: l, some r) :=
          Prod.ext hil (by rw [← ho, hro])
        rw [hi]
        simp only [applyIncs]
        rw [hil] at hg
        simp only [applyIncs] at hg
        rw [Dist.get_add, hg]
        by_cases hk : p0 = k
        · subst hk
          by_cases hin : p0 ∈ ps'
          · -- duplicate priority: still the same value, by commuting additions through `get`
            have key : ∀ (qs is : List Nat) (a b : Dist), (∀ x, a.get x = b.get x) →
                ∀ x, (applyIncs qs is a).get x = (applyIncs qs is b).get x := by
              intro qs
              induction qs with
              | nil => intro is a b h x; cases is <;> exact h x
              | cons q qs ih =>
                intro is a b h x
                cases is with
                | nil => exact h x
                | cons i' is' =>
                  simp only [applyIncs]
                  exact ih _ _ _ (fun y => by simp [Dist.get_add, h y]) x
            have shift : ∀ (qs is : List Nat) (a : Dist) (x v : Nat),
                (applyIncs qs is (a.add x v)).get x = (applyIncs qs is a).get x + v := by
              intro qs
              induction qs with
              | nil => intro is a x v; cases is <;> simp [applyIncs]
              | cons q qs ih =>
                intro is a x v
                cases is with
                | nil => simp [applyIncs]
                | cons i' is' =>
                  simp only [applyIncs]
                  have := key qs is' ((a.add x v).add q i') ((a.add q i').add x v)
                    (fun y => by simp [Dist.get_add]; omega) x
                  rw [this, ih]
            simp only [if_true]
            have e1 := shift ps' l (m.add p0 i) p0 r
            have e2 : ∀ y, ((m.add p0 i).add p0 r).get y = (m.add p0 (i + r)).get y := by
              intro y; simp [Dist.get_add]; split <;> omega
            rw [← key ps' l _ _ e2 p0, e1]
          · simp only [if_true]
            rw [get_applyIncs_notin _ _ _ _ hin, get_applyIncs_notin _ _ _ _ hin]
            simp; omega
        · simp only [hk, if_false, Nat.add_zero]
          have key : ∀ (qs is : List Nat) (a b : Dist), (∀ x, x ≠ p0 → a.get x = b.get x) →
              ∀ x, x ≠ p0 → (applyIncs qs is a).get x = (applyIncs qs is b).get x := by
            intro qs
            induction qs with
            | nil => intro is a b h x hx; cases is <;> exact h x hx
            | cons q qs ih =>
              intro is a b h x hx
              cases is with
              | nil => exact h x hx
              | cons i' is' =>
                simp only [applyIncs]
                exact ih _ _ _ (fun y hy => by simp [Dist.get_add, h y hy]) x hx
          exact key ps' l _ _ (fun y hy => by
            have : ¬ p0 = y := fun e => hy e.symm
            simp [Dist.get_add, this]) k (fun e => hk e.symm)

/-- **C14 (Rate conserves the dividend)** — for any rounding function. -/
theorem c14_rate_total (part : Nat → Nat) (ps : List Nat) (d : Nat) (m : Dist) (h : ps ≠ []) :
    (rateWith part ps d m).total = m.total + d := by
  cases ps with
  | nil => exact absurd rfl h
  | cons p0 ps' =>
    have ht := rateLoop_total part (p0 :: ps') d m
    simp only [rateWith]
    cases hro : (rateLoop part (p0 :: ps') d m).2 with
    | none =>
      have hmk : rateLoop part (p0 :: ps') d m = ((rateLoop part (p0 :: ps') d m).1, none) :=
        Prod.ext rfl hro
      rw [hmk]; rw [hro] at ht; simpa using ht
    | some r =>
      have hmk : rateLoop part (p0 :: ps') d m = ((rateLoop part (p0 :: ps') d m).1, some r) :=
        Prod.ext rfl hro
      rw [hmk]; rw [hro] at ht; simp only [Dist.total_add]; simpa using ht

/-- **C14 (Rate changes nothing else).** -/
theorem c14_rate_frame (part : Nat → Nat) (ps : List Nat) (d : Nat) (m : Dist) (k : Nat)
    (hk : k ∉ ps) : (rateWith part ps d m).get k = m.get k := by
  rw [rate_get]; exact get_applyIncs_notin _ _ _ _ hk

/-- entry of the j-th listed priority after `Rate` -/
theorem c14_rate_incs (part : Nat → Nat) (ps : List Nat) (d : Nat) (m : Dist) (hnd : ps.Nodup)
    (j : Nat) (hj : j < ps.length) :
    (rateWith part ps d m).get (ps[j]) =
      m.get (ps[j]) + (rateFinalIncs part ps d)[j]'(by rw [rateFinalIncs_length]; exact hj) := by
  rw [rate_get, get_applyIncs _ _ _ hnd (rateFinalIncs_length part ps d).symm j hj]

theorem rateIncs_le (part : Nat → Nat) (ps : List Nat) (rem bound : Nat)
    (hb : ∀ p ∈ ps, part p ≤ bound) : ∀ x ∈ (rateIncs part ps rem).1, x ≤ bound := by
  induction ps generalizing rem with
  | nil => intro x hx; simp [rateIncs] at hx
  | cons p ps ih =>
    intro x hx
    simp only [rateIncs] at hx
    split at hx
    · rename_i hlt
      have hp := hb p (by simp)
      simp only [List.mem_cons, List.mem_map] at hx
      rcases hx with rfl | ⟨_, _, rfl⟩ <;> omega
    · simp only [List.mem_cons] at hx
      rcases hx with rfl | hx
      · exact hb p (by simp)
      · exact ih _ (fun q hq => hb q (List.mem_cons_of_mem _ hq)) x hx

theorem rateIncs_pairwise (part : Nat → Nat) (ps : List Nat) (rem : Nat)
    (hanti : ps.Pairwise (fun a b => part b ≤ part a)) :
    (rateIncs part ps rem).1.Pairwise (fun a b => b ≤ a) := by
  induction ps generalizing rem with
  | nil => simp [rateIncs]
  | cons p ps ih =>
    have ha := List.pairwise_cons.1 hanti
    simp only [rateIncs]
    split
    · refine List.pairwise_cons.2 ⟨?_, ?_⟩
      · intro x hx; simp only [List.mem_map] at hx; obtain ⟨_, _, rfl⟩ := hx; omega
      · clear ih ha hanti
        induction ps with
        | nil => simp
        | cons q qs ihq =>
          simp only [List.map_cons]
          refine List.pairwise_cons.2 ⟨?_, ihq⟩
          intro x hx; simp only [List.mem_map] at hx; obtain ⟨_, _, rfl⟩ := hx; omega
    · refine List.pairwise_cons.2 ⟨?_, ih _ ha.2⟩
      exact rateIncs_le part ps _ (part p) ha.1

/-- **C14 (Rate respects the priority order).** If the rounded parts do not increase along
    the list, the increments do not increase along the list. -/
theorem c14_rate_mono (part : Nat → Nat) (ps : List Nat) (d : Nat)
    (hanti : ps.Pairwise (fun a b => part b ≤ part a)) :
    (rateFinalIncs part ps d).Pairwise (fun a b => b ≤ a) := by
  have hp := rateIncs_pairwise part ps d hanti
  unfold rateFinalIncs
  split
  · rename_i l heq; rw [heq] at hp; exact hp
  · rename_i i l r heq; rw [heq] at hp
    have h := List.pairwise_cons.1 hp
    exact List.pairwise_cons.2 ⟨fun x hx => by have := h.1 x hx; omega, h.2⟩
  · simp

/-- **C14 (v1 = v2).** On a non-empty list the v1 dividers return exactly the v2 result
    (v1 additionally creates the map when given nil). -/
theorem c14_v1_eq_v2 (ps : List Nat) (d : Nat) (m : Dist) (h : ps ≠ []) :
    fairV1 ps d (some m) = fairV2 ps d (some m) ∧ rateV1 ps d (some m) = rateV2 ps d (some m) ∧
    fairV1 ps d none = some (fair ps d []) ∧ rateV1 ps d none = some (rate ps d []) := by
  simp [fairV1, fairV2, rateV1, rateV2, h]

/-! Non-vacuity: the documented examples. -/
example : fair [3, 2, 1] 6 [] = [(3, 2), (2, 2), (1, 2)] := by decide
example : fair [70, 20, 10] 100 [] = [(70, 34), (20, 33), (10, 33)] := by decide
example : rateFinalIncs (fun p => p) [3, 2, 1] 6 = [3, 2, 1] := by decide
example : rateFinalIncs (fun p => 2 * p) [3, 2, 1] 7 = [6, 1, 0] := by decide   -- truncation
example : [3, 2, 1].Pairwise (fun a b => (fun p => 2 * p) b ≤ (fun p => 2 * p) a) := by decide

end Cqos.C14
