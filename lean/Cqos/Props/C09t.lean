import Cqos.Props.C10
import Cqos.Props.C09
/-
  Property C09, timed clause at run level: "with a timeout, a non-maximal slice that is not the
  final one is delivered no earlier than Timeout after the previous slice was delivered (or after
  creation)".  A slice is cut short before the input closes only by a ticker firing; for every
  run with a monotone clock (`monoRun`, C10), a ticker firing that emits at reading `t` satisfies
  `e + Timeout ≤ t` for the reading `e` of EVERY earlier emission and `t0 + Timeout ≤ t` for the
  creation reading — join, unite and v1 join, copy and no-copy mode.
-/
namespace Cqos.C09
open Cqos.C10

/-- emissions lie in the past, and while the discipline is not awaiting a release its timer was
    restarted at or after the latest of them (and at or after creation) -/
structure EInvT (t0 : Nat) (s : JSt) (now : Nat) : Prop where
  past : ∀ e ∈ s.emitAt, e ≤ now
  pnow : s.passAt ≤ now
  timer : s.pc = .run → (∀ e ∈ s.emitAt, e ≤ s.passAt) ∧ t0 ≤ s.passAt

theorem e_jpass {t0 : Nat} {s : JSt} {now t : Nat} (h : EInvT t0 s now) (ht : now ≤ t) (h0 : t0 ≤ now) (tk : Bool)
    (nx : Option (Nat × List Nat)) : EInvT t0 (jpass s t tk nx) t := by
  by_cases hb : s.buf = []
  · rw [jpass_empty_eq s t tk nx hb]
    exact ⟨fun e he => Nat.le_trans (h.past e he) ht, Nat.le_refl _, fun _ => ⟨fun e he => Nat.le_trans (h.past e he) ht, by simp; omega⟩⟩
  · by_cases hc : s.cfg.noCopy = true
    · rw [jpass_nocopy_eq s t tk nx hb hc]
      refine ⟨?_, Nat.le_trans h.pnow ht, fun hr => by simp at hr⟩
      intro e he
      simp only [List.mem_append, List.mem_singleton] at he
      rcases he with he | he
      · exact Nat.le_trans (h.past e he) ht
      · omega
    · rw [jpass_copy_eq s t tk nx hb (by simpa using hc)]
      have hall : ∀ e ∈ s.emitAt ++ [t], e ≤ t := by
        intro e he
        simp only [List.mem_append, List.mem_singleton] at he
        rcases he with he | he
        · exact Nat.le_trans (h.past e he) ht
        · omega
      exact ⟨hall, Nat.le_refl _, fun _ => ⟨hall, by simp; omega⟩⟩

theorem e_jappend {t0 : Nat} {s : JSt} {now t : Nat} (h : EInvT t0 s now) (ht : now ≤ t) (xs : List Nat) :
    EInvT t0 (jappend s xs t) t :=
  ⟨fun e he => Nat.le_trans (h.past e he) ht, Nat.le_trans h.pnow ht, fun hr => h.timer hr⟩

theorem e_jappendPath {t0 : Nat} {s : JSt} {now t : Nat} (h : EInvT t0 s now) (ht : now ≤ t) (h0 : t0 ≤ now) (xs : List Nat) :
    EInvT t0 (jappendPath s xs t) t := by
  unfold jappendPath
  simp only
  split
  · exact e_jappend h ht xs
  · exact e_jpass (e_jappend h ht xs) (Nat.le_refl _) (Nat.le_trans h0 ht) false none

theorem e_jforward {t0 : Nat} {s : JSt} {now t : Nat} (h : EInvT t0 s now) (ht : now ≤ t) (h0 : t0 ≤ now) (id : Nat)
    (xs : List Nat) : EInvT t0 (jforward { s with passAt := t } id xs t) t := by
  have hall : ∀ e ∈ s.emitAt ++ [t], e ≤ t := by
    intro e he
    simp only [List.mem_append, List.mem_singleton] at he
    rcases he with he | he
    · exact Nat.le_trans (h.past e he) ht
    · omega
  unfold jforward jsend
  by_cases hc : s.cfg.noCopy = true
  · simp only [hc, if_true]
    exact ⟨hall, Nat.le_refl _, fun hr => by simp at hr⟩
  · have hc' : s.cfg.noCopy = false := by simpa using hc
    simp only [hc', Bool.false_eq_true, if_false]
    exact ⟨hall, Nat.le_refl _, fun _ => ⟨hall, by simp; omega⟩⟩

theorem e_jcont {t0 : Nat} {s : JSt} {now t : Nat} (h : EInvT t0 s now) (ht : now ≤ t) (h0 : t0 ≤ now) (id : Nat)
    (xs : List Nat) : EInvT t0 (jcont s id xs t) t := by
  unfold jcont
  split
  · exact e_jforward h ht h0 id xs
  · exact e_jappendPath h ht h0 xs

theorem e_jlog {t0 : Nat} {s : JSt} {now : Nat} (h : EInvT t0 s now) (xs : List Nat) : EInvT t0 (jlog s xs) now :=
  ⟨h.past, h.pnow, h.timer⟩

theorem e_jprocess {t0 : Nat} {s : JSt} {now t : Nat} (h : EInvT t0 s now) (ht : now ≤ t) (h0 : t0 ≤ now) (id : Nat)
    (xs : List Nat) : EInvT t0 (jprocess s id xs t) t := by
  unfold jprocess
  split
  · exact e_jappendPath (e_jlog h xs) ht h0 xs
  · split
    · split
      · exact e_jpass h ht h0 false _
      · exact e_jcont (e_jpass (e_jlog h xs) ht h0 false none) (Nat.le_refl _) (Nat.le_trans h0 ht) id xs
    · exact e_jcont (e_jlog h xs) ht h0 id xs

/-- **one step keeps the emission/timer invariant** when its clock reading is not in the past -/
theorem e_step (t0 : Nat) (s s' : JSt) (a : JAct) (now : Nat) (h : EInvT t0 s now) (h0 : t0 ≤ now)
    (hclk : ∀ t, clockOf a = some t → now ≤ t) (hs : jstep s a = some s') :
    EInvT t0 s' ((clockOf a).getD now) := by
  unfold jstep at hs
  split at hs
  · rename_i id xs t hpc
    have ht := hclk t rfl
    split at hs
    · cases hs
    · split at hs
      · cases hs
        exact ⟨fun e he => Nat.le_trans (h.past e he) ht, Nat.le_trans h.pnow ht, h.timer⟩
      · cases hs; exact e_jprocess h ht h0 id xs
  · rename_i t hpc
    have ht := hclk t rfl
    split at hs
    · cases hs
    · split at hs
      · cases hs; exact e_jpass h ht h0 true none
      · cases hs
        exact ⟨fun e he => Nat.le_trans (h.past e he) ht, Nat.le_trans h.pnow ht, h.timer⟩
  · rename_i t hpc
    have ht := hclk t rfl
    have hp := e_jpass h ht h0 false none (t0 := t0)
    simp only at hs
    split at hs
    · cases hs
      exact ⟨hp.past, hp.pnow, fun hr => by simp_all⟩
    · cases hs
      exact ⟨hp.past, hp.pnow, fun hr => by simp at hr⟩
  · rename_i next t hpc
    have ht := hclk t rfl
    simp only at hs
    -- after the release the timer is restarted at `t`
    have hall : ∀ e ∈ s.emitAt, e ≤ t := fun e he => Nat.le_trans (h.past e he) ht
    have base : ∀ pc', EInvT t0 (if s.buf = [] then { ({ s with events := s.events ++ [.released], pc := pc' } : JSt) with passAt := t }
        else jafterPass { s with events := s.events ++ [.released], pc := pc' } t) t := by
      intro pc'
      split
      · exact ⟨hall, Nat.le_refl _, fun _ => ⟨hall, by simp; omega⟩⟩
      · exact ⟨hall, Nat.le_refl _, fun _ => ⟨hall, by simp [jafterPass]; omega⟩⟩
    split at hs
    · cases hs; exact base _
    · cases hs
      exact e_jcont (e_jlog (base _) _) (Nat.le_refl _) (Nat.le_trans h0 ht) _ _
  · split at hs
    · cases hs; exact ⟨h.past, h.pnow, h.timer⟩
    · cases hs
  · rename_i t hpc
    have ht := hclk t rfl
    split at hs
    · cases hs
      exact ⟨fun e he => Nat.le_trans (h.past e he) ht, Nat.le_refl _, fun hr => by simp at hr⟩
    · cases hs
  · rename_i t hpc
    have ht := hclk t rfl
    split at hs
    · cases hs
      have hp := e_jpass h ht h0 false none (t0 := t0)
      exact ⟨hp.past, hp.pnow, fun hr => by simp at hr⟩
    · cases hs
  · rename_i n t hpc
    have ht := hclk t rfl
    split at hs
    · cases hs
      exact ⟨fun e he => Nat.le_trans (h.past e he) ht, Nat.le_trans h.pnow ht, fun hr => by simp at hr⟩
    · cases hs
  · cases hs

theorem e_run (t0 : Nat) (acts : List JAct) (s s' : JSt) (now now' : Nat) (h : EInvT t0 s now) (h0 : t0 ≤ now)
    (hr : monoRun s now acts = some (s', now')) : EInvT t0 s' now' ∧ t0 ≤ now' := by
  induction acts generalizing s now with
  | nil => simp [monoRun] at hr; obtain ⟨rfl, rfl⟩ := hr; exact ⟨h, h0⟩
  | cons a as ih =>
    simp only [monoRun] at hr
    split at hr
    · rename_i t hc
      split at hr
      · rename_i hle
        split at hr
        · rename_i s1 hs1
          have := e_step t0 s s1 a now h h0 (fun t' ht' => by rw [hc] at ht'; cases ht'; exact hle) hs1
          rw [hc] at this
          exact ih s1 t this (Nat.le_trans h0 hle) hr
        · cases hr
      · cases hr
    · rename_i hc
      split at hr
      · rename_i s1 hs1
        have := e_step t0 s s1 a now h h0 (fun t' ht' => by rw [hc] at ht'; cases ht') hs1
        rw [hc] at this
        exact ih s1 now this h0 hr
      · cases hr

/-- **C09 (timed, run level).** In every run with a monotone clock: when a ticker firing at
    reading `t` cuts a slice short, `Timeout` has elapsed since every earlier emission and since
    the creation of the discipline. -/
theorem c09_tick_after_timeout (cfg : JCfg) (t0 : Nat) (acts : List JAct) (s s' : JSt) (now t : Nat)
    (hr : monoRun (jinit cfg t0) t0 acts = some (s, now)) (hs : jstep s (.tick t) = some s') (hem : s'.out ≠ s.out) :
    (∀ e ∈ s.emitAt, e + s.cfg.timeout ≤ t) ∧ t0 + s.cfg.timeout ≤ t ∧ s.cfg.timeout ≠ 0 := by
  obtain ⟨hi, _⟩ := e_run t0 acts (jinit cfg t0) s t0 now
    ⟨by simp [jinit], by simp [jinit], fun _ => ⟨by simp [jinit], by simp [jinit]⟩⟩ (Nat.le_refl _) hr
  obtain ⟨hge, hne⟩ := c09_tick_needs_timeout s s' t hs hem
  have hrunpc : s.pc = .run := by
    cases hpc : s.pc with
    | run => rfl
    | await n => simp [jstep, hpc] at hs
    | done => simp [jstep, hpc] at hs
  obtain ⟨htm, ht0⟩ := hi.timer hrunpc
  refine ⟨fun e he => ?_, ?_, hne⟩
  · have := htm e he; omega
  · omega

/-- non-vacuity: JoinSize 3, Timeout 100; the fourth element sits alone; the firing at 50 does
    nothing, the firing at 200 cuts the slice short: 200 ≥ 3 + 100 (previous emission at 3) -/
example :
    (monoRun (jinit ⟨.join, 3, 100, false, false⟩ 0) 0
      [.item 1 [1] 1, .item 2 [2] 2, .item 3 [3] 3, .item 4 [4] 4, .tick 50, .tick 200]).map
      (fun r => (r.1.out, r.1.emitAt, r.1.byTick)) = some ([[1, 2, 3], [4]], [3, 200], [false, true]) := by decide

end Cqos.C09
