import Cqos.Join
/-
  Property C03 — join/unite: the output slices concatenate to exactly the input stream;
  no empty slice; size rules.

  `jstep` (Cqos/Join.lean) is the machine of v2 join, v2 unite and v1 join; the theorems
  quantify over every action list: every input sequence (unite: every sequence of slice
  lengths incl. empty and oversize), every JoinSize ≥ 1, copy and no-copy mode, every
  placement of ticker firings (= every timeout value and timing), every release timing.
-/
namespace Cqos.C03

/-- the part of the buffer that has been accepted but not yet emitted -/
def live (s : JSt) : List Nat :=
  match s.pc with
  | .await _ => []            -- no-copy: the buffer (if any) is the slice just emitted
  | .done => if s.closing ∨ s.unreleased then [] else s.buf
  | .run => s.buf

/-- the invariant, with `pending` = an input slice already logged as consumed but not yet
    buffered or forwarded (empty between `process` calls) -/
structure JInvP (s : JSt) (pending : List Nat) : Prop where
  concat : s.out.flatten ++ live s ++ pending = s.consumed.flatten
  nonempty : ∀ o ∈ s.out, o ≠ []
  small : s.pc = .run → s.buf.length < s.cfg.size
  le : s.buf.length ≤ s.cfg.size
  joinLe : s.cfg.kind = .join → ∀ o ∈ s.out, o.length ≤ s.cfg.size
  uniteBig : s.cfg.kind = .unite → ∀ o ∈ s.out, s.cfg.size < o.length → o ∈ s.consumed
  awaitNC : ∀ n, s.pc = .await n → s.cfg.noCopy = true
  awaitSome : ∀ id xs, s.pc = .await (some (id, xs)) → s.cfg.kind = .unite
  sizePos : 0 < s.cfg.size
  pendIn : pending = [] ∨ pending ∈ s.consumed
  closingPc : s.closing = true → s.pc ≠ .run ∧ ∀ i xs, s.pc ≠ .await (some (i, xs))
  unrel : s.unreleased = true → s.pc = .done

abbrev JInv (s : JSt) : Prop := JInvP s []

theorem jlog_inv {s : JSt} (h : JInv s) (xs : List Nat) : JInvP (jlog s xs) xs := by
  refine ⟨?_, h.nonempty, h.small, h.le, h.joinLe, ?_, h.awaitNC, h.awaitSome, h.sizePos, Or.inr (by simp [jlog]), h.closingPc, h.unrel⟩
  · have := h.concat
    simp only [List.append_nil] at this
    simp only [jlog, List.flatten_append, List.flatten_cons, List.flatten_nil, List.append_nil]
    have hl : live { s with consumed := s.consumed ++ [xs] } = live s := rfl
    rw [hl, this]
  · intro hu o ho hlt
    have := h.uniteBig hu o ho hlt
    simp [jlog, this]

/-- emitting the (non-empty) buffer in copy mode -/
theorem jpass_copy_inv {s : JSt} {p : List Nat} (h : JInvP s p) (hrun : s.pc = .run) (hb : s.buf ≠ [])
    (hc : s.cfg.noCopy = false) (t : Nat) (tk : Bool) (nx : Option (Nat × List Nat)) :
    JInvP (jpass s t tk nx) p ∧ (jpass s t tk nx).buf = [] ∧ (jpass s t tk nx).pc = .run ∧
      (jpass s t tk nx).cfg = s.cfg := by
  have e : jpass s t tk nx = { s with out := s.out ++ [s.buf], events := s.events ++ [JEvent.emit s.nextId s.buf] ++ [JEvent.write], emitAt := s.emitAt ++ [t], byTick := s.byTick ++ [tk], nextId := s.nextId + 1, buf := [], passAt := t } := by
    simp [jpass, hb, hc, jsend, jafterPass]
  rw [e]
  have hcat := h.concat
  simp only [live, hrun] at hcat
  refine ⟨⟨?_, ?_, fun _ => by simpa using h.sizePos, by simp, ?_, ?_, ?_, ?_, h.sizePos, h.pendIn, h.closingPc, h.unrel⟩, rfl, hrun, rfl⟩
  · simp [live, hrun, ← hcat]
  · intro o ho; simp at ho; rcases ho with ho | rfl
    · exact h.nonempty o ho
    · exact hb
  · intro hk o ho; simp at ho; rcases ho with ho | rfl
    · exact h.joinLe hk o ho
    · exact h.le
  · intro hk o ho hlt; simp at ho; rcases ho with ho | rfl
    · exact h.uniteBig hk o ho hlt
    · have := h.le; simp at hlt; omega
  · intro n hn; simp [hrun] at hn
  · intro i xs hn; simp [hrun] at hn

/-- emitting the (non-empty) buffer in no-copy mode: the discipline waits for the release -/
theorem jpass_nocopy_inv {s : JSt} (h : JInv s) (hrun : s.pc = .run) (hb : s.buf ≠ [])
    (hc : s.cfg.noCopy = true) (t : Nat) (tk : Bool) (nx : Option (Nat × List Nat))
    (hnx : nx ≠ none → s.cfg.kind = .unite) :
    JInv (jpass s t tk nx) ∧ (jpass s t tk nx).pc = .await nx ∧ (jpass s t tk nx).cfg = s.cfg := by
  have e : jpass s t tk nx = { s with out := s.out ++ [s.buf], events := s.events ++ [JEvent.emit 0 s.buf], emitAt := s.emitAt ++ [t], byTick := s.byTick ++ [tk], pc := .await nx } := by
    simp [jpass, hb, hc, jsend]
  rw [e]
  have hcat := h.concat
  simp only [live, hrun, List.append_nil] at hcat
  refine ⟨⟨?_, ?_, fun hn => by simp at hn, h.le, ?_, ?_, fun _ _ => hc, ?_, h.sizePos, Or.inl rfl, fun hcl => absurd hrun (h.closingPc hcl).1, fun hu => absurd (h.unrel hu) (by rw [hrun]; simp)⟩, rfl, rfl⟩
  · simp [live, ← hcat]
  · intro o ho; simp at ho; rcases ho with ho | rfl
    · exact h.nonempty o ho
    · exact hb
  · intro hk o ho; simp at ho; rcases ho with ho | rfl
    · exact h.joinLe hk o ho
    · exact h.le
  · intro hk o ho hlt; simp at ho; rcases ho with ho | rfl
    · exact h.uniteBig hk o ho hlt
    · have := h.le; simp at hlt; omega
  · intro i xs hn
    simp at hn
    exact hnx (by rw [hn]; simp)

/-- `pass()` from a running state keeps the invariant, whatever the mode -/
theorem jpass_inv {s : JSt} (h : JInv s) (hrun : s.pc = .run) (t : Nat) (tk : Bool) :
    JInv (jpass s t tk none) ∧ (jpass s t tk none).cfg = s.cfg ∧
      ((jpass s t tk none).pc = .run ∧ (jpass s t tk none).buf = [] ∨ ∃ n, (jpass s t tk none).pc = .await n) := by
  by_cases hb : s.buf = []
  · have e : jpass s t tk none = { s with passAt := t } := by simp [jpass, hb]
    rw [e]
    exact ⟨⟨h.concat, h.nonempty, h.small, h.le, h.joinLe, h.uniteBig, h.awaitNC, h.awaitSome, h.sizePos, h.pendIn, h.closingPc, h.unrel⟩,
      rfl, Or.inl ⟨hrun, hb⟩⟩
  · by_cases hc : s.cfg.noCopy = true
    · obtain ⟨h1, h2, h3⟩ := jpass_nocopy_inv h hrun hb hc t tk none (by simp)
      exact ⟨h1, h3, Or.inr ⟨none, h2⟩⟩
    · obtain ⟨h1, h2, h3, h4⟩ := jpass_copy_inv h hrun hb (by simpa using hc) t tk none
      exact ⟨h1, h4, Or.inl ⟨h3, h2⟩⟩

/-- append, then pass when full -/
theorem jappendPath_inv {s : JSt} {xs : List Nat} (h : JInvP s xs) (hrun : s.pc = .run)
    (hfit : s.buf.length + xs.length ≤ s.cfg.size) (t : Nat) :
    JInv (jappendPath s xs t) ∧ (jappendPath s xs t).cfg = s.cfg := by
  have hcat := h.concat
  simp only [live, hrun] at hcat
  by_cases hlt : (s.buf ++ xs).length < s.cfg.size
  · have hlt' : s.buf.length + xs.length < s.cfg.size := by simpa using hlt
    have e : jappendPath s xs t = { s with buf := s.buf ++ xs, events := s.events ++ [JEvent.write], firstAt := (if s.buf = [] then t else s.firstAt) } := by
      simp only [jappendPath, jappend]
      simp [hlt']
    rw [e]
    refine ⟨⟨?_, h.nonempty, fun _ => hlt, Nat.le_of_lt hlt, h.joinLe, h.uniteBig, ?_, ?_, h.sizePos, Or.inl rfl, fun hcl => absurd hrun (h.closingPc hcl).1, fun hu => absurd (h.unrel hu) (by rw [hrun]; simp)⟩, rfl⟩
    · simp [live, hrun, ← hcat]
    · intro n hn; simp [hrun] at hn
    · intro i ys hn; simp [hrun] at hn
  · -- full: the appended buffer is passed
    have hne : s.buf ++ xs ≠ [] := by
      intro e; rw [e] at hlt; simp at hlt; have := h.sizePos; omega
    have hle : (s.buf ++ xs).length ≤ s.cfg.size := by simpa using hfit
    have hlt' : ¬ s.buf.length + xs.length < s.cfg.size := by simpa using hlt
    have e : jappendPath s xs t = jpass { s with buf := s.buf ++ xs, events := s.events ++ [JEvent.write], firstAt := (if s.buf = [] then t else s.firstAt) } t false none := by
      simp only [jappendPath, jappend]
      simp [hlt']
    rw [e]
    by_cases hc : s.cfg.noCopy = true
    · have e2 : jpass { s with buf := s.buf ++ xs, events := s.events ++ [JEvent.write], firstAt := (if s.buf = [] then t else s.firstAt) } t false none = { s with firstAt := (if s.buf = [] then t else s.firstAt), buf := s.buf ++ xs, events := s.events ++ [JEvent.write] ++ [JEvent.emit 0 (s.buf ++ xs)], out := s.out ++ [s.buf ++ xs], emitAt := s.emitAt ++ [t], byTick := s.byTick ++ [false], pc := .await none } := by
        simp [jpass, hne, hc, jsend]
      rw [e2]
      refine ⟨⟨?_, ?_, fun hn => by simp at hn, hle, ?_, ?_, fun _ _ => hc, ?_, h.sizePos, Or.inl rfl, fun hcl => absurd hrun (h.closingPc hcl).1, fun hu => absurd (h.unrel hu) (by rw [hrun]; simp)⟩, rfl⟩
      · simp [live, ← hcat]
      · intro o ho; simp at ho; rcases ho with ho | rfl
        · exact h.nonempty o ho
        · exact hne
      · intro hk o ho; simp at ho; rcases ho with ho | rfl
        · exact h.joinLe hk o ho
        · exact hle
      · intro hk o ho hl; simp at ho; rcases ho with ho | rfl
        · exact h.uniteBig hk o ho hl
        · simp at hl hle; omega
      · intro i ys hn; simp at hn
    · have hc' : s.cfg.noCopy = false := by simpa using hc
      have e2 : jpass { s with buf := s.buf ++ xs, events := s.events ++ [JEvent.write], firstAt := (if s.buf = [] then t else s.firstAt) } t false none = { s with firstAt := (if s.buf = [] then t else s.firstAt), buf := [], events := s.events ++ [JEvent.write] ++ [JEvent.emit s.nextId (s.buf ++ xs)] ++ [JEvent.write], out := s.out ++ [s.buf ++ xs], emitAt := s.emitAt ++ [t], byTick := s.byTick ++ [false], nextId := s.nextId + 1, passAt := t } := by
        simp [jpass, hne, hc', jsend, jafterPass]
      rw [e2]
      refine ⟨⟨?_, ?_, fun _ => by simpa using h.sizePos, by simp, ?_, ?_, ?_, ?_, h.sizePos, Or.inl rfl, fun hcl => absurd hrun (h.closingPc hcl).1, fun hu => absurd (h.unrel hu) (by rw [hrun]; simp)⟩, rfl⟩
      · simp [live, hrun, ← hcat]
      · intro o ho; simp at ho; rcases ho with ho | rfl
        · exact h.nonempty o ho
        · exact hne
      · intro hk o ho; simp at ho; rcases ho with ho | rfl
        · exact h.joinLe hk o ho
        · exact hle
      · intro hk o ho hl; simp at ho; rcases ho with ho | rfl
        · exact h.uniteBig hk o ho hl
        · simp at hl hle; omega
      · intro n hn; simp [hrun] at hn
      · intro i ys hn; simp [hrun] at hn

/-- unite `forward`: an oversize input slice is emitted as a slice of its own -/
theorem jforward_inv {s : JSt} {xs : List Nat} (h : JInvP s xs) (hrun : s.pc = .run) (hb : s.buf = [])
    (hk : s.cfg.kind = .unite) (hbig : s.cfg.size ≤ xs.length) (id t : Nat) :
    JInv (jforward s id xs t) ∧ (jforward s id xs t).cfg = s.cfg := by
  have hcat := h.concat
  simp only [live, hrun, hb, List.append_nil] at hcat
  have hne : xs ≠ [] := by intro e; rw [e] at hbig; have := h.sizePos; simp at hbig; omega
  have hin : xs ∈ s.consumed := by rcases h.pendIn with e | e; exact absurd e hne; exact e
  have hju : ¬ s.cfg.kind = .join := by rw [hk]; simp
  by_cases hc : s.cfg.noCopy = true
  · have e : jforward s id xs t = { s with out := s.out ++ [xs], events := s.events ++ [JEvent.emit id xs], emitAt := s.emitAt ++ [t], byTick := s.byTick ++ [false], pc := .await none } := by
      simp [jforward, jsend, hc]
    rw [e]
    refine ⟨⟨?_, ?_, fun hn => by simp at hn, h.le, fun hj => absurd hj hju, ?_, fun _ _ => hc, ?_, h.sizePos, Or.inl rfl, fun hcl => absurd hrun (h.closingPc hcl).1, fun hu => absurd (h.unrel hu) (by rw [hrun]; simp)⟩, rfl⟩
    · simp [live, ← hcat]
    · intro o ho; simp at ho; rcases ho with ho | rfl
      · exact h.nonempty o ho
      · exact hne
    · intro _ o ho hl; simp at ho; rcases ho with ho | rfl
      · exact h.uniteBig hk o ho hl
      · exact hin
    · intro i ys hn; simp at hn
  · have hc' : s.cfg.noCopy = false := by simpa using hc
    have e : jforward s id xs t = { s with out := s.out ++ [xs], events := s.events ++ [JEvent.emit s.nextId xs], emitAt := s.emitAt ++ [t], byTick := s.byTick ++ [false], nextId := s.nextId + 1, passAt := t } := by
      simp [jforward, jsend, hc']
    rw [e]
    refine ⟨⟨?_, ?_, fun _ => by simp [hb]; exact h.sizePos, by simp [hb], fun hj => absurd hj hju, ?_, ?_, ?_, h.sizePos, Or.inl rfl, fun hcl => absurd hrun (h.closingPc hcl).1, fun hu => absurd (h.unrel hu) (by rw [hrun]; simp)⟩, rfl⟩
    · simp [live, hrun, hb, ← hcat]
    · intro o ho; simp at ho; rcases ho with ho | rfl
      · exact h.nonempty o ho
      · exact hne
    · intro _ o ho hl; simp at ho; rcases ho with ho | rfl
      · exact h.uniteBig hk o ho hl
      · exact hin
    · intro n hn; simp [hrun] at hn
    · intro i ys hn; simp [hrun] at hn

theorem jcont_inv {s : JSt} {xs : List Nat} (h : JInvP s xs) (hrun : s.pc = .run)
    (hk : s.cfg.kind = .unite)
    (hpre : (s.cfg.size ≤ xs.length → s.buf = []) ∧ (xs.length < s.cfg.size → s.buf.length + xs.length ≤ s.cfg.size))
    (id t : Nat) : JInv (jcont s id xs t) ∧ (jcont s id xs t).cfg = s.cfg := by
  unfold jcont
  by_cases hbig : xs.length ≥ s.cfg.size
  · simp only [hbig, if_true]
    have h' : JInvP { s with passAt := t } xs :=
      ⟨h.concat, h.nonempty, h.small, h.le, h.joinLe, h.uniteBig, h.awaitNC, h.awaitSome, h.sizePos, h.pendIn, h.closingPc, h.unrel⟩
    exact jforward_inv h' hrun (hpre.1 hbig) hk hbig id t
  · simp only [hbig, if_false]
    exact jappendPath_inv h hrun (hpre.2 (by omega)) t

theorem closing_false_of_run {s : JSt} {p : List Nat} (h : JInvP s p) (hrun : s.pc = .run) : s.closing = false := by
  cases hc : s.closing with
  | false => rfl
  | true => exact absurd hrun (h.closingPc hc).1

/-- `process(item)` keeps the invariant -/
theorem jprocess_inv {s : JSt} (h : JInv s) (hrun : s.pc = .run) (id : Nat) (xs : List Nat) (t : Nat)
    (hjoin : s.cfg.kind = .join → xs.length = 1) :
    JInv (jprocess s id xs t) ∧ (jprocess s id xs t).cfg = s.cfg := by
  have hsmall := h.small hrun
  unfold jprocess
  cases hk : s.cfg.kind with
  | join =>
    simp only
    have hl := jlog_inv h xs
    have := hjoin hk
    exact jappendPath_inv hl hrun (by simp [jlog]; omega) t
  | unite =>
    simp only
    by_cases hnp : needPass s xs = true
    · simp only [hnp, if_true]
      have hb : s.buf ≠ [] := by
        simp only [needPass, Bool.and_eq_true, Bool.not_eq_true', List.isEmpty_eq_false_iff] at hnp
        exact hnp.2
      by_cases hc : s.cfg.noCopy = true
      · simp only [hc, if_true]
        obtain ⟨h1, _, h3⟩ := jpass_nocopy_inv h hrun hb hc t false (some (id, xs)) (fun _ => hk)
        exact ⟨h1, h3⟩
      · have hc' : s.cfg.noCopy = false := by simpa using hc
        simp only [hc', Bool.false_eq_true, if_false]
        have hl := jlog_inv h xs
        obtain ⟨h1, h2, h3, h4⟩ := jpass_copy_inv hl hrun (by simpa [jlog] using hb) (by simpa [jlog] using hc') t false none
        have := jcont_inv h1 h3 (by rw [h4]; simpa [jlog] using hk)
          ⟨fun _ => h2, fun hlt => by rw [h4] at hlt; rw [h2, h4]; simp [jlog] at hlt ⊢; omega⟩ id t
        exact ⟨this.1, by rw [this.2, h4]; rfl⟩
    · have hnp' : needPass s xs = false := by simpa using hnp
      simp only [hnp', Bool.false_eq_true, if_false]
      have hl := jlog_inv h xs
      have hpre : (s.cfg.size ≤ xs.length → s.buf = []) ∧ (xs.length < s.cfg.size → s.buf.length + xs.length ≤ s.cfg.size) := by
        simp only [needPass, Bool.and_eq_false_iff, Bool.or_eq_false_iff, decide_eq_false_iff_not,
          Bool.not_eq_false', List.isEmpty_iff] at hnp'
        constructor
        · intro hbig
          rcases hnp' with ⟨h1, _⟩ | h2
          · exact absurd hbig h1
          · exact h2
        · intro hlt
          rcases hnp' with ⟨_, h2⟩ | h2
          · omega
          · rw [h2]; simp; omega
      have := jcont_inv hl hrun (by simpa [jlog] using hk) (by simpa [jlog] using hpre) id t
      exact ⟨this.1, by rw [this.2]; rfl⟩

/-- **one step keeps the invariant** -/
theorem jstep_inv (s s' : JSt) (a : JAct) (h : JInv s) (hs : jstep s a = some s') :
    JInv s' ∧ s'.cfg = s.cfg := by
  have keep : ∀ u : JSt, u.out = s.out → u.buf = s.buf → u.pc = s.pc → u.consumed = s.consumed → u.cfg = s.cfg →
      u.closing = s.closing → u.unreleased = s.unreleased → JInv u ∧ u.cfg = s.cfg := by
    intro u ho hb hp hcn hcf hcl hu
    have hl : live u = live s := by simp [live, hp, hb, hcl, hu]
    exact ⟨⟨by rw [ho, hl, hcn]; exact h.concat, by rw [ho]; exact h.nonempty, by rw [hp, hb, hcf]; exact h.small,
      by rw [hb, hcf]; exact h.le, by rw [hcf, ho]; exact h.joinLe, by rw [hcf, ho, hcn]; exact h.uniteBig,
      by rw [hp, hcf]; exact h.awaitNC, by rw [hp, hcf]; exact h.awaitSome, by rw [hcf]; exact h.sizePos,
      Or.inl rfl, by rw [hcl, hp]; exact h.closingPc, by rw [hu, hp]; exact h.unrel⟩, hcf⟩
  unfold jstep at hs
  split at hs
  · -- run, item
    rename_i id xs t hpc
    split at hs
    · cases hs
    · rename_i hj
      split at hs
      · cases hs; exact ⟨h, rfl⟩
      · cases hs
        exact jprocess_inv h hpc id xs t (fun hk => by
          by_cases hx : xs.length = 1
          · exact hx
          · exact absurd ⟨hk, hx⟩ hj)
  · -- run, tick
    rename_i t hpc
    split at hs
    · cases hs
    · split at hs
      · cases hs
        obtain ⟨h1, h2, _⟩ := jpass_inv h hpc t true
        exact ⟨h1, h2⟩
      · cases hs; exact ⟨h, rfl⟩
  · -- run, close
    rename_i t hpc
    obtain ⟨h1, h2, h3⟩ := jpass_inv h hpc t false
    have hcf := closing_false_of_run h hpc
    simp only at hs
    split at hs
    · rename_i n hn
      cases hs
      have hl : live { jpass s t false none with closing := true } = live (jpass s t false none) := by
        simp [live, hn]
      refine ⟨⟨by rw [hl]; exact h1.concat, h1.nonempty, fun hr => by simp [hn] at hr, h1.le, h1.joinLe, h1.uniteBig,
        h1.awaitNC, h1.awaitSome, h1.sizePos, Or.inl rfl, ?_,
        fun hu => by have := h1.unrel hu; simp [hn] at this⟩, h2⟩
      intro _
      refine ⟨by simp [hn], fun i xs hx => ?_⟩
      rcases h3 with ⟨hr, _⟩ | ⟨n', hn'⟩
      · simp [hr] at hn
      · -- the await came from `jpass … none`
        have : (jpass s t false none).pc = .await none := by
          by_cases hb : s.buf = []
          · simp [jpass, hb, hpc] at hn
          · by_cases hc : s.cfg.noCopy = true
            · exact (jpass_nocopy_inv h hpc hb hc t false none (by simp)).2.1
            · have := (jpass_copy_inv h hpc hb (by simpa using hc) t false none).2.2.1
              simp [this] at hn
        simp [this] at hx
    · rename_i hn
      cases hs
      rcases h3 with ⟨hr, hb⟩ | ⟨n', hn'⟩
      · have hcat := h1.concat
        simp only [live, hr, hb, List.append_nil] at hcat
        refine ⟨⟨by simp [live, hcat], h1.nonempty, fun hr' => by simp at hr', h1.le, h1.joinLe, h1.uniteBig,
          fun n hn'' => by simp at hn'', fun i xs hn'' => by simp at hn'', h1.sizePos, Or.inl rfl, ?_, fun _ => rfl⟩, h2⟩
        intro _; simp
      · exact absurd hn' (hn n')
  · -- await, release
    rename_i next t hpc
    simp only at hs
    have hnc := h.awaitNC next hpc
    have hcat := h.concat
    simp only [live, hpc, List.append_nil] at hcat
    -- the state after the release proper: buffer emptied, running (or done when closing)
    have hbase : ∀ u : JSt, u.out = s.out → u.buf = [] → u.consumed = s.consumed → u.cfg = s.cfg →
        u.closing = s.closing → u.unreleased = s.unreleased →
        u.pc = (if s.closing then .done else .run) → JInv u := by
      intro u ho hb hcn hcf hcl hu hp
      refine ⟨?_, by rw [ho]; exact h.nonempty, fun _ => by rw [hb, hcf]; simpa using h.sizePos,
        by rw [hb]; simp, by rw [hcf, ho]; exact h.joinLe, by rw [hcf, ho, hcn]; exact h.uniteBig,
        ?_, ?_, by rw [hcf]; exact h.sizePos, Or.inl rfl, ?_,
        by intro hx; rw [hu] at hx; have := h.unrel hx; rw [hpc] at this; cases this⟩
      · rw [ho, hcn]
        by_cases hc : s.closing = true <;> simp [live, hp, hc, hb, hcl, hcat]
      · intro n hn; rw [hp] at hn; split at hn <;> cases hn
      · intro i xs hn; rw [hp] at hn; split at hn <;> cases hn
      · intro hc; rw [hcl] at hc; rw [hp]; simp [hc]
    cases next with
    | none =>
      simp only [Option.some.injEq] at hs
      subst hs
      split
      · exact ⟨hbase _ rfl (by assumption) rfl rfl rfl rfl rfl, rfl⟩
      · exact ⟨hbase _ rfl rfl rfl rfl rfl rfl rfl, rfl⟩
    | some nx =>
      obtain ⟨id, xs⟩ := nx
      have hk := h.awaitSome id xs hpc
      have hncl : s.closing = false := by
        cases hc : s.closing with
        | false => rfl
        | true => exact absurd hpc ((h.closingPc hc).2 id xs)
      simp only [Option.some.injEq] at hs
      subst hs
      have hfin : ∀ u : JSt, JInv u → u.pc = .run → u.buf = [] → u.cfg = s.cfg →
          JInv (jcont (jlog u xs) id xs t) ∧ (jcont (jlog u xs) id xs t).cfg = s.cfg := by
        intro u hu hr hb hcf
        have := jcont_inv (jlog_inv hu xs) hr (by simpa [jlog, hcf] using hk)
          ⟨fun _ => by simpa [jlog] using hb, fun hlt => by simp [jlog, hb]; simp [jlog] at hlt; omega⟩ id t
        exact ⟨this.1, by rw [this.2]; simpa [jlog] using hcf⟩
      split
      · exact hfin _ (hbase _ rfl (by assumption) rfl rfl rfl rfl rfl) (by simp [hncl]) (by assumption) rfl
      · exact hfin _ (hbase _ rfl rfl rfl rfl rfl rfl rfl) (by simp [jafterPass, hncl]) rfl rfl
  · -- stop
    split at hs
    · cases hs; exact keep _ rfl rfl rfl rfl rfl rfl rfl
    · cases hs
  · -- run, stopSeen: the loop returns, nothing more is emitted
    rename_i t hpc
    split at hs
    · cases hs
      have hcf := closing_false_of_run h hpc
      have hcat := h.concat
      simp only [live, hpc] at hcat
      refine ⟨⟨?_, h.nonempty, fun hr => by simp at hr, h.le, h.joinLe, h.uniteBig, fun n hn => by simp at hn,
        fun i xs hn => by simp at hn, h.sizePos, Or.inl rfl, fun hc => by simp [hcf] at hc, fun _ => rfl⟩, rfl⟩
      by_cases hu : s.unreleased = true
      · have := h.unrel hu; simp [hpc] at this
      · simp [live, hcf, hu, hcat]
    · cases hs
  · -- run, stopFlush: the deferred pass() still gets its slice out
    rename_i t hpc
    split at hs
    · cases hs
      have hcf := closing_false_of_run h hpc
      obtain ⟨h1, h2, h3⟩ := jpass_inv h hpc t false
      have hu : (jpass s t false none).unreleased = s.unreleased := by
        unfold jpass jsend jafterPass; split <;> (try split) <;> simp
      have hcl : (jpass s t false none).closing = s.closing := by
        unfold jpass jsend jafterPass; split <;> (try split) <;> simp
      have hlive : live (jpass s t false none) = [] := by
        rcases h3 with ⟨hr, hb⟩ | ⟨n, hn⟩
        · simp [live, hr, hb]
        · simp [live, hn]
      have hcat := h1.concat
      rw [hlive] at hcat
      refine ⟨⟨?_, h1.nonempty, fun hr => by simp at hr, by simp, h1.joinLe, h1.uniteBig, fun n hn => by simp at hn,
        fun i xs hn => by simp at hn, h1.sizePos, Or.inl rfl, fun hc => by simp [hcl, hcf] at hc, fun _ => rfl⟩, h2⟩
      simpa [live] using hcat
    · cases hs
  · -- await, stopSeen: the release never comes; `unreleased` freezes the discipline
    rename_i n t hpc
    split at hs
    · cases hs
      have hcat := h.concat
      simp only [live, hpc] at hcat
      refine ⟨⟨by simpa [live] using hcat, h.nonempty, fun hr => by simp at hr, h.le, h.joinLe, h.uniteBig,
        fun n hn => by simp at hn, fun i xs hn => by simp at hn, h.sizePos, Or.inl rfl, fun _ => by simp, fun _ => rfl⟩, rfl⟩
    · cases hs
  · cases hs

theorem jinit_inv (cfg : JCfg) (t0 : Nat) (h : 0 < cfg.size) : JInv (jinit cfg t0) := by
  refine ⟨by simp [jinit, live], by simp [jinit], fun _ => by simpa [jinit] using h, by simp [jinit],
    by simp [jinit], by simp [jinit], by simp [jinit], by simp [jinit], by simpa [jinit] using h, Or.inl rfl,
    by simp [jinit], by simp [jinit]⟩

theorem jrun_inv (acts : List JAct) (s s' : JSt) (h : JInv s) (hr : jrun s acts = some s') :
    JInv s' ∧ s'.cfg = s.cfg := by
  induction acts generalizing s with
  | nil => simp [jrun] at hr; subst hr; exact ⟨h, rfl⟩
  | cons a as ih =>
    simp only [jrun] at hr
    split at hr
    · rename_i s1 hs1
      obtain ⟨h1, hc1⟩ := jstep_inv s s1 a h hs1
      obtain ⟨h2, hc2⟩ := ih s1 h1 hr
      exact ⟨h2, by rw [hc2, hc1]⟩
    · cases hr

/-- **C03 (concatenation).**  When the discipline has terminated after its input was
    closed, the concatenation of all output slices is exactly the sequence of accepted
    elements (unite: the concatenation of the accepted input slices): no loss, duplication or
    reordering — for every action list. -/
theorem c03_concat (cfg : JCfg) (t0 : Nat) (hsz : 0 < cfg.size) (acts : List JAct) (s : JSt)
    (hr : jrun (jinit cfg t0) acts = some s) (hdone : s.pc = .done) (hclosed : s.closing = true) :
    s.out.flatten = s.consumed.flatten := by
  have h := (jrun_inv acts _ s (jinit_inv cfg t0 hsz) hr).1.concat
  simpa [live, hdone, hclosed] using h

/-- **C03 (at any moment the output is a prefix of the input)** — also under v1 Stop. -/
theorem c03_prefix (cfg : JCfg) (t0 : Nat) (hsz : 0 < cfg.size) (acts : List JAct) (s : JSt)
    (hr : jrun (jinit cfg t0) acts = some s) :
    ∃ rest, s.out.flatten ++ rest = s.consumed.flatten := by
  have h := (jrun_inv acts _ s (jinit_inv cfg t0 hsz) hr).1.concat
  exact ⟨live s, by simpa using h⟩

/-- **C03 (no empty slice).** -/
theorem c03_nonempty (cfg : JCfg) (t0 : Nat) (hsz : 0 < cfg.size) (acts : List JAct) (s : JSt)
    (hr : jrun (jinit cfg t0) acts = some s) : ∀ o ∈ s.out, o ≠ [] :=
  (jrun_inv acts _ s (jinit_inv cfg t0 hsz) hr).1.nonempty

/-- **C03 (join: a slice never has more than JoinSize elements).** -/
theorem c03_join_le (cfg : JCfg) (t0 : Nat) (hsz : 0 < cfg.size) (hk : cfg.kind = .join) (acts : List JAct) (s : JSt)
    (hr : jrun (jinit cfg t0) acts = some s) : ∀ o ∈ s.out, o.length ≤ cfg.size := by
  obtain ⟨h, hc⟩ := jrun_inv acts _ s (jinit_inv cfg t0 hsz) hr
  have hc' : s.cfg = cfg := by rw [hc]; rfl
  have := h.joinLe (by rw [hc']; exact hk)
  rw [hc'] at this; exact this

/-- **C03 (unite: a slice exceeds JoinSize only if it is exactly one input slice, itself at
    least JoinSize long).** -/
theorem c03_unite_big (cfg : JCfg) (t0 : Nat) (hsz : 0 < cfg.size) (hk : cfg.kind = .unite) (acts : List JAct)
    (s : JSt) (hr : jrun (jinit cfg t0) acts = some s) :
    ∀ o ∈ s.out, cfg.size < o.length → o ∈ s.consumed ∧ cfg.size ≤ o.length := by
  obtain ⟨h, hc⟩ := jrun_inv acts _ s (jinit_inv cfg t0 hsz) hr
  have hc' : s.cfg = cfg := by rw [hc]; rfl
  intro o ho hlt
  have := h.uniteBig (by rw [hc']; exact hk) o ho (by rw [hc']; exact hlt)
  exact ⟨this, Nat.le_of_lt hlt⟩

/-! Non-vacuity: a unite run with an oversize slice, a timeout firing and a close. -/
example :
    (jrun (jinit ⟨.unite, 3, 100, false, false⟩ 0)
      [.item 1 [1, 2] 1, .item 2 [3, 4] 2, .item 3 [5, 6, 7, 8] 3, .item 4 [9] 4, .tick 200, .item 5 [] 5, .close 6]).map
      (fun s => (s.out, s.consumed.flatten, s.pc)) =
    some ([[1, 2], [3, 4], [5, 6, 7, 8], [9]], [1, 2, 3, 4, 5, 6, 7, 8, 9], .done) := by decide

end Cqos.C03
