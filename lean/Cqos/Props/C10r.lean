import Cqos.Props.C10
/-
  Property C10, the bound itself as a run-level theorem.

  `c10_flush` says that a ticker firing processed late enough empties the buffer, and
  `c10_passAt_le_oldest` that the timer is not reset per element.  Here the two are composed
  over whole runs: along ANY run in which the discipline processes a ticker firing at least
  every `τ` clock units (`denseRun`: no clock reading is more than `τ` past the last processed
  firing — the ticker fires, Go schedules the goroutine, and the consumer is ready, so the
  discipline is never stuck awaiting a release for longer than that), every element that is
  still inside the discipline has been there for less than `Timeout + τ`:

      now < firstAt + Timeout + τ        (`c10_residence`)

  whatever the arrival pattern (single element then silence, steady trickle, bursts),
  JoinSize, copy / no-copy, join / unite / v1.  With `τ = Timeout / ⌊100 / inaccuracy⌋`
  (`c10_interval_v2`) this is the bound of the property.  What is assumed rather than proved
  is exactly the density of processed firings — a fact about Go's ticker, scheduler and the
  consumer.
-/
namespace Cqos.C10
open Cqos.C03

/-- what a step may do to `firstAt` while the buffer is non-empty: leave it alone (and then the
    buffer was non-empty before), or set it to the current reading -/
def Keep (f : Nat) (was : Prop) (t : Nat) (u : JSt) : Prop :=
  u.pc = .run → u.buf ≠ [] → (u.firstAt = f ∧ was) ∨ t ≤ u.firstAt

theorem k_pass (f : Nat) (was : Prop) (s : JSt) (t : Nat) (tk : Bool) (nx : Option (Nat × List Nat)) :
    Keep f was t (jpass s t tk nx) := by
  intro hr hb
  by_cases hb0 : s.buf = []
  · rw [jpass_empty_eq s t tk nx hb0] at hb; exact absurd hb0 hb
  · by_cases hc : s.cfg.noCopy = true
    · rw [jpass_nocopy_eq s t tk nx hb0 hc] at hr; simp at hr
    · rw [jpass_copy_eq s t tk nx hb0 (by simpa using hc)] at hb; simp at hb

theorem k_appendPath (s : JSt) (xs : List Nat) (t : Nat) :
    Keep s.firstAt (s.buf ≠ []) t (jappendPath s xs t) := by
  by_cases hlt : s.buf.length + xs.length < s.cfg.size
  · rw [jappendPath_stay_eq s xs t hlt]
    intro _ _
    by_cases hb : s.buf = []
    · right; simp [hb]
    · left; simp [hb]
  · rw [jappendPath_full_eq s xs t hlt]; exact k_pass _ _ _ _ _ _

theorem k_forward (f : Nat) (was : Prop) (s : JSt) (hb : s.buf = []) (id : Nat) (xs : List Nat) (t : Nat) :
    Keep f was t (jforward s id xs t) := by
  intro hr hb'
  by_cases hc : s.cfg.noCopy = true
  · rw [jforward_nocopy_eq s id xs t hc] at hr; simp at hr
  · rw [jforward_copy_eq s id xs t (by simpa using hc)] at hb'; exact absurd hb hb'

theorem k_cont (s : JSt) (xs : List Nat) (hpre : s.cfg.size ≤ xs.length → s.buf = []) (id t : Nat) :
    Keep s.firstAt (s.buf ≠ []) t (jcont s id xs t) := by
  unfold jcont
  by_cases hbig : xs.length ≥ s.cfg.size
  · simp only [hbig, if_true]
    exact k_forward _ _ { s with passAt := t } (hpre hbig) id xs t
  · simp only [hbig, if_false]
    exact k_appendPath s xs t

theorem k_process (s : JSt) (id : Nat) (xs : List Nat) (t : Nat) :
    Keep s.firstAt (s.buf ≠ []) t (jprocess s id xs t) := by
  unfold jprocess
  split
  · exact k_appendPath (jlog s xs) xs t
  · by_cases hnp : needPass s xs = true
    · simp only [hnp, if_true]
      split
      · exact k_pass _ _ _ _ _ _
      · rename_i hc
        have hb : s.buf ≠ [] := by
          simp only [needPass, Bool.and_eq_true, Bool.not_eq_true', List.isEmpty_eq_false_iff] at hnp
          exact hnp.2
        have e := jpass_copy_eq (jlog s xs) t false none (by simpa [jlog] using hb) (by simpa [jlog] using hc)
        rw [e]
        intro hr hb'
        rcases k_cont _ xs (fun _ => rfl) id t hr hb' with ⟨_, h⟩ | h
        · exact absurd rfl h
        · exact Or.inr h
    · have hnp' : needPass s xs = false := by simpa using hnp
      simp only [hnp', Bool.false_eq_true, if_false]
      refine k_cont (jlog s xs) xs ?_ id t
      intro hbig
      simp only [needPass, Bool.and_eq_false_iff, Bool.or_eq_false_iff, decide_eq_false_iff_not,
        Bool.not_eq_false', List.isEmpty_iff] at hnp'
      rcases hnp' with ⟨h1, _⟩ | h2
      · exact absurd (by simpa [jlog] using hbig) h1
      · simpa [jlog] using h2

/-- **one step and the oldest buffered element**: if a step ends in state `run` with a non-empty
    buffer, then either the buffer was non-empty (in state `run`) before and its oldest element
    is the same — and if the step was a ticker firing, the timeout had not yet expired — or the
    oldest element was accepted at the step's own clock reading. -/
theorem k_step (s s' : JSt) (a : JAct) (hj : JInv s) (hs : jstep s a = some s')
    (hr' : s'.pc = .run) (hb' : s'.buf ≠ []) :
    (s'.firstAt = s.firstAt ∧ s.pc = .run ∧ s.buf ≠ [] ∧ ∀ t, a = .tick t → t - s.passAt < s.cfg.timeout) ∨
    (∃ t, clockOf a = some t ∧ t ≤ s'.firstAt) := by
  unfold jstep at hs
  split at hs
  · rename_i id xs t hpc
    split at hs
    · cases hs
    · split at hs
      · cases hs; exact Or.inl ⟨rfl, hpc, hb', fun _ h => by cases h⟩
      · cases hs
        rcases k_process s id xs t hr' hb' with ⟨h1, h2⟩ | h
        · exact Or.inl ⟨h1, hpc, h2, fun _ h => by cases h⟩
        · exact Or.inr ⟨t, rfl, h⟩
  · rename_i t hpc
    split at hs
    · cases hs
    · split at hs
      · cases hs
        rcases k_pass 0 False s t true none hr' hb' with ⟨_, h⟩ | h
        · exact absurd h id
        · exact Or.inr ⟨t, rfl, h⟩
      · rename_i hnt
        cases hs
        exact Or.inl ⟨rfl, hpc, hb', fun t' h => by cases h; omega⟩
  · rename_i t hpc
    simp only at hs
    split at hs
    · cases hs; simp_all
    · cases hs; simp at hr'
  · rename_i next t hpc
    simp only at hs
    cases next with
    | none =>
      simp only [Option.some.injEq] at hs
      subst hs
      split at hb'
      · rename_i h0; exact absurd h0 hb'
      · simp [jafterPass] at hb'
    | some nx =>
      obtain ⟨id, xs⟩ := nx
      simp only [Option.some.injEq] at hs
      subst hs
      right
      refine ⟨t, rfl, ?_⟩
      have hgen : ∀ u : JSt, u.buf = [] → (jcont (jlog u xs) id xs t).pc = .run →
          (jcont (jlog u xs) id xs t).buf ≠ [] → t ≤ (jcont (jlog u xs) id xs t).firstAt := by
        intro u hu hr hb
        rcases k_cont (jlog u xs) xs (fun _ => by simpa [jlog] using hu) id t hr hb with ⟨_, h⟩ | h
        · exact absurd (by simpa [jlog] using hu) h
        · exact h
      refine hgen _ ?_ hr' hb'
      split
      · assumption
      · rfl
  · split at hs
    · cases hs
      have : s.pc = .run := hr'
      exact Or.inl ⟨rfl, this, hb', fun _ h => by cases h⟩
    · cases hs
  · split at hs
    · cases hs; simp at hr'
    · cases hs
  · split at hs
    · cases hs; simp at hr'
    · cases hs
  · split at hs
    · cases hs; simp at hr'
    · cases hs
  · cases hs

/-- the reading of the last processed ticker firing after action `a` at reading `t` -/
def ltAfter (a : JAct) (t lt : Nat) : Nat := match a with | .tick _ => t | _ => lt

/-- a run in which every clock reading is not in the past and at most `τ` after the last
    processed ticker firing (`lt`; initially the creation of the discipline) -/
def denseRun (τ : Nat) : JSt → Nat → Nat → List JAct → Option (JSt × Nat × Nat)
  | s, now, lt, [] => some (s, now, lt)
  | s, now, lt, a :: as =>
    match clockOf a with
    | some t =>
      if now ≤ t ∧ t ≤ lt + τ then
        (match jstep s a with
         | some s' => denseRun τ s' t (ltAfter a t lt) as
         | none => none)
      else none
    | none => (match jstep s a with | some s' => denseRun τ s' now lt as | none => none)

/-- the residence invariant -/
structure RInv (τ : Nat) (c : JCfg) (s : JSt) (now lt : Nat) : Prop where
  f : FInv s now
  j : JInv s
  pos : 0 < s.cfg.timeout
  cfgEq : s.cfg = c
  le : lt ≤ now
  near : now ≤ lt + τ
  fresh : s.pc = .run → s.buf ≠ [] → lt < s.firstAt + s.cfg.timeout

theorem r_step (τ : Nat) (c : JCfg) (s s' : JSt) (a : JAct) (now lt t : Nat) (h : RInv τ c s now lt)
    (hc : clockOf a = some t) (hle : now ≤ t) (hd : t ≤ lt + τ) (hs : jstep s a = some s') :
    RInv τ c s' t (ltAfter a t lt) := by
  have hf := f_step s s' a now h.j h.f (fun t' ht' => by rw [hc] at ht'; cases ht'; exact hle) hs
  rw [hc] at hf
  obtain ⟨hj', hcfg⟩ := jstep_inv s s' a h.j hs
  have hpos : 0 < s'.cfg.timeout := by rw [hcfg]; exact h.pos
  have hlt : lt ≤ t := Nat.le_trans h.le hle
  have hfresh : s'.pc = .run → s'.buf ≠ [] → (ltAfter a t lt) < s'.firstAt + s'.cfg.timeout := by
    intro hr' hb'
    rcases k_step s s' a h.j hs hr' hb' with ⟨e, hr, hb, htk⟩ | ⟨t', ht', hfa⟩
    · rw [e, hcfg]
      have hfr := h.fresh hr hb
      have hold := (h.f.oldest hr hb).1
      cases a with
      | tick t'' =>
        simp only [clockOf, Option.some.injEq] at hc
        subst hc
        have := htk t'' rfl
        simp only [ltAfter]
        omega
      | item _ _ _ => exact hfr
      | close _ => exact hfr
      | release _ => exact hfr
      | stop => exact hfr
      | stopSeen _ => exact hfr
      | stopFlush _ => exact hfr
    · rw [hc] at ht'; cases ht'
      have : (ltAfter a t lt) ≤ t := by
        cases a <;> simp only [ltAfter] <;> first | exact Nat.le_refl _ | exact hlt
      omega
  refine ⟨hf, hj', hpos, by rw [hcfg]; exact h.cfgEq, ?_, ?_, hfresh⟩
  · cases a <;> simp only [ltAfter] <;> first | exact Nat.le_refl _ | exact hlt
  · cases a <;> simp only [ltAfter] <;> omega

theorem r_run (τ : Nat) (c : JCfg) (acts : List JAct) (s s' : JSt) (now now' lt lt' : Nat) (h : RInv τ c s now lt)
    (hr : denseRun τ s now lt acts = some (s', now', lt')) : RInv τ c s' now' lt' := by
  induction acts generalizing s now lt with
  | nil => simp [denseRun] at hr; obtain ⟨rfl, rfl, rfl⟩ := hr; exact h
  | cons a as ih =>
    simp only [denseRun] at hr
    split at hr
    · rename_i t hc
      split at hr
      · rename_i hcond
        split at hr
        · rename_i s1 hs1
          exact ih s1 t _ (r_step τ c s s1 a now lt t h hc hcond.1 hcond.2 hs1) hr
        · cases hr
      · cases hr
    · rename_i hc
      split at hr
      · rename_i s1 hs1
        have hf := f_step s s1 a now h.j h.f (fun t' ht' => by rw [hc] at ht'; cases ht') hs1
        rw [hc] at hf
        obtain ⟨hj', hcfg⟩ := jstep_inv s s1 a h.j hs1
        refine ih s1 now lt ⟨hf, hj', by rw [hcfg]; exact h.pos, by rw [hcfg]; exact h.cfgEq, h.le, h.near, ?_⟩ hr
        intro hr' hb'
        rcases k_step s s1 a h.j hs1 hr' hb' with ⟨e, hr0, hb0, _⟩ | ⟨t', ht', _⟩
        · rw [e, hcfg]; exact h.fresh hr0 hb0
        · rw [hc] at ht'; cases ht'
      · cases hr

/-- **C10 (the bound).** Along any run of a batching discipline with `Timeout > 0` in which a
    ticker firing is processed at least every `τ` (and the clock does not run backwards): at
    every moment, the oldest element still inside the discipline was accepted less than
    `Timeout + τ` ago — for every arrival pattern, JoinSize, copy / no-copy, join / unite / v1. -/
theorem c10_residence (cfg : JCfg) (t0 τ : Nat) (hsz : 0 < cfg.size) (hT : 0 < cfg.timeout)
    (acts : List JAct) (s : JSt) (now lt : Nat)
    (hr : denseRun τ (jinit cfg t0) t0 t0 acts = some (s, now, lt)) (hrun : s.pc = .run) (hb : s.buf ≠ []) :
    now < s.firstAt + cfg.timeout + τ ∧ s.firstAt ≤ now := by
  have h0 : RInv τ cfg (jinit cfg t0) t0 t0 :=
    ⟨⟨by simp [jinit], fun _ hb' => by simp [jinit] at hb'⟩, jinit_inv cfg t0 hsz, by simpa [jinit] using hT, rfl,
     Nat.le_refl _, Nat.le_add_right _ _, fun _ hb' => by simp [jinit] at hb'⟩
  have h := r_run τ cfg acts _ s t0 now t0 lt h0 hr
  have hcfg : s.cfg = cfg := h.cfgEq
  have hfr := h.fresh hrun hb
  have hnear := h.near
  rw [hcfg] at hfr
  exact ⟨by omega, (h.f.oldest hrun hb).2⟩

/-- **C10 (the bound, with the ticker period of the library).** If the ticker period `τ`
    satisfies `τ * d ≤ Timeout` (what `calcInterruptInterval` guarantees with
    `d = ⌊100 / TimeoutInaccuracy⌋`, theorems `c10_interval_v2` / `c10_interval_v1`), no element
    stays longer than `Timeout * (1 + 1/d)`. -/
theorem c10_residence_div (cfg : JCfg) (t0 τ d : Nat) (hsz : 0 < cfg.size) (hT : 0 < cfg.timeout)
    (hd : 0 < d) (hτ : τ * d ≤ cfg.timeout)
    (acts : List JAct) (s : JSt) (now lt : Nat)
    (hr : denseRun τ (jinit cfg t0) t0 t0 acts = some (s, now, lt)) (hrun : s.pc = .run) (hb : s.buf ≠ []) :
    now - s.firstAt < cfg.timeout + cfg.timeout / d := by
  have h := (c10_residence cfg t0 τ hsz hT acts s now lt hr hrun hb).1
  have : τ ≤ cfg.timeout / d := (Nat.le_div_iff_mul_le hd).2 hτ
  omega

/-! Non-vacuity: a slow trickle (Timeout 100, ticker period 35, one element every 40): the run is
    dense, elements are still buffered at reading 95 (the oldest accepted at 10), and the firing at
    125 flushes them. -/
example :
    (denseRun 35 (jinit ⟨.join, 10, 100, false, false⟩ 0) 0 0
      [.item 1 [1] 10, .tick 30, .item 2 [2] 50, .tick 60, .item 3 [3] 90, .tick 95]).map
      (fun r => (r.1.buf, r.1.firstAt, r.2)) = some ([1, 2, 3], 10, 95, 95) := by decide
example :
    (denseRun 35 (jinit ⟨.join, 10, 100, false, false⟩ 0) 0 0
      [.item 1 [1] 10, .tick 30, .item 2 [2] 50, .tick 60, .item 3 [3] 90, .tick 95, .tick 125]).map
      (fun r => (r.1.out, r.1.buf)) = some ([[1, 2, 3]], []) := by decide
/-- a run whose firings are too sparse is not a dense run (the hypothesis has content) -/
example :
    denseRun 35 (jinit ⟨.join, 10, 100, false, false⟩ 0) 0 0 [.item 1 [1] 10, .tick 30, .tick 70] = none := by decide

end Cqos.C10
