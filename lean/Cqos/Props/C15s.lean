import Cqos.SimpleV1
/-
  Property C15 for the simplified v1 discipline (`priority.Simple`): an error of the inner
  prioritization discipline (the divider broke its contract) is reported on `Simple.Err()` before
  that channel is closed — also when a `GracefulStop()` is pending (defect D5: `main` used to
  return from `gracefulStop()` without looking at the inner discipline's error channel; the
  error was lost and the termination looked normal).

  The termination protocol of `Cqos/SimpleV1.lean`, extended by what happens to the inner error:
  the inner discipline may fail at any moment while it runs (`innerFail`); `main` reports the
  error when its select takes the `priority.Err()` case and — since the repair — after
  `gracefulStop()` has returned.  `swallow := true` is the code before the repair.
-/
namespace Cqos.SimpleV1

structure ESt where
  base : PSt
  innerErr : Bool       -- the inner discipline terminated with an error
  reported : Bool       -- the error was written to `Simple.err`
  swallow : Bool        -- before the repair of D5
  deriving DecidableEq, Repr

inductive EAct
  | base (a : PAct)
  | innerFail           -- the inner discipline detects a divider fault and terminates with the error
  deriving DecidableEq, Repr

/-- does this step of `main` write the inner error to `Simple.err`? -/
def reports (s : ESt) : PAct → Bool
  | .selErr => s.innerErr
  | .gDone => !s.swallow && s.innerErr
  | .helperJoined => !s.swallow && s.innerErr
  | _ => false

def estep (s : ESt) : EAct → Option ESt
  | .base a => (pstep s.base a).map (fun b => { s with base := b, reported := s.reported || reports s a })
  | .innerFail =>
    if s.base.innerDone then none
    else some { s with base := { s.base with innerDone := true }, innerErr := true }

def erun (s : ESt) : List EAct → Option ESt
  | [] => some s
  | a :: as => match estep s a with
    | some s' => erun s' as
    | none => none

def einit (swallow : Bool) (handlers : Nat) : ESt :=
  { base := init false handlers, innerErr := false, reported := false, swallow := swallow }

structure EInv (s : ESt) : Prop where
  fixed : s.base.unfixed = false
  noSwallow : s.swallow = false
  errDone : s.innerErr = true → s.base.innerDone = true
  helperDone : s.base.helper = .finished → s.base.innerDone = true
  past : s.base.stopReq = false → s.base.ctxDone = false →
    s.base.pc = .select ∨ s.base.pc = .inGraceful ∨ s.base.innerDone = true
  pending : s.innerErr = true → s.reported = false → s.base.stopReq = false → s.base.ctxDone = false →
    s.base.pc = .select ∨ s.base.pc = .inGraceful

theorem einv_init (h : Nat) : EInv (einit false h) :=
  ⟨rfl, rfl, by simp [einit], by simp [einit, init], fun _ _ => Or.inl rfl, by simp [einit]⟩

theorem einv_step (s s' : ESt) (a : EAct) (h : EInv s) (hs : estep s a = some s') : EInv s' := by
  obtain ⟨h1, h2, h3, h4, h5, h6⟩ := h
  cases a with
  | innerFail =>
    simp only [estep] at hs
    split at hs
    · cases hs
    · rename_i hnd
      cases hs
      refine ⟨h1, h2, fun _ => rfl, fun _ => rfl, fun _ _ => Or.inr (Or.inr rfl), ?_⟩
      intro _ hr hst hct
      rcases h5 hst hct with e | e | e
      · exact Or.inl e
      · exact Or.inr e
      · exact absurd e hnd
  | base a =>
    simp only [estep] at hs
    cases hp : pstep s.base a with
    | none => simp [hp] at hs
    | some b =>
      simp only [hp, Option.map_some, Option.some.injEq] at hs
      subst hs
      have same : ∀ (b : PSt), b.unfixed = s.base.unfixed → b.stopReq = s.base.stopReq → b.ctxDone = s.base.ctxDone →
          b.innerDone = s.base.innerDone → b.helper = s.base.helper → b.pc = s.base.pc → (rep : Bool) → rep = false →
          EInv { s with base := b, reported := s.reported || rep } := by
        intro b e1 e2 e3 e4 e5 e6 rep hrep
        subst hrep
        refine ⟨by rw [e1]; exact h1, h2, fun h => by rw [e4]; exact h3 h, fun h => by rw [e4]; exact h4 (by rw [← e5]; exact h), ?_, ?_⟩
        · intro a b'; rw [e6, e4]; exact h5 (by rw [← e2]; exact a) (by rw [← e3]; exact b')
        · intro a b' c d; rw [e6]; exact h6 a (by simpa using b') (by rw [← e2]; exact c) (by rw [← e3]; exact d)
      cases a with
      | stop =>
        simp only [pstep, Option.some.injEq] at hp; subst hp
        exact ⟨h1, h2, h3, h4, fun h => by simp at h, fun _ _ h => by simp at h⟩
      | cancel =>
        simp only [pstep, Option.some.injEq] at hp; subst hp
        exact ⟨h1, h2, h3, h4, fun _ h => by simp at h, fun _ _ _ h => by simp at h⟩
      | graceful =>
        simp only [pstep, Option.some.injEq] at hp; subst hp
        exact same { s.base with gracefulReq := true } rfl rfl rfl rfl rfl rfl (reports s .graceful) rfl
      | drain =>
        simp only [pstep, Option.some.injEq] at hp; subst hp
        exact same { s.base with drained := true } rfl rfl rfl rfl rfl rfl (reports s .drain) rfl
      | selStop =>
        simp only [pstep] at hp
        split at hp
        · rename_i hg
          cases hp
          refine ⟨h1, h2, h3, h4, ?_, ?_⟩
          · intro a b; rcases hg.2 with e | e
            · rw [a] at e; cases e
            · rw [b] at e; cases e
          · intro _ _ a b; rcases hg.2 with e | e
            · rw [a] at e; cases e
            · rw [b] at e; cases e
        · cases hp
      | selErr =>
        simp only [pstep] at hp
        split at hp
        · rename_i hg
          cases hp
          refine ⟨h1, h2, h3, h4, fun _ _ => Or.inr (Or.inr hg.2), ?_⟩
          intro a b _ _
          have a' : s.innerErr = true := a
          simp [reports] at b
          rw [b.2] at a'; cases a'
        · cases hp
      | selGraceful =>
        simp only [pstep] at hp
        split at hp
        · rw [h1] at hp
          simp only [Bool.false_eq_true, if_false, Option.some.injEq] at hp
          subst hp
          refine ⟨rfl, h2, h3, ?_, fun _ _ => Or.inr (Or.inl rfl), fun _ _ _ _ => Or.inr rfl⟩
          intro h; simp at h
        · cases hp
      | gDone =>
        simp only [pstep] at hp
        split at hp
        · rename_i hg
          cases hp
          have hid := h4 hg.2
          refine ⟨h1, h2, h3, h4, fun _ _ => Or.inr (Or.inr hid), ?_⟩
          intro a b _ _
          have a' : s.innerErr = true := a
          simp [reports, h2] at b
          rw [b.2] at a'; cases a'
        · cases hp
      | gStop =>
        simp only [pstep] at hp
        split at hp
        · rename_i hg
          cases hp
          refine ⟨h1, h2, h3, h4, ?_, ?_⟩
          · intro a b; rcases hg.2 with e | e
            · rw [a] at e; cases e
            · rw [b] at e; cases e
          · intro _ _ a b; rcases hg.2 with e | e
            · rw [a] at e; cases e
            · rw [b] at e; cases e
        · cases hp
      | innerStopped =>
        simp only [pstep] at hp
        split at hp
        · rename_i hid
          split at hp
          all_goals first
            | (cases hp; done)
            | (rename_i hpc
               cases hp
               refine ⟨h1, h2, h3, h4, fun _ _ => Or.inr (Or.inr hid), ?_⟩
               intro a b c d
               rcases h6 a (by simpa [reports] using b) c d with e | e <;> (rw [hpc] at e; cases e))
        · cases hp
      | helperJoined =>
        simp only [pstep] at hp
        split at hp
        · rename_i hg
          cases hp
          have hid := h4 hg.2
          refine ⟨h1, h2, h3, h4, fun _ _ => Or.inr (Or.inr hid), ?_⟩
          intro a b _ _
          have a' : s.innerErr = true := a
          simp [reports, h2] at b
          rw [b.2] at a'; cases a'
        · cases hp
      | cancelHandlers =>
        simp only [pstep] at hp
        split at hp
        · rename_i hg
          cases hp
          refine ⟨h1, h2, h3, h4, ?_, ?_⟩
          · intro a b
            rcases h5 a b with e | e | e
            · rw [hg] at e; cases e
            · rw [hg] at e; cases e
            · exact Or.inr (Or.inr e)
          · intro a b c d
            rcases h6 a (by simpa [reports] using b) c d with e | e <;> (rw [hg] at e; cases e)
        · cases hp
      | handlersGone =>
        simp only [pstep] at hp
        split at hp
        · rename_i hg
          cases hp
          refine ⟨h1, h2, h3, h4, ?_, ?_⟩
          · intro a b
            rcases h5 a b with e | e | e
            · rw [hg.1] at e; cases e
            · rw [hg.1] at e; cases e
            · exact Or.inr (Or.inr e)
          · intro a b c d
            rcases h6 a (by simpa [reports] using b) c d with e | e <;> (rw [hg.1] at e; cases e)
        · cases hp
      | innerFinish =>
        simp only [pstep] at hp
        split at hp
        · cases hp
          refine ⟨h1, h2, fun _ => rfl, fun _ => rfl, fun _ _ => Or.inr (Or.inr rfl), ?_⟩
          intro a b c d
          exact h6 a (by simpa [reports] using b) c d
        · cases hp
      | helperReturn =>
        simp only [pstep] at hp
        split at hp
        · rename_i hg
          cases hp
          refine ⟨h1, h2, h3, fun _ => hg.2, h5, ?_⟩
          intro a b c d
          exact h6 a (by simpa [reports] using b) c d
        · cases hp
      | handlerExit =>
        simp only [pstep] at hp
        split at hp
        · cases hp
          exact same { s.base with handlers := s.base.handlers - 1 } rfl rfl rfl rfl rfl rfl (reports s .handlerExit) rfl
        · cases hp

theorem einv_run (acts : List EAct) (s s' : ESt) (h : EInv s) (hr : erun s acts = some s') : EInv s' := by
  induction acts generalizing s with
  | nil => simp [erun] at hr; subst hr; exact h
  | cons a as ih =>
    simp only [erun] at hr
    split at hr
    · rename_i s1 hs1; exact ih s1 (einv_step s s1 a h hs1) hr
    · cases hr

/-- **C15 for v1 `Simple` (an inner error is reported, also while a graceful stop is pending).**
    For every run of the termination protocol, every number of handlers: when `main` has completed
    (so `Err()` is closed) and the inner discipline had terminated with an error, the error was
    written to `Simple.Err()` — unless the user asked for a rough termination (`Stop()` / context
    cancellation), where no report is promised. -/
theorem c15_simple_error_reported (handlers : Nat) (acts : List EAct) (s : ESt)
    (hr : erun (einit false handlers) acts = some s) (hc : s.base.pc = .completed) (he : s.innerErr = true)
    (hst : s.base.stopReq = false) (hct : s.base.ctxDone = false) : s.reported = true := by
  have h := einv_run acts _ s (einv_init handlers) hr
  cases hrep : s.reported with
  | true => rfl
  | false =>
    rcases h.pending he hrep hst hct with e | e <;> (rw [hc] at e; cases e)

/-- before the repair of D5 the error is lost: the inner discipline fails while `GracefulStop()` is
    pending, `main` completes, `Err()` is closed and nothing was reported -/
theorem c15_simple_unfixed_error_lost :
    (erun (einit true 1) [.base .graceful, .base .selGraceful, .innerFail, .base .helperReturn, .base .gDone,
        .base .innerStopped, .base .cancelHandlers, .base .handlerExit, .base .handlersGone]).map
      (fun s => (s.base.pc, s.innerErr, s.reported, s.base.stopReq, s.base.ctxDone)) =
      some (.completed, true, false, false, false) := by decide

/-- the same run after the repair reports the error -/
example :
    (erun (einit false 1) [.base .graceful, .base .selGraceful, .innerFail, .base .helperReturn, .base .gDone,
        .base .innerStopped, .base .cancelHandlers, .base .handlerExit, .base .handlersGone]).map
      (fun s => (s.base.pc, s.innerErr, s.reported)) = some (.completed, true, true) := by decide

end Cqos.SimpleV1
