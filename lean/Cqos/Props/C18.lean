import Cqos.Props.C14
import Cqos.Tactic
import Cqos.Lemmas.SortDesc
/-
  Property C18 — handler-quantity helpers agree with their definition; non-fatal ⇒ accepted.

  `genCombinations`, `isNonFatal`, `isSuitable…`, `pickUpMin/Max`, `prepareV2` model
  `utils.go` of both modules and v2 `prepare`; tied to the Go code by the C18
  correspondence family (all priority sets over a small alphabet, near-equal priorities
  that trigger Rate's truncation, random sets; `prepare` is run for every case).
-/
namespace Cqos.C18

/-- characterisation of the accumulator loop -/
theorem mem_genCombinations (ps : List Nat) (acc : List (List Nat)) (c : List Nat) :
    c ∈ genCombinations ps acc ↔
      ∃ a s, s.Sublist ps ∧ c = a ++ s ∧ (a ∈ acc ∨ (a = [] ∧ s ≠ [])) := by
  induction ps generalizing acc with
  | nil =>
    simp only [genCombinations]
    constructor
    · intro h; exact ⟨c, [], List.Sublist.refl _, by simp, Or.inl h⟩
    · rintro ⟨a, s, hs, rfl, h⟩
      have : s = [] := List.sublist_nil.1 hs
      subst this
      rcases h with h | ⟨_, h⟩
      · simpa using h
      · exact absurd rfl h
  | cons p ps ih =>
    simp only [genCombinations]
    rw [ih]
    constructor
    · rintro ⟨a, s, hs, rfl, h⟩
      rcases h with h | ⟨rfl, hne⟩
      · simp only [List.mem_append, List.mem_map, List.mem_singleton] at h
        rcases h with (h | ⟨b, hb, rfl⟩) | rfl
        · exact ⟨a, s, hs.cons p, rfl, Or.inl h⟩
        · exact ⟨b, p :: s, hs.cons_cons p, by simp, Or.inl hb⟩
        · exact ⟨[], p :: s, hs.cons_cons p, by simp, Or.inr ⟨rfl, by simp⟩⟩
      · exact ⟨[], s, hs.cons p, rfl, Or.inr ⟨rfl, hne⟩⟩
    · rintro ⟨a, s, hs, rfl, h⟩
      cases hs with
      | cons _ hs' =>
        rcases h with h | h
        · exact ⟨a, s, hs', rfl, Or.inl (by simp [h])⟩
        · exact ⟨a, s, hs', rfl, Or.inr h⟩
      | cons_cons _ hs' =>
        rename_i s'
        rcases h with h | ⟨rfl, _⟩
        · exact ⟨a ++ [p], s', hs', by simp, Or.inl (by simp [h])⟩
        · exact ⟨[p], s', hs', by simp, Or.inl (by simp)⟩

/-- **C18 (combinations).** `genCombinations` yields exactly the non-empty
    order-preserving sub-lists of its argument. -/
theorem c18_comb (ps c : List Nat) : c ∈ genCombinations ps [] ↔ c ≠ [] ∧ c.Sublist ps := by
  rw [mem_genCombinations]
  constructor
  · rintro ⟨a, s, hs, rfl, h⟩
    rcases h with h | ⟨rfl, hne⟩
    · simp at h
    · exact ⟨by simpa using hne, by simpa using hs⟩
  · rintro ⟨hne, hs⟩
    exact ⟨[], c, hs, by simp, Or.inr ⟨rfl, hne⟩⟩

theorem length_genCombinations (ps : List Nat) (acc : List (List Nat)) :
    (genCombinations ps acc).length + 1 = (acc.length + 1) * 2 ^ ps.length := by
  induction ps generalizing acc with
  | nil => simp [genCombinations]
  | cons p ps ih =>
    simp only [genCombinations]
    rw [ih]
    simp only [List.length_append, List.length_map, List.length_cons, List.length_nil, Nat.pow_succ]
    have : acc.length + acc.length + (0 + 1) + 1 = (acc.length + 1) * 2 := by omega
    rw [this, Nat.mul_assoc, Nat.mul_comm 2]

/-- **C18 (number of combinations).** `2^n − 1`. -/
theorem c18_comb_count (ps : List Nat) : (genCombinations ps []).length = 2 ^ ps.length - 1 := by
  have := length_genCombinations ps []
  simp at this
  omega

theorem filledFor_iff (c : List Nat) (m : Dist) : filledFor c m = true ↔ ∀ p ∈ c, 1 ≤ m.get p := by
  simp [filledFor, List.all_eq_true]
  constructor
  · intro h p hp; have := h p hp; omega
  · intro h p hp; have := h p hp; omega

/-- **C18 (IsNonFatalConfig agrees with its definition)** — for ANY divider: true exactly
    when every member of every non-empty sub-list of the priorities (sorted from highest
    to lowest) receives at least one unit of `q`. -/
theorem c18_nonfatal_iff (ps : List Nat) (div : Div) (q : Nat) :
    isNonFatal ps div q = true ↔
      ∀ c : List Nat, c ≠ [] → c.Sublist (sortDesc ps) → ∀ p ∈ c, 1 ≤ (div c q []).get p := by
  simp only [isNonFatal, isNonFatalCombos, List.all_eq_true]
  constructor
  · intro h c hne hs
    exact (filledFor_iff _ _).1 (h c ((c18_comb _ _).2 ⟨hne, hs⟩))
  · intro h c hc
    obtain ⟨hne, hs⟩ := (c18_comb _ _).1 hc
    exact (filledFor_iff _ _).2 (h c hne hs)

/-- Defect D2, kept as a decided fact about the UNREPAIRED check: it looked only at the
    keys present in the map, so a divider that leaves a listed key absent passed. -/
theorem c18_unfixed_counterexample :
    isNonFatalUnfixed [2, 1] (fun ps _ m => match ps with | p :: _ => m.add p 1 | [] => m) 1 = true ∧
    isNonFatal [2, 1] (fun ps _ m => match ps with | p :: _ => m.add p 1 | [] => m) 1 = false := by
  decide

/-- **C18 (IsSuitableConfig implies IsNonFatalConfig).** -/
theorem c18_suitable_imp (exceeds : Nat → Nat → Bool) (combos : List (List Nat)) (div : Div)
    (q refTotal : Nat) (h : isSuitableCombosWith exceeds combos div q refTotal = true) :
    isNonFatalCombos combos div q = true := by
  simp only [isSuitableCombosWith, isNonFatalCombos, List.all_eq_true, Bool.and_eq_true] at *
  intro c hc; exact (h c hc).1

/-- **C18 (monotone in the limit).** Stated for an arbitrary comparison: if everything
    that exceeds the larger limit also exceeds the smaller one (which is what `diff > limit`
    means for ordered limits), a configuration suitable for the smaller limit is suitable
    for the larger one. -/
theorem c18_suitable_mono (ex ex' : Nat → Nat → Bool) (hmono : ∀ a b, ex' a b = true → ex a b = true)
    (combos : List (List Nat)) (div : Div) (q refTotal : Nat)
    (h : isSuitableCombosWith ex combos div q refTotal = true) :
    isSuitableCombosWith ex' combos div q refTotal = true := by
  simp only [isSuitableCombosWith, isDistSuitableWith, List.all_eq_true, Bool.and_eq_true] at *
  intro c hc
  refine ⟨(h c hc).1, fun kv hkv => ?_⟩
  have := (h c hc).2 kv hkv
  refine ⟨this.1, ?_⟩
  cases hx : ex' ((div c q []).get kv.1) kv.2 with
  | false => rfl
  | true => have := hmono _ _ hx; simp_all

theorem pickUpMinFrom_spec (pred : Nat → Bool) (max fuel q : Nat) (hf : fuel + q = max + 1) (hq : 1 ≤ q) :
    let r := pickUpMinFrom pred max fuel q
    (r = 0 ∧ ∀ x, q ≤ x → x ≤ max → pred x = false) ∨
    (q ≤ r ∧ r ≤ max ∧ pred r = true ∧ ∀ x, q ≤ x → x < r → pred x = false) := by
  induction fuel generalizing q with
  | zero => left; exact ⟨rfl, fun x h1 h2 => by omega⟩
  | succ fuel ih =>
    simp only [pickUpMinFrom]
    have hle : q ≤ max := by omega
    simp only [hle, if_true]
    cases hp : pred q with
    | true => right; simp only [if_true]; exact ⟨Nat.le_refl _, hle, hp, fun x h1 h2 => by omega⟩
    | false =>
      simp only [Bool.false_eq_true, if_false]
      rcases ih (q + 1) (by omega) (by omega) with ⟨h0, hall⟩ | ⟨h1, h2, h3, h4⟩
      · left
        refine ⟨h0, fun x hx1 hx2 => ?_⟩
        by_cases e : x = q
        · subst e; exact hp
        · exact hall x (by omega) hx2
      · right
        refine ⟨by omega, h2, h3, fun x hx1 hx2 => ?_⟩
        by_cases e : x = q
        · subst e; exact hp
        · exact h4 x (by omega) hx2

/-- **C18 (PickUpMin…).** The result is the least `q ∈ [1,max]` satisfying the predicate,
    or 0 if there is none. -/
theorem c18_pick_min (pred : Nat → Bool) (max : Nat) :
    (pickUpMin pred max = 0 ∧ ∀ x, 1 ≤ x → x ≤ max → pred x = false) ∨
    (1 ≤ pickUpMin pred max ∧ pickUpMin pred max ≤ max ∧ pred (pickUpMin pred max) = true ∧
      ∀ x, 1 ≤ x → x < pickUpMin pred max → pred x = false) :=
  pickUpMinFrom_spec pred max max 1 (by omega) (Nat.le_refl _)

/-- **C18 (PickUpMax…).** The result is the greatest `q ∈ [1,max]` satisfying the
    predicate, or 0 if there is none. -/
theorem c18_pick_max (pred : Nat → Bool) (max : Nat) :
    (pickUpMax pred max = 0 ∧ ∀ x, 1 ≤ x → x ≤ max → pred x = false) ∨
    (1 ≤ pickUpMax pred max ∧ pickUpMax pred max ≤ max ∧ pred (pickUpMax pred max) = true ∧
      ∀ x, pickUpMax pred max < x → x ≤ max → pred x = false) := by
  induction max with
  | zero => left; exact ⟨rfl, fun x h1 h2 => by omega⟩
  | succ n ih =>
    simp only [pickUpMax]
    cases hp : pred (n + 1) with
    | true => right; simp only [if_true]; exact ⟨by omega, Nat.le_refl _, hp, fun x h1 h2 => by omega⟩
    | false =>
      simp only [Bool.false_eq_true, if_false]
      rcases ih with ⟨h0, hall⟩ | ⟨h1, h2, h3, h4⟩
      · left
        refine ⟨h0, fun x hx1 hx2 => ?_⟩
        by_cases e : x = n + 1
        · subst e; exact hp
        · exact hall x hx1 (by omega)
      · right
        refine ⟨h1, by omega, h3, fun x hx1 hx2 => ?_⟩
        by_cases e : x = n + 1
        · subst e; exact hp
        · exact h4 x hx1 (by omega)

theorem sortDesc_ne_nil (ps : List Nat) (h : ps ≠ []) : sortDesc ps ≠ [] := by
  cases ps with
  | nil => exact absurd rfl h
  | cons p ps =>
    simp only [sortDesc, List.foldr_cons]
    generalize List.foldr insertDesc [] ps = l
    cases l with
    | nil => simp [insertDesc]
    | cons x r => simp only [insertDesc]; split <;> simp

/-- **C18 (non-fatal ⇒ accepted by the v2 constructor).** For a divider that obeys the sum
    rule on the full priority list (Fair and Rate do: `c14_fair_total`, `c14_rate_total`),
    a configuration judged non-fatal passes `prepare`. -/
theorem c18_accepted (ps : List Nat) (div : Div) (q : Nat) (hps : ps ≠ [])
    (hsum : (div (sortDesc ps) q []).total = q)
    (hnf : isNonFatal ps div q = true) :
    prepareV2 div ps q = .ok (sortDesc ps, div (sortDesc ps) q []) := by
  have hfill : filledFor (sortDesc ps) (div (sortDesc ps) q []) = true :=
    (filledFor_iff _ _).2 ((c18_nonfatal_iff ps div q).1 hnf _ (sortDesc_ne_nil ps hps) (List.Sublist.refl _))
  simp only [prepareV2, safeDivide]
  by_cases h0 : (div (sortDesc ps) q []).total = 0
  · simp [h0, hfill]
  · simp [hsum, hfill]

/-- instances for the two library dividers -/
theorem c18_accepted_fair (ps : List Nat) (q : Nat) (hps : ps ≠ []) (hnf : isNonFatal ps fair q = true) :
    ∃ s, prepareV2 fair ps q = .ok (sortDesc ps, s) :=
  ⟨_, c18_accepted ps fair q hps (by simpa using C14.c14_fair_total _ q [] (sortDesc_ne_nil ps hps)) hnf⟩

theorem c18_accepted_rate (ps : List Nat) (q : Nat) (hps : ps ≠ []) (hnf : isNonFatal ps rate q = true) :
    ∃ s, prepareV2 rate ps q = .ok (sortDesc ps, s) :=
  ⟨_, c18_accepted ps rate q hps (by simpa [rate] using C14.c14_rate_total _ _ q [] (sortDesc_ne_nil ps hps)) hnf⟩

/-- **C18 (closed form for Fair).** For distinct priorities, `IsNonFatalConfig(ps, Fair, q)` is
    true exactly when there are at least as many handlers as priorities — the documented
    minimum for the fair divider, for every priority list and every quantity. -/
theorem c18_fair_nonfatal_iff (ps : List Nat) (q : Nat) (hnd : ps.Nodup) (hps : ps ≠ []) :
    isNonFatal ps fair q = true ↔ ps.length ≤ q := by
  have hperm := sortDesc_perm ps
  have hlen : (sortDesc ps).length = ps.length := hperm.length_eq
  have hsnd : (sortDesc ps).Nodup := hperm.nodup_iff.mpr hnd
  have hn : 0 < ps.length := List.length_pos_iff.mpr hps
  rw [c18_nonfatal_iff]
  constructor
  · intro h
    have hj : ps.length - 1 < (sortDesc ps).length := by omega
    have hmem : (sortDesc ps)[ps.length - 1] ∈ sortDesc ps := List.getElem_mem hj
    have h1 := h (sortDesc ps) (sortDesc_ne_nil ps hps) (List.Sublist.refl _) _ hmem
    rw [C14.c14_fair_shape (sortDesc ps) q [] hsnd (ps.length - 1) hj, hlen] at h1
    have hml := Nat.mod_lt q hn
    have hnot : ¬ ps.length - 1 < q % ps.length := by omega
    rw [if_neg hnot] at h1
    have hg : Dist.get [] ((sortDesc ps)[ps.length - 1]) = 0 := rfl
    rw [hg] at h1
    have hq : 1 ≤ q / ps.length := by omega
    have := (Nat.le_div_iff_mul_le hn).1 hq
    omega
  · intro hq c hne hsub p hp
    have hcn : c.Nodup := hsub.nodup hsnd
    have hcl : c.length ≤ ps.length := by have := hsub.length_le; omega
    have hc0 : 0 < c.length := List.length_pos_iff.mpr hne
    obtain ⟨j, hj, rfl⟩ := List.mem_iff_getElem.1 hp
    rw [C14.c14_fair_shape c q [] hcn j hj]
    have hd : 1 ≤ q / c.length := (Nat.le_div_iff_mul_le hc0).2 (by omega)
    omega

/-- **C18 (PickUpMinNonFatalQuantity for Fair).** With distinct priorities the least non-fatal
    number of handlers is the number of priorities, when the search bound allows it — and the
    helper reports 0 ("none") exactly when it does not. -/
theorem c18_fair_pick_min (ps : List Nat) (max : Nat) (hnd : ps.Nodup) (hps : ps ≠ []) :
    pickUpMin (isNonFatal ps fair) max = if ps.length ≤ max then ps.length else 0 := by
  have hn : 0 < ps.length := List.length_pos_iff.mpr hps
  have hiff := fun q => c18_fair_nonfatal_iff ps q hnd hps
  rcases c18_pick_min (isNonFatal ps fair) max with ⟨h0, hall⟩ | ⟨h1, h2, h3, h4⟩
  · rw [h0]
    by_cases hle : ps.length ≤ max
    · have := hall ps.length hn hle
      rw [(hiff _).2 (Nat.le_refl _)] at this
      exact absurd this (by simp)
    · rw [if_neg hle]
  · have hge : ps.length ≤ pickUpMin (isNonFatal ps fair) max := (hiff _).1 h3
    rw [if_pos (by omega)]
    by_cases hlt : ps.length < pickUpMin (isNonFatal ps fair) max
    · have := h4 ps.length hn hlt
      rw [(hiff _).2 (Nat.le_refl _)] at this
      exact absurd this (by simp)
    · omega

/-- **C18 (PickUpMaxNonFatalQuantity for Fair).** Every quantity from the number of priorities
    upwards is non-fatal for Fair, so the greatest one within the bound is the bound itself. -/
theorem c18_fair_pick_max (ps : List Nat) (max : Nat) (hnd : ps.Nodup) (hps : ps ≠ []) :
    pickUpMax (isNonFatal ps fair) max = if ps.length ≤ max then max else 0 := by
  have hn : 0 < ps.length := List.length_pos_iff.mpr hps
  have hiff := fun q => c18_fair_nonfatal_iff ps q hnd hps
  rcases c18_pick_max (isNonFatal ps fair) max with ⟨h0, hall⟩ | ⟨h1, h2, h3, h4⟩
  · rw [h0]
    by_cases hle : ps.length ≤ max
    · have := hall max (by omega) (Nat.le_refl _)
      rw [(hiff _).2 hle] at this
      exact absurd this (by simp)
    · rw [if_neg hle]
  · have hge : ps.length ≤ pickUpMax (isNonFatal ps fair) max := (hiff _).1 h3
    rw [if_pos (by omega)]
    by_cases hlt : pickUpMax (isNonFatal ps fair) max < max
    · have := h4 max hlt (Nat.le_refl _)
      rw [(hiff _).2 (by omega)] at this
      exact absurd this (by simp)
    · omega

/-! Non-vacuity. -/
example : genCombinations [3, 2, 1] [] = [[3], [3, 2], [2], [3, 1], [3, 2, 1], [2, 1], [1]] := by decide
example : isNonFatal [1, 3, 2] fair 3 = true ∧ isNonFatal [1, 3, 2] fair 2 = false := by decide
example : pickUpMin (isNonFatal [1, 3, 2] fair) 10 = 3 := by decide
example : isNonFatal [1, 3, 2] fair 3 = true := (c18_fair_nonfatal_iff [1, 3, 2] 3 (by decide) (by decide)).2 (by decide)

end Cqos.C18
