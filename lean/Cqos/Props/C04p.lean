import Cqos.Props.C04r
/-
  C04, window clause at the RECEIVING side — what does hold.  `Props/C04r.lean` shows that the
  clause fails for a consumer that pauses (finding F2: the output buffer is handed over at
  once).  Here the same composition (limit machine + FIFO output buffer of any capacity +
  consumer) is given the hypothesis that makes the clause true: a consumer that is never more
  than `δ` behind — it receives every element within `δ` of the completion of its send.  Then
  any window of length `W` of RECEIVE times contains at most `Quantity·(⌊(W+δ)/Interval⌋+2)`
  elements, for every run, every buffer capacity and every arrival pattern.  With `δ = 0` (a
  consumer that is always ready, or an unbuffered hand-over) this is the clause as stated.
-/
namespace Cqos.C04

theorem lrun_snoc (s : LSt) (acts : List LAct) (a : LAct) :
    lrun s (acts ++ [a]) = (lrun s acts).bind (fun u => lstep u a) := by
  induction acts generalizing s with
  | nil =>
    simp only [List.nil_append, lrun, Option.bind_some]
    cases lstep s a <;> rfl
  | cons b bs ih =>
    simp only [List.cons_append, lrun]
    cases lstep s b with
    | none => rfl
    | some s1 => exact ih s1

/-- every action other than the completion of a send leaves the log of sends alone -/
theorem lstep_sent_same {s s' : LSt} {a : LAct} (h : lstep s a = some s') (hne : ∀ t, a ≠ .sent t) :
    s'.sent = s.sent := by
  unfold lstep at h
  split at h
  · split at h
    · cases h; rfl
    · cases h
  · split at h
    · cases h; rfl
    · cases h
  · split at h
    · cases h; rfl
    · cases h
  · rename_i t _; exact absurd rfl (hne t)
  · split at h
    · cases h; rfl
    · cases h
  · split at h
    · cases h; rfl
    · cases h
  · cases h

theorem lstep_sent_append' {s s' : LSt} {a : LAct} {t : Nat} (h : lstep s a = some s') (ha : a = .sent t) :
    ∃ x, s'.sent = s.sent ++ [(x, t)] := by
  unfold lstep at h
  split at h
  · cases ha
  · cases ha
  · cases ha
  · cases ha
    split at h
    · cases h; exact ⟨_, rfl⟩
    · cases h
  · cases ha
  · cases ha
  · cases h

theorem lstep_sent_append {s s' : LSt} {t : Nat} (h : lstep s (.sent t) = some s') :
    ∃ x, s'.sent = s.sent ++ [(x, t)] := lstep_sent_append' h rfl

/-- the composed machine: its limit component is a run of the limit machine; the buffer holds
    exactly the elements sent and not yet received; an element is received after its send -/
structure BInv (cfg : LCfg) (t0 : Nat) (s : BSt) : Prop where
  reach : ∃ acts, lrun (linit cfg t0) acts = some s.lim
  len : s.got.length + s.buf.length = s.lim.sent.length
  after : ∀ i (h : i < s.got.length) (h' : i < s.lim.sent.length), (s.lim.sent[i]).2 ≤ (s.got[i]).2

theorem binv_init (cfg : LCfg) (cap t0 : Nat) : BInv cfg t0 (binit cfg cap t0) :=
  ⟨⟨[], rfl⟩, rfl, fun i h _ => by simp [binit] at h⟩

theorem binv_step (cfg : LCfg) (t0 : Nat) (s s' : BSt) (a : BAct) (h : BInv cfg t0 s)
    (hs : bstep s a = some s') : BInv cfg t0 s' := by
  obtain ⟨⟨acts, hacts⟩, hlen, haft⟩ := h
  have reach' : ∀ (la : LAct) (l : LSt), lstep s.lim la = some l → ∃ acts', lrun (linit cfg t0) acts' = some l :=
    fun la l hl => ⟨acts ++ [la], by rw [lrun_snoc, hacts]; exact hl⟩
  cases a with
  | take t =>
    simp only [bstep] at hs
    split at hs
    · cases hs
    · rename_i x r hbuf
      split at hs
      · rename_i hnow
        cases hs
        refine ⟨⟨acts, hacts⟩, ?_, ?_⟩
        · show (s.got ++ [(x, t)]).length + r.length = s.lim.sent.length
          simp only [List.length_append, List.length_cons, List.length_nil]
          rw [hbuf] at hlen; simp only [List.length_cons] at hlen; omega
        · intro i hi hi'
          have hi2 : i < (s.got ++ [(x, t)]).length := hi
          have hi3 : i < s.lim.sent.length := hi'
          show (s.lim.sent[i]).2 ≤ ((s.got ++ [(x, t)])[i]).2
          simp only [List.length_append, List.length_cons, List.length_nil] at hi2
          by_cases hlt : i < s.got.length
          · rw [List.getElem_append_left hlt]; exact haft i hlt hi3
          · have hie : i = s.got.length := by omega
            subst hie
            rw [List.getElem_append_right (Nat.le_refl _)]
            simp only [Nat.sub_self, List.getElem_cons_zero]
            have := (c04_sent_sorted cfg t0 acts s.lim hacts).2 _ (List.getElem_mem hi3)
            omega
      · cases hs
  | lim la =>
    cases la with
    | sent t =>
      simp only [bstep] at hs
      split at hs
      · split at hs
        · rename_i k st x hpc
          cases hl : lstep s.lim (.sent t) with
          | none => rw [hl] at hs; cases hs
          | some l =>
            rw [hl] at hs
            cases hs
            obtain ⟨x', hx'⟩ := lstep_sent_append hl
            refine ⟨reach' _ l hl, ?_, ?_⟩
            · show s.got.length + (s.buf ++ [x]).length = l.sent.length
              rw [hx']; simp only [List.length_append, List.length_cons, List.length_nil]; omega
            · intro i hi hi'
              have hi2 : i < s.got.length := hi
              show (l.sent[i]).2 ≤ (s.got[i]).2
              have hlt : i < s.lim.sent.length := by omega
              have : l.sent[i] = s.lim.sent[i] := by
                simp only [hx']; exact List.getElem_append_left hlt
              rw [this]; exact haft i hi2 hlt
        · cases hs
      · cases hs
    | start t =>
      simp only [bstep] at hs
      cases hl : lstep s.lim (.start t) with
      | none => rw [hl] at hs; cases hs
      | some l =>
        rw [hl] at hs; cases hs
        have hsame := lstep_sent_same hl (fun t => by simp)
        exact ⟨reach' _ l hl, by show s.got.length + s.buf.length = l.sent.length; rw [hsame]; exact hlen,
          fun i hi hi' => by
            show (l.sent[i]).2 ≤ (s.got[i]).2
            have hi'' : i < s.lim.sent.length := by rw [← hsame]; exact hi'
            have : l.sent[i] = s.lim.sent[i] := by simp only [hsame]
            rw [this]; exact haft i hi hi''⟩
    | recv x =>
      simp only [bstep] at hs
      cases hl : lstep s.lim (.recv x) with
      | none => rw [hl] at hs; cases hs
      | some l =>
        rw [hl] at hs; cases hs
        have hsame := lstep_sent_same hl (fun t => by simp)
        exact ⟨reach' _ l hl, by show s.got.length + s.buf.length = l.sent.length; rw [hsame]; exact hlen,
          fun i hi hi' => by
            show (l.sent[i]).2 ≤ (s.got[i]).2
            have hi'' : i < s.lim.sent.length := by rw [← hsame]; exact hi'
            have : l.sent[i] = s.lim.sent[i] := by simp only [hsame]
            rw [this]; exact haft i hi hi''⟩
    | closed =>
      simp only [bstep] at hs
      cases hl : lstep s.lim .closed with
      | none => rw [hl] at hs; cases hs
      | some l =>
        rw [hl] at hs; cases hs
        have hsame := lstep_sent_same hl (fun t => by simp)
        exact ⟨reach' _ l hl, by show s.got.length + s.buf.length = l.sent.length; rw [hsame]; exact hlen,
          fun i hi hi' => by
            show (l.sent[i]).2 ≤ (s.got[i]).2
            have hi'' : i < s.lim.sent.length := by rw [← hsame]; exact hi'
            have : l.sent[i] = s.lim.sent[i] := by simp only [hsame]
            rw [this]; exact haft i hi hi''⟩
    | batchEnd t =>
      simp only [bstep] at hs
      cases hl : lstep s.lim (.batchEnd t) with
      | none => rw [hl] at hs; cases hs
      | some l =>
        rw [hl] at hs; cases hs
        have hsame := lstep_sent_same hl (fun t => by simp)
        exact ⟨reach' _ l hl, by show s.got.length + s.buf.length = l.sent.length; rw [hsame]; exact hlen,
          fun i hi hi' => by
            show (l.sent[i]).2 ≤ (s.got[i]).2
            have hi'' : i < s.lim.sent.length := by rw [← hsame]; exact hi'
            have : l.sent[i] = s.lim.sent[i] := by simp only [hsame]
            rw [this]; exact haft i hi hi''⟩
    | wake t =>
      simp only [bstep] at hs
      cases hl : lstep s.lim (.wake t) with
      | none => rw [hl] at hs; cases hs
      | some l =>
        rw [hl] at hs; cases hs
        have hsame := lstep_sent_same hl (fun t => by simp)
        exact ⟨reach' _ l hl, by show s.got.length + s.buf.length = l.sent.length; rw [hsame]; exact hlen,
          fun i hi hi' => by
            show (l.sent[i]).2 ≤ (s.got[i]).2
            have hi'' : i < s.lim.sent.length := by rw [← hsame]; exact hi'
            have : l.sent[i] = s.lim.sent[i] := by simp only [hsame]
            rw [this]; exact haft i hi hi''⟩

theorem binv_run (cfg : LCfg) (t0 : Nat) (acts : List BAct) (s s' : BSt) (h : BInv cfg t0 s)
    (hr : brun s acts = some s') : BInv cfg t0 s' := by
  induction acts generalizing s with
  | nil => simp [brun] at hr; subst hr; exact h
  | cons a as ih =>
    simp only [brun] at hr
    split at hr
    · rename_i s1 hs1; exact ih s1 (binv_step cfg t0 s s1 a h hs1) hr
    · cases hr

/-- a consumer that is never more than `δ` behind: every element it has received, it received
    within `δ` of the completion of its send -/
def PromptConsumer (s : BSt) (δ : Nat) : Prop :=
  ∀ i (h : i < s.got.length) (h' : i < s.lim.sent.length), (s.got[i]).2 ≤ (s.lim.sent[i]).2 + δ

/-- **C04 (window, at the receiving side, for a consumer at most `δ` behind).** For every run of
    the limit discipline composed with its output buffer (any capacity) and a consumer, every
    `a` and every `W`: if the consumer received every element within `δ` of its send, the number
    of elements RECEIVED at a clock reading in `[a, a + W]` is at most
    `Quantity·(⌊(W + δ)/Interval⌋ + 2)`. -/
theorem c04_receive_window_prompt (cfg : LCfg) (cap t0 : Nat) (hq : 0 < cfg.quantity) (hI : 0 < cfg.interval)
    (acts : List BAct) (s : BSt) (hr : brun (binit cfg cap t0) acts = some s) (δ : Nat)
    (hp : PromptConsumer s δ) (a W : Nat) :
    (s.got.filter (fun e => decide (a ≤ e.2 ∧ e.2 ≤ a + W))).length ≤ cfg.quantity * ((W + δ) / cfg.interval + 2) := by
  obtain ⟨⟨lacts, hl⟩, hlen, haft⟩ := binv_run cfg t0 acts _ s (binv_init cfg cap t0) hr
  apply filter_length_le_of_span
  intro i j hi hj hij hpi hpj
  simp only [decide_eq_true_eq] at hpi hpj
  have hj' : j < s.lim.sent.length := by omega
  have hi' : i < s.lim.sent.length := by omega
  have h1 := haft j hj hj'
  have h2 := hp i hi hi'
  exact c04_window cfg t0 hq hI lacts s.lim hl i j hij hj' (W + δ) (by omega)

/-- the hypothesis is satisfiable and the bound is tight in the run of `c04_receive_side_window_fails`
    cut before the consumer went away: three elements received as they were sent (δ = 0) -/
example :
    (brun (binit ⟨1, 10⟩ 3 0)
      ([.lim (.start 0), .lim (.recv 1), .lim (.sent 0), .take 0, .lim (.batchEnd 0), .lim (.wake 10),
        .lim (.start 10), .lim (.recv 2), .lim (.sent 10), .take 10])).map
      (fun s => (s.got.map (·.2), s.lim.sent.map (·.2))) = some ([0, 10], [0, 10]) := by decide

end Cqos.C04
