import Cqos.Rate
/-
  Property C13 — Rate conversion returns a valid, equivalent, minimal rate or an error.

  `LRate.recalculate` is the model of `Rate.Recalculate` (tied to the Go code by the
  correspondence check of C13: exhaustive small scope, boundary family `I = Q·min + r`,
  64-bit edges, random).  All theorems quantify over unbounded `Int`/`Nat`, hence in
  particular over the full int64/uint64 ranges; the only range test the Go code performs
  (`IsUint64`) is part of the model.
-/
namespace Cqos.C13
open LRate

/-- valid rate: positive interval, positive quantity -/
theorem isValid_none_iff (r : LRate) : r.isValid = none ↔ 0 < r.interval ∧ 0 < r.quantity := by
  unfold isValid
  by_cases h1 : r.interval < 0
  · simp [h1]; omega
  · by_cases h2 : r.interval = 0
    · simp [h2]
    · by_cases h3 : r.quantity = 0
      · simp [h1, h2, h3]
      · simp [h1, h2, h3]; omega

/-- shape of a successful result: one of the two branches -/
theorem ok_cases (r : LRate) (m : Int) (r' : LRate) (h : recalculate r m = .ok r') :
    0 < r.interval ∧ 0 < r.quantity ∧ 0 ≤ m ∧
    ( (r' = ⟨((r.interval.toNat / r.quantity : Nat) : Int), 1⟩ ∧
        (m < ((r.interval.toNat / r.quantity : Nat) : Int) ∨
         (0 < r.interval.toNat / r.quantity ∧ ((r.interval.toNat / r.quantity : Nat) : Int) = m)))
    ∨ (r' = ⟨m, r.quantity * m.toNat / r.interval.toNat⟩ ∧ 0 < m ∧
        ((r.interval.toNat / r.quantity : Nat) : Int) ≤ m ∧
        ¬ (0 < r.interval.toNat / r.quantity ∧ ((r.interval.toNat / r.quantity : Nat) : Int) = m) ∧
        r.quantity * m.toNat / r.interval.toNat < 2 ^ 64) ) := by
  unfold recalculate at h
  cases hv : r.isValid with
  | some e => simp [hv] at h
  | none =>
    have hpos := (isValid_none_iff r).1 hv
    simp only [hv] at h
    by_cases hm : m < 0
    · simp [hm] at h
    · simp only [hm, if_false] at h
      refine ⟨hpos.1, hpos.2, by omega, ?_⟩
      by_cases hb : ((r.interval.toNat / r.quantity : Nat) : Int) > m ∨
          (((r.interval.toNat / r.quantity : Nat) : Int) ≠ 0 ∧
            ((r.interval.toNat / r.quantity : Nat) : Int) = m)
      · simp only [hb, if_true] at h
        left
        refine ⟨by cases h; rfl, ?_⟩
        rcases hb with hb | hb
        · left; omega
        · right; omega
      · simp only [hb, if_false] at h
        by_cases hm0 : m = 0
        · simp [hm0] at h
        · simp only [hm0, if_false] at h
          unfold recalcQuantity at h
          by_cases hq : r.quantity * m.toNat / r.interval.toNat < 2 ^ 64
          · simp only [hq, if_true] at h
            right
            refine ⟨by cases h; rfl, by omega, by omega, ?_, hq⟩
            intro hc; apply hb; right; omega
          · simp [hq] at h

/-- **C13 (validity, minimum, minimality).**  A returned rate is valid, its interval is
    at least the minimum, and its quantity is 1 unless its interval equals the minimum. -/
theorem c13_valid (r : LRate) (m : Int) (r' : LRate) (h : recalculate r m = .ok r') :
    r'.isValid = none ∧ m ≤ r'.interval ∧ (r'.quantity = 1 ∨ r'.interval = m) := by
  obtain ⟨hI, hQ, hm, hc⟩ := ok_cases r m r' h
  rcases hc with ⟨rfl, hb⟩ | ⟨rfl, hmpos, hle, hne, _⟩
  · refine ⟨(isValid_none_iff _).2 ⟨?_, by simp⟩, ?_, Or.inl rfl⟩
    · simp only; rcases hb with hb | hb <;> omega
    · simp only; rcases hb with hb | hb <;> omega
  · refine ⟨(isValid_none_iff _).2 ⟨hmpos, ?_⟩, by simp, Or.inr rfl⟩
    -- quantity ≥ 1: floor(I/Q) ≤ m and not (floor(I/Q) = m > 0)  ⇒  I ≤ Q·m
    simp only
    have hI' : 0 < r.interval.toNat := by omega
    have hdm := Nat.div_add_mod r.interval.toNat r.quantity
    have hml := Nat.mod_lt r.interval.toNat hQ
    have hmn : (m.toNat : Int) = m := by omega
    apply Nat.div_pos _ hI'
    -- I ≤ Q * m
    have hk : r.interval.toNat / r.quantity < m.toNat ∨ r.interval.toNat / r.quantity = 0 := by
      by_cases hz : r.interval.toNat / r.quantity = 0
      · right; exact hz
      · left
        have : ¬ (((r.interval.toNat / r.quantity : Nat) : Int) = m) := by
          intro hc; exact hne ⟨by omega, hc⟩
        omega
    rcases hk with hk | hk
    · -- I = Q*k + rem < Q*k + Q = Q*(k+1) ≤ Q*m
      have h1 : r.quantity * (r.interval.toNat / r.quantity + 1) ≤ r.quantity * m.toNat :=
        Nat.mul_le_mul_left _ hk
      rw [Nat.mul_add, Nat.mul_one] at h1
      omega
    · -- k = 0: I = rem < Q ≤ Q*m
      rw [hk, Nat.mul_zero] at hdm
      have h1 : r.quantity * 1 ≤ r.quantity * m.toNat := Nat.mul_le_mul_left _ (by omega)
      omega

/-- **C13 (equivalence within rounding).**  The new speed `Q'/I'` is faster than the
    original `Q/I` by less than one nanosecond of its interval
    (`Q'/(I'+1) < Q/I`) and slower by less than one element per interval
    (`(Q'+1)/I' > Q/I`); stated after cross-multiplication, over `Int`. -/
theorem c13_equiv (r : LRate) (m : Int) (r' : LRate) (h : recalculate r m = .ok r') :
    (r'.quantity : Int) * r.interval < (r.quantity : Int) * (r'.interval + 1) ∧
    (r.quantity : Int) * r'.interval < ((r'.quantity : Int) + 1) * r.interval := by
  obtain ⟨hI, hQ, hm, hc⟩ := ok_cases r m r' h
  have hIn : (r.interval.toNat : Int) = r.interval := by omega
  have hdm := Nat.div_add_mod r.interval.toNat r.quantity
  have hml := Nat.mod_lt r.interval.toNat hQ
  rcases hc with ⟨rfl, _⟩ | ⟨rfl, hmpos, _, _, _⟩
  · -- Q' = 1, I' = floor(I/Q):   I < Q*(I'+1)   and   Q*I' < 2*I
    simp only
    have e : (r.quantity : Int) * ((r.interval.toNat / r.quantity : Nat) : Int)
        = ((r.quantity * (r.interval.toNat / r.quantity) : Nat) : Int) := by
      simp [Int.natCast_mul]
    constructor
    · rw [Int.mul_add, e]; omega
    · rw [e]; omega
  · -- I' = m, Q' = floor(Q*m/I):   Q'*I ≤ Q*m < Q*(m+1)   and   Q*m < (Q'+1)*I
    simp only
    have hmn : (m.toNat : Int) = m := by omega
    have hI' : 0 < r.interval.toNat := by omega
    have hdm2 := Nat.div_add_mod (r.quantity * m.toNat) r.interval.toNat
    have hml2 := Nat.mod_lt (r.quantity * m.toNat) hI'
    have e1 : ((r.quantity * m.toNat / r.interval.toNat : Nat) : Int) * r.interval
        = ((r.interval.toNat * (r.quantity * m.toNat / r.interval.toNat) : Nat) : Int) := by
      rw [Int.natCast_mul, hIn, Int.mul_comm]
    have e2 : (r.quantity : Int) * m = ((r.quantity * m.toNat : Nat) : Int) := by
      rw [Int.natCast_mul, hmn]
    constructor
    · rw [e1, Int.mul_add, e2]; omega
    · rw [Int.add_mul, e1, e2]; omega

/-- **C13 (errors only for the listed reasons — and exactly then).** -/
theorem c13_error_iff (r : LRate) (m : Int) :
    (∃ e, recalculate r m = .error e) ↔
      (r.isValid ≠ none ∨ m < 0 ∨
       (r.isValid = none ∧ m = 0 ∧ r.interval.toNat / r.quantity = 0) ∨
       (r.isValid = none ∧ 0 < m ∧ ((r.interval.toNat / r.quantity : Nat) : Int) ≤ m ∧
          ¬ (0 < r.interval.toNat / r.quantity ∧ ((r.interval.toNat / r.quantity : Nat) : Int) = m) ∧
          2 ^ 64 ≤ r.quantity * m.toNat / r.interval.toNat)) := by
  unfold recalculate
  cases hv : r.isValid with
  | some e => simp
  | none =>
    simp only [ne_eq, not_true_eq_false, false_or, true_and]
    by_cases hm : m < 0
    · simp [hm]
    · simp only [hm, if_false, false_or]
      by_cases hb : ((r.interval.toNat / r.quantity : Nat) : Int) > m ∨
          (((r.interval.toNat / r.quantity : Nat) : Int) ≠ 0 ∧
            ((r.interval.toNat / r.quantity : Nat) : Int) = m)
      · simp only [hb, if_true]
        constructor
        · rintro ⟨e, he⟩; cases he
        · rintro (⟨h0, hz⟩ | ⟨hp, hle, hne, _⟩)
          · rcases hb with hb | hb <;> omega
          · rcases hb with hb | hb
            · omega
            · exact absurd ⟨by omega, hb.2⟩ hne
      · simp only [hb, if_false]
        by_cases hm0 : m = 0
        · simp only [hm0, if_true]
          constructor
          · intro _; left; refine ⟨trivial, ?_⟩; subst hm0
            generalize r.interval.toNat / r.quantity = k at hb
            omega
          · intro _; exact ⟨_, rfl⟩
        · simp only [hm0, if_false, false_and, false_or]
          unfold recalcQuantity
          by_cases hq : r.quantity * m.toNat / r.interval.toNat < 2 ^ 64
          · simp only [hq, if_true]
            constructor
            · rintro ⟨e, he⟩; cases he
            · rintro ⟨_, _, _, h4⟩; omega
          · simp only [hq, if_false]
            constructor
            · intro _
              refine ⟨by omega, by omega, ?_, by omega⟩
              intro hc; apply hb; right; omega
            · intro _; exact ⟨_, rfl⟩

/-- **C13 (stability).**  A rate returned by `Recalculate` is a fixed point of `Recalculate`
    with the same minimum: converting an already converted rate changes nothing (so `Optimize`
    after `Optimize`, or `Flatten` after `Flatten`, returns its argument). -/
theorem c13_idempotent (r : LRate) (m : Int) (r' : LRate) (h : recalculate r m = .ok r') :
    recalculate r' m = .ok r' := by
  obtain ⟨hI, hQ, hm, hc⟩ := ok_cases r m r' h
  rcases hc with ⟨rfl, hb⟩ | ⟨rfl, hmpos, _, _, hlt⟩
  · -- r' = ⟨k, 1⟩ with k > m or 0 < k = m: the first branch again
    generalize hk : r.interval.toNat / r.quantity = k at hb
    have hkpos : 0 < k := by rcases hb with hb | hb <;> omega
    have hv : (⟨(k : Int), 1⟩ : LRate).isValid = none :=
      (isValid_none_iff _).2 ⟨by simp only; omega, by simp⟩
    unfold recalculate
    rw [hv]
    simp only
    rw [if_neg (by omega)]
    have e : ((k : Int).toNat / 1 : Nat) = k := by simp
    rw [e]
    rw [if_pos (by rcases hb with hb | hb <;> omega)]
  · -- r' = ⟨m, q⟩, q = ⌊Q·m/I⌋ < 2^64
    generalize hq : r.quantity * m.toNat / r.interval.toNat = q at hlt
    have hqpos : 0 < q := by
      have hv := (c13_valid r m _ h).1
      rw [hq] at hv
      exact ((isValid_none_iff _).1 hv).2
    have hv : (⟨m, q⟩ : LRate).isValid = none := (isValid_none_iff _).2 ⟨hmpos, hqpos⟩
    have hmn : 0 < m.toNat := by omega
    have hmi : (m.toNat : Int) = m := by omega
    unfold recalculate
    rw [hv]
    simp only
    rw [if_neg (by omega)]
    by_cases hq1 : q = 1
    · subst hq1
      have e : (m.toNat / 1 : Nat) = m.toNat := by simp
      rw [e, if_pos (by omega), hmi]
    · have hdl : m.toNat / q < m.toNat := Nat.div_lt_self hmn (by omega)
      rw [if_neg (by omega), if_neg (by omega)]
      have e : q * m.toNat / m.toNat = q := Nat.mul_div_cancel q hmn
      simp only [recalcQuantity, e, hlt, if_true]

/-- `Optimize` and `Flatten` are `Recalculate` at the fixed minimums, so the three
    theorems above apply to them verbatim. -/
theorem c13_optimize_flatten (r : LRate) :
    optimize r = recalculate r 10000000 ∧ flatten r = recalculate r 0 := ⟨rfl, rfl⟩

/-- **C13 (Flatten).**  A successful `Flatten` always returns a one-element rate: the
    "Quantity 1 unless Interval equals the minimum" clause with minimum 0, where a valid result
    cannot have Interval 0. -/
theorem c13_flatten_one (r r' : LRate) (h : flatten r = .ok r') :
    r'.quantity = 1 ∧ 0 < r'.interval := by
  obtain ⟨hv, _, hq⟩ := c13_valid r 0 r' h
  have hpos := ((isValid_none_iff _).1 hv).1
  refine ⟨?_, hpos⟩
  rcases hq with hq | hq
  · exact hq
  · omega

/-- Defect D1, kept as a decided fact about the UNREPAIRED function: it returned a rate
    with quantity 0 and no error. -/
theorem c13_unfixed_counterexample :
    recalculateUnfixed ⟨20000001, 2⟩ 10000000 = .ok ⟨10000000, 0⟩ := by rfl

/-- the repaired function on the same input -/
example : recalculate ⟨20000001, 2⟩ 10000000 = .ok ⟨10000000, 1⟩ := by rfl

/-! Non-vacuity: both branches and the error cases are inhabited. -/
example : recalculate ⟨1000000000, 100⟩ 10000000 = .ok ⟨10000000, 1⟩ := by rfl
example : recalculate ⟨1000000000, 1000⟩ 10000000 = .ok ⟨10000000, 10⟩ := by rfl
example : recalculate ⟨10000000, 10⟩ 10000000 = .ok ⟨10000000, 10⟩ := by rfl  -- fixed point (c13_idempotent)
example : recalculate ⟨3, 7⟩ 0 = .error .convertedIntervalZero := by rfl
example : recalculate ⟨1, 2 ^ 64 - 1⟩ 2 = .error .quantityUnrepresentable := by rfl

end Cqos.C13
