import Cqos.Simple
import Cqos.Props.C01
import Cqos.Lemmas.StepCases
import Cqos.Props.C07
/-
  Property C01 for the simplified disciplines: the number of concurrently running `Handle`
  calls never exceeds HandlersQuantity — for every action list of the layered machine
  (Cqos/Simple.lean), every divider, both module versions.
-/
namespace Cqos.C01

/-- every step of the inner machine other than a release changes the in-flight total and the
    number of deliveries by the same amount -/
theorem step_delivered_inflight (div : DivFn) (s s' : St) (a : Act) (hnr : isRelease a = false)
    (hs : step div s a = some s') :
    s'.inflight.total + s.delivered.length = s.inflight.total + s'.delivered.length ∧
    s.delivered.length ≤ s'.delivered.length ∧ s'.delivered.take s.delivered.length = s.delivered := by
  have same : ∀ u : St, u.inflight = s.inflight → u.delivered = s.delivered →
      u.inflight.total + s.delivered.length = s.inflight.total + u.delivered.length ∧
      s.delivered.length ≤ u.delivered.length ∧ u.delivered.take s.delivered.length = s.delivered :=
    fun u h1 h2 => by rw [h1, h2]; simp
  have hd : ∀ (t : St) (p : Nat), (decActual t p).inflight = t.inflight ∧ (decActual t p).delivered = t.delivered := by
    intro t p; unfold decActual; split <;> exact ⟨rfl, rfl⟩
  cases a with
  | release p => simp [isRelease] at hnr
  | arrive c x => obtain ⟨_, _, _, rfl⟩ := step_arrive hs; exact same _ rfl rfl
  | close c => obtain ⟨_, _, rfl⟩ := step_close hs; exact same _ rfl rfl
  | stop => obtain ⟨_, rfl⟩ := step_stop hs; exact same _ rfl rfl
  | graceful => obtain ⟨_, rfl⟩ := step_graceful hs; exact same _ rfl rfl
  | top c =>
    obtain ⟨_, hst, _⟩ := step_top hs
    cases c with
    | stop => simp only [stepTop] at hst; split at hst <;> cases hst; exact same _ rfl rfl
    | add p c b => simp only [stepTop, Option.some.injEq] at hst; subst hst; exact same _ rfl rfl
    | remove p => simp only [stepTop, Option.some.injEq] at hst; subst hst; exact same _ rfl rfl
    | none => simp only [stepTop, Option.some.injEq] at hst; subst hst; exact same _ rfl rfl
    | feedback p =>
      simp only [stepTop] at hst
      obtain ⟨b1, b2⟩ := hd { s with pending := s.pending.erase p } p
      split at hst
      · split at hst <;> cases hst
        · exact same _ b1 b2
        · exact same _ (by simp [afterTop, b1]) (by simp [afterTop, b2])
      · cases hst
  | «calc» =>
    obtain ⟨_, rfl⟩ := step_calc hs
    have : (stepCalc div s).inflight = s.inflight ∧ (stepCalc div s).delivered = s.delivered := by
      simp only [stepCalc]; split
      · split <;> exact ⟨rfl, rfl⟩
      · split <;> exact ⟨rfl, rfl⟩
    exact same _ this.1 this.2
  | recalc =>
    obtain ⟨_, rfl⟩ := step_recalc hs
    have : (stepRecalc div s).inflight = s.inflight ∧ (stepRecalc div s).delivered = s.delivered := by
      simp only [stepRecalc]; split <;> exact ⟨rfl, rfl⟩
    exact same _ this.1 this.2
  | endRound =>
    obtain ⟨ph, _, _, hc⟩ := step_endRound hs
    rcases hc with ⟨_, _, _, rfl⟩ | ⟨_, rfl⟩ <;> exact same _ rfl rfl
  | limitedStop => obtain ⟨k, _, rfl⟩ := step_limitedStop hs; exact same _ rfl rfl
  | exit => obtain ⟨e, _, _, rfl⟩ := step_exit hs; exact same _ rfl rfl
  | stopSeen =>
    obtain ⟨_, _, hc⟩ := step_stopSeen hs
    rcases hc with ⟨_, rfl⟩ | ⟨ph, p, rest, _, rfl⟩ | ⟨k, _, rfl⟩ | ⟨e, _, rfl⟩
    · unfold afterWaitFb; split <;> exact same _ rfl rfl
    · exact same _ rfl rfl
    · exact same _ rfl rfl
    · exact same _ rfl rfl
  | consume p =>
    obtain ⟨_, hc⟩ := step_consume hs
    obtain ⟨b1, b2⟩ := hd { s with pending := s.pending.erase p } p
    rcases hc with ⟨_, rfl⟩ | ⟨k, _, _, rfl⟩ | ⟨e, _, _, rfl⟩
    · split
      · exact same _ b1 b2
      · unfold afterWaitFb; split <;> exact same _ b1 b2
    · split <;> exact same _ b1 b2
    · exact same _ b1 b2
  | skip =>
    obtain ⟨ph, p, rest, _, hp⟩ := step_poll_pc (Or.inr (Or.inr (Or.inr (Or.inr rfl)))) hs
    obtain ⟨rfl, _⟩ := stepPoll_skip hp; exact same _ rfl rfl
  | pollEmpty =>
    obtain ⟨ph, p, rest, _, hp⟩ := step_poll_pc (Or.inr (Or.inr (Or.inr (Or.inl rfl)))) hs
    have := stepPoll_empty hp; subst this; exact same _ rfl rfl
  | pollClosed =>
    obtain ⟨ph, p, rest, _, hp⟩ := step_poll_pc (Or.inr (Or.inr (Or.inl rfl))) hs
    obtain ⟨_, _, _, _, _, _, rfl⟩ := stepPoll_closed hp; exact same _ rfl rfl
  | pollDrop =>
    obtain ⟨ph, p, rest, _, hp⟩ := step_poll_pc (Or.inr (Or.inl rfl)) hs
    obtain ⟨_, _, _, _, _, _, _, _, _, rfl⟩ := stepPoll_drop hp; exact same _ rfl rfl
  | pollItem =>
    obtain ⟨ph, p, rest, _, hp⟩ := step_poll_pc (Or.inl rfl) hs
    obtain ⟨inp, ch, x, q, _, _, _, _, _, rfl⟩ := stepPoll_item hp
    refine ⟨?_, by simp, by simp⟩
    simp only [Dist.total_add, List.length_append, List.length_cons, List.length_nil]
    omega

/-- what the handlers hold accounts for everything in flight -/
structure SInv (base : Nat) (s : SimpleSt) : Prop where
  picked_le : s.picked ≤ s.inner.delivered.length
  account : s.inner.inflight.total = (s.inner.delivered.length - s.picked) + s.handling.length
  /-- `Handle` was called exactly for the delivered items picked up so far, once each, in order
      (`base` = what had been delivered before the handlers started) -/
  handledOK : base ≤ s.picked ∧ s.handled = (s.inner.delivered.take s.picked).drop base

theorem sstep_inv (div : DivFn) (base : Nat) (s s' : SimpleSt) (a : SAct) (h : SInv base s) (hs : sstep div s a = some s') : SInv base s' := by
  cases a with
  | inner a =>
    simp only [sstep] at hs
    split at hs
    · cases hs
    · rename_i hnr
      cases hi : step div s.inner a with
      | none => simp [hi] at hs
      | some i =>
        simp only [hi, Option.map_some, Option.some.injEq] at hs
        subst hs
        obtain ⟨h1, h2, h3⟩ := step_delivered_inflight div s.inner i a (by simpa using hnr) hi
        refine ⟨by have := h.picked_le; show s.picked ≤ i.delivered.length; omega,
          by have := h.account; have := h.picked_le; show i.inflight.total = (i.delivered.length - s.picked) + s.handling.length; omega, ?_⟩
        obtain ⟨hb, hh⟩ := h.handledOK
        refine ⟨hb, ?_⟩
        show s.handled = (i.delivered.take s.picked).drop base
        have hpk := h.picked_le
        have : i.delivered.take s.picked = s.inner.delivered.take s.picked := by
          rw [← h3, List.take_take, Nat.min_eq_left hpk]
        rw [this]; exact hh
  | take =>
    simp only [sstep] at hs
    split at hs
    · rename_i d hd
      cases hs
      have hlt : s.picked < s.inner.delivered.length := (List.getElem?_eq_some_iff.mp hd).1
      refine ⟨by show s.picked + 1 ≤ s.inner.delivered.length; omega,
        by have := h.account; show s.inner.inflight.total = (s.inner.delivered.length - (s.picked + 1)) + (d.1 :: s.handling).length
           simp only [List.length_cons]; omega, ?_⟩
      obtain ⟨hb, hh⟩ := h.handledOK
      refine ⟨by show base ≤ s.picked + 1; omega, ?_⟩
      show s.handled ++ [d] = (s.inner.delivered.take (s.picked + 1)).drop base
      have hd' : s.inner.delivered[s.picked] = d := (List.getElem?_eq_some_iff.mp hd).2
      rw [List.take_succ_eq_append_getElem hlt, hd', List.drop_append_of_le_length (by simp [List.length_take]; omega), hh]
    · cases hs
  | finish p =>
    simp only [sstep] at hs
    split at hs
    · rename_i hmem
      cases hi : step div s.inner (.release p) with
      | none => simp [hi] at hs
      | some i =>
        simp only [hi, Option.map_some, Option.some.injEq] at hs
        subst hs
        obtain ⟨hne, rfl⟩ := step_release hi
        have ht := Dist.total_set s.inner.inflight p (s.inner.inflight.get p - 1)
        have hl := List.length_erase_of_mem hmem
        have hpos : 0 < s.handling.length := List.length_pos_of_mem hmem
        exact ⟨h.picked_le, by
          have := h.account
          show (s.inner.inflight.set p (s.inner.inflight.get p - 1)).total = (s.inner.delivered.length - s.picked) + (s.handling.erase p).length
          rw [hl]; omega, h.handledOK⟩
    · cases hs

/-- **C01 (simplified disciplines).** For every run of the layered machine — any divider, any
    arrivals, any speed of the handlers, v1 or v2 — the number of `Handle` calls running at the
    same time is at most HandlersQuantity. -/
theorem c01_simple_handlers (div : DivFn) (s0 : St) (h0 : Fresh s0) (acts : List SAct) (s : SimpleSt)
    (hr : srun div (sinit s0) acts = some s) : s.handling.length ≤ s0.cfg.H := by
  suffices H : ∀ (acts : List SAct) (u s : SimpleSt), SInv s0.delivered.length u → Inv u.inner → u.inner.cfg = s0.cfg →
      srun div u acts = some s → s.handling.length ≤ s0.cfg.H from
    H acts (sinit s0) s ⟨by simp [sinit], by
        have hf : s0.inflight = [] := h0.2.1
        show s0.inflight.total = (s0.delivered.length - s0.delivered.length) + 0
        rw [hf]; simp [Dist.total], ⟨Nat.le_refl _, by simp [sinit]⟩⟩ (fresh_inv h0) rfl hr
  intro acts
  induction acts with
  | nil =>
    intro u s hi hinv hc hr
    simp [srun] at hr; subst hr
    have h1 := inflight_le_actual hinv
    have h2 := capOk_weaken hinv.cap
    have := hi.account
    rw [hc] at h2; omega
  | cons a as ih =>
    intro u s hi hinv hc hr
    simp only [srun] at hr
    split at hr
    · rename_i u1 hu1
      have hi1 := sstep_inv div _ u u1 a hi hu1
      -- the inner machine made one step (or none): its invariant and configuration persist
      have hinner : Inv u1.inner ∧ u1.inner.cfg = u.inner.cfg := by
        cases a with
        | inner a =>
          simp only [sstep] at hu1
          split at hu1
          · cases hu1
          · cases hs : step div u.inner a with
            | none => simp [hs] at hu1
            | some i =>
              simp only [hs, Option.map_some, Option.some.injEq] at hu1; subst hu1
              exact step_inv div u.inner i a hinv hs
        | take =>
          simp only [sstep] at hu1
          split at hu1
          · cases hu1; exact ⟨hinv, rfl⟩
          · cases hu1
        | finish p =>
          simp only [sstep] at hu1
          split at hu1
          · cases hs : step div u.inner (.release p) with
            | none => simp [hs] at hu1
            | some i =>
              simp only [hs, Option.map_some, Option.some.injEq] at hu1; subst hu1
              exact step_inv div u.inner i _ hinv hs
          · cases hu1
      exact ih u1 s hi1 hinner.1 (by rw [hinner.2, hc]) hr
    · cases hr


/-- the inner machine's part of a layered run is a run of the inner machine -/
def innerActs : List SAct → List Act
  | [] => []
  | .inner a :: r => a :: innerActs r
  | .take :: r => innerActs r
  | .finish p :: r => .release p :: innerActs r

theorem srun_run (div : DivFn) (acts : List SAct) (u s : SimpleSt) (hr : srun div u acts = some s) :
    run div u.inner (innerActs acts) = some s.inner := by
  induction acts generalizing u with
  | nil => simp [srun] at hr; subst hr; rfl
  | cons a as ih =>
    simp only [srun] at hr
    split at hr
    · rename_i u1 hu1
      have := ih u1 hr
      cases a with
      | inner a =>
        simp only [sstep] at hu1
        split at hu1
        · cases hu1
        · cases hs : step div u.inner a with
          | none => simp [hs] at hu1
          | some i =>
            simp only [hs, Option.map_some, Option.some.injEq] at hu1; subst hu1
            simpa [innerActs, run, hs] using this
      | take =>
        simp only [sstep] at hu1
        split at hu1
        · cases hu1; simpa [innerActs] using this
        · cases hu1
      | finish p =>
        simp only [sstep] at hu1
        split at hu1
        · cases hs : step div u.inner (.release p) with
          | none => simp [hs] at hu1
          | some i =>
            simp only [hs, Option.map_some, Option.some.injEq] at hu1; subst hu1
            simpa [innerActs, run, hs] using this
        · cases hu1
    · cases hr

theorem srun_sinv (div : DivFn) (base : Nat) (acts : List SAct) (u s : SimpleSt) (h : SInv base u) (hr : srun div u acts = some s) : SInv base s := by
  induction acts generalizing u with
  | nil => simp [srun] at hr; subst hr; exact h
  | cons a as ih =>
    simp only [srun] at hr
    split at hr
    · rename_i u1 hu1; exact ih u1 (sstep_inv div base u u1 a h hu1) hr
    · cases hr

/-- **C07 (v2 simplified discipline): termination implies that every `Handle` call has
    returned** — and that every delivered item was handled. -/
theorem c07_simple_v2 (div : DivFn) (keys : List (Nat × Bool)) (H : Nat) (hnd : (keys.map (·.1)).Nodup)
    (s0 : St) (h0 : initV2 div keys H = .ok s0) (acts : List SAct) (s : SimpleSt)
    (hr : srun div (sinit s0) acts = some s) (e : Option Err) (hdone : s.inner.pc = .done e) :
    s.handling = [] ∧ s.picked = s.inner.delivered.length := by
  obtain ⟨hf, _⟩ := initV2_fresh div keys H s0 h0
  have hrun := srun_run div acts (sinit s0) s hr
  have hzero := (C07.c07_v2_only_then div keys H hnd s0 s.inner (innerActs acts) h0 hrun e hdone).1
  have hi := srun_sinv div s0.delivered.length acts (sinit s0) s ⟨by simp [sinit], by
      have hfl : s0.inflight = [] := hf.2.1
      show s0.inflight.total = (s0.delivered.length - s0.delivered.length) + 0
      rw [hfl]; simp [Dist.total], ⟨Nat.le_refl _, by simp [sinit]⟩⟩ hr
  have hacc := hi.account
  have hle := hi.picked_le
  rw [hzero] at hacc
  exact ⟨List.eq_nil_of_length_eq_zero (by omega), by omega⟩


/-- **C02 (v2 simplified discipline): `Handle` is invoked exactly once per delivered item, in
    delivery order** — at every moment the `Handle` calls made so far are exactly the delivered
    items the handlers have picked up, and when the discipline has terminated they are all of
    them (with C02 on the scheduler machine: exactly the items written to the inputs). -/
theorem c02_simple_v2 (div : DivFn) (keys : List (Nat × Bool)) (H : Nat) (hnd : (keys.map (·.1)).Nodup)
    (s0 : St) (h0 : initV2 div keys H = .ok s0) (acts : List SAct) (s : SimpleSt)
    (hr : srun div (sinit s0) acts = some s) :
    s.handled = s.inner.delivered.take s.picked ∧ (∀ e, s.inner.pc = .done e → s.handled = s.inner.delivered) := by
  obtain ⟨hf, _⟩ := initV2_fresh div keys H s0 h0
  have hd0 : s0.delivered = [] := by unfold initV2 at h0; split at h0; cases h0; cases h0; rfl
  have hi := srun_sinv div s0.delivered.length acts (sinit s0) s ⟨by simp [sinit], by
      have hfl : s0.inflight = [] := hf.2.1
      show s0.inflight.total = (s0.delivered.length - s0.delivered.length) + 0
      rw [hfl]; simp [Dist.total], ⟨Nat.le_refl _, by simp [sinit]⟩⟩ hr
  have hh := hi.handledOK.2
  rw [hd0] at hh
  simp only [List.length_nil, List.drop_zero] at hh
  refine ⟨hh, fun e hdone => ?_⟩
  have := (c07_simple_v2 div keys H hnd s0 h0 acts s hr e hdone).2
  rw [hh, this, List.take_length]

end Cqos.C01
