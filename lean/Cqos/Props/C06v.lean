import Cqos.Props.C06i
import Cqos.Props.C07g
import Cqos.Props.C06e
/-
  C06 for v1, the clause "when nothing is in flight and some input has data, an item is delivered
  without any release being needed".

  v1 differs from v2 in what can be assumed of a reachable state: priorities, shares and channels
  change with every AddInput / RemoveInput, nothing checks the shares (finding F1), and two
  priorities may have been given the same channel.  So the facts v2 gets from its constructor
  are hypotheses here, stated of the state in question:

    * the shares in force add up to `H`                       (C14: the library's dividers)
    * THE PRIORITY CONCERNED has a share of at least one      (F1 is exactly its failure)
    * no other registered priority reads from the same channel

  Under them, after ANY run of a v1 discipline — arrivals, feedbacks, AddInput / RemoveInput in
  any order — if the discipline is at its loop top or about to compute a round, with nothing in
  flight, then the item at the head of the channel of a registered, undrained priority is
  delivered, tagged with that priority, by the discipline's own steps alone: the loop-top default
  case, `calcTactic`, and at most `H + n` poll actions.  (The machine lets a poll action deliver
  whether or not Stop() has been called meanwhile — Go's `select` may take either case; the
  continuation exhibited here is the one a discipline that was not stopped is bound to take.)
-/
namespace Cqos.C06
open Cqos.C05

theorem c06_idle_delivers_v1_calc (div : DivFn) (keys : List (Nat × Bool)) (H : Nat) (hH : 0 < H)
    (hnd : (keys.map (·.1)).Nodup) (s : St) (acts : List Act) (hr : run div (initV1 div keys H) acts = some s)
    (hpc : s.pc = .calc) (hidle : s.actual.total = 0)
    (hsum : sumOver s.prios s.strategic = H)
    (p : Nat) (inp : Input) (hin : alGet s.inputs p = some inp) (hud : inp.drained = false)
    (hshare : 1 ≤ s.strategic.get p)
    (halone : ∀ q' inp', alGet s.inputs q' = some inp' → q' ≠ p → inp'.chan ≠ inp.chan)
    (ch : Chan) (x : Nat) (q : List Nat) (hch : alGet s.chans inp.chan = some ch) (hq : ch.queue = x :: q) :
    ∃ acts' s', run div s (.calc :: acts') = some s' ∧
      (∃ dl, s'.delivered = s.delivered ++ dl ∧ (p, inp.chan, x) ∈ dl) ∧
      acts'.length ≤ H + s.prios.length ∧ (∀ a ∈ acts', isOwn a = true) := by
  obtain ⟨hf, hH0⟩ := C01.initV1_fresh div keys H
  obtain ⟨ht, hinv, hwf, hcfg⟩ := C07.tinv_run div acts _ s (C01.fresh_inv hf) (C15.wf_initV1 div keys H hnd)
    (C07.tinv_initV1 div keys H) hr
  have hHs : s.cfg.H = H := by rw [hcfg]; exact hH0
  have hnodup : s.prios.Nodup := List.Pairwise.imp (fun h => Nat.ne_of_gt h) hwf.sorted
  have hsum' : sumOver s.prios s.strategic = s.cfg.H := by rw [hHs]; exact hsum
  have hH' : 0 < s.cfg.H := by rw [hHs]; exact hH
  obtain ⟨hpc', htac⟩ := c06_calc_idle div s hnodup hsum' hH' hidle
  obtain ⟨f1, f2, _, _, f5, _, _, _⟩ := C07.stepCalc_frame div s
  have hmem : p ∈ s.prios := (hwf.regs p).2 (by rw [hin]; rfl)
  have hstep : step div s .calc = some (stepCalc div s) := by simp [step, hpc]
  have hA : Ahead (stepCalc div s) p inp x s.prios := by
    refine ⟨hpc', hmem, by rw [f1]; exact hin, hud, ?_, ⟨ch, q, by rw [f2]; exact hch, hq⟩, ?_, ?_⟩
    · rw [htac p hmem]; omega
    · intro q' _ hne inp' hq'
      rw [f1] at hq'
      exact halone q' inp' hq' hne
    · intro q' inp' hq'
      rw [f1] at hq'; rw [f2]; exact ht.chansOK q' inp' hq'
  obtain ⟨acts', s', hr', hd', hl', ho'⟩ := c06_phase1_delivers div p inp x s.prios (stepCalc div s) hA
  have hdel : (stepCalc div s).delivered = s.delivered := by
    simp only [stepCalc]
    split
    · split <;> rfl
    · split <;> rfl
  rw [hdel] at hd'
  refine ⟨acts', s', by simp [run, hstep, hr'], hd', ?_, ho'⟩
  have hcap := (C01.step_inv div s (stepCalc div s) .calc hinv hstep).1.cap
  rw [hpc'] at hcap
  simp only [capOk] at hcap
  have hc' : (stepCalc div s).cfg = s.cfg := (C07.stepCalc_frame div s).2.2.2.2.2.2.1
  rw [hc', hHs] at hcap
  omega

/-- **C06 (v1: nothing in flight, an input has data ⇒ its head item is delivered, no feedback
    needed).**  The same from the loop top: the `select` takes its default case (no command, no
    feedback is waiting for a discipline with nothing in flight), `clearActual`, then the round. -/
theorem c06_idle_delivers_v1 (div : DivFn) (keys : List (Nat × Bool)) (H : Nat) (hH : 0 < H)
    (hnd : (keys.map (·.1)).Nodup) (s : St) (acts : List Act) (hr : run div (initV1 div keys H) acts = some s)
    (hpc : s.pc = .top) (hidle : s.actual.total = 0)
    (hsum : sumOver s.prios s.strategic = H)
    (p : Nat) (inp : Input) (hin : alGet s.inputs p = some inp) (hud : inp.drained = false)
    (hshare : 1 ≤ s.strategic.get p)
    (halone : ∀ q' inp', alGet s.inputs q' = some inp' → q' ≠ p → inp'.chan ≠ inp.chan)
    (ch : Chan) (x : Nat) (q : List Nat) (hch : alGet s.chans inp.chan = some ch) (hq : ch.queue = x :: q) :
    ∃ acts' s', run div s (.top .none :: .calc :: acts') = some s' ∧
      (∃ dl, s'.delivered = s.delivered ++ dl ∧ (p, inp.chan, x) ∈ dl) ∧
      acts'.length ≤ H + s.prios.length ∧ (∀ a ∈ acts', isOwn a = true) := by
  obtain ⟨hf, _⟩ := C01.initV1_fresh div keys H
  obtain ⟨_, _, _, hcfg⟩ := C07.tinv_run div acts _ s (C01.fresh_inv hf) (C15.wf_initV1 div keys H hnd)
    (C07.tinv_initV1 div keys H) hr
  have hv1 : s.cfg.v1 = true := by rw [hcfg]; rfl
  have hstep : step div s (.top .none) = some (afterTop s) := by simp [step, hpc, hv1, stepTop]
  have hr1 : run div (initV1 div keys H) (acts ++ [.top .none]) = some (afterTop s) :=
    run_append div acts [.top .none] _ s (afterTop s) hr (by simp [run, hstep])
  have hidle1 : (afterTop s).actual.total = 0 := by
    show (clearActual s.inputs s.actual).total = 0
    rw [total_clearActual]; exact hidle
  obtain ⟨acts', s', hr', hd', hl', ho'⟩ := c06_idle_delivers_v1_calc div keys H hH hnd (afterTop s) _ hr1 rfl hidle1
    hsum p inp hin hud hshare halone ch x q hch hq
  exact ⟨acts', s', by simp only [run, hstep]; exact hr', hd', hl', ho'⟩

/-- the hypotheses are satisfiable (priorities 2 and 1, two handlers, Fair; an item on the input of
    priority 1) and the conclusion is what the machine does: the item is delivered under priority 1 -/
example :
    (run C07.f1div (initV1 C07.f1div [(2, true), (1, true)] 2)
      [.arrive 1 7, .top .none, .calc, .pollEmpty, .pollItem]).map (fun s => s.delivered) = some [(1, 1, 7)] := by decide

end Cqos.C06

namespace Cqos.C06

/-- the custom divider `lowfirst` of the correspondence runs conserves the dividend (it is
    contract-abiding: the constructor must judge its distributions by their content), … -/
theorem sumRule_lowfirst : SumRule (fun _ => lowfirst) := by
  intro i ps d m hm
  show (lowfirst ps d m).total = d ∨ (lowfirst ps d m).total = 0
  unfold lowfirst
  split
  · right; exact hm
  · rename_i l hl
    by_cases hd : d = 0
    · right; rw [if_pos hd]; exact hm
    · left
      rw [if_neg hd]
      have hne : ps ≠ [] := by
        intro h; subst h; simp at hl
      rw [C14.c14_fair_total ps (d - 1) (m.add l 1) hne, Dist.total_add, hm]
      omega

/-- … while `quota` does not (two priorities, dividend 1: two units are added): the helpers must
    still answer by what it gives, and the constructor rejects it as faulty -/
example : (quota [2, 1] 1 []).total = 2 := by decide

end Cqos.C06
