import Cqos.Lemmas.JoinEffects
/-
  Property C08 — a delivered slice is not modified while the consumer owns it.

  Memory is modelled by identities (Cqos/Join.lean): the accumulation buffer is object 0,
  unite's input slices have environment-supplied identities `< 1000000`, `slices.Clone`
  allocates fresh identities `≥ 1000000`.  `events` logs every emission (with the identity
  of the emitted memory), every write into the accumulation buffer, and every release.

  * copy mode: every emitted slice has a fresh identity, never the buffer, never an input
    slice, never the identity of another output — so no later write (they all target
    object 0) and no later output can touch it, however long the consumer keeps it;
  * no-copy mode: between an emission and the following release the log contains no write
    and no emission (`scanNC` never fails), and the machine is in `await`, whose only enabled
    actions are the release and — v1 — the stop branch;
  * v1: once `unreleased` is set the machine is `done` and the log never grows again.

  Partial in one respect (stated in DESIGN.md): Go's memory and `append` semantics are
  modelled (identities, `buf.length ≤ JoinSize = cap`), not verified.
-/
namespace Cqos.C08
open Cqos.C03

/-- no-copy scan of the event log: `some held`, or `none` once a write / a second emission
    happens while a slice is held by the consumer -/
def scanNC : Option Bool → JEvent → Option Bool
  | none, _ => none
  | some true, .emit _ _ => none
  | some false, .emit _ _ => some true
  | some true, .write => none
  | some false, .write => some false
  | some _, .released => some false

def heldNC (evs : List JEvent) : Option Bool := evs.foldl scanNC (some false)

/-- is a no-copy slice out according to the control state -/
def expected (s : JSt) : Bool :=
  match s.pc with
  | .await _ => true
  | .done => s.unreleased
  | .run => false

def emitId : JEvent → Option Nat
  | .emit id _ => some id
  | _ => none

/-- copy mode: emitted identities are fresh clones, strictly below `nextId`, pairwise distinct -/
structure CopyOK (s : JSt) : Prop where
  base : 1000000 ≤ s.nextId
  fresh : ∀ e ∈ s.events, ∀ id, emitId e = some id → 1000000 ≤ id ∧ id < s.nextId
  distinct : (s.events.filterMap emitId).Nodup

structure EInv (s : JSt) : Prop where
  copy : s.cfg.noCopy = false → CopyOK s
  nocopy : s.cfg.noCopy = true → heldNC s.events = some (expected s)

theorem heldNC_append (evs more : List JEvent) : heldNC (evs ++ more) = more.foldl scanNC (heldNC evs) := by
  simp [heldNC, List.foldl_append]

/-- appending a plain write while nothing is held -/
theorem copy_write {s u : JSt} (h : CopyOK s) (he : u.events = s.events ++ [JEvent.write]) (hn : u.nextId = s.nextId) :
    CopyOK u := by
  refine ⟨by rw [hn]; exact h.base, ?_, ?_⟩
  · intro e hin id hid
    rw [he] at hin
    simp only [List.mem_append, List.mem_singleton] at hin
    rcases hin with hin | rfl
    · rw [hn]; exact h.fresh e hin id hid
    · simp [emitId] at hid
  · rw [he, List.filterMap_append]; simpa [List.filterMap, emitId] using h.distinct

/-- appending a fresh emission (and possibly a write) -/
theorem copy_emit {s u : JSt} (h : CopyOK s) (d : List Nat) (w : List JEvent) (hw : w = [] ∨ w = [JEvent.write])
    (he : u.events = s.events ++ [JEvent.emit s.nextId d] ++ w) (hn : u.nextId = s.nextId + 1) : CopyOK u := by
  have hb := h.base
  refine ⟨by rw [hn]; omega, ?_, ?_⟩
  · intro e hin id hid
    rw [he] at hin
    simp only [List.mem_append, List.mem_singleton] at hin
    rcases hin with (hin | rfl) | hin
    · have := h.fresh e hin id hid; rw [hn]; omega
    · simp only [emitId, Option.some.injEq] at hid; subst hid; rw [hn]; omega
    · rcases hw with rfl | rfl
      · simp at hin
      · simp only [List.mem_singleton] at hin; subst hin; simp [emitId] at hid
  · rw [he]
    have hwf : w.filterMap emitId = [] := by rcases hw with rfl | rfl <;> simp [emitId]
    simp only [List.filterMap_append, hwf, List.append_nil, List.filterMap_cons, emitId, List.filterMap_nil]
    rw [List.nodup_append]
    refine ⟨h.distinct, by simp, ?_⟩
    intro a ha b hb' hab
    simp only [List.mem_singleton] at hb'
    subst hb'; subst hab
    rw [List.mem_filterMap] at ha
    obtain ⟨e, hin, hid⟩ := ha
    have := (h.fresh e hin _ hid).2
    omega

theorem e_congr {s u : JSt} (h : EInv s) (he : u.events = s.events) (hn : u.nextId = s.nextId)
    (hc : u.cfg = s.cfg) (hx : expected u = expected s) : EInv u :=
  ⟨fun hnc => by
      have := h.copy (by rw [← hc]; exact hnc)
      exact ⟨by rw [hn]; exact this.base, by rw [he, hn]; exact this.fresh, by rw [he]; exact this.distinct⟩,
   fun hnc => by rw [he, hx]; exact h.nocopy (by rw [← hc]; exact hnc)⟩

theorem e_jlog {s : JSt} (h : EInv s) (xs : List Nat) : EInv (jlog s xs) := e_congr h rfl rfl rfl rfl

/-- `pass()` from a running state -/
theorem e_jpass {s : JSt} (h : EInv s) (hrun : s.pc = .run) (t : Nat) (tk : Bool) (nx : Option (Nat × List Nat)) :
    EInv (jpass s t tk nx) := by
  by_cases hb : s.buf = []
  · rw [jpass_empty_eq s t tk nx hb]; exact e_congr h rfl rfl rfl rfl
  · by_cases hc : s.cfg.noCopy = true
    · rw [jpass_nocopy_eq s t tk nx hb hc]
      refine ⟨fun hnc => by simp [hc] at hnc, fun _ => ?_⟩
      have := h.nocopy hc
      simp only [expected, hrun] at this
      simp [heldNC_append, this, scanNC, expected]
    · have hc' : s.cfg.noCopy = false := by simpa using hc
      rw [jpass_copy_eq s t tk nx hb hc']
      refine ⟨fun _ => copy_emit (h.copy hc') s.buf [JEvent.write] (Or.inr rfl) rfl rfl, fun hnc => ?_⟩
      simp [hc'] at hnc

theorem e_appendPath {s : JSt} (h : EInv s) (hrun : s.pc = .run) (xs : List Nat) (t : Nat) :
    EInv (jappendPath s xs t) := by
  have happ : EInv { s with buf := s.buf ++ xs, events := s.events ++ [JEvent.write], firstAt := (if s.buf = [] then t else s.firstAt) } := by
    refine ⟨fun hnc => copy_write (h.copy hnc) rfl rfl, fun hnc => ?_⟩
    have := h.nocopy hnc
    simp only [expected, hrun] at this
    simp [heldNC_append, this, scanNC, expected, hrun]
  by_cases hlt : s.buf.length + xs.length < s.cfg.size
  · rw [jappendPath_stay_eq s xs t hlt]; exact happ
  · rw [jappendPath_full_eq s xs t hlt]; exact e_jpass happ hrun t false none

theorem e_forward {s : JSt} (h : EInv s) (hrun : s.pc = .run) (id : Nat) (xs : List Nat) (t : Nat) :
    EInv (jforward s id xs t) := by
  by_cases hc : s.cfg.noCopy = true
  · rw [jforward_nocopy_eq s id xs t hc]
    refine ⟨fun hnc => by simp [hc] at hnc, fun _ => ?_⟩
    have := h.nocopy hc
    simp only [expected, hrun] at this
    simp [heldNC_append, this, scanNC, expected]
  · have hc' : s.cfg.noCopy = false := by simpa using hc
    rw [jforward_copy_eq s id xs t hc']
    refine ⟨fun _ => copy_emit (h.copy hc') xs [] (Or.inl rfl) (by simp) rfl, fun hnc => ?_⟩
    simp [hc'] at hnc

theorem e_cont {s : JSt} (h : EInv s) (hrun : s.pc = .run) (id : Nat) (xs : List Nat) (t : Nat) :
    EInv (jcont s id xs t) := by
  unfold jcont
  split
  · exact e_forward (s := { s with passAt := t }) (e_congr h rfl rfl rfl rfl) hrun id xs t
  · exact e_appendPath h hrun xs t

theorem e_process {s : JSt} (h : EInv s) (hrun : s.pc = .run) (id : Nat) (xs : List Nat) (t : Nat) :
    EInv (jprocess s id xs t) := by
  unfold jprocess
  split
  · exact e_appendPath (e_jlog h xs) hrun xs t
  · split
    · split
      · exact e_jpass h hrun t false _
      · rename_i hc
        have hc' : s.cfg.noCopy = false := by simpa using hc
        by_cases hb : s.buf = []
        · rw [jpass_empty_eq (jlog s xs) t false none (by simpa [jlog] using hb)]
          exact e_cont (s := { jlog s xs with passAt := t }) (e_congr (e_jlog h xs) rfl rfl rfl rfl) (by simpa [jlog] using hrun) id xs t
        · have e := jpass_copy_eq (jlog s xs) t false none (by simpa [jlog] using hb) (by simpa [jlog] using hc')
          have hg := e_jpass (e_jlog h xs) (by simpa [jlog] using hrun) t false none
          rw [e] at hg ⊢
          exact e_cont hg (by simpa [jlog] using hrun) id xs t
    · exact e_cont (e_jlog h xs) (by simpa [jlog] using hrun) id xs t

/-- **one step keeps the ownership invariant** -/
theorem e_step (s s' : JSt) (a : JAct) (hj : JInv s) (h : EInv s) (hs : jstep s a = some s') : EInv s' := by
  unfold jstep at hs
  split at hs
  · rename_i id xs t hpc
    split at hs
    · cases hs
    · split at hs
      · cases hs; exact h
      · cases hs; exact e_process h hpc id xs t
  · rename_i t hpc
    split at hs
    · cases hs
    · split at hs
      · cases hs; exact e_jpass h hpc t true none
      · cases hs; exact h
  · rename_i t hpc
    have hg := e_jpass h hpc t false none
    obtain ⟨_, _, h3⟩ := jpass_inv hj hpc t false
    have hu : (jpass s t false none).unreleased = s.unreleased := by
      unfold jpass jsend jafterPass; split <;> (try split) <;> simp
    have hu0 : s.unreleased = false := by
      cases hu0 : s.unreleased with
      | false => rfl
      | true => have := hj.unrel hu0; simp [hpc] at this
    simp only at hs
    split at hs
    · rename_i n hn
      cases hs
      exact e_congr hg rfl rfl rfl (by simp [expected, hn])
    · rename_i hn
      cases hs
      rcases h3 with ⟨hr, _⟩ | ⟨n', hn'⟩
      · exact e_congr hg rfl rfl rfl (by simp [expected, hr, hu, hu0])
      · exact absurd hn' (hn n')
  · -- await, release
    rename_i next t hpc
    simp only at hs
    have hnc := hj.awaitNC next hpc
    have hheld := h.nocopy hnc
    simp only [expected, hpc] at hheld
    have hu0 : s.unreleased = false := by
      cases hu0 : s.unreleased with
      | false => rfl
      | true => have := hj.unrel hu0; simp [hpc] at this
    have hbase : ∀ u : JSt, u.cfg = s.cfg → u.unreleased = s.unreleased →
        (u.events = s.events ++ [JEvent.released] ∨ u.events = s.events ++ [JEvent.released] ++ [JEvent.write]) →
        u.pc = (if s.closing then .done else .run) → EInv u := by
      intro u hcf hu he hp
      refine ⟨fun hc => (by rw [hcf, hnc] at hc; cases hc), fun _ => ?_⟩
      have hx : expected u = false := by
        by_cases hc : s.closing = true <;> simp [expected, hp, hc, hu, hu0]
      rw [hx]
      rcases he with he | he <;> simp [he, heldNC_append, hheld, scanNC]
    cases next with
    | none =>
      simp only [Option.some.injEq] at hs
      subst hs
      split
      · refine hbase _ ?_ ?_ (Or.inl ?_) ?_ <;> rfl
      · refine hbase _ ?_ ?_ (Or.inr ?_) ?_ <;> rfl
    | some nx =>
      obtain ⟨id, xs⟩ := nx
      have hncl : s.closing = false := by
        cases hc : s.closing with
        | false => rfl
        | true => exact absurd hpc ((hj.closingPc hc).2 id xs)
      simp only [Option.some.injEq] at hs
      subst hs
      split
      · refine e_cont (e_jlog (hbase _ ?_ ?_ (Or.inl ?_) ?_) xs) (by simp [jlog, hncl]) id xs t <;> rfl
      · refine e_cont (e_jlog (hbase _ ?_ ?_ (Or.inr ?_) ?_) xs) (by simp [jlog, jafterPass, hncl]) id xs t <;> rfl
  · split at hs
    · cases hs; exact e_congr h rfl rfl rfl rfl
    · cases hs
  · -- run, stopSeen
    rename_i t hpc
    split at hs
    · cases hs
      have hu0 : s.unreleased = false := by
        cases hu0 : s.unreleased with
        | false => rfl
        | true => have := hj.unrel hu0; simp [hpc] at this
      exact e_congr h rfl rfl rfl (by simp [expected, hpc, hu0])
    · cases hs
  · -- run, stopFlush: the last slice goes out; in no-copy mode it is then owned by the
    -- consumer for good (`unreleased` semantics): record that by the frozen `done` state
    rename_i t hpc
    split at hs
    · cases hs
      have hg := e_jpass h hpc t false none
      obtain ⟨_, _, h3⟩ := jpass_inv hj hpc t false
      have hu : (jpass s t false none).unreleased = s.unreleased := by
        unfold jpass jsend jafterPass; split <;> (try split) <;> simp
      have hu0 : s.unreleased = false := by
        cases hu0 : s.unreleased with
        | false => rfl
        | true => have := hj.unrel hu0; simp [hpc] at this
      refine ⟨fun hc => ?_, fun hc => ?_⟩
      · have := hg.copy hc
        exact ⟨this.base, this.fresh, this.distinct⟩
      · have := hg.nocopy hc
        rcases h3 with ⟨hr, _⟩ | ⟨n, hn⟩
        · simp only [expected, hr] at this
          simp [this, expected, hr, hu0]
        · simp only [expected, hn] at this
          simp [this, expected, hn]
    · cases hs
  · -- await, stopSeen
    rename_i n t hpc
    split at hs
    · cases hs
      exact e_congr h rfl rfl rfl (by simp [expected, hpc])
    · cases hs
  · cases hs

theorem e_init (cfg : JCfg) (t0 : Nat) : EInv (jinit cfg t0) :=
  ⟨fun _ => ⟨by simp [jinit], by simp [jinit], by simp [jinit]⟩, fun _ => by simp [jinit, heldNC, expected]⟩

theorem e_run (acts : List JAct) (s s' : JSt) (hj : JInv s) (h : EInv s) (hr : jrun s acts = some s') :
    EInv s' ∧ JInv s' ∧ s'.cfg = s.cfg := by
  induction acts generalizing s with
  | nil => simp [jrun] at hr; subst hr; exact ⟨h, hj, rfl⟩
  | cons a as ih =>
    simp only [jrun] at hr
    split at hr
    · rename_i s1 hs1
      have h1 := jstep_inv s s1 a hj hs1
      have := ih s1 h1.1 (e_step s s1 a hj h hs1) hr
      exact ⟨this.1, this.2.1, by rw [this.2.2, h1.2]⟩
    · cases hr

/-- **C08 (copy mode).** After any run every emitted slice has a fresh identity: it is not
    the accumulation buffer (object 0), not an input slice (`< 1000000`), and no two emitted
    slices share an identity.  All writes of the discipline target object 0, so a delivered
    slice is never modified and shares no memory with any later output. -/
theorem c08_copy (cfg : JCfg) (t0 : Nat) (hsz : 0 < cfg.size) (hc : cfg.noCopy = false)
    (acts : List JAct) (s : JSt) (hr : jrun (jinit cfg t0) acts = some s) :
    (∀ e ∈ s.events, ∀ id, emitId e = some id → 1000000 ≤ id) ∧ (s.events.filterMap emitId).Nodup := by
  obtain ⟨he, _, hcf⟩ := e_run acts _ s (jinit_inv cfg t0 hsz) (e_init cfg t0) hr
  have := he.copy (by rw [hcf]; exact hc)
  exact ⟨fun e hin id hid => (this.fresh e hin id hid).1, this.distinct⟩

/-- **C08 (no-copy mode).** After any run the event log scans without failure: between an
    emission and the release that follows it there is no write into the buffer and no
    further emission; and a slice is out exactly when the machine waits for its release (or
    was stopped while waiting). -/
theorem c08_nocopy (cfg : JCfg) (t0 : Nat) (hsz : 0 < cfg.size) (hc : cfg.noCopy = true)
    (acts : List JAct) (s : JSt) (hr : jrun (jinit cfg t0) acts = some s) :
    heldNC s.events = some (expected s) := by
  obtain ⟨he, _, hcf⟩ := e_run acts _ s (jinit_inv cfg t0 hsz) (e_init cfg t0) hr
  exact he.nocopy (by rw [hcf]; exact hc)

/-- while a slice awaits its release only the release (or, v1, Stop) can happen -/
theorem c08_await_only_release (s s' : JSt) (a : JAct) (n : Option (Nat × List Nat)) (hpc : s.pc = .await n)
    (hs : jstep s a = some s') : (∃ t, a = .release t) ∨ a = .stop ∨ (∃ t, a = .stopSeen t) := by
  cases a with
  | item id xs t => simp [jstep, hpc] at hs
  | tick t => simp [jstep, hpc] at hs
  | close t => simp [jstep, hpc] at hs
  | release t => exact Or.inl ⟨t, rfl⟩
  | stop => exact Or.inr (Or.inl rfl)
  | stopSeen t => exact Or.inr (Or.inr ⟨t, rfl⟩)
  | stopFlush t => simp [jstep, hpc] at hs

/-- **C08 (v1: stopped before the release signal).** Once the machine is `done` (in
    particular after `unreleased` was set) the event log never changes again: the delivered
    slice is never touched. -/
theorem c08_v1_frozen (s s' : JSt) (a : JAct) (hpc : s.pc = .done) (hs : jstep s a = some s') :
    s'.events = s.events ∧ s'.buf = s.buf ∧ s'.pc = .done := by
  cases a with
  | stop =>
    simp only [jstep, hpc] at hs
    split at hs
    · cases hs; exact ⟨rfl, rfl, rfl⟩
    · cases hs
  | item id xs t => simp [jstep, hpc] at hs
  | tick t => simp [jstep, hpc] at hs
  | close t => simp [jstep, hpc] at hs
  | release t => simp [jstep, hpc] at hs
  | stopSeen t => simp [jstep, hpc] at hs
  | stopFlush t => simp [jstep, hpc] at hs

/-- **C08 (capacity).** The accumulation buffer never holds more than JoinSize elements,
    which is the capacity it was created with: Go's `append` never reallocates it, so the
    identity model (one buffer object) is the right one. -/
theorem c08_cap (cfg : JCfg) (t0 : Nat) (hsz : 0 < cfg.size) (acts : List JAct) (s : JSt)
    (hr : jrun (jinit cfg t0) acts = some s) : s.buf.length ≤ cfg.size := by
  obtain ⟨_, hj, hcf⟩ := e_run acts _ s (jinit_inv cfg t0 hsz) (e_init cfg t0) hr
  have := hj.le; rw [hcf] at this; exact this

/-! Non-vacuity -/
example :
    (jrun (jinit ⟨.join, 2, 0, true, false⟩ 0) [.item 1 [1] 1, .item 2 [2] 2, .release 3, .item 3 [3] 4]).map
      (fun s => (s.events, heldNC s.events)) =
    some ([.write, .write, .emit 0 [1, 2], .released, .write, .write], some false) := by decide

end Cqos.C08
