import Cqos.Props.C05
/-
  Property C06 — progress: no deadlock or starvation while handlers release.

  Safety-shaped statements proved for every action list (v2; `strategic` sums to H over the
  configured priorities, which `New` establishes for sum-rule dividers, and every share is
  ≥ 1 after the repair of D2):

  * the discipline never waits for a release while nothing is in flight (`c06_never_waits_idle`);
  * with nothing in flight `calcTactic` proceeds and allots every priority its full share
    (`c06_calc_idle`), and when the turn of a priority that has data and a positive allotment
    comes, delivering its oldest item is enabled while skipping / giving up is not
    (`c06_head_served`) — so an item is delivered without any release being needed;
  * a priority that is alone in having data receives, in the second phase of the round, the
    whole unused remainder (`c06_recalc_alone`): together with its own share, all H handlers.

  The eventuality itself ("every item is eventually delivered") additionally needs fairness
  of the Go scheduler and of the handlers — not modelled (partial).  v1 has no constructor
  check for zero shares; with a zero share v1 starves that priority (recorded known finding
  F1), which is why the statements carry the `strategic p ≥ 1` hypothesis explicitly.
-/
namespace Cqos.C06
open Cqos.C05

/-- the discipline waits for a release only with something in flight -/
def W (s : St) : Prop := s.pc = .waitFb → 0 < s.actual.total

/-- with nothing in flight `calcTactic` proceeds, allotting every priority its share -/
theorem c06_calc_idle (div : DivFn) (s : St) (hP : s.prios.Nodup) (hsum : sumOver s.prios s.strategic = s.cfg.H)
    (hH : 0 < s.cfg.H) (hidle : s.actual.total = 0) :
    (stepCalc div s).pc = .prio 1 s.prios ∧ ∀ p ∈ s.prios, (stepCalc div s).tactic.get p = s.strategic.get p := by
  have hz : ∀ p, s.actual.get p = 0 := fun p => by have := Dist.get_le_total s.actual p; omega
  obtain ⟨t', h1, h2, _, _, _⟩ := addUp_spec s.actual s.strategic s.prios hP (fun p _ => by rw [hz p]; omega) s.tactic.zeroAll 0
  have hsa : sumOver s.prios s.actual = 0 := by
    simp only [sumOver]
    have : s.prios.map s.actual.get = s.prios.map (fun _ => 0) := List.map_congr_left (fun p _ => hz p)
    rw [this]; induction s.prios <;> simp_all
  have hnot : ¬ s.cfg.H < s.actual.total := by omega
  have hv : ¬ s.cfg.H - s.actual.total = 0 := by omega
  have hr : calcTacticWith (div s.calls) s.prios s.actual s.strategic s.tactic (s.cfg.H - s.actual.total) =
      ⟨t', .ok true, 0, []⟩ := by
    simp only [calcTacticWith, hv, if_false, calcAddUp, h1]
    simp [hsa, hsum, hidle]
  simp only [stepCalc, hnot, if_false, hr]
  exact ⟨trivial, fun p hp => by show t'.get p = _; rw [h2 p hp, hz p]; simp⟩

/-- if `calcTactic` sends the discipline waiting, something is in flight -/
theorem calc_wait_busy (div : DivFn) (s : St) (hP : s.prios.Nodup) (hsum : sumOver s.prios s.strategic = s.cfg.H)
    (hH : 0 < s.cfg.H) (hw : (stepCalc div s).pc = .waitFb) : 0 < (stepCalc div s).actual.total := by
  have ha : (stepCalc div s).actual = s.actual := by
    simp only [stepCalc]; split <;> (try split) <;> (try split) <;> rfl
  rw [ha]
  by_cases hidle : s.actual.total = 0
  · have := (c06_calc_idle div s hP hsum hH hidle).1
    rw [this] at hw; cases hw
  · omega

/-- **one step keeps "never waits idle"** (v2) -/
theorem w_step (div : DivFn) (s s' : St) (a : Act) (hinv : Inv s) (hw : C15.WF s) (hv2 : s.cfg.v1 = false)
    (hsum : sumOver s.prios s.strategic = s.cfg.H) (hH : 0 < s.cfg.H) (h : W s)
    (hs : step div s a = some s') : W s' := by
  have same : ∀ u : St, u.pc = s.pc → u.actual = s.actual → W u := fun u hp ha hu => by
    rw [ha]; exact h (by rw [← hp]; exact hu)
  have notw : ∀ u : St, u.pc ≠ .waitFb → W u := fun u hne hu => absurd hu hne
  cases a with
  | arrive c x => obtain ⟨_, _, _, rfl⟩ := step_arrive hs; exact same _ rfl rfl
  | close c => obtain ⟨_, _, rfl⟩ := step_close hs; exact same _ rfl rfl
  | release p => obtain ⟨_, rfl⟩ := step_release hs; exact same _ rfl rfl
  | stop => obtain ⟨hv, _⟩ := step_stop hs; rw [hv2] at hv; cases hv
  | graceful => obtain ⟨hv, _⟩ := step_graceful hs; rw [hv2] at hv; cases hv
  | top c => obtain ⟨_, _, hv⟩ := step_top hs; rw [hv2] at hv; cases hv
  | stopSeen => obtain ⟨hv, _⟩ := step_stopSeen hs; rw [hv2] at hv; cases hv
  | «calc» =>
    obtain ⟨_, rfl⟩ := step_calc hs
    exact fun hu => calc_wait_busy div s (nodup_of_strict _ hw.sorted) hsum hH hu
  | recalc =>
    obtain ⟨_, rfl⟩ := step_recalc hs
    exact notw _ (by simp only [stepRecalc]; split <;> simp)
  | endRound =>
    obtain ⟨ph, _, _, hc⟩ := step_endRound hs
    rcases hc with ⟨_, _, _, rfl⟩ | ⟨_, rfl⟩ <;> exact notw _ (by simp)
  | limitedStop =>
    obtain ⟨k, _, rfl⟩ := step_limitedStop hs
    exact notw _ (by rcases nextRound_pc s with e | e <;> simp [e])
  | exit => obtain ⟨e, _, _, rfl⟩ := step_exit hs; exact notw _ (by simp)
  | consume p =>
    obtain ⟨hp, hc⟩ := step_consume hs
    obtain ⟨h1, _, _, _, _⟩ := decActual_spec { s with pending := s.pending.erase p } p s.pending hinv.core hp rfl
    have hnf : (decActual { s with pending := s.pending.erase p } p).pc ≠ .fault := by rw [h1]; exact hinv.nofault
    rcases hc with ⟨hpc, rfl⟩ | ⟨k, hpc, _, rfl⟩ | ⟨e, hpc, _, rfl⟩
    · simp only [hnf, if_false]
      exact notw _ (by unfold afterWaitFb; split <;> simp)
    · simp only [hnf, if_false]; exact notw _ (by simp)
    · exact notw _ (by rw [h1]; simp [hpc])
  | skip =>
    obtain ⟨ph, p, rest, _, hp⟩ := step_poll_pc (Or.inr (Or.inr (Or.inr (Or.inr rfl)))) hs
    obtain ⟨rfl, _⟩ := stepPoll_skip hp; exact notw _ (by simp)
  | pollEmpty =>
    obtain ⟨ph, p, rest, _, hp⟩ := step_poll_pc (Or.inr (Or.inr (Or.inr (Or.inl rfl)))) hs
    have := stepPoll_empty hp; subst this; exact notw _ (by simp)
  | pollClosed =>
    obtain ⟨ph, p, rest, _, hp⟩ := step_poll_pc (Or.inr (Or.inr (Or.inl rfl))) hs
    obtain ⟨_, _, _, _, _, _, rfl⟩ := stepPoll_closed hp; exact notw _ (by simp)
  | pollItem =>
    obtain ⟨ph, p, rest, hpc, hp⟩ := step_poll_pc (Or.inl rfl) hs
    obtain ⟨_, _, _, _, _, _, _, _, _, rfl⟩ := stepPoll_item hp; exact notw _ (by simp [hpc])
  | pollDrop =>
    obtain ⟨ph, p, rest, hpc, hp⟩ := step_poll_pc (Or.inr (Or.inl rfl)) hs
    obtain ⟨_, _, _, _, hv, _⟩ := stepPoll_drop hp; rw [hv2] at hv; cases hv

/-- **C06 (the discipline never waits for a release with nothing in flight).**  After any run
    of a v2 discipline whose strategic shares add up to H: if it is blocked waiting for a
    release, at least one delivered item has not been released-and-consumed yet. -/
theorem c06_never_waits_idle (div : DivFn) (keys : List (Nat × Bool)) (H : Nat) (hH : 0 < H)
    (hnd : (keys.map (·.1)).Nodup) (s0 s : St) (acts : List Act) (h0 : initV2 div keys H = .ok s0)
    (hsum : sumOver s0.prios s0.strategic = H) (hr : run div s0 acts = some s) (hwait : s.pc = .waitFb) :
    0 < s.inflight.total + s.pending.length := by
  obtain ⟨hf, hH0⟩ := C01.initV2_fresh div keys H s0 h0
  have hv2 : s0.cfg.v1 = false := by unfold initV2 at h0; split at h0; cases h0; cases h0; rfl
  -- prios, strategic, cfg are static in v2: carry them along the run
  have key : ∀ (acts : List Act) (u u' : St), Inv u → C15.WF u → u.cfg.v1 = false →
      sumOver u.prios u.strategic = u.cfg.H → 0 < u.cfg.H → W u → run div u acts = some u' → W u' ∧ Inv u' := by
    intro acts
    induction acts with
    | nil => intro u u' hi _ _ _ _ hw hr; simp [run] at hr; subst hr; exact ⟨hw, hi⟩
    | cons a as ih =>
      intro u u' hi hwf hv hs hh hw hr
      simp only [run] at hr
      split at hr
      · rename_i u1 hu1
        have h1 := C01.step_inv div u u1 a hi hu1
        have hstatic : u1.prios = u.prios ∧ u1.strategic = u.strategic := by
          have hsat := C02.step_hinv div u u1 a
          cases a with
          | top c => obtain ⟨_, _, hv'⟩ := step_top hu1; rw [hv] at hv'; cases hv'
          | arrive c x => obtain ⟨_, _, _, rfl⟩ := step_arrive hu1; exact ⟨rfl, rfl⟩
          | close c => obtain ⟨_, _, rfl⟩ := step_close hu1; exact ⟨rfl, rfl⟩
          | release p => obtain ⟨_, rfl⟩ := step_release hu1; exact ⟨rfl, rfl⟩
          | stop => obtain ⟨hv', _⟩ := step_stop hu1; rw [hv] at hv'; cases hv'
          | graceful => obtain ⟨hv', _⟩ := step_graceful hu1; rw [hv] at hv'; cases hv'
          | stopSeen => obtain ⟨hv', _⟩ := step_stopSeen hu1; rw [hv] at hv'; cases hv'
          | «calc» => obtain ⟨_, rfl⟩ := step_calc hu1; simp only [stepCalc]; split <;> (try split) <;> (try split) <;> exact ⟨rfl, rfl⟩
          | recalc => obtain ⟨_, rfl⟩ := step_recalc hu1; simp only [stepRecalc]; split <;> exact ⟨rfl, rfl⟩
          | endRound =>
            obtain ⟨ph, _, _, hc⟩ := step_endRound hu1
            rcases hc with ⟨_, _, _, rfl⟩ | ⟨_, rfl⟩ <;> exact ⟨rfl, rfl⟩
          | limitedStop => obtain ⟨k, _, rfl⟩ := step_limitedStop hu1; exact ⟨rfl, rfl⟩
          | exit => obtain ⟨e, _, _, rfl⟩ := step_exit hu1; exact ⟨rfl, rfl⟩
          | consume p =>
            obtain ⟨_, hc⟩ := step_consume hu1
            have hd : ∀ t : St, (decActual t p).prios = t.prios ∧ (decActual t p).strategic = t.strategic := by
              intro t; unfold decActual; split <;> exact ⟨rfl, rfl⟩
            have b := hd { u with pending := u.pending.erase p }
            rcases hc with ⟨_, rfl⟩ | ⟨k, _, _, rfl⟩ | ⟨e, _, _, rfl⟩
            · split
              · exact b
              · unfold afterWaitFb; split <;> exact b
            · split <;> exact b
            · exact b
          | skip =>
            obtain ⟨ph, p, rest, _, hp⟩ := step_poll_pc (Or.inr (Or.inr (Or.inr (Or.inr rfl)))) hu1
            obtain ⟨rfl, _⟩ := stepPoll_skip hp; exact ⟨rfl, rfl⟩
          | pollEmpty =>
            obtain ⟨ph, p, rest, _, hp⟩ := step_poll_pc (Or.inr (Or.inr (Or.inr (Or.inl rfl)))) hu1
            have := stepPoll_empty hp; subst this; exact ⟨rfl, rfl⟩
          | pollClosed =>
            obtain ⟨ph, p, rest, _, hp⟩ := step_poll_pc (Or.inr (Or.inr (Or.inl rfl))) hu1
            obtain ⟨_, _, _, _, _, _, rfl⟩ := stepPoll_closed hp; exact ⟨rfl, rfl⟩
          | pollItem =>
            obtain ⟨ph, p, rest, _, hp⟩ := step_poll_pc (Or.inl rfl) hu1
            obtain ⟨_, _, _, _, _, _, _, _, _, rfl⟩ := stepPoll_item hp; exact ⟨rfl, rfl⟩
          | pollDrop =>
            obtain ⟨ph, p, rest, _, hp⟩ := step_poll_pc (Or.inr (Or.inl rfl)) hu1
            obtain ⟨_, _, _, _, hv', _⟩ := stepPoll_drop hp; rw [hv] at hv'; cases hv'
        exact ih u1 u' h1.1 (C15.wf_step div u u1 a hi hwf hu1) (by rw [h1.2]; exact hv)
          (by rw [hstatic.1, hstatic.2, h1.2]; exact hs) (by rw [h1.2]; exact hh)
          (w_step div u u1 a hi hwf hv hs hh hw hu1) hr
      · cases hr
  have hw0 : W s0 := by
    intro hp
    have : s0.pc = .calc := by unfold initV2 at h0; split at h0; cases h0; cases h0; rfl
    rw [this] at hp; cases hp
  obtain ⟨hw, hinv⟩ := key acts s0 s (C01.fresh_inv hf) (C15.wf_initV2 div keys H s0 hnd h0) hv2
    (by rw [hH0]; exact hsum) (by rw [hH0]; exact hH) hw0 hr
  have := hw hwait
  have := hinv.core.tot
  omega

/-- **C06 (the priority whose turn it is, with data and a positive allotment, is served).**
    In `prioritize`, when the head priority is registered, not drained, has a positive
    allotment and a buffered channel with a waiting item: delivering that item is enabled,
    and neither skipping it nor giving up on it nor marking it drained is. -/
theorem c06_head_served (s : St) (ph p : Nat) (rest : List Nat) (inp : Input) (ch : Chan) (x : Nat) (q : List Nat)
    (hin : alGet s.inputs p = some inp) (hnd : inp.drained = false) (ht : s.tactic.get p ≠ 0)
    (hch : alGet s.chans inp.chan = some ch) (hq : ch.queue = x :: q) (hb : ch.buffered = true) :
    (∃ s', stepPoll s ph p rest .pollItem = some s' ∧ s'.delivered = s.delivered ++ [(p, inp.chan, x)]) ∧
    stepPoll s ph p rest .skip = none ∧ stepPoll s ph p rest .pollEmpty = none ∧
    stepPoll s ph p rest .pollClosed = none := by
  have hc : ¬ (inp.drained = true ∨ s.tactic.get p = 0) := by rw [hnd]; simp [ht]
  refine ⟨?_, ?_, ?_, ?_⟩
  · simp only [stepPoll, hin, hc, if_false, hch, hq]
    exact ⟨_, rfl, rfl⟩
  · simp [stepPoll, hin, hc, hch]
  · simp [stepPoll, hin, hc, hch, hq, hb]
  · simp [stepPoll, hin, hc, hch, hq]

/-- **C06 (a priority alone in having data is granted the whole remainder).**
    After the first phase: priority `q` used up its allotment (`tactic q = 0`), every other
    priority still has its full unused allotment and nothing in flight.  Then `recalcTactic`
    — with a divider that gives a single priority everything — hands `q` the entire unused
    remainder for the second phase, and nobody else anything. -/
theorem c06_recalc_alone (div : DivFn) (i H : Nat) (prios : List Nat) (actual tactic : Dist) (q : Nat)
    (hsingle : ∀ j d m k, (div j [q] d m).get k = m.get k + (if k = q then d else 0))
    (hsum1 : ∀ j d m, (div j [q] d m).total = m.total + d)
    (hq : q ∈ prios) (hP : prios.Nodup) (hzero : tactic.get q = 0)
    (hothers : ∀ p ∈ prios, p ≠ q → tactic.get p ≠ 0)
    (hroom : actual.get q < H) (hrem : 0 < tactic.total) :
    let r := recalcTacticWith div i H prios actual tactic
    r.verdict = .ok true ∧ r.tactic.get q = tactic.total ∧ ∀ p, p ≠ q → r.tactic.get p = 0 := by
  have hu1 : useful1 prios tactic = [q] := by
    simp only [useful1]
    induction prios with
    | nil => simp at hq
    | cons p ps ih =>
      have hn := List.nodup_cons.1 hP
      simp only [List.filter_cons]
      by_cases hpq : p = q
      · subst hpq
        simp only [hzero, beq_self_eq_true, if_true]
        congr 1
        rw [List.filter_eq_nil_iff]
        intro r hr
        have hne : r ≠ p := fun e => hn.1 (e ▸ hr)
        have := hothers r (by simp [hr]) hne
        simpa using this
      · have hp0 := hothers p (by simp) hpq
        have : (tactic.get p == 0) = false := by simpa using hp0
        simp only [this, Bool.false_eq_true, if_false]
        have hq' : q ∈ ps := by
          simp only [List.mem_cons] at hq
          rcases hq with e | e
          · exact absurd e.symm hpq
          · exact e
        exact ih hq' hn.2 (fun r hr hne => hothers r (by simp [hr]) hne)
  have ok1 : safeDivide (div i) [q] H tactic.zeroAll = (div i [q] H tactic.zeroAll, none) := by
    apply Prod.ext
    · exact safeDivide_fst _ _ _ _
    · simp only [safeDivide, hsum1]
      split
      · rfl
      · split
        · omega
        · split
          · rename_i hx; exact absurd (by omega) hx
          · rfl
  have ht1q : (div i [q] H tactic.zeroAll).get q = H := by rw [hsingle]; simp
  have ht1o : ∀ p, p ≠ q → (div i [q] H tactic.zeroAll).get p = 0 := by intro p hp; rw [hsingle]; simp [hp]
  have hu2 : useful2 prios actual (div i [q] H tactic.zeroAll) = [q] := by
    simp only [useful2]
    clear hu1 hothers hzero
    induction prios with
    | nil => simp at hq
    | cons p ps ih =>
      have hn := List.nodup_cons.1 hP
      simp only [List.filter_cons]
      by_cases hpq : p = q
      · subst hpq
        simp only [ht1q, hroom, decide_true, if_true]
        congr 1
        rw [List.filter_eq_nil_iff]
        intro r hr
        have hne : r ≠ p := fun e => hn.1 (e ▸ hr)
        simp [ht1o r hne]
      · simp only [ht1o p hpq, Nat.not_lt_zero, decide_false, Bool.false_eq_true, if_false]
        have hq' : q ∈ ps := by
          simp only [List.mem_cons] at hq
          rcases hq with e | e
          · exact absurd e.symm hpq
          · exact e
        exact ih hq' hn.2
  have ok2 : safeDivide (div (i + 1)) [q] tactic.total (div i [q] H tactic.zeroAll).zeroAll =
      (div (i + 1) [q] tactic.total (div i [q] H tactic.zeroAll).zeroAll, none) := by
    apply Prod.ext
    · exact safeDivide_fst _ _ _ _
    · simp only [safeDivide, hsum1]
      split
      · rfl
      · split
        · omega
        · split
          · rename_i hx; exact absurd (by omega) hx
          · rfl
  have hfin : ∀ k, (div (i + 1) [q] tactic.total (div i [q] H tactic.zeroAll).zeroAll).get k =
      if k = q then tactic.total else 0 := by intro k; rw [hsingle]; simp
  simp only [recalcTacticWith, hu1, ok1, hu2, ok2]
  refine ⟨?_, by rw [hfin]; simp, fun p hp => by rw [hfin]; simp [hp]⟩
  simp only [tacticFilled, filledFor, List.all_cons, List.all_nil, Bool.and_true, hfin, if_true]
  simp; omega

/-- Known finding F1 as a theorem about the v1 model: with a zero share the allotment of the
    starving priority stays 0 in both phases although it is the only one with data — v1 has
    no constructor check that would reject the configuration. -/
def queueLen (s : St) (c : Nat) : Nat := match alGet s.chans c with | some ch => ch.queue.length | none => 0

theorem c06_v1_zero_share_starves :
    let div : DivFn := fun _ => fair
    let s0 := initV1 div [(3, true), (2, true), (1, true)] 1
    (run div s0 [.arrive 1 7, .top .none, .calc, .pollEmpty, .skip, .skip, .recalc, .skip, .pollEmpty, .skip,
        .endRound, .limitedStop]).map (fun s => (s.delivered, s.strategic, (queueLen s 1)))
      = some ([], [(3, 1), (2, 0), (1, 0)], 1) := by decide

end Cqos.C06
