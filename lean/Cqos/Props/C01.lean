import Cqos.Lemmas.SchedInv
import Cqos.DriverSched
/-
  Property C01 — items in processing never exceed HandlersQuantity.

  `step` (Cqos/Sched.lean) is the micro-step machine of the v1 and v2 priority
  disciplines; `run` applies an arbitrary list of actions.  Environment actions
  (arrivals, closes, releases, Stop, GracefulStop, and — through `Act.top` — AddInput /
  RemoveInput / the choice of the loop-top `select`) are interleaved arbitrarily with the
  discipline's own steps, so a statement about every action list is a statement about
  every schedule.  `inflight` is the history variable "delivered on the output minus
  release ISSUED".

  The theorems hold for EVERY divider function `div` (call-indexed, so stateful and
  faulty dividers are included): `safeDivide` is part of the model, and a division it
  rejects stops the deliveries.  They hold for every initial `strategic` distribution.
-/
namespace Cqos.C01

theorem Inv.of_eq {s s' : St} (h : Inv s) (ha : s'.actual = s.actual) (hi : s'.inflight = s.inflight)
    (hp : s'.pending = s.pending) (ht : s'.tactic = s.tactic) (hpc : s'.pc = s.pc)
    (hc : s'.cfg = s.cfg) : Inv s' :=
  ⟨by rw [ha, hi, hp]; exact h.core, by rw [hc, hpc, ha, ht]; exact h.cap, by rw [hpc]; exact h.nofault⟩

/-- any change of the control state to a non-`prio`, non-`fault` one keeps the invariant
    (the allotment no longer counts) -/
theorem Inv.to_plain {s s' : St} (h : Inv s) (ha : s'.actual = s.actual) (hi : s'.inflight = s.inflight)
    (hp : s'.pending = s.pending) (hc : s'.cfg = s.cfg)
    (hpc : ∀ ph rest, s'.pc ≠ .prio ph rest) (hnf : s'.pc ≠ .fault) : Inv s' :=
  ⟨by rw [ha, hi, hp]; exact h.core,
   by rw [hc, ha]; exact capOk_of_le (capOk_weaken h.cap) hpc,
   hnf⟩

theorem afterTop_inv {s : St} (hcore : Core s.actual s.inflight s.pending) (hle : s.actual.total ≤ s.cfg.H) :
    Inv (afterTop s) := by
  refine ⟨core_clear hcore _, ?_, by simp [afterTop]⟩
  simp only [afterTop, capOk]
  rw [total_clearActual]; exact hle

theorem stepCalc_inv (div : DivFn) (s : St) (h : Inv s) :
    Inv (stepCalc div s) ∧ (stepCalc div s).cfg = s.cfg := by
  have hle : s.actual.total ≤ s.cfg.H := capOk_weaken h.cap
  unfold stepCalc
  have hnot : ¬ s.cfg.H < s.actual.total := by omega
  simp only [hnot, if_false]
  split
  · rename_i hv
    refine ⟨⟨h.core, ?_, by simp⟩, rfl⟩
    simp only [capOk]
    have := calcTacticWith_total _ _ _ _ _ _ hv
    omega
  · exact ⟨⟨h.core, by simpa [capOk] using hle, by simp⟩, rfl⟩
  · exact ⟨⟨h.core, by simpa [capOk] using hle, by simp⟩, rfl⟩

theorem stepRecalc_inv (div : DivFn) (s : St) (h : Inv s) (ph : Nat) (rest : List Nat)
    (hpc : s.pc = .prio ph rest) :
    Inv (stepRecalc div s) ∧ (stepRecalc div s).cfg = s.cfg := by
  have hcap : s.actual.total + s.tactic.total ≤ s.cfg.H := by
    have := h.cap; rw [hpc] at this; exact this
  simp only [stepRecalc]
  split
  · rename_i hv
    refine ⟨⟨h.core, ?_, by simp⟩, rfl⟩
    have := recalcTacticWith_total _ _ _ _ _ _ _ hv
    simp only [capOk]; omega
  · rename_i hv
    refine ⟨⟨h.core, ?_, by simp⟩, rfl⟩
    have := recalcTacticWith_total _ _ _ _ _ _ _ hv
    simp only [capOk]; omega
  · exact ⟨⟨h.core, by simp only [capOk]; omega, by simp⟩, rfl⟩

theorem consume_generic (s t : St) (p : Nat) (f : St → St) (s' : St)
    (hs : (if (decActual t p).pc = .fault then some (decActual t p) else some (f (decActual t p))) = some s')
    (h : Inv s) (hp : p ∈ s.pending)
    (hta : t.actual = s.actual) (hti : t.inflight = s.inflight) (htp : t.pending = s.pending.erase p)
    (htc : t.cfg = s.cfg) (htpc : t.pc ≠ .fault)
    (hf : ∀ u : St, Core u.actual u.inflight u.pending → u.actual.total ≤ u.cfg.H → u.pc ≠ .fault →
        Inv (f u) ∧ (f u).cfg = u.cfg) :
    Inv s' ∧ s'.cfg = s.cfg := by
  obtain ⟨h1, h2, _, h5, h6⟩ := decActual_spec t p s.pending (by rw [hta, hti]; exact h.core) hp htp
  have hnf : (decActual t p).pc ≠ .fault := by rw [h1]; exact htpc
  simp only [hnf, if_false, Option.some.injEq] at hs
  subst hs
  have hle : s.actual.total ≤ s.cfg.H := capOk_weaken h.cap
  have := hf (decActual t p) h5 (by rw [h2, htc]; rw [hta] at h6; omega) hnf
  exact ⟨this.1, by rw [this.2, h2, htc]⟩

theorem stepPoll_inv (s s' : St) (ph p : Nat) (rest : List Nat) (a : Act) (h : Inv s)
    (hpc : s.pc = .prio ph (p :: rest)) (hs : stepPoll s ph p rest a = some s') :
    Inv s' ∧ s'.cfg = s.cfg := by
  have hcap : s.actual.total + s.tactic.total ≤ s.cfg.H := by
    have := h.cap; rw [hpc] at this; exact this
  have keepPrio : ∀ t : St, t.actual = s.actual → t.inflight = s.inflight → t.pending = s.pending →
      t.tactic = s.tactic → t.cfg = s.cfg → t.pc = .prio ph rest → Inv t ∧ t.cfg = s.cfg := by
    intro t ha hi hp ht hc hpc'
    exact ⟨⟨by rw [ha, hi, hp]; exact h.core, by rw [hc, hpc', ha, ht]; exact hcap, by rw [hpc']; simp⟩, hc⟩
  unfold stepPoll at hs
  split at hs
  · split at hs
    · cases hs; exact keepPrio _ rfl rfl rfl rfl rfl rfl
    · cases hs
  · rename_i inp hin
    split at hs
    · split at hs
      · cases hs; exact keepPrio _ rfl rfl rfl rfl rfl rfl
      · cases hs
    · rename_i hnz
      split at hs
      · cases hs
      · rename_i ch hch
        have htp : s.tactic.get p ≠ 0 := fun e => hnz (Or.inr e)
        split at hs
        · -- pollItem
          split at hs
          · cases hs
          · cases hs
            refine ⟨⟨core_deliver h.core p, ?_, by simp [hpc]⟩, rfl⟩
            simp only [hpc, capOk]
            have hts := Dist.total_set s.tactic p (s.tactic.get p - 1)
            rw [Dist.total_add]
            omega
        · -- pollDrop
          split at hs
          · split at hs
            · cases hs
            · cases hs
              exact ⟨⟨h.core, by simpa [hpc, capOk] using hcap, by simp [hpc]⟩, rfl⟩
          · cases hs
        · -- pollClosed
          split at hs
          · cases hs; exact keepPrio _ rfl rfl rfl rfl rfl rfl
          · cases hs
        · -- pollEmpty
          split at hs
          · cases hs; exact keepPrio _ rfl rfl rfl rfl rfl rfl
          · cases hs
        · -- stopSeen
          split at hs
          · cases hs; exact keepPrio _ rfl rfl rfl rfl rfl rfl
          · cases hs
        · cases hs

/-- **one step keeps the invariant** (and never changes the configuration) -/
theorem step_inv (div : DivFn) (s s' : St) (a : Act) (h : Inv s) (hs : step div s a = some s') :
    Inv s' ∧ s'.cfg = s.cfg := by
  have hle : s.actual.total ≤ s.cfg.H := capOk_weaken h.cap
  cases a with
  | arrive c x =>
    simp only [step] at hs
    split at hs
    · split at hs
      · cases hs
      · cases hs; exact ⟨Inv.of_eq h rfl rfl rfl rfl rfl rfl, rfl⟩
    · cases hs
  | close c =>
    simp only [step] at hs
    split at hs
    · cases hs; exact ⟨Inv.of_eq h rfl rfl rfl rfl rfl rfl, rfl⟩
    · cases hs
  | release p =>
    simp only [step] at hs
    split at hs
    · cases hs
    · rename_i hne
      cases hs
      exact ⟨⟨core_release h.core p hne, h.cap, h.nofault⟩, rfl⟩
  | stop =>
    simp only [step] at hs
    split at hs
    · cases hs; exact ⟨Inv.of_eq h rfl rfl rfl rfl rfl rfl, rfl⟩
    · cases hs
  | graceful =>
    simp only [step] at hs
    split at hs
    · cases hs; exact ⟨Inv.of_eq h rfl rfl rfl rfl rfl rfl, rfl⟩
    · cases hs
  | top c =>
    simp only [step] at hs
    split at hs <;> try (cases hs; done)
    all_goals try (rename_i ph p rest hpc; exact stepPoll_inv s s' ph p rest _ h hpc hs)
    -- pc = top (v1 only)
    split at hs
    case isFalse => cases hs
    cases c with
    | stop =>
      simp only [stepTop] at hs
      split at hs
      · cases hs; exact ⟨Inv.to_plain h rfl rfl rfl rfl (by simp) (by simp), rfl⟩
      · cases hs
    | add p c b =>
      simp only [stepTop, Option.some.injEq] at hs
      subst hs
      exact ⟨afterTop_inv (by simpa [restrategize] using h.core) (by simpa [restrategize] using hle),
        by simp [afterTop, restrategize]⟩
    | remove p =>
      simp only [stepTop, Option.some.injEq] at hs
      subst hs
      exact ⟨afterTop_inv (by simpa [restrategize] using h.core) (by simpa [restrategize] using hle),
        by simp [afterTop, restrategize]⟩
    | feedback p =>
      simp only [stepTop] at hs
      split at hs
      · rename_i hp
        exact consume_generic s _ p afterTop s' hs h hp rfl rfl rfl rfl (by simp [*])
          (fun t hc hl _ => ⟨afterTop_inv hc hl, by simp [afterTop]⟩)
      · cases hs
    | none =>
      simp only [stepTop, Option.some.injEq] at hs
      subst hs
      exact ⟨afterTop_inv h.core hle, by simp [afterTop]⟩
  | «calc» =>
    simp only [step] at hs
    split at hs <;> try (cases hs; done)
    all_goals try (rename_i ph p rest hpc; exact stepPoll_inv s s' ph p rest _ h hpc hs)
    rename_i hpc
    simp only [Option.some.injEq] at hs
    subst hs
    exact stepCalc_inv div s h
  | consume p =>
    simp only [step] at hs
    split at hs <;> try (cases hs; done)
    all_goals try (rename_i ph p rest hpc; exact stepPoll_inv s s' ph p rest _ h hpc hs)
    · -- waitFb
      split at hs
      · rename_i hp
        refine consume_generic s _ p afterWaitFb s' hs h hp rfl rfl rfl rfl (by simp [*]) (fun t hc hl hnf => ?_)
        unfold afterWaitFb
        split
        · refine ⟨⟨hc, ?_, by simp⟩, rfl⟩
          simp only [capOk, Dist.total_zeroAll]; omega
        · exact ⟨⟨hc, by simpa [capOk] using hl, by simp⟩, rfl⟩
      · cases hs
    · -- limited k
      rename_i k hpc
      split at hs
      · cases hs
      · rename_i hcond
        have hp : p ∈ s.pending := by
          by_cases hin : p ∈ s.pending
          · exact hin
          · exact absurd (Or.inr hin) hcond
        exact consume_generic s _ p (fun t => { t with pc := .limited (k - 1) }) s' hs h hp rfl rfl rfl rfl
          (by simp [*]) (fun t hc hl _ => ⟨⟨hc, by simpa [capOk] using hl, by simp⟩, rfl⟩)
    · -- drain
      rename_i e hpc
      split at hs
      · cases hs
      · rename_i hcond
        have hp : p ∈ s.pending := by
          by_cases hin : p ∈ s.pending
          · exact hin
          · exact absurd (Or.inr hin) hcond
        simp only [Option.some.injEq] at hs
        subst hs
        have spec := decActual_spec { s with pending := s.pending.erase p } p s.pending h.core hp rfl
        generalize decActual { s with pending := s.pending.erase p } p = X at spec ⊢
        obtain ⟨h1, h2, _, h5, h6⟩ := spec
        simp only at h1 h2 h6
        refine ⟨⟨h5, ?_, by rw [h1]; exact h.nofault⟩, h2⟩
        rw [h2, h1, hpc]
        simp only [capOk]
        omega
  | stopSeen =>
    simp only [step] at hs
    split at hs <;> try (cases hs; done)
    all_goals try (rename_i ph p rest hpc; exact stepPoll_inv s s' ph p rest _ h hpc hs)
    · -- waitFb
      split at hs
      · cases hs
        unfold afterWaitFb
        split
        · refine ⟨⟨h.core, ?_, by simp⟩, rfl⟩
          simp only [capOk, Dist.total_zeroAll]; omega
        · exact ⟨⟨h.core, by simpa [capOk] using hle, by simp⟩, rfl⟩
      · cases hs
    · -- limited
      split at hs
      · cases hs; exact ⟨Inv.to_plain h rfl rfl rfl rfl (by rcases nextRound_pc s with e | e <;> simp [e]) (by rcases nextRound_pc s with e | e <;> simp [e]), rfl⟩
      · cases hs
    · -- drain
      split at hs
      · cases hs; exact ⟨Inv.to_plain h rfl rfl rfl rfl (by simp) (by simp), rfl⟩
      · cases hs
  | pollItem =>
    simp only [step] at hs
    split at hs <;> try (cases hs; done)
    all_goals try (rename_i ph p rest hpc; exact stepPoll_inv s s' ph p rest _ h hpc hs)
  | pollDrop =>
    simp only [step] at hs
    split at hs <;> try (cases hs; done)
    all_goals try (rename_i ph p rest hpc; exact stepPoll_inv s s' ph p rest _ h hpc hs)
  | pollClosed =>
    simp only [step] at hs
    split at hs <;> try (cases hs; done)
    all_goals try (rename_i ph p rest hpc; exact stepPoll_inv s s' ph p rest _ h hpc hs)
  | pollEmpty =>
    simp only [step] at hs
    split at hs <;> try (cases hs; done)
    all_goals try (rename_i ph p rest hpc; exact stepPoll_inv s s' ph p rest _ h hpc hs)
  | skip =>
    simp only [step] at hs
    split at hs <;> try (cases hs; done)
    all_goals try (rename_i ph p rest hpc; exact stepPoll_inv s s' ph p rest _ h hpc hs)
  | recalc =>
    simp only [step] at hs
    split at hs <;> try (cases hs; done)
    all_goals try (rename_i ph p rest hpc; exact stepPoll_inv s s' ph p rest _ h hpc hs)
    · rename_i ph hpc
      split at hs
      · simp only [Option.some.injEq] at hs
        subst hs
        exact stepRecalc_inv div s h ph [] hpc
      · cases hs
  | endRound =>
    simp only [step] at hs
    split at hs <;> try (cases hs; done)
    all_goals try (rename_i ph p rest hpc; exact stepPoll_inv s s' ph p rest _ h hpc hs)
    · split at hs
      · cases hs
      · split at hs
        · cases hs; exact ⟨Inv.to_plain h rfl rfl rfl rfl (by simp) (by simp), rfl⟩
        · cases hs; exact ⟨Inv.to_plain h rfl rfl rfl rfl (by simp) (by simp), rfl⟩
  | limitedStop =>
    simp only [step] at hs
    split at hs <;> try (cases hs; done)
    all_goals try (rename_i ph p rest hpc; exact stepPoll_inv s s' ph p rest _ h hpc hs)
    · cases hs
      exact ⟨Inv.to_plain h rfl rfl rfl rfl (by rcases nextRound_pc s with e | e <;> simp [e]) (by rcases nextRound_pc s with e | e <;> simp [e]), rfl⟩
  | exit =>
    simp only [step] at hs
    split at hs <;> try (cases hs; done)
    all_goals try (rename_i ph p rest hpc; exact stepPoll_inv s s' ph p rest _ h hpc hs)
    · split at hs
      · cases hs; exact ⟨Inv.to_plain h rfl rfl rfl rfl (by simp) (by simp), rfl⟩
      · cases hs

/-- the invariant along every run -/
theorem run_inv (div : DivFn) (acts : List Act) (s s' : St) (h : Inv s) (hr : run div s acts = some s') :
    Inv s' ∧ s'.cfg = s.cfg := by
  induction acts generalizing s with
  | nil => simp [run] at hr; subst hr; exact ⟨h, rfl⟩
  | cons a as ih =>
    simp only [run] at hr
    split at hr
    · rename_i s1 hs1
      obtain ⟨h1, hc1⟩ := step_inv div s s1 a h hs1
      obtain ⟨h2, hc2⟩ := ih s1 h1 hr
      exact ⟨h2, by rw [hc2, hc1]⟩
    · cases hr

/-- in-flight items never exceed the occupied handlers the discipline accounts for -/
theorem inflight_le_actual {s : St} (h : Inv s) : s.inflight.total ≤ s.actual.total := by
  have := h.core.tot; omega

/-- a state with nothing delivered, nothing pending and a legal control state -/
def Fresh (s : St) : Prop :=
  s.actual = [] ∧ s.inflight = [] ∧ s.pending = [] ∧ (s.pc = .calc ∨ s.pc = .top)

theorem fresh_inv {s : St} (h : Fresh s) : Inv s := by
  obtain ⟨ha, hi, hp, hpc⟩ := h
  refine ⟨by rw [ha, hi, hp]; exact ⟨fun _ => by simp, by simp, Dist.nodupKeys_nil⟩, ?_, ?_⟩
  · rw [ha]; rcases hpc with hpc | hpc <;> simp [hpc, capOk]
  · rcases hpc with hpc | hpc <;> simp [hpc]

/-- **C01 (capacity).**  From any fresh state — whatever priorities, inputs, strategic
    distribution, divider (faulty or not), version — after ANY sequence of environment and
    discipline actions the number of items handed out and not yet released is at most
    HandlersQuantity, and no unsigned subtraction of the Go code has wrapped. -/
theorem c01_capacity (div : DivFn) (s0 s : St) (acts : List Act) (h0 : Fresh s0)
    (hr : run div s0 acts = some s) :
    s.inflight.total ≤ s0.cfg.H ∧ s.pc ≠ .fault := by
  obtain ⟨hinv, hcfg⟩ := run_inv div acts s0 s (fresh_inv h0) hr
  have h1 := inflight_le_actual hinv
  have h2 := capOk_weaken hinv.cap
  rw [hcfg] at h2
  exact ⟨by omega, hinv.nofault⟩

/-- the constructors produce fresh states -/
theorem initV2_fresh (div : DivFn) (keys : List (Nat × Bool)) (H : Nat) (s : St)
    (h : initV2 div keys H = .ok s) : Fresh s ∧ s.cfg.H = H := by
  unfold initV2 at h
  split at h
  · cases h
  · cases h; exact ⟨⟨rfl, rfl, rfl, Or.inl rfl⟩, rfl⟩

theorem initV1_fresh (div : DivFn) (keys : List (Nat × Bool)) (H : Nat) :
    Fresh (initV1 div keys H) ∧ (initV1 div keys H).cfg.H = H :=
  ⟨⟨rfl, rfl, rfl, Or.inr rfl⟩, rfl⟩

/-- **C01 for the v2 constructor** -/
theorem c01_v2 (div : DivFn) (keys : List (Nat × Bool)) (H : Nat) (s0 s : St) (acts : List Act)
    (h0 : initV2 div keys H = .ok s0) (hr : run div s0 acts = some s) :
    s.inflight.total ≤ H ∧ s.pc ≠ .fault := by
  obtain ⟨hf, hH⟩ := initV2_fresh div keys H s0 h0
  have := c01_capacity div s0 s acts hf hr
  rw [hH] at this; exact this

/-- **C01 for the v1 constructor** (the action alphabet contains AddInput / RemoveInput /
    Stop / GracefulStop) -/
theorem c01_v1 (div : DivFn) (keys : List (Nat × Bool)) (H : Nat) (s : St) (acts : List Act)
    (hr : run div (initV1 div keys H) acts = some s) :
    s.inflight.total ≤ H ∧ s.pc ≠ .fault := by
  obtain ⟨hf, hH⟩ := initV1_fresh div keys H
  have := c01_capacity div _ s acts hf hr
  rw [hH] at this; exact this

/-! ### what the driver executes is a run of the machine -/

theorem drive_is_run (div : DivFn) (fuel : Nat) (s : St) : ∃ acts, run div s acts = some (drive div fuel s) := by
  induction fuel generalizing s with
  | zero => exact ⟨[], rfl⟩
  | succ n ih =>
    simp only [drive]
    split
    · exact ⟨[], rfl⟩
    · rename_i a _
      split
      · exact ⟨[], rfl⟩
      · rename_i s' hs'
        obtain ⟨acts, hacts⟩ := ih s'
        exact ⟨a :: acts, by simp [run, hs', hacts]⟩

/-- **C01 for the simplified disciplines.**  Each of the H handler goroutines holds at
    most the one item it received and has not yet released, so the number of concurrent
    `Handle` calls is bounded by the in-flight count: modelled as `handling ≤ inflight`
    pointwise, hence `≤ H`. -/
theorem c01_simple (div : DivFn) (s0 s : St) (acts : List Act) (h0 : Fresh s0)
    (hr : run div s0 acts = some s) (handling : Nat) (hh : handling ≤ s.inflight.total) :
    handling ≤ s0.cfg.H := by
  have := (c01_capacity div s0 s acts h0 hr).1; omega

/-! Non-vacuity: a concrete run that fills all handlers. -/
example :
    (match initV2 (fun _ => fair) [(2, true), (1, true)] 2 with
     | .ok s0 =>
       (run (fun _ => fair) s0 [.arrive 2 7, .arrive 1 8, .calc, .pollItem, .skip, .pollItem]).map
         (fun s => (s.inflight.total, s.delivered))
     | .error _ => none) = some (2, [(2, 2, 7), (1, 1, 8)]) := by decide

end Cqos.C01
