import Cqos.Props.C04
/-
  Finding F2 (C04, window clause at the RECEIVING side).  The theorems of Props/C04.lean bound the
  times at which the discipline's sends complete.  The output channel of `v2/limit` is buffered
  (capacity `1 + cap(Input)`), so what a consumer sees is the limit machine composed with a FIFO
  buffer.  For that composition the window clause "any window of length W contains at most
  Quantity·(⌊W/Interval⌋+2) output elements … however the consumer reads" is FALSE: a consumer that
  stays away and then takes everything receives the whole buffer plus two more portions at the
  same clock reading.  This file states the composition and proves the negation by a concrete,
  kernel-checked witness (the same scenario fails against the real code: black-box pattern
  `paused-consumer`, `audit/hunt-D/c04_output_buffer_burst_test.go`).
-/
namespace Cqos.C04

/-- the limit machine, its output buffer, and what the consumer has received (element, reading) -/
structure BSt where
  lim : LSt
  cap : Nat
  buf : List Nat
  got : List (Nat × Nat)
  deriving Repr

inductive BAct
  | lim (a : LAct)      -- a step of the discipline; a send needs room in the buffer
  | take (t : Nat)      -- the consumer receives the oldest buffered element at reading `t`
  deriving Repr, DecidableEq

def bstep (s : BSt) : BAct → Option BSt
  | .lim (.sent t) =>
    if s.buf.length < s.cap then
      (match s.lim.pc with
       | .holding _ _ x => (lstep s.lim (.sent t)).map (fun l => { s with lim := l, buf := s.buf ++ [x] })
       | _ => none)
    else none
  | .lim a => (lstep s.lim a).map (fun l => { s with lim := l })
  | .take t =>
    match s.buf with
    | [] => none
    | x :: r => if s.lim.now ≤ t then some { s with buf := r, got := s.got ++ [(x, t)] } else none

def brun (s : BSt) : List BAct → Option BSt
  | [] => some s
  | a :: as => match bstep s a with
    | some s' => brun s' as
    | none => none

def binit (cfg : LCfg) (cap t0 : Nat) : BSt := { lim := linit cfg t0, cap := cap, buf := [], got := [] }

/-- one portion of Quantity 1 at reading `t`: start, receive `x` from the input, send it, read the
    duration; the pause that follows ends at `w` -/
def portion (x t w : Nat) : List BAct :=
  [.lim (.start t), .lim (.recv x), .lim (.sent t), .lim (.batchEnd t), .lim (.wake w)]

/-- **F2, on the model.** Quantity 1 per Interval 10, output buffer of capacity 3.  The consumer
    stays away until reading 100; the discipline fills the buffer (readings 0, 10, 20) and blocks
    in its fourth send.  At reading 100 the consumer takes everything as fast as it can: the three
    buffered elements, the element whose send was blocked, and — the blocked portion having taken
    longer than Interval, no pause follows — the next one: FIVE elements are received at reading
    100, where the window clause allows `Quantity·(⌊0/Interval⌋+2) = 2`. -/
theorem c04_receive_side_window_fails :
    (brun (binit ⟨1, 10⟩ 3 0)
      (portion 1 0 10 ++ portion 2 10 20 ++ portion 3 20 30 ++
       [.lim (.start 30), .lim (.recv 4),            -- the send of 4 blocks: the buffer is full
        .take 100, .take 100, .take 100,             -- the consumer is back
        .lim (.sent 100), .take 100,                 -- room: 4 is sent and received
        .lim (.batchEnd 100), .lim (.wake 100),      -- the portion took 70 ≥ Interval: no pause
        .lim (.start 100), .lim (.recv 5), .lim (.sent 100), .take 100])).map
      (fun s => ((s.got.filter (fun e => e.2 == 100)).length, s.lim.sent.map (·.2))) =
      some (5, [0, 10, 20, 100, 100]) := by decide

/-- … while the send-side clause holds for the very same run (`c04_window_count` is a theorem for
    every run): at most 2 sends complete in any window shorter than Interval. -/
example : ([0, 10, 20, 100, 100].filter (fun t => decide (100 ≤ t ∧ t ≤ 100))).length ≤ 1 * (0 / 10 + 2) := by decide

end Cqos.C04
