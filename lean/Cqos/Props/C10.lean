import Cqos.Lemmas.JoinEffects
import Cqos.Rate
/-
  Property C10 — buffered elements are flushed within Timeout plus inaccuracy.

  What is proved (for every action list whose clock readings do not decrease):
  * `calcInterruptInterval` yields a ticker period τ with `1 ≤ τ`, `τ·⌊100/inacc⌋ ≤ Timeout`
    and `1 ≤ ⌊100/inacc⌋ ≤ 100`, and fails exactly as the code does;
  * the timer is NOT reset per element: while the buffer is non-empty `passAt` is no later
    than the reading at which the oldest buffered element was accepted (`firstAt`);
  * hence a ticker firing processed at a reading `t ≥ firstAt + Timeout` flushes the buffer.
  With ticker firings processed at most τ + ε apart and a ready consumer this bounds the
  residence time of an element by `Timeout + τ + ε ≤ Timeout·(1 + 1/⌊100/inacc⌋) + ε`.
  The tick density and ε (scheduling latency) are properties of the Go runtime: they are
  hypotheses here, measured with slack by the black-box check (partial).
-/
namespace Cqos.C10
open Cqos.C03

/-! ### the interrupt interval -/

theorem c10_interval_v2 (timeout : Int) (inacc : Nat) (τ : Int)
    (h : calcInterruptIntervalV2 timeout inacc = .ok τ) (hpos : 0 < timeout) :
    1 ≤ τ ∧ τ * ((100 / inacc : Nat) : Int) ≤ timeout ∧ 1 ≤ 100 / inacc ∧ 100 / inacc ≤ 100 ∧ 1 ≤ inacc := by
  unfold calcInterruptIntervalV2 at h
  have hnp : ¬ timeout ≤ 0 := by omega
  simp only [hnp, if_false] at h
  split at h
  · cases h
  · rename_i hi
    split at h
    · cases h
    · rename_i hd
      split at h
      · cases h
      · rename_i hz
        cases h
        have hdpos : 0 < 100 / inacc := Nat.pos_of_ne_zero hd
        have hdi : (0 : Int) < ((100 / inacc : Nat) : Int) := by exact_mod_cast hdpos
        have hle : 100 / inacc ≤ 100 := Nat.div_le_self _ _
        have hmul := Int.ediv_mul_le timeout (Int.ne_of_gt hdi)
        have hnn : 0 ≤ timeout / ((100 / inacc : Nat) : Int) := Int.ediv_nonneg (by omega) (by omega)
        refine ⟨by omega, hmul, hdpos, hle, by omega⟩

theorem c10_interval_v2_nonpositive (timeout : Int) (inacc : Nat) (h : timeout ≤ 0) :
    calcInterruptIntervalV2 timeout inacc = .ok 0 := by simp [calcInterruptIntervalV2, h]

theorem c10_interval_v2_errors (timeout : Int) (inacc : Nat) (hpos : 0 < timeout) :
    (inacc = 0 → calcInterruptIntervalV2 timeout inacc = .error .inaccuracyZero) ∧
    (100 < inacc → calcInterruptIntervalV2 timeout inacc = .error .inaccuracyTooBig) := by
  have hnp : ¬ timeout ≤ 0 := by omega
  constructor
  · intro h; simp [calcInterruptIntervalV2, hnp, h]
  · intro h
    have h0 : inacc ≠ 0 := by omega
    have hd : 100 / inacc = 0 := Nat.div_eq_of_lt h
    simp [calcInterruptIntervalV2, hnp, h0, hd]

theorem c10_interval_v1 (timeout : Int) (inacc : Nat) (τ : Int)
    (h : calcInterruptIntervalV1 timeout inacc = .ok τ) (hpos : 0 < timeout) :
    10000000 ≤ τ ∧ τ * ((100 / inacc : Nat) : Int) ≤ timeout ∧ 1 ≤ 100 / inacc ∧ 100 / inacc ≤ 100 := by
  unfold calcInterruptIntervalV1 at h
  have hnp : ¬ timeout ≤ 0 := by omega
  simp only [hnp, if_false] at h
  split at h
  · cases h
  · split at h
    · cases h
    · rename_i hd
      split at h
      · cases h
      · rename_i hz
        cases h
        have hdpos : 0 < 100 / inacc := Nat.pos_of_ne_zero hd
        have hdi : (0 : Int) < ((100 / inacc : Nat) : Int) := by exact_mod_cast hdpos
        have hmul := Int.ediv_mul_le timeout (Int.ne_of_gt hdi)
        simp only [reliablyMeasurable] at hz
        exact ⟨by omega, hmul, hdpos, Nat.div_le_self _ _⟩

/-! ### the timer is not reset per element -/

/-- `passAt` is in the past, and not later than the acceptance of the oldest buffered element -/
structure FInv (s : JSt) (now : Nat) : Prop where
  past : s.passAt ≤ now
  oldest : s.pc = .run → s.buf ≠ [] → s.passAt ≤ s.firstAt ∧ s.firstAt ≤ now

theorem f_mono {s : JSt} {now t : Nat} (h : FInv s now) (ht : now ≤ t) : FInv s t :=
  ⟨Nat.le_trans h.past ht, fun hr hb => ⟨(h.oldest hr hb).1, Nat.le_trans (h.oldest hr hb).2 ht⟩⟩

theorem f_jpass {s : JSt} {now t : Nat} (h : FInv s now) (ht : now ≤ t) (tk : Bool) (nx : Option (Nat × List Nat)) :
    FInv (jpass s t tk nx) t ∧ ((jpass s t tk nx).pc = .run → (jpass s t tk nx).buf = [] ∧ (jpass s t tk nx).passAt = t) := by
  by_cases hb : s.buf = []
  · rw [jpass_empty_eq s t tk nx hb]
    exact ⟨⟨Nat.le_refl _, fun _ hb' => absurd hb hb'⟩, fun _ => ⟨hb, rfl⟩⟩
  · by_cases hc : s.cfg.noCopy = true
    · rw [jpass_nocopy_eq s t tk nx hb hc]
      exact ⟨⟨Nat.le_trans h.past ht, fun hr => by simp at hr⟩, fun hr => by simp at hr⟩
    · rw [jpass_copy_eq s t tk nx hb (by simpa using hc)]
      exact ⟨⟨Nat.le_refl _, fun _ hb' => absurd rfl hb'⟩, fun _ => ⟨rfl, rfl⟩⟩

theorem f_appendPath {s : JSt} {now t : Nat} (h : FInv s now) (ht : now ≤ t) (hrun : s.pc = .run) (xs : List Nat) :
    FInv (jappendPath s xs t) t := by
  have happ : FInv { s with buf := s.buf ++ xs, events := s.events ++ [JEvent.write], firstAt := (if s.buf = [] then t else s.firstAt) } t := by
    refine ⟨Nat.le_trans h.past ht, fun _ _ => ?_⟩
    by_cases hb : s.buf = []
    · simp only [hb, if_true]; exact ⟨Nat.le_trans h.past ht, Nat.le_refl _⟩
    · simp only [hb, if_false]
      have := h.oldest hrun hb
      exact ⟨this.1, Nat.le_trans this.2 ht⟩
  by_cases hlt : s.buf.length + xs.length < s.cfg.size
  · rw [jappendPath_stay_eq s xs t hlt]; exact happ
  · rw [jappendPath_full_eq s xs t hlt]; exact (f_jpass happ (Nat.le_refl _) false none).1

theorem f_forward {s : JSt} {t : Nat} (hb : s.buf = []) (hp : s.passAt ≤ t) (id : Nat) (xs : List Nat) :
    FInv (jforward s id xs t) t := by
  by_cases hc : s.cfg.noCopy = true
  · rw [jforward_nocopy_eq s id xs t hc]
    exact ⟨hp, fun hr => by simp at hr⟩
  · rw [jforward_copy_eq s id xs t (by simpa using hc)]
    exact ⟨Nat.le_refl _, fun _ hb' => absurd hb hb'⟩

theorem f_cont {s : JSt} {now t : Nat} (h : FInv s now) (ht : now ≤ t) (hrun : s.pc = .run)
    (hpre : s.cfg.size ≤ xs.length → s.buf = []) (id : Nat) : FInv (jcont s id xs t) t := by
  unfold jcont
  by_cases hbig : xs.length ≥ s.cfg.size
  · simp only [hbig, if_true]
    exact f_forward (s := { s with passAt := t }) (hpre hbig) (Nat.le_refl _) id xs
  · simp only [hbig, if_false]
    exact f_appendPath h ht hrun xs

theorem f_jlog {s : JSt} {now : Nat} (h : FInv s now) (xs : List Nat) : FInv (jlog s xs) now := ⟨h.past, h.oldest⟩

theorem f_process {s : JSt} {now t : Nat} (h : FInv s now) (ht : now ≤ t) (hrun : s.pc = .run)
    (id : Nat) (xs : List Nat) : FInv (jprocess s id xs t) t := by
  unfold jprocess
  split
  · exact f_appendPath (f_jlog h xs) ht (by simpa [jlog] using hrun) xs
  · by_cases hnp : needPass s xs = true
    · simp only [hnp, if_true]
      split
      · exact (f_jpass h ht false _).1
      · rename_i hc
        obtain ⟨h1, h2⟩ := f_jpass (f_jlog h xs) ht false none
        have hb : s.buf ≠ [] := by
          simp only [needPass, Bool.and_eq_true, Bool.not_eq_true', List.isEmpty_eq_false_iff] at hnp
          exact hnp.2
        have e := jpass_copy_eq (jlog s xs) t false none (by simpa [jlog] using hb) (by simpa [jlog] using hc)
        rw [e] at h1 ⊢
        exact f_cont h1 (Nat.le_refl _) (by simpa [jlog] using hrun) (fun _ => rfl) id
    · have hnp' : needPass s xs = false := by simpa using hnp
      simp only [hnp', Bool.false_eq_true, if_false]
      refine f_cont (f_jlog h xs) ht (by simpa [jlog] using hrun) ?_ id
      intro hbig
      simp only [needPass, Bool.and_eq_false_iff, Bool.or_eq_false_iff, decide_eq_false_iff_not,
        Bool.not_eq_false', List.isEmpty_iff] at hnp'
      rcases hnp' with ⟨h1, _⟩ | h2
      · exact absurd (by simpa [jlog] using hbig) h1
      · simpa [jlog] using h2

/-- the clock reading attached to an action (`stop` reads no clock) -/
def clockOf : JAct → Option Nat
  | .item _ _ t => some t | .tick t => some t | .close t => some t | .release t => some t
  | .stopSeen t => some t | .stopFlush t => some t | .stop => none

/-- **one step keeps the timer invariant** when its clock reading is not in the past -/
theorem f_step (s s' : JSt) (a : JAct) (now : Nat) (hj : JInv s) (h : FInv s now)
    (hclk : ∀ t, clockOf a = some t → now ≤ t) (hs : jstep s a = some s') :
    FInv s' ((clockOf a).getD now) := by
  unfold jstep at hs
  split at hs
  · rename_i id xs t hpc
    have ht := hclk t rfl
    split at hs
    · cases hs
    · split at hs
      · cases hs; exact f_mono h ht
      · cases hs; exact f_process h ht hpc id xs
  · rename_i t hpc
    have ht := hclk t rfl
    split at hs
    · cases hs
    · split at hs
      · cases hs; exact (f_jpass h ht true none).1
      · cases hs; exact f_mono h ht
  · rename_i t hpc
    have ht := hclk t rfl
    obtain ⟨h1, _⟩ := f_jpass h ht false none
    simp only at hs
    split at hs
    · cases hs; exact ⟨h1.past, fun hr => by simp_all⟩
    · cases hs; exact ⟨h1.past, fun hr => by simp at hr⟩
  · rename_i next t hpc
    have ht := hclk t rfl
    simp only at hs
    have hbase : ∀ u : JSt, u.passAt = t → u.buf = [] → FInv u t := by
      intro u hp hb; exact ⟨by rw [hp]; exact Nat.le_refl _, fun _ hb' => absurd hb hb'⟩
    cases next with
    | none =>
      simp only [Option.some.injEq] at hs
      subst hs
      split
      · exact hbase _ rfl (by assumption)
      · exact hbase _ rfl rfl
    | some nx =>
      obtain ⟨id, xs⟩ := nx
      have hncl : s.closing = false := by
        cases hc : s.closing with
        | false => rfl
        | true => exact absurd hpc ((hj.closingPc hc).2 id xs)
      simp only [Option.some.injEq] at hs
      subst hs
      split
      · exact f_cont (f_jlog (hbase _ rfl (by assumption)) xs) (Nat.le_refl _) (by simp [jlog, hncl])
          (fun _ => by simpa [jlog]) id
      · exact f_cont (f_jlog (hbase _ rfl rfl) xs) (Nat.le_refl _) (by simp [jlog, jafterPass, hncl])
          (fun _ => by simp [jlog, jafterPass]) id
  · split at hs
    · cases hs; exact ⟨h.past, h.oldest⟩
    · cases hs
  · rename_i t hpc
    have ht := hclk t rfl
    split at hs
    · cases hs; exact ⟨Nat.le_refl _, fun hr => by simp at hr⟩
    · cases hs
  · rename_i t hpc
    have ht := hclk t rfl
    split at hs
    · cases hs
      obtain ⟨h1, _⟩ := f_jpass h ht false none
      exact ⟨h1.past, fun hr => by simp at hr⟩
    · cases hs
  · rename_i n t hpc
    have ht := hclk t rfl
    split at hs
    · cases hs; exact ⟨Nat.le_trans h.past ht, fun hr => by simp at hr⟩
    · cases hs
  · cases hs

/-- a run whose clock readings never decrease, starting at reading `now` -/
def monoRun : JSt → Nat → List JAct → Option (JSt × Nat)
  | s, now, [] => some (s, now)
  | s, now, a :: as =>
    match clockOf a with
    | some t => if now ≤ t then (match jstep s a with | some s' => monoRun s' t as | none => none) else none
    | none => (match jstep s a with | some s' => monoRun s' now as | none => none)

theorem f_run (acts : List JAct) (s s' : JSt) (now now' : Nat) (hj : JInv s) (h : FInv s now)
    (hr : monoRun s now acts = some (s', now')) : FInv s' now' ∧ JInv s' := by
  induction acts generalizing s now with
  | nil => simp [monoRun] at hr; obtain ⟨rfl, rfl⟩ := hr; exact ⟨h, hj⟩
  | cons a as ih =>
    simp only [monoRun] at hr
    split at hr
    · rename_i t hc
      split at hr
      · rename_i hle
        split at hr
        · rename_i s1 hs1
          have := f_step s s1 a now hj h (fun t' ht' => by rw [hc] at ht'; cases ht'; exact hle) hs1
          rw [hc] at this
          exact ih s1 t (jstep_inv s s1 a hj hs1).1 this hr
        · cases hr
      · cases hr
    · rename_i hc
      split at hr
      · rename_i s1 hs1
        have := f_step s s1 a now hj h (fun t' ht' => by rw [hc] at ht'; cases ht') hs1
        rw [hc] at this
        exact ih s1 now (jstep_inv s s1 a hj hs1).1 this hr
      · cases hr

/-- **C10 (the timer is not reset per element).** Along any run with a monotone clock:
    while elements are buffered, `passAt` is not later than the reading at which the oldest
    of them was accepted. -/
theorem c10_passAt_le_oldest (cfg : JCfg) (t0 : Nat) (hsz : 0 < cfg.size) (acts : List JAct) (s : JSt) (now : Nat)
    (hr : monoRun (jinit cfg t0) t0 acts = some (s, now)) (hrun : s.pc = .run) (hb : s.buf ≠ []) :
    s.passAt ≤ s.firstAt ∧ s.firstAt ≤ now :=
  (f_run acts _ s t0 now (jinit_inv cfg t0 hsz)
    ⟨by simp [jinit], fun _ hb' => by simp [jinit] at hb'⟩ hr).1.oldest hrun hb

/-- **C10 (flush).** A ticker firing processed at a reading `t` with
    `t ≥ firstAt + Timeout` (the oldest buffered element has waited for `Timeout`) empties the
    buffer: it is written to the output (copy mode: at once; no-copy: handed out, awaiting
    release). -/
theorem c10_flush (cfg : JCfg) (t0 : Nat) (hsz : 0 < cfg.size) (acts : List JAct) (s : JSt) (now t : Nat)
    (hr : monoRun (jinit cfg t0) t0 acts = some (s, now)) (hrun : s.pc = .run) (hb : s.buf ≠ [])
    (hto : s.cfg.timeout ≠ 0) (hwait : s.firstAt + s.cfg.timeout ≤ t) :
    ∃ s', jstep s (.tick t) = some s' ∧ s'.out = s.out ++ [s.buf] := by
  have hp := (c10_passAt_le_oldest cfg t0 hsz acts s now hr hrun hb).1
  have hge : t - s.passAt ≥ s.cfg.timeout := by omega
  refine ⟨jpass s t true none, by simp [jstep, hrun, hto, hge], ?_⟩
  by_cases hc : s.cfg.noCopy = true
  · rw [jpass_nocopy_eq s t true none hb hc]
  · rw [jpass_copy_eq s t true none hb (by simpa using hc)]

/-! Non-vacuity: a slow trickle (one element every 40, Timeout 100): the second tick flushes
    although elements kept arriving. -/
example :
    (monoRun (jinit ⟨.join, 10, 100, false, false⟩ 0) 0
      [.item 1 [1] 10, .tick 30, .item 2 [2] 50, .tick 60, .item 3 [3] 90, .tick 95, .tick 125]).map
      (fun r => (r.1.out, r.1.buf)) = some ([[1, 2, 3]], []) := by decide

end Cqos.C10
