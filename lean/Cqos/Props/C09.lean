import Cqos.Lemmas.JoinEffects
/-
  Property C09 — a slice is cut short only by timeout or end of input.

  Untimed part: for join every slice that is not emitted by a ticker firing, by the
  closing of the input or by Stop has exactly JoinSize elements (run-level invariant, every
  action list); for unite the buffer is emitted before an input slice only if that slice
  would not fit (or is itself oversize), and after appending only when JoinSize is reached.
  Timed part: a ticker firing emits only when `Timeout` has elapsed since `passAt`, and
  `passAt` is never earlier than the previous emission (under a monotone clock).
-/
namespace Cqos.C09
open Cqos.C03

/-- emissions of one step of the JOIN machine: nothing, or exactly one slice which is
    emitted by a tick, or has exactly JoinSize elements, or comes from close / Stop -/
theorem join_step_emits (s s' : JSt) (a : JAct) (hj : JInv s) (hk : s.cfg.kind = .join)
    (hs : jstep s a = some s') :
    (s'.out = s.out ∧ s'.byTick = s.byTick) ∨
    (∃ o b, s'.out = s.out ++ [o] ∧ s'.byTick = s.byTick ++ [b] ∧
      (b = true ∨ o.length = s.cfg.size ∨ s'.closing = true ∨ s'.stopped = true)) := by
  have hpass : ∀ (u : JSt) (t : Nat) (tk : Bool), u.out = s.out → u.byTick = s.byTick →
      ((jpass u t tk none).out = s.out ∧ (jpass u t tk none).byTick = s.byTick) ∨
      ((jpass u t tk none).out = s.out ++ [u.buf] ∧ (jpass u t tk none).byTick = s.byTick ++ [tk]) := by
    intro u t tk ho hb
    by_cases hbuf : u.buf = []
    · left; rw [jpass_empty_eq u t tk none hbuf]; exact ⟨ho, hb⟩
    · right
      by_cases hc : u.cfg.noCopy = true
      · rw [jpass_nocopy_eq u t tk none hbuf hc]; simp [ho, hb]
      · rw [jpass_copy_eq u t tk none hbuf (by simpa using hc)]; simp [ho, hb]
  unfold jstep at hs
  split at hs
  · rename_i id xs t hpc
    split at hs
    · cases hs
    · rename_i hg
      split at hs
      · cases hs; exact Or.inl ⟨rfl, rfl⟩
      · cases hs
        have hx : xs.length = 1 := by
          by_cases hx : xs.length = 1
          · exact hx
          · exact absurd ⟨hk, hx⟩ hg
        have hsmall := hj.small hpc
        unfold jprocess
        simp only [hk]
        by_cases hlt : (jlog s xs).buf.length + xs.length < (jlog s xs).cfg.size
        · rw [jappendPath_stay_eq _ xs t hlt]; exact Or.inl ⟨rfl, rfl⟩
        · rw [jappendPath_full_eq _ xs t hlt]
          rcases hpass { jlog s xs with buf := (jlog s xs).buf ++ xs, events := (jlog s xs).events ++ [JEvent.write], firstAt := (if (jlog s xs).buf = [] then t else (jlog s xs).firstAt) } t false rfl rfl with h | h
          · exact Or.inl h
          · refine Or.inr ⟨_, false, h.1, h.2, Or.inr (Or.inl ?_)⟩
            simp [jlog] at hlt ⊢
            omega
  · rename_i t hpc
    split at hs
    · cases hs
    · split at hs
      · cases hs
        rcases hpass s t true rfl rfl with h | h
        · exact Or.inl h
        · exact Or.inr ⟨_, true, h.1, h.2, Or.inl rfl⟩
      · cases hs; exact Or.inl ⟨rfl, rfl⟩
  · rename_i t hpc
    simp only at hs
    rcases hpass s t false rfl rfl with h | h
    · split at hs <;> (cases hs; exact Or.inl h)
    · split at hs <;> (cases hs; exact Or.inr ⟨_, false, h.1, h.2, Or.inr (Or.inr (Or.inl rfl))⟩)
  · rename_i next t hpc
    simp only at hs
    cases next with
    | none =>
      simp only [Option.some.injEq] at hs
      subst hs
      split <;> exact Or.inl ⟨rfl, rfl⟩
    | some nx =>
      obtain ⟨id, xs⟩ := nx
      have := hj.awaitSome id xs hpc
      rw [hk] at this; cases this
  · split at hs
    · cases hs; exact Or.inl ⟨rfl, rfl⟩
    · cases hs
  · split at hs
    · cases hs; exact Or.inl ⟨rfl, rfl⟩
    · cases hs
  · rename_i t hpc
    split at hs
    · rename_i hst
      cases hs
      rcases hpass s t false rfl rfl with h | h
      · exact Or.inl h
      · refine Or.inr ⟨_, false, h.1, h.2, Or.inr (Or.inr (Or.inr ?_))⟩
        have : (jpass s t false none).stopped = s.stopped := by
          unfold jpass jsend jafterPass; split <;> (try split) <;> simp
        simp [this, hst.2]
    · cases hs
  · split at hs
    · cases hs; exact Or.inl ⟨rfl, rfl⟩
    · cases hs
  · cases hs

/-- closing and stopped are never reset -/
theorem flags_mono (s s' : JSt) (a : JAct) (hs : jstep s a = some s') :
    (s.closing = true → s'.closing = true) ∧ (s.stopped = true → s'.stopped = true) := by
  have hp : ∀ (u : JSt) (t : Nat) (tk : Bool) (nx : Option (Nat × List Nat)),
      (jpass u t tk nx).closing = u.closing ∧ (jpass u t tk nx).stopped = u.stopped := by
    intro u t tk nx; unfold jpass jsend jafterPass; split <;> (try split) <;> simp
  have hap : ∀ (u : JSt) (xs : List Nat) (t : Nat),
      (jappendPath u xs t).closing = u.closing ∧ (jappendPath u xs t).stopped = u.stopped := by
    intro u xs t; unfold jappendPath jappend; simp only; split
    · simp
    · exact ⟨(hp _ t false none).1, (hp _ t false none).2⟩
  have hfw : ∀ (u : JSt) (id : Nat) (xs : List Nat) (t : Nat),
      (jforward u id xs t).closing = u.closing ∧ (jforward u id xs t).stopped = u.stopped := by
    intro u id xs t; unfold jforward jsend; split <;> (try split) <;> simp
  have hct : ∀ (u : JSt) (id : Nat) (xs : List Nat) (t : Nat),
      (jcont u id xs t).closing = u.closing ∧ (jcont u id xs t).stopped = u.stopped := by
    intro u id xs t; unfold jcont; split
    · exact hfw _ id xs t
    · exact hap _ xs t
  have hpr : ∀ (u : JSt) (id : Nat) (xs : List Nat) (t : Nat),
      (jprocess u id xs t).closing = u.closing ∧ (jprocess u id xs t).stopped = u.stopped := by
    intro u id xs t
    unfold jprocess
    split
    · exact hap _ xs t
    · split
      · split
        · exact hp _ t false _
        · have h1 := hct (jpass (jlog u xs) t false none) id xs t
          have h2 := hp (jlog u xs) t false none
          exact ⟨by rw [h1.1, h2.1]; rfl, by rw [h1.2, h2.2]; rfl⟩
      · exact hct (jlog u xs) id xs t
  unfold jstep at hs
  split at hs
  · split at hs
    · cases hs
    · split at hs
      · cases hs; exact ⟨id, id⟩
      · cases hs; rename_i i xs t _ _ _; exact ⟨fun h => by rw [(hpr s i xs t).1]; exact h, fun h => by rw [(hpr s i xs t).2]; exact h⟩
  · split at hs
    · cases hs
    · split at hs
      · cases hs; rename_i t _ _ _; exact ⟨fun h => by rw [(hp s t true none).1]; exact h, fun h => by rw [(hp s t true none).2]; exact h⟩
      · cases hs; exact ⟨id, id⟩
  · rename_i t _
    simp only at hs
    split at hs <;> (cases hs; exact ⟨fun _ => rfl, fun h => by simp [(hp s t false none).2, h]⟩)
  · rename_i next t hpc
    simp only at hs
    cases next with
    | none =>
      simp only [Option.some.injEq] at hs; subst hs
      split <;> exact ⟨fun h => by simpa [jafterPass] using h, fun h => by simpa [jafterPass] using h⟩
    | some nx =>
      obtain ⟨i, xs⟩ := nx
      simp only [Option.some.injEq] at hs; subst hs
      split
      · exact ⟨fun h => by rw [(hct _ i xs t).1]; simpa [jlog] using h, fun h => by rw [(hct _ i xs t).2]; simpa [jlog] using h⟩
      · exact ⟨fun h => by rw [(hct _ i xs t).1]; simpa [jlog, jafterPass] using h, fun h => by rw [(hct _ i xs t).2]; simpa [jlog, jafterPass] using h⟩
  · split at hs
    · cases hs; exact ⟨id, fun _ => rfl⟩
    · cases hs
  · split at hs
    · cases hs; exact ⟨id, id⟩
    · cases hs
  · rename_i t _
    split at hs
    · cases hs; exact ⟨fun h => by simp [(hp s t false none).1, h], fun h => by simp [(hp s t false none).2, h]⟩
    · cases hs
  · split at hs
    · cases hs; exact ⟨id, id⟩
    · cases hs
  · cases hs

/-- every slice not emitted by a ticker firing has exactly JoinSize elements -/
def AllExact (s : JSt) : Prop :=
  s.out.length = s.byTick.length ∧
  ((s.closing = false ∧ s.stopped = false) →
    ∀ ob ∈ List.zip s.out s.byTick, ob.2 = false → ob.1.length = s.cfg.size)

theorem exact_step (s s' : JSt) (a : JAct) (hj : JInv s) (hk : s.cfg.kind = .join) (h : AllExact s)
    (hs : jstep s a = some s') : AllExact s' := by
  have hcfg := (jstep_inv s s' a hj hs).2
  have hm := flags_mono s s' a hs
  rcases join_step_emits s s' a hj hk hs with ⟨ho, hb⟩ | ⟨o, b, ho, hb, hc⟩
  · refine ⟨by rw [ho, hb]; exact h.1, fun hf ob hob hf2 => ?_⟩
    rw [ho, hb] at hob
    rw [hcfg]
    refine h.2 ⟨?_, ?_⟩ ob hob hf2
    · cases hc : s.closing with
      | false => rfl
      | true => have := hm.1 hc; simp [hf.1] at this
    · cases hc : s.stopped with
      | false => rfl
      | true => have := hm.2 hc; simp [hf.2] at this
  · refine ⟨by rw [ho, hb]; simp [h.1], fun hf ob hob hf2 => ?_⟩
    rw [ho, hb, List.zip_append h.1] at hob
    simp only [List.zip_cons_cons, List.zip_nil_right, List.mem_append, List.mem_singleton] at hob
    rw [hcfg]
    rcases hob with hob | rfl
    · refine h.2 ⟨?_, ?_⟩ ob hob hf2
      · cases hc : s.closing with
        | false => rfl
        | true => have := hm.1 hc; simp [hf.1] at this
      · cases hc : s.stopped with
        | false => rfl
        | true => have := hm.2 hc; simp [hf.2] at this
    · simp only at hf2
      rcases hc with rfl | hlen | hcl | hst
      · cases hf2
      · exact hlen
      · simp [hf.1] at hcl
      · simp [hf.2] at hst

/-- **C09 (join, untimed): every slice except those cut by a timeout, by the end of the
    input or by Stop has exactly JoinSize elements** — in particular, without a timeout and
    before the input closes, every slice has exactly JoinSize elements (the unique greedy
    batching), for every action list. -/
theorem c09_join_exact (cfg : JCfg) (t0 : Nat) (hsz : 0 < cfg.size) (hk : cfg.kind = .join)
    (acts : List JAct) (s : JSt) (hr : jrun (jinit cfg t0) acts = some s)
    (hopen : s.closing = false) (hnstop : s.stopped = false) :
    ∀ ob ∈ List.zip s.out s.byTick, ob.2 = false → ob.1.length = cfg.size := by
  have key : ∀ (acts : List JAct) (u u' : JSt), JInv u → u.cfg.kind = .join → AllExact u →
      jrun u acts = some u' → AllExact u' ∧ u'.cfg = u.cfg := by
    intro acts
    induction acts with
    | nil => intro u u' _ _ he hr; simp [jrun] at hr; subst hr; exact ⟨he, rfl⟩
    | cons a as ih =>
      intro u u' hj hk he hr
      simp only [jrun] at hr
      split at hr
      · rename_i u1 hu1
        have h1 := jstep_inv u u1 a hj hu1
        have := ih u1 u' h1.1 (by rw [h1.2]; exact hk) (exact_step u u1 a hj hk he hu1) hr
        exact ⟨this.1, by rw [this.2, h1.2]⟩
      · cases hr
  have h0 : AllExact (jinit cfg t0) := ⟨by simp [jinit], fun _ ob hob => by simp [jinit] at hob⟩
  obtain ⟨he, hc⟩ := key acts _ s (jinit_inv cfg t0 hsz) hk h0 hr
  have hc' : s.cfg = cfg := by rw [hc]; rfl
  have := he.2 ⟨hopen, hnstop⟩
  rw [hc'] at this; exact this

/-- **C09 (no timeout, no ticks).** With `Timeout ≤ 0` a ticker firing is not even possible. -/
theorem c09_untimed_no_tick (s : JSt) (t : Nat) (h : s.cfg.timeout = 0) : jstep s (.tick t) = none := by
  unfold jstep
  split <;> simp_all

/-- **C09 (unite, untimed: every slice is maximal).** In copy mode, handling the input
    slice `xs` emits the accumulated buffer BEFORE `xs` only if `xs` would not have fitted
    (or is itself at least JoinSize long); otherwise `xs` is appended and the buffer is
    emitted only when it has reached JoinSize. -/
theorem c09_unite_maximal (s : JSt) (id : Nat) (xs : List Nat) (t : Nat) (hk : s.cfg.kind = .unite)
    (hc : s.cfg.noCopy = false) (hsmall : xs.length < s.cfg.size) :
    (needPass s xs = true → s.buf.length + xs.length > s.cfg.size ∧
        (jprocess s id xs t).out = s.out ++ [s.buf] ∧ (jprocess s id xs t).buf = xs) ∧
    (needPass s xs = false →
        (s.buf.length + xs.length < s.cfg.size → (jprocess s id xs t).out = s.out ∧ (jprocess s id xs t).buf = s.buf ++ xs) ∧
        (¬ s.buf.length + xs.length < s.cfg.size → s.buf ++ xs ≠ [] →
            (jprocess s id xs t).out = s.out ++ [s.buf ++ xs] ∧ (jprocess s id xs t).buf = [])) := by
  have hng : ¬ xs.length ≥ s.cfg.size := by omega
  constructor
  · intro hnp
    have hb : s.buf ≠ [] := by
      simp only [needPass, Bool.and_eq_true, Bool.not_eq_true', List.isEmpty_eq_false_iff] at hnp
      exact hnp.2
    have hover : s.buf.length + xs.length > s.cfg.size := by
      simp only [needPass, Bool.and_eq_true, Bool.or_eq_true, decide_eq_true_eq] at hnp
      rcases hnp.1 with h | h <;> omega
    refine ⟨hover, ?_⟩
    unfold jprocess
    simp only [hk, hnp, if_true, hc, Bool.false_eq_true, if_false]
    rw [jpass_copy_eq (jlog s xs) t false none (by simpa [jlog] using hb) (by simpa [jlog] using hc)]
    unfold jcont
    simp only [jlog, hng, if_false]
    rw [jappendPath_stay_eq _ xs t (by simpa using hsmall)]
    simp
  · intro hnp
    unfold jprocess
    simp only [hk, hnp, Bool.false_eq_true, if_false]
    unfold jcont
    simp only [jlog, hng, if_false]
    constructor
    · intro hlt
      rw [jappendPath_stay_eq _ xs t (by simpa using hlt)]
      simp
    · intro hlt hne
      rw [jappendPath_full_eq _ xs t (by simpa using hlt)]
      rw [jpass_copy_eq _ t false none (by simpa using hne) (by simpa using hc)]
      simp

/-- **C09 (timed): a ticker firing cuts a slice short only when `Timeout` has elapsed
    since `passAt`.** -/
theorem c09_tick_needs_timeout (s s' : JSt) (t : Nat) (hs : jstep s (.tick t) = some s')
    (hem : s'.out ≠ s.out) : s.cfg.timeout ≤ t - s.passAt ∧ s.cfg.timeout ≠ 0 := by
  cases hpc : s.pc with
  | run =>
    simp only [jstep, hpc] at hs
    split at hs
    · cases hs
    · rename_i h0
      split at hs
      · rename_i hge; exact ⟨hge, h0⟩
      · cases hs; exact absurd rfl hem
  | await n => simp [jstep, hpc] at hs
  | done => simp [jstep, hpc] at hs

/-- **C09 (timed): every emission resets `passAt` to (at least) the reading of the emission**
    — copy mode: at once; no-copy mode: when the release arrives (a later reading).  Together
    with `c09_tick_needs_timeout`: a slice cut short by a ticker firing at reading `t` satisfies
    `t ≥ passAt + Timeout ≥ (reading of the previous emission) + Timeout`. -/
theorem c09_passAt_at_emission (s : JSt) (t : Nat) (tk : Bool) (hb : s.buf ≠ []) (hc : s.cfg.noCopy = false) :
    (jpass s t tk none).passAt = t ∧ (jpass s t tk none).emitAt = s.emitAt ++ [t] := by
  rw [jpass_copy_eq s t tk none hb hc]; exact ⟨rfl, rfl⟩

theorem c09_passAt_at_release (s s' : JSt) (n : Option (Nat × List Nat)) (t : Nat) (hpc : s.pc = .await n)
    (hn : n = none) (hs : jstep s (.release t) = some s') : s'.passAt = t := by
  subst hn
  simp only [jstep, hpc, Option.some.injEq] at hs
  subst hs
  split <;> simp [jafterPass]

/-! Non-vacuity -/
example :
    (jrun (jinit ⟨.join, 3, 100, false, false⟩ 0)
      [.item 1 [1] 1, .item 2 [2] 2, .item 3 [3] 3, .item 4 [4] 4, .tick 50, .tick 200, .item 5 [5] 201]).map
      (fun s => (s.out, s.byTick, s.buf)) = some ([[1, 2, 3], [4]], [false, true], [5]) := by decide

end Cqos.C09
